package main

import (
	"bytes"
	"context"
	"crypto/sha512"
	"encoding/hex"
	"errors"
	"fmt"
	"io"
	"os"
	"path/filepath"
	"sort"
	"strconv"
	"strings"
	"time"

	"github.com/google/gce-tcb-verifier/cmd"
	"github.com/google/gce-tcb-verifier/cmd/output"
	"github.com/google/gce-tcb-verifier/endorse"
	"github.com/google/gce-tcb-verifier/keys"
	epb "github.com/google/gce-tcb-verifier/proto/endorsement"
	vpb "github.com/google/gce-tcb-verifier/proto/scrtmversion"
	"github.com/google/gce-tcb-verifier/storage/local"
	"github.com/google/uuid"
	"github.com/spf13/cobra"
	"google.golang.org/protobuf/proto"
)

// The whole `endorse` command, one command line at a time (streams c06cli, c15cli): cmd.MakeApp(…) is run on
// the flags of a cliCase, in a scratch directory holding the firmware image and whatever side files the case
// names, with the recording doubles of c15 installed as application components.  Every run is written as one
// `cli op=run …` protocol line carrying the flag values, the file-system state and the environment, and is
// compared with the Lean model of the command (Model/EndorseCli.lean: cliRun = virtualFirmware ∘ requestOf ∘ ecOf):
//
//	phase   how far the command got: parse (cobra rejected the flags), prerun (PersistentPreRunE), init
//	        (InitContext), run (endorse.VirtualFirmware was entered) — observed by instrumented components placed
//	        before and after endorseCommand in the composition, not read off error texts
//	cls     for prerun / init: which check refused (coarse class derived from the distinctive flag or file name
//	        in the message)
//	req     the endorse.Context handed to endorse.VirtualFirmware, field by field (captured by the last component's
//	        InitContext), and output.AllowOverwrite
//	res/eff result class and the merged effect log of the doubles (as stream c15)
//
// Direct oracles (statements on the implementation alone) are in cliOracle.

type cliCase struct {
	im      *c06Image
	uefi    string // value of --uefi, relative to the scratch directory ("" = flag not given)
	noImage bool   // no file at --uefi
	addSnp  bool
	addTdx  bool
	cand    string
	branch  string
	cl      string  // text of --clspec ("" = not given)
	commit  *string // text of --commit (nil = not given)
	retries string  // text of --commit_retries ("" = not given, default 5)
	outDir  string  // --out_dir ("" = not given)
	dry     bool
	mo      bool
	ow      bool
	early   bool
	ts      []string // every --timestamp occurrence
	fam     string
	iid     string
	vm      string   // text of --snp_launch_vmsas ("" = not given)
	prod    []string // every --snp_product occurrence
	shapes  []string
	snap    string
	svsm    string            // --svsm_path
	svsmM   string            // --svsm_snp_measurement_path
	files   map[string][]byte // further files in the scratch directory: side files, SVSM files
	// behaviour of the application's other components (true = that hook fails)
	gpreFail, apreFail, ginitFail, ainitFail bool
	// environment
	rndSeed uint64
	exists  bool
	mread   byte
	tag     string // generator tag for the histogram
	// argv, when not nil, is handed to the root command as it is instead of cliArgs(cs) (stream argvend: the other
	// fields then say what that argv MEANS, for the protocol line's environment and the direct oracle)
	argv []string
}

type cliResult struct {
	phase, cls string
	req        string
	ec         *endorse.Context // as captured (shallow copy; requests deep-copied)
	ow         bool
	res        string
	effs       []string
	stdout     []string
	signed     []string
	v0         *c14VCS
	panicTop   string
	errText    string
	before     time.Time
	after      time.Time
}

const cliFakeNow = "1790000000.250000000" // what the line says time.Now() was; the real clock reading is canonicalised to it
const cliFakeNowSec = "1790000000"

var cliErrForced = errors.New("verif: scripted component failure")

func cliOcc(l []string) string {
	var p []string
	for _, s := range l {
		if s == "" {
			s = "_"
		}
		p = append(p, s)
	}
	return strings.Join(p, ",")
}

// cliClass maps an error of the command to the coarse class of the check that refused.
func cliClass(phase string, err error) string {
	if err == nil || (phase != "prerun" && phase != "init") {
		return "-"
	}
	s := err.Error()
	has := func(x string) bool { return strings.Contains(s, x) }
	switch {
	case errors.Is(err, cliErrForced):
		return "forced" // replaced by the caller: which component was scripted to fail
	case has("expected --uefi"):
		return "no-uefi"
	case has("must end with .fd"):
		return "uefi-suffix"
	case has("--family_id"):
		return "family_id"
	case has("--image_id"):
		return "image_id"
	case has("--commit must be"):
		return "commit-length"
	case has("could not read UEFI"):
		return "read-uefi"
	case has("could not read SVSM file"):
		return "read-svsm"
	case has("could not read SVSM SNP measurement"):
		return "read-svsm-measurement"
	case has("could not parse SVSM SNP measurement"):
		return "svsm-measurement-hex"
	case has("SVSM IGVM measurement"):
		return "svsm-measurement-size"
	case phase == "prerun":
		return "scrtm" // the only remaining refusal of PersistentPreRunE: proto.Unmarshal of the side file
	}
	return "other"
}

func cliArgs(cs cliCase) []string {
	if cs.argv != nil {
		return cs.argv
	}
	args := []string{"endorse", "--quiet"}
	add := func(a ...string) { args = append(args, a...) }
	if cs.uefi != "" {
		add("--uefi", cs.uefi)
	}
	if cs.outDir != "" {
		add("--out_dir", cs.outDir)
	}
	if cs.cl != "" {
		add("--clspec", cs.cl)
	}
	if cs.commit != nil {
		add("--commit=" + *cs.commit)
	}
	if cs.retries != "" {
		add("--commit_retries=" + cs.retries)
	}
	for _, t := range cs.ts {
		add("--timestamp=" + t)
	}
	if cs.addSnp {
		add("--add_snp")
	}
	if cs.addTdx {
		add("--add_tdx")
	}
	if cs.vm != "" {
		add("--snp_launch_vmsas", cs.vm)
	}
	for _, p := range cs.prod {
		add("--snp_product=" + p)
	}
	if cs.iid != "" {
		add("--snp_image_id", cs.iid)
	}
	if cs.fam != "" {
		add("--snp_family_id", cs.fam)
	}
	if len(cs.shapes) > 0 {
		add("--tdx_machine_shapes", strings.Join(cs.shapes, ","))
	}
	if cs.early {
		add("--tdx_include_early_accept")
	}
	if cs.dry {
		add("--dry_run")
	}
	if cs.mo {
		add("--measurement_only")
	}
	if cs.snap != "" {
		add("--snapshot_dir", cs.snap)
	}
	if cs.cand != "" {
		add("--candidate_name", cs.cand)
	}
	if cs.branch != "" {
		add("--release_branch", cs.branch)
	}
	if cs.ow {
		add("--overwrite")
	}
	if cs.svsm != "" {
		add("--svsm_path", cs.svsm)
	}
	if cs.svsmM != "" {
		add("--svsm_snp_measurement_path", cs.svsmM)
	}
	return args
}

// cliProducts: the product numbers the command line can select (for the measurement tables of the line).
var cliProductNames = map[string]int{"Milan": 1, "Genoa": 2, "Turin": 3}

func cliLine(cs cliCase) string {
	r := cs
	var fs []string
	names := make([]string, 0, len(cs.files))
	for p := range cs.files {
		names = append(names, p)
	}
	sort.Strings(names)
	for _, p := range names {
		fs = append(fs, p+"@"+hx(cs.files[p]))
	}
	var tsp []string
	seen := map[string]bool{}
	for _, t := range cs.ts {
		if t == "" || seen[t] {
			continue
		}
		seen[t] = true
		v, err := time.Parse(time.RFC3339, t)
		if err != nil {
			tsp = append(tsp, t+"@E")
		} else {
			tsp = append(tsp, fmt.Sprintf("%s@%d.%d", t, v.Unix(), v.Nanosecond()))
		}
	}
	att := c14Attempt{failAt: -1, exists: cs.exists, mread: cs.mread}
	if cs.mread == 'M' {
		att.entries = []mEntry{{"rc7.binarypb", "b1", "1"}}
	}
	script := c14ShowScript([]c14Attempt{att, att, att})
	// measurement tables by direct calls, for every count / product / shape the command line can name
	var lds, mrs []string
	prods := map[int]bool{1: true}
	for _, p := range cs.prod {
		if n, ok := cliProductNames[p]; ok {
			prods[n] = true
		}
	}
	var counts []uint32
	if v, err := strconv.ParseUint(cs.vm, 10, 32); err == nil && v != 0 {
		counts = []uint32{uint32(v)}
	} else {
		counts = c06SupportedCounts
	}
	for _, pr := range []int{1, 2, 3} {
		if !prods[pr] {
			continue
		}
		for _, k := range counts {
			v := "E"
			if d := cs.im.launchDigest(k, pr); d != nil {
				v = hx(d)
			}
			lds = append(lds, fmt.Sprintf("%d/%d:%s", k, pr, v))
		}
	}
	for _, s := range cs.shapes {
		for _, m := range []string{"b", "e"} {
			v := "E"
			if d := cs.im.mrtd(s, m); d != nil {
				v = hx(d)
			}
			mrs = append(mrs, s+"/"+m+":"+v)
		}
	}
	v := "E"
	if d := cs.im.mrtd("", "d"); d != nil {
		v = hx(d)
	}
	mrs = append(mrs, "/d:"+v)
	commit := ""
	if cs.commit != nil {
		commit = *cs.commit
	}
	cl, vm, retries := cs.cl, cs.vm, cs.retries
	if cl == "" {
		cl = "0"
	}
	if vm == "" {
		vm = "0"
	}
	if retries == "" {
		retries = "5"
	}
	return fmt.Sprintf("cli op=run add_snp=%s add_tdx=%s uefi=%s svsm_path=%s svsm_meas_path=%s cand=%s branch=%s cl=%s commit=%s retries=%s out=%s "+
		"dry=%s ts=%s fam=%s iid=%s vm=%s prod=%s early=%s shapes=%s mo=%s snap=%s ow=%s "+
		"fs=%s imgok=%s tsparse=%s now=%s rnd=%s root=R gpre=%s apre=%s ginit=%s ainit=%s keys=full caerr=none signerr=0 vcs=%s vcss= ld=%s mrtd=%s img=%s",
		b2s(r.addSnp), b2s(r.addTdx), r.uefi, r.svsm, r.svsmM, r.cand, r.branch, cl, commit, retries, r.outDir,
		b2s(r.dry), cliOcc(r.ts), r.fam, r.iid, vm, cliOcc(r.prod), b2s(r.early), strings.Join(r.shapes, ","), b2s(r.mo), r.snap, b2s(r.ow),
		strings.Join(fs, ";"), b2s(!r.noImage), strings.Join(tsp, ";"), cliFakeNow, c06ExpectedRandomUUID(r.rndSeed),
		b2s(!r.gpreFail), b2s(!r.apreFail), b2s(!r.ginitFail), b2s(!r.ainitFail), script,
		strings.Join(lds, ";"), strings.Join(mrs, ";"), hx(r.im.fw))
}

func cliShortLine(line string) string {
	if i := strings.Index(line, " ld="); i > 0 {
		return line[:i] + " ld=<direct> mrtd=<direct> img=<generated>"
	}
	return line
}

// cliShowTime renders a timestamp; a reading of the wall clock taken during the run is rendered as the line's now=.
func cliShowTime(t time.Time, before, after time.Time) string {
	if !t.Before(before.Add(-time.Second)) && !t.After(after.Add(time.Second)) {
		return cliFakeNow
	}
	return fmt.Sprintf("%d.%d", t.Unix(), t.Nanosecond())
}

func cliShowEC(ec *endorse.Context, ow bool, before, after time.Time) string {
	snp, tdx := "-", "-"
	if ec.SevSnp != nil {
		s := ec.SevSnp
		snp = fmt.Sprintf("%d/%s/%s/%d/%d", s.Svn, s.FamilyID, s.ImageID, s.LaunchVmsas, int32(s.Product))
	}
	if ec.Tdx != nil {
		t := ec.Tdx
		tdx = fmt.Sprintf("%d/%s/%s", t.Svn, b2s(t.IncludeEarlyAccept), strings.Join(t.MachineShapes, "+"))
	}
	d := cliSha384(ec.Image)
	return fmt.Sprintf("snp=%s tdx=%s cl=%d commit=%s cand=%s branch=%s ts=%s retries=%d out=%s dry=%s mo=%s snap=%s imgname=%s img=%s svsmimg=%d svsm_m=%s ow=%s",
		snp, tdx, ec.ClSpec, hx(ec.Commit), ec.CandidateName, ec.ReleaseBranch, cliShowTime(ec.Timestamp, before, after), ec.CommitRetries, ec.OutDir,
		b2s(ec.DryRun), b2s(ec.MeasurementOnly), ec.SnapshotDir, ec.ImageName, hx(d), len(ec.SvsmImage), hx(ec.SvsmSnpMeasurement), b2s(ow))
}

// cliRun executes one command line in dir (which is made the working directory by the caller).
func cliRun(cs cliCase, dir string) (cliResult, string) {
	// ---- file system ----
	ents, _ := os.ReadDir(dir)
	for _, e := range ents {
		os.RemoveAll(filepath.Join(dir, e.Name()))
	}
	put := func(rel string, b []byte) {
		p := filepath.Join(dir, rel)
		if err := os.MkdirAll(filepath.Dir(p), 0755); err != nil {
			panic(err)
		}
		if err := os.WriteFile(p, b, 0644); err != nil {
			panic(err)
		}
	}
	if cs.uefi != "" && !cs.noImage {
		put(cs.uefi, cs.im.fw)
	}
	for p, b := range cs.files {
		put(p, b)
	}
	line := cliLine(cs)

	// ---- doubles and instrumented components ----
	signer, ca := memKeys()
	clock := 0
	var log []c15Eff
	rec := c15Rec{&clock, &log}
	var signed []string
	att := c14Attempt{failAt: -1, exists: cs.exists, mread: cs.mread}
	if cs.mread == 'M' {
		att.entries = []mEntry{{"rc7.binarypb", "b1", "1"}}
	}
	v0 := &c14VCS{script: []c14Attempt{att, att, att}, attempt: -1, clock: &clock, files: map[string][]byte{}}
	var gpre, apre, ginit, ainit bool
	var captured *endorse.Context
	var capturedOw bool
	app := &cmd.AppComponents{
		Global: &cmd.PartialComponent{
			FPersistentPreRunE: func(*cobra.Command, []string) error {
				gpre = true
				if cs.gpreFail {
					return cliErrForced
				}
				return nil
			},
			FInitContext: func(ctx context.Context) (context.Context, error) {
				ginit = true
				if cs.ginitFail {
					return nil, cliErrForced
				}
				return keys.NewContext(ctx, &keys.Context{CA: &c15CA{ca, rec}, Signer: &c15Signer{signer, rec, &signed}, Random: &Rng{s: 3}}), nil
			}},
		Endorse: &cmd.PartialComponent{
			FPersistentPreRunE: func(*cobra.Command, []string) error {
				apre = true
				if cs.apreFail {
					return cliErrForced
				}
				return nil
			},
			FInitContext: func(ctx context.Context) (context.Context, error) {
				ainit = true
				if cs.ainitFail {
					return nil, cliErrForced
				}
				return ctx, cmd.EndorseSet(ctx, func(ec *endorse.Context) {
					cp := *ec
					if ec.SevSnp != nil {
						s := *ec.SevSnp
						cp.SevSnp = &s
					}
					if ec.Tdx != nil {
						t := *ec.Tdx
						t.MachineShapes = append([]string{}, ec.Tdx.MachineShapes...)
						cp.Tdx = &t
					}
					captured = &cp
					capturedOw = output.AllowOverwrite(ctx)
					ec.VCS = v0
				})
			}},
		Bootstrap:       &cmd.PartialComponent{},
		Rotate:          &cmd.PartialComponent{},
		Wipeout:         &cmd.PartialComponent{},
		SignatureRandom: &Rng{s: 4},
		Storage:         &local.StorageClient{},
	}
	uuid.SetRand(&Rng{s: cs.rndSeed})
	var err error
	var panicked bool
	var stack string
	before := time.Now()
	out := captureStdout(func() {
		panicked, _, stack = Guard(func() {
			root := cmd.MakeApp(context.Background(), app)
			root.SetOut(io.Discard)
			root.SetErr(io.Discard)
			root.SetArgs(cliArgs(cs))
			err = root.Execute()
		})
	})
	after := time.Now()
	res := cliResult{res: "ok", signed: signed, v0: v0, before: before, after: after, ec: captured, ow: capturedOw}
	switch {
	case !gpre:
		res.phase = "parse"
	case !apre || cs.apreFail:
		res.phase = "prerun"
	case !ainit || cs.ainitFail || captured == nil:
		res.phase = "init"
	default:
		res.phase = "run"
	}
	_ = ginit
	if panicked {
		res.res, res.phase = "panic", "panic"
		res.panicTop = "unknown"
		for _, l := range strings.Split(stack, "\n") {
			if strings.Contains(l, "gce-tcb-verifier/") && !strings.Contains(l, "verif-harness") && strings.Contains(l, "(") {
				f := l[:strings.LastIndex(l, "(")]
				res.panicTop = tok(f[strings.LastIndex(f, "/")+1:])
				break
			}
		}
	} else if err != nil {
		res.res = "err"
		res.errText = err.Error()
	}
	if err == nil && res.phase != "run" && !panicked {
		res.phase = "run" // a command that returns success was not refused, whatever the instrumentation saw
	}
	res.cls = cliClass(res.phase, err)
	if res.cls == "forced" {
		// the composition is (app.Global, endorseCommand, app.Endorse): the hook of app.Endorse was reached iff the two before it passed
		switch {
		case res.phase == "prerun" && apre, res.phase == "init" && ainit:
			res.cls = "app"
		default:
			res.cls = "global"
		}
	}
	res.req = "-"
	if res.phase == "run" && captured != nil {
		res.req = "[" + cliShowEC(captured, capturedOw, before, after) + "]"
	}
	// the time of the new manifest entry, when it is the wall clock's, is canonicalised like the request's timestamp
	if captured != nil && cliShowTime(captured.Timestamp, before, after) == cliFakeNow {
		obs := fmt.Sprint(captured.Timestamp.Unix())
		for i := range v0.log {
			for j := range v0.log[i].manifest {
				if v0.log[i].manifest[j].time == obs {
					v0.log[i].manifest[j].time = cliFakeNowSec
				}
			}
		}
	}
	type item struct {
		seq int
		s   string
	}
	var items []item
	for _, e := range log {
		items = append(items, item{e.seq, e.s})
	}
	for _, e := range v0.log {
		items = append(items, item{e.seq, "v0:" + c14ShowLog([]c14Ev{e})})
	}
	sort.Slice(items, func(a, b int) bool { return items[a].seq < items[b].seq })
	for _, it := range items {
		res.effs = append(res.effs, it.s)
	}
	for _, l := range strings.Split(out, "\n") {
		if l != "" {
			res.stdout = append(res.stdout, l)
		}
	}
	lines := append([]string{}, res.stdout...)
	// Go map iteration order of the default VMSA listing: sort "count hex" lines numerically
	n := 0
	for n < len(lines) && !strings.HasPrefix(lines[n], "RAM:") {
		n++
	}
	if n > 1 {
		sort.SliceStable(lines[:n], func(a, b int) bool {
			x, _ := strconv.Atoi(strings.SplitN(lines[a], " ", 2)[0])
			y, _ := strconv.Atoi(strings.SplitN(lines[b], " ", 2)[0])
			return x < y
		})
	}
	for _, l := range lines {
		res.effs = append(res.effs, "out:"+strings.ReplaceAll(l, " ", "_"))
	}
	return res, line
}

func (r cliResult) impl() string {
	return fmt.Sprintf("phase=%s cls=%s req=%s res=%s eff=%s", r.phase, r.cls, r.req, r.res, strings.Join(r.effs, ","))
}

// ---- what the command line NAMES, derived independently of the command (for the direct oracle) ----

type cliExpect struct {
	svn       uint32 // SVN of the side file (lookup order: <stem>_scrtm_ver.pb, then <image>.scrtm.pb), 0 when absent
	corrupt   bool   // the side file that is consulted does not decode
	prod      int
	prodBad   bool
	vm        uint32
	numBad    bool // a numeric flag is out of range
	cl        uint64
	commit    []byte
	commitBad bool // not hex, or neither empty nor 20 bytes
	ts        *time.Time
	tsBad     bool
	idBad     bool // --add_snp with a malformed family or image id
	uefiBad   bool
	svsmM     []byte
	svsmBad   bool
	retries   int
}

// cliSidePaths: the two documented spellings of the S_CRTM side file, beside the image: <stem>_scrtm_ver.pb (the image
// name with its ".fd" extension replaced) and <image>.scrtm.pb.
func cliSidePaths(uefi string) (string, string) {
	return strings.TrimSuffix(uefi, ".fd") + "_scrtm_ver.pb", uefi + ".scrtm.pb"
}

func cliExpected(cs cliCase) cliExpect {
	var e cliExpect
	e.uefiBad = cs.uefi == "" || !strings.HasSuffix(cs.uefi, ".fd")
	p1, p2 := cliSidePaths(cs.uefi)
	var side []byte
	if b, ok := cs.files[p1]; ok {
		side = b
	} else if b, ok := cs.files[p2]; ok {
		side = b
	}
	if len(side) > 0 {
		v := &vpb.SCRTMVersion{}
		if err := proto.Unmarshal(side, v); err != nil {
			e.corrupt = true
		} else {
			e.svn = uint32(v.Version)
		}
	}
	e.prod = 1
	for _, p := range cs.prod {
		if p == "" {
			continue
		}
		if n, ok := cliProductNames[p]; ok {
			e.prod = n
		} else {
			e.prodBad = true
		}
	}
	if cs.vm != "" {
		v, err := strconv.ParseUint(cs.vm, 10, 32)
		e.vm, e.numBad = uint32(v), err != nil
	}
	if cs.cl != "" {
		v, err := strconv.ParseUint(cs.cl, 10, 64)
		e.cl = v
		e.numBad = e.numBad || err != nil
	}
	e.retries = 5
	if cs.retries != "" {
		v, err := strconv.ParseInt(cs.retries, 10, 64)
		e.retries = int(v)
		e.numBad = e.numBad || err != nil
	}
	if cs.commit != nil {
		b, err := hex.DecodeString(*cs.commit)
		e.commit = b
		e.commitBad = err != nil || (len(b) != 0 && len(b) != 20)
	}
	// --timestamp may be given once: any further occurrence (even an empty one) after a time has been stored is refused;
	// an empty value before that is ignored (documented by ErrTimeAlreadySet and the flag's tests)
	for _, t := range cs.ts {
		if e.ts != nil && !e.ts.IsZero() {
			e.tsBad = true
			break
		}
		if t == "" {
			continue
		}
		v, err := time.Parse(time.RFC3339, t)
		if err != nil {
			e.tsBad = true
			break
		}
		e.ts = &v
	}
	if cs.addSnp {
		for _, id := range []string{cs.fam, cs.iid} {
			if id != "" {
				if _, err := uuid.Parse(id); err != nil {
					e.idBad = true
				}
			}
		}
	}
	if cs.svsmM != "" {
		b, ok := cs.files[cs.svsmM]
		m, err := hex.DecodeString(strings.TrimSpace(string(b)))
		e.svsmM = m
		e.svsmBad = !ok || err != nil || len(m) != 48
	}
	if cs.svsm != "" {
		if _, ok := cs.files[cs.svsm]; !ok {
			e.svsmBad = true
		}
	}
	return e
}

// invalid: the command line (with its files) must be refused, and why.
func (e cliExpect) invalid(cs cliCase) string {
	switch {
	case e.numBad:
		return "numeric-flag-out-of-range"
	case e.tsBad:
		return "timestamp"
	case e.prodBad:
		return "unknown-product"
	case cs.commit != nil && e.commitBad:
		return "commit"
	case e.uefiBad:
		return "uefi"
	case e.corrupt:
		return "corrupt-side-file"
	case e.idBad:
		return "malformed-id"
	case cs.noImage:
		return "image-unreadable"
	case e.svsmBad:
		return "svsm"
	}
	return ""
}

func cliSha384(b []byte) []byte {
	d := sha512.Sum384(b)
	return d[:]
}

// cliOracle: the clauses of C06 / C15 on one run of the command, on the implementation alone. prefix is the
// stream's signature prefix ("c06/cli" or "c15/cli").
func cliOracle(c *Ctx, prefix string, cs cliCase, res cliResult, line string) (wrote bool) {
	short := cliShortLine(line)
	find := func(clause, what string) { c.Find(prefix+"/"+clause, what, short) }
	e := cliExpected(cs)
	why := e.invalid(cs)
	compFail := cs.gpreFail || cs.apreFail || cs.ginitFail || cs.ainitFail
	if res.res == "panic" {
		find("panic/"+res.panicTop, "the endorse command panicked (top repository frame "+res.panicTop+")")
		return
	}
	files := len(res.v0.files)
	// ---- refused command lines: refused, and before any effect ----
	if why != "" && res.phase == "run" {
		find("accepted-invalid/"+why, "a command line that must be refused ("+why+") reached endorse.VirtualFirmware")
	}
	if res.phase != "run" {
		if len(res.effs) != 0 || files != 0 || len(res.signed) != 0 {
			find("refused-after-effect/"+res.phase, "the command was refused in phase "+res.phase+" after an effect: "+strings.Join(res.effs, ","))
		}
		if why == "" && !compFail {
			find("refused-valid/"+res.phase+"-"+res.cls, "a well-formed command line was refused: "+res.errText)
		}
		return
	}
	// ---- the request handed to the pipeline names what the command line names ----
	if ec := res.ec; ec != nil && why == "" {
		if (ec.SevSnp != nil) != cs.addSnp || (ec.Tdx != nil) != cs.addTdx {
			find("request/technology", "the request's technology sections are not the --add_snp / --add_tdx of the command line")
		}
		if s := ec.SevSnp; s != nil && cs.addSnp {
			if s.Svn != e.svn {
				find("request/snp-svn", fmt.Sprintf("SEV-SNP request carries SVN %d, the side file says %d", s.Svn, e.svn))
			}
			if int(s.Product) != e.prod || s.LaunchVmsas != e.vm || s.FamilyID != cs.fam || s.ImageID != cs.iid {
				find("request/snp-fields", "SEV-SNP product / VMSA count / ids are not the ones named on the command line")
			}
		}
		if t := ec.Tdx; t != nil && cs.addTdx {
			if t.Svn != e.svn {
				find("request/tdx-svn", fmt.Sprintf("TDX request carries SVN %d, the side file says %d", t.Svn, e.svn))
			}
			if t.IncludeEarlyAccept != cs.early || strings.Join(t.MachineShapes, ",") != strings.Join(cs.shapes, ",") {
				find("request/tdx-fields", "TDX machine shapes / early accept are not the ones named on the command line")
			}
		}
		if ec.ClSpec != e.cl || !bytes.Equal(ec.Commit, e.commit) {
			find("request/provenance", "clspec / commit are not the ones named on the command line")
		}
		if ec.DryRun != cs.dry || ec.MeasurementOnly != cs.mo || res.ow != cs.ow {
			find("request/mode-flags", "--dry_run / --measurement_only / --overwrite did not reach the request")
		}
		if ec.SnapshotDir != cs.snap || ec.CandidateName != cs.cand || ec.OutDir != cs.outDir || ec.CommitRetries != e.retries ||
			ec.ImageName != filepath.Base(cs.uefi) {
			find("request/commit-fields", "snapshot dir / candidate / out dir / retries / image name are not the ones named on the command line")
		}
		if !bytes.Equal(ec.Image, cs.im.fw) || !bytes.Equal(ec.SvsmSnpMeasurement, e.svsmM) {
			find("request/image", "the image / SVSM measurement in the request are not the files named on the command line")
		}
		if e.ts != nil && !e.ts.IsZero() {
			if !ec.Timestamp.Equal(*e.ts) {
				find("request/timestamp", "the request's timestamp is not the --timestamp of the command line")
			}
		} else if ec.Timestamp.Before(res.before.Add(-time.Second)) || ec.Timestamp.After(res.after.Add(time.Second)) {
			find("request/timestamp-default", "without --timestamp the request's timestamp is not the time of the run")
		}
	}
	// ---- effect freedom (C15) ----
	for _, ef := range res.effs {
		isVcs := strings.HasPrefix(ef, "v0:")
		call := ""
		if isVcs {
			call = strings.SplitN(ef[3:], "@", 2)[0]
		}
		if cs.dry && isVcs && call != "result" {
			find("dry-run-side-effect/"+call, "with --dry_run the back end saw a "+call+" call")
		}
		if cs.dry && isVcs && call == "result" && strings.Split(ef[3:], "@")[2] == "1" {
			find("dry-run-side-effect/commit-recorded", "with --dry_run a commit was handed to Result")
		}
		if cs.mo && !strings.HasPrefix(ef, "out:") {
			cls := "vcs"
			if strings.HasPrefix(ef, "ca.") {
				cls = "ca"
			} else if strings.HasPrefix(ef, "sign") {
				cls = "signer"
			}
			find("measurement-only-side-effect/"+cls, "with --measurement_only the "+cls+" double was called: "+ef)
		}
		if !cs.mo && strings.HasPrefix(ef, "out:") {
			find("stdout-without-measurement-only", "a run without --measurement_only printed on standard output")
		}
	}
	for _, a := range res.v0.anomalies {
		find("backend-misuse/"+strings.SplitN(a, ":", 2)[0], "the VersionControl double observed: "+a)
	}
	if cs.dry && files > 0 {
		find("dry-run-side-effect/file-written", "with --dry_run a file was written")
	}
	if cs.mo && (files > 0 || len(res.signed) > 0) {
		find("measurement-only-side-effect/signed-or-written", "with --measurement_only a document was signed or a file written")
	}
	// ---- completion and the document ----
	r := c06Req{im: cs.im, snp: cs.addSnp, tdx: cs.addTdx, svn: e.svn, tsvn: e.svn, fam: cs.fam, iid: cs.iid, vm: e.vm, prod: e.prod,
		early: cs.early, shapes: cs.shapes, cl: e.cl, commit: e.commit, svsm: e.svsmM, rndSeed: cs.rndSeed}
	if len(e.commit) == 0 {
		r.commit = nil
	}
	measOK, _ := c06Constituents(r)
	backendOK := cs.snap != "" || cs.ow || !cs.exists
	if why == "" && measOK && (cs.mo || cs.dry || backendOK) && res.res != "ok" {
		find("does-not-complete", "the run failed although the command line is well-formed and measuring, signing and the back end succeed: "+res.errText)
	}
	if !measOK && res.res == "ok" {
		find("success-despite-failed-measurement", "the run succeeded although a constituent measurement fails or no technology is requested")
	}
	if !measOK && (len(res.effs) != 0 || files != 0 || len(res.signed) != 0) {
		find("effect-despite-failed-measurement", "a run whose measurement fails (or that names no technology) had an effect: "+strings.Join(res.effs, ","))
	}
	if cs.mo && measOK && why == "" {
		var want []string
		if r.snp {
			if r.vm != 0 {
				want = append(want, hx(r.im.launchDigest(r.vm, r.prod)))
			} else {
				for _, k := range c06SupportedCounts {
					want = append(want, fmt.Sprintf("%d %s", k, hx(r.im.launchDigest(k, r.prod))))
				}
			}
		}
		if r.tdx {
			for _, s := range r.shapes {
				want = append(want, fmt.Sprintf("RAM:%d UnacceptedMemory:true MRTD:%s", c06ShapeRAM[s], hx(r.im.mrtd(s, "b"))))
				if r.early {
					want = append(want, fmt.Sprintf("RAM:%d UnacceptedMemory:false MRTD:%s", c06ShapeRAM[s], hx(r.im.mrtd(s, "e"))))
				}
			}
			want = append(want, fmt.Sprintf("RAM:0 UnacceptedMemory:true MRTD:%s", hx(r.im.mrtd("", "d"))))
		}
		got := append([]string{}, res.stdout...)
		sort.Strings(got)
		sort.Strings(want)
		if strings.Join(got, "|") != strings.Join(want, "|") {
			find("measurement-only-values", "the printed measurements are not the independently recomputed measurements of this image for the named configuration")
		}
	}
	if !cs.mo && measOK && why == "" && len(res.signed) != 1 {
		find("signed-count", fmt.Sprintf("%d documents were signed", len(res.signed)))
	}
	for p, b := range res.v0.files {
		if strings.HasSuffix(p, ".binarypb") || strings.HasSuffix(p, ".signed") {
			en := &epb.VMLaunchEndorsement{}
			g := &epb.VMGoldenMeasurement{}
			if proto.Unmarshal(b, en) != nil || proto.Unmarshal(en.SerializedUefiGolden, g) != nil {
				find("written-endorsement-undecodable", "the endorsement file does not decode")
				continue
			}
			wrote = true
			c06OracleGolden(c, r, g, c06ExpectedRandomUUID(cs.rndSeed), func(entry, clause, what string) {
				find("written-document/"+clause, what)
			}, "endorse-command")
			gt := g.GetTimestamp().AsTime()
			if e.ts != nil && !e.ts.IsZero() {
				if !gt.Equal(*e.ts) {
					find("written-document/timestamp", "the document's timestamp is not the --timestamp of the command line")
				}
			} else if gt.Before(res.before.Add(-time.Second)) || gt.After(res.after.Add(time.Second)) {
				find("written-document/timestamp-default", "without --timestamp the document's timestamp is not the time of the run")
			}
		}
	}
	if res.res == "ok" && !cs.mo && !cs.dry && !wrote {
		find("no-document-written", "the run succeeded but no endorsement file was written")
	}
	return wrote
}

// cliSideFile marshals an S_CRTM version file.
func cliSideFile(v uint32) []byte {
	b, _ := proto.Marshal(&vpb.SCRTMVersion{Version: vpb.FirmwareVersion_Version(v)})
	return b
}

// cliWithDir runs f in a fresh scratch directory made the working directory (flag values are then the relative
// paths that appear on the protocol line), and restores the previous one.
func cliWithDir(f func(dir string)) {
	dir, err := os.MkdirTemp("", "verif-cli-")
	if err != nil {
		panic(err)
	}
	defer os.RemoveAll(dir)
	old, err := os.Getwd()
	if err != nil {
		panic(err)
	}
	if err := os.Chdir(dir); err != nil {
		panic(err)
	}
	defer os.Chdir(old)
	f(dir)
}
