package main

import (
	"context"
	"crypto/x509"
	"fmt"
	"strings"
	"time"

	"github.com/google/gce-tcb-verifier/endorse"
	"github.com/google/gce-tcb-verifier/gcetcbendorsement"
	epb "github.com/google/gce-tcb-verifier/proto/endorsement"
	"github.com/google/gce-tcb-verifier/sev"
	"github.com/google/gce-tcb-verifier/verify"
	sabi "github.com/google/go-sev-guest/abi"
	cpb "github.com/google/go-sev-guest/proto/check"
	spb "github.com/google/go-sev-guest/proto/sevsnp"
	sevtest "github.com/google/go-sev-guest/testing"
	tabi "github.com/google/go-tdx-guest/abi"
	tcpb "github.com/google/go-tdx-guest/proto/checkconfig"
	tpb "github.com/google/go-tdx-guest/proto/tdx"
	"github.com/google/go-tdx-guest/testing/testdata"
	tpmpb "github.com/google/go-tpm-tools/proto/attest"
	"google.golang.org/protobuf/proto"
)

func init() {
	register("c02", "generated measurement tables (any subset of VMSA counts, optional SVSM value, 0-5 TDX rows incl. repeated sizes and "+
		"malformed MRTDs) x report measurements drawn from the table, its one-bit neighbours, truncations and random x requested counts / "+
		"RAM sizes present and absent x expected digests equal / one-bit-off / empty, through verify.SNP, the SNP validator closure over a "+
		"genuinely signed endorsement, SevValidate and TdxValidate. Non-trivial: the golden has the technology section and the presented "+
		"measurement is 48 bytes; distinct by op line.", runC02)
}

func flipBit(b []byte, r *Rng) []byte {
	if len(b) == 0 {
		return b
	}
	c := append([]byte{}, b...)
	c[r.Intn(len(c))] ^= 1 << uint(r.Intn(8))
	return c
}

// pickMeas draws a report measurement: a listed value, a neighbour, a truncation, or random.
func pickMeas(r *Rng, listed [][]byte) ([]byte, string) {
	if len(listed) > 0 {
		m := listed[r.Intn(len(listed))]
		switch r.Intn(8) {
		case 0, 1, 2, 3:
			return m, "listed"
		case 4, 5:
			return flipBit(m, r), "neighbour"
		case 6:
			if len(m) > 1 {
				return m[:len(m)-1], "truncated"
			}
		}
	}
	return measPool(7 + r.Intn(3)), "random"
}

// signGolden signs an arbitrary golden measurement with the process-wide in-memory CA.
func signGolden(g *epb.VMGoldenMeasurement, ts time.Time) (*epb.VMLaunchEndorsement, error) {
	ctx := keysCtx(quietCtx(false), &Rng{s: 11})
	ctx = endorse.NewContext(ctx, &endorse.Context{Timestamp: ts})
	return endorse.SignDoc(ctx, g)
}

func memRoots() *x509.CertPool {
	_, ca := memKeys()
	bundle, err := ca.CABundle(context.Background(), memSignKey)
	if err != nil {
		panic(err)
	}
	pool := x509.NewCertPool()
	if !pool.AppendCertsFromPEM(bundle) {
		panic("bad CA bundle")
	}
	return pool
}

func contains(l [][]byte, m []byte) bool {
	for _, x := range l {
		if string(x) == string(m) {
			return true
		}
	}
	return false
}

// listedForGo is the harness's own statement of "listed for the named VMSA count".
func listedForGo(s *epb.VMSevSnp, n uint32) [][]byte {
	var out [][]byte
	if n == 0 {
		if len(s.GetSvsmMeasurement()) > 0 {
			out = append(out, s.SvsmMeasurement)
		}
		for _, k := range sortedKeys(s.GetMeasurements()) {
			out = append(out, s.Measurements[k])
		}
		return out
	}
	if m, ok := s.GetMeasurements()[n]; ok {
		out = append(out, m)
	}
	if n == 1 && len(s.GetSvsmMeasurement()) > 0 {
		out = append(out, s.SvsmMeasurement)
	}
	return out
}

func snpReport(meas []byte) *spb.Report {
	return &spb.Report{
		Signature: []byte("signature"), Version: 2, GuestSvn: 2,
		ReportData: make([]byte, sabi.ReportDataSize), FamilyId: make([]byte, sabi.FamilyIDSize),
		ImageId: make([]byte, sabi.ImageIDSize), Measurement: meas,
		IdKeyDigest: make([]byte, sabi.IDKeyDigestSize), AuthorKeyDigest: make([]byte, sabi.AuthorKeyDigestSize),
		HostData: make([]byte, sabi.HostDataSize), ReportId: make([]byte, sabi.ReportIDSize),
		ReportIdMa: make([]byte, sabi.ReportIDMASize), ChipId: make([]byte, sabi.ChipIDSize),
		Policy: sabi.SnpPolicyToBytes(sabi.SnpPolicy{}),
	}
}

func runC02(c *Ctx) {
	ctx := quietCtx(false)
	r := c.Rng
	roots := memRoots()
	now := baseTime.Add(48 * time.Hour)
	dfltPolicy := uint64(0)
	{
		gb, _ := proto.Marshal(&epb.VMGoldenMeasurement{SevSnp: &epb.VMSevSnp{}})
		if p, err := gcetcbendorsement.SevPolicy(ctx, &epb.VMLaunchEndorsement{SerializedUefiGolden: gb},
			&gcetcbendorsement.SevPolicyOptions{Overwrite: true, AllowUnspecifiedVmsas: true}); err == nil {
			dfltPolicy = p.Policy
		}
	}
	rawQuote, err := tabi.QuoteToProto(testdata.RawQuote)
	if err != nil {
		panic(err)
	}
	quoteV4 := rawQuote.(*tpb.QuoteV4)
	amd, err := sevtest.DefaultTestOnlyCertChain("Milan", now)
	if err != nil {
		panic(err)
	}

	n := c.N(1500, 40000)
	for i := 0; i < n; i++ {
		// ---------- verify.SNP directly ----------
		var snp *epb.VMSevSnp
		if r.Intn(15) != 0 {
			snp = genSevSnp(r)
			snp.CaBundle = nil
			if snp.Policy == 0 {
				snp.Policy = 0x30000
			}
		}
		golden := &epb.VMGoldenMeasurement{SevSnp: snp, ClSpec: 77, Digest: measPool(9)}
		vmsas := uint32([]int{0, 0, 1, 1, 4, 8, 16, 32}[r.Intn(8)])
		if ks := sortedKeys(snp.GetMeasurements()); len(ks) > 0 && r.Intn(3) != 0 {
			vmsas = ks[r.Intn(len(ks))]
		}
		meas, kind := pickMeas(r, listedForGo(snp, uint32([]int{0, int(vmsas), int(vmsas)}[r.Intn(3)])))
		c.Count("meas/" + kind)
		var mopt []byte = meas
		mline := hx(meas)
		if r.Intn(20) == 0 {
			mopt, mline = nil, "nil"
		}
		var e1 error
		pan, msg, _ := Guard(func() { e1 = verify.SNP(golden, &verify.SNPOptions{Measurement: mopt, ExpectedLaunchVMSAs: vmsas}) })
		op := fmt.Sprintf("c02 op=snp g=%s meas=%s vmsas=%d", sevLine(snp), mline, vmsas)
		if pan {
			c.Find("c02/verify.SNP/panic", "verify.SNP panicked: "+msg, op)
		}
		c.Case(op, okrej(e1 == nil && !pan), snp != nil && len(mopt) == 48)
		if e1 == nil && mopt != nil && len(mopt) == 48 && !contains(listedForGo(snp, vmsas), mopt) {
			c.Find("c02/verify.SNP/accept-unlisted", "verify.SNP accepted a 48-byte measurement not listed for the named configuration", op)
		}
		// the policy `sev policy` derives for a NAMED count pins exactly the measurement listed for it, whatever the
		// other options are (direct oracle; the derivation itself is compared with the model under C17)
		if snp != nil && vmsas != 0 {
			gb2, _ := proto.Marshal(golden)
			popts := &gcetcbendorsement.SevPolicyOptions{LaunchVmsas: vmsas, AllowUnspecifiedVmsas: r.Bool(), Overwrite: r.Bool()}
			var pp *cpb.Policy
			var perr error
			ppan, _, _ := Guard(func() {
				pp, perr = gcetcbendorsement.SevPolicy(ctx, &epb.VMLaunchEndorsement{SerializedUefiGolden: gb2}, popts)
			})
			want, listed := snp.GetMeasurements()[vmsas]
			pop := fmt.Sprintf("sevpolicy g=%s vmsas=%d allow=%s ow=%s", sevLine(snp), vmsas, b2s(popts.AllowUnspecifiedVmsas), b2s(popts.Overwrite))
			c.Count("sevpolicy-named/listed=" + b2s(listed))
			if !ppan && perr == nil {
				if !listed {
					c.Find("c02/SevPolicy/named-count-unlisted-accepted", "SevPolicy derived a policy for a launch-VMSA count the endorsement does not list", pop)
				} else if hx(pp.GetMeasurement()) != hx(want) {
					c.Find("c02/SevPolicy/named-count-not-pinned", fmt.Sprintf("the policy derived for %d launch VMSAs carries measurement %s, the endorsement lists %s for that count", vmsas, hx(pp.GetMeasurement()), hx(want)), pop)
				}
			}
		}
		if e1 == nil && snp == nil {
			c.Find("c02/verify.SNP/accept-no-snp", "verify.SNP accepted a golden without SEV-SNP data", op)
		}

		// ---------- the validator closure over a genuinely signed endorsement ----------
		end, err := signGolden(golden, baseTime.Add(time.Hour))
		if err != nil {
			panic(err)
		}
		endBytes, _ := proto.Marshal(end)
		var ed []byte
		switch r.Intn(4) {
		case 1:
			ed = golden.Digest
		case 2:
			ed = flipBit(golden.Digest, r)
		}
		cmeas := meas
		if r.Intn(10) == 0 {
			cmeas = meas[:len(meas)-1]
		}
		vf := verify.SNPValidateFunc(&verify.Options{SNP: &verify.SNPOptions{ExpectedLaunchVMSAs: vmsas},
			RootsOfTrust: roots, Now: now, ExpectedUefiSha384: ed})
		// a validator is a long-lived value: half of the time it has already validated a report carrying a LISTED
		// measurement with this very endorsement before it sees the case's report (what it remembers from that
		// call must not decide this one)
		if ls := listedForGo(snp, vmsas); len(ls) > 0 && r.Bool() {
			Guard(func() { _ = vf(&spb.Attestation{Report: snpReport(ls[r.Intn(len(ls))])}, endBytes) })
			c.Count("closure/after-a-listed-report-on-the-same-validator")
		}
		var e2 error
		pan, msg, _ = Guard(func() { e2 = vf(&spb.Attestation{Report: snpReport(cmeas)}, endBytes) })
		op = fmt.Sprintf("c02 op=closure g=%s gd=%s ed=%s rm=%s vmsas=%d", sevLine(snp), hx(golden.Digest), hx(ed), hx(cmeas), vmsas)
		if pan {
			c.Find("c02/closure/panic", "validator closure panicked: "+msg, op)
		}
		c.Case(op, okrej(e2 == nil && !pan), snp != nil && len(cmeas) == 48)
		if e2 == nil {
			c.Count("closure/ok")
			if len(cmeas) != 48 || !contains(listedForGo(snp, vmsas), cmeas) {
				c.Find("c02/closure/accept-unlisted", "closure accepted a measurement not listed for the named configuration", op)
			}
			if len(ed) != 0 && string(ed) != string(golden.Digest) {
				c.Find("c02/closure/digest-mismatch", "closure accepted although the expected firmware digest differs", op)
			}
		} else {
			c.Count("closure/reject")
		}

		// ---------- SevValidate ----------
		var base *cpb.Policy
		if r.Bool() {
			base = &cpb.Policy{MinimumVersion: "0.0", Policy: snp.GetPolicy()}
			if r.Intn(4) == 0 {
				base.Measurement = meas
			}
		}
		ow := r.Intn(4) == 0
		att := &spb.Attestation{Report: snpReport(meas),
			CertificateChain: &spb.CertificateChain{VcekCert: amd.Vcek.Raw, Extras: map[string][]byte{sev.GCEFwCertGUID: endBytes}}}
		var e3 error
		pan, msg, _ = Guard(func() {
			e3 = gcetcbendorsement.SevValidate(ctx, att, &gcetcbendorsement.SevValidateOptions{
				Endorsement: end, BasePolicy: base, Overwrite: ow, RootsOfTrust: roots, Now: now, ExpectedLaunchVmsas: vmsas})
		})
		// `other`: everything go-sev-guest checks apart from the measurement. The report is built to
		// pass them whenever the endorsed guest policy is a valid one.
		other := snp != nil && (snp.Policy == 0x30000 || snp.Policy == 0x70000)
		if base != nil && len(base.Measurement) != 0 && len(base.Measurement) != 48 {
			other = false
		}
		op = fmt.Sprintf("c02 op=sevvalidate dflt=%d g=%s gd=%s rm=%s base=%s pem= ow=%s vmsas=%d other=%s", dfltPolicy, sevLine(snp),
			hx(golden.Digest), hx(meas), sevPolicyLine(base), b2s(ow), vmsas, b2s(other))
		if pan {
			c.Find("c02/SevValidate/panic", "SevValidate panicked: "+msg, op)
		}
		c.Case(op, okrej(e3 == nil && !pan), snp != nil && len(meas) == 48)
		if e3 == nil {
			c.Count("sevvalidate/ok")
			if len(meas) != 48 || !contains(listedForGo(snp, vmsas), meas) {
				c.Find("c02/SevValidate/accept-unlisted", "SevValidate accepted a report measurement not listed for the named configuration", op)
			}
		} else {
			c.Count("sevvalidate/reject")
		}

		// ---------- TdxValidate ----------
		var tdx *epb.VMTdx
		if r.Intn(12) != 0 {
			tdx = &epb.VMTdx{Svn: 1, Measurements: genRows(r)}
		}
		tg := &epb.VMGoldenMeasurement{Tdx: tdx, ClSpec: 77, Digest: measPool(9)}
		tend, err := signGolden(tg, baseTime.Add(time.Hour))
		if err != nil {
			panic(err)
		}
		ram := []int{0, 0, 16, 32, 64, 128}[r.Intn(6)]
		if ms := tdx.GetMeasurements(); len(ms) > 0 && r.Bool() {
			ram = int(ms[r.Intn(len(ms))].RamGib)
		}
		var listed [][]byte
		for _, m := range tdx.GetMeasurements() {
			if ram == 0 || m.RamGib == uint32(ram) {
				listed = append(listed, m.Mrtd)
			}
		}
		mrtd, kind := pickMeas(r, listed)
		if ram != 0 && r.Intn(6) == 0 {
			// a value the endorsement lists, but for another RAM size
			var others [][]byte
			for _, m := range tdx.GetMeasurements() {
				if m.RamGib != uint32(ram) && !contains(listed, m.Mrtd) {
					others = append(others, m.Mrtd)
				}
			}
			if len(others) > 0 {
				mrtd, kind = others[r.Intn(len(others))], "other-size"
			}
		}
		if len(mrtd) != 48 {
			mrtd = measPool(8)
		}
		c.Count("mrtd/" + kind)
		q := proto.Clone(quoteV4).(*tpb.QuoteV4)
		q.TdQuoteBody.MrTd = mrtd
		ab, _ := proto.Marshal(&tpmpb.Attestation{TeeAttestation: &tpmpb.Attestation_TdxAttestation{TdxAttestation: q}})
		// base policy handed to the validator: none / no body / a body whose any_mr_td is empty, already
		// allow-lists the presented MRTD (e.g. a policy generated for an older firmware fed back with
		// --overwrite), or lists something else
		var tbase *tcpb.Policy
		switch r.Intn(9) {
		case 4, 5:
			// a base list that CONTAINS everything endorsed for the named size plus the presented value (one-bit
			// neighbour, another size's MRTD, …): keeping such a list instead of refusing or replacing it would
			// admit the extra value
			var l [][]byte
			for _, m := range listed {
				l = append(l, append([]byte(nil), m...))
			}
			l = append(l, append([]byte(nil), mrtd...))
			tbase = &tcpb.Policy{TdQuoteBodyPolicy: &tcpb.TDQuoteBodyPolicy{AnyMrTd: l}}
		case 6:
			// the output of `tdx policy` for every size fed back as base while one size is named
			var l [][]byte
			for _, m := range tdx.GetMeasurements() {
				l = append(l, append([]byte(nil), m.Mrtd...))
			}
			if len(l) > 0 {
				tbase = &tcpb.Policy{TdQuoteBodyPolicy: &tcpb.TDQuoteBodyPolicy{AnyMrTd: l}}
			}
		case 0:
			tbase = &tcpb.Policy{}
		case 1:
			tbase = &tcpb.Policy{TdQuoteBodyPolicy: &tcpb.TDQuoteBodyPolicy{}}
		case 2:
			tbase = &tcpb.Policy{TdQuoteBodyPolicy: &tcpb.TDQuoteBodyPolicy{AnyMrTd: [][]byte{append([]byte(nil), mrtd...)}}}
		case 3:
			tbase = &tcpb.Policy{TdQuoteBodyPolicy: &tcpb.TDQuoteBodyPolicy{AnyMrTd: [][]byte{measPool(7), append([]byte(nil), mrtd...)}}}
		}
		tow := r.Intn(4) == 0 || (tbase != nil && r.Bool())
		var e4 error
		pan, msg, _ = Guard(func() {
			e4 = gcetcbendorsement.TdxValidate(ctx, ab, &gcetcbendorsement.TdxValidateOptions{
				Endorsement: tend, BasePolicy: tbase, Overwrite: tow, RootsOfTrust: roots, Now: now, ExpectedRAMGiB: ram})
		})
		c.Count("tdxvalidate/base-" + strings.SplitN(tdxBaseLine(tbase), "/", 2)[0] + "-ow" + b2s(tow))
		op = fmt.Sprintf("c02 op=tdxvalidate rows=%s mrtd=%s base=%s ow=%s ram=%d other=1", rowsLine(tdx), hx(mrtd), tdxBaseLine(tbase), b2s(tow), ram)
		if pan {
			c.Find("c02/TdxValidate/panic", "TdxValidate panicked: "+msg, op)
		}
		c.Case(op, okrej(e4 == nil && !pan), tdx != nil)
		if e4 == nil {
			c.Count("tdxvalidate/ok")
			if !contains(listed, mrtd) {
				c.Find("c02/TdxValidate/accept-unlisted", "TdxValidate accepted a quote whose MRTD is not listed for the named RAM size", op)
			}
		} else {
			c.Count("tdxvalidate/reject")
		}
	}
}

func okrej(b bool) string {
	if b {
		return "ok"
	}
	return "reject"
}
