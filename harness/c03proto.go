package main

// Stream c03proto: the Lean protobuf wire codec (lean/GceTcb/Model/ProtoWire.lean) against the real
// google.golang.org/protobuf on the five endorsement messages, and the signing pipeline at the byte level.

import (
	"bytes"
	"crypto"
	"crypto/rsa"
	"crypto/sha256"
	"crypto/x509"
	"fmt"
	"math"
	"sort"
	"strings"
	"time"

	"github.com/google/gce-tcb-verifier/endorse"
	"github.com/google/gce-tcb-verifier/keys"
	epb "github.com/google/gce-tcb-verifier/proto/endorsement"
	"github.com/google/gce-tcb-verifier/sev"
	"github.com/google/gce-tcb-verifier/tdx"
	sgpb "github.com/google/go-sev-guest/proto/sevsnp"
	"github.com/google/uuid"
	"google.golang.org/protobuf/encoding/protowire"
	"google.golang.org/protobuf/proto"
	tspb "google.golang.org/protobuf/types/known/timestamppb"
)

func init() {
	register("c03proto", "Lean wire codec vs google.golang.org/protobuf on VMLaunchEndorsement, VMGoldenMeasurement, VMSevSnp, VMTdx, "+
		"VMTdx.Measurement, Timestamp: (a) generated messages (every presence combination; nil/empty bytes; maps of 0..20 keys incl. the 15 VMSA "+
		"counts; 0..8 TDX rows; boundary varints; negative and extreme timestamps; unknown fields) — deterministic Marshal compared byte for "+
		"byte with the Lean encoder, plain Marshal byte for byte given the observed map order, Unmarshal value for value with the Lean decoder; "+
		"(b) wire-level mutations of genuine payloads (reordered, duplicated, split and merged fields, unknown fields of every wire type, groups "+
		"incl. nesting at the recursion limit, over-long and overflowing varints, truncations, excessive lengths, wrong wire types, reserved wire "+
		"types, invalid field numbers, malformed map entries) — accept/reject, decoded value incl. unknown bytes, and re-marshalled bytes compared; "+
		"(c) random bytes; (d) endorse.GoldenMeasurement + endorse.SignDoc: the signed payload byte for byte against the wire encoding of the "+
		"document the Lean pipeline model builds, and what the Lean decoder reads back. Direct oracle on the library and signer alone: "+
		"Unmarshal(Marshal(m)) equals m, Size = length, two messages with different canonical text never share an encoding, the stored payload is "+
		"what was signed and decodes to the measured document. Non-trivial: the case reaches a field dispatch (not rejected at the first tag); "+
		"distinct by op line.", runC03Proto)
}

// ---------------------------------------------------------------------------------------------
// canonical text of messages (must agree with Drive/C03Proto.lean)

func pwUnk(m proto.Message) string { return hx(m.ProtoReflect().GetUnknown()) }

func pwTs(t *tspb.Timestamp) string {
	if t == nil {
		return "-"
	}
	return fmt.Sprintf("T(%d,%d,%s)", t.Seconds, t.Nanos, pwUnk(t))
}

func pwRow(r *epb.VMTdx_Measurement) string {
	if r == nil {
		return "R(0,0,,)"
	}
	return fmt.Sprintf("R(%d,%s,%s,%s)", r.RamGib, b2s(r.EarlyAccept), hx(r.Mrtd), pwUnk(r))
}

func pwTdx(t *epb.VMTdx) string {
	if t == nil {
		return "-"
	}
	var rs []string
	for _, r := range t.Measurements {
		rs = append(rs, pwRow(r))
	}
	return fmt.Sprintf("X(%d,[%s],%s)", t.Svn, strings.Join(rs, ";"), pwUnk(t))
}

func pwSortedKeys(m map[uint32][]byte) []uint32 {
	ks := make([]uint32, 0, len(m))
	for k := range m {
		ks = append(ks, k)
	}
	sort.Slice(ks, func(i, j int) bool { return ks[i] < ks[j] })
	return ks
}

func pwMeas(m map[uint32][]byte) string {
	var ms []string
	for _, k := range pwSortedKeys(m) {
		ms = append(ms, fmt.Sprintf("%d:%s", k, hx(m[k])))
	}
	return strings.Join(ms, ";")
}

func pwSnp(s *epb.VMSevSnp) string {
	if s == nil {
		return "-"
	}
	return fmt.Sprintf("S(%d,[%s],%s,%s,%d,%s,%s,%s)", s.Svn, pwMeas(s.Measurements), hx(s.FamilyId), hx(s.ImageId), s.Policy,
		hx(s.CaBundle), hx(s.SvsmMeasurement), pwUnk(s))
}

func pwGolden(g *epb.VMGoldenMeasurement) string {
	return fmt.Sprintf("G(%s,%d,%s,%s,%s,%s,%s,%s,%s)", pwTs(g.Timestamp), g.ClSpec, hx(g.Commit), hx(g.Cert), hx(g.Digest),
		hx(g.CaBundle), pwSnp(g.SevSnp), pwTdx(g.Tdx), pwUnk(g))
}

func pwEnd(e *epb.VMLaunchEndorsement) string {
	return fmt.Sprintf("E(%s,%s,%s)", hx(e.SerializedUefiGolden), hx(e.Signature), pwUnk(e))
}

func pwText(m proto.Message) string {
	switch v := m.(type) {
	case *tspb.Timestamp:
		return pwTs(v)
	case *epb.VMTdx_Measurement:
		return pwRow(v)
	case *epb.VMTdx:
		return pwTdx(v)
	case *epb.VMSevSnp:
		return pwSnp(v)
	case *epb.VMGoldenMeasurement:
		return pwGolden(v)
	case *epb.VMLaunchEndorsement:
		return pwEnd(v)
	}
	return "?"
}

// ---------------------------------------------------------------------------------------------
// protocol-line fields of a message (input of the Lean encoder)

func pwTsField(t *tspb.Timestamp) string {
	if t == nil {
		return "-"
	}
	return fmt.Sprintf("%d:%d:%s", t.Seconds, t.Nanos, pwUnk(t))
}

func pwRowsField(rs []*epb.VMTdx_Measurement) string {
	var out []string
	for _, r := range rs {
		if r == nil {
			out = append(out, "0:0::")
			continue
		}
		out = append(out, fmt.Sprintf("%d:%s:%s:%s", r.RamGib, b2s(r.EarlyAccept), hx(r.Mrtd), pwUnk(r)))
	}
	return strings.Join(out, ";")
}

func pwSnpFields(s *epb.VMSevSnp) string {
	return fmt.Sprintf("ssvn=%d smeas=%s sfam=%s simg=%s spol=%d scab=%s ssvsm=%s sunk=%s", s.Svn, pwMeas(s.Measurements), hx(s.FamilyId),
		hx(s.ImageId), s.Policy, hx(s.CaBundle), hx(s.SvsmMeasurement), pwUnk(s))
}

func pwTdxFields(t *epb.VMTdx) string {
	return fmt.Sprintf("xsvn=%d xrows=%s xunk=%s", t.Svn, pwRowsField(t.Measurements), pwUnk(t))
}

func pwGoldenFields(g *epb.VMGoldenMeasurement) string {
	s := fmt.Sprintf("ts=%s cl=%d commit=%s cert=%s digest=%s cab=%s gunk=%s", pwTsField(g.Timestamp), g.ClSpec, hx(g.Commit), hx(g.Cert),
		hx(g.Digest), hx(g.CaBundle), pwUnk(g))
	if g.SevSnp != nil {
		s += " snp=1 " + pwSnpFields(g.SevSnp)
	} else {
		s += " snp=0"
	}
	if g.Tdx != nil {
		s += " tdx=1 " + pwTdxFields(g.Tdx)
	} else {
		s += " tdx=0"
	}
	return s
}

func pwFields(m proto.Message) (typ, fields string) {
	switch v := m.(type) {
	case *tspb.Timestamp:
		return "ts", "ts=" + pwTsField(v)
	case *epb.VMTdx_Measurement:
		return "row", "xrows=" + pwRowsField([]*epb.VMTdx_Measurement{v})
	case *epb.VMTdx:
		return "tdx", pwTdxFields(v)
	case *epb.VMSevSnp:
		return "snp", pwSnpFields(v)
	case *epb.VMGoldenMeasurement:
		return "gold", pwGoldenFields(v)
	case *epb.VMLaunchEndorsement:
		return "end", fmt.Sprintf("payload=%s sig=%s eunk=%s", hx(v.SerializedUefiGolden), hx(v.Signature), pwUnk(v))
	}
	return "?", ""
}

func pwNew(typ string) proto.Message {
	switch typ {
	case "ts":
		return &tspb.Timestamp{}
	case "row":
		return &epb.VMTdx_Measurement{}
	case "tdx":
		return &epb.VMTdx{}
	case "snp":
		return &epb.VMSevSnp{}
	case "gold":
		return &epb.VMGoldenMeasurement{}
	default:
		return &epb.VMLaunchEndorsement{}
	}
}

// order of the map keys in a marshalled VMSevSnp (ok=false when it does not parse)
func pwSnpOrder(b []byte) (keys []string, ok bool) {
	for len(b) > 0 {
		num, typ, n := protowire.ConsumeTag(b)
		if n < 0 {
			return nil, false
		}
		b = b[n:]
		if num == 2 && typ == protowire.BytesType {
			e, n := protowire.ConsumeBytes(b)
			if n < 0 {
				return nil, false
			}
			b = b[n:]
			_, _, tn := protowire.ConsumeTag(e)
			if tn < 0 {
				return nil, false
			}
			k, kn := protowire.ConsumeVarint(e[tn:])
			if kn < 0 {
				return nil, false
			}
			keys = append(keys, fmt.Sprint(uint32(k)))
			continue
		}
		n = protowire.ConsumeFieldValue(num, typ, b)
		if n < 0 {
			return nil, false
		}
		b = b[n:]
	}
	return keys, true
}

// order of the map keys of the sev_snp field inside a marshalled VMGoldenMeasurement
func pwGoldenOrder(b []byte) (keys []string, ok bool) {
	for len(b) > 0 {
		num, typ, n := protowire.ConsumeTag(b)
		if n < 0 {
			return nil, false
		}
		b = b[n:]
		if num == 7 && typ == protowire.BytesType {
			s, n := protowire.ConsumeBytes(b)
			if n < 0 {
				return nil, false
			}
			return pwSnpOrder(s)
		}
		n = protowire.ConsumeFieldValue(num, typ, b)
		if n < 0 {
			return nil, false
		}
		b = b[n:]
	}
	return nil, true
}

var pwDet = proto.MarshalOptions{Deterministic: true}

type pwState struct {
	c      *Ctx
	seen   map[string]string // deterministic encoding -> canonical text (injectivity oracle)
	corpus map[string][][]byte
}

// encCase: one generated message through Marshal (deterministic and plain) and Unmarshal.
func (st *pwState) encCase(m proto.Message, tag string) {
	c := st.c
	typ, fields := pwFields(m)
	det, err := pwDet.Marshal(m)
	if err != nil {
		c.Find("c03proto/Marshal/error/"+typ, "deterministic Marshal failed: "+tok(err.Error()), fields)
		return
	}
	raw, err := proto.Marshal(m)
	if err != nil {
		c.Find("c03proto/Marshal/error/"+typ, "Marshal failed: "+tok(err.Error()), fields)
		return
	}
	line := "c03proto op=enc t=" + typ + " " + fields
	rawPart := ""
	switch typ {
	case "snp":
		if ks, ok := pwSnpOrder(raw); ok {
			line += " order=" + strings.Join(ks, ",")
			rawPart = " raw=" + hx(raw)
		}
	case "gold":
		if ks, ok := pwGoldenOrder(raw); ok {
			line += " order=" + strings.Join(ks, ",")
			rawPart = " raw=" + hx(raw)
		}
	}
	back := pwNew(typ)
	dec := "reject"
	if err := proto.Unmarshal(det, back); err == nil {
		dec = pwText(back)
	}
	// ---- direct oracle on the library alone ----
	text := pwText(m)
	if dec == "reject" || !proto.Equal(m, back) {
		// a nil element of a repeated message field comes back as an empty message: equal for our purposes iff the text agrees
		if dec != text {
			c.Find("c03proto/roundtrip/Unmarshal-Marshal-differs/"+typ, "Unmarshal(Marshal(m)) is not m: "+dec, line)
		}
	}
	back2 := pwNew(typ)
	if err := proto.Unmarshal(raw, back2); err != nil || pwText(back2) != text {
		c.Find("c03proto/roundtrip/plain-Marshal-differs/"+typ, "Unmarshal(proto.Marshal(m)) is not m", line)
	}
	if proto.Size(m) != len(det) || len(raw) != len(det) {
		c.Find("c03proto/size/"+typ, "proto.Size differs from the encoded length", line)
	}
	key := typ + ":" + string(det)
	if prev, ok := st.seen[key]; ok && prev != text {
		c.Find("c03proto/injective/"+typ, "two different messages share one deterministic encoding: "+prev+" vs "+text, line)
	}
	st.seen[key] = text
	c.Count("enc/" + typ + "/" + tag)
	c.Count(fmt.Sprintf("enc-size/%s/%s", typ, pwBucket(len(det))))
	if len(st.corpus[typ]) < 400 {
		st.corpus[typ] = append(st.corpus[typ], det)
	}
	c.Case(line, "det="+hx(det)+" dec="+dec+rawPart, len(det) > 0)
}

func pwBucket(n int) string {
	switch {
	case n == 0:
		return "0"
	case n < 16:
		return "1-15"
	case n < 128:
		return "16-127"
	case n < 1024:
		return "128-1023"
	default:
		return "1024+"
	}
}

// decCase: one byte string through Unmarshal.
func (st *pwState) decCase(typ string, b []byte, tag string) {
	c := st.c
	m := pwNew(typ)
	impl := "reject"
	err := proto.Unmarshal(b, m)
	if err == nil {
		re, merr := pwDet.Marshal(m)
		if merr != nil {
			c.Find("c03proto/Marshal/error-after-Unmarshal/"+typ, "Marshal of an unmarshalled message failed", hx(b))
		}
		impl = "ok " + pwText(m) + " re=" + hx(re)
		// oracle: what was accepted re-marshals to something that decodes to the same message
		again := pwNew(typ)
		if e2 := proto.Unmarshal(re, again); e2 != nil || !proto.Equal(m, again) {
			c.Find("c03proto/roundtrip/accepted-not-stable/"+typ, "Unmarshal(Marshal(Unmarshal(b))) differs from Unmarshal(b)", "c03proto op=dec t="+typ+" b="+hx(b))
		}
		c.Count("dec/" + tag + "/accept")
		if len(m.ProtoReflect().GetUnknown()) > 0 {
			c.Count("dec-unknown-kept/" + typ)
		}
	} else {
		c.Count("dec/" + tag + "/reject")
	}
	// non-trivial: the first tag parses to a valid field number, i.e. the case gets past the first guard
	nontrivial := false
	if v, n := protowire.ConsumeVarint(b); n > 0 && v>>3 >= 1 && v>>3 <= uint64(protowire.MaxValidNumber) {
		nontrivial = true
	}
	c.Case("c03proto op=dec t="+typ+" b="+hx(b), impl, nontrivial)
}

// ---------------------------------------------------------------------------------------------
// (a) message generators

var pwU32 = []uint32{0, 1, 2, 127, 128, 255, 256, 16383, 16384, 2097151, 2097152, 1<<28 - 1, 1 << 28, 1<<31 - 1, 1 << 31, 1<<32 - 1}
var pwU64 = []uint64{0, 1, 127, 128, 16383, 16384, 1<<32 - 1, 1 << 32, 1<<35 - 1, 1 << 35, 1<<42 - 1, 1<<49 - 1, 1 << 49, 1<<56 - 1, 1 << 56,
	1<<63 - 1, 1 << 63, 1<<64 - 1, 0x70000, 0x30000}
var pwI64 = []int64{0, 1, -1, 127, 128, -128, 1725148800, -62135596800, 253402300799, math.MaxInt64, math.MinInt64, 1 << 32, -(1 << 32), 1<<62 + 5}
var pwI32 = []int32{0, 1, -1, 999999999, 1000000000, -999999999, math.MaxInt32, math.MinInt32, 127, 128}
var pwLens = []int{0, 0, 1, 2, 16, 20, 48, 48, 48, 127, 128, 129, 300}

func (st *pwState) u32() uint32 {
	r := st.c.Rng
	if r.Intn(4) == 0 {
		return uint32(r.Next())
	}
	return pwU32[r.Intn(len(pwU32))]
}
func (st *pwState) u64() uint64 {
	r := st.c.Rng
	if r.Intn(4) == 0 {
		return r.Next() >> uint(r.Intn(64))
	}
	return pwU64[r.Intn(len(pwU64))]
}

// bytes: nil, empty-but-non-nil, or random of a boundary length
func (st *pwState) bytes() []byte {
	r := st.c.Rng
	switch r.Intn(8) {
	case 0:
		return nil
	case 1:
		return []byte{}
	}
	n := pwLens[r.Intn(len(pwLens))]
	if r.Intn(40) == 0 {
		n = 16384 + r.Intn(3) - 1
	}
	b := r.Bytes(n)
	if n > 0 && r.Intn(6) == 0 { // invalid UTF-8 / control bytes: bytes fields are not validated
		b[0] = 0xff
		b[n-1] = 0xc0
	}
	return b
}

// a well-formed run of unknown fields (numbers that no message of ours uses)
func (st *pwState) unknownRun() []byte {
	r := st.c.Rng
	if r.Intn(5) != 0 {
		return nil
	}
	var b []byte
	for i := 0; i <= r.Intn(3); i++ {
		num := protowire.Number([]int{9, 15, 16, 100, 2047, 2048, 1<<29 - 1}[r.Intn(7)])
		switch r.Intn(5) {
		case 0:
			b = protowire.AppendTag(b, num, protowire.VarintType)
			b = protowire.AppendVarint(b, st.u64())
		case 1:
			b = protowire.AppendTag(b, num, protowire.Fixed64Type)
			b = protowire.AppendFixed64(b, r.Next())
		case 2:
			b = protowire.AppendTag(b, num, protowire.BytesType)
			b = protowire.AppendBytes(b, r.Bytes(r.Intn(5)))
		case 3:
			b = protowire.AppendTag(b, num, protowire.StartGroupType)
			b = protowire.AppendTag(b, 3, protowire.VarintType)
			b = protowire.AppendVarint(b, uint64(r.Intn(300)))
			b = protowire.AppendTag(b, num, protowire.EndGroupType)
		default:
			b = protowire.AppendTag(b, num, protowire.Fixed32Type)
			b = protowire.AppendFixed32(b, uint32(r.Next()))
		}
	}
	return b
}

func (st *pwState) setUnk(m proto.Message) {
	if u := st.unknownRun(); u != nil {
		m.ProtoReflect().SetUnknown(u)
	}
}

func (st *pwState) genTs() *tspb.Timestamp {
	r := st.c.Rng
	t := &tspb.Timestamp{}
	switch r.Intn(5) {
	case 0: // a real time
		tm := time.Unix(int64(r.Next()%4102444800), int64(r.Intn(1000000000)))
		t = tspb.New(tm)
	case 1:
		t.Seconds = int64(r.Next())
		t.Nanos = int32(r.Next())
	default:
		if r.Bool() {
			t.Seconds = pwI64[r.Intn(len(pwI64))]
		}
		if r.Bool() {
			t.Nanos = pwI32[r.Intn(len(pwI32))]
		}
	}
	st.setUnk(t)
	return t
}

func (st *pwState) genRow() *epb.VMTdx_Measurement {
	r := st.c.Rng
	m := &epb.VMTdx_Measurement{}
	if r.Intn(4) != 0 {
		m.RamGib = st.u32()
		if r.Bool() {
			m.RamGib = []uint32{16, 32, 88, 176, 352, 704}[r.Intn(6)]
		}
	}
	m.EarlyAccept = r.Bool()
	if r.Intn(4) != 0 {
		m.Mrtd = r.Bytes(48)
	} else {
		m.Mrtd = st.bytes()
	}
	st.setUnk(m)
	return m
}

func (st *pwState) genTdx(rows int) *epb.VMTdx {
	r := st.c.Rng
	t := &epb.VMTdx{}
	if r.Intn(3) != 0 {
		t.Svn = st.u32()
	}
	for i := 0; i < rows; i++ {
		if r.Intn(30) == 0 {
			t.Measurements = append(t.Measurements, nil) // nil element: marshalled as an empty message
			continue
		}
		t.Measurements = append(t.Measurements, st.genRow())
	}
	if rows == 0 && r.Bool() {
		t.Measurements = []*epb.VMTdx_Measurement{}
	}
	st.setUnk(t)
	return t
}

func (st *pwState) genSnp(keys int) *epb.VMSevSnp {
	r := st.c.Rng
	s := &epb.VMSevSnp{}
	if r.Intn(3) != 0 {
		s.Svn = st.u32()
	}
	if keys > 0 || r.Bool() {
		s.Measurements = map[uint32][]byte{}
	}
	mode := r.Intn(3)
	if keys > len(c06SupportedCounts) && mode == 0 {
		mode = 2
	}
	for len(s.Measurements) < keys {
		var k uint32
		switch mode {
		case 0:
			k = c06SupportedCounts[r.Intn(len(c06SupportedCounts))]
		case 1:
			k = st.u32()
		default:
			k = uint32(r.Intn(40))
		}
		if r.Intn(8) == 0 {
			s.Measurements[k] = st.bytes()
		} else {
			s.Measurements[k] = r.Bytes(48)
		}
	}
	if r.Bool() {
		s.FamilyId = r.Bytes(16)
	} else {
		s.FamilyId = st.bytes()
	}
	if r.Bool() {
		s.ImageId = r.Bytes(16)
	}
	if r.Intn(3) != 0 {
		s.Policy = st.u64()
	}
	if r.Intn(3) == 0 {
		s.CaBundle = st.bytes()
	}
	if r.Intn(3) == 0 {
		s.SvsmMeasurement = r.Bytes(48)
	}
	st.setUnk(s)
	return s
}

func (st *pwState) genGolden() *epb.VMGoldenMeasurement {
	r := st.c.Rng
	g := &epb.VMGoldenMeasurement{}
	if r.Intn(4) != 0 {
		g.Timestamp = st.genTs()
	}
	if r.Bool() {
		g.ClSpec = st.u64()
	}
	if r.Bool() {
		g.Commit = r.Bytes(20)
	}
	if r.Intn(3) != 0 {
		g.Cert = st.bytes()
		if r.Bool() {
			g.Cert = r.Bytes(600 + r.Intn(300))
		}
	}
	if r.Intn(4) != 0 {
		g.Digest = r.Bytes(48)
	} else {
		g.Digest = st.bytes()
	}
	if r.Intn(3) == 0 {
		g.CaBundle = st.bytes()
	}
	if r.Intn(3) != 0 {
		n := r.Intn(21)
		if r.Intn(3) == 0 {
			n = 15
		}
		g.SevSnp = st.genSnp(n)
	}
	if r.Intn(3) != 0 {
		g.Tdx = st.genTdx(r.Intn(9))
	}
	st.setUnk(g)
	return g
}

func (st *pwState) genEnd() *epb.VMLaunchEndorsement {
	r := st.c.Rng
	e := &epb.VMLaunchEndorsement{}
	switch r.Intn(3) {
	case 0:
		e.SerializedUefiGolden, _ = proto.Marshal(st.genGolden())
	case 1:
		e.SerializedUefiGolden = st.bytes()
	}
	if r.Intn(4) != 0 {
		e.Signature = r.Bytes(256)
	} else {
		e.Signature = st.bytes()
	}
	st.setUnk(e)
	return e
}

// every presence combination of every message with fixed non-default values
func (st *pwState) exhaustivePresence() {
	b48 := bytes.Repeat([]byte{0x5a}, 48)
	for mask := 0; mask < 4; mask++ {
		t := &tspb.Timestamp{}
		if mask&1 != 0 {
			t.Seconds = -5
		}
		if mask&2 != 0 {
			t.Nanos = 7
		}
		st.encCase(t, "presence")
		e := &epb.VMLaunchEndorsement{}
		if mask&1 != 0 {
			e.SerializedUefiGolden = []byte{1, 2, 3}
		}
		if mask&2 != 0 {
			e.Signature = []byte{4}
		}
		st.encCase(e, "presence")
	}
	for mask := 0; mask < 8; mask++ {
		r := &epb.VMTdx_Measurement{}
		if mask&1 != 0 {
			r.RamGib = 16
		}
		r.EarlyAccept = mask&2 != 0
		if mask&4 != 0 {
			r.Mrtd = b48
		}
		st.encCase(r, "presence")
		for rows := 0; rows < 3; rows++ {
			x := &epb.VMTdx{}
			if mask&1 != 0 {
				x.Svn = 3
			}
			for i := 0; i < rows; i++ {
				x.Measurements = append(x.Measurements, proto.Clone(r).(*epb.VMTdx_Measurement))
			}
			st.encCase(x, "presence")
		}
	}
	for mask := 0; mask < 128; mask++ {
		s := &epb.VMSevSnp{}
		if mask&1 != 0 {
			s.Svn = 7
		}
		if mask&2 != 0 {
			s.Measurements = map[uint32][]byte{1: b48, 240: b48[:47], 2: nil}
		}
		if mask&4 != 0 {
			s.FamilyId = b48[:16]
		}
		if mask&8 != 0 {
			s.ImageId = b48[:15]
		}
		if mask&16 != 0 {
			s.Policy = 0x30000
		}
		if mask&32 != 0 {
			s.CaBundle = []byte("-----BEGIN")
		}
		if mask&64 != 0 {
			s.SvsmMeasurement = b48
		}
		st.encCase(s, "presence")
	}
	for mask := 0; mask < 256; mask++ {
		g := &epb.VMGoldenMeasurement{}
		if mask&1 != 0 {
			g.Timestamp = &tspb.Timestamp{Seconds: 1725148800, Nanos: int32(mask)}
			if mask&6 == 6 {
				g.Timestamp = &tspb.Timestamp{} // present and empty
			}
		}
		if mask&2 != 0 {
			g.ClSpec = 123456789
		}
		if mask&4 != 0 {
			g.Commit = b48[:20]
		}
		if mask&8 != 0 {
			g.Cert = b48[:33]
		}
		if mask&16 != 0 {
			g.Digest = b48
		}
		if mask&32 != 0 {
			g.CaBundle = b48[:5]
		}
		if mask&64 != 0 {
			g.SevSnp = &epb.VMSevSnp{Svn: uint32(mask & 3), Measurements: map[uint32][]byte{uint32(mask): b48}}
			if mask&3 == 3 {
				g.SevSnp = &epb.VMSevSnp{} // present and empty
			}
		}
		if mask&128 != 0 {
			g.Tdx = &epb.VMTdx{Svn: uint32(mask & 1), Measurements: []*epb.VMTdx_Measurement{{RamGib: 16, Mrtd: b48}}}
			if mask&12 == 12 {
				g.Tdx = &epb.VMTdx{}
			}
		}
		st.encCase(g, "presence")
	}
}

// ---------------------------------------------------------------------------------------------
// (b) wire-level mutation

type pwFld struct {
	num protowire.Number
	typ protowire.Type
	val []byte // value bytes as on the wire (for BytesType: length prefix + payload)
}

func pwSplit(b []byte) ([]pwFld, bool) {
	var fs []pwFld
	for len(b) > 0 {
		num, typ, n := protowire.ConsumeTag(b)
		if n < 0 {
			return nil, false
		}
		b = b[n:]
		n = protowire.ConsumeFieldValue(num, typ, b)
		if n < 0 {
			return nil, false
		}
		fs = append(fs, pwFld{num, typ, b[:n]})
		b = b[n:]
	}
	return fs, true
}

func pwJoin(fs []pwFld) []byte {
	var b []byte
	for _, f := range fs {
		b = protowire.AppendTag(b, f.num, f.typ)
		b = append(b, f.val...)
	}
	return b
}

// a varint encoding of v padded to exactly n bytes (n ≤ 10 gives a valid non-minimal encoding when v fits)
func pwPadVarint(v uint64, n int) []byte {
	var b []byte
	for i := 0; i < n-1; i++ {
		b = append(b, byte(v&0x7f)|0x80)
		v >>= 7
	}
	return append(b, byte(v&0x7f))
}

// known fields per message type: number -> kind (v varint, b bytes, m:<type> embedded message)
var pwSchema = map[string]map[protowire.Number]string{
	"ts":    {1: "v", 2: "v"},
	"row":   {1: "v", 2: "v", 3: "b"},
	"tdx":   {1: "v", 2: "m:row"},
	"snp":   {1: "v", 2: "m:entry", 3: "b", 4: "b", 5: "v", 6: "b", 7: "b"},
	"gold":  {1: "m:ts", 2: "v", 3: "b", 4: "b", 5: "b", 6: "b", 7: "m:snp", 8: "m:tdx"},
	"end":   {1: "b", 2: "b"},
	"entry": {1: "v", 2: "b"},
}

func (st *pwState) wellFormedValue(typ protowire.Type, num protowire.Number) []byte {
	r := st.c.Rng
	switch typ {
	case protowire.VarintType:
		return protowire.AppendVarint(nil, st.u64())
	case protowire.Fixed64Type:
		return protowire.AppendFixed64(nil, r.Next())
	case protowire.BytesType:
		return protowire.AppendBytes(nil, r.Bytes(r.Intn(6)))
	case protowire.StartGroupType:
		var b []byte
		for i := 0; i < r.Intn(4); i++ {
			in := protowire.Number([]int{1, 2, 7, 100, 1 << 29, 1<<31 - 1}[r.Intn(6)]) // inside a group numbers up to MaxInt32 pass
			it := []protowire.Type{protowire.VarintType, protowire.Fixed64Type, protowire.BytesType, protowire.Fixed32Type, protowire.StartGroupType}[r.Intn(5)]
			b = protowire.AppendTag(b, in, it)
			if it == protowire.StartGroupType {
				b = protowire.AppendTag(b, 1, protowire.VarintType)
				b = append(b, 5)
				b = protowire.AppendTag(b, in, protowire.EndGroupType)
			} else {
				b = append(b, st.wellFormedValue(it, in)...)
			}
		}
		return protowire.AppendTag(b, num, protowire.EndGroupType)
	default:
		return protowire.AppendFixed32(nil, uint32(r.Next()))
	}
}

var pwMutNames = []string{"shuffle", "dup-scalar", "split-merge", "unknown-field", "group", "overlong-varint", "truncate", "bad-length",
	"wrong-wiretype", "reserved-wiretype", "bad-number", "nested", "byte-flip", "map-entry", "concat", "scalar-extreme"}

// mutate applies mutator k to a (normally well-formed) encoding of a message of type typ.
func (st *pwState) mutate(typ string, b []byte, k int, depth int) []byte {
	r := st.c.Rng
	fs, ok := pwSplit(b)
	if !ok || (len(fs) == 0 && k != 3 && k != 4 && k != 9 && k != 10 && k != 8) {
		// not splittable (an earlier mutation broke it) or nothing to work on: byte level only
		if len(b) == 0 {
			return b
		}
		out := append([]byte{}, b...)
		out[r.Intn(len(out))] ^= byte(1 << uint(r.Intn(8)))
		return out
	}
	schema := pwSchema[typ]
	pick := func() int { return r.Intn(len(fs)) }
	insert := func(f pwFld) []pwFld {
		i := r.Intn(len(fs) + 1)
		out := append([]pwFld{}, fs[:i]...)
		out = append(out, f)
		return append(out, fs[i:]...)
	}
	knownNums := make([]protowire.Number, 0, len(schema))
	for n := range schema {
		knownNums = append(knownNums, n)
	}
	sort.Slice(knownNums, func(i, j int) bool { return knownNums[i] < knownNums[j] })
	switch k {
	case 0: // reorder
		out := append([]pwFld{}, fs...)
		for i := len(out) - 1; i > 0; i-- {
			j := r.Intn(i + 1)
			out[i], out[j] = out[j], out[i]
		}
		return pwJoin(out)
	case 1: // duplicate a field with another value (scalars: last wins; repeated/map: accumulate; messages: merge)
		f := fs[pick()]
		nf := pwFld{f.num, f.typ, st.wellFormedValue(f.typ, f.num)}
		if r.Bool() {
			nf.val = f.val
		}
		return pwJoin(insert(nf))
	case 2: // split an embedded message into two occurrences (merge semantics), or a map/repeated run into interleaved pieces
		var cand []int
		for i, f := range fs {
			if strings.HasPrefix(schema[f.num], "m:") && f.typ == protowire.BytesType {
				cand = append(cand, i)
			}
		}
		if len(cand) == 0 {
			return pwJoin(insert(fs[pick()]))
		}
		i := cand[r.Intn(len(cand))]
		payload, _ := protowire.ConsumeBytes(fs[i].val)
		sub, ok := pwSplit(payload)
		if !ok || len(sub) < 1 {
			return pwJoin(insert(fs[i]))
		}
		cut := r.Intn(len(sub) + 1)
		a, bb := pwJoin(sub[:cut]), pwJoin(sub[cut:])
		if r.Bool() {
			a, bb = bb, a
		}
		fs[i].val = protowire.AppendBytes(nil, a)
		return pwJoin(insert(pwFld{fs[i].num, protowire.BytesType, protowire.AppendBytes(nil, bb)}))
	case 3: // unknown field of each wire type
		num := protowire.Number([]int{9, 15, 16, 100, 2047, 2048, 16384, 1<<29 - 1}[r.Intn(8)])
		if r.Intn(4) == 0 {
			num = protowire.Number(9 + r.Intn(1<<20))
		}
		t := []protowire.Type{protowire.VarintType, protowire.Fixed64Type, protowire.BytesType, protowire.StartGroupType, protowire.Fixed32Type}[r.Intn(5)]
		return pwJoin(insert(pwFld{num, t, st.wellFormedValue(t, num)}))
	case 4: // groups: nested, mismatched end, unterminated, stray end-group, nesting around the recursion limit
		num := protowire.Number([]int{1, 2, 7, 9, 100}[r.Intn(5)])
		var v []byte
		switch r.Intn(7) {
		case 0:
			v = st.wellFormedValue(protowire.StartGroupType, num)
		case 1: // mismatched end
			v = protowire.AppendTag(nil, num+1, protowire.EndGroupType)
		case 2: // unterminated
			v = protowire.AppendTag(nil, 3, protowire.VarintType)
			v = append(v, 1)
		case 3: // stray end-group at this level
			i := r.Intn(len(fs) + 1)
			out := append([]byte{}, pwJoin(fs[:i])...)
			out = protowire.AppendTag(out, num, protowire.EndGroupType)
			return append(out, pwJoin(fs[i:])...)
		case 4: // nested d deep, closed properly
			d := []int{2, 3, 50}[r.Intn(3)]
			for i := 0; i < d; i++ {
				v = protowire.AppendTag(v, num, protowire.StartGroupType)
			}
			for i := 0; i <= d; i++ {
				v = protowire.AppendTag(v, num, protowire.EndGroupType)
			}
		case 5: // a field number above 2^29-1 inside the group (accepted up to MaxInt32) or above MaxInt32 (rejected)
			in := uint64([]uint64{1 << 29, 1<<31 - 1, 1 << 31, 1 << 40}[r.Intn(4)])
			v = protowire.AppendVarint(v, in<<3|0)
			v = append(v, 0)
			v = protowire.AppendTag(v, num, protowire.EndGroupType)
		default: // reserved wire type or end-group of another number nested deeper
			v = protowire.AppendTag(v, 5, protowire.StartGroupType)
			if r.Bool() {
				v = protowire.AppendVarint(v, 5<<3|6)
			}
			v = protowire.AppendTag(v, 5, protowire.EndGroupType)
			v = protowire.AppendTag(v, num, protowire.EndGroupType)
		}
		return pwJoin(insert(pwFld{num, protowire.StartGroupType, v}))
	case 5: // over-long varints: tag, value or length, padded to 2..11 bytes; tenth byte 1 or 2
		i := pick()
		f := fs[i]
		n := []int{2, 3, 5, 9, 10, 10, 11}[r.Intn(7)]
		var out []byte
		out = append(out, pwJoin(fs[:i])...)
		tag := uint64(f.num)<<3 | uint64(f.typ)
		which := r.Intn(2)
		if which == 0 || (f.typ != protowire.VarintType && f.typ != protowire.BytesType) {
			out = append(out, pwPadVarint(tag, n)...)
			out = append(out, f.val...)
		} else {
			out = protowire.AppendVarint(out, tag)
			v, vn := protowire.ConsumeVarint(f.val)
			pad := pwPadVarint(v, n)
			if n == 10 && r.Intn(3) == 0 {
				pad[9] = byte(1 + r.Intn(2)) // 1: bit 63 set (value changes); 2: overflow
			}
			out = append(out, pad...)
			out = append(out, f.val[vn:]...)
		}
		return append(out, pwJoin(fs[i+1:])...)
	case 6: // truncate
		if len(b) == 0 {
			return b
		}
		return append([]byte{}, b[:r.Intn(len(b))]...)
	case 7: // a length that exceeds what follows
		i := pick()
		out := append([]byte{}, pwJoin(fs[:i])...)
		out = protowire.AppendTag(out, fs[i].num, protowire.BytesType)
		rest := pwJoin(fs[i+1:])
		l := []uint64{uint64(len(rest)) + 1, uint64(len(rest)) + 128, 1 << 31, 1 << 32, 1<<63 - 1, 1 << 63, 1<<64 - 1, uint64(len(rest))}[r.Intn(8)]
		out = protowire.AppendVarint(out, l)
		return append(out, rest...)
	case 8: // a known field number with every other wire type
		num := knownNums[r.Intn(len(knownNums))]
		t := []protowire.Type{protowire.VarintType, protowire.Fixed64Type, protowire.BytesType, protowire.StartGroupType, protowire.Fixed32Type}[r.Intn(5)]
		return pwJoin(insert(pwFld{num, t, st.wellFormedValue(t, num)}))
	case 9: // reserved wire types 6 and 7, on known and unknown numbers
		num := uint64([]int{1, 2, 9}[r.Intn(3)])
		i := r.Intn(len(fs) + 1)
		out := append([]byte{}, pwJoin(fs[:i])...)
		out = protowire.AppendVarint(out, num<<3|uint64(6+r.Intn(2)))
		out = append(out, byte(r.Intn(3)))
		return append(out, pwJoin(fs[i:])...)
	case 10: // field numbers 0, 2^29, 2^32, 2^60 at this level
		num := []uint64{0, 1 << 29, 1<<29 + 1, 1<<31 - 1, 1 << 31, 1 << 32, 1 << 60, 1<<61 - 1}[r.Intn(8)]
		i := r.Intn(len(fs) + 1)
		out := append([]byte{}, pwJoin(fs[:i])...)
		out = protowire.AppendVarint(out, num<<3|uint64([]int{0, 2}[r.Intn(2)]))
		out = append(out, 0)
		return append(out, pwJoin(fs[i:])...)
	case 11: // mutate inside an embedded message / map entry
		var cand []int
		for i, f := range fs {
			if strings.HasPrefix(schema[f.num], "m:") && f.typ == protowire.BytesType {
				cand = append(cand, i)
			}
		}
		if len(cand) == 0 || depth > 2 {
			return st.mutate(typ, b, r.Intn(11), depth+1)
		}
		i := cand[r.Intn(len(cand))]
		payload, _ := protowire.ConsumeBytes(fs[i].val)
		sub := strings.TrimPrefix(schema[fs[i].num], "m:")
		k2 := r.Intn(len(pwMutNames))
		st.c.Count("mutate-nested/" + sub + "/" + pwMutNames[k2])
		fs[i].val = protowire.AppendBytes(nil, st.mutate(sub, payload, k2, depth+1))
		return pwJoin(fs)
	case 12: // flip one bit
		if len(b) == 0 {
			return b
		}
		out := append([]byte{}, b...)
		out[r.Intn(len(out))] ^= byte(1 << uint(r.Intn(8)))
		return out
	case 13: // map entries (and rows): value before key, key or value missing, repeated inside one entry, same key twice
		target := protowire.Number(2)
		if typ != "snp" && typ != "tdx" {
			return st.mutate(typ, b, 11, depth)
		}
		var e []byte
		key := protowire.AppendVarint(protowire.AppendTag(nil, 1, protowire.VarintType), uint64(st.u32()))
		if r.Bool() {
			key = protowire.AppendVarint(protowire.AppendTag(nil, 1, protowire.VarintType), uint64([]uint32{1, 2, 4, 240}[r.Intn(4)]))
		}
		val := protowire.AppendBytes(protowire.AppendTag(nil, 2, protowire.BytesType), r.Bytes(r.Intn(4)))
		switch r.Intn(7) {
		case 0:
			e = append(append(e, val...), key...)
		case 1:
			e = key
		case 2:
			e = val
		case 3:
			e = append(append(append(e, key...), val...), key...)
		case 4:
			e = append(append(append(e, key...), val...), val[:len(val)-0]...)
			e = append(e, protowire.AppendVarint(protowire.AppendTag(nil, 3, protowire.VarintType), 9)...) // unknown inside the entry: dropped
		case 5: // key with 2^32 + k: truncated to uint32
			e = protowire.AppendVarint(protowire.AppendTag(nil, 1, protowire.VarintType), 1<<32+uint64(r.Intn(3)))
			e = append(e, val...)
		default:
			e = nil // empty entry: key 0, empty value
		}
		fs = insert(pwFld{target, protowire.BytesType, protowire.AppendBytes(nil, e)})
		if r.Bool() {
			fs = insert(pwFld{target, protowire.BytesType, protowire.AppendBytes(nil, append(append([]byte{}, key...), val...))})
		}
		return pwJoin(fs)
	case 14: // concatenation of two encodings = merge
		other := st.corpus[typ]
		if len(other) == 0 {
			return append(append([]byte{}, b...), b...)
		}
		return append(append([]byte{}, b...), other[r.Intn(len(other))]...)
	default: // scalar fields with values outside their Go type: truncation, bool of 2, int32 of 2^40
		var cand []protowire.Number
		for _, n := range knownNums {
			if schema[n] == "v" {
				cand = append(cand, n)
			}
		}
		if len(cand) == 0 {
			return st.mutate(typ, b, 3, depth)
		}
		num := cand[r.Intn(len(cand))]
		v := []uint64{1 << 32, 1<<32 + 7, 2, 1<<64 - 1, 1 << 63, 1<<40 + 3, 1 << 31, 0}[r.Intn(8)]
		return pwJoin(insert(pwFld{num, protowire.VarintType, protowire.AppendVarint(nil, v)}))
	}
}

// nested groups exactly at, below and above protowire's recursion limit
func (st *pwState) deepGroups() {
	for _, d := range []int{9999, 10000, 10001, 10002, 10003} {
		var b []byte
		for i := 0; i < d; i++ {
			b = protowire.AppendTag(b, 9, protowire.StartGroupType)
		}
		for i := 0; i < d; i++ {
			b = protowire.AppendTag(b, 9, protowire.EndGroupType)
		}
		st.decCase("end", b, fmt.Sprintf("deep-groups-%d", d))
		// inside an embedded message of the golden measurement
		g := protowire.AppendTag(nil, 8, protowire.BytesType)
		g = protowire.AppendBytes(g, b)
		st.decCase("gold", g, fmt.Sprintf("deep-groups-nested-%d", d))
	}
}

// ---------------------------------------------------------------------------------------------
// (d) the signing pipeline at the byte level

func (st *pwState) pipeline(r c06Req) {
	c := st.c
	signer, ca := memKeys()
	ec := &endorse.Context{Image: r.im.fw, ClSpec: r.cl, Commit: r.commit, Timestamp: r.ts, SvsmSnpMeasurement: r.svsm}
	if r.snp {
		ec.SevSnp = &sev.SnpEndorsementRequest{Svn: r.svn, FamilyID: r.fam, ImageID: r.iid, LaunchVmsas: r.vm,
			Product: sgpb.SevProduct_SevProductName(r.prod)}
	}
	if r.tdx {
		ec.Tdx = &tdx.EndorsementRequest{Svn: r.tsvn, IncludeEarlyAccept: r.early, MachineShapes: append([]string{}, r.shapes...)}
	}
	ctx := quietCtx(false)
	ctx = keys.NewContext(ctx, &keys.Context{CA: ca, Signer: signer})
	ctx = endorse.NewContext(ctx, ec)
	uuid.SetRand(&Rng{s: r.rndSeed})
	rnd := c06ExpectedRandomUUID(r.rndSeed)
	var lds, mrs []string
	counts := []uint32{r.vm}
	if r.vm == 0 {
		counts = c06SupportedCounts
	}
	if r.snp {
		for _, k := range counts {
			v := "E"
			if d := r.im.launchDigest(k, r.prod); d != nil {
				v = hx(d)
			}
			lds = append(lds, fmt.Sprintf("%d/%d:%s", k, r.prod, v))
		}
	}
	if r.tdx {
		seen := map[string]bool{}
		add := func(shape, mode string) {
			k := shape + "/" + mode
			if seen[k] {
				return
			}
			seen[k] = true
			v := "E"
			if d := r.im.mrtd(shape, mode); d != nil {
				v = hx(d)
			}
			mrs = append(mrs, k+":"+v)
		}
		for _, s := range r.shapes {
			add(s, "b")
			add(s, "e")
		}
		add("", "d")
	}
	certv, _ := ca.Certificate(ctx, memSignKey)
	bundlev, _ := ca.CABundle(ctx, memSignKey)
	mkLine := func(order string) string {
		return fmt.Sprintf("c03proto op=endorse img=%s snp=%s svn=%d fam=%s iid=%s vm=%d prod=%d rnd=%s tdx=%s tsvn=%d early=%s shapes=%s cl=%d commit=%s svsm=%s ld=%s mrtd=%s keys=full caerr=none signerr=0 certv=%s bundlev=%s ts=%d.%d order=%s",
			hx(r.im.fw), b2s(r.snp), r.svn, r.fam, r.iid, r.vm, r.prod, rnd, b2s(r.tdx), r.tsvn, b2s(r.early), strings.Join(r.shapes, ","),
			r.cl, hx(r.commit), hx(r.svsm), strings.Join(lds, ";"), strings.Join(mrs, ";"), hx(certv), hx(bundlev), r.ts.Unix(), r.ts.Nanosecond(), order)
	}
	short := func(line string) string {
		if i := strings.Index(line, " snp="); i > 0 {
			line = "c03proto op=endorse img=<" + r.im.name + ">" + line[i:]
		}
		if i := strings.Index(line, " certv="); i > 0 {
			j := strings.Index(line, " ts=")
			line = line[:i] + " certv=<primary-cert> bundlev=<bundle>" + line[j:]
		}
		if i := strings.Index(line, " ld="); i > 0 && len(line) > 2500 {
			j := strings.Index(line, " keys=")
			line = line[:i] + " ld=<direct> mrtd=<direct>" + line[j:]
		}
		return line
	}
	var g *epb.VMGoldenMeasurement
	var gerr error
	if p, _, _ := Guard(func() { g, gerr = endorse.GoldenMeasurement(ctx) }); p {
		c.Case(mkLine(""), "golden-panic", true)
		return
	}
	if gerr != nil {
		c.Count("pipeline/golden-reject")
		c.Case(mkLine(""), "golden-reject", false)
		return
	}
	measured := proto.Clone(g).(*epb.VMGoldenMeasurement)
	var e *epb.VMLaunchEndorsement
	var serr error
	if p, _, _ := Guard(func() { e, serr = endorse.SignDoc(ctx, g) }); p {
		c.Case(mkLine(""), "sign-panic", true)
		return
	}
	if serr != nil {
		c.Count("pipeline/sign-reject")
		c.Case(mkLine(""), "sign-reject", true)
		return
	}
	payload := e.SerializedUefiGolden
	ks, _ := pwGoldenOrder(payload)
	line := mkLine(strings.Join(ks, ","))
	find := func(clause, what string) { c.Find("c03proto/SignDoc/"+clause, what, short(line)) }
	// ---- direct oracle on the signer alone ----
	d := &epb.VMGoldenMeasurement{}
	verifier := "reject"
	if err := proto.Unmarshal(payload, d); err != nil {
		find("payload-undecodable", "the stored payload does not unmarshal")
	} else {
		verifier = pwGolden(d)
		want := proto.Clone(measured).(*epb.VMGoldenMeasurement)
		want.Cert, want.CaBundle, want.Timestamp = certv, bundlev, &tspb.Timestamp{Seconds: r.ts.Unix(), Nanos: int32(r.ts.Nanosecond())}
		if !proto.Equal(d, want) {
			find("payload-is-not-the-document", "the stored payload does not decode to the measured document plus certificate, bundle and timestamp")
		}
		if r.snp && (d.GetSevSnp().GetSvn() != r.svn || d.GetSevSnp().GetPolicy() != c06Policy) {
			find("snp-svn-or-policy", "svn / policy in the payload are not the requested svn and the production policy")
		}
		if r.tdx && d.GetTdx().GetSvn() != r.tsvn {
			find("tdx-svn", "TDX svn in the payload is not the requested one")
		}
		// the document clauses of C06 on what was actually signed (digest, provenance, keys and values of the
		// measurement map recomputed with sev.LaunchDigest, TDX rows recomputed with tdx.MRTD and their labels)
		c06OracleGolden(c, r, d, rnd, func(entry, clause, what string) { c.Find("c03proto/"+entry+"/"+clause, what, short(line)) }, "SignDoc")
		if re, _ := pwDet.Marshal(d); len(re) != len(payload) {
			find("payload-not-canonical-size", "the stored payload is not a minimal encoding of its content")
		}
	}
	if cert, err := x509.ParseCertificate(certv); err != nil {
		find("certificate", "the CA's certificate does not parse")
	} else if pub, ok := cert.PublicKey.(*rsa.PublicKey); !ok {
		find("certificate", "not an RSA key")
	} else {
		h := sha256.Sum256(payload)
		if err := rsa.VerifyPSS(pub, crypto.SHA256, h[:], e.Signature, &rsa.PSSOptions{SaltLength: 32, Hash: crypto.SHA256}); err != nil {
			find("signature-not-over-stored-bytes", "the signature does not verify over the stored payload bytes")
		}
	}
	c.Count("pipeline/signed")
	c.Count(fmt.Sprintf("pipeline/map-keys/%d", len(ks)))
	c.Case(line, "payload="+hx(payload)+" verifier="+verifier, true)
}

// ---------------------------------------------------------------------------------------------

func runC03Proto(c *Ctx) {
	st := &pwState{c: c, seen: map[string]string{}, corpus: map[string][][]byte{}}
	r := c.Rng

	// varints
	vals := append([]uint64{}, pwU64...)
	for s := uint(0); s < 64; s += 7 {
		vals = append(vals, 1<<s-1, 1<<s, 1<<s+1)
	}
	for i := 0; i < c.N(200, 2000); i++ {
		vals = append(vals, r.Next()>>uint(r.Intn(64)))
	}
	for _, v := range vals {
		enc := protowire.AppendVarint(nil, v)
		c.Case(fmt.Sprintf("c03proto op=varint n=%d", v), hx(enc), true)
		c.Count(fmt.Sprintf("varint/len-%d", len(enc)))
		if got, n := protowire.ConsumeVarint(enc); n != len(enc) || got != v {
			c.Find("c03proto/varint/roundtrip", "ConsumeVarint(AppendVarint(v)) is not v", fmt.Sprint(v))
		}
	}
	uv := func(b []byte) {
		v, n := protowire.ConsumeVarint(b)
		impl := "reject"
		if n >= 0 {
			impl = fmt.Sprintf("ok %d %d", v, len(b)-n)
			c.Count("uvarint/accept")
		} else {
			c.Count("uvarint/reject")
		}
		c.Case("c03proto op=uvarint b="+hx(b), impl, len(b) > 1)
	}
	uv(nil)
	for n := 1; n <= 12; n++ {
		for _, v := range []uint64{0, 1, 127, 300, 1<<63 - 1, 1 << 63, 1<<64 - 1} {
			p := pwPadVarint(v, n)
			uv(p)
			uv(append(append([]byte{}, p...), 0x81, 0x01))
			if n > 1 {
				uv(p[:n-1]) // truncated: every byte has the continuation bit
			}
			if n == 10 {
				for _, last := range []byte{0, 1, 2, 3, 0x7f, 0x80, 0x81} {
					q := append([]byte{}, p...)
					q[9] = last
					uv(q)
				}
			}
		}
	}
	for i := 0; i < c.N(300, 3000); i++ {
		uv(r.Bytes(r.Intn(13)))
	}

	// (a) generated messages
	// the sample of Props/C03Proto.lean (sampleGolden / samplePayloadRaw), evaluated there by the Lean kernel
	st.encCase(&epb.VMGoldenMeasurement{Timestamp: &tspb.Timestamp{Seconds: 1725148800, Nanos: 5}, ClSpec: 7, Commit: []byte{0xc0, 0xde},
		Digest: []byte{0xd1, 0xd2, 0xd3}, SevSnp: &epb.VMSevSnp{Svn: 3, Policy: 196608, Measurements: map[uint32][]byte{2: {0xaa}, 1: {0xbb}}},
		Tdx: &epb.VMTdx{Svn: 1, Measurements: []*epb.VMTdx_Measurement{{RamGib: 16, EarlyAccept: true, Mrtd: []byte{0xcc}}}}}, "sample")
	st.exhaustivePresence()
	for keys := 0; keys <= 20; keys++ {
		for rep := 0; rep < c.N(4, 30); rep++ {
			st.encCase(st.genSnp(keys), fmt.Sprintf("map-%d", keys))
		}
	}
	// the fifteen supported VMSA counts exactly
	full := &epb.VMSevSnp{Svn: 5, Policy: 0x30000, Measurements: map[uint32][]byte{}}
	for _, k := range c06SupportedCounts {
		full.Measurements[k] = r.Bytes(48)
	}
	st.encCase(full, "map-vmsa-counts")
	for rows := 0; rows <= 8; rows++ {
		for rep := 0; rep < c.N(4, 30); rep++ {
			st.encCase(st.genTdx(rows), fmt.Sprintf("rows-%d", rows))
		}
	}
	for i := 0; i < c.N(150, 2000); i++ {
		st.encCase(st.genTs(), "random")
		st.encCase(st.genRow(), "random")
	}
	for _, s := range pwI64 {
		for _, n := range pwI32 {
			st.encCase(&tspb.Timestamp{Seconds: s, Nanos: n}, "grid")
		}
	}
	for _, v := range pwU32 {
		st.encCase(&epb.VMTdx_Measurement{RamGib: v}, "grid")
		st.encCase(&epb.VMSevSnp{Svn: v, Measurements: map[uint32][]byte{v: nil}}, "grid")
	}
	for _, v := range pwU64 {
		st.encCase(&epb.VMSevSnp{Policy: v}, "grid")
		st.encCase(&epb.VMGoldenMeasurement{ClSpec: v}, "grid")
	}
	for _, n := range []int{0, 1, 126, 127, 128, 129, 16383, 16384, 16385, 70000} {
		st.encCase(&epb.VMGoldenMeasurement{Cert: bytes.Repeat([]byte{7}, n)}, "len-boundary")
		st.encCase(&epb.VMLaunchEndorsement{SerializedUefiGolden: bytes.Repeat([]byte{8}, n), Signature: []byte{1}}, "len-boundary")
	}
	for i := 0; i < c.N(500, 6000); i++ {
		st.encCase(st.genGolden(), "random")
	}
	for i := 0; i < c.N(100, 1000); i++ {
		st.encCase(st.genEnd(), "random")
	}

	// (d) signing pipeline (before the mutation streams so that its payloads join the corpus)
	mk := func(name string, size int, tag byte, s, t bool, nTemp int) *c06Image {
		return &c06Image{name: name, fw: c06Firmware(size, tag, s, t, nTemp), ld: map[string][]byte{}, mr: map[string][]byte{}}
	}
	images := []*c06Image{mk("both-8k", 0x2000, 1, true, true, 0), mk("both-12k", 0x3000, 2, true, true, 3)}
	shapeLists := [][]string{nil, {"c3-standard-4"}, {"c3-standard-4", "c3-standard-8"}, {"c3-standard-176", "c3-standard-4", "c3-standard-176"},
		{"c3-standard-88", "c3-standard-22", "c3-standard-44"}, {"n2d-standard-2"}}
	times := []time.Time{baseTime, {}, baseTime.Add(123456789 * time.Nanosecond), time.Unix(-1000, 5).UTC(), time.Unix(1<<33, 999999999).UTC()}
	for i := 0; i < c.N(40, 400); i++ {
		q := c06Req{svn: []uint32{0, 1, 7, 0x1337, 0xffffffff}[r.Intn(5)], tsvn: []uint32{0, 2, 9, 0xffffffff}[r.Intn(4)],
			iid: "87654321-dead-beef-c0de-123456789abc", rndSeed: r.Next(), keysMode: "full", caErr: "none", sign: true}
		q.im = images[r.Intn(2)]
		q.snp, q.tdx = true, r.Bool()
		if r.Intn(5) == 0 {
			q.snp, q.tdx = false, true
		}
		q.vm = []uint32{0, 0, 1, 2, 7, 240}[r.Intn(6)]
		q.prod = 1 + r.Intn(2)
		q.shapes = shapeLists[r.Intn(len(shapeLists))]
		q.early = r.Bool()
		if r.Bool() {
			q.svsm = r.Bytes(48)
		}
		if r.Intn(3) != 0 {
			q.cl, q.commit = r.Next()>>uint(r.Intn(64)), r.Bytes(20)
		}
		if r.Intn(4) == 0 {
			q.iid = ""
		}
		q.ts = times[r.Intn(len(times))]
		st.pipeline(q)
	}

	// (b) wire-level mutations of genuine payloads
	types := []string{"gold", "gold", "gold", "snp", "snp", "tdx", "row", "ts", "end"}
	nm := c.N(6000, 80000)
	for i := 0; i < nm; i++ {
		typ := types[r.Intn(len(types))]
		corp := st.corpus[typ]
		if len(corp) == 0 {
			continue
		}
		b := corp[r.Intn(len(corp))]
		if len(b) > 3000 { // keep lines short
			continue
		}
		k := i % len(pwMutNames)
		name := pwMutNames[k]
		b = st.mutate(typ, b, k, 0)
		for extra := r.Intn(3); extra > 0 && r.Intn(2) == 0; extra-- {
			k2 := r.Intn(len(pwMutNames))
			b = st.mutate(typ, b, k2, 0)
			name += "+"
		}
		st.decCase(typ, b, "mut/"+strings.TrimRight(name, "+"))
	}
	st.deepGroups()
	// a payload decoded as another message type (field numbers overlap with different types)
	for i := 0; i < c.N(200, 2000); i++ {
		from := types[r.Intn(len(types))]
		to := types[r.Intn(len(types))]
		if corp := st.corpus[from]; len(corp) > 0 {
			if b := corp[r.Intn(len(corp))]; len(b) <= 3000 {
				st.decCase(to, b, "cross-type")
			}
		}
	}

	// (c) random bytes, biased towards plausible tags
	for i := 0; i < c.N(1500, 20000); i++ {
		n := r.Intn(24)
		b := r.Bytes(n)
		if n > 0 && r.Bool() {
			b[0] = byte((1+r.Intn(9))<<3 | r.Intn(8))
		}
		st.decCase(types[r.Intn(len(types))], b, "random")
	}
	c.Extra["distinct_encodings"] = len(st.seen)
}
