package main

import (
	"context"
	"fmt"
	"io"
	"os"
	"path/filepath"
	"strings"
	"time"

	"github.com/google/gce-tcb-verifier/cmd"
	"github.com/google/gce-tcb-verifier/endorse"
	"github.com/google/gce-tcb-verifier/keys"
	vpb "github.com/google/gce-tcb-verifier/proto/scrtmversion"
	"github.com/google/gce-tcb-verifier/storage/local"
	"google.golang.org/protobuf/proto"
)

// c15RunCLI runs the request through the real command line: cmd.MakeApp(...) "endorse --uefi ... --dry_run ..."
// with the recording doubles installed by the application components. This covers the flag wiring of
// cmd/endorse.go and cmd/flags.go (--dry_run, --measurement_only, --snapshot_dir, --candidate_name, --overwrite,
// technology and VMSA flags, the S_CRTM side file that supplies the SVN).
func c15RunCLI(cs c15Case, v0 *c14VCS, rec c15Rec, signed *[]string) error {
	r := cs.r
	signer, ca := memKeys()
	fwPath := filepath.Join(cs.cliDir, "fw.fd")
	if err := os.WriteFile(fwPath, r.im.fw, 0644); err != nil {
		return err
	}
	side := filepath.Join(cs.cliDir, "fw_scrtm_ver.pb")
	os.Remove(side)
	os.Remove(filepath.Join(cs.cliDir, "fw.fd.scrtm.pb"))
	if cs.sideAlt {
		side = filepath.Join(cs.cliDir, "fw.fd.scrtm.pb")
	}
	if r.svn != 0 {
		b, _ := proto.Marshal(&vpb.SCRTMVersion{Version: vpb.FirmwareVersion_Version(r.svn)})
		if err := os.WriteFile(side, b, 0644); err != nil {
			return err
		}
	}
	app := &cmd.AppComponents{
		Endorse: cmd.EndorseSetter(func(ec *endorse.Context) { ec.VCS = v0 }),
		Global: &cmd.PartialComponent{FInitContext: func(ctx context.Context) (context.Context, error) {
			return keys.NewContext(ctx, &keys.Context{CA: &c15CA{ca, rec}, Signer: &c15Signer{signer, rec, signed}, Random: &Rng{s: 3}}), nil
		}},
		Bootstrap:       &cmd.PartialComponent{},
		Rotate:          &cmd.PartialComponent{},
		Wipeout:         &cmd.PartialComponent{},
		SignatureRandom: &Rng{s: 4},
		Storage:         &local.StorageClient{},
	}
	root := cmd.MakeApp(context.Background(), app)
	root.SetOut(io.Discard)
	root.SetErr(io.Discard)
	args := []string{"endorse", "--quiet", "--uefi", fwPath, "--out_dir", "out", "--clspec", fmt.Sprint(r.cl),
		"--commit_retries", fmt.Sprint(cs.budget), "--timestamp", r.ts.Format(time.RFC3339)}
	if r.snp {
		args = append(args, "--add_snp", "--snp_launch_vmsas", fmt.Sprint(r.vm), "--snp_product", []string{"", "Milan", "Genoa", "Turin"}[r.prod])
		if r.iid != "" {
			args = append(args, "--snp_image_id", r.iid)
		}
		if r.fam != "" {
			args = append(args, "--snp_family_id", r.fam)
		}
	}
	if r.tdx {
		args = append(args, "--add_tdx")
		if len(r.shapes) > 0 {
			args = append(args, "--tdx_machine_shapes", strings.Join(r.shapes, ","))
		}
		if r.early {
			args = append(args, "--tdx_include_early_accept")
		}
	}
	if cs.dry {
		args = append(args, "--dry_run")
	}
	if cs.mo {
		args = append(args, "--measurement_only")
	}
	if cs.snap {
		args = append(args, "--snapshot_dir", "snap")
	}
	if cs.cand != "" {
		args = append(args, "--candidate_name", cs.cand)
	}
	if cs.ow {
		args = append(args, "--overwrite")
	}
	root.SetArgs(args)
	return root.Execute()
}
