package main

import (
	"bytes"
	"fmt"
	"strings"
)

// Stream c15cli: the shipped `endorse` command (cmd.MakeApp … endorse --flags) over the recording doubles, every
// command line also through the Lean model of the command (Model/EndorseCli.lean, protocol `cli op=run`).
//
//	part 1  exhaustive: --dry_run x --measurement_only x --overwrite x --tdx_include_early_accept x --snapshot_dir x
//	        --candidate_name x technology subset {none, SNP, TDX, both} x S_CRTM side file {absent, <stem>_scrtm_ver.pb,
//	        <image>.scrtm.pb, both (different versions), corrupt}; the valued flags (VMSA count, product, ids, shapes,
//	        clspec, commit, retries, timestamp, out dir, image, existing endorsement / manifest) are drawn per case
//	part 2  every way a command line is refused (and the near-misses that are accepted), x technology subsets x
//	        {--dry_run, --measurement_only}: commit length / hex, product names, ids, numeric ranges, timestamps,
//	        --uefi suffix / absence / unreadable image, corrupt side files, SVSM files, failing application components
//	part 3  paths and side-file contents: directories, a directory name containing ".fd", empty / unknown-field /
//	        large / negative versions, first spelling empty while the second is present
func init() {
	register("c15cli", "real `endorse` command (cobra wiring of cmd/endorse.go, cmd/flags.go, cmd/compose.go) over recording doubles, every command line "+
		"compared with the Lean model of the command (phase of refusal, the endorse.Context handed to the pipeline field by field, result, effect log): "+
		"exhaustive boolean flags x technology subsets x side-file states with drawn valued flags; all refusal classes and their accepted near-misses; "+
		"path and side-file content variants. Direct oracle: effect freedom of --dry_run / --measurement_only (also together), refusal before any effect, the request "+
		"names what the command line names (side-file SVN in every endorsed technology), document oracle of C06 on every written endorsement. "+
		"Non-trivial: the command line is refused, or --dry_run / --measurement_only is set and the pipeline is entered.", runC15CLI)
}

const (
	cliT1    = "2023-10-09T09:12:00Z"
	cliT2    = "2024-02-29T23:59:59.5+02:00"
	cliIID   = "87654321-dead-beef-c0de-123456789abc"
	cliFAM   = "0f1e2d3c-4b5a-6978-8796-a5b4c3d2e1f0"
	cliHex20 = "cdcdcdcdcdcdcdcdcdcdcdcdcdcdcdcdcdcdcdcd"
)

func cliImages(tagBase byte) []*c06Image {
	mk := func(name string, size int, tag byte, nTemp int) *c06Image {
		return &c06Image{name: name, fw: c06Firmware(size, tag, true, true, nTemp), ld: map[string][]byte{}, mr: map[string][]byte{}}
	}
	return []*c06Image{mk("both-8k", 0x2000, tagBase, 0), mk("both-12k", 0x3000, tagBase+2, 2)}
}

// cliSideState fills the side files of state st for image path uefi.
func cliSideState(cs *cliCase, st string, alt int) {
	p1, p2 := cliSidePaths(cs.uefi)
	if cs.files == nil {
		cs.files = map[string][]byte{}
	}
	switch st {
	case "absent":
	case "stem":
		cs.files[p1] = cliSideFile(5)
	case "image":
		cs.files[p2] = cliSideFile(6)
	case "both":
		cs.files[p1] = cliSideFile(7)
		cs.files[p2] = cliSideFile(9)
	case "corrupt":
		if alt%2 == 0 {
			cs.files[p1] = []byte{0x08} // field 1, varint, value missing
		} else {
			cs.files[p2] = []byte{0x0a, 0x05, 0x01} // length-delimited field running past the end
		}
	}
}

func cliOne(c *Ctx, prefix, dir string, cs cliCase) (cliResult, bool) {
	res, line := cliRun(cs, dir)
	wrote := cliOracle(c, prefix, cs, res, line)
	nontrivial := res.phase != "run" || cs.dry || cs.mo
	if prefix == "c06/cli" {
		nontrivial = wrote || res.phase != "run"
	}
	c.Case(line, res.impl(), nontrivial)
	tech := "none"
	switch {
	case cs.addSnp && cs.addTdx:
		tech = "both"
	case cs.addSnp:
		tech = "snp"
	case cs.addTdx:
		tech = "tdx"
	}
	k := res.phase
	if res.phase == "prerun" || res.phase == "init" {
		k += ":" + res.cls
	}
	c.Count(fmt.Sprintf("%s/%s/mo%s-dry%s/%s-%s", cs.tag, tech, b2s(cs.mo), b2s(cs.dry), k, res.res))
	return res, wrote
}

var cliTechs = [][2]bool{{false, false}, {true, false}, {false, true}, {true, true}}

func runC15CLI(c *Ctx) {
	images := cliImages(41)
	pick := func(n int) int { return c.Rng.Intn(n) }
	cliWithDir(func(dir string) {
		// ---- part 1: exhaustive booleans x technology subsets x side-file states ----
		alt := 0
		for _, tech := range cliTechs {
			for _, st := range []string{"absent", "stem", "image", "both", "corrupt"} {
				for mask := 0; mask < 64; mask++ {
					cs := cliCase{im: images[pick(2)], uefi: "fw.fd", addSnp: tech[0], addTdx: tech[1], outDir: "out", tag: "flags/" + st,
						dry: mask&1 != 0, mo: mask&2 != 0, ow: mask&4 != 0, early: mask&8 != 0, rndSeed: uint64(5 + pick(3))}
					if mask&16 != 0 {
						cs.snap = "snap"
					}
					if mask&32 != 0 {
						cs.cand = "rc3"
					}
					alt++
					cliSideState(&cs, st, alt)
					// valued flags; the SNP / TDX ones are sometimes given although the technology is not added
					if tech[0] || pick(3) == 0 {
						cs.vm = []string{"", "1", "2", "0"}[pick(4)]
						cs.prod = [][]string{nil, {"Genoa"}, {"Milan"}, {"", "Genoa"}, {"Genoa", "Milan"}}[pick(5)]
						cs.iid = []string{"", cliIID}[pick(2)]
						cs.fam = []string{"", cliFAM}[pick(2)]
					}
					if tech[1] || pick(3) == 0 {
						cs.shapes = [][]string{nil, {"c3-standard-4"}, {"c3-standard-8", "c3-standard-4"}}[pick(3)]
					} else {
						cs.early = false
					}
					cs.ts = [][]string{{cliT1}, nil, {cliT2}, {"", cliT1}}[pick(4)]
					if k := pick(3); k == 1 {
						h := cliHex20
						cs.commit = &h
					} else if k == 2 {
						h := ""
						cs.commit = &h
					}
					cs.cl = []string{"", "77", "18446744073709551615"}[pick(3)]
					cs.retries = []string{"", "2", "0", "-1"}[pick(4)]
					cs.exists = pick(4) == 0
					cs.mread = []byte{'N', 'M'}[pick(2)]
					cliOne(c, "c15/cli", dir, cs)
				}
			}
		}
		// ---- part 2: refusals and their accepted near-misses ----
		str := func(s string) *string { return &s }
		type mut struct {
			name string
			f    func(*cliCase)
		}
		muts := []mut{
			{"control", func(*cliCase) {}},
			{"commit-19", func(cs *cliCase) { cs.commit = str(strings.Repeat("ab", 19)) }},
			{"commit-21", func(cs *cliCase) { cs.commit = str(strings.Repeat("ab", 21)) }},
			{"commit-1", func(cs *cliCase) { cs.commit = str("ab") }},
			{"commit-20-upper", func(cs *cliCase) { cs.commit = str(strings.Repeat("AB", 20)) }},
			{"commit-odd", func(cs *cliCase) { cs.commit = str("abc") }},
			{"commit-nonhex", func(cs *cliCase) { cs.commit = str(strings.Repeat("zz", 20)) }},
			{"product-Rome", func(cs *cliCase) { cs.prod = []string{"Rome"} }},
			{"product-lower", func(cs *cliCase) { cs.prod = []string{"milan"} }},
			{"product-stepping", func(cs *cliCase) { cs.prod = []string{"Milan-B1"} }},
			{"product-bad-then-good", func(cs *cliCase) { cs.prod = []string{"Rome", "Milan"} }},
			{"product-Turin", func(cs *cliCase) { cs.prod = []string{"Turin"} }},
			{"product-empty", func(cs *cliCase) { cs.prod = []string{""} }},
			{"family-bad", func(cs *cliCase) { cs.fam = "not_a_guid" }},
			{"image-id-bad", func(cs *cliCase) { cs.iid = "87654321-dead-beef-c0de-123456789ab" }},
			{"image-id-urn", func(cs *cliCase) { cs.iid = "urn.uuid." + cliIID }},
			{"image-id-braces", func(cs *cliCase) { cs.iid = "{" + cliIID + "}" }},
			{"family-nodash", func(cs *cliCase) { cs.fam = strings.ReplaceAll(cliFAM, "-", "") }},
			{"vm-2^32", func(cs *cliCase) { cs.vm = "4294967296" }},
			{"vm-65", func(cs *cliCase) { cs.vm = "65" }},
			{"vm-3", func(cs *cliCase) { cs.vm = "3" }},
			{"clspec-2^64", func(cs *cliCase) { cs.cl = "18446744073709551616" }},
			{"retries-2^63", func(cs *cliCase) { cs.retries = "9223372036854775808" }},
			{"retries-min", func(cs *cliCase) { cs.retries = "-9223372036854775808" }},
			{"timestamp-bad", func(cs *cliCase) { cs.ts = []string{"Tomorrow"} }},
			{"timestamp-twice", func(cs *cliCase) { cs.ts = []string{cliT1, cliT2} }},
			{"timestamp-empty-then-set", func(cs *cliCase) { cs.ts = []string{"", "", cliT2} }},
			{"timestamp-absent", func(cs *cliCase) { cs.ts = nil }},
			{"timestamp-zero", func(cs *cliCase) { cs.ts = []string{"0001-01-01T00:00:00Z"} }},
			{"timestamp-zero-then-set", func(cs *cliCase) { cs.ts = []string{"0001-01-01T00:00:00Z", cliT1} }},
			{"timestamp-pre-1970", func(cs *cliCase) { cs.ts = []string{"1969-12-31T23:59:59.75Z"} }},
			{"uefi-absent", func(cs *cliCase) { cs.uefi = ""; cs.files = nil }},
			{"uefi-suffix-bin", func(cs *cliCase) { cs.uefi = "fw.bin"; cs.files = nil }},
			{"uefi-suffix-fd-bak", func(cs *cliCase) { cs.uefi = "fw.fd.bak"; cs.files = nil }},
			{"uefi-suffix-FD", func(cs *cliCase) { cs.uefi = "fw.FD"; cs.files = nil }},
			{"image-missing", func(cs *cliCase) { cs.noImage = true }},
			{"side-corrupt-stem", func(cs *cliCase) { cs.files = map[string][]byte{"fw_scrtm_ver.pb": {0x08, 0x80}} }},
			{"side-corrupt-image", func(cs *cliCase) { cs.files = map[string][]byte{"fw.fd.scrtm.pb": {0x0f}} }},
			{"side-corrupt-shadowed", func(cs *cliCase) {
				cs.files = map[string][]byte{"fw_scrtm_ver.pb": cliSideFile(4), "fw.fd.scrtm.pb": {0x08}}
			}},
			{"side-fieldnumber-0", func(cs *cliCase) { cs.files = map[string][]byte{"fw_scrtm_ver.pb": {0x00, 0x00}} }},
			{"side-endgroup", func(cs *cliCase) { cs.files = map[string][]byte{"fw_scrtm_ver.pb": {0x0c}} }},
			{"svsm-missing", func(cs *cliCase) { cs.svsm = "svsm.igvm" }},
			{"svsm-present", func(cs *cliCase) { cs.svsm = "svsm.igvm"; cs.files["svsm.igvm"] = []byte("svsm image") }},
			{"svsm-meas-good", func(cs *cliCase) {
				cs.svsmM = "svsm.txt"
				cs.files["svsm.txt"] = []byte(" \t" + strings.Repeat("0a", 48) + "\r\n")
			}},
			{"svsm-meas-missing", func(cs *cliCase) { cs.svsmM = "svsm.txt" }},
			{"svsm-meas-nonhex", func(cs *cliCase) { cs.svsmM = "svsm.txt"; cs.files["svsm.txt"] = []byte(strings.Repeat("0g", 48)) }},
			{"svsm-meas-47", func(cs *cliCase) {
				cs.svsmM = "svsm.txt"
				cs.files["svsm.txt"] = []byte(strings.Repeat("0a", 47) + "\n")
			}},
			{"svsm-meas-49", func(cs *cliCase) { cs.svsmM = "svsm.txt"; cs.files["svsm.txt"] = []byte(strings.Repeat("0A", 49)) }},
			{"svsm-meas-inner-space", func(cs *cliCase) {
				cs.svsmM = "svsm.txt"
				cs.files["svsm.txt"] = []byte(strings.Repeat("0a", 24) + " " + strings.Repeat("0a", 24))
			}},
			{"global-prerun-fails", func(cs *cliCase) { cs.gpreFail = true }},
			{"app-prerun-fails", func(cs *cliCase) { cs.apreFail = true }},
			{"global-init-fails", func(cs *cliCase) { cs.ginitFail = true }},
			{"app-init-fails", func(cs *cliCase) { cs.ainitFail = true }},
			{"app-prerun-fails+bad-commit", func(cs *cliCase) { cs.apreFail = true; cs.commit = str("ab") }},
			{"global-init-fails+image-missing", func(cs *cliCase) { cs.ginitFail = true; cs.noImage = true }},
			{"bad-commit+corrupt-side+bad-family", func(cs *cliCase) {
				cs.commit = str("ab")
				cs.fam = "x"
				cs.files = map[string][]byte{"fw_scrtm_ver.pb": {0x08}}
			}},
			{"release-branch", func(cs *cliCase) { cs.branch = "rel_branch_7" }},
			{"no-out-dir", func(cs *cliCase) { cs.outDir = "" }},
		}
		modes := [][2]bool{{false, false}, {true, false}, {false, true}, {true, true}}
		for _, m := range muts {
			for _, tech := range cliTechs {
				for _, md := range modes {
					if c.Quick() && md[0] != md[1] && (m.name == "control" || strings.HasPrefix(m.name, "svsm") || strings.HasPrefix(m.name, "side-")) {
						continue
					}
					cs := cliCase{im: images[0], uefi: "fw.fd", addSnp: tech[0], addTdx: tech[1], outDir: "out", tag: "refuse/" + m.name,
						dry: md[0], mo: md[1], ow: true, rndSeed: 5, ts: []string{cliT1}, vm: "2", iid: cliIID, cl: "77", retries: "2", mread: 'M',
						files: map[string][]byte{"fw_scrtm_ver.pb": cliSideFile(3)}}
					if tech[1] {
						cs.shapes = []string{"c3-standard-4"}
					}
					m.f(&cs)
					cliOne(c, "c15/cli", dir, cs)
				}
			}
		}
		// ---- part 3: paths and side-file contents ----
		enc := func(fields ...[]byte) []byte { return bytes.Join(fields, nil) }
		contents := []struct {
			name string
			b    []byte
		}{
			{"v2", cliSideFile(2)},
			{"v-max-int32", cliSideFile(0x7fffffff)},
			{"v-2^31", enc([]byte{0x08, 0x80, 0x80, 0x80, 0x80, 0x08})},                                    // varint 2^31: int32 wraps negative, uint32 is 2^31
			{"v-2^32+5", enc([]byte{0x08, 0x85, 0x80, 0x80, 0x80, 0x10})},                                  // truncated to 5
			{"v-minus-1", enc([]byte{0x08, 0xff, 0xff, 0xff, 0xff, 0xff, 0xff, 0xff, 0xff, 0xff, 0x01})},   // enum -1: uint32 0xffffffff
			{"v-overlong", enc([]byte{0x08, 0x85, 0x80, 0x00})},                                            // non-minimal varint 5
			{"v-twice", enc([]byte{0x08, 0x03}, []byte{0x08, 0x04})},                                       // last wins
			{"unknown-field", enc([]byte{0x10, 0x07}, []byte{0x08, 0x06}, []byte{0x1a, 0x02, 0x41, 0x42})}, // fields 2 and 3 unknown
			{"wrong-wiretype", enc([]byte{0x0a, 0x01, 0x05})},                                              // field 1 length-delimited: unknown, version 0
			{"empty", []byte{}},
			{"zero", []byte{0x08, 0x00}},
		}
		paths := []string{"fw.fd", "sub/dir/fw.fd", "./fw.fd", "rel.fd.d/fw.fd", "fw.fd.fd", ".fd", "d/.fd"}
		for _, up := range paths {
			for ci, ct := range contents {
				if c.Quick() && up != "fw.fd" && up != "rel.fd.d/fw.fd" && ci > 2 {
					continue
				}
				for _, which := range []string{"stem", "image", "stem-empty+image"} {
					for _, tech := range cliTechs[1:] {
						cs := cliCase{im: images[1], uefi: up, addSnp: tech[0], addTdx: tech[1], outDir: "out", tag: "paths/" + which,
							ow: true, rndSeed: 6, ts: []string{cliT2}, vm: "1", mread: 'N', files: map[string][]byte{}, snap: "snap"}
						p1, p2 := cliSidePaths(up)
						switch which {
						case "stem":
							cs.files[p1] = ct.b
						case "image":
							cs.files[p2] = ct.b
						default:
							cs.files[p1] = []byte{}
							cs.files[p2] = ct.b
						}
						cliOne(c, "c15/cli", dir, cs)
					}
				}
			}
		}
		// ---- part 4: random mixtures of everything above ----
		nr := c.N(200, 6000)
		// pools: well-formed values first (the first `valid` entries); each field is drawn from the well-formed ones
		// nine times out of ten, so that most command lines reach the pipeline and about a third are refused somewhere
		pw := func(valid, all int) int {
			if pick(10) != 0 {
				return pick(valid)
			}
			return pick(all)
		}
		tsPool := [][]string{{cliT1}, nil, {cliT2}, {"", cliT1}, {cliT1, ""}, {cliT1, cliT2}, {"Tomorrow"}, {"0001-01-01T00:00:00Z", cliT2}}
		prodPool := [][]string{nil, {"Genoa"}, {"Milan"}, {"", "Genoa"}, {"Genoa", "Milan"}, {"Turin"}, {"Rome"}, {"Milan", "genoa"}}
		commitPool := []*string{nil, str(cliHex20), str(""), str(strings.ToUpper(cliHex20)), str("abcd"), str(cliHex20 + "00"), str("xyz")}
		idPool := []string{"", cliIID, cliFAM, "{" + cliIID + "}", "nope", cliIID[:35]}
		shapePool := [][]string{nil, {"c3-standard-4"}, {"c3-standard-8", "c3-standard-4"}, {"c3-standard-176"}, {"c3-standard-4", "c3-standard-4"}, {"n2d-standard-2"}}
		uefiPool := []string{"fw.fd", "sub/fw.fd", "x.fd.y/z.fd", "", "fw.rom"}
		vmPool := []string{"", "0", "1", "2", "5", "4294967296"}
		clPool := []string{"", "1", "18446744073709551615", "18446744073709551616"}
		for i := 0; i < nr; i++ {
			tech := cliTechs[1+pick(3)]
			if pick(10) == 0 {
				tech = cliTechs[0]
			}
			cs := cliCase{im: images[pick(2)], uefi: uefiPool[pw(3, len(uefiPool))], addSnp: tech[0], addTdx: tech[1], tag: "random",
				outDir: []string{"out", "out", ""}[pick(3)], dry: pick(2) == 0, mo: pick(3) == 0, ow: pick(2) == 0, early: pick(2) == 0,
				rndSeed: uint64(1 + pick(9)), files: map[string][]byte{}, ts: tsPool[pw(4, len(tsPool))], prod: prodPool[pw(5, len(prodPool))],
				commit: commitPool[pw(4, len(commitPool))], iid: idPool[pw(4, len(idPool))], fam: idPool[pw(4, len(idPool))],
				shapes: shapePool[pw(5, len(shapePool))], vm: vmPool[pw(5, len(vmPool))],
				cl: clPool[pw(3, len(clPool))], retries: []string{"", "0", "3", "-2"}[pick(4)],
				snap: []string{"", "", "snap"}[pick(3)], cand: []string{"", "rc0", "rc9"}[pick(3)], exists: pick(3) == 0, mread: []byte{'N', 'M'}[pick(2)],
				noImage: pick(40) == 0, gpreFail: pick(60) == 0, apreFail: pick(60) == 0, ginitFail: pick(60) == 0, ainitFail: pick(60) == 0}
			if cs.uefi != "" {
				p1, p2 := cliSidePaths(cs.uefi)
				sidePool := [][]byte{nil, cliSideFile(uint32(1 + pick(300))), {}, {0x08, 0x80, 0x80, 0x80, 0x80, 0x08}, {0x10, 0x01}, {0x08}}
				if b := sidePool[pw(5, len(sidePool))]; b != nil {
					cs.files[p1] = b
				}
				if b := sidePool[pw(5, len(sidePool))]; b != nil {
					cs.files[p2] = b
				}
			}
			if pick(6) == 0 {
				cs.svsmM = "m.txt"
				cs.files["m.txt"] = [][]byte{[]byte(strings.Repeat("7e", 48)), []byte(strings.Repeat("7e", 48) + "\n"), []byte("7e7e"), []byte("not hex")}[pw(2, 4)]
			}
			if pick(8) == 0 {
				cs.svsm = "s.igvm"
				if pick(8) != 0 {
					cs.files["s.igvm"] = []byte("svsm")
				}
			}
			cliOne(c, "c15/cli", dir, cs)
		}
	})
}
