package main

// Shared by the streams c04 and c08sev: synthetic OVMF image builder, the image descriptor syntax of
// the line protocol, error classification, and an independent recomputation of the SEV-SNP launch
// digest written from the AMD ABI (not using package sev).

import (
	"crypto/sha512"
	"encoding/binary"
	"encoding/hex"
	"fmt"
	"sort"
	"strings"

	"github.com/google/gce-tcb-verifier/ovmf/abi"
)

// ---------------------------------------------------------------------------------------------
// image descriptor: `z<n>` zeros, `b<hh>x<n>` repeated byte, `p<seed>x<n>` pattern, `h<hex>` literal

func c04PatByte(seed, i int) byte { return byte((seed + 7*i + i/256) % 256) }

// c04Encode writes b in the descriptor syntax (greedy run detection; decoding gives b back exactly).
func c04Encode(b []byte) string {
	if len(b) == 0 {
		return ""
	}
	var parts []string
	var lit []byte
	flush := func() {
		if len(lit) > 0 {
			parts = append(parts, "h"+hex.EncodeToString(lit))
			lit = nil
		}
	}
	i := 0
	for i < len(b) {
		// run of one byte
		j := i
		for j < len(b) && b[j] == b[i] {
			j++
		}
		same := j - i
		// pattern run starting here
		k := i
		seed := int(b[i])
		for k < len(b) && b[k] == c04PatByte(seed, k-i) {
			k++
		}
		pat := k - i
		switch {
		case same >= 16 && same >= pat:
			flush()
			if b[i] == 0 {
				parts = append(parts, fmt.Sprintf("z%d", same))
			} else {
				parts = append(parts, fmt.Sprintf("b%02xx%d", b[i], same))
			}
			i = j
		case pat >= 32:
			flush()
			parts = append(parts, fmt.Sprintf("p%dx%d", seed, pat))
			i = k
		default:
			lit = append(lit, b[i])
			i++
		}
	}
	flush()
	return strings.Join(parts, ";")
}

// c04Decode is the inverse (used to self-check the encoder).
func c04Decode(s string) []byte {
	var out []byte
	if s == "" {
		return out
	}
	for _, p := range strings.Split(s, ";") {
		switch p[0] {
		case 'z':
			var n int
			fmt.Sscanf(p[1:], "%d", &n)
			out = append(out, make([]byte, n)...)
		case 'h':
			b, _ := hex.DecodeString(p[1:])
			out = append(out, b...)
		case 'b':
			var v, n int
			fmt.Sscanf(p[1:], "%02xx%d", &v, &n)
			for i := 0; i < n; i++ {
				out = append(out, byte(v))
			}
		case 'p':
			var seed, n int
			fmt.Sscanf(p[1:], "%dx%d", &seed, &n)
			for i := 0; i < n; i++ {
				out = append(out, c04PatByte(seed, i))
			}
		}
	}
	return out
}

// ---------------------------------------------------------------------------------------------
// image builder

var (
	c04FooterGUID = []byte{0xde, 0x82, 0xb5, 0x96, 0xb2, 0x1f, 0xf7, 0x45, 0xba, 0xea, 0xa3, 0x66, 0xc5, 0x5a, 0x08, 0x2d}
	c04ResetGUID  = []byte{0xde, 0x71, 0xf7, 0x00, 0x7e, 0x1a, 0xcb, 0x4f, 0x89, 0x0e, 0x68, 0xc7, 0x7e, 0x2f, 0xb4, 0x4e}
	c04MetaGUID   = []byte{0x66, 0x65, 0x88, 0xdc, 0x4a, 0x98, 0x98, 0x47, 0xa7, 0x5e, 0x55, 0x85, 0xa7, 0xbf, 0x67, 0xcc}
)

type c04Sec struct{ Addr, Len, Kind uint32 }

// c04Block is one GUIDed-table block: payload followed by the 18-byte entry (size, EFI GUID).
type c04Block struct {
	guid    []byte // 16 bytes, EFI (mixed-endian) byte order as stored
	payload []byte
	size    int // stored Size field; -1: len(payload)+18
}

type c04Spec struct {
	size       int
	fill       int // 0 zeros, 1 constant byte, 2 pattern, 3 per-page mix
	fillSeed   int
	blocks     []c04Block // nearest to the footer first
	footerSize int        // stored Size of the footer entry; -1: computed
	footerGUID []byte
	tail       []byte // the 32 bytes after the footer
	// SEV metadata structure, placed so that it ends `metaEnd` bytes from the end of the image
	// (0: not placed by position but at the start of the image, as fakeovmf does)
	meta    []byte
	metaPos int // offset from the START of the image where meta is copied (-1: none)
}

func c04Entry(size int, guid []byte) []byte {
	e := make([]byte, 18)
	binary.LittleEndian.PutUint16(e[0:2], uint16(size))
	copy(e[2:], guid)
	return e
}

func c04MetaBytes(sig, length, version, count uint32, secs []c04Sec) []byte {
	b := make([]byte, 16+12*len(secs))
	binary.LittleEndian.PutUint32(b[0:], sig)
	binary.LittleEndian.PutUint32(b[4:], length)
	binary.LittleEndian.PutUint32(b[8:], version)
	binary.LittleEndian.PutUint32(b[12:], count)
	for i, s := range secs {
		binary.LittleEndian.PutUint32(b[16+12*i:], s.Addr)
		binary.LittleEndian.PutUint32(b[20+12*i:], s.Len)
		binary.LittleEndian.PutUint32(b[24+12*i:], s.Kind)
	}
	return b
}

func c04U32(v uint32) []byte {
	b := make([]byte, 4)
	binary.LittleEndian.PutUint32(b, v)
	return b
}

// build lays the image out; when the image is smaller than the structures, the result is the tail.
func (s *c04Spec) build() []byte {
	var table []byte // blocks in address order: farthest from the footer first
	for i := len(s.blocks) - 1; i >= 0; i-- {
		b := s.blocks[i]
		sz := b.size
		if sz < 0 {
			sz = len(b.payload) + 18
		}
		table = append(table, b.payload...)
		table = append(table, c04Entry(sz, b.guid)...)
	}
	fs := s.footerSize
	if fs < 0 {
		fs = len(table) + 18
	}
	fg := s.footerGUID
	if fg == nil {
		fg = c04FooterGUID
	}
	end := append(append(table, c04Entry(fs, fg)...), s.tail...)
	n := s.size
	total := n
	if len(end) > total {
		total = len(end)
	}
	if s.metaPos >= 0 && s.metaPos+len(s.meta) > total {
		total = s.metaPos + len(s.meta)
	}
	img := make([]byte, total)
	switch s.fill {
	case 1:
		for i := range img {
			img[i] = byte(s.fillSeed)
		}
	case 2:
		for i := range img {
			img[i] = c04PatByte(s.fillSeed, i%5000)
		}
	case 3:
		for pg := 0; pg*4096 < len(img); pg++ {
			for i := pg * 4096; i < len(img) && i < (pg+1)*4096; i++ {
				switch (pg + s.fillSeed) % 3 {
				case 1:
					img[i] = byte(pg + s.fillSeed)
				case 2:
					img[i] = c04PatByte(s.fillSeed+pg, i-pg*4096)
				}
			}
		}
	}
	if s.metaPos >= 0 {
		copy(img[s.metaPos:], s.meta)
	}
	copy(img[total-len(end):], end)
	return img[total-n:]
}

// c04Standard builds a well-formed image: reset block, metadata-offset block, metadata at metaPos.
func c04Standard(size int, resetAddr uint32, secs []c04Sec, metaPos int) *c04Spec {
	meta := c04MetaBytes(abi.SevSnpMetadataSignature, uint32(16+12*len(secs)), 1, uint32(len(secs)), secs)
	if metaPos < 0 {
		metaPos = 0
	}
	return &c04Spec{size: size, footerSize: -1, tail: make([]byte, 32), meta: meta, metaPos: metaPos,
		blocks: []c04Block{
			{guid: c04ResetGUID, payload: c04U32(resetAddr), size: -1},
			{guid: c04MetaGUID, payload: c04U32(uint32(size - metaPos)), size: -1},
		}}
}

// ---------------------------------------------------------------------------------------------
// error classes (substrings pinned by the repository's tests)

var c04ErrClasses = []struct{ sub, cls string }{
	{"vcpus at launch is", "vcpus"},
	{"unsupported SEV product", "product"},
	{"firmware is too small: found size 0x", "fw-small"},
	{"invalid firmware image without the GUIDed table", "no-footer"},
	{"invalid GUIDed table size", "table-size"},
	{"GUIDed table size unexpected", "table-remaining"},
	{"GUIDed table entries are corrupted", "entry-size"},
	{"duplicate GUIDs in the table", "dup-guid"},
	{"no matching block found for GUID", "no-block"},
	{"mismatch with GUID block size", "block-size"},
	{"unexpected SEV-ES reset block size", "reset-size"},
	{"firmware is too small: found size", "fw-small-offset"},
	{"not large enough to contain the metadata header", "offset-small"},
	{"the signature of the SEV memory offset is incorrect", "signature"},
	{"mismatch between SEV memory offset length", "length-mismatch"},
	{"not large enough to contain the metadata:", "offset-lt-length"},
	{"SEV OVMF metadata not found", "no-metadata"},
	{"expected only 1 section of type", "dup-kind"},
	{"not a positive multiple of a 4K page size", "section-length"},
	{"no proper pre-validated addresses", "no-unmeasured"},
	{"no secret page address found", "no-secret"},
	{"no CPUID page address found", "no-cpuid"},
	{"overlaps with", "overlap"},
	{"unknown OVMF page section type", "unknown-kind"},
	{"guest data must be of aligned on", "align-addr"},
	{"guest data must be of multiple of", "align-len"},
	{"address range is larger than the product can represent", "range"},
	{"cannot use SEV-SNP without SEV-ES", "snp-without-es"},
	{"could not parse family_id", "family-id"},
	{"could not parse image_id", "image-id"},
}

func c04Classify(err error) string {
	msg := err.Error()
	for _, c := range c04ErrClasses {
		if strings.Contains(msg, c.sub) {
			return c.cls
		}
	}
	return "other:" + tok(msg)
}

// ---------------------------------------------------------------------------------------------
// independent reference: the SNP launch digest from the AMD ABI, and the property's acceptance clauses

// reference VMSA page: (offset, width, value) of the non-zero reset-state fields (APM layout)
var c04RefBsp = []struct {
	off, w int
	v      uint64
}{
	{0x002, 2, 0x93}, {0x004, 4, 0xffff}, // ES
	{0x010, 2, 0xf000}, {0x012, 2, 0x9b}, {0x014, 4, 0xffff}, {0x018, 8, 0xffff0000}, // CS
	{0x022, 2, 0x93}, {0x024, 4, 0xffff}, // SS
	{0x032, 2, 0x93}, {0x034, 4, 0xffff}, // DS
	{0x042, 2, 0x93}, {0x044, 4, 0xffff}, // FS
	{0x052, 2, 0x93}, {0x054, 4, 0xffff}, // GS
	{0x064, 4, 0xffff},                   // GDTR
	{0x072, 2, 0x82}, {0x074, 4, 0xffff}, // LDTR
	{0x084, 4, 0xffff},                   // IDTR
	{0x092, 2, 0x8b}, {0x094, 4, 0xffff}, // TR
	{0x0D0, 8, 0x1000},     // EFER
	{0x148, 8, 0x40},       // CR4
	{0x158, 8, 0x10},       // CR0
	{0x160, 8, 0x400},      // DR7
	{0x168, 8, 0xffff0ff0}, // DR6
	{0x170, 8, 0x2},        // RFLAGS
	{0x178, 8, 0xfff0},     // RIP
	{0x268, 8, 0x70106},    // G_PAT
	{0x310, 8, 0x600},      // RDX
	{0x3B0, 8, 0x1},        // SEV_FEATURES
	{0x3E8, 8, 0x1},        // XCR0
}

func c04RefVmsa(ap bool, resetAddr uint32) []byte {
	pg := make([]byte, 4096)
	put := func(off, w int, v uint64) {
		for i := 0; i < w; i++ {
			pg[off+i] = byte(v >> (8 * i))
		}
	}
	for _, f := range c04RefBsp {
		put(f.off, f.w, f.v)
	}
	if ap {
		put(0x178, 8, uint64(resetAddr&0xffff))
		put(0x018, 8, uint64(resetAddr&0xffff0000))
	}
	return pg
}

func c04RefUpdate(d []byte, contents []byte, pageType byte, gpa uint64) []byte {
	info := make([]byte, 0x70)
	copy(info[0:], d)
	copy(info[0x30:], contents)
	binary.LittleEndian.PutUint16(info[0x60:], 0x70)
	info[0x62] = pageType
	binary.LittleEndian.PutUint64(info[0x68:], gpa)
	h := sha512.Sum384(info)
	return h[:]
}

func c04RefKindType(kind uint32) byte {
	switch kind {
	case 1:
		return 4
	case 2:
		return 5
	case 3:
		return 6
	case 4:
		return 3
	}
	return 0
}

// c04RefDigest: ROM as NORMAL pages ending at 4 GiB ascending, sections in declared order, VMSAs at the
// product's highest page.
func c04RefDigest(fw []byte, secs []c04Sec, resetAddr uint32, vcpus int, width uint) []byte {
	d := make([]byte, 48)
	zero := make([]byte, 48)
	base := uint64(1)<<32 - uint64(len(fw))
	for off := 0; off+4096 <= len(fw); off += 4096 {
		c := sha512.Sum384(fw[off : off+4096])
		d = c04RefUpdate(d, c[:], 1, base+uint64(off))
	}
	for _, s := range secs {
		for p := uint64(0); p < uint64(s.Len); p += 4096 {
			d = c04RefUpdate(d, zero, c04RefKindType(s.Kind), uint64(s.Addr)+p)
		}
	}
	high := (uint64(1)<<width - 1) &^ 0xfff
	for i := 0; i < vcpus; i++ {
		c := sha512.Sum384(c04RefVmsa(i > 0, resetAddr))
		d = c04RefUpdate(d, c[:], 2, high)
	}
	return d
}

// c04Malformed returns the property's malformation clauses that the section list violates
// (empty when the metadata is well-formed in the property's sense).
func c04Malformed(secs []c04Sec) []string {
	var out []string
	seen := map[uint32]int{}
	for _, s := range secs {
		seen[s.Kind]++
		if s.Addr%4096 != 0 || s.Len%4096 != 0 {
			out = append(out, "misaligned")
		}
		if s.Len == 0 {
			out = append(out, "empty")
		}
		if s.Kind < 1 || s.Kind > 4 {
			out = append(out, "unknown-kind")
		}
	}
	if seen[3] > 1 {
		out = append(out, "duplicate-cpuid")
	}
	if seen[2] > 1 {
		out = append(out, "duplicate-secrets")
	}
	for k, n := range map[uint32]string{1: "missing-unmeasured", 2: "missing-secrets", 3: "missing-cpuid"} {
		if seen[k] == 0 {
			out = append(out, n)
		}
	}
	for i := range secs {
		for j := i + 1; j < len(secs); j++ {
			a, b := secs[i], secs[j]
			if a.Len == 0 || b.Len == 0 {
				continue
			}
			if uint64(a.Addr) < uint64(b.Addr)+uint64(b.Len) && uint64(b.Addr) < uint64(a.Addr)+uint64(a.Len) {
				out = append(out, "overlap")
			}
		}
	}
	sort.Strings(out)
	var ded []string
	for i, s := range out {
		if i == 0 || out[i-1] != s {
			ded = append(ded, s)
		}
	}
	return ded
}

func c04SecsString(secs []c04Sec) string {
	p := make([]string, len(secs))
	for i, s := range secs {
		p[i] = fmt.Sprintf("%#x+%#x/%d", s.Addr, s.Len, s.Kind)
	}
	return strings.Join(p, ",")
}
