package main

// Stream c07dec — genuine objects the mutation generators start from.  Everything is produced by the
// repository's own pipeline (endorse.VirtualFirmware with the process-wide in-memory CA), by
// go-sev-guest (test certificate chain, ABI report encoder, certificate-table encoder) and by
// go-tdx-guest (sample quote), exactly as harness/c01.go and harness/c16.go do.

import (
	"crypto"
	"crypto/rsa"
	"crypto/x509"
	"encoding/base64"
	"encoding/hex"
	"encoding/pem"
	"os"
	"path/filepath"

	"github.com/google/gce-tcb-verifier/endorse"
	epb "github.com/google/gce-tcb-verifier/proto/endorsement"
	"github.com/google/gce-tcb-verifier/sev"
	"github.com/google/gce-tcb-verifier/tdx"
	"github.com/google/gce-tcb-verifier/testing/nonprod/localnonvcs"
	sabi "github.com/google/go-sev-guest/abi"
	spb "github.com/google/go-sev-guest/proto/sevsnp"
	stest "github.com/google/go-sev-guest/testing"
	tabi "github.com/google/go-tdx-guest/abi"
	tpb "github.com/google/go-tdx-guest/proto/tdx"
	"github.com/google/go-tdx-guest/testing/testdata"
	tpmpb "github.com/google/go-tpm-tools/proto/attest"
	"google.golang.org/protobuf/proto"
)

type c07Env struct {
	key   *rsa.PrivateKey
	leaf  *x509.Certificate
	root  *x509.Certificate
	pool  *x509.CertPool
	sigR  *Rng
	e0    []byte                   // genuine endorsement container
	e0m   *epb.VMLaunchEndorsement // its message
	g0    *epb.VMGoldenMeasurement // its golden measurement
	meas1 []byte                   // SEV-SNP measurement listed for one VMSA
	mrtd  []byte                   // first endorsed MRTD
	ram0  uint32                   // its ram_gib
	vcek  []byte
	ask   []byte
	ark   []byte
	// genuine attestations, by name
	att    map[string][]byte
	attSev *spb.Attestation // report(meas1) + chain(vcek, extras{GCE GUID: e0})
	quote  *tpb.QuoteV4     // sample quote with the endorsed MRTD
	// base policies for the policy entry points
	caPEM []byte
}

func c07Must(err error) {
	if err != nil {
		panic(err)
	}
}

func c07Marshal(m proto.Message) []byte {
	b, err := proto.Marshal(m)
	c07Must(err)
	return b
}

func c07PEM(typ string, der []byte) []byte {
	return pem.EncodeToMemory(&pem.Block{Type: typ, Bytes: der})
}

func (env *c07Env) report(meas []byte) *spb.Report {
	return &spb.Report{
		Signature: make([]byte, sabi.SignatureSize), Version: 2, GuestSvn: 2,
		ReportData: make([]byte, sabi.ReportDataSize), FamilyId: make([]byte, sabi.FamilyIDSize),
		ImageId: make([]byte, sabi.ImageIDSize), Measurement: meas,
		IdKeyDigest: make([]byte, sabi.IDKeyDigestSize), AuthorKeyDigest: make([]byte, sabi.AuthorKeyDigestSize),
		HostData: make([]byte, sabi.HostDataSize), ReportId: make([]byte, sabi.ReportIDSize),
		ReportIdMa: make([]byte, sabi.ReportIDMASize), ChipId: make([]byte, sabi.ChipIDSize),
		Policy: sabi.SnpPolicyToBytes(sabi.SnpPolicy{}), SignatureAlgo: 1,
	}
}

func (env *c07Env) chain(extras map[string][]byte) *spb.CertificateChain {
	return &spb.CertificateChain{VcekCert: env.vcek, AskCert: env.ask, ArkCert: env.ark, Extras: extras}
}

// sevAtt: a genuine-looking attestation whose certificate table carries blob under the GCE GUID
// (blob == nil: no such entry).
func (env *c07Env) sevAtt(meas, blob []byte, hasBlob bool) *spb.Attestation {
	var extras map[string][]byte
	if hasBlob {
		extras = map[string][]byte{sev.GCEFwCertGUID: blob}
	}
	return &spb.Attestation{Report: env.report(meas), CertificateChain: env.chain(extras)}
}

func (env *c07Env) sign(payload []byte) []byte {
	return c01SignPSS(env.sigR, env.key, payload, crypto.SHA256, 32)
}

// container marshals a VMLaunchEndorsement around payload, signed with the genuine key when signed.
func (env *c07Env) container(payload []byte, signed bool) []byte {
	sig := env.e0m.Signature
	if signed {
		sig = env.sign(payload)
	}
	return c07Marshal(&epb.VMLaunchEndorsement{SerializedUefiGolden: payload, Signature: sig})
}

func newC07Env(seed uint64) *c07Env {
	env := &c07Env{sigR: &Rng{s: seed ^ 0xc07dec}}
	ctx := quietCtx(true)
	s, ca := memKeys()
	env.key = s.Keys[memSignKey]
	env.leaf = ca.Certs[memSignKey]
	env.root = ca.Certs[memRootKey]
	env.pool = x509.NewCertPool()
	env.pool.AddCert(env.root)
	env.caPEM = append(c07PEM("CERTIFICATE", env.leaf.Raw), c07PEM("CERTIFICATE", env.root.Raw)...)

	dir, err := os.MkdirTemp("", "verif-c07dec-")
	c07Must(err)
	defer os.RemoveAll(dir)
	ec := &endorse.Context{
		SevSnp:    &sev.SnpEndorsementRequest{Svn: 2, LaunchVmsas: 1, Product: spb.SevProduct_SEV_PRODUCT_MILAN, FamilyID: sev.GCEUefiFamilyID},
		Tdx:       &tdx.EndorsementRequest{Svn: 1},
		Image:     cleanFirmware(2*1024*1024, 9),
		ClSpec:    1234,
		Timestamp: baseTime,
		VCS:       &localnonvcs.T{Root: dir},
		OutDir:    "out",
	}
	c07Must(endorse.VirtualFirmware(endorse.NewContext(keysCtx(ctx, &Rng{s: 13}), ec)))
	eb, err := os.ReadFile(filepath.Join(dir, "out", "endorsement.binarypb"))
	c07Must(err)
	env.e0 = eb
	env.e0m = &epb.VMLaunchEndorsement{}
	c07Must(proto.Unmarshal(eb, env.e0m))
	env.g0 = &epb.VMGoldenMeasurement{}
	c07Must(proto.Unmarshal(env.e0m.SerializedUefiGolden, env.g0))
	if env.g0.SevSnp == nil || len(env.g0.SevSnp.Measurements[1]) != 48 || env.g0.Tdx == nil || len(env.g0.Tdx.Measurements) == 0 {
		panic("c07dec: unexpected genuine golden measurement shape")
	}
	env.meas1 = env.g0.SevSnp.Measurements[1]
	env.mrtd = env.g0.Tdx.Measurements[0].Mrtd
	env.ram0 = env.g0.Tdx.Measurements[0].RamGib

	chain, err := stest.DefaultTestOnlyCertChain("Milan", baseTime)
	c07Must(err)
	env.vcek, env.ask, env.ark = chain.Vcek.Raw, chain.Ask.Raw, chain.Ark.Raw

	env.attSev = env.sevAtt(env.meas1, env.e0, true)
	qa, err := tabi.QuoteToProto(testdata.RawQuote)
	c07Must(err)
	env.quote = qa.(*tpb.QuoteV4)
	env.quote.TdQuoteBody.MrTd = env.mrtd

	rawReport, err := sabi.ReportToAbiBytes(env.report(env.meas1))
	c07Must(err)
	table := sabi.CertsFromProto(env.attSev.CertificateChain).Marshal()
	sevRaw := append(append([]byte{}, rawReport...), table...)
	tdxRaw := append([]byte{}, testdata.RawQuote...)
	copy(tdxRaw[0xB8:0xB8+48], env.mrtd)
	env.att = map[string][]byte{
		"tpmsev":      c07Marshal(&tpmpb.Attestation{TeeAttestation: &tpmpb.Attestation_SevSnpAttestation{SevSnpAttestation: env.attSev}}),
		"tpmtdx":      c07Marshal(&tpmpb.Attestation{TeeAttestation: &tpmpb.Attestation_TdxAttestation{TdxAttestation: env.quote}}),
		"tpmempty":    c07Marshal(&tpmpb.Attestation{AkPub: []byte("ak")}),
		"sevattproto": c07Marshal(env.attSev),
		"reportproto": c07Marshal(env.attSev.Report),
		"q4proto":     c07Marshal(env.quote),
		"sevraw":      sevRaw,
		"sevreport":   rawReport,
		"certtable":   table,
		"tdxraw":      tdxRaw,
		"hexsevraw":   []byte(hex.EncodeToString(sevRaw)),
		"b64sevraw":   []byte(base64.StdEncoding.EncodeToString(sevRaw)),
		"hextdxraw":   []byte(hex.EncodeToString(tdxRaw)),
	}
	return env
}

var c07AttNames = []string{"tpmsev", "tpmtdx", "tpmempty", "sevattproto", "reportproto", "q4proto", "sevraw",
	"sevreport", "certtable", "tdxraw", "hexsevraw", "b64sevraw", "hextdxraw"}
