package main

import (
	"context"
	"crypto/sha512"
	"errors"
	"fmt"
	"path"
	"strings"
	"time"

	"github.com/google/gce-tcb-verifier/endorse"
	"github.com/google/gce-tcb-verifier/keys"
	epb "github.com/google/gce-tcb-verifier/proto/endorsement"
	rpb "github.com/google/gce-tcb-verifier/proto/releases"
	"github.com/google/gce-tcb-verifier/sev"
	sgpb "github.com/google/go-sev-guest/proto/sevsnp"
	"google.golang.org/protobuf/encoding/prototext"
	"google.golang.org/protobuf/proto"
)

func init() {
	register("c14", "real endorse.RetrySubmit + changeEndorsements (hook VerifCommitEndorsement, and a sample through "+
		"endorse.VirtualFirmware) against a scripted VersionControl/ChangeOps double: per attempt the ordinal of the failing "+
		"backend call (GetChangeOps, reads, writes, mode change, TryCommit), retriable or permanent, manifest contents of that "+
		"workspace (a concurrent writer edits the head between attempts), unparseable manifest, existing file without overwrite. "+
		"Exhaustive: every script for budgets -2..3 (all non-final attempts failing retriably), several writers; snapshot mode; "+
		"ARBITRARY names: every candidate name of the pool (uncanonical, climbing, rooted, empty, dots, trailing and double "+
		"slashes, unicode) x out dirs with every one- and two-attempt script at budget 1, snapshot dirs x image names with "+
		"every fault ordinal; random longer scripts. Compared: result class and full call log (every path argument). Non-trivial: at least two attempts, or a failing "+
		"ChangeOps call, or a non-empty manifest merged; distinct by op line.", runC14)
}

// ---- scripted backend double ----

type c14Ev struct {
	kind     string
	ws       int
	ok       bool
	arg      string
	manifest []mEntry
	seq      int // position on the shared clock, when several doubles record into one run (c15)
}

type c14Attempt struct {
	failAt    int // ordinal of the failing backend call in this attempt, -1 = none
	retriable bool
	exists    bool
	mread     byte // 'N' not found, 'G' garbage, 'M' entries
	entries   []mEntry
}

type c14Err struct {
	attempt   int
	retriable bool
	notFound  bool
}

func (e *c14Err) Error() string {
	return fmt.Sprintf("scripted backend error (attempt %d retriable %v notfound %v)", e.attempt, e.retriable, e.notFound)
}

type c14Commit int

type c14VCS struct {
	script    []c14Attempt
	log       []c14Ev
	attempt   int
	anomalies []string
	clock     *int              // optional shared clock
	files     map[string][]byte // contents of the files written (last write wins)
	queries   int               // RetriableError calls so far (a dry run asks without ever requesting a workspace)
}

func (v *c14VCS) rec(e c14Ev) {
	if v.clock != nil {
		*v.clock++
		e.seq = *v.clock
	}
	v.log = append(v.log, e)
}

type c14Ops struct {
	v    *c14VCS
	id   int
	a    c14Attempt
	next int
	dead bool
}

func (v *c14VCS) anomaly(s string) {
	for _, a := range v.anomalies {
		if a == s {
			return
		}
	}
	v.anomalies = append(v.anomalies, s)
}

func (v *c14VCS) GetChangeOps(context.Context) (endorse.ChangeOps, error) {
	v.attempt++
	if v.attempt >= len(v.script) {
		v.anomaly("script-exhausted")
		v.rec(c14Ev{kind: "getOps", ws: v.attempt})
		return nil, &c14Err{attempt: v.attempt}
	}
	a := v.script[v.attempt]
	if a.failAt == 0 {
		v.rec(c14Ev{kind: "getOps", ws: v.attempt})
		return nil, &c14Err{attempt: v.attempt, retriable: a.retriable}
	}
	v.rec(c14Ev{kind: "getOps", ws: v.attempt, ok: true})
	return &c14Ops{v: v, id: v.attempt, a: a, next: 1}, nil
}

func (v *c14VCS) RetriableError(err error) bool {
	ans := false
	var ce *c14Err
	switch {
	case err == nil:
		v.anomaly("retriable-query-nil-error")
	case errors.As(err, &ce) && !ce.notFound:
		if ce.attempt != v.attempt {
			v.anomaly("retriable-query-stale-error")
		}
		ans = ce.retriable
	default: // an error the code produced itself: the script decides what the backend says
		at := v.attempt
		if at < 0 { // dry run: no workspace was ever requested; the k-th query is about the k-th iteration of the loop
			at = v.queries
		}
		if at >= 0 && at < len(v.script) {
			ans = v.script[at].retriable
		}
		v.queries++
		v.rec(c14Ev{kind: "retriable", ws: at, ok: ans})
		return ans
	}
	v.queries++
	v.rec(c14Ev{kind: "retriable", ws: v.attempt, ok: ans})
	return ans
}

func (v *c14VCS) Result(commit any, p string) {
	id, ok := commit.(c14Commit)
	v.rec(c14Ev{kind: "result", ws: int(id), ok: ok, arg: p})
}

func (v *c14VCS) ReleasePath(_ context.Context, p string) string { return "R/" + p }

func (o *c14Ops) step(kind, arg string, m []mEntry) error {
	if o.dead {
		o.v.anomaly("call-on-released-workspace")
	}
	k := o.next
	o.next++
	if o.a.failAt == k {
		o.v.rec(c14Ev{kind: kind, ws: o.id, arg: arg, manifest: m})
		return &c14Err{attempt: o.id, retriable: o.a.retriable}
	}
	o.v.rec(c14Ev{kind: kind, ws: o.id, ok: true, arg: arg, manifest: m})
	return nil
}

func isManifestPath(p string) bool { return strings.HasSuffix(p, "/"+endorse.ManifestFile) }

const c14Preamble = "# proto-file: releases.proto\n# generated by the scripted backend\n\n"

func (o *c14Ops) ReadFile(_ context.Context, p string) ([]byte, error) {
	if isManifestPath(p) {
		if err := o.step("readManifest", p, nil); err != nil {
			return nil, err
		}
		switch o.a.mread {
		case 'N':
			return nil, &c14Err{attempt: o.id, notFound: true}
		case 'G':
			return []byte("entries { this is not a manifest"), nil
		}
		b, err := prototext.Marshal(&rpb.VMEndorsementMap{Entries: entriesToProto(o.a.entries)})
		if err != nil {
			panic(err)
		}
		return append([]byte(c14Preamble), b...), nil
	}
	if err := o.step("readFile", p, nil); err != nil {
		return nil, err
	}
	if o.a.exists {
		return []byte("previous endorsement"), nil
	}
	return nil, &c14Err{attempt: o.id, notFound: true}
}

func (o *c14Ops) WriteOrCreateFiles(_ context.Context, files ...*endorse.File) error {
	if len(files) == 1 && isManifestPath(files[0].Path) {
		m := &rpb.VMEndorsementMap{}
		if err := prototext.Unmarshal(files[0].Contents, m); err != nil {
			o.v.anomaly("written-manifest-unparseable")
		}
		return o.step("writeManifest", files[0].Path, protoToEntries(m.Entries))
	}
	var ps []string
	for _, f := range files {
		if o.v.files != nil {
			o.v.files[f.Path] = f.Contents
		}
		ps = append(ps, f.Path)
		if len(f.Contents) == 0 {
			o.v.anomaly("empty-file-written")
		}
	}
	return o.step("writeFiles", strings.Join(ps, "+"), nil)
}

func (o *c14Ops) SetBinaryWritable(_ context.Context, p string) error { return o.step("chmod", p, nil) }

func (o *c14Ops) IsNotFound(err error) bool {
	var ce *c14Err
	return errors.As(err, &ce) && ce.notFound
}

func (o *c14Ops) Destroy() {
	o.v.rec(c14Ev{kind: "destroy", ws: o.id, ok: true})
	o.dead = true
}

func (o *c14Ops) TryCommit(context.Context) (any, error) {
	if err := o.step("commit", "", nil); err != nil {
		return nil, err
	}
	o.dead = true
	return c14Commit(o.id), nil
}

// ---- protocol rendering ----

func c14ShowLog(log []c14Ev) string {
	var parts []string
	for _, e := range log {
		parts = append(parts, fmt.Sprintf("%s@%d@%s@%s@%s", e.kind, e.ws, b2s(e.ok), e.arg, showEntries(e.manifest)))
	}
	return strings.Join(parts, ",")
}

func c14ShowScript(s []c14Attempt) string {
	var parts []string
	for _, a := range s {
		f := "-"
		if a.failAt >= 0 {
			f = fmt.Sprint(a.failAt)
		}
		m := string(a.mread)
		if a.mread == 'M' {
			m += showEntries(a.entries)
		}
		parts = append(parts, fmt.Sprintf("%s/%s/%s/%s", f, b2s(a.retriable), b2s(a.exists), m))
	}
	return strings.Join(parts, "|")
}

type c14Cfg struct {
	snap, ow, svsm, scrtm bool
	cand                  string
	image                 []byte
	ts                    time.Time
	names                 *c14Names // nil: out dir "out", snapshot dir "snap", image name "fw.fd"
}

// c14Names: --out_dir, --snapshot_dir (used when snap) and the image name; arbitrary texts free of the
// protocol separators ' ', '=', '@', ',', '+', '|', ':', ';'. The snapshot dir must not be empty.
type c14Names struct{ out, sdir, img string }

func (cf c14Cfg) nm() c14Names {
	if cf.names == nil {
		return c14Names{"out", "snap", "fw.fd"}
	}
	return *cf.names
}

// cleanName is the canonical spelling of the endorsement's file name, computed here with Go's package
// path, independently of the code under test.
func (cf c14Cfg) cleanName() string { return path.Clean(endorseBasename(cf.cand)) }

// refused: the cleaned name is rooted or climbs out of the output directory.
func (cf c14Cfg) refused() bool {
	b := cf.cleanName()
	return path.IsAbs(b) || strings.HasPrefix(b, "../")
}

func (cf c14Cfg) newEntry() mEntry {
	d := sha512.Sum384(cf.image)
	return mEntry{cf.cleanName(), hx(d[:]), fmt.Sprint(cf.ts.Unix())}
}

func c14OpLine(cf c14Cfg, dry bool, budget int, script []c14Attempt) string {
	e := cf.newEntry()
	n := cf.nm()
	return fmt.Sprintf("c14 op=retry budget=%d dry=%s snap=%s ow=%s svsm=%s scrtm=%s cand=%s root=R out=%s sdir=%s img=%s dg=%s t=%s script=%s",
		budget, b2s(dry), b2s(cf.snap), b2s(cf.ow), b2s(cf.svsm), b2s(cf.scrtm), cf.cand, n.out, n.sdir, n.img, e.digest, e.time, c14ShowScript(script))
}

func c14Context(cf c14Cfg, budget int, v endorse.VersionControl, rng *Rng) (*endorse.Context, context.Context) {
	n := cf.nm()
	ec := &endorse.Context{Image: cf.image, Timestamp: cf.ts, VCS: v, CommitRetries: budget, OutDir: n.out,
		CandidateName: cf.cand, ImageName: n.img}
	if cf.snap {
		ec.SnapshotDir = n.sdir
	}
	if cf.svsm {
		ec.SvsmImage = []byte("svsm image")
	}
	svn := uint32(0)
	if cf.scrtm {
		svn = 3
	}
	ec.SevSnp = &sev.SnpEndorsementRequest{Svn: svn, LaunchVmsas: 1, Product: sgpb.SevProduct_SEV_PRODUCT_MILAN,
		ImageID: "87654321-dead-beef-c0de-123456789abc"}
	return ec, nil
}

// c14Run drives the real code. viaVF: whole endorse.VirtualFirmware; otherwise commitEndorsement.
func c14Run(cf c14Cfg, budget int, script []c14Attempt, viaVF bool, rng *Rng) (*c14VCS, string, bool) {
	v := &c14VCS{script: script, attempt: -1}
	ec, _ := c14Context(cf, budget, v, rng)
	var err error
	var panicked bool
	var pmsg string
	if viaVF {
		ctx := endorse.NewContext(keysCtx(quietCtx(cf.ow), rng), ec)
		panicked, pmsg, _ = Guard(func() { err = endorse.VirtualFirmware(ctx) })
	} else {
		ctx := endorse.NewContext(keys.NewContext(quietCtx(cf.ow), &keys.Context{Random: rng}), ec)
		golden, _ := proto.Marshal(&epb.VMGoldenMeasurement{Digest: func() []byte { d := sha512.Sum384(cf.image); return d[:] }()})
		e := &epb.VMLaunchEndorsement{SerializedUefiGolden: golden, Signature: []byte("signature")}
		panicked, pmsg, _ = Guard(func() { err = endorse.VerifCommitEndorsement(ctx, e) })
	}
	res := "ok"
	switch {
	case panicked:
		res = "panic"
		v.anomaly("panic:" + tok(pmsg))
	case err == nil:
	case errors.Is(err, endorse.ErrNoRetries):
		res = "noretries"
	default:
		res = "err"
	}
	return v, res, err == nil && !panicked
}

// c14Oracle evaluates the clauses of C14 on the recorded log alone.
func c14Oracle(c *Ctx, cf c14Cfg, budget int, script []c14Attempt, v *c14VCS, success bool, res, replay string) {
	log := v.log
	find := func(clause, what string) { c.Find("c14/RetrySubmit/"+clause, what, replay) }
	for _, a := range v.anomalies {
		key := a
		if i := strings.Index(a, ":"); i > 0 {
			key = a[:i]
		}
		find("backend-misuse/"+key, "the double observed: "+a)
	}
	// 1. bounded
	n := 0
	for _, e := range log {
		if e.kind == "getOps" {
			n++
		}
	}
	bound := budget
	if bound < 0 {
		bound = 0
	}
	if n < 1 {
		find("attempts-lower", "no attempt was made")
	}
	if n > bound+1 {
		find("attempts-bound", fmt.Sprintf("%d attempts with retry budget %d", n, budget))
	}
	// 2. retry only after retriable; nothing after a permanent answer
	for i, e := range log {
		if e.kind == "getOps" && i > 0 && !(log[i-1].kind == "retriable" && log[i-1].ok) {
			find("retry-after-nonretriable", "a new attempt started without a retriable verdict for the previous error")
		}
		if e.kind == "retriable" && !e.ok && i != len(log)-1 {
			find("continues-after-permanent", "backend calls follow an error the backend marked permanent")
		}
		if e.kind == "retriable" && i > 0 && !(log[i-1].kind == "destroy" || (log[i-1].kind == "getOps" && !log[i-1].ok)) {
			find("retriable-query-misplaced", "RetriableError asked although the attempt did not end in a released workspace")
		}
	}
	// 3. fresh workspace per attempt; 5. released; 4. manifest; 6/7 success, result
	cur, alive, gets := -1, false, 0
	readOK := map[int]bool{}
	destroyed := map[int]int{}
	committed := map[int]bool{}
	obtained := map[int]bool{}
	results := 0
	ne := cf.newEntry()
	for i, e := range log {
		switch e.kind {
		case "getOps":
			if e.ws != gets {
				find("workspace-not-fresh", "GetChangeOps id out of sequence")
			}
			gets++
			if alive {
				find("workspace-leak", "a new workspace was requested while the previous one was neither committed nor destroyed")
			}
			cur, alive = e.ws, e.ok
			if e.ok {
				obtained[e.ws] = true
			}
		case "readManifest", "readFile", "writeFiles", "chmod", "writeManifest", "commit":
			if !alive || e.ws != cur {
				find("stale-workspace", "a ChangeOps call was made on a workspace that is not the current attempt's")
			}
			if i > 0 && !log[i-1].ok {
				find("continues-after-failed-call", "the attempt went on after a failed backend call")
			}
			if e.kind == "readManifest" && e.ok {
				readOK[e.ws] = true
			}
			if e.kind == "writeManifest" {
				if !readOK[e.ws] {
					find("manifest-not-reread", "manifest written without reading it in the same workspace")
				}
				if e.ws < len(script) {
					has := func(x mEntry) bool {
						for _, y := range e.manifest {
							if y == x {
								return true
							}
						}
						return false
					}
					for _, x := range script[e.ws].entries {
						if script[e.ws].mread == 'M' && x.path != ne.path && x.digest != ne.digest && !has(x) {
							find("dropped-entry", "an entry present in the manifest read in this attempt is missing from the manifest written")
						}
					}
					if !has(ne) {
						find("new-entry-missing", "the new entry is not in the written manifest")
					}
				}
			}
			if e.kind == "commit" && e.ok {
				committed[e.ws] = true
				alive = false
			}
		case "destroy":
			destroyed[e.ws]++
			if e.ws == cur {
				alive = false
			}
		case "result":
			results++
			if !(i > 0 && log[i-1].kind == "commit" && log[i-1].ok && log[i-1].ws == e.ws && e.ok) {
				find("result-without-commit", "Result recorded without an immediately preceding successful commit of that workspace")
			}
			want := ne.path
			if cf.snap {
				want = ""
			}
			if e.arg != want {
				find("result-path", "Result recorded with an unexpected endorsement path")
			}
		}
	}
	// 8. paths: every attempt computes its workspace paths the same way (same arguments, call for call, in
	// every attempt); in manifest mode the manifest is read and written at ReleasePath(Join(out, manifest)) and the
	// endorsement probed / written / re-moded at ReleasePath(Join(out, canonical name)); a refused name (rooted or
	// climbing once cleaned) touches no file: only the manifest is read.
	argsOf := map[int][]string{}
	for _, e := range log {
		switch e.kind {
		case "readManifest", "readFile", "writeFiles", "chmod", "writeManifest":
			argsOf[e.ws] = append(argsOf[e.ws], e.kind+"@"+e.arg)
		}
	}
	var longest []string
	for _, a := range argsOf {
		if len(a) > len(longest) {
			longest = a
		}
	}
	for _, a := range argsOf {
		for i := range a {
			if a[i] != longest[i] {
				find("paths-differ-between-attempts", "two attempts made the same call with different path arguments")
			}
		}
	}
	if !cf.snap {
		nm := cf.nm()
		wantManifest := "R/" + path.Join(nm.out, endorse.ManifestFile)
		wantFile := "R/" + path.Join(nm.out, cf.cleanName())
		for _, e := range log {
			switch e.kind {
			case "readManifest", "writeManifest":
				if e.arg != wantManifest {
					find("manifest-path", "the manifest was read or written at an unexpected path")
				}
			case "readFile", "writeFiles", "chmod":
				if cf.refused() {
					find("refused-name-touched-files", "a candidate name that is rooted or climbs out of the output directory reached the file system")
				} else if e.arg != wantFile {
					find("endorsement-path", "the endorsement was probed, written or re-moded at a path other than the canonical one below the output directory")
				}
			}
		}
		if cf.refused() && success {
			find("refused-name-accepted", "a run with a rooted or climbing candidate name reported success")
		}
	}
	for ws := range obtained {
		if !committed[ws] && destroyed[ws] != 1 {
			find("workspace-not-released", fmt.Sprintf("a failed attempt's workspace was destroyed %d times", destroyed[ws]))
		}
	}
	anyCommit := len(committed) > 0
	if success != anyCommit {
		find("success-iff-commit", fmt.Sprintf("reported success=%v but a commit succeeded=%v", success, anyCommit))
	}
	wantResults := 0
	if success {
		wantResults = 1
	}
	if results != wantResults {
		find("result-count", fmt.Sprintf("Result recorded %d times, success=%v", results, success))
	}
	if res == "noretries" && n != bound+1 {
		find("noretries-early", "ErrNoRetries although the budget was not used up")
	}
}

// ---- script generation ----

// outcome alphabet for manifest mode: 0 ok; 1..7 ordinal 0..6 fails retriably; 8..14 permanently;
// 15/16 garbage manifest with retriable/permanent verdict; 17/18 existing file (no overwrite) likewise.
const c14Alphabet = 19

var c14Retriable = []int{1, 2, 3, 4, 5, 6, 7, 15, 17}

func c14Outcome(o int) c14Attempt {
	a := c14Attempt{failAt: -1, mread: 'M'}
	switch {
	case o == 0:
	case o <= 7:
		a.failAt, a.retriable = o-1, true
	case o <= 14:
		a.failAt = o - 8
	case o == 15:
		a.mread, a.retriable = 'G', true
	case o == 16:
		a.mread = 'G'
	case o == 17:
		a.exists, a.retriable = true, true
	case o == 18:
		a.exists = true
	}
	return a
}

// c14Writer returns the manifest the k-th attempt's workspace sees: an initial head edited by a
// concurrent writer between attempts.
func c14Writer(mode, initial, k int, ne mEntry) (byte, []mEntry) {
	f1 := mEntry{"rc7.binarypb", "b1", "1"}
	var m []mEntry
	present := true
	switch initial {
	case 0:
		present = false // no manifest yet
	case 1:
		m = []mEntry{f1}
	case 2: // an older entry for the same path and another for the same digest
		m = []mEntry{f1, {ne.path, "0d", "2"}, {"rc5.binarypb", ne.digest, "3"}}
	}
	for g := 0; g < k; g++ {
		switch mode {
		case 0: // nobody else writes
		case 1: // a fresh foreign entry per gap
			m = append(append([]mEntry{}, m...), mEntry{fmt.Sprintf("w%d.binarypb", g), fmt.Sprintf("e%d", g), fmt.Sprint(10 + g)})
			present = true
		case 2: // someone publishes the same candidate path with another digest, then foreign entries
			if g == 0 {
				m = append(append([]mEntry{}, m...), mEntry{ne.path, "0f", "20"})
			} else {
				m = append(append([]mEntry{}, m...), mEntry{fmt.Sprintf("w%d.binarypb", g), fmt.Sprintf("e%d", g), fmt.Sprint(10 + g)})
			}
			present = true
		case 3: // head replaced wholesale by a different set each gap
			m = []mEntry{{fmt.Sprintf("v%d.binarypb", g), fmt.Sprintf("d%d", g), fmt.Sprint(30 + g)}, {"rc5.binarypb", ne.digest, "31"}}
			present = true
		}
	}
	if !present {
		return 'N', nil
	}
	return 'M', m
}

func runC14(c *Ctx) {
	rng := &Rng{s: 99}
	img := []byte("firmware image A")
	base := c14Cfg{cand: "rc0", image: img, ts: baseTime}
	one := func(cf c14Cfg, budget int, script []c14Attempt, viaVF bool, tag string) {
		line := c14OpLine(cf, false, budget, script)
		v, res, success := c14Run(cf, budget, script, viaVF, rng)
		impl := fmt.Sprintf("res=%s log=%s", res, c14ShowLog(v.log))
		gets, failedOp, merged := 0, false, false
		for _, e := range v.log {
			if e.kind == "getOps" {
				gets++
			}
			if !e.ok && e.kind != "getOps" && e.kind != "retriable" {
				failedOp = true
			}
			if !e.ok && e.kind != "retriable" {
				c.Count("fault/" + e.kind)
			}
			if e.kind == "writeManifest" && len(e.manifest) > 1 {
				merged = true
			}
		}
		c.Case(line, impl, gets >= 2 || failedOp || merged)
		c.Count(tag + "/res-" + res)
		c.Count(fmt.Sprintf("%s/attempts-%d", tag, gets))
		c14Oracle(c, cf, budget, script, v, success, res, line)
	}
	build := func(cf c14Cfg, seq []int, mode, initial int) []c14Attempt {
		var s []c14Attempt
		ne := cf.newEntry()
		for k, o := range append(append([]int{}, seq...), 0, 0) { // two sentinel attempts that would succeed
			a := c14Outcome(o)
			mr, es := c14Writer(mode, initial, k, ne)
			if a.mread != 'G' {
				a.mread, a.entries = mr, es
			}
			s = append(s, a)
		}
		return s
	}
	// ---- exhaustive: budgets -2..3, every script whose non-final attempts fail retriably ----
	recTag := "exh"
	var rec func(cf c14Cfg, budget, maxLen int, seq []int, mode, initial int)
	rec = func(cf c14Cfg, budget, maxLen int, seq []int, mode, initial int) {
		for o := 0; o < c14Alphabet; o++ {
			one(cf, budget, build(cf, append(seq, o), mode, initial), false, recTag)
		}
		if len(seq)+1 < maxLen {
			for _, o := range c14Retriable {
				rec(cf, budget, maxLen, append(append([]int{}, seq...), o), mode, initial)
			}
		}
	}
	for budget := -2; budget <= 3; budget++ {
		maxLen := 1
		if budget > 0 {
			maxLen = budget + 1
		}
		combos := [][2]int{{1, 1}, {2, 2}, {3, 0}, {0, 0}}
		for _, mi := range combos {
			rec(base, budget, maxLen, nil, mi[0], mi[1])
		}
	}
	// overwrite allowed: an existing file is replaced, never an error
	ow := base
	ow.ow = true
	for budget := 0; budget <= 1; budget++ {
		rec(ow, budget, budget+1, nil, 2, 2)
	}
	// default candidate name
	def := base
	def.cand = ""
	rec(def, 1, 2, nil, 1, 1)
	// ---- arbitrary names: candidate name x out dir, every one- and two-attempt script at budget 1 ----
	outs := []string{"out", "", ".", "./out//", "out/sub/..", "/abs", "../o", "é"}
	for ci, cand := range c13Cands {
		for oi, out := range outs {
			if c.Tier != "thorough" && (ci+oi)%3 != 0 && oi != 0 {
				continue
			}
			cf := base
			cf.cand = cand
			cf.ow = (ci+oi)%4 == 0
			cf.names = &c14Names{out: out, sdir: "snap", img: "fw.fd"}
			tag := "names-ok"
			if cf.refused() {
				tag = "names-refused"
			}
			c.Count(tag)
			recTag = tag
			rec(cf, 1, 2, nil, 2, 2)
			recTag = "exh"
		}
	}
	// ---- arbitrary snapshot dir and image name: every fault ordinal ----
	for si, sdir := range c13SnapDirs {
		for ii, img := range c13ImageName {
			if c.Tier != "thorough" && (si+ii)%2 != 0 {
				continue
			}
			cf := base
			cf.snap, cf.svsm, cf.scrtm = true, (si+ii)%3 == 0, ii%2 == 0
			cf.names = &c14Names{out: outs[(si+ii)%len(outs)], sdir: sdir, img: img}
			for f := -1; f <= 12; f++ {
				s := []c14Attempt{{failAt: f, retriable: true, mread: 'N'}, {failAt: f + 1, retriable: f%2 == 0, mread: 'N'}, {failAt: -1, mread: 'N'}}
				one(cf, 1, s, false, "snap-names")
			}
		}
	}
	// ---- snapshot mode: every fault ordinal, with and without SVSM / S_CRTM files ----
	for _, svsm := range []bool{false, true} {
		for _, scrtm := range []bool{false, true} {
			cf := base
			cf.snap, cf.svsm, cf.scrtm = true, svsm, scrtm
			for f := -1; f <= 12; f++ {
				for _, retr := range []bool{false, true} {
					for budget := 0; budget <= 1; budget++ {
						s := []c14Attempt{{failAt: f, retriable: retr, mread: 'N'}, {failAt: f + 1, retriable: retr, mread: 'N'},
							{failAt: -1, mread: 'N'}}
						one(cf, budget, s, false, "snap")
					}
				}
			}
		}
	}
	// ---- random longer scripts (budgets up to 8), all modes ----
	nr := c.N(1500, 60000)
	for i := 0; i < nr; i++ {
		cf := base
		cf.ow = c.Rng.Intn(4) == 0
		if c.Rng.Intn(5) == 0 {
			cf.cand = ""
		}
		if c.Rng.Intn(6) == 0 {
			cf.snap, cf.svsm, cf.scrtm = true, c.Rng.Bool(), c.Rng.Bool()
		}
		if c.Rng.Intn(3) == 0 {
			cf.cand = c13Cands[c.Rng.Intn(len(c13Cands))]
			cf.names = &c14Names{out: outs[c.Rng.Intn(len(outs))], sdir: c13SnapDirs[c.Rng.Intn(len(c13SnapDirs))], img: c13ImageName[c.Rng.Intn(len(c13ImageName))]}
		}
		budget := c.Rng.Intn(12) - 3
		n := 1 + c.Rng.Intn(10)
		var seq []int
		for k := 0; k < n; k++ {
			if c.Rng.Intn(8) == 0 {
				seq = append(seq, c.Rng.Intn(c14Alphabet))
			} else {
				seq = append(seq, c14Retriable[c.Rng.Intn(len(c14Retriable))])
			}
		}
		one(cf, budget, build(cf, seq, c.Rng.Intn(4), c.Rng.Intn(3)), false, "rand")
	}
	// ---- the whole pipeline: endorse.VirtualFirmware (measure, sign, commit) over the double ----
	fw := cleanFirmware(0x1000, 14)
	nv := c.N(150, 3000)
	for i := 0; i < nv; i++ {
		cf := c14Cfg{cand: []string{"", "rc0", "rc1"}[c.Rng.Intn(3)], image: fw, ts: baseTime.Add(time.Duration(i) * time.Second)}
		cf.ow = c.Rng.Intn(4) == 0
		if c.Rng.Intn(4) == 0 {
			cf.snap, cf.svsm = true, c.Rng.Bool()
		}
		cf.scrtm = c.Rng.Bool()
		if c.Rng.Intn(2) == 0 {
			cf.cand = c13Cands[c.Rng.Intn(len(c13Cands))]
			cf.names = &c14Names{out: outs[c.Rng.Intn(len(outs))], sdir: c13SnapDirs[c.Rng.Intn(len(c13SnapDirs))], img: c13ImageName[c.Rng.Intn(len(c13ImageName))]}
		}
		budget := c.Rng.Intn(6) - 1
		n := 1 + c.Rng.Intn(5)
		var seq []int
		for k := 0; k < n; k++ {
			if c.Rng.Intn(4) == 0 {
				seq = append(seq, c.Rng.Intn(c14Alphabet))
			} else {
				seq = append(seq, c14Retriable[c.Rng.Intn(len(c14Retriable))])
			}
		}
		one(cf, budget, build(cf, seq, c.Rng.Intn(4), c.Rng.Intn(3)), true, "vf")
	}
	c.Notes = append(c.Notes, "reading (DESIGN C14): a negative retry budget behaves as zero retries; the bound checked is 1 <= attempts <= max(budget,0)+1")
}
