package main

// Stream c01wire — "accepted endorsements are authentic" at the level of raw container BYTES.
//
// Stream c01 gives the Lean model the unmarshalled view of each endorsement as facts.  Here the model has
// protobuf instantiated by the Lean wire codec (Model/VerifyWire.lean): the op line carries the container
// bytes themselves and only the CRYPTOGRAPHIC facts (certificate parse, chain at the caller's time against
// the caller's roots, RSA-PSS/SHA-256/salt-32 over a payload byte string) for every (payload, signature)
// pair the container could denote; which pair it denotes — last payload field, last signature field, merge
// across concatenated containers, which certificate field inside the payload — is decided by the model from
// the bytes and must agree with what the real verify.Endorsement does.
//
// Cases: container-level constructions over genuine endorsements from the real endorse pipeline —
// concatenations of two and three containers, duplicated / reordered / empty fields, unknown fields of every
// wire type at every position, known numbers with other wire types, over-long tag and length varints,
// nesting, truncations, trailing bytes — and payload-level re-encodings (field order, re-marshalling,
// unknown fields, over-long varints, a second certificate field, merged embedded messages, the c03proto
// wire mutators), each under the original signature and re-signed by the genuine key; × root pools × times.
//
// Direct oracle (implementation + standard library only): the entry point accepted, and the endorsement
// the container denotes for proto.Unmarshal is not authentic by the independent evaluation.

import (
	"crypto/x509"
	"fmt"
	"time"

	gcmd "github.com/google/gce-tcb-verifier/gcetcbendorsement/cmd"
	"github.com/google/gce-tcb-verifier/sev"
	"github.com/google/gce-tcb-verifier/verify"
	spb "github.com/google/go-sev-guest/proto/sevsnp"
)

func init() {
	register("c01wire", "container BYTES of genuine endorsements (real endorse pipeline) rebuilt at the wire level: "+
		"concatenations, duplicated / reordered / empty / unknown / wrong-typed fields, over-long varints, nesting, "+
		"truncations, trailing bytes; payload re-encodings under the original signature and re-signed; x root pools x "+
		"times x entry points that take bytes (verify.Endorsement, SNP validator closure with serialized / fetched "+
		"blob, CLI verify). The Lean model decodes the bytes with the wire codec; only crypto verdicts are facts. "+
		"Non-trivial: the endorsement the container denotes has a payload that unmarshals and carries a certificate; "+
		"distinct by op line.", runC01Wire)
}

type c01wEnv struct {
	*c01Env
	m  *wireMaterial
	st *pwState
}

func (w *c01wEnv) record(ep, line, cls string, f *wireFacts, desc string) {
	c := w.c
	c.Case(line, cls+" sel="+f.sel, f.nt)
	c.Count("ep/" + ep + "/" + cls)
	c.Count("sel/" + f.sel)
	if f.auth {
		c.Count("denoted/authentic/" + cls)
	} else {
		c.Count("denoted/not-authentic:" + f.clause + "/" + cls)
	}
	if cls == "accept" && !f.auth {
		c.Find("c01wire/"+ep+"/accepted-not-authentic/"+f.clause,
			"entry point "+ep+" accepted container bytes whose endorsement (as proto.Unmarshal reads them) is not authentic for the caller's roots and time: "+f.clause+" ("+desc+")",
			line)
	}
	if cls == "panic" {
		c.Find("c01wire/"+ep+"/panic", "entry point "+ep+" panicked on container bytes ("+desc+")", line)
	}
}

func (w *c01wEnv) runCase(cs wireCase, roots c01Roots, now c01Time, heavy bool) {
	c := w.c
	pool := roots.pool()
	f := wireComputeFacts(cs.cont, pool, now.t)
	c.Count("case/" + wireFamily(cs.desc))
	c.Count("roots/" + roots.desc)
	c.Count("time/" + now.desc)
	common := fmt.Sprintf(" case=%s rootsd=%s nowd=%s cont=%s roots=%s nilts=%s", tok(cs.desc), tok(roots.desc), tok(now.desc),
		hx(cs.cont), roots.tok(), w.nilts) + f.line()
	// ---- verify.Endorsement
	{
		so := w.pickSnp(true)
		et, exp := w.pickExp()
		cls := c01Classify(func() error {
			return verify.Endorsement(cs.cont, &verify.Options{RootsOfTrust: pool, Now: now.t, SNP: so.o, ExpectedUefiSha384: exp})
		})
		w.record("endorsement", "c01wire op=endorsement"+common+fmt.Sprintf(" snpo=%s exp=%s", so.tok, et), cls, f, cs.desc)
	}
	if !heavy {
		return
	}
	// ---- the SNP validator closure: serialized argument, then fetched blob
	for _, mode := range []string{"ser", "get"} {
		meas := w.meas1
		if c.Rng.Intn(4) == 0 {
			meas = w.unendorsed
		}
		att := &spb.Attestation{Report: &spb.Report{Measurement: meas}}
		var snp *verify.SNPOptions
		snpTok := "-"
		switch c.Rng.Intn(3) {
		case 0:
			snp, snpTok = &verify.SNPOptions{ExpectedLaunchVMSAs: 1}, "1:nil"
		case 1:
			snp, snpTok = &verify.SNPOptions{}, "0:nil"
		}
		opts := &verify.Options{RootsOfTrust: pool, Now: now.t, SNP: snp}
		var ser []byte
		if mode == "ser" {
			ser = cs.cont
			if ser == nil {
				ser = []byte{} // a nil slice means "no serialized endorsement" to the closure
			}
		} else {
			opts.Getter = &c01Getter{map[string][]byte{c01SnpURL("ovmf_x64_csm", meas): nonNil(cs.cont)}}
		}
		fn := verify.SNPFamilyValidateFunc(sev.GCEUefiFamilyID, opts)
		cls := c01Classify(func() error { return fn(att, ser) })
		line := "c01wire op=closure" + common + fmt.Sprintf(" mode=%s fam=%s att=%s snpo=%s exp=", mode, sev.GCEUefiFamilyID, hx(meas), snpTok)
		w.record("closure-"+mode, line, cls, f, cs.desc)
	}
	// ---- `gcetcbendorsement verify FILE --root_cert ROOT`
	if !roots.nilP && len(roots.certs) > 0 {
		files := map[string][]byte{"endorsement": cs.cont, "root": c01PEM(roots.certs...)}
		b := &gcmd.Backend{Now: now.t, IO: c01IO{files}}
		cls := w.runCLI(b, []string{"verify", "endorsement", "--root_cert", "root"})
		w.record("cliverify", "c01wire op=cliverify"+common+" snpo=- exp=", cls, f, cs.desc)
	}
}

func nonNil(b []byte) []byte {
	if b == nil {
		return []byte{}
	}
	return b
}

func wireFamily(desc string) string {
	for i := 0; i < len(desc); i++ {
		if desc[i] == '/' {
			return desc[:i]
		}
	}
	return desc
}

func runC01Wire(c *Ctx) {
	env := &c01Env{c: c}
	env.setup()
	w := &c01wEnv{c01Env: env, m: wireMaterialFrom(env), st: &pwState{c: c, seen: map[string]string{}, corpus: map[string][][]byte{}}}
	w.st.corpus["end"] = [][]byte{env.base.container}
	w.st.corpus["gold"] = [][]byte{w.m.P, w.m.P2}
	T0 := c01Time{"valid", baseTime.Add(time.Hour)}
	rootsA := c01Roots{desc: "genuine-root", certs: []*x509.Certificate{env.rootA}}
	others := []c01Roots{
		{desc: "nil-pool", nilP: true},
		{desc: "empty-pool"},
		{desc: "foreign-root", certs: []*x509.Certificate{env.caB.root}},
		{desc: "foreign+genuine-roots", certs: []*x509.Certificate{env.caB.root, env.rootA}},
	}
	times := []c01Time{
		{"signer-notAfter+1s", env.leafA.NotAfter.Add(time.Second)},
		{"signer-notBefore-1s", env.leafA.NotBefore.Add(-time.Second)},
		{"signer-notAfter", env.leafA.NotAfter},
	}
	cases := wireContainerCases(env, w.m)
	cases = append(cases, wirePayloadCases(env, w.m, w.st, c.N(60, 600))...)
	// (1) every case under the genuine root at a valid time, every entry point
	for _, cs := range cases {
		w.runCase(cs, rootsA, T0, true)
	}
	// (2) every case under another pool / at another time, verify.Endorsement (every 8th: all entry points)
	for i, cs := range cases {
		r, t := rootsA, T0
		if i%2 == 0 {
			r = others[c.Rng.Intn(len(others))]
		} else {
			t = times[c.Rng.Intn(len(times))]
		}
		w.runCase(cs, r, t, i%8 == 0)
	}
	// (3) random structure-aware mutations of containers (the c03proto operators on the container level),
	// stacked up to three deep, on top of random base cases
	n := c.N(700, 8000)
	for i := 0; i < n; i++ {
		base := cases[c.Rng.Intn(len(cases))]
		b := append([]byte{}, base.cont...)
		depth := 1 + c.Rng.Intn(3)
		desc := "mutate"
		for d := 0; d < depth; d++ {
			k := c.Rng.Intn(len(pwMutNames))
			b = w.st.mutate("end", b, k, 0)
			desc += "/" + pwMutNames[k]
			c.Count("container-mutator/" + pwMutNames[k])
		}
		r, t := rootsA, T0
		if c.Rng.Intn(5) == 0 {
			r = others[c.Rng.Intn(len(others))]
		}
		if c.Rng.Intn(6) == 0 {
			t = times[c.Rng.Intn(len(times))]
		}
		w.runCase(wireCase{desc + "/of/" + base.desc, b}, r, t, c.Rng.Intn(4) == 0)
	}
	// (4) random bytes and random prefixes of the genuine container
	for i := 0; i < c.N(60, 600); i++ {
		var b []byte
		if c.Rng.Bool() {
			b = c.Rng.Bytes(c.Rng.Intn(40))
		} else {
			g := env.base.container
			b = append([]byte{}, g[:c.Rng.Intn(len(g)+1)]...)
		}
		w.runCase(wireCase{"random", b}, rootsA, T0, false)
	}
}
