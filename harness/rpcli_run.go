package main

// The relying-party tool `gcetcbendorsement`, one command line at a time (streams c01cli, c02cli, c17cli): the cobra
// command tree built by gcetcbendorsement/cmd.MakeRoot is executed in-process on the argv of an rpCase, through the
// hook cmd.VerifWithBackend, against an in-memory Backend (files with write capture, getter, clock).  Every run is one
// `rpcli op=run …` protocol line carrying the command cobra resolves, every flag occurrence in argv order, the
// positional arguments, the files by synthetic content token and the facts / tables of the view, and is compared with
// the Lean model of the command line (Model/RpCli.lean: run = exec ∘ callOf):
//
//	res   accept | reject:<class> | panic — class is the check that refused, derived from the distinctive part of the
//	      error text (parse, args, read, unmarshal, attestation-read, root-get, no-getter, root-parse, outform,
//	      no-subcommand, create, write; everything the library returns is `lib`)
//	eff   the effects on the Backend's IO: create:<path> and write:<path>:<what the file then holds, decoded>
//
// The model is not told where on the command line a persistent flag stands (between the parent word and the
// sub-command word, or after it), nor whether a value is attached with `=` or is the next word.

import (
	"bytes"
	"context"
	"crypto/x509"
	"encoding/base64"
	"encoding/hex"
	"encoding/pem"
	"errors"
	"fmt"
	"io"
	"math/big"
	"sort"
	"strconv"
	"strings"
	"time"

	"github.com/google/gce-tcb-verifier/gcetcbendorsement"
	gcmd "github.com/google/gce-tcb-verifier/gcetcbendorsement/cmd"
	"github.com/google/gce-tcb-verifier/verify"
	cpb "github.com/google/go-sev-guest/proto/check"
	tcpb "github.com/google/go-tdx-guest/proto/checkconfig"
	"google.golang.org/protobuf/encoding/prototext"
	"google.golang.org/protobuf/proto"
)

type rpFlagOcc struct {
	name, val string
	bare      bool // written without a value (`--overwrite`); val is then "true"
	sep       bool // value is the next argv word (`--base file`) instead of `--base=file`
	early     bool // a persistent flag of the parent command, written before the sub-command word
}

type rpCase struct {
	cmd        string // "verify", "sev validate", … ("" = the root command)
	flags      []rpFlagOcc
	args       []string
	files      map[string][]byte
	tok        map[string]string // content token of each file for the protocol line
	getterNil  bool
	getter     map[string][]byte
	getterTok  string // token of what the getter returns for DefaultRootURL ("-" = it fails)
	now        time.Time
	term       map[string]bool
	createFail map[string]bool
	writeFail  map[string]bool
	tag        string
	extra      string // further fields of the protocol line (descriptions of the base policy files)
}

func (cs *rpCase) flag(name, val string) *rpCase {
	cs.flags = append(cs.flags, rpFlagOcc{name: name, val: val})
	return cs
}

func (cs *rpCase) boolFlag(name string) *rpCase {
	cs.flags = append(cs.flags, rpFlagOcc{name: name, val: "true", bare: true})
	return cs
}

// last returns the value text of the last occurrence of the flag.
func (cs *rpCase) last(name string) (string, bool) {
	for i := len(cs.flags) - 1; i >= 0; i-- {
		if cs.flags[i].name == name {
			return cs.flags[i].val, true
		}
	}
	return "", false
}

func (cs *rpCase) has(name string) bool { _, ok := cs.last(name); return ok }

// boolVal: the documented reading of a Bool flag (absent = false).
func (cs *rpCase) boolVal(name string) bool {
	v, ok := cs.last(name)
	if !ok {
		return false
	}
	b, err := strconv.ParseBool(v)
	return err == nil && b
}

func (cs *rpCase) put(path, token string, data []byte) {
	if cs.files == nil {
		cs.files, cs.tok = map[string][]byte{}, map[string]string{}
	}
	cs.files[path] = data
	cs.tok[path] = token
}

// argv renders the case as the words handed to cobra.
func (cs *rpCase) argv() []string {
	words := strings.Fields(cs.cmd)
	render := func(f rpFlagOcc) []string {
		switch {
		case f.bare:
			return []string{"--" + f.name}
		case f.sep:
			return []string{"--" + f.name, f.val}
		}
		return []string{"--" + f.name + "=" + f.val}
	}
	out := []string{}
	if len(words) > 0 {
		out = append(out, words[0])
	}
	if len(words) > 1 {
		for _, f := range cs.flags {
			if f.early {
				out = append(out, render(f)...)
			}
		}
		out = append(out, words[1:]...)
	}
	// positional arguments and the remaining flags interleaved: first half of the flags, arguments, second half
	var late []rpFlagOcc
	for _, f := range cs.flags {
		if !(f.early && len(words) > 1) {
			late = append(late, f)
		}
	}
	h := len(late) / 2
	for _, f := range late[:h] {
		out = append(out, render(f)...)
	}
	out = append(out, cs.args...)
	for _, f := range late[h:] {
		out = append(out, render(f)...)
	}
	return out
}

// ---- in-memory Backend.IO with write capture ----

var rpErrCreate = errors.New("verif: scripted Create failure")
var rpErrWrite = errors.New("verif: scripted Write failure")

type rpIO struct {
	cs      *rpCase
	files   map[string][]byte
	created []string
}

type rpWriter struct {
	io   *rpIO
	path string
}

func (w *rpWriter) Write(b []byte) (int, error) {
	if w.io.cs.writeFail[w.path] {
		return 0, rpErrWrite
	}
	w.io.files[w.path] = append(w.io.files[w.path], b...)
	return len(b), nil
}
func (w *rpWriter) IsTerminal() bool { return w.io.cs.term[w.path] }

func (i *rpIO) Create(path string) (gcetcbendorsement.TerminalWriter, func(), error) {
	if i.cs.createFail[path] {
		return nil, nil, rpErrCreate
	}
	i.files[path] = []byte{}
	i.created = append(i.created, path)
	return &rpWriter{i, path}, func() {}, nil
}

func (i *rpIO) ReadFile(p string) ([]byte, error) {
	if b, ok := i.files[p]; ok {
		return append([]byte(nil), b...), nil
	}
	return nil, fmt.Errorf("open %s: no such file or directory", p)
}

type rpGetter struct{ m map[string][]byte }

func (g *rpGetter) Get(url string) ([]byte, error) {
	if b, ok := g.m[url]; ok && b != nil {
		return b, nil
	}
	return nil, fmt.Errorf("404 for %s", url)
}

type rpResult struct {
	res     string // accept | reject:<class> | panic
	errText string
	created []string
	after   map[string][]byte
	argv    []string
}

// rpClass maps an error of the command to the coarse class of the check that refused.
func rpClass(err error) string {
	s := err.Error()
	has := func(x string) bool { return strings.Contains(s, x) }
	switch {
	case errors.Is(err, rpErrCreate):
		return "create"
	case errors.Is(err, rpErrWrite):
		return "write"
	case has("unknown flag"), has("unknown shorthand flag"), has("invalid argument"), has("unknown command"), has("flag needs an argument"), has("bad flag syntax"):
		return "parse"
	case has("expects exactly one"):
		return "args"
	case has("failed to read attestation file"):
		return "attestation-read"
	case has("failed to read file"):
		return "read"
	case has("failed to unmarshal proto"):
		return "unmarshal"
	case has("failed to get root certificate"):
		return "root-get"
	case has("getter was nil"):
		return "no-getter"
	case has("failed to parse root certificate"):
		return "root-parse"
	case has("unknown bytes form"):
		return "outform"
	case has("sub-command must be used"):
		return "no-subcommand"
	}
	return "lib"
}

// rpRun executes one command line.
func rpRun(cs *rpCase) rpResult {
	io_ := &rpIO{cs: cs, files: map[string][]byte{}}
	for p, b := range cs.files {
		io_.files[p] = append([]byte(nil), b...)
	}
	var getter verify.HTTPSGetter
	if !cs.getterNil {
		getter = &rpGetter{cs.getter}
	}
	b := &gcmd.Backend{Getter: getter, Now: cs.now, IO: io_}
	argv := cs.argv()
	var err error
	panicked, _, _ := Guard(func() {
		root := gcmd.MakeRoot(gcmd.VerifWithBackend(context.Background(), b))
		root.SetArgs(argv)
		root.SetOut(io.Discard)
		root.SetErr(io.Discard)
		root.SilenceUsage = true
		root.SilenceErrors = true
		err = root.Execute()
	})
	r := rpResult{created: io_.created, after: io_.files, argv: argv}
	switch {
	case panicked:
		r.res = "panic"
	case err != nil:
		r.res = "reject:" + rpClass(err)
		r.errText = err.Error()
	default:
		r.res = "accept"
	}
	return r
}

// ---- the protocol line ----

var rpNumericFlags = map[string]bool{"launch_vmsas": true, "ram_gib": true, "default_vmpl": true}

// rpNumeral: the value a numeral text denotes in Go's literal syntax (what strconv.Parse{Uint,Int}(s, 0, ·) read
// before their size check), or "E".
func rpNumeral(s string) string {
	if s == "" || strings.ContainsAny(s, " \t") {
		return "E"
	}
	// strconv does not accept a doubled sign or a sign after the prefix; big.Int.SetString(·, 0) follows the same
	// literal syntax otherwise
	v, ok := new(big.Int).SetString(s, 0)
	if !ok {
		return "E"
	}
	return v.String()
}

func rpDash(s string) string {
	if s == "" {
		return "_"
	}
	return s
}

func (cs *rpCase) line(view, extra string) string {
	var fl, nums, fs []string
	seen := map[string]bool{}
	for _, f := range cs.flags {
		fl = append(fl, f.name+":"+rpDash(f.val))
		if rpNumericFlags[f.name] && !seen[f.val] {
			seen[f.val] = true
			nums = append(nums, rpDash(f.val)+"@"+rpNumeral(f.val))
		}
	}
	var paths []string
	for p := range cs.files {
		paths = append(paths, p)
	}
	sort.Strings(paths)
	for _, p := range paths {
		fs = append(fs, p+":"+cs.tok[p])
	}
	var args []string
	for _, a := range cs.args {
		args = append(args, rpDash(a))
	}
	g := "nil"
	if !cs.getterNil {
		g = "ROOT:" + cs.getterTok
	}
	set := func(m map[string]bool) string {
		var l []string
		for k, v := range m {
			if v {
				l = append(l, k)
			}
		}
		sort.Strings(l)
		return strings.Join(l, ",")
	}
	cmd := strings.ReplaceAll(cs.cmd, " ", ".")
	if cmd == "" {
		cmd = "root"
	}
	return fmt.Sprintf("rpcli op=run view=%s cmd=%s flags=%s args=%s nums=%s fs=%s getter=%s term=%s createfail=%s writefail=%s%s",
		view, cmd, strings.Join(fl, ","), strings.Join(args, ","), strings.Join(nums, ";"), strings.Join(fs, ";"), g,
		set(cs.term), set(cs.createFail), set(cs.writeFail), cs.extra+extra)
}

// ---- what a root-certificate file holds, by the documented format (PEM bundle of CERTIFICATE blocks, or one DER
// certificate), without crypto/x509's CertPool ----

func rpRootCerts(data []byte) (pemCerts []*x509.Certificate, der *x509.Certificate) {
	for rest := data; len(rest) > 0; {
		var blk *pem.Block
		blk, rest = pem.Decode(rest)
		if blk == nil {
			break
		}
		if blk.Type != "CERTIFICATE" || len(blk.Headers) != 0 {
			continue
		}
		if c, err := x509.ParseCertificate(blk.Bytes); err == nil {
			pemCerts = append(pemCerts, c)
		}
	}
	if c, err := x509.ParseCertificate(data); err == nil {
		der = c
	}
	return
}

// rpNamedPool: the pool of exactly the certificates the root data holds (nil when it holds none).
func rpNamedPool(data []byte) (*x509.CertPool, int, bool) {
	pc, der := rpRootCerts(data)
	certs := pc
	if len(certs) == 0 && der != nil {
		certs = []*x509.Certificate{der}
	}
	if len(certs) == 0 {
		return nil, 0, der != nil
	}
	p := x509.NewCertPool()
	for _, c := range certs {
		p.AddCert(c)
	}
	return p, len(pc), der != nil
}

// ---- decoding what a policy command wrote ----

// rpDecodeOut finds the form of the bytes (strict decoders tried in the order text, hex, base64, raw) and decodes
// them into m.
func rpDecodeOut(b []byte, m proto.Message) (form string, ok bool) {
	fresh := func() proto.Message { return m.ProtoReflect().New().Interface() }
	try := func(bin []byte) bool {
		x := fresh()
		if proto.Unmarshal(bin, x) != nil {
			return false
		}
		proto.Reset(m)
		proto.Merge(m, x)
		return true
	}
	x := fresh()
	if len(b) > 0 && prototext.Unmarshal(b, x) == nil {
		proto.Reset(m)
		proto.Merge(m, x)
		return "text", true
	}
	if d, err := hex.DecodeString(string(b)); err == nil && len(b) > 0 && try(d) {
		return "hex", true
	}
	if d, err := base64.StdEncoding.DecodeString(string(b)); err == nil && len(b) > 0 && try(d) {
		return "base64", true
	}
	if try(b) {
		return "raw", true
	}
	return "?", false
}

func rpSevPolicyShow(form string, p *cpb.Policy) string {
	return fmt.Sprintf("sev/%s/policy=%d/meas=%s/minsvn=%d/id=%s/auth=%s", form, p.Policy, hx(p.Measurement), p.MinimumGuestSvn,
		hexList(p.TrustedIdKeys), hexList(p.TrustedAuthorKeys))
}

func rpTdxPolicyShow(form string, p *tcpb.Policy) string {
	return fmt.Sprintf("tdx/%s/mrtds=%s", form, hexList(p.GetTdQuoteBodyPolicy().GetAnyMrTd()))
}

// rpEffects renders the effect log: each created path with what it holds afterwards.
func rpEffects(cs *rpCase, r rpResult, show func(path string, content []byte) string) string {
	var out []string
	for _, p := range r.created {
		out = append(out, "create:"+p)
		if !cs.writeFail[p] {
			out = append(out, "write:"+p+":"+show(p, r.after[p]))
		}
	}
	return strings.Join(out, ",")
}

// rpUntouched: every file other than the created ones holds what it held before; returns the first path that differs.
func rpUntouched(cs *rpCase, r rpResult) (string, bool) {
	created := map[string]bool{}
	for _, p := range r.created {
		created[p] = true
	}
	var paths []string
	for p := range cs.files {
		paths = append(paths, p)
	}
	sort.Strings(paths)
	for _, p := range paths {
		if created[p] {
			continue
		}
		if a, ok := r.after[p]; !ok || !bytes.Equal(a, cs.files[p]) {
			return p, false
		}
	}
	for p := range r.after {
		if _, ok := cs.files[p]; !ok && !created[p] {
			return p, false
		}
	}
	return "", true
}

// rpOpensslText: what `verify --show` prints for (path, root text), from the exported helpers.
func rpOpensslText(self, path, root string) string {
	return fmt.Sprintf("%s \\\n&& \\\n%s\n", gcetcbendorsement.OpensslVerifyCertShellCmd(self, path, root),
		gcetcbendorsement.OpensslVerifyShellCmd(self, path))
}

// rpFlagTable: the flags of the tool as documented in its help texts (name → takes a value / sample value), used to
// generate the scope cases: every flag name on every modelled command.
var rpAllFlags = []struct {
	name, sample string
	isBool       bool
}{
	{"out", "o.bin", false}, {"eventlog", "ev", false}, {"firmware_manufacturer", "m", false}, {"efivarfs", "ef", false},
	{"force_fetch", "", true}, {"default_vmpl", "1", false}, {"bytesform", "hex", false}, {"path", "cert", false},
	{"root_cert", "root", false}, {"show", "", true}, {"overwrite", "", true}, {"base", "base", false},
	{"launch_vmsas", "1", false}, {"allow_unspecified_vmsas", "", true}, {"endorsement", "endorsement", false},
	{"testonly_force_gcs", "", true}, {"outform", "hex", false}, {"ram_gib", "16", false},
	{"auth_token", "t", false}, {"timeout", "1s", false}, {"bogus", "", true}, {"help", "", true},
}
