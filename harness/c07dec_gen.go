package main

// Stream c07dec — case generators.  A case is a byte string offered to every entry point in scope.
// Cases are described lazily (family, name, generator closure) so that a worker process only builds the
// cases of its shard; every random choice of case i comes from an Rng seeded by (seed, i).

import (
	"encoding/base64"
	"encoding/binary"
	"encoding/hex"
	"fmt"
	"sort"

	epb "github.com/google/gce-tcb-verifier/proto/endorsement"
	"github.com/google/gce-tcb-verifier/sev"
	sabi "github.com/google/go-sev-guest/abi"
	spb "github.com/google/go-sev-guest/proto/sevsnp"
	tpb "github.com/google/go-tdx-guest/proto/tdx"
	tpmpb "github.com/google/go-tpm-tools/proto/attest"
	"github.com/google/uuid"
	"google.golang.org/protobuf/encoding/protowire"
	"google.golang.org/protobuf/proto"
	tspb "google.golang.org/protobuf/types/known/timestamppb"
)

type c07Case struct {
	family string // histogram key and sampling class
	name   string // stable description (goes into the replay)
	gen    func(r *Rng) []byte
}

const c07MiB = 1 << 20

// the byte-field sizes the brief names: nil / empty / 1 / 47 / 48 / 49 / 1 MiB
var c07Sizes = []int{-1, 0, 1, 47, 48, 49, c07MiB}

func c07Sized(r *Rng, n int) []byte {
	if n < 0 {
		return nil
	}
	if n >= c07MiB {
		b := make([]byte, n) // mostly zero: cheap to produce, still 1 MiB on the wire
		copy(b, r.Bytes(64))
		return b
	}
	return r.Bytes(n)
}

// ---------------------------------------------------------------------------------------------
// golden-measurement mutations (structure-aware, through the generated proto types)

type c07GMut struct {
	name string
	f    func(env *c07Env, r *Rng, g *epb.VMGoldenMeasurement)
}

func c07PemBundles(env *c07Env) map[string][]byte {
	leaf, root := c07PEM("CERTIFICATE", env.leaf.Raw), c07PEM("CERTIFICATE", env.root.Raw)
	key := c07PEM("PUBLIC KEY", []byte{1, 2, 3})
	cat := func(parts ...[]byte) []byte {
		var out []byte
		for _, p := range parts {
			out = append(out, p...)
		}
		return out
	}
	return map[string][]byte{
		"pem0-garbage":        []byte("not a pem bundle at all"),
		"pem0-begin-only":     []byte("-----BEGIN CERTIFICATE-----\n"),
		"pem1":                leaf,
		"pem1-trailing":       cat(leaf, []byte("trailing garbage")),
		"pem1-leading":        cat([]byte("leading garbage\n"), leaf),
		"pem1-wrongtype":      key,
		"pem1-emptybody":      []byte("-----BEGIN CERTIFICATE-----\n-----END CERTIFICATE-----\n"),
		"pem1-headers":        []byte("-----BEGIN CERTIFICATE-----\nProc-Type: 4,ENCRYPTED\n\nAAAA\n-----END CERTIFICATE-----\n"),
		"pem2":                cat(leaf, root),
		"pem2-garbage-mid":    cat(leaf, []byte("garbage between\n"), root),
		"pem2-second-wrong":   cat(leaf, key),
		"pem2-first-wrong":    cat(key, root),
		"pem2-trailing":       cat(leaf, root, []byte("\n\n")),
		"pem2-trailing-nonws": cat(leaf, root, []byte("x")),
		"pem3":                cat(leaf, root, leaf),
		"pem3-third-wrong":    cat(leaf, root, key),
		"pem-1byte":           {0x2d},
	}
}

func c07GoldenMuts(env *c07Env) []c07GMut {
	var ms []c07GMut
	add := func(name string, f func(env *c07Env, r *Rng, g *epb.VMGoldenMeasurement)) {
		ms = append(ms, c07GMut{name, f})
	}
	add("none", func(*c07Env, *Rng, *epb.VMGoldenMeasurement) {})
	// optional sub-messages
	add("drop-timestamp", func(_ *c07Env, _ *Rng, g *epb.VMGoldenMeasurement) { g.Timestamp = nil })
	add("drop-timestamp-no-provenance", func(_ *c07Env, _ *Rng, g *epb.VMGoldenMeasurement) {
		g.Timestamp, g.ClSpec, g.Commit = nil, 0, nil
	})
	add("drop-cert", func(_ *c07Env, _ *Rng, g *epb.VMGoldenMeasurement) { g.Cert = nil })
	add("drop-ca-bundle", func(_ *c07Env, _ *Rng, g *epb.VMGoldenMeasurement) { g.CaBundle = nil })
	add("drop-sev-snp", func(_ *c07Env, _ *Rng, g *epb.VMGoldenMeasurement) { g.SevSnp = nil })
	add("drop-tdx", func(_ *c07Env, _ *Rng, g *epb.VMGoldenMeasurement) { g.Tdx = nil })
	add("drop-sev-and-tdx", func(_ *c07Env, _ *Rng, g *epb.VMGoldenMeasurement) { g.SevSnp, g.Tdx = nil, nil })
	add("empty-sev-snp", func(_ *c07Env, _ *Rng, g *epb.VMGoldenMeasurement) { g.SevSnp = &epb.VMSevSnp{} })
	add("empty-tdx", func(_ *c07Env, _ *Rng, g *epb.VMGoldenMeasurement) { g.Tdx = &epb.VMTdx{} })
	add("empty-golden", func(_ *c07Env, _ *Rng, g *epb.VMGoldenMeasurement) { proto.Reset(g) })
	add("only-cert", func(env *c07Env, _ *Rng, g *epb.VMGoldenMeasurement) {
		proto.Reset(g)
		g.Cert = env.leaf.Raw
	})
	add("drop-policy", func(_ *c07Env, _ *Rng, g *epb.VMGoldenMeasurement) { g.SevSnp.Policy = 0 })
	add("policy-max", func(_ *c07Env, _ *Rng, g *epb.VMGoldenMeasurement) { g.SevSnp.Policy = ^uint64(0) })
	add("svn-zero", func(_ *c07Env, _ *Rng, g *epb.VMGoldenMeasurement) { g.SevSnp.Svn = 0 })
	add("svn-max", func(_ *c07Env, _ *Rng, g *epb.VMGoldenMeasurement) { g.SevSnp.Svn = ^uint32(0) })
	// timestamps
	for _, t := range []struct {
		n    string
		s    int64
		nano int32
	}{{"zero", 0, 0}, {"negative", -1, 0}, {"min", -1 << 63, 0}, {"max", 1<<63 - 1, 999999999}, {"nanos-negative", baseTime.Unix(), -1},
		{"nanos-huge", baseTime.Unix(), 2147483647}, {"before-change", 1722556799, 0}, {"at-change", 1722556800, 0}, {"after-change", 1722556800, 1}} {
		t := t
		add("ts-"+t.n, func(_ *c07Env, _ *Rng, g *epb.VMGoldenMeasurement) {
			g.Timestamp = &tspb.Timestamp{Seconds: t.s, Nanos: t.nano}
		})
		add("ts-"+t.n+"-no-provenance", func(_ *c07Env, _ *Rng, g *epb.VMGoldenMeasurement) {
			g.Timestamp = &tspb.Timestamp{Seconds: t.s, Nanos: t.nano}
			g.ClSpec, g.Commit = 0, nil
		})
	}
	add("commit-only", func(_ *c07Env, _ *Rng, g *epb.VMGoldenMeasurement) { g.ClSpec, g.Commit = 0, []byte("988881adc9fc") })
	// every bytes field at every named size
	type bf struct {
		n   string
		set func(g *epb.VMGoldenMeasurement, b []byte)
	}
	fields := []bf{
		{"commit", func(g *epb.VMGoldenMeasurement, b []byte) { g.Commit = b }},
		{"cert", func(g *epb.VMGoldenMeasurement, b []byte) { g.Cert = b }},
		{"digest", func(g *epb.VMGoldenMeasurement, b []byte) { g.Digest = b }},
		{"ca_bundle", func(g *epb.VMGoldenMeasurement, b []byte) { g.CaBundle = b }},
		{"sev.family_id", func(g *epb.VMGoldenMeasurement, b []byte) { g.SevSnp.FamilyId = b }},
		{"sev.image_id", func(g *epb.VMGoldenMeasurement, b []byte) { g.SevSnp.ImageId = b }},
		{"sev.ca_bundle", func(g *epb.VMGoldenMeasurement, b []byte) { g.SevSnp.CaBundle = b }},
		{"sev.svsm", func(g *epb.VMGoldenMeasurement, b []byte) { g.SevSnp.SvsmMeasurement = b }},
		{"sev.measurements[1]", func(g *epb.VMGoldenMeasurement, b []byte) { g.SevSnp.Measurements[1] = b }},
		{"sev.measurements[0]", func(g *epb.VMGoldenMeasurement, b []byte) { g.SevSnp.Measurements[0] = b }},
		{"sev.measurements[2]", func(g *epb.VMGoldenMeasurement, b []byte) { g.SevSnp.Measurements[2] = b }},
		{"tdx.mrtd[0]", func(g *epb.VMGoldenMeasurement, b []byte) { g.Tdx.Measurements[0].Mrtd = b }},
		{"tdx.mrtd[all]", func(g *epb.VMGoldenMeasurement, b []byte) {
			for _, m := range g.Tdx.Measurements {
				m.Mrtd = b
			}
		}},
	}
	for _, f := range fields {
		for _, n := range c07Sizes {
			f, n := f, n
			add(fmt.Sprintf("bytes-%s-%d", f.n, n), func(_ *c07Env, r *Rng, g *epb.VMGoldenMeasurement) { f.set(g, c07Sized(r, n)) })
		}
	}
	add("svsm-equals-meas1", func(env *c07Env, _ *Rng, g *epb.VMGoldenMeasurement) { g.SevSnp.SvsmMeasurement = env.meas1 })
	add("cert-truncated", func(env *c07Env, r *Rng, g *epb.VMGoldenMeasurement) { g.Cert = g.Cert[:1+r.Intn(len(g.Cert)-1)] })
	add("cert-root", func(env *c07Env, _ *Rng, g *epb.VMGoldenMeasurement) { g.Cert = env.root.Raw })
	// measurements map
	add("meas-nil-map", func(_ *c07Env, _ *Rng, g *epb.VMGoldenMeasurement) { g.SevSnp.Measurements = nil })
	add("meas-drop-1", func(_ *c07Env, _ *Rng, g *epb.VMGoldenMeasurement) { delete(g.SevSnp.Measurements, 1) })
	add("meas-only-0", func(_ *c07Env, r *Rng, g *epb.VMGoldenMeasurement) {
		g.SevSnp.Measurements = map[uint32][]byte{0: r.Bytes(48)}
	})
	add("meas-only-max", func(_ *c07Env, r *Rng, g *epb.VMGoldenMeasurement) {
		g.SevSnp.Measurements = map[uint32][]byte{^uint32(0): r.Bytes(48)}
	})
	add("meas-2000-keys", func(_ *c07Env, r *Rng, g *epb.VMGoldenMeasurement) {
		for i := uint32(0); i < 2000; i++ {
			g.SevSnp.Measurements[i+10] = r.Bytes(48)
		}
	})
	// TDX rows
	add("tdx-no-rows", func(_ *c07Env, _ *Rng, g *epb.VMGoldenMeasurement) { g.Tdx.Measurements = nil })
	add("tdx-empty-row", func(_ *c07Env, _ *Rng, g *epb.VMGoldenMeasurement) {
		g.Tdx.Measurements = append([]*epb.VMTdx_Measurement{{}}, g.Tdx.Measurements...)
	})
	add("tdx-ram-zero", func(_ *c07Env, _ *Rng, g *epb.VMGoldenMeasurement) { g.Tdx.Measurements[0].RamGib = 0 })
	add("tdx-ram-max", func(_ *c07Env, _ *Rng, g *epb.VMGoldenMeasurement) { g.Tdx.Measurements[0].RamGib = ^uint32(0) })
	add("tdx-5000-rows", func(_ *c07Env, r *Rng, g *epb.VMGoldenMeasurement) {
		for i := 0; i < 5000; i++ {
			g.Tdx.Measurements = append(g.Tdx.Measurements, &epb.VMTdx_Measurement{RamGib: uint32(i), Mrtd: r.Bytes(48)})
		}
	})
	// PEM bundles in sev_snp.ca_bundle
	bundles := c07PemBundles(env)
	names := make([]string, 0, len(bundles))
	for n := range bundles {
		names = append(names, n)
	}
	sort.Strings(names)
	for _, n := range names {
		b := bundles[n]
		add("sev-ca-bundle-"+n, func(_ *c07Env, _ *Rng, g *epb.VMGoldenMeasurement) { g.SevSnp.CaBundle = b })
	}
	return ms
}

// ---------------------------------------------------------------------------------------------
// protobuf wire-level mutations

type c07Field struct {
	num       protowire.Number
	typ       protowire.Type
	start     int // offset of the tag
	valStart  int // offset of the value (after the tag; for LEN: offset of the length varint)
	bodyStart int // for LEN: offset of the body
	end       int // end of the field
}

// c07Walk returns the top-level fields of a well-formed message (stops at the first error).
func c07Walk(b []byte) []c07Field {
	var out []c07Field
	off := 0
	for off < len(b) {
		num, typ, n := protowire.ConsumeTag(b[off:])
		if n < 0 {
			break
		}
		f := c07Field{num: num, typ: typ, start: off, valStart: off + n}
		m := protowire.ConsumeFieldValue(num, typ, b[off+n:])
		if m < 0 {
			break
		}
		f.end = off + n + m
		if typ == protowire.BytesType {
			_, k := protowire.ConsumeVarint(b[off+n:])
			f.bodyStart = off + n + k
		}
		out = append(out, f)
		off = f.end
	}
	return out
}

type c07WireMut struct {
	name string
	f    func(b []byte) []byte
}

func c07Splice(b []byte, from, to int, repl []byte) []byte {
	out := append([]byte{}, b[:from]...)
	out = append(out, repl...)
	return append(out, b[to:]...)
}

// c07WireMuts enumerates the wire-level mutations of message bytes b (top level only).
func c07WireMuts(b []byte) []c07WireMut {
	var ms []c07WireMut
	fields := c07Walk(b)
	for i, f := range fields {
		f := f
		id := fmt.Sprintf("f%d#%d", f.num, i)
		// wrong wire types
		for _, t := range []protowire.Type{protowire.VarintType, protowire.Fixed64Type, protowire.BytesType, protowire.StartGroupType, protowire.EndGroupType, protowire.Fixed32Type, 6, 7} {
			if t == f.typ {
				continue
			}
			t := t
			ms = append(ms, c07WireMut{fmt.Sprintf("wiretype-%s-%d", id, t), func(b []byte) []byte {
				return c07Splice(b, f.start, f.valStart, protowire.AppendVarint(nil, uint64(f.num)<<3|uint64(t)))
			}})
		}
		// drop / duplicate the field
		ms = append(ms, c07WireMut{"dropfield-" + id, func(b []byte) []byte { return c07Splice(b, f.start, f.end, nil) }})
		ms = append(ms, c07WireMut{"dupfield-" + id, func(b []byte) []byte { return c07Splice(b, f.end, f.end, b[f.start:f.end]) }})
		if f.typ == protowire.BytesType {
			rem := len(b) - f.bodyStart
			for _, l := range []struct {
				n string
				v uint64
			}{{"0", 0}, {"rem-1", uint64(rem - 1)}, {"rem", uint64(rem)}, {"rem+1", uint64(rem + 1)}, {"2^31", 1 << 31}, {"2^32-1", 1<<32 - 1}, {"2^63", 1 << 63}, {"2^64-1", ^uint64(0)}} {
				if rem == 0 && l.n == "rem-1" {
					continue
				}
				l := l
				ms = append(ms, c07WireMut{fmt.Sprintf("lenprefix-%s-%s", id, l.n), func(b []byte) []byte {
					return c07Splice(b, f.valStart, f.bodyStart, protowire.AppendVarint(nil, l.v))
				}})
			}
			// over-long (10-byte, non-canonical) varint length
			ms = append(ms, c07WireMut{"lenprefix-" + id + "-overlong", func(b []byte) []byte {
				return c07Splice(b, f.valStart, f.bodyStart, []byte{0xff, 0xff, 0xff, 0xff, 0xff, 0xff, 0xff, 0xff, 0xff, 0x7f})
			}})
		}
	}
	// unknown fields, before and after
	for _, num := range []protowire.Number{15, 100, 1<<29 - 1} {
		for _, typ := range []protowire.Type{protowire.VarintType, protowire.Fixed64Type, protowire.BytesType, protowire.StartGroupType, protowire.Fixed32Type} {
			num, typ := num, typ
			var fld []byte
			fld = protowire.AppendTag(fld, num, typ)
			switch typ {
			case protowire.VarintType:
				fld = protowire.AppendVarint(fld, 1<<63)
			case protowire.Fixed64Type:
				fld = protowire.AppendFixed64(fld, 7)
			case protowire.BytesType:
				fld = protowire.AppendBytes(fld, []byte("unknown"))
			case protowire.StartGroupType: // unterminated group
			case protowire.Fixed32Type:
				fld = protowire.AppendFixed32(fld, 7)
			}
			ms = append(ms, c07WireMut{fmt.Sprintf("unknown-append-%d-%d", num, typ), func(b []byte) []byte { return append(append([]byte{}, b...), fld...) }})
			ms = append(ms, c07WireMut{fmt.Sprintf("unknown-prepend-%d-%d", num, typ), func(b []byte) []byte { return append(append([]byte{}, fld...), b...) }})
		}
	}
	ms = append(ms, c07WireMut{"tag-zero", func(b []byte) []byte { return append([]byte{0}, b...) }})
	ms = append(ms, c07WireMut{"deep-groups", func(b []byte) []byte {
		out := append([]byte{}, b...)
		for i := 0; i < 20000; i++ {
			out = protowire.AppendTag(out, 100, protowire.StartGroupType)
		}
		return out
	}})
	return ms
}

// c07Rewrap replaces the body of the i-th top-level field of outer (a LEN field) by inner, fixing the length.
func c07Rewrap(outer []byte, i int, inner []byte) []byte {
	f := c07Walk(outer)[i]
	var fld []byte
	fld = protowire.AppendTag(fld, f.num, protowire.BytesType)
	fld = protowire.AppendBytes(fld, inner)
	return c07Splice(outer, f.start, f.end, fld)
}

func c07FieldIndex(b []byte, num protowire.Number) int {
	for i, f := range c07Walk(b) {
		if f.num == num {
			return i
		}
	}
	return -1
}

// ---------------------------------------------------------------------------------------------
// certificate tables

type c07Entry struct {
	guid   uuid.UUID
	off, n uint32
}

func c07Table(entries []c07Entry, terminator bool, data []byte, total int) []byte {
	hdr := make([]byte, 0, (len(entries)+1)*24)
	for _, e := range entries {
		g := e.guid
		hdr = append(hdr, g[:]...)
		hdr = binary.LittleEndian.AppendUint32(hdr, e.off)
		hdr = binary.LittleEndian.AppendUint32(hdr, e.n)
	}
	if terminator {
		hdr = append(hdr, make([]byte, 24)...)
	}
	out := append(hdr, data...)
	for len(out) < total {
		out = append(out, 0xA5)
	}
	return out
}

type c07TableCase struct {
	name string
	f    func(env *c07Env, r *Rng) []byte
}

func c07TableCases() []c07TableCase {
	gce := uuid.MustParse(sev.GCEFwCertGUID)
	vcek := uuid.MustParse(sabi.VcekGUID)
	other := uuid.MustParse("00000000-1111-2222-3333-444444444444")
	var cs []c07TableCase
	add := func(n string, f func(env *c07Env, r *Rng) []byte) { cs = append(cs, c07TableCase{n, f}) }
	add("empty", func(*c07Env, *Rng) []byte { return nil })
	add("terminator-only", func(*c07Env, *Rng) []byte { return make([]byte, 24) })
	add("one-byte", func(*c07Env, *Rng) []byte { return []byte{1} })
	add("23-bytes", func(_ *c07Env, r *Rng) []byte { return r.Bytes(23) })
	add("no-terminator", func(env *c07Env, _ *Rng) []byte {
		return c07Table([]c07Entry{{gce, 24, uint32(len(env.e0))}}, false, env.e0, 0)
	})
	add("gce-entry", func(env *c07Env, _ *Rng) []byte {
		return c07Table([]c07Entry{{gce, 48, uint32(len(env.e0))}}, true, env.e0, 0)
	})
	add("gce-entry-empty", func(env *c07Env, _ *Rng) []byte { return c07Table([]c07Entry{{gce, 48, 0}}, true, nil, 0) })
	add("gce-entry-1byte", func(env *c07Env, _ *Rng) []byte { return c07Table([]c07Entry{{gce, 48, 1}}, true, []byte{8}, 0) })
	add("gce-twice", func(env *c07Env, _ *Rng) []byte {
		return c07Table([]c07Entry{{gce, 72, 3}, {gce, 75, uint32(len(env.e0))}}, true, append([]byte{1, 2, 3}, env.e0...), 0)
	})
	add("other-guid-only", func(env *c07Env, _ *Rng) []byte {
		return c07Table([]c07Entry{{other, 48, uint32(len(env.e0))}}, true, env.e0, 0)
	})
	add("offset-into-header", func(env *c07Env, _ *Rng) []byte {
		return c07Table([]c07Entry{{gce, 47, 1}}, true, []byte{1, 2}, 0)
	})
	add("offset-zero", func(env *c07Env, _ *Rng) []byte {
		return c07Table([]c07Entry{{gce, 0, 4}}, true, []byte{1, 2, 3, 4}, 0)
	})
	add("range-end-exact", func(env *c07Env, _ *Rng) []byte {
		return c07Table([]c07Entry{{gce, 48, 4}}, true, []byte{1, 2, 3, 4}, 0)
	})
	add("range-end-plus-1", func(env *c07Env, _ *Rng) []byte {
		return c07Table([]c07Entry{{gce, 48, 5}}, true, []byte{1, 2, 3, 4}, 0)
	})
	add("offset-at-end", func(env *c07Env, _ *Rng) []byte {
		return c07Table([]c07Entry{{gce, 52, 0}}, true, []byte{1, 2, 3, 4}, 0)
	})
	add("offset-past-end", func(env *c07Env, _ *Rng) []byte {
		return c07Table([]c07Entry{{gce, 53, 0}}, true, []byte{1, 2, 3, 4}, 0)
	})
	// offset + length wraps around 2^32
	add("wrap-huge-offset", func(env *c07Env, _ *Rng) []byte {
		return c07Table([]c07Entry{{gce, 0xFFFFFFF0, 0x20}}, true, make([]byte, 64), 0)
	})
	add("wrap-huge-offset-len1", func(env *c07Env, _ *Rng) []byte {
		return c07Table([]c07Entry{{gce, 0xFFFFFFFF, 1}}, true, make([]byte, 64), 0)
	})
	add("wrap-huge-length-16MiB", func(env *c07Env, _ *Rng) []byte {
		// offset + length = 2^32 + 56: wraps to 56 <= len, and 16 MiB are requested for a 112-byte table
		return c07Table([]c07Entry{{gce, 0xFF000038, 0x01000000}}, true, make([]byte, 64), 0)
	})
	add("length-max", func(env *c07Env, _ *Rng) []byte {
		return c07Table([]c07Entry{{gce, 48, 0xFFFFFFFF}}, true, make([]byte, 64), 0)
	})
	add("offset-max-length-0", func(env *c07Env, _ *Rng) []byte {
		return c07Table([]c07Entry{{gce, 0xFFFFFFFF, 0}}, true, make([]byte, 64), 0)
	})
	// overlapping entries: n entries all naming the same blob
	for _, n := range []int{2, 64, 400} {
		n := n
		add(fmt.Sprintf("overlap-%d", n), func(env *c07Env, r *Rng) []byte {
			blob := make([]byte, 32*1024)
			es := make([]c07Entry, n)
			off := uint32((n + 1) * 24)
			for i := range es {
				g := other
				g[15] = byte(i)
				g[14] = byte(i >> 8)
				if i == 0 {
					g = gce
				}
				es[i] = c07Entry{g, off, uint32(len(blob))}
			}
			return c07Table(es, true, blob, 0)
		})
	}
	add("many-empty-entries", func(env *c07Env, _ *Rng) []byte {
		es := make([]c07Entry, 3000)
		for i := range es {
			g := other
			g[15], g[14] = byte(i), byte(i>>8)
			es[i] = c07Entry{g, uint32(3001 * 24), 0}
		}
		return c07Table(es, true, nil, 0)
	})
	add("vcek-and-gce", func(env *c07Env, _ *Rng) []byte {
		d := append(append([]byte{}, env.vcek...), env.e0...)
		return c07Table([]c07Entry{{vcek, 72, uint32(len(env.vcek))}, {gce, 72 + uint32(len(env.vcek)), uint32(len(env.e0))}}, true, d, 0)
	})
	add("zero-guid-nonzero-range", func(env *c07Env, _ *Rng) []byte {
		return c07Table([]c07Entry{{uuid.UUID{}, 48, 4}}, true, []byte{1, 2, 3, 4}, 0)
	})
	return cs
}

// ---------------------------------------------------------------------------------------------
// attestation mutations (structure-aware)

type c07AMut struct {
	name string
	f    func(env *c07Env, r *Rng) proto.Message
}

func c07AttMuts() []c07AMut {
	var ms []c07AMut
	add := func(n string, f func(env *c07Env, r *Rng) proto.Message) { ms = append(ms, c07AMut{n, f}) }
	tpmSev := func(a *spb.Attestation) proto.Message {
		return &tpmpb.Attestation{TeeAttestation: &tpmpb.Attestation_SevSnpAttestation{SevSnpAttestation: a}}
	}
	tpmTdx := func(q *tpb.QuoteV4) proto.Message {
		return &tpmpb.Attestation{TeeAttestation: &tpmpb.Attestation_TdxAttestation{TdxAttestation: q}}
	}
	type sm struct {
		n string
		f func(env *c07Env, r *Rng, a *spb.Attestation)
	}
	sms := []sm{
		{"genuine", func(*c07Env, *Rng, *spb.Attestation) {}},
		{"no-report", func(_ *c07Env, _ *Rng, a *spb.Attestation) { a.Report = nil }},
		{"empty-report", func(_ *c07Env, _ *Rng, a *spb.Attestation) { a.Report = &spb.Report{} }},
		{"no-chain", func(_ *c07Env, _ *Rng, a *spb.Attestation) { a.CertificateChain = nil }},
		{"empty-chain", func(_ *c07Env, _ *Rng, a *spb.Attestation) { a.CertificateChain = &spb.CertificateChain{} }},
		{"no-extras", func(_ *c07Env, _ *Rng, a *spb.Attestation) { a.CertificateChain.Extras = nil }},
		{"extras-other-guid", func(env *c07Env, _ *Rng, a *spb.Attestation) {
			a.CertificateChain.Extras = map[string][]byte{"00000000-1111-2222-3333-444444444444": env.e0}
		}},
		{"extras-empty-blob", func(_ *c07Env, _ *Rng, a *spb.Attestation) {
			a.CertificateChain.Extras = map[string][]byte{sev.GCEFwCertGUID: {}}
		}},
		{"extras-garbage-blob", func(_ *c07Env, r *Rng, a *spb.Attestation) {
			a.CertificateChain.Extras = map[string][]byte{sev.GCEFwCertGUID: r.Bytes(1 + r.Intn(40))}
		}},
		{"extras-bad-key", func(env *c07Env, _ *Rng, a *spb.Attestation) {
			a.CertificateChain.Extras = map[string][]byte{"not-a-guid": env.e0, "": {1}}
		}},
		{"no-vcek", func(_ *c07Env, _ *Rng, a *spb.Attestation) { a.CertificateChain.VcekCert = nil }},
		{"garbage-vcek", func(_ *c07Env, r *Rng, a *spb.Attestation) { a.CertificateChain.VcekCert = r.Bytes(33) }},
		{"report-no-sizes", func(_ *c07Env, _ *Rng, a *spb.Attestation) {
			a.Report = &spb.Report{Measurement: a.Report.Measurement}
		}},
		{"signer-info-max", func(_ *c07Env, _ *Rng, a *spb.Attestation) { a.Report.SignerInfo = ^uint32(0) }},
		{"policy-max", func(_ *c07Env, _ *Rng, a *spb.Attestation) { a.Report.Policy = ^uint64(0) }},
		{"version-0", func(_ *c07Env, _ *Rng, a *spb.Attestation) { a.Report.Version = 0 }},
	}
	for _, n := range []int{-1, 0, 1, 47, 49, c07MiB} {
		n := n
		sms = append(sms, sm{fmt.Sprintf("measurement-%d", n), func(_ *c07Env, r *Rng, a *spb.Attestation) { a.Report.Measurement = c07Sized(r, n) }})
	}
	for _, s := range sms {
		s := s
		mk := func(env *c07Env, r *Rng) *spb.Attestation {
			a := proto.Clone(env.attSev).(*spb.Attestation)
			s.f(env, r, a)
			return a
		}
		add("tpmsev-"+s.n, func(env *c07Env, r *Rng) proto.Message { return tpmSev(mk(env, r)) })
		add("sevatt-"+s.n, func(env *c07Env, r *Rng) proto.Message { return mk(env, r) })
	}
	add("tpm-nil-sev", func(*c07Env, *Rng) proto.Message { return tpmSev(nil) })
	add("tpm-nil-tdx", func(*c07Env, *Rng) proto.Message { return tpmTdx(nil) })
	add("tpm-empty", func(*c07Env, *Rng) proto.Message { return &tpmpb.Attestation{} })
	type qm struct {
		n string
		f func(r *Rng, q *tpb.QuoteV4)
	}
	qms := []qm{
		{"genuine", func(*Rng, *tpb.QuoteV4) {}},
		{"no-body", func(_ *Rng, q *tpb.QuoteV4) { q.TdQuoteBody = nil }},
		{"empty-body", func(_ *Rng, q *tpb.QuoteV4) { q.TdQuoteBody = &tpb.TDQuoteBody{} }},
		{"no-header", func(_ *Rng, q *tpb.QuoteV4) { q.Header = nil }},
		{"no-signed-data", func(_ *Rng, q *tpb.QuoteV4) { q.SignedData = nil }},
		{"empty-signed-data", func(_ *Rng, q *tpb.QuoteV4) { q.SignedData = &tpb.Ecdsa256BitQuoteV4AuthData{} }},
		{"no-cert-data", func(_ *Rng, q *tpb.QuoteV4) { q.SignedData.CertificationData = nil }},
		{"empty-quote", func(_ *Rng, q *tpb.QuoteV4) { proto.Reset(q) }},
	}
	for _, n := range []int{-1, 0, 1, 47, 49, c07MiB} {
		n := n
		qms = append(qms, qm{fmt.Sprintf("mrtd-%d", n), func(r *Rng, q *tpb.QuoteV4) { q.TdQuoteBody.MrTd = c07Sized(r, n) }})
	}
	for _, s := range qms {
		s := s
		mk := func(env *c07Env, r *Rng) *tpb.QuoteV4 {
			q := proto.Clone(env.quote).(*tpb.QuoteV4)
			s.f(r, q)
			return q
		}
		add("tpmtdx-"+s.n, func(env *c07Env, r *Rng) proto.Message { return tpmTdx(mk(env, r)) })
		add("q4-"+s.n, func(env *c07Env, r *Rng) proto.Message { return mk(env, r) })
	}
	return ms
}

// ---------------------------------------------------------------------------------------------
// the case list

// c07Cases enumerates every case description of the stream.  The second result gives, per family, the
// share of the family that the quick tier runs (in 1/1000); the thorough tier uses thoroughShare.
func c07Cases(env *c07Env) []c07Case {
	var cs []c07Case
	add := func(family, name string, gen func(r *Rng) []byte) {
		cs = append(cs, c07Case{family, name, gen})
	}
	fixed := func(b []byte) func(*Rng) []byte { return func(*Rng) []byte { return b } }

	// 1. genuine objects
	add("genuine", "endorsement", fixed(env.e0))
	for _, n := range c07AttNames {
		add("genuine", n, fixed(env.att[n]))
	}
	add("genuine", "empty", fixed(nil))

	// 2. structure-aware golden mutations, re-signed with the genuine key and with the stale signature
	for _, m := range c07GoldenMuts(env) {
		for _, signed := range []bool{true, false} {
			m, signed := m, signed
			add("golden-mut", fmt.Sprintf("%s/signed=%v", m.name, signed), func(r *Rng) []byte {
				g := c01Clone(env.g0)
				m.f(env, r, g)
				return env.container(c07Marshal(g), signed)
			})
		}
	}
	// container-level field sizes
	for _, n := range c07Sizes {
		n := n
		add("container-mut", fmt.Sprintf("payload-%d", n), func(r *Rng) []byte {
			return c07Marshal(&epb.VMLaunchEndorsement{SerializedUefiGolden: c07Sized(r, n), Signature: env.e0m.Signature})
		})
		add("container-mut", fmt.Sprintf("signature-%d", n), func(r *Rng) []byte {
			return c07Marshal(&epb.VMLaunchEndorsement{SerializedUefiGolden: env.e0m.SerializedUefiGolden, Signature: c07Sized(r, n)})
		})
	}

	// 3. wire-level mutations: container, payload (re-wrapped, signed or not), sev_snp, tdx, timestamp,
	//    one map entry, one TDX row (each re-wrapped into a well-formed, re-signed parent)
	payload := env.e0m.SerializedUefiGolden
	for _, m := range c07WireMuts(env.e0) {
		m := m
		add("wire-container", m.name, func(*Rng) []byte { return m.f(env.e0) })
	}
	for _, m := range c07WireMuts(payload) {
		for _, signed := range []bool{true, false} {
			m, signed := m, signed
			add("wire-golden", fmt.Sprintf("%s/signed=%v", m.name, signed), func(*Rng) []byte { return env.container(m.f(payload), signed) })
		}
	}
	for _, sub := range []struct {
		n   string
		num protowire.Number
	}{{"timestamp", 1}, {"sev_snp", 7}, {"tdx", 8}} {
		i := c07FieldIndex(payload, sub.num)
		f := c07Walk(payload)[i]
		inner := payload[f.bodyStart:f.end]
		for _, m := range c07WireMuts(inner) {
			m, i := m, i
			add("wire-"+sub.n, m.name, func(*Rng) []byte { return env.container(c07Rewrap(payload, i, m.f(inner)), true) })
		}
		if sub.n != "timestamp" {
			// one level deeper: the first map entry / TDX row
			j := c07FieldIndex(inner, 2)
			ff := c07Walk(inner)[j]
			inner2 := inner[ff.bodyStart:ff.end]
			for _, m := range c07WireMuts(inner2) {
				m, i, j := m, i, j
				add("wire-"+sub.n+"-entry", m.name, func(*Rng) []byte {
					return env.container(c07Rewrap(payload, i, c07Rewrap(inner, j, m.f(inner2))), true)
				})
			}
		}
	}

	// 4. attestations: structure-aware and wire-level
	for _, m := range c07AttMuts() {
		m := m
		add("att-mut", m.name, func(r *Rng) []byte { return c07Marshal(m.f(env, r)) })
	}
	for _, n := range []string{"tpmsev", "tpmtdx", "sevattproto", "reportproto", "q4proto"} {
		b := env.att[n]
		for _, m := range c07WireMuts(b) {
			m := m
			add("wire-att", n+"/"+m.name, func(*Rng) []byte { return m.f(b) })
		}
		// one level down: field 1 of sevattproto (report), the tee attestation of the tpm protos
		fs := c07Walk(b)
		for i, f := range fs {
			if f.typ != protowire.BytesType || f.end-f.bodyStart < 8 {
				continue
			}
			inner := b[f.bodyStart:f.end]
			if len(c07Walk(inner)) == 0 {
				continue
			}
			for _, m := range c07WireMuts(inner) {
				m, i := m, i
				add("wire-att-nested", fmt.Sprintf("%s/f%d/%s", n, f.num, m.name), func(*Rng) []byte { return c07Rewrap(b, i, m.f(inner)) })
			}
		}
	}

	// 5. certificate tables, alone and behind a genuine raw report, also hex / base64 encoded
	rawReport := env.att["sevreport"]
	for _, t := range c07TableCases() {
		t := t
		add("certtable", t.name, func(r *Rng) []byte { return t.f(env, r) })
		add("report+certtable", t.name, func(r *Rng) []byte { return append(append([]byte{}, rawReport...), t.f(env, r)...) })
		add("hex-certtable", t.name, func(r *Rng) []byte { return []byte(hex.EncodeToString(t.f(env, r))) })
	}
	// header words of the genuine table
	table := env.att["certtable"]
	for off := 0; off+4 <= 24*6 && off+4 <= len(table); off += 4 {
		for _, v := range []uint32{0, 1, 23, 24, uint32(len(table)) - 1, uint32(len(table)), uint32(len(table)) + 1, 0x7fffffff, 0x80000000, 0xfffffff0, 0xffffffff} {
			off, v := off, v
			add("certtable-word", fmt.Sprintf("off%d=%#x", off, v), func(*Rng) []byte {
				t := append([]byte{}, table...)
				binary.LittleEndian.PutUint32(t[off:], v)
				return t
			})
		}
	}

	// 6. raw TDX quote: size / type words
	tdxRaw := env.att["tdxraw"]
	var tdxOffs []int
	for off := 0; off < 48; off += 2 {
		tdxOffs = append(tdxOffs, off)
	}
	for off := 624; off+4 <= len(tdxRaw) && off < 1400; off += 2 {
		tdxOffs = append(tdxOffs, off)
	}
	for _, off := range tdxOffs {
		for _, v := range []uint32{0, 1, 2, 5, 6, 7, 0x7fff, 0xffff, uint32(len(tdxRaw)), 0x7fffffff, 0xffffffff} {
			off, v := off, v
			add("tdxraw-word", fmt.Sprintf("off%d=%#x", off, v), func(*Rng) []byte {
				t := append([]byte{}, tdxRaw...)
				if v <= 0xffff {
					binary.LittleEndian.PutUint16(t[off:], uint16(v))
				} else {
					binary.LittleEndian.PutUint32(t[off:], v)
				}
				return t
			})
		}
	}
	// raw SEV report: every 4-byte word of the non-array header fields
	for _, off := range []int{0, 4, 8, 16, 0x30, 0x34, 0x38, 0x48, 0x180, 0x188, 0x1e0, 0x1e8} {
		for _, v := range []uint32{0, 1, 2, 3, 0x7fffffff, 0xffffffff} {
			off, v := off, v
			add("sevraw-word", fmt.Sprintf("off%d=%#x", off, v), func(*Rng) []byte {
				t := append([]byte{}, env.att["sevraw"]...)
				binary.LittleEndian.PutUint32(t[off:], v)
				return t
			})
		}
	}

	// 7. truncations of every genuine object
	trunc := func(n string, b []byte) {
		for k := 0; k < len(b); k++ {
			k := k
			add("trunc-"+n, fmt.Sprint(k), func(*Rng) []byte { return b[:k] })
		}
	}
	trunc("endorsement", env.e0)
	for _, n := range c07AttNames {
		trunc(n, env.att[n])
	}
	// and of the payload inside a re-signed container
	for k := 0; k < len(payload); k++ {
		k := k
		add("trunc-payload", fmt.Sprint(k), func(*Rng) []byte { return env.container(payload[:k], true) })
	}

	// 8. byte-level noise on genuine objects and random bytes
	for i := 0; i < 4000; i++ {
		i := i
		add("bitflip", fmt.Sprint(i), func(r *Rng) []byte {
			names := append([]string{"endorsement"}, c07AttNames...)
			n := names[r.Intn(len(names))]
			src := env.e0
			if n != "endorsement" {
				src = env.att[n]
			}
			b := append([]byte{}, src...)
			for k := 1 + r.Intn(3); k > 0 && len(b) > 0; k-- {
				p := r.Intn(len(b))
				switch r.Intn(3) {
				case 0:
					b[p] ^= 1 << uint(r.Intn(8))
				case 1:
					b[p] = byte(r.Next())
				default:
					b[p] = []byte{0, 0x7f, 0x80, 0xff}[r.Intn(4)]
				}
			}
			return b
		})
		add("random", fmt.Sprint(i), func(r *Rng) []byte {
			var n int
			switch r.Intn(6) {
			case 0:
				n = r.Intn(8)
			case 1:
				n = r.Intn(64)
			case 2:
				n = sabi.ReportSize + r.Intn(3) - 1
			case 3:
				n = r.Intn(4096)
			default:
				n = r.Intn(400)
			}
			b := r.Bytes(n)
			switch r.Intn(5) {
			case 0:
				return []byte(hex.EncodeToString(b))
			case 1:
				return []byte(base64.StdEncoding.EncodeToString(b))
			case 2: // plausible protobuf prefix
				if len(b) > 2 {
					b[0] = []byte{0x0a, 0x12, 0x1a, 0x22, 0x3a, 0x42, 0x08, 0x10}[r.Intn(8)]
					b[1] = byte(r.Intn(len(b)))
				}
			}
			return b
		})
	}
	return cs
}

// c07Select picks the cases a tier runs: every case of the small structured families, and a
// deterministic sample (stride over the family, offset by the seed) of the bulk families.
func c07Select(cs []c07Case, quick bool, seed uint64) []int {
	// share of a family that is run, in 1/1000
	quickShare := map[string]int{"genuine": 1000, "golden-mut": 400, "container-mut": 1000, "att-mut": 350, "certtable": 1000,
		"report+certtable": 500, "hex-certtable": 150}
	var idx []int
	perFam := map[string]int{}
	for i, c := range cs {
		k := perFam[c.family]
		perFam[c.family]++
		share := 1000
		if quick {
			s, ok := quickShare[c.family]
			if !ok {
				s = 12
			}
			share = s
		} else {
			switch {
			case len(c.family) > 6 && c.family[:6] == "trunc-":
				share = 260
			case c.family == "bitflip" || c.family == "random":
				share = 1000
			}
		}
		// take case k of the family iff floor((k+o+1)*share/1000) > floor((k+o)*share/1000)
		o := int(seed % 1000)
		if (k+o+1)*share/1000 > (k+o)*share/1000 {
			idx = append(idx, i)
		}
	}
	return idx
}
