package main

// C10 — signing-key rotation is failure-atomic.
//
// One case = one real rotate.Key run on one stack (key manager x authority x storage) from a
// bootstrapped state with `hist` earlier rotations, under a fault script that assigns fail / crash-after
// to numbered external calls; then: reload (fresh authority over the same storage, key manager rebuilt
// from its durable state), direct oracle (recorded primary is live, its certificate matches the live key
// and verifies under the stored root, a document signed with it verifies through the repository's own
// verifier, destroy only after the new primary is durable), then a fault-free rotation with overwrite
// allowed, and the oracle again.  The call log, result and durable post-state of both runs are compared
// with the Lean model's prediction for the same script.

import (
	"bytes"
	"context"
	"crypto"
	"crypto/rsa"
	"crypto/sha256"
	"fmt"
	"os"
	"strings"
	"sync"

	"github.com/google/gce-tcb-verifier/rotate"
	"github.com/google/gce-tcb-verifier/sign/gcsca"
	sops "github.com/google/gce-tcb-verifier/sign/ops"
	styp "github.com/google/gce-tcb-verifier/sign/types"
)

func init() {
	register("c10", "real rotate.Key runs under fault scripts (fail / crash-after at numbered external calls of the key "+
		"manager, signer, authority and storage) on 6 stacks {memkm,localkm} x {memca, gcsca over testing/storage, gcsca "+
		"over storage/local}: every single fault at every call position of the fault-free run, every reachable pair, "+
		"from histories of 0..1 (thorough 0..2) earlier rotations, with and without overwrite; each followed by reload, "+
		"direct oracle and a fault-free retry with overwrite. Non-trivial: the script injects at least one fault that "+
		"is reached; distinct by op line.", runC10)
}

type c10Case struct {
	km, ca    string
	hist      int
	overwrite bool
	// collide: the request names the object that holds the CURRENT PRIMARY's certificate (serial override =
	// the primary's subject serial, same common name) — the input class of the repaired finding D22
	collide bool
	script  map[int]int
	seed    uint64
	// results
	op, impl string
	reached  bool
	logLen   int
	log      []string
	finds    []Finding
	counts   []string
}

// c10PubCalls measures how many times x509.CreateCertificate asks the issuer key for its public key
// before and after the signing call (a fact about crypto/x509 the model takes as a parameter).
func c10PubCalls(log []string) (pre, post int) {
	seenSign := false
	for _, l := range log {
		if strings.HasPrefix(l, "sg.sign.") {
			seenSign = true
		} else if strings.HasPrefix(l, "sg.pub."+e1RootKey) {
			if seenSign {
				post++
			} else {
				pre++
			}
		}
	}
	return
}

var c10Doc = []byte("verif C10 document to endorse")

// c10Oracle evaluates the property's clauses on the implementation's durable state alone.
// Returns "" or the violated clause.
func c10Oracle(in *e1Inst) (clause, detail string) {
	ctx := quietCtx(false)
	ca := in.freshCA(nil)
	p, err := ca.PrimarySigningKeyVersion(ctx)
	if err != nil || p == "" {
		return "primary-unreadable", fmt.Sprintf("primary=%q err=%v", p, err)
	}
	if _, err := in.signer.PublicKey(ctx, p); err != nil {
		return "primary-not-live", fmt.Sprintf("recorded primary %q has no live key: %v", p, err)
	}
	cert, err := sops.CertificateX509(ctx, ca, p)
	if err != nil {
		return "primary-uncertified", fmt.Sprintf("recorded primary %q has no stored certificate: %v", p, err)
	}
	pk, ok := cert.PublicKey.(*rsa.PublicKey)
	if !ok || !in.signer.Keys[p].PublicKey.Equal(pk) {
		return "primary-cert-other-key", fmt.Sprintf("certificate stored for %q is not for the live key", p)
	}
	digest := sha256.Sum256(c10Doc)
	sig, err := in.signer.Sign(ctx, p, styp.Digest{SHA256: digest[:]}, &rsa.PSSOptions{SaltLength: rsa.PSSSaltLengthEqualsHash, Hash: crypto.SHA256})
	if err != nil {
		return "primary-cannot-sign", err.Error()
	}
	if err := sops.VerifySignatureFromCA(ctx, ca, p, baseTime.Add(3600e9), c10Doc, sig); err != nil {
		return "primary-chain-broken", fmt.Sprintf("document signed with %q does not verify against the stored root: %v", p, err)
	}
	return "", ""
}

func faultClass(script map[int]int, log []string) string {
	// class of the first reached fault: <call kind>:<fail|crash>
	for i, l := range log {
		if o, ok := script[i]; ok && o != fOK {
			lab := strings.TrimRight(l, "!#")
			parts := strings.SplitN(lab, ".", 3)
			k := parts[0]
			if len(parts) > 1 {
				k += "." + parts[1]
			}
			return k + map[int]string{fFail: ":fail", fCrash: ":crash"}[o]
		}
	}
	return "none"
}

func (cs *c10Case) find(sig, what, replay string) {
	cs.finds = append(cs.finds, Finding{sig, what, replay})
}

// runC10Case executes one case end to end (safe to run concurrently with other cases).
func runC10Case(cs *c10Case, snaps map[string]*e1Snap, pre, post int) {
	dir, err := os.MkdirTemp("", "verif-c10-")
	must(err)
	defer os.RemoveAll(dir)
	rng := &Rng{s: cs.seed}
	caKind := cs.ca
	snapKey := "gcs"
	if caKind == "memca" {
		snapKey = "mem"
	}
	in := newInst(cs.km, cs.ca, snaps[fmt.Sprintf("%s/%d", snapKey, cs.hist)], dir, rng)
	stack := cs.km + "+" + cs.ca
	// serial numbers as the CLI chooses them (cmd/rotate.go): current primary's subject serial + 1
	cn := "sig"
	serial := in.nextSerial()
	collideSuffix := ""
	var primaryObj string
	var primaryObjBefore []byte
	if cs.collide {
		serial-- // the current primary's own subject serial
		if cs.hist == 0 {
			cn = e1SignCN // the first signing key was certified by the bootstrap under this common name
		}
		collideSuffix = "serial-override-collides-with-primary-certificate"
		primaryObj = fmt.Sprintf("%s/%s-%d.crt", e1CertDir, cn, serial)
		primaryObjBefore = in.objects()[primaryObj]
		if primaryObjBefore == nil {
			panic("c10 collide: the primary's certificate object " + primaryObj + " does not exist")
		}
	}
	opHead := fmt.Sprintf("c10 op=rot km=%s ca=%s hist=%d ow=%s script=%s pk=%d,%d cn=%s serial=%d",
		cs.km, map[string]string{"memca": "memca", "gcsmem": "gcsca", "gcslocal": "gcsca"}[cs.ca], cs.hist, b2s(cs.overwrite),
		scriptString(cs.script), pre, post, cn, serial)
	replay := opHead + " stack=" + stack

	// --- faulted run ---
	ctx := rotateCtx(in.ctx(cs.overwrite, cs.script), cn, serial)
	f := in.f
	oldPrimary, _ := in.freshCA(nil).PrimarySigningKeyVersion(quietCtx(false))
	destroyEarly := ""
	f.onDestroy = func(name string) {
		// destroy-after-commit, evaluated on the durable state at the moment of the call: a fresh
		// authority over the same storage must not name the key being destroyed as primary, and
		// the recorded primary must be fully usable.
		p, _ := in.freshCA(nil).PrimarySigningKeyVersion(quietCtx(false))
		if p == name {
			destroyEarly = fmt.Sprintf("DestroyKeyVersion(%q) called while the durable state still records it as primary", name)
			return
		}
		// the key manager has not been reloaded here: use the current signer
		if cl, d := c10Oracle(in); cl != "" {
			destroyEarly = fmt.Sprintf("DestroyKeyVersion(%q) called while the recorded primary is unusable (%s: %s)", name, cl, d)
		}
	}
	var kver string
	res, _ := runGuarded(func() error {
		k, err := rotate.Key(ctx)
		kver = k
		return err
	})
	cs.log = append([]string(nil), f.log...)
	cs.logLen = len(f.log)
	for i := range f.log {
		if o, ok := cs.script[i]; ok && o != fOK {
			cs.reached = true
		}
	}
	fc := faultClass(cs.script, f.log)
	cs.counts = append(cs.counts, "res/"+res, "fault/"+fc, "stack/"+stack)
	if res == "ok" {
		res += "." + kver
	}
	in.reloadKM()
	st1 := renderState(in.snapshot(), cs.ca == "memca")
	if destroyEarly != "" {
		cs.find("c10/rotate.Key/destroy-before-commit/"+fc, destroyEarly, replay)
	}
	if cl, d := c10Oracle(in); cl != "" {
		if cs.collide {
			// the signature under which this class was a known finding before gcsca.upload was repaired
			cs.find("c10/rotate.Key/"+cl+"/"+collideSuffix,
				"rotation whose serial override reuses the primary's certificate object name, after reload: "+d, replay)
		} else {
			cs.find("c10/rotate.Key/"+cl+"/"+fc, "after a faulted rotation and reload: "+d, replay)
		}
	}
	if cs.collide {
		// the refusal, stated on the implementation alone: the object that holds the primary's certificate is
		// never written (whatever --overwrite says), and a rotation that got as far as Finalize does not succeed
		if after := in.objects()[primaryObj]; !bytes.Equal(after, primaryObjBefore) {
			cs.find("c10/rotate.Key/primary-cert-object-changed/"+collideSuffix,
				"the object holding the recorded primary's certificate was replaced by a rotation with a colliding serial override: "+primaryObj, replay)
		}
		if strings.HasPrefix(res, "ok") {
			cs.find("c10/rotate.Key/collision-accepted/"+collideSuffix,
				"a rotation whose certificate object is the recorded primary's returned success", replay)
		}
		cs.counts = append(cs.counts, "collide/"+stack+"/res-"+strings.SplitN(res, ".", 2)[0])
	}
	// destroy-after-commit on the recorded log: an executed destroy of the old primary must be
	// preceded by a completed manifest write (gcsca) / completed Finalize (memca).
	commitSeen := false
	for _, l := range f.log {
		if cs.ca != "memca" && l == "st.c.keyManifest.textproto" {
			commitSeen = true
		}
		if strings.HasPrefix(l, "km.destroy.") && !strings.HasSuffix(l, "!") && !commitSeen && cs.ca != "memca" {
			cs.find("c10/rotate.Key/destroy-before-manifest-write/"+fc,
				"call log has DestroyKeyVersion before the manifest write completed: "+strings.Join(f.log, ","), replay)
		}
	}
	// --- fault-free retry with overwrite ---
	rserial := in.nextSerial()
	cs.op = fmt.Sprintf("%s rserial=%d", opHead, rserial)
	ctx2 := rotateCtx(in.ctx(true, nil), cn, rserial)
	f2 := in.f
	var kver2 string
	res2, err2 := runGuarded(func() error {
		k, err := rotate.Key(ctx2)
		kver2 = k
		return err
	})
	in.reloadKM()
	st2 := renderState(in.snapshot(), cs.ca == "memca")
	if res2 != "ok" {
		cs.find("c10/rotate.Key/retry-fails/"+fc, fmt.Sprintf("fault-free rotation with overwrite after a faulted run failed: %v", err2), replay)
	} else {
		res2 += "." + kver2
		if cl, d := c10Oracle(in); cl != "" {
			cs.find("c10/rotate.Key/retry-"+cl+"/"+fc, "after the fault-free retry: "+d, replay)
		}
		p, _ := in.freshCA(nil).PrimarySigningKeyVersion(quietCtx(false))
		if p != kver2 {
			cs.find("c10/rotate.Key/retry-primary-not-new/"+fc, fmt.Sprintf("retry returned %q but primary is %q", kver2, p), replay)
		}
	}
	_ = oldPrimary
	cs.counts = append(cs.counts, "retry/"+strings.SplitN(res2, ".", 2)[0])
	cs.impl = fmt.Sprintf("log=%s res=%s %s rlog=%s retry=%s %s", strings.Join(f.log, ","), res, st1,
		strings.Join(f2.log, ","), res2, st2)
}

// c10Snapshots bootstraps (real rotate.Bootstrap) one memca and one gcsca state and applies `maxHist`
// real fault-free rotations, capturing a snapshot after each.
func c10Snapshots(c *Ctx, maxHist int) map[string]*e1Snap {
	out := map[string]*e1Snap{}
	for _, ca := range []string{"memca", "gcsmem"} {
		key := "gcs"
		if ca == "memca" {
			key = "mem"
		}
		rng := &Rng{s: c.Rng.Next()}
		in := newInst("memkm", ca, &e1Snap{}, "", rng)
		ctx := bootstrapCtx(in.ctx(false, nil))
		must(rotate.Bootstrap(ctx))
		// gcsca.Finalize uploads the two bootstrap certificates in Go's map iteration order, which decides the
		// order of the two manifest entries; the model's initial state lists the root first, so bootstrap
		// again (fresh store, same keys are fine) until the run happens to produce that order.
		for try := 0; ca != "memca" && try < 200; try++ {
			m, ok := parseManifest(in.objects()[gcsca.ManifestObjectName])
			if ok && len(m.GetEntries()) == 2 && m.GetEntries()[0].GetKeyVersionName() == e1RootKey {
				break
			}
			in = newInst("memkm", ca, &e1Snap{}, "", rng)
			must(rotate.Bootstrap(bootstrapCtx(in.ctx(false, nil))))
		}
		out[key+"/0"] = in.snapshot()
		for h := 0; h < maxHist; h++ {
			ctx := rotateCtx(in.ctx(false, nil), "sig", in.nextSerial())
			_, err := rotate.Key(ctx)
			must(err)
			out[fmt.Sprintf("%s/%d", key, h+1)] = in.snapshot()
		}
	}
	return out
}

func runC10(c *Ctx) {
	sameAuthoritySweep(c, "c10")
	maxHist := c.N(1, 2)
	snaps := c10Snapshots(c, maxHist)
	kms := []string{"memkm", "localkm"}
	cas := []string{"memca", "gcsmem", "gcslocal"}
	workers := c.N(8, 12)

	runBatch := func(cases []*c10Case, pre, post int) {
		var wg sync.WaitGroup
		ch := make(chan *c10Case)
		for w := 0; w < workers; w++ {
			wg.Add(1)
			go func() {
				defer wg.Done()
				for cs := range ch {
					runC10Case(cs, snaps, pre, post)
				}
			}()
		}
		for _, cs := range cases {
			ch <- cs
		}
		close(ch)
		wg.Wait()
	}
	emit := func(cases []*c10Case) {
		for _, cs := range cases {
			c.Case(cs.op, cs.impl, cs.reached)
			for _, k := range cs.counts {
				c.Count(k)
			}
			for _, fd := range cs.finds {
				c.Find(fd.Sig, fd.What, fd.Replay)
			}
		}
	}

	// 1. fault-free runs: measure the number of call positions per configuration
	type cfg struct {
		km, ca string
		hist   int
		ow     bool
	}
	var cfgs []cfg
	for _, km := range kms {
		for _, ca := range cas {
			for h := 0; h <= maxHist; h++ {
				for _, ow := range []bool{false, true} {
					if c.Quick() && ((h > 0 && ow) || (h > 0 && km == "localkm" && ca != "gcslocal")) {
						continue // quick: history and overwrite dimensions sampled
					}
					cfgs = append(cfgs, cfg{km, ca, h, ow})
				}
			}
		}
	}
	var base []*c10Case
	for _, g := range cfgs {
		base = append(base, &c10Case{km: g.km, ca: g.ca, hist: g.hist, overwrite: g.ow, script: map[int]int{}, seed: c.Rng.Next()})
	}
	// pre/post PublicKey(root) counts are measured on the first fault-free run
	runBatch(base[:1], 0, 0)
	pre, post := c10PubCalls(base[0].log)
	c.Extra["x509_issuer_public_calls_pre_post"] = []int{pre, post}
	runBatch(base, pre, post)
	emit(base)

	// 2. every single fault at every position of the fault-free run
	var singles []*c10Case
	for _, b := range base {
		c.Count(fmt.Sprintf("positions/%s+%s/%d", b.km, b.ca, b.logLen))
		for pos := 0; pos < b.logLen; pos++ {
			for _, o := range []int{fFail, fCrash} {
				singles = append(singles, &c10Case{km: b.km, ca: b.ca, hist: b.hist, overwrite: b.overwrite,
					script: map[int]int{pos: o}, seed: c.Rng.Next()})
			}
		}
	}
	runBatch(singles, pre, post)
	emit(singles)

	// 3. pairs: a second fault can only be reached when the run continued past the first one
	//    (swallowed error, or the close call after a failed write)
	var pairs []*c10Case
	for _, s := range singles {
		first := -1
		for k := range s.script {
			first = k
		}
		if s.script[first] == fCrash {
			continue
		}
		for pos := first + 1; pos < s.logLen; pos++ {
			for _, o := range []int{fFail, fCrash} {
				pairs = append(pairs, &c10Case{km: s.km, ca: s.ca, hist: s.hist, overwrite: s.overwrite,
					script: map[int]int{first: fFail, pos: o}, seed: c.Rng.Next()})
			}
		}
	}
	if c.Quick() && len(pairs) > 160 {
		// quick: keep a deterministic sample of the reachable pairs
		var keep []*c10Case
		for i, p := range pairs {
			if i%((len(pairs)+159)/160) == 0 {
				keep = append(keep, p)
			}
		}
		c.Extra["pairs_reachable"] = len(pairs)
		pairs = keep
	}
	runBatch(pairs, pre, post)
	emit(pairs)
	c.Extra["cases_base_single_pair"] = []int{len(base), len(singles), len(pairs)}

	// 4. thorough: random scripts with 2..3 faults anywhere (most are cut short by the first reached fault)
	if !c.Quick() {
		var rnd []*c10Case
		for i := 0; i < 300; i++ {
			b := base[c.Rng.Intn(len(base))]
			sc := map[int]int{}
			for j := 0; j < 2+c.Rng.Intn(2); j++ {
				sc[c.Rng.Intn(b.logLen+2)] = 1 + c.Rng.Intn(2)
			}
			rnd = append(rnd, &c10Case{km: b.km, ca: b.ca, hist: b.hist, overwrite: b.overwrite, script: sc, seed: c.Rng.Next()})
		}
		runBatch(rnd, pre, post)
		emit(rnd)
	}
	// 5. the input class of the repaired finding D22 (formerly excluded by the theorems' `Fresh` hypothesis):
	//    the request names the primary's own certificate object. Fault-free, every single fault, with and
	//    without overwrite; model correspondence + direct oracle like every other case.
	collBase, collSingles := c10CollideCases(c, base, runBatch, pre, post)
	emit(collBase)
	emit(collSingles)
	c.Extra["cases_collide_base_single"] = []int{len(collBase), len(collSingles)}
	_ = context.Background
}
