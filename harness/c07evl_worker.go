package main

// C07 (event-log half) — the worker process and the execution of one case on the real code.
//
// Cases run in child processes (the harness binary re-executed with C07EVL_WORKER=1): a decoder that asks
// for gigabytes kills its process with a runtime fatal error that `recover` cannot intercept, and one that
// loops cannot be stopped from inside. The worker runs under an address-space limit; the parent takes a
// worker that dies as `crash` for the case in flight, one that does not answer in time as `timeout`, and
// starts a fresh worker.

import (
	"bufio"
	"bytes"
	"encoding/hex"
	"errors"
	"fmt"
	"io"
	"os"
	"path/filepath"
	"runtime"
	"sort"
	"strconv"
	"strings"
	"syscall"
	"time"

	"github.com/google/gce-tcb-verifier/eventlog"
	"github.com/google/gce-tcb-verifier/extract"
	exel "github.com/google/gce-tcb-verifier/extract/eventlog"
	"github.com/google/uuid"
)

const (
	c07evlDeadline    = 2 * time.Second
	c07evlAddrLimit   = 2 << 30 // RLIMIT_AS of a worker
	c07evlAllocSlope  = 64
	c07evlAllocOffset = 1 << 20
)

func c07evlThreshold(n int) uint64 { return uint64(c07evlAllocSlope*n + c07evlAllocOffset) }

func init() {
	if os.Getenv("C07EVL_WORKER") == "1" {
		c07evlWorkerMain()
		os.Exit(0)
	}
}

func c07evlTotalAlloc() uint64 {
	var m runtime.MemStats
	runtime.ReadMemStats(&m)
	return m.TotalAlloc
}

type c07evlWorkerState struct {
	dir  string
	file *os.File
}

func c07evlWorkerMain() {
	lim := syscall.Rlimit{Cur: c07evlAddrLimit, Max: c07evlAddrLimit}
	syscall.Setrlimit(syscall.RLIMIT_AS, &lim)
	dir, err := os.MkdirTemp("", "c07evl-w")
	if err != nil {
		panic(err)
	}
	defer os.RemoveAll(dir)
	f, err := os.Create(filepath.Join(dir, "input"))
	if err != nil {
		panic(err)
	}
	w := &c07evlWorkerState{dir: dir, file: f}
	in := bufio.NewReaderSize(os.Stdin, 1<<20)
	out := bufio.NewWriter(os.Stdout)
	for {
		line, err := in.ReadString('\n')
		if err != nil {
			return
		}
		p := strings.Fields(line)
		if len(p) != 5 {
			continue
		}
		var b []byte
		if p[3] != "-" {
			b, _ = hex.DecodeString(p[3])
		}
		var aux []byte
		if p[4] != "-" {
			aux, _ = hex.DecodeString(p[4])
		}
		type result struct {
			res   string
			alloc uint64
			pmsg  string
		}
		done := make(chan result, 1)
		t0 := time.Now()
		go func() {
			res, alloc, pmsg := c07evlExec(w, p[1], p[2], b, aux)
			done <- result{res, alloc, pmsg}
		}()
		select {
		case r := <-done:
			fmt.Fprintf(out, "R\t%s\t%s\t%d\t%d\t%s\n", p[0], r.res, r.alloc, time.Since(t0).Microseconds(), tok(r.pmsg))
			out.Flush()
		case <-time.After(c07evlDeadline):
			fmt.Fprintf(out, "R\t%s\ttimeout\t0\t%d\t-\n", p[0], time.Since(t0).Microseconds())
			out.Flush()
			os.RemoveAll(dir)
			os.Exit(3) // the goroutine cannot be stopped: the parent starts a fresh worker
		}
	}
}

// c07evlReader is one of the three reader kinds over b, with the number of unread bytes.
type c07evlReader struct {
	r    io.Reader
	left func() int
}

func (w *c07evlWorkerState) reader(kind string, b []byte) c07evlReader {
	b = append(make([]byte, 0, len(b)), b...)
	switch kind {
	case "reader":
		r := bytes.NewReader(b)
		return c07evlReader{r, r.Len}
	case "file":
		w.file.Truncate(0)
		w.file.Seek(0, io.SeekStart)
		w.file.Write(b)
		w.file.Seek(0, io.SeekStart)
		return c07evlReader{w.file, func() int {
			pos, _ := w.file.Seek(0, io.SeekCurrent)
			return len(b) - int(pos)
		}}
	}
	r := bytes.NewBuffer(b)
	return c07evlReader{r, r.Len}
}

type c07evlGetter struct{ urls []string }

func (g *c07evlGetter) Get(url string) ([]byte, error) {
	g.urls = append(g.urls, url)
	return []byte("fetched"), nil
}

type c07evlVarReader struct{ calls []string }

// ReadVariable stands for EfiVarFSReader.ReadVariable up to the file system: it translates the name with the
// real ucs2toUTF8 and records what would be opened.
func (v *c07evlVarReader) ReadVariable(guid uuid.UUID, name []uint8) ([]byte, error) {
	base, err := exel.VerifUcs2toUTF8(name)
	if err != nil {
		return nil, err
	}
	v.calls = append(v.calls, fmt.Sprintf("var:%s:%s:%s", hx(guid[:]), hx(name), hx([]byte(base))))
	return []byte("variable"), nil
}

func c07evlRimsText(m map[uint32][]*eventlog.SP800155Event3) string {
	keys := make([]int, 0, len(m))
	for k := range m {
		keys = append(keys, int(k))
	}
	sort.Ints(keys)
	var p []string
	for _, k := range keys {
		for _, e := range m[uint32(k)] {
			p = append(p, fmt.Sprintf("%d/%s/%s", e.RIMLocatorType, hx([]byte(e.FirmwareManufacturerStr.Data)), hx(e.RIMLocator.Data)))
		}
	}
	return strings.Join(p, ";")
}

// c07evlExec runs one case on the real code under recover, metering the allocation of the decoder call
// alone. The result has the form of lean/GceTcb/Drive/C07Evl.lean without the ` ab=` suffix.
func c07evlExec(w *c07evlWorkerState, op, kind string, b, aux []byte) (res string, alloc uint64, pmsg string) {
	var err error
	var text func() string
	withRest := true
	var rd c07evlReader
	meter := func(f func()) {
		a0 := c07evlTotalAlloc()
		defer func() { alloc = c07evlTotalAlloc() - a0 }()
		f()
	}
	panicked, msg, stack := Guard(func() {
		switch op {
		case "log":
			v := &eventlog.CryptoAgileLog{}
			rd = w.reader(kind, b)
			meter(func() { err = v.Unmarshal(rd.r) })
			text, withRest = func() string { return c18LogText(v) }, false
		case "pcrevent":
			v := &eventlog.TCGPCClientPCREvent{}
			rd = w.reader(kind, b)
			meter(func() { err = v.Unmarshal(rd.r) })
			text = func() string { return c18PcrText(v) }
		case "event2":
			v := &eventlog.TCGPCREvent2{}
			rd = w.reader(kind, b)
			meter(func() { err = v.Unmarshal(rd.r) })
			text = func() string { return c18Ev2Text(v) }
		case "eventdata":
			v := &eventlog.TCGEventData{}
			rd = w.reader(kind, b)
			meter(func() { err = v.Unmarshal(rd.r) })
			text = func() string { return c18DataText(v) }
		case "digests":
			v := &eventlog.Uint32SizedArrayT[*eventlog.TaggedDigest]{}
			rd = w.reader(kind, b)
			meter(func() { err = v.Unmarshal(rd.r) })
			text = func() string { return c18DigestsText(v.Array) }
		case "digest":
			v := &eventlog.TaggedDigest{}
			rd = w.reader(kind, b)
			meter(func() { err = v.Unmarshal(rd.r) })
			text = func() string { return c18DigestText(v) }
		case "cstr":
			v := &eventlog.ByteSizedCStr{}
			rd = w.reader(kind, b)
			meter(func() { err = v.Unmarshal(rd.r) })
			text = func() string { return hx([]byte(v.Data)) }
		case "u32arr":
			v := &eventlog.Uint32SizedArray{}
			rd = w.reader(kind, b)
			meter(func() { err = v.Unmarshal(rd.r) })
			text = func() string { return hx(v.Data) }
		case "guid":
			v := &eventlog.EfiGUID{}
			rd = w.reader(kind, b)
			meter(func() { err = v.Unmarshal(rd.r) })
			text = func() string { return hx(v.UUID[:]) }
		case "event3":
			v := &eventlog.SP800155Event3{}
			in := append(make([]byte, 0, len(b)), b...)
			meter(func() { err = v.UnmarshalFromBytes(in) })
			text, withRest = func() string { return c18Ev3Text(v) }, false
		case "varloc":
			var g uuid.UUID
			var name []byte
			in := append(make([]byte, 0, len(b)), b...)
			meter(func() { g, name, err = exel.VerifVariableLocatorDecode(in) })
			text, withRest = func() string { return hx(g[:]) + ":" + hx(name) }, false
			// the same locator through exel.Locate with the REAL efivarfs reader over an empty root: whatever the
			// decoder lets through reaches the name → file-name conversion (ucs2toUTF8, varBasename), which must
			// answer with an error, never crash (a panic here is the case's outcome)
			root := filepath.Join(w.dir, "efivars-empty")
			os.MkdirAll(root, 0755)
			_, _ = exel.Locate(eventlog.RIMLocationVariable, append(make([]byte, 0, len(b)), b...),
				&exel.LocateOptions{UEFIVariableReader: exel.MakeEfiVarFSReader(root)})
		case "ucs2":
			var s string
			in := append(make([]byte, 0, len(b)), b...)
			meter(func() { s, err = exel.VerifUcs2toUTF8(in) })
			text, withRest = func() string { return hx([]byte(s)) }, false
		case "efivar":
			// a variable file with these contents, read through the real EfiVarFSReader
			root := filepath.Join(w.dir, "efivars")
			os.MkdirAll(root, 0755)
			guid := uuid.MustParse("6a7b6885-92bc-40cd-9fb5-300f9d1eb0ed")
			if e := os.WriteFile(filepath.Join(root, "Var-"+guid.String()), b, 0644); e != nil {
				panic(e)
			}
			var out []byte
			meter(func() {
				out, err = exel.MakeEfiVarFSReader(root).ReadVariable(guid, []byte{'V', 0, 'a', 0, 'r', 0, 0, 0})
			})
			text, withRest = func() string { return hx(out) }, false
		case "rims":
			v := &eventlog.CryptoAgileLog{}
			rd = w.reader(kind, b)
			var m map[uint32][]*eventlog.SP800155Event3
			meter(func() {
				if err = v.Unmarshal(rd.r); err == nil {
					m = exel.RIMEventsFromEventLog(v)
				}
			})
			if err != nil {
				err = errors.New("unreadable") // `rims` has a single error class
			}
			text, withRest = func() string { return c07evlRimsText(m) }, false
		case "from":
			path := filepath.Join(w.dir, "event_log")
			if e := os.WriteFile(path, b, 0644); e != nil {
				panic(e)
			}
			g, vr := &c07evlGetter{}, &c07evlVarReader{}
			opts := &extract.Options{EventLogLocation: path, FirmwareManufacturer: string(aux), Getter: g, UEFIVariableReader: vr}
			var out []byte
			meter(func() { out, err = extract.Endorsement(opts) })
			if err != nil {
				err = errors.New("no endorsement")
			}
			text, withRest = func() string {
				switch {
				case len(vr.calls) > 0:
					return vr.calls[0]
				case len(g.urls) > 0:
					return "uri:" + hx([]byte(g.urls[0]))
				}
				return "raw:" + hx(out)
			}, false
		case "rtlaw":
			n, _ := strconv.Atoi(string(aux))
			p := &eventlog.TaggedDigest{}
			switch kind {
			case "append":
				// the law is about what append itself allocates: the minimum over repetitions, so that an
				// unrelated runtime allocation landing inside one measurement (timers, GC bookkeeping on a
				// loaded machine) is not taken for append's
				var s []*eventlog.TaggedDigest
				best := ^uint64(0)
				for rep := 0; rep < 5; rep++ {
					s = nil
					meter(func() {
						for i := 0; i < n; i++ {
							s = append(s, p)
						}
					})
					if alloc < best {
						best = alloc
					}
				}
				alloc = best
				c07evlSink = s
				text, withRest = func() string { return fmt.Sprintf("bound=%d", 64*n) }, false
			default:
				var got []byte
				best := ^uint64(0)
				for rep := 0; rep < 5; rep++ {
					src := bytes.NewBuffer(make([]byte, n))
					meter(func() { got, _ = io.ReadAll(src) })
					if alloc < best {
						best = alloc
					}
				}
				alloc = best
				c07evlSink = got
				text, withRest = func() string { return fmt.Sprintf("bound=%d", 8*n+1024) }, false
			}
		default:
			panic("unknown op " + op)
		}
	})
	switch {
	case panicked:
		return "panic=" + c07evlPanicSite(msg, stack), alloc, msg
	case err != nil && errors.Is(err, io.EOF):
		return "eof", alloc, ""
	case err != nil:
		return "err", alloc, ""
	}
	if op == "rtlaw" {
		return text(), alloc, ""
	}
	if withRest {
		return fmt.Sprintf("ok:%s rest=%d", text(), rd.left()), alloc, ""
	}
	return "ok:" + text(), alloc, ""
}

var c07evlSink any

// c07evlPanicSite names a panic as <function>/<kind>: the innermost frame inside the repository and the
// kind of run-time error (the model's site names reduce to the same form).
func c07evlPanicSite(msg, stack string) string {
	kind := "other"
	switch {
	case strings.Contains(msg, "index out of range"):
		kind = "index"
	case strings.Contains(msg, "slice bounds out of range"):
		kind = "slice"
	case strings.Contains(msg, "makeslice"):
		kind = "make"
	case strings.Contains(msg, "nil pointer"):
		kind = "nil"
	case strings.Contains(msg, "interface conversion"):
		kind = "assert"
	}
	fn := "unknown"
	for _, l := range strings.Split(stack, "\n") {
		if strings.HasPrefix(l, "github.com/google/gce-tcb-verifier/") {
			l = l[strings.LastIndex(l, "/")+1:] // eventlog.(*ByteSizedCStr).Unmarshal(0x…)
			if i := strings.LastIndex(l, "("); i > 0 {
				l = l[:i]
			}
			if i := strings.Index(l, "."); i >= 0 {
				l = l[i+1:]
			}
			for {
				i, j := strings.Index(l, "["), strings.LastIndex(l, "]")
				if i < 0 || j < i {
					break
				}
				l = l[:i] + l[j+1:]
			}
			fn = strings.NewReplacer("(*", "", ")", "").Replace(l)
			break
		}
	}
	return fn + "/" + kind
}
