package main

import (
	"context"
	"encoding/hex"
	"encoding/pem"
	"fmt"
	"io"
	"strings"
	"sync"
	"testing"
	"time"

	"github.com/google/gce-tcb-verifier/cmd/output"
	"github.com/google/gce-tcb-verifier/keys"
	"github.com/google/gce-tcb-verifier/sign/memca"
	"github.com/google/gce-tcb-verifier/sign/nonprod"
	"github.com/google/gce-tcb-verifier/testing/fakeovmf"
	"github.com/google/gce-tcb-verifier/testing/testsign"
)

// fakeTB lets the harness use the repository's testing helpers that want a testing.TB.
type fakeTB struct{ testing.TB }

func (fakeTB) Helper()                   {}
func (fakeTB) Fatalf(f string, a ...any) { panic(fmt.Sprintf(f, a...)) }
func (fakeTB) Fatal(a ...any)            { panic(fmt.Sprint(a...)) }
func (fakeTB) Errorf(f string, a ...any) { panic(fmt.Sprintf(f, a...)) }
func (fakeTB) Logf(string, ...any)       {}
func (fakeTB) Cleanup(func())            {}
func (fakeTB) Name() string              { return "verif" }
func (fakeTB) TempDir() string           { panic("TempDir not supported") }
func (fakeTB) Setenv(string, string)     {}
func (fakeTB) Skip(...any)               {}
func (fakeTB) Failed() bool              { return false }

var baseTime = time.Date(2024, time.September, 1, 0, 0, 0, 0, time.UTC)

var (
	memOnce   sync.Once
	memSigner *nonprod.Signer
	memCA     *memca.CertificateAuthority
)

const memSignKey = "verif-signer"
const memRootKey = "verif-root"

// memKeys returns a process-wide in-memory CA + signer (root and one signing key), created once.
func memKeys() (*nonprod.Signer, *memca.CertificateAuthority) {
	memOnce.Do(func() {
		memCA = memca.Create()
		s, err := testsign.MakeSigner(context.Background(), &testsign.Options{
			Now:               baseTime,
			CA:                memCA,
			Root:              testsign.KeyInfo{CommonName: "verif root", KeyVersionName: memRootKey},
			PrimarySigningKey: testsign.KeyInfo{CommonName: "verif signer", KeyVersionName: memSignKey},
		})
		if err != nil {
			panic(err)
		}
		memSigner = s
		memCA.PrimarySigningKey = memSignKey
	})
	return memSigner, memCA
}

// quietCtx returns a context whose output is discarded and whose overwrite flag is as given.
func quietCtx(overwrite bool) context.Context {
	return output.NewContext(context.Background(), &output.Options{Quiet: true, Overwrite: overwrite,
		Out: io.Discard, Err: io.Discard})
}

func keysCtx(ctx context.Context, random io.Reader) context.Context {
	s, ca := memKeys()
	return keys.NewContext(ctx, &keys.Context{Signer: s, CA: ca, Random: random})
}

// cleanFirmware builds a small valid firmware (SEV + TDX metadata) whose contents vary with tag.
func cleanFirmware(size int, tag byte) []byte {
	fw := fakeovmf.CleanExample(fakeTB{}, size)
	// vary bytes in an area not used by any metadata
	for i := 0x400; i < 0x440; i++ {
		fw[i] = tag
	}
	return fw
}

func hx(b []byte) string { return hex.EncodeToString(b) }

func b2s(b bool) string {
	if b {
		return "1"
	}
	return "0"
}

// tok makes a string safe as a protocol token (no spaces, '=', separators).
func tok(s string) string {
	r := strings.NewReplacer(" ", "_", "=", "_", ";", "_", ":", "_", ",", "_", "\n", "_")
	return r.Replace(s)
}

func pemDecode(b []byte) ([]byte, []byte) {
	blk, rest := pem.Decode(b)
	if blk == nil {
		return nil, rest
	}
	return blk.Bytes, rest
}
