// verif-harness: drives the real gce-tcb-verifier code in-process for the correspondence checks.
//
// usage: verif-harness <stream> <tier> <seed> <outdir>
//
// Writes into <outdir>:
//
//	ops.txt     one protocol line per case (input to the Lean model driver)
//	impl.out    the implementation's canonical result for the same case, one per line
//	oracle.jsonl  direct-oracle findings: {"sig": "...", "what": "...", "replay": "..."}
//	stats.json  coverage statistics (counts, histogram, samples)
package main

import (
	"bufio"
	"encoding/json"
	"fmt"
	"os"
	"path/filepath"
	"runtime/debug"
	"sort"
	"strconv"
)

// Rng is splitmix64; every random choice of a run derives from one seed.
type Rng struct{ s uint64 }

func (r *Rng) Next() uint64 {
	r.s += 0x9e3779b97f4a7c15
	z := r.s
	z = (z ^ (z >> 30)) * 0xbf58476d1ce4e5b9
	z = (z ^ (z >> 27)) * 0x94d049bb133111eb
	return z ^ (z >> 31)
}
func (r *Rng) Intn(n int) int {
	if n <= 0 {
		return 0
	}
	return int(r.Next() % uint64(n))
}
func (r *Rng) Bool() bool { return r.Next()&1 == 1 }
func (r *Rng) Bytes(n int) []byte {
	b := make([]byte, n)
	for i := range b {
		b[i] = byte(r.Next())
	}
	return b
}
func (r *Rng) Read(b []byte) (int, error) {
	for i := range b {
		b[i] = byte(r.Next())
	}
	return len(b), nil
}

// Finding is a direct-oracle violation observed on the implementation alone.
type Finding struct {
	Sig    string `json:"sig"`    // stable signature: entry point + violated clause + site/input class
	What   string `json:"what"`   // human readable
	Replay string `json:"replay"` // concrete failing input (protocol line or description)
}

// Ctx collects the outputs of one harness run.
type Ctx struct {
	Tier     string
	Seed     uint64
	Rng      *Rng
	OutDir   string
	ops      *bufio.Writer
	impl     *bufio.Writer
	nCases   int
	distinct map[string]bool
	nontriv  map[string]bool
	Hist     map[string]int
	Samples  []string
	Findings []Finding
	Notes    []string
	Extra    map[string]any
}

// Case records one correspondence case: the op line for the model and the implementation's result.
// nontrivial says whether the case counts as non-trivial under the stream's stated rule.
func (c *Ctx) Case(op, impl string, nontrivial bool) {
	fmt.Fprintln(c.ops, op)
	fmt.Fprintln(c.impl, impl)
	c.nCases++
	if !c.distinct[op] {
		c.distinct[op] = true
		if nontrivial {
			c.nontriv[op] = true
		}
	}
	if len(c.Samples) < 5 || (c.nCases%997 == 0 && len(c.Samples) < 12) {
		s := op + "  =>  " + impl
		if len(s) > 600 {
			s = s[:600] + "…"
		}
		c.Samples = append(c.Samples, s)
	}
}

func (c *Ctx) Count(k string) { c.Hist[k]++ }

func (c *Ctx) Find(sig, what, replay string) {
	for _, f := range c.Findings {
		if f.Sig == sig {
			return // keep the first (smallest-index) witness per signature
		}
	}
	c.Findings = append(c.Findings, Finding{sig, what, replay})
}

func (c *Ctx) Quick() bool { return c.Tier != "thorough" }

// N picks the case budget by tier.
func (c *Ctx) N(quick, thorough int) int {
	if c.Quick() {
		return quick
	}
	return thorough
}

// Guard runs f and converts a panic into a string (with the top of the stack).
func Guard(f func()) (panicked bool, msg string, stack string) {
	defer func() {
		if r := recover(); r != nil {
			panicked = true
			msg = fmt.Sprint(r)
			stack = string(debug.Stack())
		}
	}()
	f()
	return
}

var streams = map[string]func(*Ctx){}
var streamRule = map[string]string{}

func register(name, rule string, f func(*Ctx)) { streams[name] = f; streamRule[name] = rule }

func main() {
	if len(os.Args) < 5 {
		fmt.Fprintln(os.Stderr, "usage: verif-harness <stream> <tier> <seed> <outdir>")
		os.Exit(2)
	}
	name, tier, outdir := os.Args[1], os.Args[2], os.Args[4]
	seed, _ := strconv.ParseUint(os.Args[3], 10, 64)
	f, ok := streams[name]
	if !ok {
		fmt.Fprintln(os.Stderr, "unknown stream", name)
		os.Exit(2)
	}
	if err := os.MkdirAll(outdir, 0755); err != nil {
		panic(err)
	}
	opsF, _ := os.Create(filepath.Join(outdir, "ops.txt"))
	implF, _ := os.Create(filepath.Join(outdir, "impl.out"))
	c := &Ctx{Tier: tier, Seed: seed, Rng: &Rng{s: seed*0x2545F4914F6CDD1D + 0x1234567}, OutDir: outdir,
		ops: bufio.NewWriterSize(opsF, 1<<20), impl: bufio.NewWriterSize(implF, 1<<20),
		distinct: map[string]bool{}, nontriv: map[string]bool{}, Hist: map[string]int{}, Extra: map[string]any{}}
	f(c)
	c.ops.Flush()
	c.impl.Flush()
	opsF.Close()
	implF.Close()
	of, _ := os.Create(filepath.Join(outdir, "oracle.jsonl"))
	for _, fd := range c.Findings {
		b, _ := json.Marshal(fd)
		of.Write(append(b, '\n'))
	}
	of.Close()
	keys := make([]string, 0, len(c.Hist))
	for k := range c.Hist {
		keys = append(keys, k)
	}
	sort.Strings(keys)
	stats := map[string]any{
		"evaluations":         c.nCases,
		"distinct":            len(c.distinct),
		"distinct_nontrivial": len(c.nontriv),
		"rule":                streamRule[name],
		"histogram":           c.Hist,
		"samples":             c.Samples,
		"notes":               c.Notes,
		"extra":               c.Extra,
	}
	b, _ := json.MarshalIndent(stats, "", " ")
	os.WriteFile(filepath.Join(outdir, "stats.json"), b, 0644)
}
