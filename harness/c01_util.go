package main

// Helpers of the c01 stream: small certificate authorities with chosen validity windows, signing with
// chosen padding / hash / salt, and the INDEPENDENT evaluation of the primitive facts of an
// endorsement (nothing in this file calls the repository's verify package).

import (
	"bytes"
	"crypto"
	"crypto/rsa"
	"crypto/sha256"
	"crypto/sha512"
	"crypto/x509"
	"crypto/x509/pkix"
	"fmt"
	"io"
	"math/big"
	"sort"
	"strings"
	"time"

	epb "github.com/google/gce-tcb-verifier/proto/endorsement"
	"google.golang.org/protobuf/encoding/protowire"
	"google.golang.org/protobuf/proto"
)

// miniCA is a two-level CA (root, leaf signing key) made directly with crypto/x509.
type miniCA struct {
	name    string
	rootKey *rsa.PrivateKey
	leafKey *rsa.PrivateKey
	root    *x509.Certificate
	leaf    *x509.Certificate
}

func c01Name(cn string, serial int64) pkix.Name {
	return pkix.Name{Country: []string{"Republic of Test"}, Organization: []string{"Verif Inc."},
		SerialNumber: fmt.Sprint(serial), CommonName: cn}
}

func newMiniCA(rng io.Reader, name string, rootNB, rootNA, leafNB, leafNA time.Time) *miniCA {
	rk, err := rsa.GenerateKey(rng, 2048)
	if err != nil {
		panic(err)
	}
	lk, err := rsa.GenerateKey(rng, 2048)
	if err != nil {
		panic(err)
	}
	rootTpl := &x509.Certificate{Subject: c01Name(name+" root", 1), SerialNumber: big.NewInt(1),
		NotBefore: rootNB, NotAfter: rootNA, KeyUsage: x509.KeyUsageCertSign | x509.KeyUsageCRLSign,
		IsCA: true, BasicConstraintsValid: true, SignatureAlgorithm: x509.SHA256WithRSAPSS}
	rb, err := x509.CreateCertificate(rng, rootTpl, rootTpl, rk.Public(), rk)
	if err != nil {
		panic(err)
	}
	root, _ := x509.ParseCertificate(rb)
	leafTpl := &x509.Certificate{Subject: c01Name(name+" signer", 2), SerialNumber: big.NewInt(2),
		// no extended key usage, like the certificates sign/ops issues: verify.CheckCertificate chains with
		// x509's default usage (server auth), which a code-signing-only certificate never satisfies
		NotBefore: leafNB, NotAfter: leafNA, KeyUsage: x509.KeyUsageDigitalSignature,
		SignatureAlgorithm: x509.SHA256WithRSAPSS}
	lb, err := x509.CreateCertificate(rng, leafTpl, root, lk.Public(), rk)
	if err != nil {
		panic(err)
	}
	leaf, _ := x509.ParseCertificate(lb)
	return &miniCA{name: name, rootKey: rk, leafKey: lk, root: root, leaf: leaf}
}

func (ca *miniCA) pool() *x509.CertPool {
	p := x509.NewCertPool()
	p.AddCert(ca.root)
	return p
}

func c01SignPSS(rng io.Reader, key *rsa.PrivateKey, payload []byte, h crypto.Hash, salt int) []byte {
	var digest []byte
	switch h {
	case crypto.SHA256:
		d := sha256.Sum256(payload)
		digest = d[:]
	case crypto.SHA384:
		d := sha512.Sum384(payload)
		digest = d[:]
	case crypto.SHA512:
		d := sha512.Sum512(payload)
		digest = d[:]
	default:
		panic("hash")
	}
	sig, err := rsa.SignPSS(rng, key, h, digest, &rsa.PSSOptions{SaltLength: salt, Hash: h})
	if err != nil {
		panic(err)
	}
	return sig
}

func c01SignPKCS1(key *rsa.PrivateKey, payload []byte) []byte {
	d := sha256.Sum256(payload)
	sig, err := rsa.SignPKCS1v15(nil, key, crypto.SHA256, d[:])
	if err != nil {
		panic(err)
	}
	return sig
}

// c01Endo is one endorsement of a case: the container bytes (what byte-taking entry points get) and,
// when they unmarshal, the message (what proto-taking entry points get).
type c01Endo struct {
	container []byte
	msg       *epb.VMLaunchEndorsement
}

func c01FromParts(payload, sig []byte) *c01Endo {
	m := &epb.VMLaunchEndorsement{SerializedUefiGolden: payload, Signature: sig}
	b, err := proto.Marshal(m)
	if err != nil {
		panic(err)
	}
	return &c01Endo{container: b, msg: m}
}

func c01FromContainer(b []byte) *c01Endo {
	m := &epb.VMLaunchEndorsement{}
	if err := proto.Unmarshal(b, m); err != nil {
		return &c01Endo{container: b}
	}
	return &c01Endo{container: b, msg: m}
}

// c01Facts are the primitive facts of one endorsement under one (roots, now), computed without the
// code under test.
type c01Facts struct {
	ser, g      bool
	ts          string
	cl          uint64
	cm          int
	c, p, ch, s bool
	d, snp      string
	tdx         bool
	pol, base   bool // SEV: SevPolicy+PolicyToOptions ok; SnpAttestation without cert-table validators ok
	tpol, quote bool // TDX: TdxPolicy+PolicyToOptions ok; TdxQuote ok
	golden      *epb.VMGoldenMeasurement
	cert        *x509.Certificate
}

func c01SnpString(s *epb.VMSevSnp) string {
	if s == nil {
		return "-"
	}
	keys := make([]int, 0, len(s.Measurements))
	for k := range s.Measurements {
		keys = append(keys, int(k))
	}
	sort.Ints(keys)
	parts := make([]string, 0, len(keys))
	for _, k := range keys {
		parts = append(parts, fmt.Sprintf("%d:%s", k, hx(s.Measurements[uint32(k)])))
	}
	return hx(s.SvsmMeasurement) + "/" + strings.Join(parts, ",")
}

// c01IndependentFacts evaluates unmarshal / parse / chain / signature for e with the standard library.
// The signature fact is exactly the repository's documented openssl equivalent: RSA-PSS, SHA-256,
// MGF1-SHA-256, salt length 32, over the payload bytes as carried.
func c01IndependentFacts(e *c01Endo, roots *x509.CertPool, now time.Time) *c01Facts {
	f := &c01Facts{ts: "nil", snp: "-"}
	if e == nil || e.msg == nil {
		return f
	}
	f.ser = true
	g := &epb.VMGoldenMeasurement{}
	if err := proto.Unmarshal(e.msg.SerializedUefiGolden, g); err != nil {
		return f
	}
	f.g = true
	f.golden = g
	if g.Timestamp != nil {
		f.ts = fmt.Sprintf("%d:%d", g.Timestamp.Seconds, g.Timestamp.Nanos)
	}
	f.cl = g.ClSpec
	f.cm = len(g.Commit)
	f.d = hx(g.Digest)
	f.snp = c01SnpString(g.SevSnp)
	f.tdx = g.Tdx != nil
	f.c = len(g.Cert) != 0
	if !f.c {
		return f
	}
	cert, err := x509.ParseCertificate(g.Cert)
	if err != nil {
		return f
	}
	f.p = true
	f.cert = cert
	if roots != nil {
		_, err := cert.Verify(x509.VerifyOptions{Roots: roots, CurrentTime: now})
		f.ch = err == nil
	}
	if pub, ok := cert.PublicKey.(*rsa.PublicKey); ok {
		d := sha256.Sum256(e.msg.SerializedUefiGolden)
		f.s = rsa.VerifyPSS(pub, crypto.SHA256, d[:], e.msg.Signature,
			&rsa.PSSOptions{SaltLength: 32, Hash: crypto.SHA256}) == nil
	}
	return f
}

// c01VerifyPSS32: RSA-PSS, SHA-256, MGF1-SHA-256, salt length 32.
func c01VerifyPSS32(pub *rsa.PublicKey, msg, sig []byte) bool {
	d := sha256.Sum256(msg)
	return rsa.VerifyPSS(pub, crypto.SHA256, d[:], sig, &rsa.PSSOptions{SaltLength: 32, Hash: crypto.SHA256}) == nil
}

// authentic is the property's own definition on the independent facts; clause names the first failing one.
func (f *c01Facts) authentic(rootsNil bool) (bool, string) {
	switch {
	case f == nil || !f.ser:
		return false, "no-endorsement"
	case !f.g:
		return false, "payload-unmarshal"
	case !f.c:
		return false, "cert-empty"
	case !f.p:
		return false, "cert-parse"
	case rootsNil:
		return false, "no-roots"
	case !f.ch:
		return false, "chain"
	case !f.s:
		return false, "signature"
	}
	return true, ""
}

func (f *c01Facts) line(i int) string {
	var sb strings.Builder
	k := func(name, v string) { fmt.Fprintf(&sb, " e%d.%s=%s", i, name, v) }
	k("ser", b2s(f.ser))
	k("g", b2s(f.g))
	k("ts", f.ts)
	k("cl", fmt.Sprint(f.cl))
	k("cm", fmt.Sprint(f.cm))
	k("c", b2s(f.c))
	k("p", b2s(f.p))
	k("ch", b2s(f.ch))
	k("s", b2s(f.s))
	k("d", f.d)
	k("snp", f.snp)
	k("tdx", b2s(f.tdx))
	k("pol", b2s(f.pol))
	k("base", b2s(f.base))
	k("tpol", b2s(f.tpol))
	k("quote", b2s(f.quote))
	return sb.String()
}

// c01Reorder re-encodes a protobuf message with its top-level fields in reverse order: the same
// message for every parser, different bytes for the signature.
func c01Reorder(b []byte) ([]byte, bool) {
	var chunks [][]byte
	rest := b
	for len(rest) > 0 {
		num, typ, n := protowire.ConsumeTag(rest)
		if n < 0 {
			return nil, false
		}
		m := protowire.ConsumeFieldValue(num, typ, rest[n:])
		if m < 0 {
			return nil, false
		}
		chunks = append(chunks, rest[:n+m])
		rest = rest[n+m:]
	}
	if len(chunks) < 2 {
		return nil, false
	}
	var out []byte
	for i := len(chunks) - 1; i >= 0; i-- {
		out = append(out, chunks[i]...)
	}
	return out, !bytes.Equal(out, b)
}

func c01FlipBit(b []byte, bit int) []byte {
	out := append([]byte(nil), b...)
	if len(out) == 0 {
		return out
	}
	bit %= len(out) * 8
	out[bit/8] ^= 1 << (bit % 8)
	return out
}

// c01Resign marshals g and signs it with key (PSS, SHA-256, salt 32).
func c01Resign(rng io.Reader, g *epb.VMGoldenMeasurement, key *rsa.PrivateKey) *c01Endo {
	payload, err := proto.Marshal(g)
	if err != nil {
		panic(err)
	}
	return c01FromParts(payload, c01SignPSS(rng, key, payload, crypto.SHA256, 32))
}

func c01Clone(g *epb.VMGoldenMeasurement) *epb.VMGoldenMeasurement {
	return proto.Clone(g).(*epb.VMGoldenMeasurement)
}
