package main

// Stream c02cli — C02 at the command line: `gcetcbendorsement sev validate --launch_vmsas N` / `tdx validate --ram_gib N`
// on genuinely signed endorsements with generated measurement tables.  "The configuration the caller named" is the one
// named on the command line: every command line goes through the Lean model of the command line (Model/RpCli.lean,
// view m: the options record the wiring produces, read by the measurement model of Model/Policy.lean).
//
// Direct oracle (on the implementation alone): exit 0 ⇒ the report's measurement (quote's MRTD) is 48 bytes and is
// listed in the endorsement for the VMSA count (RAM size) the LAST --launch_vmsas (--ram_gib) occurrence names, read
// with strconv.ParseUint(·, 0, 32) (ParseInt(·, 0, 64), then Go's uint32 conversion, as the library documents); a
// malformed or out-of-range value never exits 0; and the command decides as the library called directly with the
// options the command line names.

import (
	"fmt"
	"strconv"
	"strings"
	"time"

	"github.com/google/gce-tcb-verifier/gcetcbendorsement"
	epb "github.com/google/gce-tcb-verifier/proto/endorsement"
	"github.com/google/gce-tcb-verifier/sev"
	cpb "github.com/google/go-sev-guest/proto/check"
	spb "github.com/google/go-sev-guest/proto/sevsnp"
	sevtest "github.com/google/go-sev-guest/testing"
	tabi "github.com/google/go-tdx-guest/abi"
	tcpb "github.com/google/go-tdx-guest/proto/checkconfig"
	tpb "github.com/google/go-tdx-guest/proto/tdx"
	"github.com/google/go-tdx-guest/testing/testdata"
	tpmpb "github.com/google/go-tpm-tools/proto/attest"
	"google.golang.org/protobuf/proto"
)

func init() {
	register("c02cli", "real cobra commands `sev validate` / `tdx validate` on genuinely signed endorsements with generated measurement tables, every command line "+
		"compared with the Lean model of the command line (the options record of the wiring read by the measurement model): --launch_vmsas / --ram_gib texts "+
		"{absent, 0, listed, unlisted, hex / octal spellings, 2^32-1, 2^32, negative, 2^32+16, 2^63, junk, empty, given twice} x report measurements {listed for the "+
		"named configuration, listed for another one, SVSM, unlisted, one-bit neighbours} x base policy {none, agreeing, conflicting} x --overwrite {absent, bare, "+
		"=false} x flag placement, then a random stream as c02. Non-trivial: the command line reaches the library call with a 48-byte measurement; distinct by op line.", runC02CLI)
}

type rpM struct {
	c       *Ctx
	rootPEM []byte
	now     time.Time
	dflt    uint64
	vcek    []byte
	quote   *tpb.QuoteV4
}

func rpOwFlag(cs *rpCase, mode int) {
	switch mode {
	case 1:
		cs.boolFlag("overwrite")
	case 2:
		cs.flag("overwrite", "false")
	case 3:
		cs.flag("overwrite", "true")
	}
}

// rpNamedU32 reads the configuration the command line names: ok=false when the text is not a value of the flag's type.
func rpNamedU32(cs *rpCase, name string) (uint32, bool) {
	s, present := cs.last(name)
	if !present {
		return 0, true
	}
	v, err := strconv.ParseUint(s, 0, 32)
	return uint32(v), err == nil
}

func rpNamedInt(cs *rpCase, name string) (int, bool) {
	s, present := cs.last(name)
	if !present {
		return 0, true
	}
	v, err := strconv.ParseInt(s, 0, 64)
	return int(v), err == nil
}

// allWellFormed: every occurrence (not only the last) must be a value of the type.
func rpAllWellFormed(cs *rpCase, name string, bits int, signed bool) bool {
	for _, f := range cs.flags {
		if f.name != name {
			continue
		}
		var err error
		if signed {
			_, err = strconv.ParseInt(f.val, 0, bits)
		} else {
			_, err = strconv.ParseUint(f.val, 0, bits)
		}
		if err != nil {
			return false
		}
	}
	return true
}

func (m *rpM) sevCase(snp *epb.VMSevSnp, meas []byte, vmsasTexts []string, base *cpb.Policy, owMode int, efile bool, k int, tag string) {
	c := m.c
	ctx := quietCtx(false)
	golden := &epb.VMGoldenMeasurement{SevSnp: snp, ClSpec: 77, Digest: measPool(9)}
	end, err := signGolden(golden, baseTime.Add(time.Hour))
	if err != nil {
		panic(err)
	}
	endBytes, _ := proto.Marshal(end)
	att := &spb.Attestation{Report: snpReport(meas),
		CertificateChain: &spb.CertificateChain{VcekCert: m.vcek, Extras: map[string][]byte{sev.GCEFwCertGUID: endBytes}}}
	ab, err := proto.Marshal(&tpmpb.Attestation{TeeAttestation: &tpmpb.Attestation_SevSnpAttestation{SevSnpAttestation: att}})
	if err != nil {
		panic(err)
	}
	cs := &rpCase{cmd: "sev validate", args: []string{"att"}, now: m.now, getterNil: true, getterTok: "-", tag: tag}
	cs.put("att", "A", ab)
	cs.put("root", "R", m.rootPEM)
	for _, t := range vmsasTexts {
		cs.flag("launch_vmsas", t)
	}
	if base != nil {
		bb, _ := proto.Marshal(base)
		if len(bb) == 0 {
			cs.put("base", "Z", bb)
		} else {
			cs.put("base", "B0", bb)
		}
		cs.flag("base", "base")
	}
	rpOwFlag(cs, owMode)
	if efile {
		cs.put("endorsement", "E0", endBytes)
		cs.flag("endorsement", "endorsement")
	}
	cs.flag("root_cert", "root")
	rpPlace(cs, k)
	ow := cs.boolVal("overwrite")
	other := snp != nil && (snp.Policy == 0x30000 || snp.Policy == 0x70000)
	if base != nil && len(base.Measurement) != 0 && len(base.Measurement) != 48 {
		other = false
	}
	extras := sev.GCEFwCertGUID + ":0"
	extra := fmt.Sprintf(" ne=1 e0.ser=1 rootpem=1 rootder=0 attparse=sev att=%s extras=%s attkind=sev rm=%s g0=%s gd0=%s bp0=%s dflt=%d pem= other=%s",
		hx(meas), extras, hx(meas), sevLine(snp), hx(golden.Digest), sevPolicyLine(base), m.dflt, b2s(other))
	if !efile {
		// without --endorsement the library takes the endorsement from the certificate table: the measurement reading
		// of the model is told which one that is
		extra += " extracted=0"
	}
	res := rpRun(cs)
	line := cs.line("m", extra)
	c.Case(line, "res="+res.res, snp != nil && len(meas) == 48 && (res.res == "accept" || res.res == "reject:lib"))
	c.Count("sev/" + tag + "/" + res.res)

	// ---- direct oracle ----
	named, okNamed := rpNamedU32(cs, "launch_vmsas")
	wf := rpAllWellFormed(cs, "launch_vmsas", 32, false)
	if res.res == "panic" {
		c.Find("c02cli/sev-validate/panic", "the command panicked: "+strings.Join(res.argv, " "), line)
	}
	if res.res == "accept" {
		switch {
		case !okNamed || !wf:
			c.Find("c02cli/sev-validate/accepted-malformed-config", "exit 0 although --launch_vmsas is not a 32-bit unsigned number: "+strings.Join(res.argv, " "), line)
		case len(meas) != 48 || snp == nil || !contains(listedForGo(snp, named), meas):
			c.Find("c02cli/sev-validate/accept-unlisted", fmt.Sprintf("exit 0 for a report measurement that the endorsement does not list for the %d VMSA(s) named on the command line: %s", named, strings.Join(res.argv, " ")), line)
		}
	}
	if okNamed && wf && (res.res == "accept" || res.res == "reject:lib") {
		var e3 error
		var optE *epb.VMLaunchEndorsement
		if efile {
			optE = end
		}
		pan, _, _ := Guard(func() {
			e3 = gcetcbendorsement.SevValidate(ctx, att, &gcetcbendorsement.SevValidateOptions{
				Endorsement: optE, BasePolicy: base, Overwrite: ow, RootsOfTrust: memRoots(), Now: m.now, ExpectedLaunchVmsas: named})
		})
		lib := "accept"
		if pan {
			lib = "panic"
		} else if e3 != nil {
			lib = "reject:lib"
		}
		if lib != res.res {
			c.Find("c02cli/sev-validate/cli-library-disagree", fmt.Sprintf("the command (%s) does not decide as SevValidate called with the configuration it names (%s): %s", res.res, lib, strings.Join(res.argv, " ")), line)
		}
	}
}

func (m *rpM) tdxCase(tdx *epb.VMTdx, mrtd []byte, ramTexts []string, base *tcpb.Policy, owMode int, k int, tag string) {
	c := m.c
	ctx := quietCtx(false)
	tg := &epb.VMGoldenMeasurement{Tdx: tdx, ClSpec: 77, Digest: measPool(9)}
	tend, err := signGolden(tg, baseTime.Add(time.Hour))
	if err != nil {
		panic(err)
	}
	endBytes, _ := proto.Marshal(tend)
	q := proto.Clone(m.quote).(*tpb.QuoteV4)
	q.TdQuoteBody.MrTd = mrtd
	ab, _ := proto.Marshal(&tpmpb.Attestation{TeeAttestation: &tpmpb.Attestation_TdxAttestation{TdxAttestation: q}})
	cs := &rpCase{cmd: "tdx validate", args: []string{"att"}, now: m.now, getterNil: true, getterTok: "-", tag: tag}
	cs.put("att", "A", ab)
	cs.put("root", "R", m.rootPEM)
	cs.put("endorsement", "E0", endBytes)
	for _, t := range ramTexts {
		cs.flag("ram_gib", t)
	}
	if base != nil {
		bb, _ := proto.Marshal(base)
		if len(bb) == 0 {
			cs.put("base", "Z", bb)
		} else {
			cs.put("base", "B0", bb)
		}
		cs.flag("base", "base")
	}
	rpOwFlag(cs, owMode)
	cs.flag("endorsement", "endorsement")
	cs.flag("root_cert", "root")
	rpPlace(cs, k)
	ow := cs.boolVal("overwrite")
	extra := fmt.Sprintf(" ne=1 e0.ser=1 rootpem=1 rootder=0 attparse=tdx attkind=tdx mrtd=%s rows0=%s gd0=%s bp0=%s other=1",
		hx(mrtd), rowsLine(tdx), hx(tg.Digest), tdxBaseLine(base))
	res := rpRun(cs)
	line := cs.line("m", extra)
	c.Case(line, "res="+res.res, tdx != nil && (res.res == "accept" || res.res == "reject:lib"))
	c.Count("tdx/" + tag + "/" + res.res)

	named, okNamed := rpNamedInt(cs, "ram_gib")
	wf := rpAllWellFormed(cs, "ram_gib", 64, true)
	if res.res == "panic" {
		c.Find("c02cli/tdx-validate/panic", "the command panicked: "+strings.Join(res.argv, " "), line)
	}
	if res.res == "accept" {
		var listed [][]byte
		for _, r := range tdx.GetMeasurements() {
			if named == 0 || r.RamGib == uint32(named) {
				listed = append(listed, r.Mrtd)
			}
		}
		switch {
		case !okNamed || !wf:
			c.Find("c02cli/tdx-validate/accepted-malformed-config", "exit 0 although --ram_gib is not a 64-bit number: "+strings.Join(res.argv, " "), line)
		case !contains(listed, mrtd):
			c.Find("c02cli/tdx-validate/accept-unlisted", fmt.Sprintf("exit 0 for a quote whose MRTD the endorsement does not list for the %d GiB named on the command line: %s", named, strings.Join(res.argv, " ")), line)
		}
	}
	if okNamed && wf && (res.res == "accept" || res.res == "reject:lib") {
		var e4 error
		pan, _, _ := Guard(func() {
			e4 = gcetcbendorsement.TdxValidate(ctx, ab, &gcetcbendorsement.TdxValidateOptions{
				Endorsement: tend, BasePolicy: base, Overwrite: ow, RootsOfTrust: memRoots(), Now: m.now, ExpectedRAMGiB: named})
		})
		lib := "accept"
		if pan {
			lib = "panic"
		} else if e4 != nil {
			lib = "reject:lib"
		}
		if lib != res.res {
			c.Find("c02cli/tdx-validate/cli-library-disagree", fmt.Sprintf("the command (%s) does not decide as TdxValidate called with the configuration it names (%s): %s", res.res, lib, strings.Join(res.argv, " ")), line)
		}
	}
}

func runC02CLI(c *Ctx) {
	ctx := quietCtx(false)
	r := c.Rng
	m := &rpM{c: c, now: baseTime.Add(48 * time.Hour)}
	_, ca := memKeys()
	m.rootPEM = c01PEM(ca.Certs[memRootKey])
	{
		gb, _ := proto.Marshal(&epb.VMGoldenMeasurement{SevSnp: &epb.VMSevSnp{}})
		if p, err := gcetcbendorsement.SevPolicy(ctx, &epb.VMLaunchEndorsement{SerializedUefiGolden: gb},
			&gcetcbendorsement.SevPolicyOptions{Overwrite: true, AllowUnspecifiedVmsas: true}); err == nil {
			m.dflt = p.Policy
		}
	}
	rawQuote, err := tabi.QuoteToProto(testdata.RawQuote)
	if err != nil {
		panic(err)
	}
	m.quote = rawQuote.(*tpb.QuoteV4)
	amd, err := sevtest.DefaultTestOnlyCertChain("Milan", m.now)
	if err != nil {
		panic(err)
	}
	m.vcek = amd.Vcek.Raw
	k := 0
	next := func() int { k++; return k }

	// ---- exhaustive small scope: SEV-SNP ----
	m1, m4, m8, ms, mu := measPool(1), measPool(2), measPool(3), measPool(4), measPool(6)
	table := &epb.VMSevSnp{Policy: 0x30000, Svn: 1, Measurements: map[uint32][]byte{1: m1, 4: m4, 8: m8}, SvsmMeasurement: ms}
	vmsasChoices := [][]string{nil, {"0"}, {"1"}, {"4"}, {"8"}, {"16"}, {"0x8"}, {"010"}, {"4294967295"}, {"4294967296"}, {"-1"}, {"abc"}, {""}, {"4", "8"}, {"8", "4"}, {"abc", "4"}, {"4", "abc"}}
	type mc struct {
		name string
		b    []byte
	}
	measChoices := []mc{{"m1", m1}, {"m4", m4}, {"m8", m8}, {"svsm", ms}, {"unlisted", mu}}
	for _, vt := range vmsasChoices {
		for _, mm := range measChoices {
			for bi := 0; bi < 3; bi++ {
				for ow := 0; ow < 3; ow++ {
					if c.Quick() && ow == 2 && bi != 2 {
						continue
					}
					var base *cpb.Policy
					switch bi {
					case 1:
						base = &cpb.Policy{MinimumVersion: "0.0", Policy: 0x30000, Measurement: mm.b}
					case 2:
						base = &cpb.Policy{MinimumVersion: "0.0", Policy: 0x30000, Measurement: m4}
					}
					m.sevCase(table, mm.b, vt, base, ow, r.Bool(), next(), "exhaustive")
				}
			}
		}
	}
	// ---- exhaustive small scope: TDX ----
	ra, rb, rc2, rd := measPool(1), measPool(2), measPool(3), measPool(4)
	rows := &epb.VMTdx{Svn: 1, Measurements: []*epb.VMTdx_Measurement{{RamGib: 16, Mrtd: ra}, {RamGib: 32, Mrtd: rb}, {RamGib: 32, EarlyAccept: true, Mrtd: rc2}, {RamGib: 64, Mrtd: rd}}}
	ramChoices := [][]string{nil, {"0"}, {"16"}, {"32"}, {"64"}, {"128"}, {"-1"}, {"4294967312"}, {"0x20"}, {"040"}, {"9223372036854775807"}, {"9223372036854775808"}, {"x"}, {""}, {"16", "32"}, {"32", "16"}, {"x", "16"}}
	mrtdChoices := []mc{{"ra", ra}, {"rb", rb}, {"rc", rc2}, {"rd", rd}, {"unlisted", mu}}
	for _, rt := range ramChoices {
		for _, mm := range mrtdChoices {
			for bi := 0; bi < 5; bi++ {
				for ow := 0; ow < 3; ow++ {
					if c.Quick() && ow == 2 && bi < 3 {
						continue
					}
					var base *tcpb.Policy
					switch bi {
					case 1:
						base = &tcpb.Policy{}
					case 2:
						base = &tcpb.Policy{TdQuoteBodyPolicy: &tcpb.TDQuoteBodyPolicy{MinimumTeeTcbSvn: make([]byte, 16)}}
					case 3:
						base = &tcpb.Policy{TdQuoteBodyPolicy: &tcpb.TDQuoteBodyPolicy{AnyMrTd: [][]byte{append([]byte(nil), mm.b...)}}}
					case 4:
						base = &tcpb.Policy{TdQuoteBodyPolicy: &tcpb.TDQuoteBodyPolicy{AnyMrTd: [][]byte{measPool(7)}}}
					}
					m.tdxCase(rows, mm.b, rt, base, ow, next(), "exhaustive")
				}
			}
		}
	}
	// ---- random stream (generators of stream c02) ----
	n := c.N(300, 6000)
	for i := 0; i < n; i++ {
		var snp *epb.VMSevSnp
		if r.Intn(15) != 0 {
			snp = genSevSnp(r)
			snp.CaBundle = nil
			if snp.Policy == 0 {
				snp.Policy = 0x30000
			}
		}
		vmsas := uint32([]int{0, 0, 1, 1, 4, 8, 16, 32}[r.Intn(8)])
		if ks := sortedKeys(snp.GetMeasurements()); len(ks) > 0 && r.Intn(3) != 0 {
			vmsas = ks[r.Intn(len(ks))]
		}
		meas, kind := pickMeas(r, listedForGo(snp, uint32([]int{0, int(vmsas), int(vmsas)}[r.Intn(3)])))
		c.Count("meas/" + kind)
		var base *cpb.Policy
		if r.Bool() {
			base = &cpb.Policy{MinimumVersion: "0.0", Policy: snp.GetPolicy()}
			if r.Intn(4) == 0 {
				base.Measurement = meas
			}
		}
		var vt []string
		if vmsas != 0 || r.Bool() {
			vt = []string{fmt.Sprint(vmsas)}
			if r.Intn(6) == 0 {
				vt = []string{fmt.Sprint([]int{1, 4, 8}[r.Intn(3)]), vt[0]}
			}
		}
		m.sevCase(snp, meas, vt, base, []int{0, 0, 0, 1, 2, 3}[r.Intn(6)], r.Bool(), next(), "random")

		var tdx *epb.VMTdx
		if r.Intn(12) != 0 {
			tdx = &epb.VMTdx{Svn: 1, Measurements: genRows(r)}
		}
		ram := []int{0, 0, 16, 32, 64, 128}[r.Intn(6)]
		if ms := tdx.GetMeasurements(); len(ms) > 0 && r.Bool() {
			ram = int(ms[r.Intn(len(ms))].RamGib)
		}
		var listed [][]byte
		for _, x := range tdx.GetMeasurements() {
			if ram == 0 || x.RamGib == uint32(ram) {
				listed = append(listed, x.Mrtd)
			}
		}
		mrtd, kind := pickMeas(r, listed)
		if len(mrtd) != 48 {
			mrtd = measPool(8)
		}
		c.Count("mrtd/" + kind)
		var tbase *tcpb.Policy
		switch r.Intn(6) {
		case 0:
			tbase = &tcpb.Policy{}
		case 1:
			tbase = &tcpb.Policy{TdQuoteBodyPolicy: &tcpb.TDQuoteBodyPolicy{MinimumTeeTcbSvn: make([]byte, 16)}}
		case 2:
			tbase = &tcpb.Policy{TdQuoteBodyPolicy: &tcpb.TDQuoteBodyPolicy{AnyMrTd: [][]byte{append([]byte(nil), mrtd...)}}}
		case 3:
			tbase = &tcpb.Policy{TdQuoteBodyPolicy: &tcpb.TDQuoteBodyPolicy{AnyMrTd: [][]byte{measPool(7), append([]byte(nil), mrtd...)}}}
		}
		var rt []string
		if ram != 0 || r.Bool() {
			rt = []string{fmt.Sprint(ram)}
			if r.Intn(8) == 0 {
				rt = []string{fmt.Sprint(uint64(ram) + 1<<32)}
			}
		}
		m.tdxCase(tdx, mrtd, rt, tbase, []int{0, 0, 0, 1, 2, 3}[r.Intn(6)], next(), "random")
	}
}
