package main

// Stream c09 — validation functions are re-entrant.
//
// The real validator (verify.SNPValidateFunc / SNPFamilyValidateFunc) is driven three ways:
//   concurrent       ONE validator closure invoked from 16 goroutines on alternating endorsed /
//                    unendorsed reports, no synchronisation between rounds;
//   shared-options   16 goroutines that each construct their OWN validator from one shared
//                    *verify.Options value before every call;
//   successive       one validator called A, B, A, … from a single goroutine.
// plus SevValidate called concurrently with one shared *SevValidateOptions.
//
// Direct oracle (implementation alone): an unendorsed report accepted; any result different from the
// result the same call gets from a fresh validator over a fresh copy of the options (isolation); the
// caller's Options value different after the run from what the caller configured.
//
// Correspondence: each batch of 16 calls (one per goroutine) is one op line carrying the endorsements'
// primitive facts (as in stream c01), the configured options, the calls and a random complete schedule;
// the interleaving model with the write lists regenerated from the source must print the same results
// and the same final caller options.

import (
	"crypto/rsa"
	"crypto/x509"
	"fmt"
	"google.golang.org/protobuf/proto"
	"strings"
	"sync"
	"time"

	"github.com/google/gce-tcb-verifier/gcetcbendorsement"
	"github.com/google/gce-tcb-verifier/sev"
	"github.com/google/gce-tcb-verifier/verify"
	spb "github.com/google/go-sev-guest/proto/sevsnp"
)

func init() {
	register("c09", "one SNP validator closure (and validators constructed from one shared Options value) invoked from 16 "+
		"goroutines on alternating endorsed / unendorsed / forged / malformed reports under 5 option configurations "+
		"(serialized endorsement per call, SNP options nil / empty / stale preset measurement, pre-supplied endorsement, "+
		"getter), successive A-B-A calls, and concurrent SevValidate with shared options; each batch of calls is compared "+
		"with the interleaving model under a random complete schedule. Non-trivial: the batch contains both an accepted "+
		"and a rejected-for-measurement call (so cross-talk between calls would change a result); distinct by op line.", runC09)
}

type c09Call struct {
	desc     string
	att      *spb.Attestation
	attTok   string
	ser      []byte
	serTok   string
	endorsed bool // independently known: the endorsement used is authentic and lists this report's measurement
	measOnly bool // rejected only because of the measurement comparison (everything else is fine)
}

type c09Config struct {
	name   string
	mk     func() *verify.Options // a FRESH copy of the options as the caller configures them
	tail   string                 // op-line tokens describing the options
	calls  []c09Call
	nilSNP bool
}

func c09SnpTok(o *verify.SNPOptions) string {
	if o == nil {
		return "-"
	}
	m := "nil"
	if o.Measurement != nil {
		m = hx(o.Measurement)
	}
	return fmt.Sprintf("%d:%s", o.ExpectedLaunchVMSAs, m)
}

func c09Result(f func(*spb.Attestation, []byte) error, call c09Call) string {
	return c01Classify(func() error { return f(call.att, call.ser) })
}

// c09Schedule draws a complete schedule for n threads: every thread id `per` times, shuffled.
func c09Schedule(rng *Rng, n, per int) string {
	ids := make([]int, 0, n*per)
	for i := 0; i < n; i++ {
		for k := 0; k < per; k++ {
			ids = append(ids, i)
		}
	}
	for i := len(ids) - 1; i > 0; i-- {
		j := rng.Intn(i + 1)
		ids[i], ids[j] = ids[j], ids[i]
	}
	parts := make([]string, len(ids))
	for i, v := range ids {
		parts[i] = fmt.Sprint(v)
	}
	return strings.Join(parts, ",")
}

func runC09(c *Ctx) {
	env := &c01Env{c: c}
	env.setup()
	rng := c.Rng
	now := baseTime.Add(time.Hour)
	roots := x509.NewCertPool()
	roots.AddCert(env.rootA)

	// endorsements: E0 genuine (real pipeline) lists meas1; E1 genuine for another firmware lists meas2;
	// E2 = E0 with a flipped signature
	meas2 := rng.Bytes(48)
	g2 := c01Clone(env.baseG)
	g2.SevSnp.Measurements = map[uint32][]byte{1: meas2}
	g2.Digest = rng.Bytes(48)
	e0 := env.base
	e1 := c01Resign(env.crng, g2, env.keyA)
	e2 := c01FromParts(e0.msg.SerializedUefiGolden, c01FlipBit(e0.msg.Signature, 77))
	// E3 = a golden measurement edited to list the unendorsed measurement, carried under E0's genuine
	// signature bytes; E4 = E1's payload under E0's signature. Both are rejected by a fresh validator;
	// a validator that remembers "already verified" signatures/certificates from earlier calls and
	// keys that memory by less than (payload, signature) accepts them after a genuine E0.
	g3 := c01Clone(env.baseG)
	g3.SevSnp.Measurements = map[uint32][]byte{1: append([]byte(nil), env.unendorsed...)}
	p3, err := proto.Marshal(g3)
	if err != nil {
		panic(err)
	}
	e3 := c01FromParts(p3, append([]byte(nil), e0.msg.Signature...))
	e4 := c01FromParts(e1.msg.SerializedUefiGolden, append([]byte(nil), e0.msg.Signature...))
	// E5 = an endorsement listing the unendorsed measurement, signed by a FRESH key whose self-signed certificate
	// copies the genuine signer certificate's issuer name and serial number: rejected by a fresh validator (the
	// certificate does not chain); a validator that remembers "this signer was already chained" by less than the
	// whole certificate accepts it after a genuine E0.
	fk, err := rsa.GenerateKey(env.crng, 2048)
	if err != nil {
		panic(err)
	}
	ftpl := &x509.Certificate{Subject: env.leafA.Issuer, SerialNumber: env.leafA.SerialNumber, NotBefore: env.leafA.NotBefore,
		NotAfter: env.leafA.NotAfter, KeyUsage: x509.KeyUsageDigitalSignature, SignatureAlgorithm: x509.SHA256WithRSAPSS}
	fder, err := x509.CreateCertificate(env.crng, ftpl, ftpl, fk.Public(), fk)
	if err != nil {
		panic(err)
	}
	g5 := c01Clone(g3)
	g5.Cert = fder
	e5 := c01Resign(env.crng, g5, fk)
	endos := []*c01Endo{e0, e1, e2, e3, e4, e5}
	var factLine strings.Builder
	for i, e := range endos {
		factLine.WriteString(c01IndependentFacts(e, roots, now).line(i))
	}
	prefix := func(mode, cfg string) string {
		return fmt.Sprintf("c09 op=run mode=%s cfg=%s nilts=%s roots=R ne=%d%s fam=%s", mode, cfg, env.nilts, len(endos), factLine.String(), sev.GCEUefiFamilyID)
	}
	att := func(m []byte) *spb.Attestation { return &spb.Attestation{Report: &spb.Report{Measurement: m}} }
	unend := env.unendorsed
	perCall := []c09Call{
		{"endorsed-E0", att(env.meas1), hx(env.meas1), e0.container, "0", true, false},
		{"unendorsed-E0", att(unend), hx(unend), e0.container, "0", false, true},
		{"endorsed-E1", att(meas2), hx(meas2), e1.container, "1", true, false},
		{"E1-measurement-with-E0", att(meas2), hx(meas2), e0.container, "0", false, true},
		{"E0-measurement-with-E1", att(env.meas1), hx(env.meas1), e1.container, "1", false, true},
		{"endorsed-measurement-forged-E2", att(env.meas1), hx(env.meas1), e2.container, "2", false, false},
		{"unendorsed-with-edited-golden-under-E0-signature", att(unend), hx(unend), e3.container, "3", false, false},
		{"E1-payload-under-E0-signature", att(meas2), hx(meas2), e4.container, "4", false, false},
		{"unendorsed-with-forged-cert-same-issuer-and-serial", att(unend), hx(unend), e5.container, "5", false, false},
		{"nil-attestation", nil, "nil", e0.container, "0", false, false},
		{"short-measurement", att(env.meas1[:40]), hx(env.meas1[:40]), e0.container, "0", false, false},
	}
	noSer := []c09Call{
		{"endorsed", att(env.meas1), hx(env.meas1), nil, "-", true, false},
		{"unendorsed", att(unend), hx(unend), nil, "-", false, true},
		{"other-firmware", att(meas2), hx(meas2), nil, "-", false, true},
		{"endorsed-again", att(env.meas1), hx(env.meas1), nil, "-", true, false},
	}
	getURL := c01SnpURL("ovmf_x64_csm", env.meas1)
	configs := []c09Config{
		{name: "serialized-snp-nil", calls: perCall, nilSNP: true,
			mk:   func() *verify.Options { return &verify.Options{RootsOfTrust: roots, Now: now} },
			tail: " snpo=- optE=- getter=nil geturl=-"},
		{name: "serialized-snp-empty", calls: perCall,
			mk: func() *verify.Options {
				return &verify.Options{RootsOfTrust: roots, Now: now, SNP: &verify.SNPOptions{}}
			},
			tail: " snpo=0:nil optE=- getter=nil geturl=-"},
		{name: "serialized-stale-preset-measurement", calls: perCall,
			mk: func() *verify.Options {
				return &verify.Options{RootsOfTrust: roots, Now: now, SNP: &verify.SNPOptions{Measurement: append([]byte(nil), env.meas1...)}}
			},
			tail: " snpo=0:" + hx(env.meas1) + " optE=- getter=nil geturl=-"},
		{name: "presupplied-endorsement", calls: noSer,
			mk: func() *verify.Options {
				return &verify.Options{RootsOfTrust: roots, Now: now, SNP: &verify.SNPOptions{}, Endorsement: e0.msg}
			},
			tail: " snpo=0:nil optE=0 getter=nil geturl=-"},
		{name: "getter", calls: noSer, nilSNP: true,
			mk: func() *verify.Options {
				return &verify.Options{RootsOfTrust: roots, Now: now, Getter: &c01Getter{map[string][]byte{getURL: e0.container}}}
			},
			tail: " snpo=- optE=- getter=0 geturl=" + sev.GCEUefiFamilyID + ":" + hx(env.meas1)},
	}

	const G = 16
	rounds := c.N(1000, 5000)
	for _, cfg := range configs {
		// isolation baseline: every call on a fresh validator over fresh options
		iso := make([]string, len(cfg.calls))
		for i, call := range cfg.calls {
			iso[i] = c09Result(verify.SNPValidateFunc(cfg.mk()), call)
			c.Count("isolated/" + iso[i])
			if call.endorsed != (iso[i] == "accept") {
				// the generator's own expectation about the call; a disagreement is a harness or C01/C02 matter
				c.Notes = append(c.Notes, fmt.Sprintf("config %s call %s: isolated result %s, endorsed=%v", cfg.name, call.desc, iso[i], call.endorsed))
			}
		}
		for _, mode := range []string{"concurrent", "shared-options"} {
			shared := cfg.mk()
			before := c09SnpTok(shared.SNP)
			oneValidator := verify.SNPValidateFunc(shared)
			res := make([][]string, G)
			pick := make([][]int, G)
			// every goroutine's sequence of calls is fixed in advance from the seed: alternating
			// accepted / rejected calls, offset per goroutine
			for g := 0; g < G; g++ {
				pick[g] = make([]int, rounds)
				res[g] = make([]string, rounds)
				off := rng.Intn(len(cfg.calls))
				for r := 0; r < rounds; r++ {
					pick[g][r] = (off + g + r) % len(cfg.calls)
				}
			}
			var wg sync.WaitGroup
			start := make(chan struct{})
			for g := 0; g < G; g++ {
				wg.Add(1)
				go func(g int) {
					defer wg.Done()
					<-start
					for r := 0; r < rounds; r++ {
						f := oneValidator
						if mode == "shared-options" {
							if g%2 == 0 {
								f = verify.SNPValidateFunc(shared)
							} else {
								f = verify.SNPFamilyValidateFunc(sev.GCEUefiFamilyID, shared)
							}
						}
						res[g][r] = c09Result(f, cfg.calls[pick[g][r]])
					}
				}(g)
			}
			close(start)
			wg.Wait()
			after := c09SnpTok(shared.SNP)
			if after != before {
				c.Find("c09/"+mode+"/caller-options-mutated", "the caller's Options.SNP is "+after+" after the run, configured as "+before+" ("+cfg.name+")", cfg.name)
			}
			for r := 0; r < rounds; r++ {
				var calls, out []string
				hasAcc, hasMeasRej := false, false
				for g := 0; g < G; g++ {
					call := cfg.calls[pick[g][r]]
					calls = append(calls, call.attTok+"/"+call.serTok)
					out = append(out, res[g][r])
					c.Count(mode + "/" + res[g][r])
					if call.endorsed {
						hasAcc = true
					}
					if call.measOnly {
						hasMeasRej = true
					}
					if !call.endorsed && res[g][r] == "accept" {
						c.Find("c09/"+mode+"/unendorsed-accepted", "a report that is not endorsed ("+call.desc+") was accepted while other validations were in flight ("+cfg.name+")",
							fmt.Sprintf("config=%s goroutine=%d round=%d call=%s", cfg.name, g, r, call.desc))
					}
					if res[g][r] != iso[pick[g][r]] {
						c.Find("c09/"+mode+"/differs-from-isolation", "call "+call.desc+" returned "+res[g][r]+" but "+iso[pick[g][r]]+" in isolation ("+cfg.name+")",
							fmt.Sprintf("config=%s goroutine=%d round=%d call=%s", cfg.name, g, r, call.desc))
					}
				}
				line := prefix(mode, cfg.name) + cfg.tail + " calls=" + strings.Join(calls, ";") + " sched=" + c09Schedule(rng, G, 10)
				c.Case(line, "res="+strings.Join(out, ",")+" snp="+after, hasAcc && hasMeasRej)
			}
		}
		// successive, single goroutine: A B A B … on one validator
		{
			shared := cfg.mk()
			before := c09SnpTok(shared.SNP)
			f := verify.SNPValidateFunc(shared)
			nb := c.N(40, 400)
			for b := 0; b < nb; b++ {
				k := 3 + rng.Intn(4)
				var calls, out []string
				var sched []string
				hasAcc, hasMeasRej := false, false
				idxs := make([]int, k)
				for j := range idxs {
					idxs[j] = rng.Intn(len(cfg.calls))
				}
				idxs[2] = idxs[0] // A then B then A
				for j := 0; j < k; j++ {
					call := cfg.calls[idxs[j]]
					r := c09Result(f, call)
					want := c09Result(verify.SNPValidateFunc(cfg.mk()), call)
					calls = append(calls, call.attTok+"/"+call.serTok)
					out = append(out, r)
					c.Count("successive/" + r)
					for t := 0; t < 10; t++ {
						sched = append(sched, fmt.Sprint(j))
					}
					hasAcc = hasAcc || call.endorsed
					hasMeasRej = hasMeasRej || call.measOnly
					if !call.endorsed && r == "accept" {
						c.Find("c09/successive/unendorsed-accepted", "an unendorsed report ("+call.desc+") was accepted after other validations ("+cfg.name+")", call.desc)
					}
					if r != want {
						c.Find("c09/successive/differs-from-isolation", "call "+call.desc+" returned "+r+" but "+want+" in isolation ("+cfg.name+")", call.desc)
					}
				}
				after := c09SnpTok(shared.SNP)
				if after != before {
					c.Find("c09/successive/caller-options-mutated", "the caller's Options.SNP is "+after+" after the calls, configured as "+before+" ("+cfg.name+")", cfg.name)
				}
				line := prefix("successive", cfg.name) + cfg.tail + " calls=" + strings.Join(calls, ";") + " sched=" + strings.Join(sched, ",")
				c.Case(line, "res="+strings.Join(out, ",")+" snp="+after, hasAcc && hasMeasRej)
			}
		}
	}

	// SevValidate from several goroutines with ONE shared *SevValidateOptions (direct oracle only: the
	// entry point builds fresh verify.Options per call, so the closure's sharing is internal to it)
	{
		sopts := &gcetcbendorsement.SevValidateOptions{RootsOfTrust: roots, Now: now}
		g := sev.GCEFwCertGUID
		atts := []*spb.Attestation{
			env.sevAtt(env.meas1, map[string][]byte{g: e0.container}),
			env.sevAtt(unend, map[string][]byte{g: e0.container}),
			env.sevAtt(meas2, map[string][]byte{g: e1.container}),
			env.sevAtt(env.meas1, map[string][]byte{g: e2.container}),
		}
		endorsed := []bool{true, false, true, false}
		iso := make([]string, len(atts))
		for i, a := range atts {
			a := a
			iso[i] = c01Classify(func() error {
				return gcetcbendorsement.SevValidate(env.ctx, a, &gcetcbendorsement.SevValidateOptions{RootsOfTrust: roots, Now: now})
			})
			c.Count("sev-isolated/" + iso[i])
		}
		var wg sync.WaitGroup
		var mu sync.Mutex
		sr := c.N(40, 400)
		for t := 0; t < 8; t++ {
			wg.Add(1)
			go func(t int) {
				defer wg.Done()
				for r := 0; r < sr; r++ {
					i := (t + r) % len(atts)
					got := c01Classify(func() error { return gcetcbendorsement.SevValidate(env.ctx, atts[i], sopts) })
					mu.Lock()
					c.Count("sev-concurrent/" + got)
					if got == "accept" && !endorsed[i] {
						c.Find("c09/sevvalidate/unendorsed-accepted", "SevValidate accepted an unendorsed or forged attestation under concurrency", fmt.Sprint("attestation ", i))
					}
					if got != iso[i] {
						c.Find("c09/sevvalidate/differs-from-isolation", "SevValidate returned "+got+", "+iso[i]+" in isolation", fmt.Sprint("attestation ", i))
					}
					mu.Unlock()
				}
			}(t)
		}
		wg.Wait()
	}
}
