package main

import (
	"fmt"
	"os"

	"github.com/google/gce-tcb-verifier/keys"
	"github.com/google/gce-tcb-verifier/rotate"
	"github.com/google/gce-tcb-verifier/sign/gcsca"
)

// c11SameAuthority: the store must be consistent at every write prefix also when ONE authority object serves a
// whole history (a long-lived process using the library), including after an operation that FAILED half-way:
// whatever the authority object remembers from the failed attempt (its cached manifest) must not reach storage
// ahead of the certificates it references. History: bootstrap; rotation with a single storage fault at position p
// (every p until the rotation no longer reaches it); a fault-free rotation; after every committed object write the
// store is reloaded through a fresh authority and checked (c11Consistent). Direct oracle only (the write-log model
// describes operations that start from the stored state).
func c11SameAuthority(c *Ctx) { sameAuthoritySweep(c, "c11") }

// sameAuthoritySweep runs the history for property prop: "c11" checks the store after every committed write,
// "c10" checks the failure-atomicity clauses after the faulted rotation and after the retry ON THE SAME OBJECTS
// (recorded primary live, certified for its key, chaining to the stored root; the retry with overwrite succeeds).
func sameAuthoritySweep(c *Ctx, prop string) {
	for _, ca := range []string{"gcsmem", "gcslocal"} {
		for p := 0; p < 40; p++ {
			dir, err := os.MkdirTemp("", "verif-c11s-")
			must(err)
			in := newInst("memkm", ca, &e1Snap{}, dir, &Rng{s: c.Rng.Next()})
			ctl := &faultCtl{}
			var bad []string
			fs := &faultStore{inner: in.store, f: ctl}
			fs.onW = func(obj string, _ []byte) {
				if prop != "c11" {
					return
				}
				if ok, why := c11Consistent(in.objects()); !ok {
					bad = append(bad, fmt.Sprintf("after the write of %s: %s", obj, why))
				}
			}
			g := &gcsca.CertificateAuthority{RootPath: e1RootPath, PrivateBucket: e1Bucket, SigningCertDirInGCS: e1CertDir, Storage: fs}
			kctx := func() *keys.Context {
				return &keys.Context{CA: g, Signer: in.signer, Random: in.rng, Manager: in.mgr}
			}
			run := func(script map[int]int, op func() error) (string, int) {
				*ctl = faultCtl{script: script}
				res, _ := runGuarded(op)
				return res, ctl.pos
			}
			res0, _ := run(nil, func() error { return rotate.Bootstrap(bootstrapCtx(keys.NewContext(quietCtx(false), kctx()))) })
			res1, reached := run(map[int]int{p: fFail}, func() error {
				_, e := rotate.Key(rotateCtx(keys.NewContext(quietCtx(false), kctx()), "sig", 3))
				return e
			})
			if prop == "c10" {
				if clause, detail := c10Oracle(in); clause != "" {
					c.Find("c10/same-authority/after-fault/"+clause, "one authority object, rotation failing at storage call "+fmt.Sprint(p)+": "+detail, fmt.Sprintf("ca=%s fault-position=%d", ca, p))
				}
			}
			res2, _ := run(nil, func() error {
				_, e := rotate.Key(rotateCtx(keys.NewContext(quietCtx(true), kctx()), "sig", 4))
				return e
			})
			if prop == "c10" {
				if res2 != "ok" {
					c.Find("c10/same-authority/retry-fails", "a fault-free rotation with overwrite on the SAME authority object after a rotation that failed at storage call "+fmt.Sprint(p)+" does not succeed", fmt.Sprintf("ca=%s fault-position=%d results=%s,%s,%s", ca, p, res0, res1, res2))
				}
				if clause, detail := c10Oracle(in); clause != "" {
					c.Find("c10/same-authority/after-retry/"+clause, "one authority object, failed rotation then retry: "+detail, fmt.Sprintf("ca=%s fault-position=%d", ca, p))
				}
			}
			os.RemoveAll(dir)
			c.Count(fmt.Sprintf("same-authority/%s/boot-%s/faulted-rotation-%s/next-rotation-%s", ca, res0, res1, res2))
			for _, b := range bad {
				c.Find("c11/same-authority/prefix-inconsistent", "one authority object, a rotation failing at storage call "+fmt.Sprint(p)+
					" followed by a fault-free rotation: "+b, fmt.Sprintf("ca=%s fault-position=%d results=%s,%s,%s", ca, p, res0, res1, res2))
				break
			}
			if reached <= p {
				break // the rotation made fewer storage calls than p: every position has been tried
			}
		}
	}
}
