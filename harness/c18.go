package main

// C18 — binary codecs: fixed-layout structures of ovmf/abi (abi.go, pihob.go) and sev (PageInfo, VMCB
// segment). The event-log half of the stream lives in c18_eventlog.go.

import (
	"bytes"
	"encoding/binary"
	"fmt"
	"strings"

	"github.com/google/gce-tcb-verifier/ovmf/abi"
	opb "github.com/google/gce-tcb-verifier/proto/ovmf"
	spb "github.com/google/gce-tcb-verifier/proto/sev"
	"github.com/google/gce-tcb-verifier/sev"
	"github.com/google/uuid"
)

func init() {
	register("c18", "per structure: differential ENCODE (random in-range and boundary values → bytes of the real "+
		"Put/Marshal/WriteTo) and DECODE (valid encodings, every truncation, one-byte extensions, reserved bytes set, "+
		"length prefixes ±1, bit flips, random bytes → ok/err/panic(/eof) and the decoded value), plus the direct oracle "+
		"on the implementation alone (decode∘encode = id, documented size, accepted input re-encodes to the consumed "+
		"bytes up to documented zero padding, out-of-range / reserved-set refused). Non-trivial: the implementation "+
		"accepted (encode ok or decode ok); distinct by op line.", runC18)
}

// documented ABI sizes (from the external documents, not from the code)
const (
	c18SizeGuid     = 16
	c18SizeFwEntry  = 18
	c18SizeSevMeta  = 16
	c18SizeSevSec   = 12
	c18SizeMdOff    = 22
	c18SizeReset    = 22
	c18SizeTdxDesc  = 16
	c18SizeTdxSec   = 32
	c18SizePageInfo = 0x70
	c18SizeVmcbSeg  = 16
	c18SizeHobHdr   = 8
	c18SizeHandoff  = 56
	c18SizeResource = 48
	c18SizeHobGuid  = 24
	c18MaxHobLength = 0xFFF8
)

// exact-capacity copy: the model assumes cap == len (a sub-slice beyond len panics)
func c18Exact(b []byte) []byte {
	out := make([]byte, len(b), len(b))
	copy(out, b)
	return out
}

// outcome of a guarded call: "ok:<v>", "err", "panic"
func c18Call(f func() (string, error)) string {
	var res string
	var err error
	p, _, _ := Guard(func() { res, err = f() })
	if p {
		return "panic"
	}
	if err != nil {
		return "err"
	}
	return "ok:" + res
}

func c18U32(c *Ctx) uint32 {
	switch c.Rng.Intn(8) {
	case 0:
		return 0
	case 1:
		return 0xFFFFFFFF
	case 2:
		return uint32(c.Rng.Intn(256))
	case 3:
		return 1 << uint(c.Rng.Intn(32))
	}
	return uint32(c.Rng.Next())
}

func c18U16(c *Ctx) uint16 {
	switch c.Rng.Intn(6) {
	case 0:
		return 0
	case 1:
		return 0xFFFF
	}
	return uint16(c.Rng.Next())
}

func c18U64(c *Ctx) uint64 {
	switch c.Rng.Intn(8) {
	case 0:
		return 0
	case 1:
		return ^uint64(0)
	case 2:
		return 1 << uint(c.Rng.Intn(64))
	}
	return c.Rng.Next()
}

// buffers to Put into: exact size, one short, larger (pre-filled so that untouched bytes show)
func c18Buf(c *Ctx, size int) []byte {
	n := size
	switch c.Rng.Intn(6) {
	case 0:
		n = size - 1
	case 1:
		n = size + 1 + c.Rng.Intn(8)
	case 2:
		n = c.Rng.Intn(size)
	}
	b := make([]byte, n)
	for i := range b {
		b[i] = 0xA5
	}
	return b
}

// mutations of a valid encoding for the decode direction
func c18Mutations(c *Ctx, enc []byte, reserved []int) [][]byte {
	var out [][]byte
	out = append(out, c18Exact(enc))
	for n := 0; n < len(enc); n++ { // every truncation
		out = append(out, c18Exact(enc[:n]))
	}
	out = append(out, append(c18Exact(enc), 0), append(c18Exact(enc), 0xFF), append(c18Exact(enc), c.Rng.Bytes(1+c.Rng.Intn(5))...))
	for _, i := range reserved {
		if i < len(enc) {
			m := c18Exact(enc)
			m[i] = byte(1 + c.Rng.Intn(255))
			out = append(out, m)
		}
	}
	for k := 0; k < 4 && len(enc) > 0; k++ { // bit flips
		m := c18Exact(enc)
		m[c.Rng.Intn(len(m))] ^= 1 << uint(c.Rng.Intn(8))
		out = append(out, m)
	}
	return out
}

type c18Fixed struct {
	name     string
	size     int
	reserved []int
	// gen returns the field text of a random value and its Put closure
	gen func(c *Ctx) (fields string, put func(data []byte) error)
	// dec decodes and returns the canonical field text; nil when the package has no decoder
	dec func(b []byte) (string, error)
	// spec reads an encoding by the documented layout (harness-side, independent of the package);
	// used for the structures the package cannot decode itself
	spec  func(enc []byte) string
	exact bool
}

func c18UUIDRand(c *Ctx) uuid.UUID {
	var u uuid.UUID
	copy(u[:], c.Rng.Bytes(16))
	if c.Rng.Intn(5) == 0 {
		u = uuid.MustParse(abi.SevEsResetBlockGUID)
	}
	return u
}

func c18GuidText(g abi.EFIGUID) string {
	return fmt.Sprintf("d1=%d,d2=%d,d3=%d,d4=%s", g.Data1, g.Data2, g.Data3, hx(g.Data4[:]))
}

func c18GuidRand(c *Ctx) abi.EFIGUID {
	g := abi.EFIGUID{Data1: c18U32(c), Data2: c18U16(c), Data3: c18U16(c)}
	copy(g.Data4[:], c.Rng.Bytes(8))
	return g
}

func c18TdxSecText(s *abi.TDXMetadataSection) string {
	return fmt.Sprintf("%d:%d:%d:%d:%d:%d", s.DataOffset, s.DataSize, uint64(s.MemoryBase), s.MemorySize, s.SectionType, s.Attributes)
}

func c18TdxSecRand(c *Ctx) *abi.TDXMetadataSection {
	return &abi.TDXMetadataSection{DataOffset: c18U32(c), DataSize: c18U32(c), MemoryBase: abi.EFIPhysicalAddress(c18U64(c)),
		MemorySize: c18U64(c), SectionType: uint32(c.Rng.Intn(5)), Attributes: uint32(c.Rng.Intn(3))}
}

func c18TdxDescText(d *abi.TDXMetadataDescriptor) string {
	return fmt.Sprintf("signature=%d,length=%d,version=%d,count=%d", d.Signature, d.Length, d.Version, d.SectionCount)
}

func c18FixedTable() []c18Fixed {
	return []c18Fixed{
		{name: "guid", size: c18SizeGuid, exact: true,
			gen: func(c *Ctx) (string, func([]byte) error) {
				g := c18GuidRand(c)
				return strings.ReplaceAll(c18GuidText(g), ",", " "), g.Put
			},
			// parseEFIGUID is unexported: its behaviour is observed through FromEFIGUID (uuid) and FromUUID
			spec: func(b []byte) string {
				return fmt.Sprintf("d1=%d d2=%d d3=%d d4=%s", binary.LittleEndian.Uint32(b[0:4]), binary.LittleEndian.Uint16(b[4:6]),
					binary.LittleEndian.Uint16(b[6:8]), hx(b[8:16]))
			}},
		{name: "uuid", size: c18SizeGuid, exact: true,
			gen: func(c *Ctx) (string, func([]byte) error) {
				u := c18UUIDRand(c)
				return "u=" + hx(u[:]), func(d []byte) error { return abi.PutUUID(d, u) }
			},
			dec: func(b []byte) (string, error) {
				u, err := abi.FromEFIGUID(b)
				return "u=" + hx(u[:]), err
			}},
		{name: "fwentry", size: c18SizeFwEntry,
			gen: func(c *Ctx) (string, func([]byte) error) {
				e := &abi.FwGUIDEntry{Size: c18U16(c), GUID: c18UUIDRand(c)}
				return fmt.Sprintf("size=%d guid=%s", e.Size, hx(e.GUID[:])), e.Put
			},
			dec: func(b []byte) (string, error) {
				e := &abi.FwGUIDEntry{}
				err := e.PopulateFromBytes(b)
				return fmt.Sprintf("size=%d,guid=%s", e.Size, hx(e.GUID[:])), err
			}},
		{name: "sevmeta", size: c18SizeSevMeta,
			gen: func(c *Ctx) (string, func([]byte) error) {
				s := &abi.SevMetadata{Signature: c18U32(c), Length: c18U32(c), Version: c18U32(c), Sections: c18U32(c)}
				if c.Rng.Bool() {
					s.Signature = abi.SevSnpMetadataSignature
				}
				return fmt.Sprintf("signature=%d length=%d version=%d sections=%d", s.Signature, s.Length, s.Version, s.Sections), s.Put
			},
			dec: func(b []byte) (string, error) {
				s := abi.SevMetadataFromBytes(b)
				return fmt.Sprintf("signature=%d,length=%d,version=%d,sections=%d", s.Signature, s.Length, s.Version, s.Sections), nil
			}},
		{name: "sevsec", size: c18SizeSevSec,
			gen: func(c *Ctx) (string, func([]byte) error) {
				s := &abi.SevMetadataSection{Address: c18U32(c), Length: c18U32(c), Kind: uint32(c.Rng.Intn(6))}
				return fmt.Sprintf("address=%d length=%d kind=%d", s.Address, s.Length, s.Kind), s.Put
			},
			dec: func(b []byte) (string, error) {
				s := abi.SevMetadataSectionFromBytes(b)
				return fmt.Sprintf("address=%d,length=%d,kind=%d", s.Address, s.Length, s.Kind), nil
			}},
		{name: "mdoff", size: c18SizeMdOff,
			gen: func(c *Ctx) (string, func([]byte) error) {
				m := &abi.MetadataOffset{Offset: c18U32(c), GUIDEntry: abi.FwGUIDEntry{Size: c18U16(c), GUID: c18UUIDRand(c)}}
				return fmt.Sprintf("offset=%d size=%d guid=%s", m.Offset, m.GUIDEntry.Size, hx(m.GUIDEntry.GUID[:])), m.Put
			},
			dec: func(b []byte) (string, error) {
				m, err := abi.MetadataOffsetFromBytes(b)
				if err != nil {
					return "", err
				}
				return fmt.Sprintf("offset=%d,size=%d,guid=%s", m.Offset, m.GUIDEntry.Size, hx(m.GUIDEntry.GUID[:])), nil
			}},
		{name: "reset", size: c18SizeReset, exact: true,
			gen: func(c *Ctx) (string, func([]byte) error) {
				u := c18UUIDRand(c)
				r := &opb.SevEsResetBlock{Addr: c18U32(c), Size: uint32(c18U16(c)), Guid: u[:]}
				switch c.Rng.Intn(10) { // boundary and out-of-range values: the 16-bit limit k-1, k, k+1; GUID of the wrong length
				case 0:
					r.Size = 0x10000 + uint32(c.Rng.Intn(0x20000))
				case 1:
					r.Size = 0xFFFFFFFF
				case 2:
					r.Guid = c.Rng.Bytes(c.Rng.Intn(20))
				case 3:
					r.Size = 0xFFFF
				case 4:
					r.Size = 0x10000
				case 5:
					r.Size = 0x10001
				}
				return fmt.Sprintf("addr=%d size=%d guid=%s", r.Addr, r.Size, hx(r.Guid)), func(d []byte) error { return abi.PutSevEsResetBlock(d, r) }
			},
			dec: func(b []byte) (string, error) {
				r, err := abi.SevEsResetBlockFromBytes(b)
				if err != nil {
					return "", err
				}
				return fmt.Sprintf("addr=%d,size=%d,guid=%s", r.Addr, r.Size, hx(r.Guid)), nil
			}},
		{name: "tdxdesc", size: c18SizeTdxDesc,
			gen: func(c *Ctx) (string, func([]byte) error) {
				d := &abi.TDXMetadataDescriptor{Signature: c18U32(c), Length: c18U32(c), Version: c18U32(c), SectionCount: c18U32(c)}
				return strings.ReplaceAll(c18TdxDescText(d), ",", " "), d.Put
			},
			dec: func(b []byte) (string, error) {
				d, err := abi.TDXMetadataDescriptorFromBytes(b)
				if err != nil {
					return "", err
				}
				return c18TdxDescText(d), nil
			}},
		{name: "tdxsec", size: c18SizeTdxSec,
			gen: func(c *Ctx) (string, func([]byte) error) {
				s := c18TdxSecRand(c)
				return "sec=" + c18TdxSecText(s), s.Put
			},
			dec: func(b []byte) (string, error) {
				s, err := abi.TDXMetadataSectionFromBytes(b)
				if err != nil {
					return "", err
				}
				return "sec=" + c18TdxSecText(s), nil
			}},
		{name: "pageinfo", size: c18SizePageInfo, reserved: []int{0x64},
			gen: func(c *Ctx) (string, func([]byte) error) {
				var dc, ct [48]byte
				copy(dc[:], c.Rng.Bytes(48))
				copy(ct[:], c.Rng.Bytes(48))
				l, t, imi := c18U16(c), uint8(1+c.Rng.Intn(6)), uint8(c.Rng.Intn(2))
				v1, v2, v3, gpa := uint8(c.Rng.Next()), uint8(c.Rng.Next()), uint8(c.Rng.Next()), c18U64(c)
				return fmt.Sprintf("digest=%s contents=%s length=%d type=%d imi=%d v1=%d v2=%d v3=%d gpa=%d", hx(dc[:]), hx(ct[:]), l, t, imi, v1, v2, v3, gpa),
					func(d []byte) error {
						return sev.VerifC18PutPageInfo(dc, ct, l, sev.PageType(t), imi, v1, v2, v3, gpa, d)
					}
			},
			// SNP ABI PAGE_INFO: 0x62 PAGE_TYPE, 0x63 IMI, 0x64 reserved, 0x65..0x67 VMPL1..3_PERMS, 0x68 GPA
			spec: func(b []byte) string {
				return fmt.Sprintf("digest=%s contents=%s length=%d type=%d imi=%d v1=%d v2=%d v3=%d gpa=%d", hx(b[0:0x30]), hx(b[0x30:0x60]),
					binary.LittleEndian.Uint16(b[0x60:0x62]), b[0x62], b[0x63], b[0x65], b[0x66], b[0x67], binary.LittleEndian.Uint64(b[0x68:0x70]))
			}},
		{name: "vmcbseg", size: c18SizeVmcbSeg,
			gen: func(c *Ctx) (string, func([]byte) error) {
				s := &spb.VmcbSeg{Selector: uint32(c18U16(c)), Attrib: uint32(c18U16(c)), Limit: c18U32(c), Base: c18U64(c)}
				switch c.Rng.Intn(12) { // the 16-bit limit k-1, k, k+1 for both checked fields
				case 0:
					s.Selector = 0x10000 + uint32(c.Rng.Intn(1000))
				case 1:
					s.Attrib = 0x10000
				case 2:
					s.Attrib = 0xFFFFFFFF
				case 3:
					s.Selector = 0x10000
				case 4:
					s.Selector, s.Attrib = 0xFFFF, 0xFFFF
				case 5:
					s.Attrib = 0x10001
				}
				return fmt.Sprintf("selector=%d attrib=%d limit=%d base=%d", s.Selector, s.Attrib, s.Limit, s.Base),
					func(d []byte) error { return sev.VerifC18PutVmcbSeg(s, d) }
			},
			spec: func(b []byte) string {
				return fmt.Sprintf("selector=%d attrib=%d limit=%d base=%d", binary.LittleEndian.Uint16(b[0:2]), binary.LittleEndian.Uint16(b[2:4]),
					binary.LittleEndian.Uint32(b[4:8]), binary.LittleEndian.Uint64(b[8:16]))
			}},
	}
}

// inRange reports whether a generated value was meant to be refused (decided from the field text, on
// the harness side, independently of the model): only reset and vmcbseg generate out-of-range values.
func c18OutOfRange(name, fields string) bool {
	get := func(k string) uint64 {
		for _, t := range strings.Fields(fields) {
			if strings.HasPrefix(t, k+"=") {
				var v uint64
				fmt.Sscanf(t[len(k)+1:], "%d", &v)
				return v
			}
		}
		return 0
	}
	switch name {
	case "reset":
		for _, t := range strings.Fields(fields) {
			if strings.HasPrefix(t, "guid=") && len(t) != 5+32 {
				return true
			}
		}
		return get("size") >= 1<<16
	case "vmcbseg":
		return get("selector") >= 1<<16 || get("attrib") >= 1<<16
	}
	return false
}

func runC18Fixed(c *Ctx) {
	n := c.N(120, 6000)
	for _, s := range c18FixedTable() {
		var lastEnc []byte
		for i := 0; i < n; i++ {
			fields, put := s.gen(c)
			buf := c18Buf(c, s.size)
			orig := c18Exact(buf)
			res := c18Call(func() (string, error) {
				err := put(buf)
				return hx(buf), err
			})
			c.Case(fmt.Sprintf("c18 op=put s=%s %s buf=%s", s.name, fields, hx(orig)), res, strings.HasPrefix(res, "ok:"))
			oor := c18OutOfRange(s.name, fields)
			switch {
			case res == "panic":
				c.Count("put/" + s.name + "/panic")
				c.Find("c18/"+s.name+".Put/panic", "Put panicked", fields)
			case res == "err":
				c.Count("put/" + s.name + "/err")
				if len(orig) >= s.size && !oor {
					c.Find("c18/"+s.name+".Put/roundtrip/in-range-value-refused", "Put refused an in-range value with a large enough buffer", fields)
				}
			default:
				c.Count("put/" + s.name + "/ok")
				// ---- direct oracle on the implementation alone ----
				if oor {
					c.Find("c18/"+s.name+".Put/strict/out-of-range-accepted", "Put accepted an out-of-range field value (silently truncated)", fields)
				}
				if len(orig) < s.size {
					c.Find("c18/"+s.name+".Put/size/short-buffer-accepted", fmt.Sprintf("Put wrote into a buffer smaller than the documented %d bytes", s.size), fields)
				} else {
					if !bytes.Equal(buf[s.size:], orig[s.size:]) {
						c.Find("c18/"+s.name+".Put/size/wrote-beyond-size", fmt.Sprintf("Put changed bytes beyond the documented size %d", s.size), fields)
					}
					enc := c18Exact(buf[:s.size])
					lastEnc = enc
					for _, r := range s.reserved {
						if enc[r] != 0 {
							c.Find("c18/"+s.name+".Put/strict/reserved-not-zero", "reserved byte written non-zero", fields)
						}
					}
					if s.spec != nil {
						if got := s.spec(enc); got != fields {
							c.Find("c18/"+s.name+".Put/layout/documented-reading-differs", "reading the encoding by the documented layout does not give the value back", fields+" => "+got)
						}
					}
					if s.dec != nil {
						got := c18Call(func() (string, error) { return s.dec(enc) })
						want := "ok:" + strings.Join(strings.Fields(fields), ",")
						if got != want {
							c.Find("c18/"+s.name+"/roundtrip/decode-of-encode-differs", "decode(encode v) != v", fields+" => "+got)
						}
					}
				}
			}
		}
		if s.dec == nil || lastEnc == nil {
			continue
		}
		// ---- decode direction ----
		inputs := c18Mutations(c, lastEnc, s.reserved)
		for i := 0; i < c.N(20, 500); i++ {
			ln := s.size
			if c.Rng.Intn(4) == 0 {
				ln = c.Rng.Intn(s.size + 6)
			}
			inputs = append(inputs, c.Rng.Bytes(ln))
		}
		for _, in := range inputs {
			in := c18Exact(in)
			res := c18Call(func() (string, error) { return s.dec(in) })
			c.Case(fmt.Sprintf("c18 op=dec s=%s b=%s", s.name, hx(in)), res, strings.HasPrefix(res, "ok:"))
			cls := res
			if strings.HasPrefix(res, "ok:") {
				cls = "ok"
			}
			lc := "exact"
			if len(in) < s.size {
				lc = "short"
			} else if len(in) > s.size {
				lc = "long"
			}
			c.Count("dec/" + s.name + "/" + lc + "/" + cls)
			if cls == "ok" {
				if len(in) < s.size {
					c.Find("c18/"+s.name+".FromBytes/short/accepted", fmt.Sprintf("decoder accepted %d bytes, documented size %d", len(in), s.size), hx(in))
				}
				if s.exact && len(in) != s.size {
					c.Find("c18/"+s.name+".FromBytes/strict/wrong-size-accepted", "exact-size decoder accepted another size", hx(in))
				}
			}
		}
	}
}

// c18ReEncodeOracle: accepted bytes re-encode to the consumed prefix (fixed structures with decoders).
func runC18Canon(c *Ctx) {
	n := c.N(100, 8000)
	for i := 0; i < n; i++ {
		// uuid / fwentry / mdoff / reset / sevmeta / sevsec / tdxdesc / tdxsec from random bytes
		b := c.Rng.Bytes(40)
		if p, msg, _ := Guard(func() { runC18CanonOne(c, b) }); p {
			c.Find("c18/fixed/canon/panic", "a decoder or Put panicked on an input of the documented size: "+tok(msg), hx(b))
		}
	}
}

func runC18CanonOne(c *Ctx, b []byte) {
	{
		if u, err := abi.FromEFIGUID(c18Exact(b[:16])); err == nil {
			out := make([]byte, 16)
			abi.PutUUID(out, u)
			c.Count("canon/uuid")
			if !bytes.Equal(out, b[:16]) {
				c.Find("c18/uuid/canon/reencode-differs", "PutUUID(FromEFIGUID(b)) != b", hx(b[:16]))
			}
			// mixed-endian rule, independently: first three fields byte-reversed
			want := []byte{b[3], b[2], b[1], b[0], b[5], b[4], b[7], b[6]}
			want = append(want, b[8:16]...)
			if !bytes.Equal(u[:], want) {
				c.Find("c18/uuid/layout/mixed-endian", "FromEFIGUID is not the UEFI mixed-endian conversion", hx(b[:16]))
			}
			g := abi.FromUUID(u)
			gb := make([]byte, 16)
			g.Put(gb)
			if !bytes.Equal(gb, b[:16]) || g.Data1 != binary.LittleEndian.Uint32(b[0:4]) {
				c.Find("c18/guid/canon/fromuuid-put-differs", "FromUUID(u).Put != PutUUID(u)", hx(b[:16]))
			}
		}
		e := &abi.FwGUIDEntry{}
		if err := e.PopulateFromBytes(c18Exact(b[:18])); err == nil {
			out := make([]byte, 18)
			e.Put(out)
			c.Count("canon/fwentry")
			if !bytes.Equal(out, b[:18]) {
				c.Find("c18/fwentry/canon/reencode-differs", "Put(PopulateFromBytes(b)) != b", hx(b[:18]))
			}
		}
		if m, err := abi.MetadataOffsetFromBytes(c18Exact(b[:22])); err == nil {
			out := make([]byte, 22)
			m.Put(out)
			c.Count("canon/mdoff")
			if !bytes.Equal(out, b[:22]) {
				c.Find("c18/mdoff/canon/reencode-differs", "Put(FromBytes(b)) != b", hx(b[:22]))
			}
		}
		if r, err := abi.SevEsResetBlockFromBytes(c18Exact(b[:22])); err == nil {
			out := make([]byte, 22)
			err := abi.PutSevEsResetBlock(out, r)
			c.Count("canon/reset")
			if err != nil || !bytes.Equal(out, b[:22]) {
				c.Find("c18/reset/canon/reencode-differs", "Put(FromBytes(b)) != b", hx(b[:22]))
			}
		}
		{
			s := abi.SevMetadataFromBytes(c18Exact(b[:16]))
			out := make([]byte, 16)
			s.Put(out)
			sc := abi.SevMetadataSectionFromBytes(c18Exact(b[16:28]))
			out2 := make([]byte, 12)
			sc.Put(out2)
			c.Count("canon/sevmeta+sevsec")
			if !bytes.Equal(out, b[:16]) || !bytes.Equal(out2, b[16:28]) {
				c.Find("c18/sevmeta/canon/reencode-differs", "Put(FromBytes(b)) != b", hx(b[:28]))
			}
		}
		if d, err := abi.TDXMetadataDescriptorFromBytes(c18Exact(b[:16])); err == nil {
			out := make([]byte, 16)
			d.Put(out)
			s, _ := abi.TDXMetadataSectionFromBytes(c18Exact(b[8:40]))
			out2 := make([]byte, 32)
			s.Put(out2)
			c.Count("canon/tdxdesc+tdxsec")
			if !bytes.Equal(out, b[:16]) || !bytes.Equal(out2, b[8:40]) {
				c.Find("c18/tdxdesc/canon/reencode-differs", "Put(FromBytes(b)) != b", hx(b[:40]))
			}
		}
	}
}

func runC18Tdx(c *Ctx) {
	n := c.N(200, 10000)
	for i := 0; i < n; i++ {
		k := c.Rng.Intn(5)
		m := &abi.TDXMetadata{Header: &abi.TDXMetadataDescriptor{Signature: abi.TDXMetadataDescriptorMagic, Version: 1, SectionCount: uint32(k)}}
		m.Header.Length = uint32(16 + 32*k)
		if c.Rng.Intn(6) == 0 {
			m.Header.Signature = c18U32(c)
		}
		var secs []string
		for j := 0; j < k; j++ {
			s := c18TdxSecRand(c)
			m.Sections = append(m.Sections, s)
			secs = append(secs, c18TdxSecText(s))
		}
		if c.Rng.Intn(8) == 0 { // count mismatch
			m.Header.SectionCount = uint32(c.Rng.Intn(6))
		}
		want := 16 + 32*k
		buf := c18Buf(c, want)
		orig := c18Exact(buf)
		res := c18Call(func() (string, error) { err := m.Put(buf); return hx(buf), err })
		fields := strings.ReplaceAll(c18TdxDescText(m.Header), ",", " ") + " secs=" + strings.Join(secs, ";")
		c.Case(fmt.Sprintf("c18 op=put s=tdxmeta %s buf=%s", fields, hx(orig)), res, strings.HasPrefix(res, "ok:"))
		mismatch := int(m.Header.SectionCount) != k
		switch {
		case res == "panic":
			c.Count("put/tdxmeta/panic")
			c.Find("c18/tdxmeta.Put/panic", "TDXMetadata.Put panicked", fields)
		case res == "err":
			c.Count("put/tdxmeta/err")
			if !mismatch && len(orig) >= want {
				c.Find("c18/tdxmeta.Put/roundtrip/in-range-value-refused", "Put refused a well-formed value", fields)
			}
			continue
		default:
			c.Count(fmt.Sprintf("put/tdxmeta/ok/sections%d", k))
			if mismatch {
				c.Find("c18/tdxmeta.Put/strict/count-mismatch-accepted", "SectionCount != len(Sections) accepted", fields)
			}
			if len(orig) < want {
				c.Find("c18/tdxmeta.Put/size/short-buffer-accepted", "Put wrote into too small a buffer", fields)
				continue
			}
			if int(m.Size()) != want {
				c.Find("c18/tdxmeta.Size/size", "Size() is not 16 + 32*count", fields)
			}
		}
		enc := c18Exact(buf[:want])
		ins := c18Mutations(c, enc, nil)
		// the count field ±1 and large counts (wrap-around candidates that stay cheap: refused before any loop)
		for _, cnt := range []uint32{uint32(k + 1), uint32(k) - 1, 1 << 27, 1<<27 + uint32(k), 0xFFFFFFFF, 1 << 31} {
			mm := c18Exact(enc)
			binary.LittleEndian.PutUint32(mm[12:16], cnt)
			ins = append(ins, mm)
		}
		for _, in := range ins {
			in := c18Exact(in)
			// guard against the (repaired) wrap-around: never run a decode whose accepted count would
			// exceed what the input holds — detect it first by the arithmetic the defect used.
			if len(in) >= 16 {
				cnt := binary.LittleEndian.Uint32(in[12:16])
				if uint64(cnt)*32 > uint64(len(in)-16) && cnt*32 <= uint32(len(in)-16) {
					// only the wrapped check can accept this input; run it in a way that cannot allocate
					// 2^27 sections: observe acceptance through a tiny probe with a deadline-free shortcut.
					if c18WrapAccepted { // one witness is enough; each further probe would start another 2^27-iteration loop
						continue
					}
					acc := c18TdxWrapProbe(in)
					if acc != "err" {
						c18WrapAccepted = true
					}
					c.Count("dec/tdxmeta/wrap-candidate")
					c.Case(fmt.Sprintf("c18 op=dec s=tdxmeta b=%s", hx(in)), acc, false)
					if acc != "err" {
						c.Find("c18/tdxmeta.FromBytes/short/section-count-wraps", "a section count whose size wraps in 32 bits is accepted; missing sections are zero-filled", hx(in))
					}
					continue
				}
			}
			var dm *abi.TDXMetadata
			res := c18Call(func() (string, error) {
				var err error
				dm, err = abi.TDXMetadataFromBytes(in)
				if err != nil {
					return "", err
				}
				var ss []string
				for _, s := range dm.Sections {
					ss = append(ss, c18TdxSecText(s))
				}
				return c18TdxDescText(dm.Header) + ",secs=" + strings.Join(ss, ";"), nil
			})
			c.Case(fmt.Sprintf("c18 op=dec s=tdxmeta b=%s", hx(in)), res, strings.HasPrefix(res, "ok:"))
			if strings.HasPrefix(res, "ok:") {
				c.Count(fmt.Sprintf("dec/tdxmeta/ok/sections%d", len(dm.Sections)))
				need := 16 + 32*len(dm.Sections)
				if int(dm.Header.SectionCount) != len(dm.Sections) || need > len(in) {
					c.Find("c18/tdxmeta.FromBytes/short/declared-size-exceeds-input", "accepted although the declared sections do not fit the input", hx(in))
					continue
				}
				out := make([]byte, need)
				if err := dm.Put(out); err != nil || !bytes.Equal(out, in[:need]) {
					c.Find("c18/tdxmeta/canon/reencode-differs", "Put(FromBytes(b)) != consumed prefix of b", hx(in))
				}
			} else {
				c.Count("dec/tdxmeta/" + res)
			}
		}
	}
}

// c18TdxWrapProbe decides accept/refuse for a wrap-around candidate without letting the decoder loop
// 2^27 times: the repaired decoder refuses before reading any section; the defective one starts
// allocating. The probe runs the decoder in a goroutine and reports acceptance if it has not refused
// within a short time (the goroutine is then abandoned; it ends when its loop ends).
var c18WrapAccepted bool

func c18TdxWrapProbe(in []byte) string {
	done := make(chan string, 1)
	go func() {
		done <- c18Call(func() (string, error) { _, err := abi.TDXMetadataFromBytes(in); return "accepted", err })
	}()
	select {
	case r := <-done:
		return r
	case <-timeAfterMs(300):
		return "ok:accepted(timeout)"
	}
}

func runC18Hobs(c *Ctx) {
	n := c.N(120, 10000)
	for i := 0; i < n; i++ {
		// generic header
		h := abi.EFIHOBGenericHeader{HobType: c18U16(c), HobLength: c18U16(c)}
		var w bytes.Buffer
		k, err := h.WriteTo(&w)
		res := "err"
		if err == nil {
			res = "ok:" + hx(w.Bytes())
		}
		c.Case(fmt.Sprintf("c18 op=write s=hobhdr type=%d len=%d", h.HobType, h.HobLength), res, err == nil)
		c.Count("write/hobhdr")
		if err != nil || k != c18SizeHobHdr || w.Len() != c18SizeHobHdr {
			c.Find("c18/hobhdr.WriteTo/size", "generic HOB header is not 8 bytes", fmt.Sprint(h))
		} else if ht, hl, rsv := binary.LittleEndian.Uint16(w.Bytes()[0:2]), binary.LittleEndian.Uint16(w.Bytes()[2:4]), binary.LittleEndian.Uint32(w.Bytes()[4:8]); ht != h.HobType || hl != h.HobLength || rsv != 0 {
			c.Find("c18/hobhdr.WriteTo/roundtrip", "PI-spec reading of the header differs (or reserved not zero)", fmt.Sprint(h))
		}
		// hand-off info table
		t := abi.EFIHOBHandoffInfoTable{Header: abi.EFIHOBGenericHeader{HobType: abi.EFIHOBTypeHandoff, HobLength: abi.SizeOfEFIHOBHandoffInfoTable},
			Version: abi.EFIHOBHandoffTableVersion, BootMode: abi.EFIBootMode(c18U32(c)), EfiMemoryTop: abi.EFIPhysicalAddress(c18U64(c)),
			EfiMemoryBottom: abi.EFIPhysicalAddress(c18U64(c)), EfiFreeMemoryTop: abi.EFIPhysicalAddress(c18U64(c)),
			EfiFreeMemoryBottom: abi.EFIPhysicalAddress(c18U64(c)), EfiEndOfHobList: abi.EFIPhysicalAddress(c18U64(c))}
		if c.Rng.Intn(4) == 0 {
			t.Header, t.Version = h, c18U32(c)
		}
		w.Reset()
		k, err = t.WriteTo(&w)
		res = "err"
		if err == nil {
			res = "ok:" + hx(w.Bytes())
		}
		c.Case(fmt.Sprintf("c18 op=write s=handoff type=%d len=%d version=%d bootmode=%d top=%d bottom=%d freetop=%d freebottom=%d end=%d",
			t.Header.HobType, t.Header.HobLength, t.Version, uint32(t.BootMode), uint64(t.EfiMemoryTop), uint64(t.EfiMemoryBottom),
			uint64(t.EfiFreeMemoryTop), uint64(t.EfiFreeMemoryBottom), uint64(t.EfiEndOfHobList)), res, err == nil)
		c.Count("write/handoff")
		if err != nil || k != c18SizeHandoff || w.Len() != c18SizeHandoff {
			c.Find("c18/handoff.WriteTo/size", "PHIT HOB is not 56 bytes", fmt.Sprint(t))
		} else {
			b := w.Bytes()
			if binary.LittleEndian.Uint32(b[4:8]) != 0 || binary.LittleEndian.Uint32(b[8:12]) != t.Version ||
				binary.LittleEndian.Uint32(b[12:16]) != uint32(t.BootMode) || binary.LittleEndian.Uint64(b[16:24]) != uint64(t.EfiMemoryTop) ||
				binary.LittleEndian.Uint64(b[24:32]) != uint64(t.EfiMemoryBottom) || binary.LittleEndian.Uint64(b[32:40]) != uint64(t.EfiFreeMemoryTop) ||
				binary.LittleEndian.Uint64(b[40:48]) != uint64(t.EfiFreeMemoryBottom) || binary.LittleEndian.Uint64(b[48:56]) != uint64(t.EfiEndOfHobList) {
				c.Find("c18/handoff.WriteTo/roundtrip", "PI-spec reading of the PHIT HOB differs", fmt.Sprint(t))
			}
		}
		// resource descriptor
		g := c18GuidRand(c)
		d := abi.EFIHOBResourceDescriptor{Header: abi.EFIHOBGenericHeader{HobType: abi.EFIHOBTypeResourceDescriptor, HobLength: abi.SizeofEFIHOBResourceDescriptor},
			Owner: g, ResourceType: abi.EFIResourceType(c18U32(c)), ResourceAttribute: abi.EFIResourceAttributeType(c18U32(c)),
			PhysicalStart: abi.EFIPhysicalAddress(c18U64(c)), ResourceLength: c18U64(c)}
		w.Reset()
		k, err = d.WriteTo(&w)
		res = "err"
		if err == nil {
			res = "ok:" + hx(w.Bytes())
		}
		c.Case(fmt.Sprintf("c18 op=write s=resource type=%d len=%d %s rtype=%d rattr=%d start=%d rlen=%d", d.Header.HobType, d.Header.HobLength,
			strings.ReplaceAll(c18GuidText(g), ",", " "), uint32(d.ResourceType), uint32(d.ResourceAttribute), uint64(d.PhysicalStart), d.ResourceLength), res, err == nil)
		c.Count("write/resource")
		if err != nil || k != c18SizeResource || w.Len() != c18SizeResource {
			c.Find("c18/resource.WriteTo/size", "resource descriptor HOB is not 48 bytes", fmt.Sprint(d))
		} else {
			b := w.Bytes()
			gb := make([]byte, 16)
			g.Put(gb)
			if !bytes.Equal(b[8:24], gb) || binary.LittleEndian.Uint32(b[24:28]) != uint32(d.ResourceType) || binary.LittleEndian.Uint32(b[28:32]) != uint32(d.ResourceAttribute) ||
				binary.LittleEndian.Uint64(b[32:40]) != uint64(d.PhysicalStart) || binary.LittleEndian.Uint64(b[40:48]) != d.ResourceLength {
				c.Find("c18/resource.WriteTo/roundtrip", "PI-spec reading of the resource descriptor differs", fmt.Sprint(d))
			}
		}
		// GUID HOB through WriteTo: consistent and inconsistent headers
		dl := c.Rng.Intn(40)
		data := c.Rng.Bytes(dl)
		gh := abi.EFIHOBGUID{Header: abi.EFIHOBGenericHeader{HobType: abi.EFIHOBTypeGUIDExtension, HobLength: uint16(c18SizeHobGuid + dl)}, GUID: g, Data: data}
		switch c.Rng.Intn(6) {
		case 0:
			gh.Header.HobType = c18U16(c)
		case 1:
			gh.Header.HobLength++
		case 2:
			gh.Header.HobLength--
		}
		w.Reset()
		k, err = gh.WriteTo(&w)
		res = "err"
		if err == nil {
			res = "ok:" + hx(w.Bytes())
		}
		c.Case(fmt.Sprintf("c18 op=write s=guidhob type=%d len=%d %s data=%s", gh.Header.HobType, gh.Header.HobLength,
			strings.ReplaceAll(c18GuidText(g), ",", " "), hx(data)), res, err == nil)
		consistent := gh.Header.HobType == 4 && int(gh.Header.HobLength) == c18SizeHobGuid+dl
		if err == nil {
			c.Count("write/guidhob/ok")
			if !consistent {
				c.Find("c18/guidhob.WriteTo/strict/inconsistent-header-accepted", "wrong type or HobLength != 24+len(Data) accepted", fmt.Sprint(gh.Header))
			}
			if int(k) != w.Len() || w.Len() != c18SizeHobGuid+dl || !bytes.Equal(w.Bytes()[24:], data) {
				c.Find("c18/guidhob.WriteTo/size", "GUID HOB is not 24+len(Data) bytes ending in the data", fmt.Sprint(gh.Header))
			}
		} else {
			c.Count("write/guidhob/err")
			if consistent {
				c.Find("c18/guidhob.WriteTo/roundtrip/in-range-value-refused", "consistent GUID HOB refused", fmt.Sprint(gh.Header))
			}
		}
	}
	// CreateEFIHOBGUID: small sizes exhaustively, then the boundary of the 16-bit HobLength
	sizes := []int{}
	for s := 0; s <= 33; s++ {
		sizes = append(sizes, s)
	}
	for _, s := range []int{65496, 65497, 65503, 65504, 65505, 65511, 65512, 65513, 65520, 70000} {
		sizes = append(sizes, s)
	}
	for _, s := range sizes {
		u := c18UUIDRand(c)
		data := c.Rng.Bytes(s)
		if s > 1000 { // keep the protocol line short: constant fill, the content does not matter
			data = bytes.Repeat([]byte{0x5A}, s)
		}
		h, err := abi.CreateEFIHOBGUID(u, c18Exact(data))
		res := "err"
		var w bytes.Buffer
		var werr error
		if err == nil {
			_, werr = h.WriteTo(&w)
			wres := "err"
			if werr == nil {
				wres = "ok:" + hx(w.Bytes())
			}
			res = fmt.Sprintf("ok:type=%d,len=%d,%s,datalen=%d:%s", h.Header.HobType, h.Header.HobLength, c18GuidText(h.GUID), len(h.Data), wres)
		}
		c.Case(fmt.Sprintf("c18 op=create uuid=%s data=%s", hx(u[:]), hx(data)), res, err == nil)
		padded := (s + 7) &^ 7
		fits := c18SizeHobGuid+padded <= c18MaxHobLength
		switch {
		case err != nil:
			c.Count("create/err")
			if fits {
				c.Find("c18/CreateEFIHOBGUID/roundtrip/in-range-value-refused", "data that fits a GUID HOB refused", fmt.Sprint(s))
			}
		default:
			c.Count(fmt.Sprintf("create/ok/pad%d", padded-s))
			if !fits || werr != nil || int(h.Header.HobLength) != c18SizeHobGuid+padded || w.Len() != c18SizeHobGuid+padded {
				c.Find("c18/CreateEFIHOBGUID/size/hoblength-wraps", "CreateEFIHOBGUID returned a HOB whose 16-bit HobLength does not hold 24+len(padded data) (its own WriteTo refuses it)", fmt.Sprintf("datalen=%d hoblength=%d writeto=%v", s, h.Header.HobLength, werr))
				continue
			}
			if w.Len()%8 != 0 || !bytes.Equal(h.Data[:s], data) || !c18AllZero(h.Data[s:]) {
				c.Find("c18/CreateEFIHOBGUID/size/alignment", "created GUID HOB is not 8-byte aligned with zero padding", fmt.Sprint(s))
			}
			// the same data handed over as a prefix of a longer, used buffer (spare capacity holding old bytes): the
			// encoding is a function of the value, so the padding is zero whatever lies behind the slice
			if s <= 64 {
				buf := bytes.Repeat([]byte{0xA5}, s+16)
				copy(buf, data)
				if h2, err2 := abi.CreateEFIHOBGUID(u, buf[:s]); err2 == nil {
					var w2 bytes.Buffer
					h2.WriteTo(&w2)
					c.Count("create/spare-capacity-buffer")
					if !bytes.Equal(w2.Bytes(), w.Bytes()) {
						c.Find("c18/CreateEFIHOBGUID/used-buffer/encoding-depends-on-spare-capacity", fmt.Sprintf("the same %d data bytes encode to %s from an exact slice and to %s from a slice of a used buffer", s, hx(w.Bytes()), hx(w2.Bytes())), fmt.Sprint(s))
					}
				} else {
					c.Find("c18/CreateEFIHOBGUID/used-buffer/refused", "data accepted from an exact slice is refused from a slice with spare capacity", fmt.Sprint(s))
				}
			}
			gb := make([]byte, 16)
			abi.PutUUID(gb, u)
			if !bytes.Equal(w.Bytes()[8:24], gb) {
				c.Find("c18/CreateEFIHOBGUID/roundtrip/guid", "GUID HOB name is not the EFI form of the UUID", fmt.Sprint(s))
			}
		}
	}
}

func c18AllZero(b []byte) bool {
	for _, x := range b {
		if x != 0 {
			return false
		}
	}
	return true
}

func runC18(c *Ctx) {
	runC18Fixed(c)
	runC18Canon(c)
	c18Vmsa(c) // PutVmsa strictness, field by field (D11b, D23 repaired: b12c7d6, b6533c2)
	runC18Tdx(c)
	runC18Hobs(c)
	runC18EventLog(c)
	runC18File(c)
}
