package main

// Stream c08tdx — TDX half of property C08: firmware analysis is total and resource-bounded.
//
// Every case runs the real entry point (tdx.MRTD, tdx.UnsignedTDX, ovmf.ExtractMaterialGuestPhysicalRegions*)
// under recover, a deadline and an allocation meter (runtime.MemStats.TotalAlloc delta).  The outcome
// class (ok / reject=<class> / panic) is compared with the Lean model, which computes it without
// materialising declared memory.  Direct oracle (implementation only): panic, deadline exceeded, or
// allocation above 64·|input| + 8 MiB.

import (
	"encoding/binary"
	"fmt"
	"runtime"
	"strings"
	"time"

	"github.com/google/gce-tcb-verifier/ovmf"
	"github.com/google/gce-tcb-verifier/tdx"
)

func init() {
	register("c08tdx", "non-trivial = the image has a GUID table with a TDX metadata offset block that passes the offset/GUID checks (the outcome is ok or a reject at or after descriptor parsing), or the case is an interval case with a non-empty bank", runC08Tdx)
}

const c08tDeadline = 20 * time.Second

type c08tRes struct {
	class    string // ok | reject=<cls> | panic
	panicMsg string
	frame    string
	alloc    uint64
	dur      time.Duration
	timeout  bool
}

// c08Exec runs f (which returns the error of the entry point) on its own goroutine.
func c08Exec(f func() error) c08tRes {
	done := make(chan c08tRes, 1)
	var before runtime.MemStats
	runtime.ReadMemStats(&before)
	t0 := time.Now()
	go func() {
		var r c08tRes
		var err error
		panicked, msg, stack := Guard(func() { err = f() })
		if panicked {
			r.class, r.panicMsg = "panic", msg
			for _, l := range strings.Split(stack, "\n") {
				if strings.Contains(l, "gce-tcb-verifier/") && strings.Contains(l, "(") && !strings.Contains(l, "verif-harness") {
					l = l[strings.Index(l, "gce-tcb-verifier/")+len("gce-tcb-verifier/"):]
					if i := strings.LastIndex(l, "("); i > 0 {
						l = l[:i]
					}
					r.frame = tok(l)
					break
				}
			}
		} else if err != nil {
			r.class = "reject=" + tdxErrClass(err)
		} else {
			r.class = "ok"
		}
		done <- r
	}()
	select {
	case r := <-done:
		r.dur = time.Since(t0)
		var after runtime.MemStats
		runtime.ReadMemStats(&after)
		r.alloc = after.TotalAlloc - before.TotalAlloc
		return r
	case <-time.After(c08tDeadline):
		return c08tRes{class: "timeout", timeout: true, dur: c08tDeadline}
	}
}

type c08State struct {
	c        *Ctx
	timeouts int
	maxDur   time.Duration
	maxAlloc uint64
	maxRatio float64
}

// c08Declared returns the memory that TDVF metadata found in the image declares for the sections that
// are not backed by the file (TD HOB, temporary memory).  The harness parses the image itself (scan
// for the metadata GUID, read count and sections as far as the file reaches), so that damaged and
// random images are accounted with what they declare.  The TD HOB is materialised in every mode
// (Grow + padding), zero-filled sections in the legacy modes; in every mode each declared page costs
// one 128-byte extension buffer that escapes to the heap.
func c08Declared(fw []byte) uint64 {
	g := efiGUID(guidTdxMeta)
	var best uint64
	for at := 0; at+32 <= len(fw); at++ {
		if string(fw[at:at+16]) != string(g) {
			continue
		}
		cnt := uint64(binary.LittleEndian.Uint32(fw[at+28:]))
		var d uint64
		for i := uint64(0); i < cnt && at+32+int(i+1)*32 <= len(fw); i++ {
			p := at + 32 + int(i)*32
			msz := binary.LittleEndian.Uint64(fw[p+16:])
			typ := binary.LittleEndian.Uint32(fw[p+24:])
			if msz <= 1<<32 && (typ == 2 || typ == 3) {
				d += msz
			}
		}
		if d > best {
			best = d
		}
	}
	return best
}

func (st *c08State) run(op, entry, class string, inputLen int, declared uint64, nontrivial bool, f func() error) {
	c := st.c
	if st.timeouts >= 3 {
		c.Count("skipped-after-3-timeouts")
		return
	}
	r := c08Exec(f)
	c.Count(entry + "/outcome-" + strings.SplitN(r.class, "=", 2)[0])
	if strings.HasPrefix(r.class, "reject=") {
		c.Count("reject-class/" + r.class[7:])
	}
	c.Count("input/" + class)
	if r.timeout {
		st.timeouts++
		c.Case(op, "timeout", true)
		c.Find("c08tdx/"+entry+"/deadline-exceeded/"+class, fmt.Sprintf("no result within %v", c08tDeadline), op)
		return
	}
	c.Case(op, r.class, nontrivial)
	if r.dur > st.maxDur {
		st.maxDur = r.dur
	}
	if r.alloc > st.maxAlloc {
		st.maxAlloc = r.alloc
	}
	if r.class == "panic" {
		c.Find("c08tdx/"+entry+"/panic/"+r.frame, "panic: "+r.panicMsg, op)
	}
	allow := 64*uint64(inputLen) + 8<<20
	if r.alloc > allow {
		// Allocation the metadata itself asks for (bounded by the 4 GiB cap of the repaired validation)
		// is the listed finding.  Worst case per declared byte: the TD HOB section in a legacy mode is
		// materialised three times (zeroExtend make, Buffer.Grow, padding make) and hashing it leaves
		// 17 escaped 128-byte extension buffers per 4 KiB page (0.53x): 3.53x.  Anything beyond four
		// times the declared memory is not explained by it.
		if declared > 0 && r.alloc <= allow+4*declared {
			c.Find("c08tdx/"+entry+"/allocation-unrelated-to-image-size/declared-section-memory-within-4GiB-cap",
				fmt.Sprintf("allocated %d bytes for an input of %d bytes (declared section memory %d)", r.alloc, inputLen, declared), op)
		} else {
			c.Find("c08tdx/"+entry+"/allocation-unrelated-to-image-size/"+class,
				fmt.Sprintf("allocated %d bytes for an input of %d bytes (declared section memory %d)", r.alloc, inputLen, declared), op)
		}
	}
}

func (st *c08State) mrtd(img []byte, secs []tdxSec, banks []ovmf.GuestPhysicalRegion, du, ma bool, class string, nontrivial bool) {
	fw := append(make([]byte, 0, len(img)), img...)
	op := fmt.Sprintf("c08tdx op=mrtd du=%s ma=%s banks=%s img=%s", b2s(du), b2s(ma), showGprs(banks), hx(fw))
	opts := &tdx.LaunchOptions{GuestRAMBanks: append([]ovmf.GuestPhysicalRegion(nil), banks...), DisableUnacceptedMemory: du, MeasureAllRegions: ma}
	st.run(op, "MRTD", class, len(fw)+16*len(banks), c08Declared(fw), nontrivial, func() error {
		_, err := tdx.MRTD(opts, fw)
		return err
	})
}

func (st *c08State) regions(img []byte, secs []tdxSec, banks []ovmf.GuestPhysicalRegion, mode int, class string, nontrivial bool) {
	fw := append(make([]byte, 0, len(img)), img...)
	op := fmt.Sprintf("c08tdx op=regions mode=%d banks=%s img=%s", mode, showGprs(banks), hx(fw))
	b := append([]ovmf.GuestPhysicalRegion(nil), banks...)
	st.run(op, "ExtractMaterialGuestPhysicalRegions", class, len(fw)+16*len(banks), c08Declared(fw), nontrivial, func() error {
		var err error
		switch mode {
		case 0:
			_, err = ovmf.ExtractMaterialGuestPhysicalRegions(fw)
		case 1:
			_, err = ovmf.ExtractMaterialGuestPhysicalRegionsTDHOBBug(fw, b)
		default:
			_, err = ovmf.ExtractMaterialGuestPhysicalRegionsNoUnacceptedMemory(fw, b)
		}
		return err
	})
}

func (st *c08State) unsigned(img []byte, secs []tdxSec, shapes []string, early bool, class string, nontrivial bool) {
	fw := append(make([]byte, 0, len(img)), img...)
	op := fmt.Sprintf("c08tdx op=unsigned early=%s shapes=%s img=%s", b2s(early), strings.Join(shapes, ","), hx(fw))
	runs := uint64(1 + 2*len(shapes))
	st.run(op, "UnsignedTDX", class, len(fw)*int(runs), runs*c08Declared(fw), nontrivial, func() error {
		_, err := tdx.UnsignedTDX(fw, &tdx.EndorsementRequest{Svn: 7, IncludeEarlyAccept: early, MachineShapes: shapes})
		return err
	})
}

// all three entry points on one image, modes chosen pseudo-randomly (every mode for `every`)
func (st *c08State) all(img []byte, secs []tdxSec, class string, nontrivial, every bool) {
	c := st.c
	banks, _ := c05GenBanks(c)
	modes := [][2]bool{{false, false}, {false, true}, {true, true}, {true, false}}
	if every {
		for _, m := range modes {
			st.mrtd(img, secs, banks, m[0], m[1], class, nontrivial)
		}
		for mode := 0; mode < 3; mode++ {
			st.regions(img, secs, banks, mode, class, nontrivial)
		}
	} else {
		m := modes[c.Rng.Intn(4)]
		st.mrtd(img, secs, banks, m[0], m[1], class, nontrivial)
		if c.Rng.Intn(3) == 0 {
			st.regions(img, secs, banks, c.Rng.Intn(3), class, nontrivial)
		}
	}
	if c.Rng.Intn(6) == 0 || every {
		var shapes []string
		for j, k := 0, c.Rng.Intn(3); j < k; j++ {
			shapes = append(shapes, c05Shapes[c.Rng.Intn(len(c05Shapes))])
		}
		if c.Rng.Intn(8) == 0 {
			shapes = append(shapes, "e2-medium")
		}
		st.unsigned(img, secs, shapes, c.Rng.Bool(), class, nontrivial)
	}
}

// c08Base is a small well-formed layout: BFV = whole file, TD HOB and two TempMem below 8 MiB + 64 KiB.
func c08Base(size int) []tdxSec {
	return []tdxSec{
		{Off: 0, DSize: uint32(size), Base: 1<<32 - uint64(size), MSize: uint64(size), Type: 0, Attr: 1},
		{Base: 0x809000, MSize: 0x2000, Type: 2},
		{Base: 0x80b000, MSize: 0x1000, Type: 3},
		{Base: 0x810000, MSize: 0x2000, Type: 3},
	}
}

func runC08Tdx(c *Ctx) {
	st := &c08State{c: c}
	const size = 0x1000
	v32 := []uint32{0, 1, 4095, 4096, 1 << 31, 1<<32 - 1}
	v64 := []uint64{0, 1, 4095, 4096, 1 << 31, 1 << 32, 1 << 63, 1<<64 - 1}

	// 1. the well-formed base image, every mode and entry point
	st.all(buildTdxImage(tdxImgSpec{Size: size, MetaAt: 0x40, Secs: c08Base(size)}), c08Base(size), "base", true, true)

	// 2. witnesses of the residual finding (declared memory within the 4 GiB cap is materialised) and of
	//    the time bound: few, explicit, moderate sizes
	{
		secs := append(c08Base(size), tdxSec{Base: 1 << 32, MSize: 1 << 27, Type: 3})
		img := buildTdxImage(tdxImgSpec{Size: size, MetaAt: 0x40, Secs: secs})
		st.mrtd(img, secs, nil, false, true, "witness-tempmem-128MiB-measure-all", true)
		secs = c08Base(size)
		secs[1].Base, secs[1].MSize = 1<<33, 1<<26
		img = buildTdxImage(tdxImgSpec{Size: size, MetaAt: 0x40, Secs: secs})
		st.regions(img, secs, nil, 0, "witness-tdhob-64MiB", true)
		secs = append(c08Base(size), tdxSec{Base: 1 << 32, MSize: 1 << 31, Type: 3})
		img = buildTdxImage(tdxImgSpec{Size: size, MetaAt: 0x40, Secs: secs})
		st.mrtd(img, secs, nil, false, false, "witness-tempmem-2GiB-not-measured", true)
	}

	// 2b. the cap on the total declared memory counts every section (firmware volumes included), at k-1, k,
	//     k+1 pages around the limit, with the closing section of each type that can be large; free of
	//     neighbours and in the mode that does not materialise it, so an image accepted beyond the cap shows
	//     as "ok" here (the model refuses it) rather than as an overlap error
	for _, d := range []int64{-0x1000, 0, 0x1000} {
		for _, order := range []int{0, 1} {
			secs := c08Base(size)
			var tot uint64
			for _, s := range secs {
				tot += s.MSize
			}
			big := tdxSec{Base: 1 << 33, MSize: uint64(int64(1<<32-tot) + d), Type: 3}
			if order == 0 {
				secs = append(secs, big)
			} else {
				// the large section declared first: the running total then meets the firmware volume last
				secs = append([]tdxSec{big}, secs...)
			}
			img := buildTdxImage(tdxImgSpec{Size: size, MetaAt: 0x40, Secs: secs})
			st.regions(img, secs, nil, 0, "total-limit", true)
		}
	}
	// many firmware volumes, each a view of the whole file at its own address: their sizes count towards
	// the cap like any other section, so the 32-bit sum of volume sizes cannot wrap back to the file size
	if c.Tier == "thorough" {
		const big = 0x80000
		n := (1<<32)/big + 1
		secs := make([]tdxSec, 0, n+1)
		for i := 0; i < n; i++ {
			secs = append(secs, tdxSec{Off: 0, DSize: big, Base: 1<<40 + uint64(i)*big, MSize: big, Type: map[bool]uint32{false: 0, true: 1}[i > 0], Attr: 1})
		}
		// a TD HOB section large enough for one resource descriptor per section
		secs = append(secs, tdxSec{Base: 0x800000, MSize: 0x80000, Type: 2})
		img := buildTdxImage(tdxImgSpec{Size: big, MetaAt: 0x40, Secs: secs})
		st.mrtd(img, secs, nil, false, false, "volume-size-sum-wraps", true)
	}

	// 3. metadata offset near 0 / len
	for _, off := range []uint32{0, 1, 8, 15, 16, 17, 31, 32, size - 0x40 - 16 - 1, size - 0x40 - 16, size - 0x40 - 16 + 1, size - 33, size - 17, size - 16, size - 15, size - 1, size, size + 1, 1 << 31, 1<<32 - 1} {
		img := buildTdxImage(tdxImgSpec{Size: size, MetaAt: 0x40, Secs: c08Base(size), OffsetV: u32p(off)})
		st.all(img, c08Base(size), "offset-boundary", off == size-0x40-16, false)
	}
	// metadata placed at the very start / right below the GUID table / partly inside it
	for _, at := range []int{0, 1, size - 0x20 - 18 - 22 - 16 - 16 - 4*32, size - 0x20 - 18 - 22 - 40, size - 0x20 - 16, size - 16} {
		img := buildTdxImage(tdxImgSpec{Size: size, MetaAt: at, Secs: c08Base(size)})
		st.all(img, c08Base(size), "metadata-position", true, false)
	}

	// 4. SectionCount / Length
	for _, cnt := range []uint32{0, 1, 3, 4, 5, 1 << 27, 1<<27 + 1, 1 << 31, 1<<32 - 1} {
		for _, fixLen := range []bool{false, true} {
			sp := tdxImgSpec{Size: size, MetaAt: 0x40, Secs: c08Base(size), Count: u32p(cnt)}
			if fixLen {
				sp.Length = u32p(16 + 32*cnt) // wraps like the code's own expectation
			}
			st.all(buildTdxImage(sp), c08Base(size), "section-count", true, false)
		}
	}
	// many zero-length sections (quadratic overlap check, still proportional to the image)
	for _, n := range []int{10, 100, c.N(400, 2000)} {
		secs := c08Base(size * 16)
		for i := 0; i < n; i++ {
			secs = append(secs, tdxSec{Base: uint64(i) * 0x1000, MSize: 0, Type: 3})
		}
		big := 0x1000 * ((n*32+0x200)/0x1000 + 2)
		secs[0] = tdxSec{Off: 0, DSize: uint32(big), Base: 1<<32 - uint64(big), MSize: uint64(big), Type: 0, Attr: 0}
		img := buildTdxImage(tdxImgSpec{Size: big, MetaAt: 0x40, Secs: secs})
		st.mrtd(img, secs, nil, false, false, "many-sections", true)
		st.regions(img, secs, nil, 1, "many-sections", true)
	}

	// 5. one field of one section at a boundary value, all section types
	for si := 0; si < 4; si++ {
		for field := 0; field < 6; field++ {
			var vals []uint64
			switch field {
			case 0, 1:
				for _, v := range v32 {
					vals = append(vals, uint64(v))
				}
			case 2, 3:
				vals = v64
			case 4:
				vals = []uint64{0, 1, 2, 3, 4, 5, 1<<32 - 1}
			case 5:
				vals = []uint64{0, 1, 2, 3, 1<<32 - 1}
			}
			for _, v := range vals {
				secs := c08Base(size)
				s := &secs[si]
				switch field {
				case 0:
					s.Off = uint32(v)
				case 1:
					s.DSize = uint32(v)
				case 2:
					s.Base = v
				case 3:
					s.MSize = v
					if v >= 1<<28 && v <= 1<<32 {
						// within the cap: keep it cheap by placing it over the firmware volume, which is
						// declared first, so that it is refused as overlapping before anything is allocated
						// (the accepted, materialised case is the explicit witness above)
						s.Base = 1<<32 - size
					} else if v > 1<<32 {
						s.Base = 1 << 33 // would be accepted without the cap: aligned, free of neighbours
					}
				case 4:
					s.Type = uint32(v)
				case 5:
					s.Attr = uint32(v)
				}
				img := buildTdxImage(tdxImgSpec{Size: size, MetaAt: 0x40, Secs: secs})
				st.all(img, secs, "field-boundary", true, false)
			}
		}
	}
	// two fields at once (memory base x memory size) on the TD HOB and a TempMem
	for _, si := range []int{1, 2} {
		for _, b := range v64 {
			for _, m := range v64 {
				if m >= 1<<28 && m <= 1<<32 && (b == 1<<32 || b == 1<<63 || b == 0) && b%4096 == 0 && si == 2 && m%4096 == 0 {
					// accepted and free of neighbours: only in the mode that does not materialise it
					secs := c08Base(size)
					secs[si].Base, secs[si].MSize = b, m
					if b == 0 || (b < 1<<32 && b+m > 0x800000) {
						continue
					}
					img := buildTdxImage(tdxImgSpec{Size: size, MetaAt: 0x40, Secs: secs})
					st.regions(img, secs, nil, 0, "base-x-size-large", true)
					continue
				}
				if m >= 1<<28 && m <= 1<<32 {
					continue
				}
				secs := c08Base(size)
				secs[si].Base, secs[si].MSize = b, m
				img := buildTdxImage(tdxImgSpec{Size: size, MetaAt: 0x40, Secs: secs})
				st.all(img, secs, "base-x-size", true, false)
			}
		}
	}

	// 6. GUID table damage (the walk itself belongs to the other half; here: what reaches TDX code)
	for _, bs := range []uint16{0, 1, 17, 18, 21, 22, 23, 40, 4000, 0xffff} {
		st.all(buildTdxImage(tdxImgSpec{Size: size, MetaAt: 0x40, Secs: c08Base(size), BlkSize: u16p(bs)}), c08Base(size), "block-size", false, false)
	}
	for _, ts := range []uint16{0, 17, 18, 39, 40, 41, 4000, size - 0x20, size - 0x20 + 1, 0xffff} {
		st.all(buildTdxImage(tdxImgSpec{Size: size, MetaAt: 0x40, Secs: c08Base(size), TblSize: u16p(ts)}), c08Base(size), "table-size", false, false)
	}
	st.all(buildTdxImage(tdxImgSpec{Size: size, MetaAt: 0x40, Secs: c08Base(size), NoBlock: true}), c08Base(size), "no-block", false, false)
	st.all(buildTdxImage(tdxImgSpec{Size: size, MetaAt: 0x40, Secs: c08Base(size), NoFooter: true}), c08Base(size), "no-footer", false, false)

	// 7. truncations of a valid image (prefix kept / suffix kept) and tiny inputs
	valid := buildTdxImage(tdxImgSpec{Size: size, MetaAt: 0x40, Secs: c08Base(size)})
	for _, n := range []int{0, 1, 17, 18, 31, 32, 49, 50, 51, 71, 72, 73, 100, 0x40, 0x50, 0x60, 0x100, size - 1} {
		st.all(valid[:n], nil, "truncated-prefix", false, false)
		st.all(valid[size-n:], nil, "truncated-suffix", n > 0x1000-0x40, false)
	}

	// 8. random: structure-aware images of the C05 generator (valid + one defect), bit flips, random bytes
	n := c.N(500, 12000)
	for i := 0; i < n; i++ {
		img := c05GenImage(c)
		heavy := false
		for _, s := range img.secs {
			if s.MSize >= 1<<28 && s.MSize <= 1<<32 {
				heavy = true
			}
		}
		if heavy {
			continue
		}
		fw := img.fw
		class := "generated-" + map[bool]string{true: "valid", false: "defect"}[img.valid]
		if c.Rng.Intn(3) == 0 {
			fw = append([]byte(nil), fw...)
			for j, k := 0, 1+c.Rng.Intn(4); j < k; j++ {
				// flips concentrated in the metadata and the GUID table
				pos := c.Rng.Intn(len(fw))
				if c.Rng.Bool() && len(fw) > 0x200 {
					pos = 0x40 + c.Rng.Intn(0x1c0)
				} else if c.Rng.Bool() && len(fw) > 0x60 {
					pos = len(fw) - 0x60 + c.Rng.Intn(0x40)
				}
				fw[pos] ^= 1 << uint(c.Rng.Intn(8))
			}
			class = "bit-flips"
			// a flipped size field may declare up to 4 GiB; such images are accounted with what they declare
		}
		st.all(fw, img.secs, class, true, false)
	}
	n = c.N(60, 2000)
	for i := 0; i < n; i++ {
		fw := c.Rng.Bytes(c.Rng.Intn(600))
		if c.Rng.Bool() && len(fw) >= 50 { // give it a footer so that the walk is entered
			copy(fw[len(fw)-50:], []byte{byte(18 + c.Rng.Intn(80)), 0})
			copy(fw[len(fw)-48:], efiGUID(guidFooter))
		}
		st.all(fw, nil, "random-bytes", false, false)
	}

	// 9. interval loop on hostile bank lists (termination / output size)
	edge := []uint64{0, 1, 0x1000, 1 << 32, 1 << 63, ^uint64(0) - 0x1000, ^uint64(0) - 1, ^uint64(0)}
	n = c.N(1500, 40000)
	for i := 0; i < n; i++ {
		var ps, rs []ovmf.GuestPhysicalRegion
		for j, k := 0, c.Rng.Intn(5); j < k; j++ {
			ps = append(ps, gpr(edge[c.Rng.Intn(len(edge))]+uint64(c.Rng.Intn(3))-1, edge[c.Rng.Intn(len(edge))]+uint64(c.Rng.Intn(3))-1))
		}
		for j, k := 0, c.Rng.Intn(5); j < k; j++ {
			rs = append(rs, gpr(edge[c.Rng.Intn(len(edge))]+uint64(c.Rng.Intn(3))-1, edge[c.Rng.Intn(len(edge))]+uint64(c.Rng.Intn(3))-1))
		}
		op := fmt.Sprintf("c08tdx op=unacc priv=%s ram=%s", showGprs(ps), showGprs(rs))
		var out []ovmf.GuestPhysicalRegion
		r := c08Exec(func() error { out = ovmf.UnacceptedMemRanges(ps, rs); return nil })
		nonEmpty := false
		for _, b := range rs {
			nonEmpty = nonEmpty || b.Length != 0
		}
		switch {
		case r.timeout:
			c.Case(op, "timeout", true)
			c.Find("c08tdx/unacceptedMemRanges/deadline-exceeded/hostile-banks", "no result", op)
		case r.class == "panic":
			c.Case(op, "panic", true)
			c.Find("c08tdx/unacceptedMemRanges/panic/"+r.frame, r.panicMsg, op)
		default:
			c.Case(op, fmt.Sprintf("ok n=%d", len(out)), nonEmpty)
			if len(out) > 2*(len(ps)+len(rs)) { // C08_ticks_bound_unaccepted
				c.Find("c08tdx/unacceptedMemRanges/output-longer-than-bound", fmt.Sprintf("%d > 2*(%d + %d)", len(out), len(ps), len(rs)), op)
			}
		}
		c.Count("input/hostile-banks")
	}

	c.Extra["max_case_wall_ms"] = st.maxDur.Milliseconds()
	c.Extra["max_case_alloc_bytes"] = st.maxAlloc
	c.Extra["deadline_s"] = int(c08tDeadline.Seconds())
	c.Extra["alloc_allowance"] = "64*|input| + 8 MiB"
}
