package main

// Stream c12cli — C12 at the command line.
//
// Histories of 1–5 REAL command lines of `bootstrap`, `rotate`, `wipeout` run in-process on scratch directories:
//   stack 0  the shipped non-production root command (testing/nonprod, through the hook VerifNewRootCmd): localkm x localca
//   stack 1-4 cmd.MakeApp with the same components composed by the harness, with probes before and after them
//            (localkm|memkm x localca|memca), so that the phase a command reached and the context handed to the library
//            are OBSERVED (not read off error texts)
// After every command line the key directory / signer and the certificate store are read back exactly as stream c12
// does (fresh authority object, crypto/x509, Signer.Sign / PublicKey probes).  Every history prefix is one protocol
// line for the Lean model of the command-line wiring (Model/KeyCli.lean: cmdOf, then libStep = KeyHistory.step).
// Compared: phase, refusal class, the context handed to the library (names, serials, time, overwrite / keep_going,
// wipeout selection, store, key directory), success, and the whole store state.  The direct oracle states the
// command-line clauses and the clauses of C12 on the implementation alone.

import (
	"bytes"
	"context"
	"crypto/sha256"
	"crypto/x509"
	"fmt"
	"io"
	"math/big"
	"os"
	"path/filepath"
	"regexp"
	"runtime"
	"sort"
	"strings"
	"sync"
	"time"

	"github.com/google/gce-tcb-verifier/cmd"
	"github.com/google/gce-tcb-verifier/cmd/output"
	"github.com/google/gce-tcb-verifier/keys"
	"github.com/google/gce-tcb-verifier/rotate"
	"github.com/google/gce-tcb-verifier/sign/gcsca"
	"github.com/google/gce-tcb-verifier/sign/memca"
	"github.com/google/gce-tcb-verifier/sign/nonprod"
	"github.com/google/gce-tcb-verifier/storage/local"
	nonprodcli "github.com/google/gce-tcb-verifier/testing/nonprod"
	"github.com/google/gce-tcb-verifier/testing/nonprod/localca"
	"github.com/google/gce-tcb-verifier/testing/nonprod/localkm"
	"github.com/google/gce-tcb-verifier/testing/nonprod/memkm"
	"github.com/spf13/cobra"
)

func init() {
	register("c12cli", "histories of 1-5 real command lines of bootstrap / rotate / wipeout on the shipped nonprod root command (localkm x localca) and on "+
		"cmd.MakeApp over localkm|memkm x localca|memca with phase probes, on scratch directories; every history prefix through the Lean model of the "+
		"command-line wiring (flags, PersistentPreRunE, InitContext, RunE -> the context handed to rotate.Bootstrap / Key / Wipeout -> KeyHistory.step) and "+
		"compared: phase, refusal class, context, success, every recorded certificate field by field, which names can sign. Flags: overwrite x keep_going x "+
		"force exhaustive; serial texts 0, 1, -1, 2^63, 2^64, 2^128, signs, leading zeros, blanks, underscores, hex, non-ASCII digits, empty, repeated; "+
		"timestamps none / zero time / offsets / fractions / repeated / malformed / outside ASN.1; common names empty, with '/', blanks, non-ASCII; wipeout "+
		"selectors none, ca, keys, unknown, several; key_dir missing / a file / empty; empty bucket / cert_dir / root_path (derived for bootstrap). Plus "+
		"big.Int.SetString(text, 10) against the model's parser. Non-trivial: the prefix has a successful command or the last line was refused before the library.", runC12Cli)
}

// ---------------------------------------------------------------------------------------------
// command lines

type ccLine struct {
	sub           byte // 'b', 'r', 'w'
	ow, kg, force bool
	rootCn        *string // nil = flag not given
	signCn        *string
	rootSer       []string // every occurrence
	signSer       []string
	override      []string
	ts            []string
	args          []string
	kd            byte    // key_dir: 'd' the history's directory, 'f' a regular file, 'n' a missing path, 'e' the empty string
	bucket        *string // nil = the history's
	certDir       *string
	rootPath      *string // nil = the history's, unless omitted
	rootPathOmit  bool    // --root_path not given at all
	style         int     // spelling of the argument vector
	tag           string
	// respell, when not nil, rewrites the argument vector argv() builds (stream argvkey: other spellings, orders and
	// repetitions of the same command line; the fields above keep saying what it MEANS)
	respell func([]string) []string
}

type ccSite struct{ bucket, certDir, rootPath string }

const (
	ccDefRootCn = "GCE-cc-tcb-root"
	ccDefSignCn = "GCE-uefi-signer"
)

func (l ccLine) rootCnV() string {
	if l.rootCn != nil {
		return *l.rootCn
	}
	return ccDefRootCn
}

func (l ccLine) signCnV() string {
	if l.signCn != nil {
		return *l.signCn
	}
	return ccDefSignCn
}

func (l ccLine) subName() string {
	switch l.sub {
	case 'b':
		return "bootstrap"
	case 'r':
		return "rotate"
	}
	return "wipeout"
}

func ccStr(s string) *string { return &s }

// ---------------------------------------------------------------------------------------------
// stacks

type ccStack struct {
	kind      int // 0 shipped root command; 1 localkm+localca; 2 memkm+localca; 3 localkm+memca; 4 memkm+memca
	dir       string
	seed      uint64
	nth       uint64
	memSigner *nonprod.Signer
	memCA     *memca.CertificateAuthority
	site      ccSite
}

var ccStackNames = []string{"shipped(localkm+localca)", "app(localkm+localca)", "app(memkm+localca)", "app(localkm+memca)", "app(memkm+memca)"}

func (s *ccStack) localkm() bool { return s.kind == 0 || s.kind == 1 || s.kind == 3 }
func (s *ccStack) localca() bool { return s.kind == 0 || s.kind == 1 || s.kind == 2 }
func (s *ccStack) instr() bool   { return s.kind != 0 }
func (s *ccStack) caName() string {
	if s.localca() {
		return "gcsca"
	}
	return "memca"
}
func (s *ccStack) kmName() string {
	if s.localkm() {
		return "localkm"
	}
	return "memkm"
}

func (s *ccStack) keyDirOf(l ccLine) string {
	switch l.kd {
	case 'f':
		return filepath.Join(s.dir, "afile")
	case 'n':
		return filepath.Join(s.dir, "missing")
	case 'e':
		return ""
	}
	return filepath.Join(s.dir, "keys")
}

func (s *ccStack) canon(p string) string { return strings.ReplaceAll(p, s.dir, "$D") }

func (s *ccStack) siteOf(l ccLine) (bucket, certDir, rootPath string) {
	bucket, certDir, rootPath = s.site.bucket, s.site.certDir, s.site.rootPath
	if l.bucket != nil {
		bucket = *l.bucket
	}
	if l.certDir != nil {
		certDir = *l.certDir
	}
	if l.rootPath != nil {
		rootPath = *l.rootPath
	}
	if l.rootPathOmit {
		rootPath = ""
	}
	return
}

func (s *ccStack) argv(l ccLine) []string {
	a := []string{l.subName()}
	val := func(name, v string, i int) {
		if (l.style+i)%2 == 0 {
			a = append(a, "--"+name, v)
		} else {
			a = append(a, "--"+name+"="+v)
		}
	}
	if s.localkm() {
		val("key_dir", s.keyDirOf(l), 0)
	}
	if s.localca() {
		b, c, r := s.siteOf(l)
		val("bucket_root", filepath.Join(s.dir, "store"), 1)
		val("bucket", b, 0)
		val("cert_dir", c, 1)
		if !l.rootPathOmit {
			val("root_path", r, 0)
		}
	}
	a = append(a, "--quiet")
	if l.sub != 'w' {
		if l.rootCn != nil && l.sub == 'b' {
			val("root_key_cn", *l.rootCn, 1)
		}
		if l.signCn != nil {
			val("signing_key_cn", *l.signCn, 0)
		}
		for i, v := range l.ts {
			val("timestamp", v, i)
		}
	}
	if l.sub == 'b' {
		for i, v := range l.rootSer {
			val("root_key_serial", v, i)
		}
		for i, v := range l.signSer {
			val("initial_signing_key_serial", v, i+1)
		}
	}
	if l.sub == 'r' {
		for i, v := range l.override {
			val("rotated_key_serial_override", v, i)
		}
	}
	boolFlag := func(name string, v bool, i int) {
		switch {
		case v && (l.style+i)%3 == 0:
			a = append(a, "--"+name+"=true")
		case v:
			a = append(a, "--"+name)
		case (l.style+i)%4 == 0:
			a = append(a, "--"+name+"=false")
		}
	}
	boolFlag("overwrite", l.ow, 0)
	boolFlag("keep_going", l.kg, 1)
	if l.sub == 'w' {
		boolFlag("force_prod_wipeout", l.force, 2)
	}
	a = append(a, l.args...)
	if l.respell != nil {
		a = l.respell(a)
	}
	return a
}

func ccHexOcc(l []string) string {
	var p []string
	for _, s := range l {
		if s == "" {
			p = append(p, "~")
		} else {
			p = append(p, hx([]byte(s)))
		}
	}
	return strings.Join(p, ",")
}

func ccFakeNow(k int) (int64, int) { return 1790000000 + 1000*int64(k), 250000000 }

// enc renders the k-th command line of a history for the model.
func (s *ccStack) enc(l ccLine, k int) string {
	h := func(x string) string { return hx([]byte(x)) }
	var tt []string
	seen := map[string]bool{}
	for _, t := range l.ts {
		if t == "" || seen[t] {
			continue
		}
		seen[t] = true
		v, err := time.Parse(time.RFC3339, t)
		if err != nil {
			tt = append(tt, h(t)+"@E")
		} else {
			tt = append(tt, fmt.Sprintf("%s@%d.%d", h(t), v.Unix(), v.Nanosecond()))
		}
	}
	kst := "n"
	switch l.kd {
	case 'd':
		kst = "d"
	case 'f':
		kst = "f"
	}
	b, c, r := s.siteOf(l)
	fs, fn := ccFakeNow(k)
	return strings.Join([]string{string(l.sub), b2s(l.ow) + b2s(l.kg) + b2s(l.force), h(l.rootCnV()), h(l.signCnV()), ccHexOcc(l.rootSer), ccHexOcc(l.signSer),
		ccHexOcc(l.override), ccHexOcc(l.ts), ccHexOcc(l.args), kst, h(s.canon(s.keyDirOf(l))), h(s.canon(filepath.Join(s.dir, "store"))), h(b), h(c), h(r),
		fmt.Sprintf("%d.%d", fs, fn), strings.Join(tt, ",")}, "|")
}

func (s *ccStack) opLine(h []ccLine, seq bool) string {
	var parts []string
	for k, l := range h {
		parts = append(parts, s.enc(l, k))
	}
	return fmt.Sprintf("c12cli op=hist ca=%s km=%s seq=%s instr=%s lines=%s", s.caName(), s.kmName(), b2s(seq), b2s(s.instr()), strings.Join(parts, ";"))
}

// ---------------------------------------------------------------------------------------------
// one run

type ccRun struct {
	err                          error
	panicked                     bool
	panicMsg, stack              string
	gpre, g1pre, apre            bool
	ginit, g1init, ainit         bool
	nowZeroAtAppPre              bool
	ctx                          context.Context // the sub-command's context after the run
	owAtInit, kgAtInit           bool
	mgrType, caType              string
	bucketRoot, bucket, cd, root string
	keyDir                       string
	before, after                time.Time
}

func ccFind(root *cobra.Command, name string) *cobra.Command {
	for _, c := range root.Commands() {
		if c.Name() == name {
			return c
		}
	}
	return nil
}

func (s *ccStack) newLocalKM() *localkm.T {
	s.nth++
	return &localkm.T{T: memkm.T{Signer: &nonprod.Signer{Rand: c12Rand(s.seed*4096 + s.nth)}}}
}

func (s *ccStack) run(l ccLine) (r ccRun) {
	var root *cobra.Command
	var lkm *localkm.T
	var lca *localca.T
	name := l.subName()
	if s.kind == 0 {
		root = nonprodcli.VerifNewRootCmd()
		sub := ccFind(root, name)
		origPre, origRun := sub.PersistentPreRunE, sub.RunE
		sub.PersistentPreRunE = func(c *cobra.Command, a []string) error {
			r.gpre = true
			err := origPre(c, a)
			r.apre = err == nil
			return err
		}
		sub.RunE = func(c *cobra.Command, a []string) error {
			r.ginit = true
			return origRun(c, a)
		}
	} else {
		var kmc, cac cmd.CommandComponent
		if s.localkm() {
			lkm = s.newLocalKM()
			kmc = lkm
		} else {
			kmc = &memkm.T{Signer: s.memSigner}
		}
		if s.localca() {
			lca = &localca.T{}
			cac = lca
		} else {
			cac = s.memCA
		}
		p0 := &cmd.PartialComponent{
			FPersistentPreRunE: func(*cobra.Command, []string) error { r.gpre = true; return nil },
			FInitContext:       func(ctx context.Context) (context.Context, error) { r.ginit = true; return ctx, nil }}
		p1 := &cmd.PartialComponent{
			FPersistentPreRunE: func(*cobra.Command, []string) error { r.g1pre = true; return nil },
			FInitContext:       func(ctx context.Context) (context.Context, error) { r.g1init = true; return ctx, nil }}
		capt := &cmd.PartialComponent{
			FPersistentPreRunE: func(c *cobra.Command, _ []string) error {
				r.apre = true
				if bc, err := rotate.FromBootstrapContext(c.Context()); err == nil && bc.Now.IsZero() {
					r.nowZeroAtAppPre = true
				}
				if skc, err := rotate.FromSigningKeyContext(c.Context()); err == nil && skc.Now.IsZero() {
					r.nowZeroAtAppPre = true
				}
				return nil
			},
			FInitContext: func(ctx context.Context) (context.Context, error) {
				r.ainit = true
				r.owAtInit, r.kgAtInit = output.AllowOverwrite(ctx), output.AllowRecoverableError(ctx)
				if kc, err := keys.FromContext(ctx); err == nil {
					r.mgrType, r.caType = fmt.Sprintf("%T", kc.Manager), fmt.Sprintf("%T", kc.CA)
				}
				return ctx, nil
			}}
		app := &cmd.AppComponents{Global: cmd.Compose(p0, kmc, cac, p1), Bootstrap: capt, Rotate: capt, Wipeout: capt,
			SignatureRandom: c12Rand(s.seed + 1), Storage: &local.StorageClient{}}
		root = cmd.MakeApp(context.Background(), app)
	}
	sub := ccFind(root, name)
	root.SetArgs(s.argv(l))
	root.SetOut(io.Discard)
	root.SetErr(io.Discard)
	root.SilenceErrors = true
	root.SilenceUsage = true
	r.before = time.Now()
	r.panicked, r.panicMsg, r.stack = Guard(func() { r.err = root.Execute() })
	r.after = time.Now()
	r.ctx = sub.Context()
	if s.kind == 0 {
		get := func(n string) string {
			if f := sub.Flag(n); f != nil {
				return f.Value.String()
			}
			return "?"
		}
		r.bucketRoot, r.bucket, r.cd, r.root, r.keyDir = get("bucket_root"), get("bucket"), get("cert_dir"), get("root_path"), get("key_dir")
		if o, err := output.FromContext(r.ctx); err == nil {
			r.owAtInit, r.kgAtInit = o.Overwrite, o.KeepGoing
		}
	} else {
		if lca != nil && lca.CA != nil {
			r.bucket, r.cd, r.root = lca.CA.PrivateBucket, lca.CA.SigningCertDirInGCS, lca.CA.RootPath
			if st, ok := lca.CA.Storage.(*local.StorageClient); ok {
				r.bucketRoot = st.Root
			}
		}
		if lkm != nil {
			r.keyDir = lkm.KeyDir
		}
	}
	return
}

func (s *ccStack) phase(r ccRun) (string, string) {
	if r.panicked {
		return "panic", "-"
	}
	if r.err == nil {
		if s.instr() {
			return "run", "-"
		}
		return "exec", "-"
	}
	txt := r.err.Error()
	switch {
	case !r.gpre:
		return "parse", "-"
	case !r.apre:
		cls := "other"
		switch {
		case strings.Contains(txt, "failed to stat"):
			cls = "key_dir-stat"
		case strings.Contains(txt, "is not a directory"):
			cls = "key_dir-not-a-directory"
		case strings.Contains(txt, "must be a non-empty string"):
			cls = "nonempty-" + b2s(strings.Contains(txt, "--bucket must")) + b2s(strings.Contains(txt, "--root_path must")) + b2s(strings.Contains(txt, "--cert_dir must"))
		}
		return "prerun", cls
	case !s.instr():
		return "exec", "-"
	case !r.ainit:
		if r.g1init {
			return "init", "next-serial" // app.Global's InitContext passed, the core command's did not
		}
		return "init", "check-certs"
	}
	return "run", "-"
}

func ccName(s string) string {
	if s == "" {
		return "-"
	}
	return tok(s)
}

func (s *ccStack) showNow(t time.Time, r ccRun, k int) string {
	if !t.Before(r.before) && !t.After(r.after) {
		fs, fn := ccFakeNow(k)
		return fmt.Sprintf("%d.%d", fs, fn)
	}
	return fmt.Sprintf("%d.%d", t.Unix(), t.Nanosecond())
}

// ctxLine: the context the library was handed, read from the command's context after the run.
func (s *ccStack) ctxLine(l ccLine, r ccRun, k int) string {
	fl := b2s(r.owAtInit) + b2s(r.kgAtInit)
	site := "-"
	if s.localca() {
		site = ccName(s.canon(r.bucketRoot)) + "+" + ccName(r.bucket) + "+" + ccName(r.cd) + "+" + ccName(r.root)
	}
	kd := "-"
	if s.localkm() {
		kd = ccName(s.canon(r.keyDir))
	}
	c := "?"
	big := func(b *big.Int) string {
		if b == nil {
			return "nil"
		}
		return b.String()
	}
	switch l.sub {
	case 'b':
		if bc, err := rotate.FromBootstrapContext(r.ctx); err == nil {
			c = fmt.Sprintf("b/%s/%s/%s/%s/%s/%s", fl, ccName(bc.RootKeyCommonName), ccName(bc.SigningKeyCommonName), big(bc.RootKeySerial), big(bc.SigningKeySerial), s.showNow(bc.Now, r, k))
		}
	case 'r':
		if skc, err := rotate.FromSigningKeyContext(r.ctx); err == nil {
			c = fmt.Sprintf("r/%s/%s/%s/%s", fl, ccName(skc.SigningKeyCommonName), big(skc.SigningKeySerial), s.showNow(skc.Now, r, k))
		}
	default:
		if wc, err := rotate.FromWipeoutContext(r.ctx); err == nil {
			c = fmt.Sprintf("w/%s/%s%s%s", fl, b2s(wc.Force), b2s(wc.CA), b2s(wc.Keys))
		}
	}
	return c + "/" + site + "/" + kd
}

// ---------------------------------------------------------------------------------------------
// observation (as stream c12, with the store of this history and wall-clock certificate times made canonical)

func (s *ccStack) gcsca() *gcsca.CertificateAuthority {
	return &gcsca.CertificateAuthority{RootPath: s.site.rootPath, PrivateBucket: s.site.bucket, SigningCertDirInGCS: s.site.certDir,
		Storage: &local.StorageClient{Root: filepath.Join(s.dir, "store")}}
}

func (s *ccStack) observe(cand map[string]bool) *c12Obs {
	o := &c12Obs{objects: map[string][]byte{}}
	ctx := context.Background()
	if s.localca() {
		bucket := filepath.Join(s.dir, "store", s.site.bucket)
		filepath.Walk(bucket, func(p string, info os.FileInfo, err error) error {
			if err == nil && !info.IsDir() {
				rel, _ := filepath.Rel(bucket, p)
				if rel != gcsca.ManifestObjectName {
					b, _ := os.ReadFile(p)
					o.objects[filepath.ToSlash(rel)] = b
				}
			}
			return nil
		})
		c12ReadCA(ctx, s.gcsca(), c12ManifestNames(ctx, &local.StorageClient{Root: filepath.Join(s.dir, "store")}), o)
	} else {
		var names []string
		for n, c := range s.memCA.Certs {
			names = append(names, n)
			if c != nil {
				o.objects["Certs/"+n] = append([]byte{}, c.Raw...)
			}
		}
		c12ReadCA(ctx, s.memCA, names, o)
	}
	signer := s.memSigner
	if s.localkm() {
		km := s.newLocalKM()
		km.KeyDir = filepath.Join(s.dir, "keys")
		if err := km.Init(ctx); err != nil {
			o.incons = append(o.incons, "key-dir-unreadable")
			return o
		}
		signer = km.Signer
	}
	for n := range signer.Keys {
		cand[n] = true
	}
	c12Probe(ctx, signer, cand, o)
	return o
}

type ccCanon map[[32]byte]int64 // certificate (DER) created with the wall clock -> canonical creation second

func ccCertLine(o *c12Obs, name string, c *x509.Certificate, canon ccCanon) string {
	if c == nil {
		return "-"
	}
	line := c12CertLine(o, name, c)
	f := strings.Split(line, "/")
	// fields: certSerial subjSerial cn issuerCn issuerSerial isCA ku alg notBefore notAfter self vr ir km — the names may contain '/'
	n := len(f)
	if fake, ok := canon[sha256.Sum256(c.Raw)]; ok && n >= 14 {
		f[n-6] = fmt.Sprint(fake)
		f[n-5] = fmt.Sprint(fake + c.NotAfter.Unix() - c.NotBefore.Unix())
	}
	return strings.Join(f, "/")
}

func ccObsLine(o *c12Obs, ok bool, canon ccCanon) string {
	root := "-"
	if o.root != nil {
		root = ccCertLine(o, o.pr, o.root, canon)
	}
	var ents []string
	for _, n := range o.names {
		ents = append(ents, c12Name(n)+"@"+ccCertLine(o, n, o.certs[n], canon))
	}
	sort.Strings(ents)
	var live []string
	for _, n := range o.live {
		live = append(live, c12Name(n))
	}
	sort.Strings(live)
	return fmt.Sprintf("ok=%s pr=%s ps=%s root=%s ents=%s live=%s", b2s(ok), c12Name(o.pr), c12Name(o.ps), root, strings.Join(ents, ","), strings.Join(live, ","))
}

// snapshot of every file below the scratch directory (the refusal clause: nothing changed)
func (s *ccStack) files() map[string]string {
	m := map[string]string{}
	filepath.Walk(s.dir, func(p string, info os.FileInfo, err error) error {
		if err == nil && !info.IsDir() {
			b, _ := os.ReadFile(p)
			rel, _ := filepath.Rel(s.dir, p)
			m[rel] = string(b)
		}
		return nil
	})
	return m
}

func ccSameFiles(a, b map[string]string) bool {
	if len(a) != len(b) {
		return false
	}
	for k, v := range a {
		if w, ok := b[k]; !ok || w != v {
			return false
		}
	}
	return true
}

// ---------------------------------------------------------------------------------------------
// what a command line names, derived from the argument values alone (for the direct oracle)

type ccExp struct {
	parseBad, preBad string
	rootSer, signSer *big.Int
	override         *big.Int
	ts               *time.Time // the explicit creation time; nil = the clock of the run
	wca, wkeys       bool
	selUnknown       bool
	bucket, cd, root string
}

var ccDecimal = regexp.MustCompile(`^[+-]?[0-9]+$`)

func ccSerial(def int64, occ []string) (*big.Int, bool) {
	v := big.NewInt(def)
	for _, t := range occ {
		if t == "" {
			continue // documented by the flag's Set: an empty value keeps what is there
		}
		if !ccDecimal.MatchString(t) {
			return nil, false
		}
		z, ok := new(big.Int).SetString(t, 10)
		if !ok {
			return nil, false
		}
		v = z
	}
	return v, true
}

func (s *ccStack) expect(l ccLine) ccExp {
	var e ccExp
	var ok bool
	switch l.sub {
	case 'b':
		if e.rootSer, ok = ccSerial(1, l.rootSer); !ok {
			e.parseBad = "root_key_serial"
		}
		if e.signSer, ok = ccSerial(2, l.signSer); !ok {
			e.parseBad = "initial_signing_key_serial"
		}
	case 'r':
		if e.override, ok = ccSerial(0, l.override); !ok {
			e.parseBad = "rotated_key_serial_override"
		}
	}
	if l.sub != 'w' {
		// --timestamp may be given once; an empty value before that is ignored; the zero time counts as "not given"
		for _, t := range l.ts {
			if e.ts != nil && !e.ts.IsZero() {
				e.parseBad = "timestamp-twice"
				break
			}
			if t == "" {
				continue
			}
			v, err := time.Parse(time.RFC3339, t)
			if err != nil {
				e.parseBad = "timestamp"
				break
			}
			e.ts = &v
		}
		if e.ts != nil && e.ts.IsZero() {
			e.ts = nil
		}
	}
	if s.localkm() && l.kd != 'd' {
		e.preBad = "key_dir"
	}
	e.bucket, e.cd, e.root = s.siteOf(l)
	if s.localca() {
		if e.root == "" && l.sub == 'b' && l.rootCnV() != "" {
			e.root = l.rootCnV() + ".crt" // documented: "Allow --root_path derivation if bootstrapping"
		}
		if e.bucket == "" || e.cd == "" || e.root == "" {
			e.preBad = "empty-store-flag"
		}
	}
	e.wca = len(l.args) == 0 || l.args[0] == "ca"
	e.wkeys = len(l.args) == 0 || l.args[0] == "keys"
	e.selUnknown = l.sub == 'w' && !e.wca && !e.wkeys
	return e
}

// ---------------------------------------------------------------------------------------------
// one history on one stack

func ccNewStack(kind int, seed uint64, site ccSite) *ccStack {
	dir, err := os.MkdirTemp("", "verif-c12cli-")
	if err != nil {
		panic(err)
	}
	for _, d := range []string{"keys", "store"} {
		if err := os.MkdirAll(filepath.Join(dir, d), 0755); err != nil {
			panic(err)
		}
	}
	if err := os.WriteFile(filepath.Join(dir, "afile"), []byte("x"), 0644); err != nil {
		panic(err)
	}
	return &ccStack{kind: kind, dir: dir, seed: seed, site: site, memSigner: &nonprod.Signer{Rand: c12Rand(seed)}, memCA: memca.Create()}
}

func ccRunHistory(kind int, h []ccLine, site ccSite, seed uint64, seq bool) (res c12Result) {
	res.counts = map[string]int{}
	st := ccNewStack(kind, seed, site)
	defer os.RemoveAll(st.dir)
	find := func(sig, what string, k int) {
		var av []string
		for _, l := range h[:k+1] {
			av = append(av, strings.Join(st.argv(l), " "))
		}
		res.finds = append(res.finds, c12Finding{sig, what, fmt.Sprintf("stack=%s command lines: %s (after line %d)", ccStackNames[kind],
			st.canon(strings.Join(av, " ; ")), k+1)})
	}
	cand := map[string]bool{"root": true, "primarySigningKey": true, "_1": true}
	canon := ccCanon{}
	everLive, everRecorded, kgEntry := map[string]bool{}, map[string]bool{}, map[string]bool{}
	tainted := false
	prev := st.observe(cand)
	anyOk := false
	for k, l := range h {
		e := st.expect(l)
		populated := !prev.empty()
		filesBefore := st.files()
		r := st.run(l)
		phase, cls := st.phase(r)
		if r.panicked {
			find("c12/cli/"+l.subName()+"/panic", "the command panicked: "+r.panicMsg+" "+c12FirstRepoFrame(r.stack), k)
			res.counts["panic"]++
			return
		}
		ok := r.err == nil
		cur := st.observe(cand)
		for _, n := range cur.live {
			cand[n] = true
		}
		// certificates that appeared with this command and carry the clock of this run get the canonical time
		if e.ts == nil {
			seen := map[[32]byte]bool{}
			for _, c := range prev.certs {
				if c != nil {
					seen[sha256.Sum256(c.Raw)] = true
				}
			}
			if prev.root != nil {
				seen[sha256.Sum256(prev.root.Raw)] = true
			}
			fs, _ := ccFakeNow(k)
			mark := func(c *x509.Certificate) {
				if c == nil {
					return
				}
				hsh := sha256.Sum256(c.Raw)
				if _, done := canon[hsh]; !done && !seen[hsh] && c.NotBefore.Unix() >= r.before.Unix() && c.NotBefore.Unix() <= r.after.Unix() {
					canon[hsh] = fs
				}
			}
			for _, c := range cur.certs {
				mark(c)
			}
			mark(cur.root)
		}
		ctx := "-"
		if (st.instr() && phase == "run") || (!st.instr() && ok) {
			ctx = st.ctxLine(l, r, k)
		}
		impl := fmt.Sprintf("phase=%s cls=%s ctx=%s %s", phase, cls, ctx, ccObsLine(cur, ok, canon))
		anyOk = anyOk || ok
		refusedEarly := phase == "parse" || phase == "prerun" || phase == "init"
		res.ops = append(res.ops, st.opLine(h[:k+1], seq))
		res.impls = append(res.impls, impl)
		res.nontriv = append(res.nontriv, anyOk || refusedEarly)
		res.counts[fmt.Sprintf("%s/%s/phase=%s/%s/ok=%s", ccStackNames[kind], l.subName(), phase, cls, b2s(ok))]++
		res.counts[fmt.Sprintf("flags/%s/ow=%s,kg=%s,force=%s", l.subName(), b2s(l.ow), b2s(l.kg), b2s(l.force))]++
		if l.tag != "" {
			res.counts["line/"+l.tag]++
		}
		sub := l.subName()
		changed := ccObsLine(cur, true, canon) != ccObsLine(prev, true, canon)
		if l.sub == 'b' && populated && (ok || changed) {
			tainted = true
			res.counts["class/bootstrap-over-populated-store"]++
		}
		class := "cli/" + sub
		if tainted {
			class = "rebootstrap"
		}
		for _, n := range cur.names {
			if !everRecorded[n] && !c12Has(prev.names, n) && l.kg {
				kgEntry[n] = true
			}
		}

		// ---- command-line clauses ----
		invalid := e.parseBad
		if invalid == "" {
			invalid = e.preBad
		}
		if invalid != "" && (phase == "run" || (phase == "exec" && ok)) {
			find("c12/cli/"+sub+"/accepted-invalid/"+invalid, "a command line that must be refused ("+invalid+") reached the library", k)
		}
		if invalid != "" && !ccSameFiles(filesBefore, st.files()) {
			find("c12/cli/"+sub+"/invalid-line-had-effect/"+invalid, "a command line that must be refused ("+invalid+") changed a key or certificate file", k)
		}
		if (e.parseBad != "" && phase != "parse") || (e.parseBad == "" && e.preBad != "" && phase != "prerun" && phase != "parse") {
			// cmd.CommandComponent: "PersistentPreRunE returns an error if the results of the parsed flags constitute an error",
			// InitContext is kept apart from it "to allow all flag validation code to run before performing these
			// potentially expensive initialization actions"
			find("c12/cli/"+sub+"/refused-late/"+invalid, "a command line whose flag values are invalid ("+invalid+") got past flag validation: it reached phase "+phase, k)
		}
		if refusedEarly {
			if !ccSameFiles(filesBefore, st.files()) || changed {
				find("c12/cli/"+sub+"/refused-after-effect/"+phase, "the command was refused in phase "+phase+" ("+cls+") after changing keys or certificates", k)
			}
			if invalid == "" && phase != "init" {
				find("c12/cli/"+sub+"/refused-valid/"+phase+"-"+cls, "a well-formed command line was refused: "+r.err.Error(), k)
			}
		}
		for _, n := range cur.incons {
			find("c12/cli/"+sub+"/probe/sign-and-publickey-disagree", "Signer.Sign and Signer.PublicKey disagree for "+n, k)
		}
		// the context handed to the library names what the command line names
		if phase == "run" && invalid == "" {
			bad := func(f, what string) { find("c12/cli/"+sub+"/context/"+f, "the context handed to the library: "+what, k) }
			if r.owAtInit != l.ow {
				bad("overwrite", fmt.Sprintf("output.AllowOverwrite is %v, --overwrite was %v", r.owAtInit, l.ow))
			}
			if r.kgAtInit != l.kg {
				bad("keep_going", fmt.Sprintf("output.AllowRecoverableError is %v, --keep_going was %v", r.kgAtInit, l.kg))
			}
			if r.nowZeroAtAppPre {
				bad("now-unset-after-core-prerun", "the creation time was still zero when the application's PersistentPreRunE ran (the core command runs before it)")
			}
			wantMgr, wantCA := "*memkm.T", "*memca.CertificateAuthority"
			if st.localkm() {
				wantMgr = "*localkm.T"
			}
			if st.localca() {
				wantCA = "*gcsca.CertificateAuthority"
			}
			if r.mgrType != wantMgr || r.caType != wantCA {
				bad("components", fmt.Sprintf("keys.Context has manager %s and authority %s, the application composes %s and %s", r.mgrType, r.caType, wantMgr, wantCA))
			}
			if st.localca() && (r.bucket != e.bucket || r.cd != e.cd || r.root != e.root || r.bucketRoot != filepath.Join(st.dir, "store")) {
				bad("store", "bucket / cert_dir / root_path / bucket_root are not the ones named on the command line")
			}
			if st.localkm() && r.keyDir != st.keyDirOf(l) {
				bad("key_dir", "the key directory is not the one named on the command line")
			}
			nowOK := func(t time.Time) bool {
				if e.ts != nil {
					return t.Equal(*e.ts)
				}
				return !t.Before(r.before) && !t.After(r.after)
			}
			switch l.sub {
			case 'b':
				if bc, err := rotate.FromBootstrapContext(r.ctx); err != nil {
					bad("missing", "no BootstrapContext")
				} else {
					if bc.RootKeyCommonName != l.rootCnV() || bc.SigningKeyCommonName != l.signCnV() {
						bad("common-names", "the common names are not --root_key_cn / --signing_key_cn")
					}
					if bc.RootKeySerial == nil || bc.SigningKeySerial == nil || bc.RootKeySerial.Cmp(e.rootSer) != 0 || bc.SigningKeySerial.Cmp(e.signSer) != 0 {
						bad("serials", fmt.Sprintf("serials %v / %v, the command line names %v / %v", bc.RootKeySerial, bc.SigningKeySerial, e.rootSer, e.signSer))
					}
					if !nowOK(bc.Now) {
						bad("time", fmt.Sprintf("creation time %v is neither --timestamp nor the time of the run", bc.Now))
					}
				}
			case 'r':
				if skc, err := rotate.FromSigningKeyContext(r.ctx); err != nil {
					bad("missing", "no SigningKeyContext")
				} else {
					if skc.SigningKeyCommonName != l.signCnV() {
						bad("common-names", "the common name is not --signing_key_cn")
					}
					if !nowOK(skc.Now) {
						bad("time", fmt.Sprintf("creation time %v is neither --timestamp nor the time of the run", skc.Now))
					}
					if e.override.Sign() != 0 {
						if skc.SigningKeySerial == nil || skc.SigningKeySerial.Cmp(e.override) != 0 {
							bad("serial-override", fmt.Sprintf("serial %v, --rotated_key_serial_override was %v", skc.SigningKeySerial, e.override))
						}
					} else if pc := prev.certs[prev.ps]; pc != nil {
						p, ok1 := new(big.Int).SetString(pc.Subject.SerialNumber, 10)
						if !ok1 || skc.SigningKeySerial == nil || skc.SigningKeySerial.Cmp(p.Add(p, big.NewInt(1))) != 0 {
							bad("serial-default", fmt.Sprintf("serial %v without override, the predecessor's subject serial is %s", skc.SigningKeySerial, pc.Subject.SerialNumber))
						}
					}
				}
			default:
				if wc, err := rotate.FromWipeoutContext(r.ctx); err != nil {
					bad("missing", "no WipeoutContext")
				} else if wc.CA != e.wca || wc.Keys != e.wkeys || wc.Force != l.force {
					bad("wipeout-selection", fmt.Sprintf("CA=%v Keys=%v Force=%v for arguments %q --force_prod_wipeout=%v", wc.CA, wc.Keys, wc.Force, l.args, l.force))
				}
			}
		}
		// the certificates a successful command line made name what it names
		certNames := func(c *x509.Certificate, what, cn string, serial *big.Int) {
			if c == nil {
				find("c12/cli/"+sub+"/names/"+what+"-missing", "after a successful "+sub+" the "+what+" certificate cannot be read", k)
				return
			}
			if c.Subject.CommonName != cn || c.Subject.SerialNumber != serial.String() || c.SerialNumber == nil || c.SerialNumber.Cmp(serial) != 0 {
				find("c12/cli/"+sub+"/names/"+what+"-subject", fmt.Sprintf("the %s certificate has subject %q serial %s (certificate serial %v); the command line names %q and %v",
					what, c.Subject.CommonName, c.Subject.SerialNumber, c.SerialNumber, cn, serial), k)
			}
			if e.ts != nil {
				if c.NotBefore.Unix() != e.ts.Unix() {
					find("c12/cli/"+sub+"/names/"+what+"-time", fmt.Sprintf("the %s certificate is valid from %v, --timestamp was %v", what, c.NotBefore, *e.ts), k)
				}
			} else if c.NotBefore.Unix() < r.before.Unix() || c.NotBefore.Unix() > r.after.Unix() {
				find("c12/cli/"+sub+"/names/"+what+"-time-default", fmt.Sprintf("without --timestamp the %s certificate is valid from %v, the command ran at %v", what, c.NotBefore, r.before), k)
			}
		}
		if ok && invalid == "" && !l.kg && !tainted {
			switch l.sub {
			case 'b':
				certNames(cur.root, "root", l.rootCnV(), e.rootSer)
				certNames(cur.certs[cur.ps], "signing", l.signCnV(), e.signSer)
			case 'r':
				want := e.override
				if want.Sign() == 0 {
					want = nil
					if pc := prev.certs[prev.ps]; pc != nil {
						if p, ok1 := new(big.Int).SetString(pc.Subject.SerialNumber, 10); ok1 {
							want = p.Add(p, big.NewInt(1))
						}
					}
				}
				if want == nil {
					find("c12/cli/rotate/serial-succ/missing", "successful default-serial rotation without a readable predecessor certificate", k)
				} else {
					certNames(cur.certs[cur.ps], "signing", l.signCnV(), want)
				}
			}
		}
		// wipeout selection on the store itself
		if l.sub == 'w' && ok {
			keysSame := strings.Join(cur.live, ",") == strings.Join(prev.live, ",")
			caSame := cur.emptyCA() == prev.emptyCA() && ccObsLine(cur, true, canon) == ccObsLine(prev, true, canon)
			if e.wkeys && len(cur.live) > 0 {
				find("c12/cli/wipeout/wipeout-total/key-signs", "a key can still sign after the key wipeout: "+strings.Join(cur.live, ","), k)
			}
			if e.wca && !cur.emptyCA() {
				find("c12/cli/wipeout/wipeout-total/cert-served", "the authority still serves or stores a certificate after the CA wipeout", k)
			}
			if !e.wkeys && !keysSame {
				find("c12/cli/wipeout/selection/keys-touched", "a wipeout that does not select the keys changed which keys can sign", k)
			}
			if !e.wca && !e.wkeys && !caSame {
				find("c12/cli/wipeout/selection/ca-touched", "a wipeout that selects nothing changed the certificate store", k)
			}
			if e.selUnknown {
				res.counts["observation/wipeout-unknown-selector-succeeds-without-wiping"]++
			}
		}

		// ---- the clauses of C12 on what is read back ----
		if rc := cur.root; rc != nil {
			bad := func(f, what string) { find("c12/"+class+"/root-profile/"+f, "served root certificate: "+what, k) }
			if !rc.IsCA || !rc.BasicConstraintsValid {
				bad("isCA", "not a CA certificate")
			}
			if rc.KeyUsage&x509.KeyUsageCertSign == 0 {
				bad("keyUsage", "no certificate-signing usage")
			}
			if rc.CheckSignatureFrom(rc) != nil || !bytes.Equal(rc.RawIssuer, rc.RawSubject) {
				bad("self-signed", "not self-signed")
			}
			if rc.NotAfter.Sub(rc.NotBefore) != c12RootLife {
				bad("lifetime", fmt.Sprintf("lifetime %v, documented %v", rc.NotAfter.Sub(rc.NotBefore), c12RootLife))
			}
		}
		for _, n := range cur.names {
			if n == cur.pr {
				continue
			}
			cert := cur.certs[n]
			if cert == nil {
				continue
			}
			cls2 := class
			if kgEntry[n] && !tainted {
				cls2 = "keep-going"
			}
			bad := func(f, what string) {
				find("c12/"+cls2+"/signing-profile/"+f, fmt.Sprintf("signing certificate recorded for %s: %s", n, what), k)
			}
			if cert.IsCA {
				bad("isCA", "is a CA certificate")
			}
			if cert.KeyUsage != x509.KeyUsageDigitalSignature {
				bad("keyUsage", fmt.Sprintf("key usage %d, want digital signature only", cert.KeyUsage))
			}
			if cert.SignatureAlgorithm != x509.SHA256WithRSAPSS {
				bad("sigAlg", "signature algorithm "+cert.SignatureAlgorithm.String())
			}
			if cert.NotAfter.Sub(cert.NotBefore) != c12SignLife {
				bad("lifetime", fmt.Sprintf("lifetime %v, documented %v", cert.NotAfter.Sub(cert.NotBefore), c12SignLife))
			}
			if cert.SerialNumber == nil || cert.SerialNumber.String() != cert.Subject.SerialNumber {
				bad("serial", fmt.Sprintf("certificate serial %v differs from subject serial %q", cert.SerialNumber, cert.Subject.SerialNumber))
			}
			if cur.root == nil || cert.CheckSignatureFrom(cur.root) != nil || !bytes.Equal(cert.RawIssuer, cur.root.RawSubject) {
				if tainted {
					find("c12/rebootstrap/stale-signing-cert", fmt.Sprintf("certificate recorded for %s is not issued by the current root", n), k)
				} else {
					bad("issuer", "not issued by the served root")
				}
			}
		}
		for _, n := range cur.names {
			if n != cur.pr && n != cur.ps && c12Has(cur.live, n) {
				if tainted {
					find("c12/rebootstrap/old-key-signs", "a recorded signing key version other than the primary can still sign: "+n, k)
				} else {
					find("c12/"+class+"/only-primary-signs", "a recorded signing key version other than the primary can still sign: "+n, k)
				}
			}
		}
		if l.sub == 'r' && ok {
			name := cur.ps
			if c12Has(prev.names, name) || (everLive[name] && !c12Has(prev.live, name)) {
				if tainted {
					find("c12/rebootstrap/name-reused", "rotation created a key version name that was already certified or destroyed: "+name, k)
				} else {
					find("c12/"+class+"/name-reused", "rotation created a key version name that was already certified or destroyed: "+name, k)
				}
			}
		}
		if !l.ow && l.sub != 'w' {
			var paths []string
			for p := range prev.objects {
				paths = append(paths, p)
			}
			sort.Strings(paths)
			for _, p := range paths {
				if nb, ok2 := cur.objects[p]; !ok2 || !bytes.Equal(nb, prev.objects[p]) {
					if tainted && st.caName() == "memca" {
						find("c12/rebootstrap/clobber-without-overwrite", "an existing certificate object changed although overwrite was not given ("+st.caName()+")", k)
					} else {
						find("c12/"+class+"/no-clobber/"+st.caName(), "an existing certificate object changed although overwrite was not given: "+p, k)
					}
				}
			}
		}
		for _, n := range cur.live {
			everLive[n] = true
		}
		for _, n := range cur.names {
			everRecorded[n] = true
		}
		if l.sub == 'w' && ok && e.wkeys {
			everLive = map[string]bool{}
		}
		if l.sub == 'w' && ok && e.wca {
			everRecorded, kgEntry = map[string]bool{}, map[string]bool{}
		}
		if cur.empty() {
			tainted = false
		}
		prev = cur
	}
	return
}

// ---------------------------------------------------------------------------------------------
// generator

var (
	ccSerialTexts = []string{"0", "1", "-1", "9223372036854775808", "18446744073709551616", "340282366920938463463374607431768211456", "abc", "", "+5", "007",
		" 1", "-0", "1_0", "0x10", "１２", "1e3", "+", "-", "--1", "12 ", "٣", "-9223372036854775809", "3"}
	ccTimeTexts = []string{"0001-01-01T00:00:00Z", "0001-01-01T01:00:00+01:00", "0001-01-01T00:00:00+01:00", "2024-09-01T00:00:00+05:30", "2030-01-01T00:00:00-08:00",
		"2024-09-01T00:00:00.5Z", "1969-12-31T23:59:59Z", "0000-06-01T00:00:00Z", "0000-01-01T00:00:00+01:00", "9990-06-01T00:00:00Z", "9974-12-31T23:59:59Z",
		"2024-09-01 00:00:00", "2024-09-01", "", "2025-03-09T10:00:00Z", "2024-02-29T23:59:60Z", "2024-09-01T00:00:00z"}
	ccCnTexts = []string{"", "a/b", "ключ-é", "with blank", "rootA", "signA", "x=1,y:2;z", "GCE-cc-tcb-root"}
	ccArgSets = [][]string{nil, {"ca"}, {"keys"}, {"foo"}, {"ca", "keys"}, {"keys", "ca"}, {""}, {"CA"}, {"key"}, {"all"}}
)

func ccFixed() [][]ccLine {
	t1, t2, t3 := "2024-09-01T00:00:00Z", "2024-10-01T12:00:00+02:00", "2025-01-01T00:00:00-08:00"
	b := func(mod func(*ccLine)) ccLine {
		l := ccLine{sub: 'b', kd: 'd', ts: []string{t1}, tag: "fixed"}
		if mod != nil {
			mod(&l)
		}
		return l
	}
	r := func(mod func(*ccLine)) ccLine {
		l := ccLine{sub: 'r', kd: 'd', ts: []string{t2}, tag: "fixed"}
		if mod != nil {
			mod(&l)
		}
		return l
	}
	w := func(args ...string) ccLine { return ccLine{sub: 'w', kd: 'd', args: args, tag: "fixed"} }
	hs := [][]ccLine{
		// all defaults, the wall clock
		{b(func(l *ccLine) { l.ts = nil }), r(func(l *ccLine) { l.ts = nil }), r(func(l *ccLine) { l.ts = nil; l.override = []string{"0"} }), w()},
		// explicit zero time is "not given"; offsets; fractions
		{b(func(l *ccLine) { l.ts = []string{"0001-01-01T00:00:00Z"} }), r(func(l *ccLine) { l.ts = []string{"0001-01-01T01:00:00+01:00"} }),
			r(func(l *ccLine) { l.ts = []string{t3} }), r(func(l *ccLine) { l.ts = []string{"2025-06-01T00:00:00.75+05:30"} })},
		// serial defaults and overrides: predecessor + 1 after an override, 1, 2^64, huge
		{b(nil), r(nil), r(func(l *ccLine) { l.override = []string{"1"} }), r(func(l *ccLine) { l.override = []string{"18446744073709551616"} }), r(nil)},
		{b(func(l *ccLine) {
			l.rootSer, l.signSer = []string{"0"}, []string{"340282366920938463463374607431768211456"}
		}), r(nil), r(func(l *ccLine) { l.override = []string{"-0"} }), r(func(l *ccLine) { l.override = []string{"+0", "000"} })},
		// negative serials: refused by crypto/x509 after the keys were made
		{b(func(l *ccLine) { l.rootSer = []string{"-1"} }), b(nil), b(func(l *ccLine) { l.ow = true }), r(func(l *ccLine) { l.override = []string{"-7"} }), r(nil)},
		{b(func(l *ccLine) { l.signSer = []string{"-5"} }), w("keys"), b(nil), r(nil)},
		// times ASN.1 cannot represent
		{b(func(l *ccLine) { l.ts = []string{"9990-06-01T00:00:00Z"} }), w("keys"), b(func(l *ccLine) { l.ts = []string{"0000-01-01T00:00:00+01:00"} }), w("keys"),
			b(func(l *ccLine) { l.ts = []string{"9974-12-31T23:59:59Z"} })},
		{b(func(l *ccLine) { l.ts = []string{"0000-06-01T00:00:00Z"} }), r(func(l *ccLine) { l.ts = []string{"9995-01-01T00:00:00Z"} }),
			r(func(l *ccLine) { l.ts = []string{"1969-12-31T23:59:59Z"} })},
		// malformed and repeated values
		{b(func(l *ccLine) { l.rootSer = []string{"abc"} }), b(func(l *ccLine) { l.signSer = []string{" 1"} }), b(func(l *ccLine) { l.ts = []string{t1, t1} }),
			b(func(l *ccLine) { l.ts = []string{"", t1}; l.rootSer = []string{"5", "6"}; l.signSer = []string{"7", ""} }), r(func(l *ccLine) { l.override = []string{"x"} })},
		{b(func(l *ccLine) { l.ts = []string{t1, ""} }), b(func(l *ccLine) { l.ts = []string{"2024-09-01 00:00:00"} }), b(func(l *ccLine) { l.rootSer = []string{"1_0"} }),
			b(func(l *ccLine) { l.rootSer = []string{"0x10"} }), b(func(l *ccLine) { l.rootSer = []string{"１２"} })},
		// common names
		{b(func(l *ccLine) { l.rootCn, l.signCn = ccStr("a/b"), ccStr("ключ-é") }), r(func(l *ccLine) { l.signCn = ccStr("") }), r(func(l *ccLine) { l.signCn = ccStr("with blank") })},
		{b(func(l *ccLine) { l.rootCn = ccStr("") }), r(func(l *ccLine) { l.signCn = ccStr("x=1,y:2;z") })},
		// wipeout selectors
		{b(nil), w("foo"), w("ca", "keys"), w("keys"), b(nil)},
		{b(nil), w("keys", "ca"), w(""), w("ca"), w()},
		{b(nil), r(nil), w("CA"), w(), r(nil)},
		// the store flags: root path derived from the root common name (bootstrap only), empty values
		{b(func(l *ccLine) { l.rootPathOmit = true; l.rootCn = ccStr("") }), b(func(l *ccLine) { l.bucket = ccStr("") }), b(func(l *ccLine) { l.certDir = ccStr(""); l.rootPathOmit = true; l.rootCn = ccStr("") }),
			b(nil), r(func(l *ccLine) { l.rootPathOmit = true })},
		{b(nil), r(func(l *ccLine) { l.bucket = ccStr(""); l.certDir = ccStr("") }), w(), r(nil)},
		// the key directory
		{b(func(l *ccLine) { l.kd = 'n' }), b(func(l *ccLine) { l.kd = 'f' }), b(func(l *ccLine) { l.kd = 'e' }), b(nil), r(func(l *ccLine) { l.kd = 'n' })},
		// rotation and wipeout before any bootstrap; partial wipeouts and what the pre-check then allows
		{r(nil), w(), w("keys"), b(nil), w("ca")},
		{b(nil), w("ca"), w("keys"), r(nil), b(func(l *ccLine) { l.ow = true })},
		// object-name collisions with overwrite / keep_going through the command line
		{b(nil), r(func(l *ccLine) { l.override = []string{"2"} }), r(func(l *ccLine) { l.override = []string{"2"}; l.kg = true }), r(func(l *ccLine) { l.override = []string{"2"}; l.ow = true }),
			r(func(l *ccLine) { l.ow, l.kg = true, true })},
	}
	// overwrite x keep_going x force, exhaustively, on each command
	for i := 0; i < 4; i++ {
		ow, kg := i&1 == 1, i&2 == 2
		hs = append(hs, []ccLine{b(func(l *ccLine) { l.ow, l.kg = ow, kg }), r(func(l *ccLine) { l.ow, l.kg = ow, kg }),
			{sub: 'w', kd: 'd', ow: ow, kg: kg, force: false, args: []string{"keys"}, tag: "fixed"}, {sub: 'w', kd: 'd', ow: ow, kg: kg, force: true, tag: "fixed"}})
	}
	return hs
}

// ccDerivedSite: a history whose store has the root path the bootstrap derives from its root common name.
func ccDerived() ([]ccLine, ccSite) {
	t1 := "2024-09-01T00:00:00Z"
	return []ccLine{
		{sub: 'r', kd: 'd', rootPathOmit: true, tag: "derived"},
		{sub: 'b', kd: 'd', rootPathOmit: true, rootCn: ccStr("rootA"), signCn: ccStr("signA"), ts: []string{t1}, tag: "derived"},
		{sub: 'r', kd: 'd', signCn: ccStr("signA"), ts: []string{"2024-09-02T00:00:00Z"}, tag: "derived"},
		{sub: 'w', kd: 'd', rootPathOmit: true, tag: "derived"},
		{sub: 'w', kd: 'd', args: []string{"keys"}, tag: "derived"},
	}, ccSite{"bkt", "certs", "rootA.crt"}
}

func ccGenHistory(r *Rng) []ccLine {
	n := 1 + r.Intn(5)
	if n < 3 && r.Intn(3) > 0 {
		n += 2
	}
	pick := func(p []string) string { return p[r.Intn(len(p))] }
	day := 0
	var h []ccLine
	for i := 0; i < n; i++ {
		l := ccLine{kd: 'd', style: r.Intn(12), tag: "gen"}
		k := r.Intn(100)
		switch {
		case (i == 0 && k < 80) || (i > 0 && k < 15):
			l.sub = 'b'
		case k < 70:
			l.sub = 'r'
		default:
			l.sub = 'w'
		}
		l.ow, l.kg = r.Intn(100) < 30, r.Intn(100) < 20
		day += 1 + r.Intn(400)
		stamp := time.Date(2024, 9, 1, 0, 0, 0, 0, time.UTC).Add(time.Duration(day) * 24 * time.Hour)
		switch r.Intn(5) {
		case 0: // the wall clock
		case 1:
			l.ts = []string{stamp.In(c12DST).Format(time.RFC3339)}
		case 2:
			l.ts = []string{"", stamp.Format(time.RFC3339Nano)}
		default:
			l.ts = []string{stamp.Format(time.RFC3339)}
		}
		switch l.sub {
		case 'b':
			if r.Intn(3) == 0 {
				l.rootCn = ccStr(pick([]string{"rootA", "rootB", "a/b"}))
			}
			if r.Intn(3) == 0 {
				l.signCn = ccStr(pick([]string{"signA", "signB", "ключ-é"}))
			}
			if r.Intn(3) == 0 {
				l.rootSer = []string{pick([]string{"1", "7", "0", "18446744073709551616"})}
			}
			if r.Intn(3) == 0 {
				l.signSer = []string{pick([]string{"2", "3", "10", "9223372036854775808"})}
			}
		case 'r':
			if r.Intn(3) == 0 {
				l.signCn = ccStr(pick([]string{"signA", "signB", "GCE-cc-tcb-root"}))
			}
			if r.Intn(100) < 35 {
				l.override = []string{pick([]string{"2", "1", "3", "4", "5", "0", "18446744073709551616", "9223372036854775808"})}
			}
		default:
			l.args = ccArgSets[r.Intn(len(ccArgSets))]
			if r.Intn(2) == 0 {
				l.args = ccArgSets[r.Intn(3)]
			}
			l.force = r.Bool()
			l.ts = nil
		}
		// a boundary or malformed value on one flag of about a third of the lines
		if r.Intn(3) == 0 {
			l.tag = "gen-perturbed"
			switch r.Intn(9) {
			case 0:
				if l.sub == 'b' {
					l.rootSer = append(l.rootSer, pick(ccSerialTexts))
				} else if l.sub == 'r' {
					l.override = append(l.override, pick(ccSerialTexts))
				}
			case 1:
				if l.sub == 'b' {
					l.signSer = append([]string{pick(ccSerialTexts)}, l.signSer...)
				} else if l.sub == 'r' {
					l.override = []string{pick(ccSerialTexts)}
				}
			case 2, 3:
				if l.sub != 'w' {
					l.ts = []string{pick(ccTimeTexts)}
					if r.Intn(4) == 0 {
						l.ts = append(l.ts, pick(ccTimeTexts))
					}
				}
			case 4:
				if l.sub == 'b' {
					l.rootCn = ccStr(pick(ccCnTexts))
				}
				if l.sub != 'w' {
					l.signCn = ccStr(pick(ccCnTexts))
				}
			case 5:
				l.kd = []byte{'n', 'f', 'e'}[r.Intn(3)]
			case 6:
				if r.Bool() {
					l.bucket = ccStr("")
				} else {
					l.certDir = ccStr("")
				}
			case 7:
				l.rootPathOmit = true
				if l.sub == 'b' {
					l.rootCn = ccStr("") // nothing to derive the root path from (a derived path would be another store)
				}
			case 8:
				l.args = ccArgSets[r.Intn(len(ccArgSets))]
			}
		}
		h = append(h, l)
	}
	return h
}

func runC12Cli(c *Ctx) {
	// gcetcbendorsement/cmd.MakeRoot (linked into the harness, run by that package's init) switches cobra to running the
	// PersistentPreRunE of EVERY ancestor; the key-management binary does not link it: only the sub-command's own runs.
	defer func(v bool) { cobra.EnableTraverseRunHooks = v }(cobra.EnableTraverseRunHooks)
	cobra.EnableTraverseRunHooks = false
	// ---- big.Int.SetString(text, 10) against the model's parser ----
	texts := append([]string{}, ccSerialTexts...)
	alphabet := []string{"0", "1", "9", "-", "+", " ", "_", "a", "x", ".", "e", "７"}
	for i := 0; i < c.N(150, 2000); i++ {
		n := c.Rng.Intn(6)
		s := ""
		for j := 0; j < n; j++ {
			if c.Rng.Intn(3) == 0 {
				s += alphabet[c.Rng.Intn(len(alphabet))]
			} else {
				s += alphabet[c.Rng.Intn(3)]
			}
		}
		texts = append(texts, s)
	}
	for _, t := range texts {
		out := "E"
		if z, ok := new(big.Int).SetString(t, 10); ok {
			out = z.String()
		}
		c.Case("c12cli op=bigint s="+hx([]byte(t)), out, out != "E")
		c.Count("bigint/accepted=" + b2s(out != "E"))
		if (out != "E") != ccDecimal.MatchString(t) {
			c.Find("c12/cli/harness/decimal-syntax", "big.Int.SetString(text, 10) and the harness's decimal syntax disagree", t)
		}
	}

	// ---- histories ----
	seq := c12Sequential()
	site := ccSite{"bkt", "certs", "root.crt"}
	type job struct {
		h    []ccLine
		kind int
		site ccSite
		seed uint64
	}
	var jobs []job
	n := 0
	add := func(h []ccLine, st ccSite, kinds ...int) {
		for _, k := range kinds {
			jobs = append(jobs, job{h, k, st, uint64(n*11+k) + c.Seed*1000003})
		}
		n++
		c.Count(fmt.Sprintf("history-length/%d", len(h)))
	}
	for i, h := range ccFixed() {
		if c.Quick() {
			add(h, site, 0, 1, 2+i%3)
		} else {
			add(h, site, 0, 1, 2, 3, 4)
		}
	}
	dh, ds := ccDerived()
	add(dh, ds, 0, 1, 2)
	for i := 0; i < c.N(28, 400); i++ {
		h := ccGenHistory(c.Rng)
		if c.Quick() {
			add(h, site, 0, 1+i%4)
		} else {
			add(h, site, 0, 1, 2, 3, 4)
		}
	}
	results := make([]c12Result, len(jobs))
	var wg sync.WaitGroup
	sem := make(chan struct{}, runtime.NumCPU())
	for i := range jobs {
		wg.Add(1)
		sem <- struct{}{}
		go func(i int) {
			defer wg.Done()
			defer func() { <-sem }()
			results[i] = ccRunHistory(jobs[i].kind, jobs[i].h, jobs[i].site, jobs[i].seed, seq)
		}(i)
	}
	wg.Wait()
	for _, r := range results {
		for k := range r.ops {
			c.Case(r.ops[k], r.impls[k], r.nontriv[k])
		}
		for k, v := range r.counts {
			c.Hist[k] += v
		}
		for _, f := range r.finds {
			c.Find(f.sig, f.what, f.replay)
		}
	}
}
