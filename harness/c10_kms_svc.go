package main

// An in-process Cloud KMS service with durable state and a fault-injecting client for the C10 / C12 /
// C03 streams on the production stack (keys/gcpkms Manager + Signer).  Modelled on the C20 double
// (scripted answers, call log) but stateful: cryptoKeys hold numbered versions with a state machine
// and real RSA keys, so that certificates issued through it verify.
//
// Semantics (the same as Model/RotateKms.lean; they are the trusted description of Cloud KMS):
//   - version numbers are assigned in creation order and never reused;
//   - a new version is PENDING_GENERATION; a poll (GetCryptoKeyVersion) that finds the countdown at 0
//     completes generation and reports the final state (ENABLED unless the environment says
//     otherwise), a poll before that decrements the countdown and reports PENDING_GENERATION;
//     or (k10Env.immediate) it is created directly ENABLED / DISABLED / GENERATION_FAILED and the
//     response of CreateCryptoKeyVersion reports that state;
//   - GetPublicKey / AsymmetricSign need an ENABLED version (GetPublicKey is also served for a version
//     that was created DISABLED: it has key material);
//   - DestroyCryptoKeyVersion: ENABLED / DISABLED -> DESTROY_SCHEDULED, refused in any other state.

import (
	"context"
	"crypto"
	"crypto/rsa"
	"crypto/sha256"
	"crypto/x509"
	"encoding/pem"
	"fmt"
	"hash/crc32"
	"strings"
	"sync"

	"cloud.google.com/go/iam/apiv1/iampb"
	"cloud.google.com/go/kms/apiv1/kmspb"
	"github.com/google/gce-tcb-verifier/keys/gcpkms"
	"google.golang.org/grpc"
	"google.golang.org/grpc/codes"
	"google.golang.org/grpc/status"
	"google.golang.org/protobuf/types/known/wrapperspb"
)

const (
	k10Project  = "p"
	k10Location = "l"
	k10RingID   = "r"
	k10RootID   = "rk"
	k10SignID   = "sk"
	k10Ring     = "projects/p/locations/l/keyRings/r"
	k10Parent   = k10Ring + "/cryptoKeys/" + k10SignID
	k10RootKey  = k10Ring + "/cryptoKeys/" + k10RootID + "/cryptoKeyVersions/1"
)

const (
	ksPending   = kmspb.CryptoKeyVersion_PENDING_GENERATION
	ksEnabled   = kmspb.CryptoKeyVersion_ENABLED
	ksDisabled  = kmspb.CryptoKeyVersion_DISABLED
	ksScheduled = kmspb.CryptoKeyVersion_DESTROY_SCHEDULED
	ksDestroyed = kmspb.CryptoKeyVersion_DESTROYED
	ksGenFailed = kmspb.CryptoKeyVersion_GENERATION_FAILED
)

// ---- a process-wide pool of RSA keys (generation is the expensive part of every case) ----

var (
	k10PoolMu sync.Mutex
	k10Pool   []*rsa.PrivateKey
)

// k10PoolKey returns the i-th pool key, generating keys on demand (2048 bit, like the nonprod signer).
func k10PoolKey(i int) *rsa.PrivateKey {
	k10PoolMu.Lock()
	defer k10PoolMu.Unlock()
	for len(k10Pool) <= i {
		n := len(k10Pool)
		batch := make([]*rsa.PrivateKey, 4)
		var wg sync.WaitGroup
		for j := range batch {
			wg.Add(1)
			go func(j int) {
				defer wg.Done()
				k, err := rsa.GenerateKey(&Rng{s: uint64(0x10c0ffee + 7919*(n+j))}, 2048)
				must(err)
				batch[j] = k
			}(j)
		}
		wg.Wait()
		k10Pool = append(k10Pool, batch...)
	}
	return k10Pool[i]
}

// ---- durable service state ----

type k10Ver struct {
	name  string
	state kmspb.CryptoKeyVersion_CryptoKeyVersionState
	pend  int // polls that will still see PENDING_GENERATION
	key   int // index into the key pool
	// pubWhenDisabled: GetPublicKey is served while DISABLED (created with key material, see k10Env.immediate)
	pubWhenDisabled bool
}

type k10Key struct {
	name  string
	level kmspb.ProtectionLevel
	vers  []*k10Ver
}

type k10Svc struct {
	ringExists bool
	keys       []*k10Key
	nextKey    int // next unused pool index in this world
	iam        map[string][]string
}

func (s *k10Svc) clone() *k10Svc {
	c := &k10Svc{ringExists: s.ringExists, nextKey: s.nextKey, iam: map[string][]string{}}
	for k, v := range s.iam {
		c.iam[k] = append([]string(nil), v...)
	}
	for _, k := range s.keys {
		ck := &k10Key{name: k.name, level: k.level}
		for _, v := range k.vers {
			cv := *v
			ck.vers = append(ck.vers, &cv)
		}
		c.keys = append(c.keys, ck)
	}
	return c
}

func (s *k10Svc) key(name string) *k10Key {
	for _, k := range s.keys {
		if k.name == name {
			return k
		}
	}
	return nil
}

func (s *k10Svc) ver(name string) *k10Ver {
	for _, k := range s.keys {
		if strings.HasPrefix(name, k.name+"/cryptoKeyVersions/") {
			for _, v := range k.vers {
				if v.name == name {
					return v
				}
			}
		}
	}
	return nil
}

func (s *k10Svc) priv(name string) *rsa.PrivateKey {
	if v := s.ver(name); v != nil {
		return k10PoolKey(v.key)
	}
	return nil
}

// newVersion appends the next version of k, PENDING_GENERATION with the given countdown.
func (s *k10Svc) newVersion(k *k10Key, gen int) *k10Ver {
	v := &k10Ver{name: fmt.Sprintf("%s/cryptoKeyVersions/%d", k.name, len(k.vers)+1), state: ksPending, pend: gen, key: s.nextKey}
	s.nextKey++
	k.vers = append(k.vers, v)
	return v
}

// liveKeys are the ENABLED versions with their private keys (the `keys` component of the model state).
func (s *k10Svc) liveKeys() map[string]*rsa.PrivateKey {
	out := map[string]*rsa.PrivateKey{}
	for _, k := range s.keys {
		for _, v := range k.vers {
			if v.state == ksEnabled {
				out[v.name] = k10PoolKey(v.key)
			}
		}
	}
	return out
}

func k10StateLetter(v *k10Ver) string {
	switch v.state {
	case ksEnabled:
		return "E"
	case ksPending:
		return fmt.Sprintf("P%d", v.pend)
	case ksDisabled:
		return "D"
	case ksScheduled:
		return "S"
	case ksDestroyed:
		return "X"
	case ksGenFailed:
		return "F"
	}
	return "?"
}

// renderVers prints the states of the versions of one cryptoKey in creation order.
func (s *k10Svc) renderVers(keyName string) string {
	var parts []string
	if k := s.key(keyName); k != nil {
		for i, v := range k.vers {
			parts = append(parts, fmt.Sprintf("%d:%s", i+1, k10StateLetter(v)))
		}
	}
	return "vers=" + strings.Join(parts, ",")
}

// ---- the client of one operation: fault positions, environment ----

type k10Env struct {
	gen      int                                          // countdown of versions created by this client
	final    kmspb.CryptoKeyVersion_CryptoKeyVersionState // state after generation (0 = ENABLED)
	deadline bool                                         // cancel the operation's context at the first PENDING answer
	corrupt  string                                       // "", "sigcrc", "vdata", "vdigest"
	// immediate: the version is created already in its final state and CreateCryptoKeyVersion's response says
	// so (no PENDING_GENERATION phase, as for software keys); a version created DISABLED has key material, so
	// its public key is served.  The model's KmsEnv.created / KmsEnv.pubDisabled (Model/RotateKms.lean) are
	// derived from imm= and final= of the op line, so a run cut before the first poll is compared too.
	immediate bool
	// resp: the state CreateCryptoKeyVersion's response reports when it is not the version's state (0: truthful).
	// The shipped code never reads it (KmsEnv.resp in the model; C10_kms_create_response_ignored).
	resp kmspb.CryptoKeyVersion_CryptoKeyVersionState
	// created: like immediate, with the created state given directly (ENABLED / DISABLED) and `final` left to the
	// versions that do go through generation (stream c12kms: Env.created of Model/KeyHistoryKms.lean); a version
	// created DISABLED this way does not serve its public key (in that model only ENABLED versions answer)
	created kmspb.CryptoKeyVersion_CryptoKeyVersionState
}

func (e k10Env) respLetter() string {
	switch e.resp {
	case ksEnabled:
		return "E"
	case ksPending:
		return "P"
	case ksDisabled:
		return "D"
	case ksGenFailed:
		return "F"
	}
	return "-"
}

func (e k10Env) finalLetter() string {
	switch e.final {
	case ksDisabled:
		return "D"
	case ksDestroyed:
		return "X"
	case ksGenFailed:
		return "F"
	case ksScheduled:
		return "S"
	}
	return "-"
}

type k10Client struct {
	kmspb.KeyManagementServiceClient // every method rotation is not expected to call panics (nil)
	svc                              *k10Svc
	f                                *faultCtl // nil: no fault positions, no log
	env                              k10Env
	cancel                           context.CancelFunc
	rng                              *Rng
	// onDestroy is evaluated when a destroy request reaches the service, before it takes effect.
	onDestroy func(name string)
	// hook is called at the start of every call with its label (external events of scenario runs).
	hook func(label string)
	// polls counts GetCryptoKeyVersion calls per version; more than gen+3 polls of one version means
	// waitForKeyVersionGen does not stop
	polls map[string]int
}

// k10Diverged is the watchdog's panic: the implementation keeps polling a version whose state will not change.
type k10Diverged struct{ polls int }

func (c *k10Client) enter(label string) int {
	if c.hook != nil {
		c.hook(label)
	}
	if c.f == nil {
		return fOK
	}
	return c.f.enter(label)
}

func (c *k10Client) leave(o int) {
	if c.f != nil {
		c.f.leave(o)
	}
}

func (c *k10Client) CreateKeyRing(_ context.Context, in *kmspb.CreateKeyRingRequest, _ ...grpc.CallOption) (*kmspb.KeyRing, error) {
	o := c.enter("kms.ring")
	if o == fFail {
		return nil, errInjected
	}
	if in.GetParent()+"/keyRings/"+in.GetKeyRingId() != k10Ring {
		return nil, status.Error(codes.InvalidArgument, "k10: unexpected key ring")
	}
	var err error
	if c.svc.ringExists {
		err = status.Error(codes.AlreadyExists, "k10: key ring exists")
	}
	c.svc.ringExists = true
	c.leave(o)
	if err != nil {
		return nil, err
	}
	return &kmspb.KeyRing{Name: k10Ring}, nil
}

func (c *k10Client) CreateCryptoKey(_ context.Context, in *kmspb.CreateCryptoKeyRequest, _ ...grpc.CallOption) (*kmspb.CryptoKey, error) {
	o := c.enter("kms.key." + in.GetCryptoKeyId())
	if o == fFail {
		return nil, errInjected
	}
	name := in.GetParent() + "/cryptoKeys/" + in.GetCryptoKeyId()
	var err error
	if in.GetParent() != k10Ring || in.GetCryptoKey().GetPurpose() != kmspb.CryptoKey_ASYMMETRIC_SIGN ||
		in.GetCryptoKey().GetVersionTemplate().GetAlgorithm() != kmspb.CryptoKeyVersion_RSA_SIGN_PSS_4096_SHA256 {
		err = status.Error(codes.InvalidArgument, "k10: unexpected cryptoKey request")
	} else if c.svc.key(name) != nil {
		err = status.Error(codes.AlreadyExists, "k10: cryptoKey exists")
	} else {
		k := &k10Key{name: name, level: in.GetCryptoKey().GetVersionTemplate().GetProtectionLevel()}
		c.svc.keys = append(c.svc.keys, k)
		c.svc.newVersion(k, c.env.gen)
	}
	c.leave(o)
	if err != nil {
		return nil, err
	}
	return &kmspb.CryptoKey{Name: name}, nil
}

func (c *k10Client) ListCryptoKeys(_ context.Context, in *kmspb.ListCryptoKeysRequest, _ ...grpc.CallOption) (*kmspb.ListCryptoKeysResponse, error) {
	o := c.enter("kms.lk")
	if o == fFail {
		return nil, errInjected
	}
	resp := &kmspb.ListCryptoKeysResponse{TotalSize: int32(len(c.svc.keys))}
	if in.GetParent() == k10Ring && in.GetPageToken() == "" {
		for _, k := range c.svc.keys {
			resp.CryptoKeys = append(resp.CryptoKeys, &kmspb.CryptoKey{Name: k.name})
		}
	}
	c.leave(o)
	return resp, nil
}

func (c *k10Client) ListCryptoKeyVersions(_ context.Context, in *kmspb.ListCryptoKeyVersionsRequest, _ ...grpc.CallOption) (*kmspb.ListCryptoKeyVersionsResponse, error) {
	o := c.enter("kms.lv." + in.GetParent())
	if o == fFail {
		return nil, errInjected
	}
	resp := &kmspb.ListCryptoKeyVersionsResponse{}
	if k := c.svc.key(in.GetParent()); k != nil && in.GetPageToken() == "" {
		resp.TotalSize = int32(len(k.vers))
		for _, v := range k.vers {
			resp.CryptoKeyVersions = append(resp.CryptoKeyVersions, &kmspb.CryptoKeyVersion{Name: v.name, State: v.state})
		}
	}
	c.leave(o)
	return resp, nil
}

func (c *k10Client) CreateCryptoKeyVersion(_ context.Context, in *kmspb.CreateCryptoKeyVersionRequest, _ ...grpc.CallOption) (*kmspb.CryptoKeyVersion, error) {
	o := c.enter("kms.create")
	if o == fFail {
		return nil, errInjected
	}
	k := c.svc.key(in.GetParent())
	var v *k10Ver
	if k != nil {
		v = c.svc.newVersion(k, c.env.gen)
		if c.env.immediate {
			v.state, v.pend = ksEnabled, 0
			if c.env.final != 0 {
				v.state = c.env.final
			}
			v.pubWhenDisabled = true
		}
		if c.env.created != 0 {
			v.state, v.pend = c.env.created, 0
		}
	}
	c.leave(o)
	if v == nil {
		return nil, status.Error(codes.NotFound, "k10: no such cryptoKey")
	}
	st := v.state
	if c.env.resp != 0 {
		st = c.env.resp
	}
	return &kmspb.CryptoKeyVersion{Name: v.name, State: st}, nil
}

func (c *k10Client) GetCryptoKeyVersion(_ context.Context, in *kmspb.GetCryptoKeyVersionRequest, _ ...grpc.CallOption) (*kmspb.CryptoKeyVersion, error) {
	if c.polls == nil {
		c.polls = map[string]int{}
	}
	c.polls[in.GetName()]++
	if n := c.polls[in.GetName()]; n > c.env.gen+3 {
		panic(k10Diverged{n})
	}
	o := c.enter("kms.get." + in.GetName())
	if o == fFail {
		return nil, errInjected
	}
	v := c.svc.ver(in.GetName())
	var st kmspb.CryptoKeyVersion_CryptoKeyVersionState
	if v != nil {
		if v.state == ksPending {
			if v.pend == 0 {
				v.state = ksEnabled
				if c.env.final != 0 {
					v.state = c.env.final
				}
			} else {
				v.pend--
				if c.env.deadline && c.cancel != nil {
					c.cancel()
				}
			}
		}
		st = v.state
	}
	c.leave(o)
	if v == nil {
		return nil, status.Error(codes.NotFound, "k10: no such cryptoKeyVersion")
	}
	return &kmspb.CryptoKeyVersion{Name: v.name, State: st}, nil
}

func (c *k10Client) GetPublicKey(_ context.Context, in *kmspb.GetPublicKeyRequest, _ ...grpc.CallOption) (*kmspb.PublicKey, error) {
	o := c.enter("kms.pub." + in.GetName())
	if o == fFail {
		return nil, errInjected
	}
	v := c.svc.ver(in.GetName())
	c.leave(o)
	if v == nil {
		return nil, status.Error(codes.NotFound, "k10: no such cryptoKeyVersion")
	}
	if v.state != ksEnabled && !(v.state == ksDisabled && v.pubWhenDisabled) {
		return nil, status.Error(codes.FailedPrecondition, "k10: cryptoKeyVersion is not enabled")
	}
	der, err := x509.MarshalPKIXPublicKey(&k10PoolKey(v.key).PublicKey)
	must(err)
	p := string(pem.EncodeToMemory(&pem.Block{Type: "PUBLIC KEY", Bytes: der}))
	return &kmspb.PublicKey{Name: v.name, Pem: p, Algorithm: kmspb.CryptoKeyVersion_RSA_SIGN_PSS_4096_SHA256,
		PemCrc32C: wrapperspb.Int64(int64(crc32.Checksum([]byte(p), crc32.MakeTable(crc32.Castagnoli))))}, nil
}

func (c *k10Client) AsymmetricSign(_ context.Context, in *kmspb.AsymmetricSignRequest, _ ...grpc.CallOption) (*kmspb.AsymmetricSignResponse, error) {
	o := c.enter("kms.sign." + in.GetName())
	if o == fFail {
		return nil, errInjected
	}
	v := c.svc.ver(in.GetName())
	c.leave(o)
	if v == nil {
		return nil, status.Error(codes.NotFound, "k10: no such cryptoKeyVersion")
	}
	if v.state != ksEnabled {
		return nil, status.Error(codes.FailedPrecondition, "k10: cryptoKeyVersion is not enabled")
	}
	tab := crc32.MakeTable(crc32.Castagnoli)
	digest := in.GetDigest().GetSha256()
	if len(digest) != sha256.Size {
		return nil, status.Error(codes.InvalidArgument, "k10: want a SHA-256 digest")
	}
	vdig := in.GetDigestCrc32C() != nil && in.GetDigestCrc32C().GetValue() == int64(crc32.Checksum(digest, tab))
	vdat := in.GetDataCrc32C() != nil && in.GetDataCrc32C().GetValue() == int64(crc32.Checksum(in.GetData(), tab))
	if (in.GetDigestCrc32C() != nil && !vdig) || (in.GetDataCrc32C() != nil && !vdat) {
		return nil, status.Error(codes.InvalidArgument, "k10: request checksum mismatch")
	}
	sig, err := rsa.SignPSS(c.rng, k10PoolKey(v.key), crypto.SHA256, digest,
		&rsa.PSSOptions{SaltLength: rsa.PSSSaltLengthEqualsHash, Hash: crypto.SHA256})
	must(err)
	resp := &kmspb.AsymmetricSignResponse{Name: v.name, Signature: sig, VerifiedDigestCrc32C: vdig, VerifiedDataCrc32C: vdat,
		SignatureCrc32C: wrapperspb.Int64(int64(crc32.Checksum(sig, tab)))}
	switch c.env.corrupt {
	case "sigcrc":
		resp.SignatureCrc32C = wrapperspb.Int64(resp.SignatureCrc32C.GetValue() ^ 1)
	case "sigbit":
		resp.Signature[len(sig)/2] ^= 0x10
	case "vdata":
		resp.VerifiedDataCrc32C = false
	case "vdigest":
		resp.VerifiedDigestCrc32C = false
	}
	return resp, nil
}

func (c *k10Client) DestroyCryptoKeyVersion(_ context.Context, in *kmspb.DestroyCryptoKeyVersionRequest, _ ...grpc.CallOption) (*kmspb.CryptoKeyVersion, error) {
	o := c.enter("kms.destroy." + in.GetName())
	if o == fFail {
		return nil, errInjected
	}
	if c.onDestroy != nil {
		c.onDestroy(in.GetName())
	}
	v := c.svc.ver(in.GetName())
	ok := v != nil && (v.state == ksEnabled || v.state == ksDisabled)
	if ok {
		v.state = ksScheduled
	}
	c.leave(o)
	if v == nil {
		return nil, status.Error(codes.NotFound, "k10: no such cryptoKeyVersion")
	}
	if !ok {
		return nil, status.Error(codes.FailedPrecondition, "k10: cryptoKeyVersion is not enabled or disabled")
	}
	return &kmspb.CryptoKeyVersion{Name: v.name, State: ksScheduled}, nil
}

type k10IAM struct {
	iampb.IAMPolicyClient
	c *k10Client
}

func (i *k10IAM) SetIamPolicy(_ context.Context, in *iampb.SetIamPolicyRequest, _ ...grpc.CallOption) (*iampb.Policy, error) {
	o := i.c.enter("kms.iam")
	if o == fFail {
		return nil, errInjected
	}
	var members []string
	for _, b := range in.GetPolicy().GetBindings() {
		members = append(members, b.GetMembers()...)
	}
	i.c.svc.iam[in.GetResource()] = members
	i.c.leave(o)
	return in.GetPolicy(), nil
}

// manager returns the real gcpkms manager over this client.
func (c *k10Client) manager() *gcpkms.Manager {
	return &gcpkms.Manager{Project: k10Project, Location: k10Location, KeyRingID: k10RingID, KeyClient: c, IAMClient: &k10IAM{c: c}}
}
