package main

import (
	"bytes"
	"context"
	"crypto"
	"fmt"
	"io"
	"os"
	"path"
	"sort"
	"strconv"
	"strings"
	"time"

	"github.com/google/gce-tcb-verifier/endorse"
	"github.com/google/gce-tcb-verifier/keys"
	epb "github.com/google/gce-tcb-verifier/proto/endorsement"
	"github.com/google/gce-tcb-verifier/sev"
	styp "github.com/google/gce-tcb-verifier/sign/types"
	"github.com/google/gce-tcb-verifier/tdx"
	sgpb "github.com/google/go-sev-guest/proto/sevsnp"
	"github.com/google/uuid"
	"google.golang.org/protobuf/proto"
)

func init() {
	register("c15", "real endorse.VirtualFirmware over recording doubles for CertificateAuthority, Signer, VersionControl and "+
		"ChangeOps (one shared clock) with standard output captured, each run under recover. Exhaustive: dry-run x "+
		"measurement-only x technology subset (SEV, TDX, both) x snapshot dir x candidate name x overwrite x explicit/default "+
		"VMSA count x existing endorsement file x generated images; plus back-end configurations (none, ec.VCS, ec.VCSs, both), "+
		"missing key material, SVSM image, machine shapes; candidate names that need cleaning or are refused (rooted, climbing) x "+
		"snapshot x dry-run x measurement-only x retriable verdict. Compared: result class and the full effect log. Non-trivial: dry-run "+
		"or measurement-only is set and measuring succeeds; distinct by op line.", runC15)
}

type c15Rec struct {
	clock *int
	log   *[]c15Eff
}

type c15Eff struct {
	seq int
	s   string
}

func (r c15Rec) add(s string) {
	*r.clock++
	*r.log = append(*r.log, c15Eff{*r.clock, s})
}

type c15CA struct {
	styp.CertificateAuthority
	r c15Rec
}

func (c *c15CA) PrimarySigningKeyVersion(ctx context.Context) (string, error) {
	c.r.add("ca.primary")
	return c.CertificateAuthority.PrimarySigningKeyVersion(ctx)
}
func (c *c15CA) Certificate(ctx context.Context, k string) ([]byte, error) {
	c.r.add("ca.cert")
	return c.CertificateAuthority.Certificate(ctx, k)
}
func (c *c15CA) CABundle(ctx context.Context, k string) ([]byte, error) {
	c.r.add("ca.bundle")
	return c.CertificateAuthority.CABundle(ctx, k)
}
func (c *c15CA) PrimaryRootKeyVersion(ctx context.Context) (string, error) {
	c.r.add("ca.other")
	return c.CertificateAuthority.PrimaryRootKeyVersion(ctx)
}
func (c *c15CA) NewMutation() styp.CertificateAuthorityMutation {
	c.r.add("ca.other")
	return c.CertificateAuthority.NewMutation()
}
func (c *c15CA) Finalize(ctx context.Context, m styp.CertificateAuthorityMutation) error {
	c.r.add("ca.other")
	return c.CertificateAuthority.Finalize(ctx, m)
}
func (c *c15CA) PrepareResources(ctx context.Context) error {
	c.r.add("ca.other")
	return c.CertificateAuthority.PrepareResources(ctx)
}
func (c *c15CA) Wipeout(ctx context.Context) error {
	c.r.add("ca.other")
	return nil
}

type c15Signer struct {
	styp.Signer
	r      c15Rec
	signed *[]string
}

func (s *c15Signer) Sign(ctx context.Context, k string, d styp.Digest, o crypto.SignerOpts) ([]byte, error) {
	s.r.add("sign")
	*s.signed = append(*s.signed, hx(d.SHA256))
	return s.Signer.Sign(ctx, k, d, o)
}
func (s *c15Signer) PublicKey(ctx context.Context, k string) ([]byte, error) {
	s.r.add("signer.other")
	return s.Signer.PublicKey(ctx, k)
}

type c15Case struct {
	r        c06Req // measuring / signing part of the request (sign field unused)
	mo, dry  bool
	snap, ow bool
	svsmImg  bool
	cand     string
	budget   int
	vcsMode  string // none one list both
	exists   bool
	mread    byte
	// retriable: what the back end answers when asked about an error the code produced itself
	retriable bool
}

// c15Refused: the candidate name, cleaned with Go's package path, is rooted or climbs out of the output
// directory — defaultGenerateBasename refuses it (manifest mode only; a snapshot run uses no candidate name).
func c15Refused(cs c15Case) bool {
	b := path.Clean(endorseBasename(cs.cand))
	return !cs.snap && (path.IsAbs(b) || strings.HasPrefix(b, "../"))
}

// captureStdout runs f with os.Stdout redirected and returns what was printed.
func captureStdout(f func()) string {
	old := os.Stdout
	rd, wr, err := os.Pipe()
	if err != nil {
		panic(err)
	}
	os.Stdout = wr
	done := make(chan string)
	go func() {
		b, _ := io.ReadAll(rd)
		done <- string(b)
	}()
	func() {
		defer func() {
			os.Stdout = old
			wr.Close()
		}()
		f()
	}()
	return <-done
}

type c15Result struct {
	res      string
	effs     []string
	stdout   []string
	signed   []string
	vcss     []*c14VCS
	panicTop string
}

func c15Run(cs c15Case) (c15Result, string) {
	r := cs.r
	signer, ca := memKeys()
	clock := 0
	var log []c15Eff
	rec := c15Rec{&clock, &log}
	var signed []string
	ec := &endorse.Context{Image: r.im.fw, ClSpec: r.cl, Commit: r.commit, Timestamp: r.ts, SvsmSnpMeasurement: r.svsm,
		CommitRetries: cs.budget, OutDir: "out", CandidateName: cs.cand, ImageName: "fw.fd", DryRun: cs.dry, MeasurementOnly: cs.mo}
	if r.snp {
		ec.SevSnp = &sev.SnpEndorsementRequest{Svn: r.svn, FamilyID: r.fam, ImageID: r.iid, LaunchVmsas: r.vm,
			Product: sgpb.SevProduct_SevProductName(r.prod)}
	}
	if r.tdx {
		ec.Tdx = &tdx.EndorsementRequest{Svn: r.tsvn, IncludeEarlyAccept: r.early, MachineShapes: append([]string{}, r.shapes...)}
	}
	if cs.snap {
		ec.SnapshotDir = "snap"
	}
	if cs.svsmImg {
		ec.SvsmImage = []byte("svsm image")
	}
	att := c14Attempt{failAt: -1, exists: cs.exists, mread: cs.mread, retriable: cs.retriable}
	if cs.mread == 'M' {
		att.entries = []mEntry{{"rc7.binarypb", "b1", "1"}}
	}
	mkVCS := func() *c14VCS {
		return &c14VCS{script: []c14Attempt{att, att, att}, attempt: -1, clock: &clock, files: map[string][]byte{}}
	}
	var vcss []*c14VCS // identity 0 = ec.VCS, j+1 = ec.VCSs[j]
	var vcsField, vcssField string = "-", ""
	script := c14ShowScript([]c14Attempt{att, att, att})
	v0, v1, v2 := mkVCS(), mkVCS(), mkVCS()
	vcss = []*c14VCS{v0, v1, v2}
	switch cs.vcsMode {
	case "one":
		ec.VCS = v0
		vcsField = script
	case "list":
		ec.VCSs = []endorse.VersionControl{v1, v2}
		vcssField = script + "^" + script
	case "both":
		ec.VCS = v0
		ec.VCSs = []endorse.VersionControl{v1}
		vcsField, vcssField = script, script
	}
	ctx := quietCtx(cs.ow)
	switch r.keysMode {
	case "none":
	case "noca":
		ctx = keys.NewContext(ctx, &keys.Context{Signer: &c15Signer{signer, rec, &signed}, Random: &Rng{s: 3}})
	case "nosigner":
		ctx = keys.NewContext(ctx, &keys.Context{CA: &c15CA{ca, rec}, Random: &Rng{s: 3}})
	default:
		ctx = keys.NewContext(ctx, &keys.Context{CA: &c15CA{ca, rec}, Signer: &c15Signer{signer, rec, &signed}, Random: &Rng{s: 3}})
	}
	ctx = endorse.NewContext(ctx, ec)
	uuid.SetRand(&Rng{s: r.rndSeed})
	rnd := c06ExpectedRandomUUID(r.rndSeed)

	// measurement tables for the model, by direct calls
	var lds, mrs []string
	counts := []uint32{r.vm}
	if r.vm == 0 {
		counts = c06SupportedCounts
	}
	if r.snp {
		for _, k := range counts {
			v := "E"
			if d := r.im.launchDigest(k, r.prod); d != nil {
				v = hx(d)
			}
			lds = append(lds, fmt.Sprintf("%d/%d:%s", k, r.prod, v))
		}
	}
	if r.tdx {
		for _, s := range r.shapes {
			for _, m := range []string{"b", "e"} {
				v := "E"
				if d := r.im.mrtd(s, m); d != nil {
					v = hx(d)
				}
				mrs = append(mrs, s+"/"+m+":"+v)
			}
		}
		v := "E"
		if d := r.im.mrtd("", "d"); d != nil {
			v = hx(d)
		}
		mrs = append(mrs, "/d:"+v)
	}
	line := fmt.Sprintf("c15 op=vf mo=%s dry=%s snap=%s ow=%s svsm=%s cand=%s root=R out=out sdir=snap imgname=fw.fd budget=%d vcs=%s vcss=%s "+
		"snp=%s svn=%d fam=%s iid=%s vm=%d prod=%d rnd=%s tdx=%s tsvn=%d early=%s shapes=%s cl=%d commit=%s svsm_m=%s keys=%s caerr=none signerr=0 ts=%d.%d ld=%s mrtd=%s img=%s",
		b2s(cs.mo), b2s(cs.dry), b2s(cs.snap), b2s(cs.ow), b2s(cs.svsmImg), cs.cand, cs.budget, vcsField, vcssField,
		b2s(r.snp), r.svn, r.fam, r.iid, r.vm, r.prod, rnd, b2s(r.tdx), r.tsvn, b2s(r.early), strings.Join(r.shapes, ","), r.cl, hx(r.commit),
		hx(r.svsm), r.keysMode, r.ts.Unix(), r.ts.Nanosecond(), strings.Join(lds, ";"), strings.Join(mrs, ";"), hx(r.im.fw))

	var err error
	var panicked bool
	var pmsg, stack string
	out := captureStdout(func() {
		panicked, pmsg, stack = Guard(func() { err = endorse.VirtualFirmware(ctx) })
	})
	res := c15Result{res: "ok", signed: signed, vcss: vcss}
	if panicked {
		res.res = "panic"
		res.panicTop = "unknown"
		for _, l := range strings.Split(stack, "\n") {
			if strings.Contains(l, "gce-tcb-verifier/") && !strings.Contains(l, "verif-harness") && strings.Contains(l, "(") {
				f := l[:strings.LastIndex(l, "(")]
				res.panicTop = tok(f[strings.LastIndex(f, "/")+1:])
				break
			}
		}
		_ = pmsg
	} else if err != nil {
		res.res = "err"
	}
	// merge the doubles' logs on the shared clock
	type item struct {
		seq int
		s   string
	}
	var items []item
	for _, e := range log {
		items = append(items, item{e.seq, e.s})
	}
	for i, v := range vcss {
		for _, e := range v.log {
			items = append(items, item{e.seq, fmt.Sprintf("v%d:%s", i, c14ShowLog([]c14Ev{e}))})
		}
	}
	sort.Slice(items, func(a, b int) bool { return items[a].seq < items[b].seq })
	for _, it := range items {
		res.effs = append(res.effs, it.s)
	}
	for _, l := range strings.Split(out, "\n") {
		if l != "" {
			res.stdout = append(res.stdout, l)
		}
	}
	// map iteration order of the default VMSA listing: sort "count hex" lines numerically
	lines := append([]string{}, res.stdout...)
	if r.snp && r.vm == 0 && cs.mo {
		n := 0
		for n < len(lines) && !strings.HasPrefix(lines[n], "RAM:") {
			n++
		}
		sort.SliceStable(lines[:n], func(a, b int) bool {
			x, _ := strconv.Atoi(strings.SplitN(lines[a], " ", 2)[0])
			y, _ := strconv.Atoi(strings.SplitN(lines[b], " ", 2)[0])
			return x < y
		})
	}
	for _, l := range lines {
		res.effs = append(res.effs, "out:"+strings.ReplaceAll(l, " ", "_"))
	}
	return res, line
}

func c15ShortLine(line string) string {
	if i := strings.Index(line, " ld="); i > 0 {
		return line[:i] + " ld=<direct> mrtd=<direct> img=<generated>"
	}
	return line
}

func runC15(c *Ctx) {
	mk := func(name string, size int, tag byte, s, t bool, nTemp int) *c06Image {
		return &c06Image{name: name, fw: c06Firmware(size, tag, s, t, nTemp), ld: map[string][]byte{}, mr: map[string][]byte{}}
	}
	images := []*c06Image{mk("both-8k-a", 0x2000, 21, true, true, 0), mk("both-8k-b", 0x2000, 22, true, true, 0),
		mk("both-12k", 0x3000, 23, true, true, 2)}
	sevOnly := mk("sev-only", 0x2000, 24, true, false, 0)
	base := c06Req{svn: 7, tsvn: 9, cl: 123456789, commit: bytes.Repeat([]byte{0xcd}, 20), ts: baseTime, keysMode: "full", caErr: "none",
		iid: "87654321-dead-beef-c0de-123456789abc", rndSeed: 5, prod: 1}
	// what a real run signed / a dry run signed, keyed by the request without the dry flag
	realSigned := map[string]string{}
	one := func(cs c15Case, tag string) {
		res, line := c15Run(cs)
		short := c15ShortLine(line)
		find := func(clause, what string) { c.Find("c15/VirtualFirmware/"+clause, what, short) }
		measOK, _ := c06Constituents(cs.r)
		c.Case(line, fmt.Sprintf("res=%s eff=%s", res.res, strings.Join(res.effs, ",")), (cs.dry || cs.mo) && measOK)
		c.Count(fmt.Sprintf("%s/mo%s-dry%s/%s", tag, b2s(cs.mo), b2s(cs.dry), res.res))
		// ---- direct oracle ----
		if res.res == "panic" {
			find("panic/"+res.panicTop, "endorse.VirtualFirmware panicked (top repository frame "+res.panicTop+")")
			return
		}
		for _, e := range res.effs {
			kind := e
			if i := strings.Index(e, ":"); i > 0 {
				kind = e[:i]
			}
			isVcs := len(kind) == 2 && kind[0] == 'v'
			call := ""
			if isVcs {
				call = strings.SplitN(e[3:], "@", 2)[0]
			}
			if cs.dry && isVcs && call != "result" && !(call == "retriable" && c15Refused(cs)) {
				// RetriableError about a refused candidate name is a question, not an effect
				find("dry-run-side-effect/"+call, "with dry-run the back end saw a "+call+" call")
			}
			if cs.dry && isVcs && call == "result" && strings.Split(e[3:], "@")[2] == "1" {
				find("dry-run-side-effect/commit-recorded", "with dry-run a commit was handed to Result")
			}
			if cs.mo && !strings.HasPrefix(e, "out:") {
				cls := "vcs"
				if strings.HasPrefix(e, "ca.") {
					cls = "ca"
				} else if strings.HasPrefix(e, "sign") {
					cls = "signer"
				}
				find("measurement-only-side-effect/"+cls, "with measurement-only the "+cls+" double was called: "+kind)
			}
			if !cs.mo && strings.HasPrefix(e, "out:") {
				find("stdout-without-measurement-only", "a run without measurement-only printed on standard output")
			}
		}
		for _, v := range res.vcss {
			for _, a := range v.anomalies {
				find("backend-misuse/"+strings.SplitN(a, ":", 2)[0], "the VersionControl double observed: "+a)
			}
			if cs.dry && len(v.files) > 0 {
				find("dry-run-side-effect/file-written", "with dry-run a file was written")
			}
		}
		keysOK := cs.r.keysMode == "full"
		backendOK := cs.snap || cs.ow || !cs.exists || cs.vcsMode == "none"
		if c15Refused(cs) && cs.vcsMode != "none" {
			backendOK = false
			if !cs.mo && measOK && keysOK && res.res == "ok" {
				find("refused-name-accepted", "a run with a rooted or climbing candidate name reported success")
			}
		}
		if (cs.mo && measOK) || (cs.dry && measOK && keysOK && !(c15Refused(cs) && cs.vcsMode != "none")) || (measOK && keysOK && backendOK) {
			if res.res != "ok" {
				find("does-not-complete", "the run failed although measuring, signing and (for a real run) the back end succeed")
			}
		}
		if !measOK && res.res == "ok" {
			find("success-despite-failed-measurement", "the run succeeded although a measurement fails")
		}
		// same measurements
		if cs.mo && measOK {
			var want []string
			r := cs.r
			if r.snp {
				if r.vm != 0 {
					want = append(want, hx(r.im.launchDigest(r.vm, r.prod)))
				} else {
					for _, k := range c06SupportedCounts {
						want = append(want, fmt.Sprintf("%d %s", k, hx(r.im.launchDigest(k, r.prod))))
					}
				}
			}
			if r.tdx {
				for _, s := range r.shapes {
					want = append(want, fmt.Sprintf("RAM:%d UnacceptedMemory:true MRTD:%s", c06ShapeRAM[s], hx(r.im.mrtd(s, "b"))))
					if r.early {
						want = append(want, fmt.Sprintf("RAM:%d UnacceptedMemory:false MRTD:%s", c06ShapeRAM[s], hx(r.im.mrtd(s, "e"))))
					}
				}
				want = append(want, fmt.Sprintf("RAM:0 UnacceptedMemory:true MRTD:%s", hx(r.im.mrtd("", "d"))))
			}
			got := append([]string{}, res.stdout...)
			sort.Strings(got)
			sort.Strings(want)
			if strings.Join(got, "|") != strings.Join(want, "|") {
				find("measurement-only-values", "the printed measurements are not the independently recomputed measurements of this image")
			} else {
				c.Count("same/measurement-only-prints-recomputed")
			}
		}
		if !cs.mo && measOK && keysOK {
			key := strings.Replace(short, " dry="+b2s(cs.dry), " dry=*", 1)
			if len(res.signed) != 1 {
				find("signed-count", fmt.Sprintf("%d documents were signed", len(res.signed)))
			} else if !cs.dry {
				realSigned[key] = res.signed[0]
				// the document the real run wrote is the measured one
				for _, v := range res.vcss {
					for p, b := range v.files {
						if strings.HasSuffix(p, ".binarypb") || strings.HasSuffix(p, ".signed") {
							e := &epb.VMLaunchEndorsement{}
							g := &epb.VMGoldenMeasurement{}
							if proto.Unmarshal(b, e) != nil || proto.Unmarshal(e.SerializedUefiGolden, g) != nil {
								find("written-endorsement-undecodable", "the endorsement file does not decode")
								continue
							}
							c06OracleGolden(c, cs.r, g, c06ExpectedRandomUUID(cs.r.rndSeed), func(entry, clause, what string) {
								find("written-document/"+clause, what)
							}, "VirtualFirmware")
						}
					}
				}
			} else if cs.r.snp && cs.r.vm == 0 {
				// the SNP measurement map has 15 entries and protobuf serialises a map in Go's random
				// iteration order, so the signed SHA-256 is not reproducible; compared for explicit counts
				c.Count("note/dry-vs-real-digest-not-comparable-map-order")
			} else if want, ok := realSigned[key]; ok && want != res.signed[0] {
				find("dry-run-signs-different-document", "the document a dry run signs differs from the one the real run signs for the same request")
			} else if !ok {
				c.Count("note/dry-without-real-counterpart")
			} else {
				c.Count("same/dry-signs-what-real-signs")
			}
		}
	}
	// ---- exhaustive flag combinations ----
	for _, im := range images {
		for _, tech := range [][2]bool{{true, false}, {false, true}, {true, true}} {
			for _, vm := range []uint32{0, 2} {
				if !tech[0] && vm != 0 {
					continue
				}
				for _, snap := range []bool{false, true} {
					for _, cand := range []string{"", "rc0"} {
						for _, ow := range []bool{false, true} {
							for _, exists := range []bool{false, true} {
								if snap && exists {
									continue
								}
								for _, mo := range []bool{false, true} {
									for _, dry := range []bool{false, true} { // real run first: its signed document is the reference
										r := base
										r.im, r.snp, r.tdx, r.vm = im, tech[0], tech[1], vm
										if tech[1] {
											r.shapes = []string{"c3-standard-4"}
											r.early = vm == 0
										}
										cs := c15Case{r: r, mo: mo, dry: dry, snap: snap, ow: ow, cand: cand, budget: 2, vcsMode: "one",
											exists: exists, mread: map[bool]byte{false: 'N', true: 'M'}[exists]}
										one(cs, "flags")
									}
								}
							}
						}
					}
				}
			}
		}
	}
	// ---- candidate names that need cleaning or are refused (rooted, climbing), real and dry ----
	for _, cand := range []string{"x/../rc0", "sub//rc1", "./rc0/", "é/日本", "/rc0", "../x", "../out/rc0", "a/../../x"} {
		for _, snap := range []bool{false, true} {
			for _, retr := range []bool{false, true} {
				for _, mo := range []bool{false, true} {
					for _, dry := range []bool{false, true} {
						r := base
						r.im, r.snp, r.tdx, r.vm = images[0], true, false, 1
						cs := c15Case{r: r, mo: mo, dry: dry, snap: snap, cand: cand, budget: 1, vcsMode: "one", mread: 'N', retriable: retr}
						one(cs, "names")
					}
				}
			}
		}
	}
	// ---- back-end configurations, key material, SVSM, shapes, failing measurements ----
	for _, vcsMode := range []string{"none", "one", "list", "both"} {
		for _, keysMode := range []string{"full", "none", "noca", "nosigner"} {
			for _, snap := range []bool{false, true} {
				for _, mo := range []bool{false, true} {
					for _, dry := range []bool{false, true} {
						r := base
						r.im, r.snp, r.tdx, r.vm, r.keysMode = images[0], true, true, 1, keysMode
						r.shapes, r.early = []string{"c3-standard-8", "c3-standard-176"}, true
						r.svsm = bytes.Repeat([]byte{7}, 48)
						cs := c15Case{r: r, mo: mo, dry: dry, snap: snap, cand: "rc1", budget: 0, vcsMode: vcsMode, svsmImg: snap, mread: 'M'}
						one(cs, "backends")
					}
				}
			}
		}
	}
	for _, im := range []*c06Image{sevOnly} { // TDX requested on an image without TDX metadata: measuring fails
		for _, mo := range []bool{false, true} {
			for _, dry := range []bool{false, true} {
				r := base
				r.im, r.snp, r.tdx, r.vm = im, true, true, 1
				one(c15Case{r: r, mo: mo, dry: dry, cand: "rc0", budget: 1, vcsMode: "one", mread: 'N'}, "failing")
				r.tdx = false
				r.fam = "not_a_guid"
				one(c15Case{r: r, mo: mo, dry: dry, cand: "rc0", budget: 1, vcsMode: "one", mread: 'N'}, "failing")
			}
		}
	}
	// ---- random mixtures (thorough: more) ----
	nr := c.N(150, 4000)
	shapeLists := [][]string{nil, {"c3-standard-4"}, {"c3-standard-44", "c3-standard-4"}, {"c3-standard-176", "c3-standard-88", "c3-standard-22"}}
	for i := 0; i < nr; i++ {
		r := base
		r.im = images[c.Rng.Intn(len(images))]
		switch c.Rng.Intn(3) {
		case 0:
			r.snp = true
		case 1:
			r.tdx = true
		default:
			r.snp, r.tdx = true, true
		}
		r.vm = []uint32{0, 1, 2, 5}[c.Rng.Intn(4)]
		r.prod = 1 + c.Rng.Intn(2)
		r.svn = []uint32{0, 3}[c.Rng.Intn(2)]
		r.tsvn = []uint32{0, 4}[c.Rng.Intn(2)]
		r.shapes, r.early = shapeLists[c.Rng.Intn(len(shapeLists))], c.Rng.Bool()
		if c.Rng.Bool() {
			r.iid = ""
		}
		r.rndSeed = c.Rng.Next()
		r.ts = baseTime.Add(time.Duration(c.Rng.Intn(100000)) * time.Second)
		cs := c15Case{r: r, snap: c.Rng.Bool(), ow: c.Rng.Bool(), svsmImg: c.Rng.Bool(), cand: []string{"", "rc0", "rc9"}[c.Rng.Intn(3)],
			budget: c.Rng.Intn(4) - 1, vcsMode: []string{"one", "one", "list", "both", "none"}[c.Rng.Intn(5)], exists: c.Rng.Intn(3) == 0}
		cs.mread = []byte{'N', 'M'}[c.Rng.Intn(2)]
		for _, md := range [][2]bool{{false, false}, {false, true}, {true, false}, {true, true}} {
			cs.mo, cs.dry = md[0], md[1]
			one(cs, "random")
		}
	}
}
