package main

import (
	"bytes"
	"context"
	"fmt"
	"os"
	"path/filepath"

	gcmd "github.com/google/gce-tcb-verifier/gcetcbendorsement/cmd"
	epb "github.com/google/gce-tcb-verifier/proto/endorsement"
	"google.golang.org/protobuf/proto"
)

// c19CliOut drives `gcetcbendorsement inspect {payload,signature,mask --path P} FILE --bytesform bin --out OUT`
// in-process with the real OSIO back end on a scratch directory. OUT is absent, or present with contents longer
// than / as long as / shorter than the field. The op line is the `bytes` op of the stream (model:
// writeBytesForm raw), the implementation's answer is the bytes found in OUT after the command.
func c19CliOut(c *Ctx, r *Rng) {
	dir, err := os.MkdirTemp("", "verif-c19-")
	if err != nil {
		panic(err)
	}
	defer os.RemoveAll(dir)
	n := c.N(60, 600)
	for i := 0; i < n; i++ {
		flen := []int{1, 2, 16, 20, 48, 256, 512}[r.Intn(7)]
		field := r.Bytes(flen)
		which := r.Intn(3)
		g := &epb.VMGoldenMeasurement{ClSpec: 7, Commit: []byte("a commit")}
		e := &epb.VMLaunchEndorsement{Signature: []byte("sig")}
		args := []string{"inspect"}
		switch which {
		case 0:
			e.SerializedUefiGolden = field
			args = append(args, "payload")
		case 1:
			e.Signature = field
			args = append(args, "signature")
		default:
			g.Commit = field
			args = append(args, "mask", "--path", "commit")
		}
		if which != 0 {
			gb, err := proto.Marshal(g)
			if err != nil {
				panic(err)
			}
			e.SerializedUefiGolden = gb
		}
		eb, err := proto.Marshal(e)
		if err != nil {
			panic(err)
		}
		in := filepath.Join(dir, "in.binarypb")
		if err := os.WriteFile(in, eb, 0o644); err != nil {
			panic(err)
		}
		out := filepath.Join(dir, "out.bin")
		os.Remove(out)
		prior := []string{"absent", "longer", "equal", "shorter", "empty"}[r.Intn(5)]
		switch prior {
		case "longer":
			os.WriteFile(out, bytes.Repeat([]byte{0xee}, flen+1+r.Intn(300)), 0o644)
		case "equal":
			os.WriteFile(out, bytes.Repeat([]byte{0xee}, flen), 0o644)
		case "shorter":
			os.WriteFile(out, bytes.Repeat([]byte{0xee}, r.Intn(flen)), 0o644)
		case "empty":
			os.WriteFile(out, nil, 0o644)
		}
		args = append(args, in, "--bytesform", "bin", "--out", out)
		var runErr error
		pan, pmsg, _ := Guard(func() {
			root := gcmd.MakeRoot(gcmd.VerifWithBackend(context.Background(), &gcmd.Backend{IO: gcmd.OSIO{}}))
			root.SetArgs(args)
			root.SilenceErrors, root.SilenceUsage = true, true
			runErr = root.Execute()
		})
		entry := []string{"payload", "signature", "mask"}[which]
		op := fmt.Sprintf("c19 op=bytes form=raw term=0 b=%s", hx(field))
		replay := fmt.Sprintf("inspect %s --bytesform bin --out FILE, FILE %s before the run, field=%s", entry, prior, hx(field))
		c.Count("cliout/" + entry + "-" + prior)
		switch {
		case pan:
			c.Find("c19/cli-inspect-"+entry+"/no-panic", "the inspect command panicked: "+pmsg, replay)
			c.Case(op, "panic", true)
		case runErr != nil:
			c.Find("c19/cli-inspect-"+entry+"/fails", "the inspect command failed on a well-formed endorsement: "+tok(runErr.Error()), replay)
			c.Case(op, "reject", true)
		default:
			got, err := os.ReadFile(out)
			if err != nil {
				c.Find("c19/cli-inspect-"+entry+"/no-output", "the inspect command wrote no output file", replay)
				c.Case(op, "reject", true)
				continue
			}
			if !bytes.Equal(got, field) {
				c.Find("c19/cli-inspect-"+entry+"/raw-bytes/out-file-"+prior, fmt.Sprintf("the file written by --out holds %d bytes, the field has %d: not the exact field bytes", len(got), len(field)), replay+" got="+hx(got))
			}
			c.Case(op, "ok out="+hx(got), true)
		}
	}
}
