package main

// C20 — Cloud KMS signing and key lifecycle are integrity-checked and complete.
//
// The real keys/gcpkms code (Signer.Sign, Manager.Wipeout, CreateNewRootKey, CreateFirstSigningKey,
// CreateNewSigningKeyVersion) runs in-process against c20KMS, a model of the Cloud KMS client with
// configurable pagers, scripted answers, fault injection by call index and a call-count watchdog.
// The same configuration goes to the Lean model (Model/Kms.lean) through the op line; results, call
// logs and final key-version states are compared.  The direct oracle is evaluated on the
// implementation's observables alone.

import (
	"context"
	"crypto"
	"crypto/rsa"
	"errors"
	"fmt"
	"hash/crc32"
	"io"
	"os"
	"sort"
	"strconv"
	"strings"
	"sync"
	"time"

	"cloud.google.com/go/iam/apiv1/iampb"
	"cloud.google.com/go/kms/apiv1/kmspb"
	"github.com/google/gce-tcb-verifier/cmd/output"
	"github.com/google/gce-tcb-verifier/keys/gcpkms"
	styp "github.com/google/gce-tcb-verifier/sign/types"
	"google.golang.org/grpc"
	"google.golang.org/grpc/codes"
	"google.golang.org/grpc/status"
	"google.golang.org/protobuf/types/known/wrapperspb"
)

func init() {
	register("c20", "five sub-streams against an in-process KMS client model: (crc) Lean CRC32C vs hash/crc32; (sign) "+
		"Signer.Sign over option kinds x scripted responses (every single-bit flip of the signature, CRC off by one, "+
		"verified flags, wrong name, nil response, RPC error); (wipeout) Manager.Wipeout over key/version counts "+
		"0..2*page+1 x pager plans (one page, full pages, full+empty, short pages with tokens, empty pages with tokens) x "+
		"state mixes x every single fault position on small rings; (boot) CreateNewRootKey/CreateFirstSigningKey over "+
		"version lists x pagers x enabled/pending positions x glue flags x poll scripts; (rotate) "+
		"CreateNewSigningKeyVersion over create answers x poll scripts x faults. Non-trivial: the service received at "+
		"least two calls (wipeout/boot/rotate), a request was sent (sign), or the input is non-empty (crc); distinct by op line.", runC20)
}

// ---------------------------------------------------------------------------------------------
// the KMS client model

type c20Diverged struct{}

var errC20Injected = errors.New("c20: injected service error")

const (
	c20Enabled   = int32(kmspb.CryptoKeyVersion_ENABLED)
	c20Disabled  = int32(kmspb.CryptoKeyVersion_DISABLED)
	c20Scheduled = int32(kmspb.CryptoKeyVersion_DESTROY_SCHEDULED)
	c20Pending   = int32(kmspb.CryptoKeyVersion_PENDING_GENERATION)
)

type c20Ver struct {
	short, full string
	state       int32
}

type c20Key struct {
	short, full string
	vers        []*c20Ver
	plan        []int
}

type c20KMS struct {
	kmspb.KeyManagementServiceClient
	ring  string
	keys  []*c20Key
	kplan []int
	cyc   bool
	total int // TotalSize reported by ListCryptoKeyVersions; -1 = number of versions
	fail  map[int]bool
	limit int

	calls      int
	log        []string
	pageSizes  map[int32]bool
	listFailed bool
	lvCalls    map[string]int
	lkCalls    int
	destroyed  map[string]int   // destroy calls per version (short name)
	reported   map[string]int32 // latest state the service reported to the client, per full version name

	ringExists, keyExists bool
	createVerState        int32
	gets                  []int32
	nget                  int
	gname                 bool

	signResp  *kmspb.AsymmetricSignResponse
	signErr   bool
	signReq   *kmspb.AsymmetricSignRequest
	signCalls int
}

func newC20KMS(limit int) *c20KMS {
	return &c20KMS{ring: "projects/p/locations/l/keyRings/r", total: -1, fail: map[int]bool{}, limit: limit,
		pageSizes: map[int32]bool{}, lvCalls: map[string]int{}, destroyed: map[string]int{}, reported: map[string]int32{}}
}

func (f *c20KMS) addKey(short string, states []int32, plan []int) *c20Key {
	k := &c20Key{short: short, full: f.ring + "/cryptoKeys/" + short, plan: plan}
	if short == "K" {
		k.full = f.ring + "/cryptoKeys/kid"
	}
	for j, s := range states {
		k.vers = append(k.vers, &c20Ver{short: fmt.Sprintf("%s/%d", short, j+1), full: fmt.Sprintf("%s/cryptoKeyVersions/%d", k.full, j+1), state: s})
	}
	f.keys = append(f.keys, k)
	return k
}

// enter counts the call, fires the watchdog and says whether this call must fail.
func (f *c20KMS) enter() bool {
	idx := f.calls
	f.calls++
	if f.calls > f.limit {
		panic(c20Diverged{})
	}
	return f.fail[idx]
}

func (f *c20KMS) rec(entry string, ok bool) {
	if !ok {
		entry += "!"
	}
	f.log = append(f.log, entry)
}

func (f *c20KMS) keyByFull(full string) *c20Key {
	for _, k := range f.keys {
		if k.full == full {
			return k
		}
	}
	return nil
}

func (f *c20KMS) verByFull(full string) *c20Ver {
	for _, k := range f.keys {
		if strings.HasPrefix(full, k.full+"/") {
			for _, v := range k.vers {
				if v.full == full {
					return v
				}
			}
		}
	}
	return nil
}

func (f *c20KMS) shortVer(full string) string {
	if v := f.verByFull(full); v != nil {
		return v.short
	}
	for _, k := range f.keys {
		if full == k.full+"/cryptoKeyVersions/c" {
			return k.short + "/c"
		}
	}
	if full == "X" {
		return "X"
	}
	return "?" + tok(full)
}

func (f *c20KMS) shortKey(full string) string {
	if k := f.keyByFull(full); k != nil {
		return k.short
	}
	return "?" + tok(full)
}

func c20TokIdx(t string) (int, bool) {
	if t == "" {
		return 0, true
	}
	if strings.HasPrefix(t, "t") {
		if n, err := strconv.Atoi(t[1:]); err == nil && n >= 0 {
			return n, true
		}
	}
	return 0, false
}

// c20Page is the pager every listing of the model follows: page m holds plan[m] items, its token is
// t<m> ("" for the first); the last page ends the listing (or points back at page 1 when cyc).
func c20Page(n int, plan []int, cyc bool, token string) (lo, hi int, next string) {
	m, ok := c20TokIdx(token)
	if !ok || m >= len(plan) {
		return 0, 0, ""
	}
	for i := 0; i < m; i++ {
		lo += plan[i]
	}
	hi = lo + plan[m]
	if lo > n {
		lo = n
	}
	if hi > n {
		hi = n
	}
	if m+1 < len(plan) {
		next = fmt.Sprintf("t%d", m+1)
	} else if cyc && len(plan) >= 2 {
		next = "t1"
	}
	return
}

func (f *c20KMS) ListCryptoKeys(_ context.Context, in *kmspb.ListCryptoKeysRequest, _ ...grpc.CallOption) (*kmspb.ListCryptoKeysResponse, error) {
	bad := f.enter()
	f.lkCalls++
	f.pageSizes[in.GetPageSize()] = true
	entry := "LK:" + tok(in.GetPageToken())
	if in.GetParent() != f.ring {
		entry = "LK?:" + tok(in.GetPageToken())
	}
	if bad {
		f.listFailed = true
		f.rec(entry, false)
		return nil, errC20Injected
	}
	f.rec(entry, true)
	lo, hi, next := c20Page(len(f.keys), f.kplan, false, in.GetPageToken())
	resp := &kmspb.ListCryptoKeysResponse{NextPageToken: next, TotalSize: int32(len(f.keys))}
	for _, k := range f.keys[lo:hi] {
		resp.CryptoKeys = append(resp.CryptoKeys, &kmspb.CryptoKey{Name: k.full})
	}
	return resp, nil
}

func (f *c20KMS) ListCryptoKeyVersions(_ context.Context, in *kmspb.ListCryptoKeyVersionsRequest, _ ...grpc.CallOption) (*kmspb.ListCryptoKeyVersionsResponse, error) {
	bad := f.enter()
	f.pageSizes[in.GetPageSize()] = true
	ks := f.shortKey(in.GetParent())
	f.lvCalls[ks]++
	entry := "LV:" + ks + ":" + tok(in.GetPageToken())
	if bad {
		f.listFailed = true
		f.rec(entry, false)
		return nil, errC20Injected
	}
	f.rec(entry, true)
	k := f.keyByFull(in.GetParent())
	if k == nil {
		return &kmspb.ListCryptoKeyVersionsResponse{}, nil
	}
	lo, hi, next := c20Page(len(k.vers), k.plan, f.cyc, in.GetPageToken())
	total := int32(len(k.vers))
	if f.total >= 0 {
		total = int32(f.total)
	}
	resp := &kmspb.ListCryptoKeyVersionsResponse{NextPageToken: next, TotalSize: total}
	for _, v := range k.vers[lo:hi] {
		f.reported[v.full] = v.state
		resp.CryptoKeyVersions = append(resp.CryptoKeyVersions, &kmspb.CryptoKeyVersion{Name: v.full,
			State: kmspb.CryptoKeyVersion_CryptoKeyVersionState(v.state)})
	}
	return resp, nil
}

func (f *c20KMS) DestroyCryptoKeyVersion(_ context.Context, in *kmspb.DestroyCryptoKeyVersionRequest, _ ...grpc.CallOption) (*kmspb.CryptoKeyVersion, error) {
	bad := f.enter()
	sn := f.shortVer(in.GetName())
	f.destroyed[sn]++
	entry := "D:" + sn
	v := f.verByFull(in.GetName())
	if bad {
		f.rec(entry, false)
		return nil, errC20Injected
	}
	if v == nil || (v.state != c20Enabled && v.state != c20Disabled) {
		f.rec(entry, false)
		return nil, status.Error(codes.FailedPrecondition, "c20: key version is not enabled or disabled")
	}
	f.rec(entry, true)
	v.state = c20Scheduled
	return &kmspb.CryptoKeyVersion{Name: v.full, State: kmspb.CryptoKeyVersion_DESTROY_SCHEDULED}, nil
}

func (f *c20KMS) CreateKeyRing(_ context.Context, in *kmspb.CreateKeyRingRequest, _ ...grpc.CallOption) (*kmspb.KeyRing, error) {
	bad := f.enter()
	entry := "CR"
	if in.GetParent()+"/keyRings/"+in.GetKeyRingId() != f.ring {
		entry = "CR?"
	}
	if bad {
		f.rec(entry, false)
		return nil, errC20Injected
	}
	if f.ringExists {
		f.rec(entry, false)
		return nil, status.Error(codes.AlreadyExists, "c20: key ring exists")
	}
	f.rec(entry, true)
	return &kmspb.KeyRing{Name: f.ring}, nil
}

func (f *c20KMS) CreateCryptoKey(_ context.Context, in *kmspb.CreateCryptoKeyRequest, _ ...grpc.CallOption) (*kmspb.CryptoKey, error) {
	bad := f.enter()
	lvl := "bad"
	ck := in.GetCryptoKey()
	if ck.GetPurpose() == kmspb.CryptoKey_ASYMMETRIC_SIGN && ck.GetVersionTemplate().GetAlgorithm() == kmspb.CryptoKeyVersion_RSA_SIGN_PSS_4096_SHA256 {
		switch ck.GetVersionTemplate().GetProtectionLevel() {
		case kmspb.ProtectionLevel_HSM:
			lvl = "hsm"
		case kmspb.ProtectionLevel_SOFTWARE:
			lvl = "sw"
		}
	}
	entry := "CK:" + tok(in.GetCryptoKeyId()) + ":" + lvl
	if in.GetParent() != f.ring {
		entry = "CK?:" + tok(in.GetCryptoKeyId()) + ":" + lvl
	}
	if bad {
		f.rec(entry, false)
		return nil, errC20Injected
	}
	if f.keyExists {
		f.rec(entry, false)
		return nil, status.Error(codes.AlreadyExists, "c20: crypto key exists")
	}
	f.rec(entry, true)
	return &kmspb.CryptoKey{Name: in.GetParent() + "/cryptoKeys/" + in.GetCryptoKeyId()}, nil
}

func (f *c20KMS) CreateCryptoKeyVersion(_ context.Context, in *kmspb.CreateCryptoKeyVersionRequest, _ ...grpc.CallOption) (*kmspb.CryptoKeyVersion, error) {
	bad := f.enter()
	entry := "CV:" + f.shortKey(in.GetParent())
	if bad {
		f.rec(entry, false)
		return nil, errC20Injected
	}
	f.rec(entry, true)
	name := in.GetParent() + "/cryptoKeyVersions/c"
	f.reported[name] = f.createVerState
	return &kmspb.CryptoKeyVersion{Name: name, State: kmspb.CryptoKeyVersion_CryptoKeyVersionState(f.createVerState)}, nil
}

func (f *c20KMS) GetCryptoKeyVersion(_ context.Context, in *kmspb.GetCryptoKeyVersionRequest, _ ...grpc.CallOption) (*kmspb.CryptoKeyVersion, error) {
	bad := f.enter()
	entry := "G:" + f.shortVer(in.GetName())
	i := f.nget
	f.nget++
	if bad || i >= len(f.gets) {
		f.rec(entry, false)
		return nil, errC20Injected
	}
	f.rec(entry, true)
	name := in.GetName()
	if f.gname {
		name = "X"
	}
	f.reported[name] = f.gets[i]
	return &kmspb.CryptoKeyVersion{Name: name, State: kmspb.CryptoKeyVersion_CryptoKeyVersionState(f.gets[i])}, nil
}

func (f *c20KMS) AsymmetricSign(_ context.Context, in *kmspb.AsymmetricSignRequest, _ ...grpc.CallOption) (*kmspb.AsymmetricSignResponse, error) {
	f.enter()
	f.signCalls++
	f.signReq = in
	if f.signErr {
		return nil, errC20Injected
	}
	return f.signResp, nil
}

type c20IAM struct {
	iampb.IAMPolicyClient
	f *c20KMS
}

func (i *c20IAM) SetIamPolicy(_ context.Context, in *iampb.SetIamPolicyRequest, _ ...grpc.CallOption) (*iampb.Policy, error) {
	bad := i.f.enter()
	entry := "IAM:" + i.f.shortKey(in.GetResource())
	if bad {
		i.f.rec(entry, false)
		return nil, errC20Injected
	}
	i.f.rec(entry, true)
	return in.GetPolicy(), nil
}

func (f *c20KMS) manager() *gcpkms.Manager {
	return &gcpkms.Manager{Project: "p", Location: "l", KeyRingID: "r", KeyClient: f, IAMClient: &c20IAM{f: f}}
}

func (f *c20KMS) psString() string {
	if len(f.pageSizes) == 0 {
		return "-"
	}
	if len(f.pageSizes) > 1 {
		return "mixed"
	}
	for k := range f.pageSizes {
		return fmt.Sprint(k)
	}
	return "-"
}

// c20Guard runs fn; reports the watchdog (diverged) and any other panic separately.
func c20Guard(fn func()) (diverged bool, panicked bool, msg string) {
	defer func() {
		if r := recover(); r != nil {
			if _, ok := r.(c20Diverged); ok {
				diverged = true
				return
			}
			panicked = true
			msg = fmt.Sprint(r)
		}
	}()
	fn()
	return
}

func c20Style() string {
	if os.Getenv("C20_STYLE") == "old" {
		return "old"
	}
	return "fixed"
}

func c20Ints(xs []int) string {
	p := make([]string, len(xs))
	for i, x := range xs {
		p[i] = strconv.Itoa(x)
	}
	return strings.Join(p, ",")
}

func c20States(xs []int32) string {
	p := make([]string, len(xs))
	for i, x := range xs {
		p[i] = strconv.Itoa(int(x))
	}
	return strings.Join(p, ",")
}

func c20FailList(m map[int]bool) string {
	var xs []int
	for k := range m {
		xs = append(xs, k)
	}
	sort.Ints(xs)
	return c20Ints(xs)
}

// ---------------------------------------------------------------------------------------------
// pager plans and state mixes

// c20Plan builds a page plan for n items with page size ps.
func c20Plan(r *Rng, mode string, n, ps int) []int {
	var plan []int
	switch mode {
	case "one": // everything in one page, whatever page size was asked for (what testing/testkms does)
		return []int{n}
	case "full": // full pages; the last page holds the remainder, or is itself full when ps | n
		for left := n; left > 0; left -= ps {
			if left >= ps {
				plan = append(plan, ps)
			} else {
				plan = append(plan, left)
			}
		}
	case "fullempty": // full pages and a token that leads to an empty last page
		for left := n; left > 0; left -= ps {
			if left >= ps {
				plan = append(plan, ps)
			} else {
				plan = append(plan, left)
			}
		}
		plan = append(plan, 0)
	case "half":
		h := ps / 2
		if h == 0 {
			h = 1
		}
		for left := n; left > 0; left -= h {
			if left >= h {
				plan = append(plan, h)
			} else {
				plan = append(plan, left)
			}
		}
	case "short": // short pages that carry a token
		for left := n; left > 0; {
			k := 1 + r.Intn(ps-1)
			if r.Intn(3) == 0 {
				k = 1 + r.Intn(3)
			}
			if k > left {
				k = left
			}
			plan = append(plan, k)
			left -= k
		}
	case "empties": // empty pages with tokens between short or full pages, also first
		if r.Bool() {
			plan = append(plan, 0)
		}
		for left := n; left > 0; {
			k := ps
			if r.Bool() {
				k = 1 + r.Intn(ps)
			}
			if k > left {
				k = left
			}
			plan = append(plan, k)
			left -= k
			if r.Intn(2) == 0 && left > 0 {
				plan = append(plan, 0)
			}
		}
		if r.Intn(3) == 0 {
			plan = append(plan, 0)
		}
	}
	if len(plan) == 0 {
		plan = []int{0}
	}
	return plan
}

var c20PlanModes = []string{"one", "full", "fullempty", "half", "short", "empties"}

// c20StateMix builds n version states.
func c20StateMix(r *Rng, mix string, n int) []int32 {
	out := make([]int32, n)
	others := []int32{3, 4, 5, 6, 7, 8, 9, 10}
	for i := range out {
		switch mix {
		case "allE":
			out[i] = c20Enabled
		case "allD":
			out[i] = c20Disabled
		case "cycle":
			out[i] = int32(1 + i%10)
		case "lastE":
			out[i] = 3
			if i == n-1 {
				out[i] = c20Enabled
			}
		case "rand":
			switch r.Intn(4) {
			case 0:
				out[i] = c20Enabled
			case 1:
				out[i] = c20Disabled
			default:
				out[i] = others[r.Intn(len(others))]
			}
		case "weird": // includes UNSPECIFIED and a number outside the enum
			out[i] = []int32{0, 11, 1, 2, 4}[r.Intn(5)]
		}
	}
	return out
}

// ---------------------------------------------------------------------------------------------
// wipeout

type c20WipeCase struct {
	kplan  []int
	states [][]int32
	plans  [][]int
	cyc    bool
	fail   map[int]bool
	limit  int
}

func (w *c20WipeCase) op() string {
	vs := make([]string, len(w.states))
	pl := make([]string, len(w.plans))
	for i := range w.states {
		vs[i] = c20States(w.states[i])
		pl[i] = c20Ints(w.plans[i])
	}
	return fmt.Sprintf("c20 op=wipeout style=%s limit=%d nk=%d kplan=%s vs=%s vplans=%s cyc=%s fail=%s", c20Style(), w.limit,
		len(w.states), c20Ints(w.kplan), strings.Join(vs, ";"), strings.Join(pl, ";"), b2s(w.cyc), c20FailList(w.fail))
}

func (w *c20WipeCase) setLimit() {
	pages := len(w.kplan)
	vers := 0
	for i := range w.plans {
		pages += len(w.plans[i])
		vers += len(w.states[i])
	}
	w.limit = 20*pages + vers + 50
}

func (w *c20WipeCase) build() *c20KMS {
	f := newC20KMS(w.limit)
	f.kplan = w.kplan
	f.cyc = w.cyc
	f.fail = w.fail
	for i := range w.states {
		f.addKey(fmt.Sprintf("k%d", i), append([]int32(nil), w.states[i]...), w.plans[i])
	}
	return f
}

func c20WipeClass(w *c20WipeCase, ps int) string {
	lastFull, shortTok := false, false
	check := func(plan []int) {
		if len(plan) > 0 && plan[len(plan)-1] >= ps {
			lastFull = true
		}
		for i := 0; i+1 < len(plan); i++ {
			if plan[i] < ps {
				shortTok = true
			}
		}
	}
	check(w.kplan)
	for _, p := range w.plans {
		check(p)
	}
	switch {
	case lastFull && shortTok:
		return "last-page-full+short-page-with-token"
	case lastFull:
		return "last-page-full"
	case shortTok:
		return "short-page-with-token"
	}
	return "plain-pager"
}

func runC20Wipe(c *Ctx, w *c20WipeCase, ps int, tag string) {
	w.setLimit()
	f := w.build()
	var err error
	div, pan, msg := c20Guard(func() { err = f.manager().Wipeout(quietCtx(false)) })
	var impl string
	final := make([]string, len(f.keys))
	for i, k := range f.keys {
		st := make([]int32, len(k.vers))
		for j, v := range k.vers {
			st[j] = v.state
		}
		final[i] = c20States(st)
	}
	switch {
	case div:
		impl = "res=diverged"
	case pan:
		impl = "res=panic"
	default:
		res := "ok"
		if err != nil {
			res = "err"
		}
		impl = fmt.Sprintf("res=%s ps=%s log=%s final=%s", res, f.psString(), strings.Join(f.log, ","), strings.Join(final, ";"))
	}
	op := w.op()
	c.Case(op, impl, f.calls >= 2)
	c.Count("wipeout/" + tag)
	switch {
	case div:
		c.Count("wipeout/res/diverged")
	case err != nil:
		c.Count("wipeout/res/err")
	default:
		c.Count("wipeout/res/ok")
	}
	class := c20WipeClass(w, ps)
	c.Count("wipeout/pager/" + class)
	if pan {
		c.Find("c20/Wipeout/panic", "Wipeout panicked: "+msg, op)
		return
	}
	if w.cyc {
		return // illegal pager: nothing is claimed
	}
	// ---- direct oracle (legal pagers) ----
	if div {
		pages := len(w.kplan)
		for _, p := range w.plans {
			pages += len(p)
		}
		c.Find("c20/Wipeout/terminates/"+class, fmt.Sprintf("Wipeout still listing after %d service calls on legal pagers (%d pages in all)", f.limit, pages), op)
		return
	}
	if err == nil {
		for _, k := range f.keys {
			for _, v := range k.vers {
				if v.state == c20Enabled || v.state == c20Disabled {
					c.Find("c20/Wipeout/complete/"+class, fmt.Sprintf("Wipeout returned nil but %s is still in state %d", v.short, v.state), op)
				}
			}
		}
	}
	if !f.listFailed {
		for i, k := range f.keys {
			for j, v := range k.vers {
				s0 := w.states[i][j]
				if (s0 == c20Enabled || s0 == c20Disabled) && f.destroyed[v.short] == 0 {
					c.Find("c20/Wipeout/attempts-all/"+class, fmt.Sprintf("no listing failed but destroyable version %s never received a Destroy call", v.short), op)
				}
			}
		}
	}
	if f.lkCalls > len(w.kplan) {
		c.Find("c20/Wipeout/list-calls-bounded/keys", fmt.Sprintf("%d ListCryptoKeys calls for a pager of %d pages", f.lkCalls, len(w.kplan)), op)
	}
	for i, k := range f.keys {
		if f.lvCalls[k.short] > len(w.plans[i]) {
			c.Find("c20/Wipeout/list-calls-bounded/versions", fmt.Sprintf("%d ListCryptoKeyVersions calls on %s for a pager of %d pages", f.lvCalls[k.short], k.short, len(w.plans[i])), op)
		}
	}
	if s := f.psString(); s == "mixed" {
		c.Find("c20/Wipeout/page-size", "listing requests used different page sizes", op)
	}
}

// c20ProbePageSize learns the page size the code asks for.
func c20ProbePageSize() int {
	f := newC20KMS(10)
	f.kplan = []int{0}
	c20Guard(func() { f.manager().Wipeout(quietCtx(false)) })
	for k := range f.pageSizes {
		return int(k)
	}
	return 100
}

func c20Sizes(ps int) []int {
	return []int{0, 1, 2, 3, ps - 1, ps, ps + 1, 2*ps - 1, 2 * ps, 2*ps + 1}
}

func runC20WipeStream(c *Ctx, ps int) {
	r := c.Rng
	// (a) one key, version counts around and beyond the page size x plans x mixes
	for _, n := range c20Sizes(ps) {
		for _, mode := range c20PlanModes {
			for _, mix := range []string{"allE", "allD", "cycle", "lastE", "rand", "weird"} {
				w := &c20WipeCase{kplan: []int{1}, states: [][]int32{c20StateMix(r, mix, n)}, plans: [][]int{c20Plan(r, mode, n, ps)}, fail: map[int]bool{}}
				runC20Wipe(c, w, ps, "versions/"+mode)
			}
		}
	}
	// (b) key counts around and beyond the page size x plans; few versions per key
	for _, nk := range c20Sizes(ps) {
		for _, mode := range c20PlanModes {
			w := &c20WipeCase{kplan: c20Plan(r, mode, nk, ps), fail: map[int]bool{}}
			for i := 0; i < nk; i++ {
				nv := r.Intn(3)
				w.states = append(w.states, c20StateMix(r, "rand", nv))
				w.plans = append(w.plans, c20Plan(r, []string{"one", "short", "empties"}[r.Intn(3)], nv, ps))
			}
			runC20Wipe(c, w, ps, "keys/"+mode)
		}
	}
	// (c) every single fault position (and some pairs) on small rings with multi-page listings
	small := func() *c20WipeCase {
		nk := 1 + r.Intn(3)
		w := &c20WipeCase{kplan: c20Plan(r, []string{"short", "empties"}[r.Intn(2)], nk, 3), fail: map[int]bool{}}
		for i := 0; i < nk; i++ {
			nv := r.Intn(5)
			w.states = append(w.states, c20StateMix(r, []string{"rand", "allE", "cycle", "weird"}[r.Intn(4)], nv))
			w.plans = append(w.plans, c20Plan(r, []string{"short", "empties", "one"}[r.Intn(3)], nv, 3))
		}
		return w
	}
	for it := 0; it < c.N(40, 300); it++ {
		base := small()
		base.setLimit()
		f := base.build()
		c20Guard(func() { f.manager().Wipeout(quietCtx(false)) })
		total := f.calls
		runC20Wipe(c, base, ps, "faults/none")
		for k := 0; k < total; k++ {
			w := *base
			w.fail = map[int]bool{k: true}
			runC20Wipe(c, &w, ps, "faults/single")
		}
		for j := 0; j < c.N(4, 20) && total >= 2; j++ {
			w := *base
			w.fail = map[int]bool{r.Intn(total): true, r.Intn(total): true}
			runC20Wipe(c, &w, ps, "faults/double")
		}
	}
	// (d) illegal (cyclic) version pagers: the watchdog and the model's fuel must agree
	for it := 0; it < c.N(4, 20); it++ {
		n := 2 + r.Intn(6)
		w := &c20WipeCase{kplan: []int{1}, states: [][]int32{c20StateMix(r, "rand", n)}, plans: [][]int{c20Plan(r, "short", n, 3)}, cyc: true, fail: map[int]bool{}}
		runC20Wipe(c, w, ps, "cyclic")
	}
	// (e) random rings
	for it := 0; it < c.N(600, 12000); it++ {
		nk := r.Intn(5)
		if r.Intn(10) == 0 {
			nk = c20Sizes(ps)[r.Intn(10)]
		}
		w := &c20WipeCase{kplan: c20Plan(r, c20PlanModes[r.Intn(len(c20PlanModes))], nk, ps), fail: map[int]bool{}}
		calls := len(w.kplan)
		for i := 0; i < nk; i++ {
			nv := r.Intn(4)
			if nk <= 4 && r.Intn(3) == 0 {
				nv = c20Sizes(ps)[r.Intn(10)]
			}
			w.states = append(w.states, c20StateMix(r, []string{"rand", "allE", "allD", "cycle", "lastE", "weird"}[r.Intn(6)], nv))
			w.plans = append(w.plans, c20Plan(r, c20PlanModes[r.Intn(len(c20PlanModes))], nv, ps))
			calls += len(w.plans[i]) + nv/2
		}
		for k := r.Intn(3); k > 0; k-- {
			w.fail[r.Intn(calls+1)] = true
		}
		runC20Wipe(c, w, ps, "random")
	}
}

// ---------------------------------------------------------------------------------------------
// bootstrap and rotation

type c20BootCase struct {
	kind             string // root | sign | rotate
	keep, ring, ck   bool
	states           []int32
	plan             []int
	cyc              bool
	total            int
	cv               int32
	gets             []int32
	gname            bool
	fuel             int
	fail             map[int]bool
	limit            int
}

func (b *c20BootCase) op() string {
	tail := fmt.Sprintf("vs=%s plan=%s cyc=%s total=%d cv=%d gets=%s gname=%s fuel=%d limit=%d fail=%s", c20States(b.states),
		c20Ints(b.plan), b2s(b.cyc), b.total, b.cv, c20States(b.gets), b2s(b.gname), b.fuel, b.limit, c20FailList(b.fail))
	if b.kind == "rotate" {
		return "c20 op=rotate " + tail
	}
	return fmt.Sprintf("c20 op=boot kind=%s style=%s keep=%s ring=%s ck=%s %s", b.kind, c20Style(), b2s(b.keep), b2s(b.ring), b2s(b.ck), tail)
}

type c20BootResult struct {
	impl     string
	f        *c20KMS
	name     string
	err      error
	div, pan bool
	msg      string
}

func (b *c20BootCase) run() *c20BootResult {
	b.limit = 20*len(b.plan) + len(b.gets) + 60
	f := newC20KMS(b.limit)
	f.fail = b.fail
	f.cyc = b.cyc
	f.total = b.total
	f.ringExists, f.keyExists = b.ring, b.ck
	f.createVerState = b.cv
	f.gets = b.gets
	f.gname = b.gname
	f.addKey("K", append([]int32(nil), b.states...), b.plan)
	ctx := output.NewContext(context.Background(), &output.Options{Quiet: true, KeepGoing: b.keep, Out: io.Discard, Err: io.Discard})
	ctx = gcpkms.NewBootstrapContext(ctx, &gcpkms.BootstrapContext{RootKeyID: "kid", SigningKeyID: "kid", SigningKeyOperators: []string{"user:op"}})
	ctx = gcpkms.NewSigningKeyContext(ctx, &gcpkms.SigningKeyContext{SigningKeyID: "kid"})
	var cancel context.CancelFunc
	if b.fuel == 0 {
		ctx, cancel = context.WithCancel(ctx)
		cancel() // the deadline has passed: one poll, then "timeout"
	} else {
		// the code sleeps 5 s between polls: a deadline of 5*fuel + 2.5 s allows exactly `fuel` further polls
		ctx, cancel = context.WithTimeout(ctx, time.Duration(5000*b.fuel+2500)*time.Millisecond)
		defer cancel()
	}
	res := &c20BootResult{f: f}
	m := f.manager()
	res.div, res.pan, res.msg = c20Guard(func() {
		switch b.kind {
		case "root":
			res.name, res.err = m.CreateNewRootKey(ctx)
		case "sign":
			res.name, res.err = m.CreateFirstSigningKey(ctx)
		default:
			res.name, res.err = m.CreateNewSigningKeyVersion(ctx)
		}
	})
	switch {
	case res.div:
		res.impl = "res=diverged"
	case res.pan:
		res.impl = "res=panic"
	case res.err != nil:
		res.impl = fmt.Sprintf("res=err ps=%s log=%s", f.psString(), strings.Join(f.log, ","))
	default:
		res.impl = fmt.Sprintf("res=ok:%s ps=%s log=%s", f.shortVer(res.name), f.psString(), strings.Join(f.log, ","))
	}
	return res
}

func c20CountLog(log []string, prefix string) int {
	n := 0
	for _, e := range log {
		if strings.HasPrefix(e, prefix) {
			n++
		}
	}
	return n
}

func recordC20Boot(c *Ctx, b *c20BootCase, res *c20BootResult, ps int, tag string) {
	op := b.op()
	f := res.f
	c.Case(op, res.impl, f.calls >= 2)
	kind := "boot-" + b.kind
	if b.kind == "rotate" {
		kind = "rotate"
	}
	c.Count(kind + "/" + tag)
	switch {
	case res.div:
		c.Count(kind + "/res/diverged")
	case res.err != nil:
		c.Count(kind + "/res/err")
	default:
		c.Count(kind + "/res/ok")
	}
	if res.pan {
		c.Find("c20/"+b.kind+"/panic", "panicked: "+res.msg, op)
		return
	}
	nG, nCV := c20CountLog(f.log, "G:"), c20CountLog(f.log, "CV:")
	if nG > 0 {
		c.Count(fmt.Sprintf("%s/polls/%d", kind, nG))
	}
	// ---- direct oracle ----
	// whatever the faults: a returned version is one the service last reported ENABLED
	if !res.div && res.err == nil {
		if st, ok := f.reported[res.name]; !ok || st != c20Enabled {
			what := "rotate"
			if b.kind != "rotate" {
				what = "bootstrap"
			}
			c.Find("c20/"+what+"/returns-enabled-only", fmt.Sprintf("returned %q whose latest reported state is %d (reported=%v), want ENABLED", f.shortVer(res.name), st, ok), op)
		}
	}
	if b.kind == "rotate" {
		if nG > b.fuel+1 {
			c.Find("c20/rotate/poll-bounded", fmt.Sprintf("%d polls with a deadline that allows %d", nG, b.fuel+1), op)
		}
		return
	}
	if b.cyc {
		return
	}
	if res.div {
		class := "plain-pager"
		if len(b.plan) > 0 && b.plan[len(b.plan)-1] >= ps {
			class = "last-page-full"
		}
		c.Find("c20/bootstrap/terminates/"+class, fmt.Sprintf("still listing after %d service calls on a legal pager of %d pages", f.limit, len(b.plan)), op)
		return
	}
	if f.lvCalls["K"] > len(b.plan) {
		c.Find("c20/bootstrap/list-calls-bounded", fmt.Sprintf("%d ListCryptoKeyVersions calls for a pager of %d pages", f.lvCalls["K"], len(b.plan)), op)
	}
	if nG > b.fuel+1 {
		c.Find("c20/bootstrap/poll-bounded", fmt.Sprintf("%d polls with a deadline that allows %d", nG, b.fuel+1), op)
	}
	// selection clauses: only when the listing ran undisturbed and the service's total is honest
	listed := f.lvCalls["K"] > 0
	honest := b.total == len(b.states)
	if !listed || f.listFailed || !honest || len(b.states) == 0 {
		return
	}
	firstE, lastP := -1, -1
	for i, s := range b.states {
		if s == c20Enabled && firstE < 0 {
			firstE = i
		}
		if s == c20Pending {
			lastP = i
		}
	}
	iamFailed := c20CountLog(f.log, "IAM:K!") > 0
	class := "plain-pager"
	for i := 0; i+1 < len(b.plan); i++ {
		if b.plan[i] < ps {
			class = "short-page-with-token"
		}
	}
	switch {
	case firstE >= 0:
		c.Count("boot/select/enabled")
		want := fmt.Sprintf("K/%d", firstE+1)
		if nG != 0 || nCV != 0 || (!iamFailed && (res.err != nil || f.shortVer(res.name) != want)) {
			c.Find("c20/bootstrap/selects-enabled/"+class, fmt.Sprintf("an ENABLED version (%s) is listed but the result is %s (polls=%d creates=%d)", want, strings.SplitN(res.impl, " ", 2)[0], nG, nCV), op)
		}
	case lastP >= 0:
		c.Count("boot/select/pending")
		want := fmt.Sprintf("G:K/%d", lastP+1)
		if nCV != 0 || nG == 0 || strings.TrimSuffix(f.log[len(f.log)-nGtail(f.log)], "!") != want {
			c.Find("c20/bootstrap/waits-for-pending/"+class, fmt.Sprintf("no ENABLED but a PENDING_GENERATION version (K/%d) is listed; polls=%d creates=%d", lastP+1, nG, nCV), op)
		}
	default:
		c.Count("boot/select/none")
		if nCV == 0 {
			c.Find("c20/bootstrap/creates-when-none/"+class, "no ENABLED or PENDING_GENERATION version is listed but no version was created", op)
		}
	}
}

// nGtail returns the distance from the end of the log to its first G: entry.
func nGtail(log []string) int {
	for i, e := range log {
		if strings.HasPrefix(e, "G:") {
			return len(log) - i
		}
	}
	return len(log)
}

func c20BootStates(r *Rng, n, ePos, pPos int) []int32 {
	others := []int32{2, 3, 4, 6, 7, 8, 9, 10}
	out := make([]int32, n)
	for i := range out {
		out[i] = others[r.Intn(len(others))]
	}
	if pPos >= 0 && pPos < n {
		out[pPos] = c20Pending
	}
	if ePos >= 0 && ePos < n {
		out[ePos] = c20Enabled
	}
	return out
}

func runC20BootStream(c *Ctx, ps int) {
	r := c.Rng
	getScripts := [][]int32{{}, {1}, {5}, {5, 1}, {2}, {5, 5, 1}, {0}, {3}}
	var timed []*c20BootCase
	// (a) version lists around the page size x plans x where the ENABLED / PENDING versions sit
	for _, n := range c20Sizes(ps) {
		for _, mode := range c20PlanModes {
			pos := []int{-1, 0, n - 1, n / 2, ps - 1, ps, ps + 1}
			for _, e := range pos {
				for _, p := range []int{-1, 0, n - 1, ps, r.Intn(n + 1)} {
					if n == 0 && (e >= 0 || p >= 0) {
						continue
					}
					b := &c20BootCase{kind: []string{"root", "sign"}[r.Intn(2)], states: c20BootStates(r, n, e, p), plan: c20Plan(r, mode, n, ps),
						total: n, cv: []int32{1, 5, 2}[r.Intn(3)], gets: getScripts[r.Intn(len(getScripts))], fail: map[int]bool{}}
					recordC20Boot(c, b, b.run(), ps, "lists/"+mode)
				}
			}
		}
	}
	// (b) glue: kind x keep x ring x ck x total override x create answer x poll script x gname, small lists
	for _, kind := range []string{"root", "sign"} {
		for flags := 0; flags < 8; flags++ {
			for _, total := range []int{-1, 0} {
				for _, cv := range []int32{1, 5, 2, 0} {
					for _, gs := range getScripts {
						n := r.Intn(4)
						e, p := -1, -1
						switch r.Intn(3) {
						case 0:
							e = r.Intn(n + 1)
						case 1:
							p = r.Intn(n + 1)
						}
						b := &c20BootCase{kind: kind, keep: flags&1 != 0, ring: flags&2 != 0, ck: flags&4 != 0, states: c20BootStates(r, n, e, p),
							plan: c20Plan(r, []string{"one", "short", "empties"}[r.Intn(3)], n, 3), total: total, cv: cv, gets: gs, gname: r.Intn(6) == 0, fail: map[int]bool{}}
						if total < 0 {
							b.total = n
						}
						recordC20Boot(c, b, b.run(), ps, "glue")
					}
				}
			}
		}
	}
	// (c) a fault at each call position
	for it := 0; it < c.N(100, 1000); it++ {
		n := 1 + r.Intn(5)
		e, p := -1, -1
		switch r.Intn(3) {
		case 0:
			e = r.Intn(n)
		case 1:
			p = r.Intn(n)
		}
		base := &c20BootCase{kind: []string{"root", "sign"}[r.Intn(2)], keep: r.Bool(), ring: r.Intn(4) == 0, ck: r.Intn(4) == 0, states: c20BootStates(r, n, e, p),
			plan: c20Plan(r, []string{"short", "empties", "one"}[r.Intn(3)], n, 3), total: n, cv: []int32{1, 5}[r.Intn(2)], gets: getScripts[r.Intn(len(getScripts))], fail: map[int]bool{}}
		res := base.run()
		recordC20Boot(c, base, res, ps, "faults/none")
		for k := 0; k <= res.f.calls; k++ {
			b := *base
			b.fail = map[int]bool{k: true}
			recordC20Boot(c, &b, b.run(), ps, "faults/single")
		}
	}
	// (d) cyclic pagers
	for it := 0; it < c.N(3, 20); it++ {
		n := 2 + r.Intn(5)
		b := &c20BootCase{kind: "root", states: c20BootStates(r, n, -1, r.Intn(n)), plan: c20Plan(r, "short", n, 3), cyc: true, total: n, cv: 1, gets: []int32{1}, fail: map[int]bool{}}
		recordC20Boot(c, b, b.run(), ps, "cyclic")
	}
	// (e) rotation: create answer x poll script x gname x single faults
	for _, cv := range []int32{1, 5, 2, 0, 4} {
		for _, gs := range append(getScripts, []int32{5, 5, 5}, []int32{5, 2}) {
			for _, gname := range []bool{false, true} {
				base := &c20BootCase{kind: "rotate", cv: cv, gets: gs, gname: gname, fail: map[int]bool{}}
				res := base.run()
				recordC20Boot(c, base, res, ps, "scripts")
				for k := 0; k <= res.f.calls; k++ {
					b := *base
					b.fail = map[int]bool{k: true}
					recordC20Boot(c, &b, b.run(), ps, "faults/single")
				}
			}
		}
	}
	// (f) thorough only: real 5 s waits between polls, run concurrently
	if !c.Quick() {
		for _, fuel := range []int{1, 2} {
			for _, gs := range [][]int32{{5, 1}, {5, 5, 1}, {5, 5, 5, 1}, {5, 2}, {5}, {5, 5}} {
				timed = append(timed, &c20BootCase{kind: "rotate", cv: 5, gets: gs, fuel: fuel, fail: map[int]bool{}})
				timed = append(timed, &c20BootCase{kind: "root", states: []int32{3, 5, 2}, plan: []int{2, 1}, total: 3, cv: 5, gets: gs, fuel: fuel, fail: map[int]bool{}})
				timed = append(timed, &c20BootCase{kind: "sign", states: []int32{3, 2}, plan: []int{0, 2}, total: 2, cv: 5, gets: gs, fuel: fuel, fail: map[int]bool{}})
			}
		}
		results := make([]*c20BootResult, len(timed))
		var wg sync.WaitGroup
		for i := range timed {
			wg.Add(1)
			go func(i int) {
				defer wg.Done()
				results[i] = timed[i].run()
			}(i)
		}
		wg.Wait()
		for i := range timed {
			recordC20Boot(c, timed[i], results[i], ps, "timed")
		}
	}
}

// ---------------------------------------------------------------------------------------------
// sign

var c20Crc = crc32.MakeTable(crc32.Castagnoli)

type c20SignCase struct {
	opts    string // other-nil | other-hash | nilpss | pss
	salt    int
	hash    crypto.Hash
	name    string
	digest  []byte
	rpc     bool // the RPC answers (no transport error)
	nilResp bool
	sig     []byte
	crc     int64
	crcNil  bool
	vd, vg  bool
	rname   string
}

func (s *c20SignCase) optsToken() string {
	switch s.opts {
	case "nilpss":
		return "nilpss"
	case "pss":
		return fmt.Sprintf("pss:%d:%d", s.salt, uint(s.hash))
	}
	return "other"
}

func (s *c20SignCase) signerOpts() crypto.SignerOpts {
	switch s.opts {
	case "other-hash":
		return crypto.SHA256
	case "nilpss":
		return (*rsa.PSSOptions)(nil)
	case "pss":
		return &rsa.PSSOptions{SaltLength: s.salt, Hash: s.hash}
	}
	return nil
}

func (s *c20SignCase) op() string {
	sig, crc, vd, vg, rname := hx(s.sig), s.crc, s.vd, s.vg, s.rname
	if s.crcNil {
		crc = 0
	}
	if s.nilResp { // a nil response reads as the zero response through the generated getters
		sig, crc, vd, vg, rname = "", 0, false, false, ""
	}
	return fmt.Sprintf("c20 op=sign opts=%s name=%s digest=%s rpc=%s sig=%s crc=%d vd=%s vg=%s rname=%s", s.optsToken(), s.name,
		hx(s.digest), b2s(s.rpc), sig, crc, b2s(vd), b2s(vg), rname)
}

func runC20Sign(c *Ctx, s *c20SignCase, tag string) {
	f := newC20KMS(10)
	f.signErr = !s.rpc
	if !s.nilResp {
		f.signResp = &kmspb.AsymmetricSignResponse{Signature: s.sig, VerifiedDataCrc32C: s.vd, VerifiedDigestCrc32C: s.vg, Name: s.rname}
		if !s.crcNil {
			f.signResp.SignatureCrc32C = wrapperspb.Int64(s.crc)
		}
	}
	signer := &gcpkms.Signer{Manager: f.manager()}
	var out []byte
	var err error
	pan, _, _ := Guard(func() { out, err = signer.Sign(context.Background(), s.name, styp.Digest{SHA256: s.digest}, s.signerOpts()) })
	req := "none"
	if f.signReq != nil {
		q := f.signReq
		dc, dd := "nil", "nil"
		if q.GetDigestCrc32C() != nil {
			dc = fmt.Sprint(q.GetDigestCrc32C().GetValue())
		}
		if q.GetDataCrc32C() != nil {
			dd = fmt.Sprint(q.GetDataCrc32C().GetValue())
		}
		req = fmt.Sprintf("%s:%s:%s:%s", tok(q.GetName()), hx(q.GetDigest().GetSha256()), dc, dd)
		if len(q.GetData()) != 0 {
			req += "+data"
		}
	}
	res := "err"
	switch {
	case pan:
		res = "panic"
	case err == nil:
		res = "sig:" + hx(out)
	}
	op := s.op()
	c.Case(op, "req="+req+" out="+res, f.signReq != nil)
	c.Count("sign/" + tag)
	c.Count("sign/out/" + strings.SplitN(res, ":", 2)[0])
	// ---- direct oracle ----
	wanted := s.opts == "pss" && s.salt == rsa.PSSSaltLengthEqualsHash && s.hash == crypto.SHA256
	if f.signReq != nil {
		if !wanted {
			c.Find("c20/Sign/opts/request-sent", "a signing request was sent for options other than RSA-PSS / SHA-256 / salt = hash length", op)
		}
		q := f.signReq
		if q.GetDigestCrc32C() == nil || q.GetDigestCrc32C().GetValue() != int64(crc32.Checksum(s.digest, c20Crc)) || q.GetName() != s.name ||
			string(q.GetDigest().GetSha256()) != string(s.digest) {
			c.Find("c20/Sign/request/digest-crc", "the request does not carry the digest, its CRC32C and the key version name", op)
		}
	}
	if !pan && err == nil {
		if !wanted {
			c.Find("c20/Sign/opts/signature-returned", "a signature was returned for options other than RSA-PSS / SHA-256 / salt = hash length", op)
		}
		if f.signResp == nil || !s.rpc {
			c.Find("c20/Sign/checked/no-response", "a signature was returned although the service did not answer", op)
			return
		}
		if string(out) != string(f.signResp.GetSignature()) {
			c.Find("c20/Sign/checked/other-bytes", "the returned bytes are not the response's signature", op)
		}
		if int64(crc32.Checksum(out, c20Crc)) != f.signResp.GetSignatureCrc32C().GetValue() {
			c.Find("c20/Sign/checked/signature-crc", "a signature was returned whose CRC32C differs from the response's signature_crc32c", op)
		}
		if !f.signResp.GetVerifiedDigestCrc32C() {
			c.Find("c20/Sign/checked/verified-digest-crc", "a signature was returned although the service did not confirm the digest checksum", op)
		}
		if !f.signResp.GetVerifiedDataCrc32C() {
			c.Find("c20/Sign/checked/verified-data-crc", "a signature was returned although the service did not confirm the data checksum", op)
		}
		// Observation only (not a clause of C20, so not a finding): Sign does not compare the response's
		// key-version name with the requested one.
		if f.signResp.GetName() != s.name {
			c.Count("sign/note/response-name-differs-accepted")
		}
	}
}

func runC20SignStream(c *Ctx) {
	r := c.Rng
	good := func(n int) *c20SignCase {
		sig := r.Bytes(n)
		return &c20SignCase{opts: "pss", salt: rsa.PSSSaltLengthEqualsHash, hash: crypto.SHA256, name: "kv1", digest: r.Bytes(32), rpc: true,
			sig: sig, crc: int64(crc32.Checksum(sig, c20Crc)), vd: true, vg: true, rname: "kv1"}
	}
	// (a) the clean response and every single-bit corruption of the signature bytes
	for _, n := range []int{1, 16, c.N(64, 512)} {
		base := good(n)
		runC20Sign(c, base, "clean")
		for bit := 0; bit < 8*n; bit++ {
			s := *base
			s.sig = append([]byte(nil), base.sig...)
			s.sig[bit/8] ^= 1 << (bit % 8)
			runC20Sign(c, &s, "sig-bit-flip")
		}
	}
	// (b) checksum value off by one / wrapped / absent, flags, name, nil response, RPC error: all subsets on a small signature
	for mask := 0; mask < 64; mask++ {
		for _, n := range []int{0, 8} {
			s := good(n)
			if mask&1 != 0 {
				s.crc += []int64{1, -1, 1 << 32, -(1 << 32)}[r.Intn(4)]
			}
			if mask&2 != 0 {
				s.vd = false
			}
			if mask&4 != 0 {
				s.vg = false
			}
			if mask&8 != 0 {
				s.rname = "kv2"
			}
			if mask&16 != 0 {
				s.crcNil = true
			}
			if mask&32 != 0 {
				s.rpc = false
			}
			runC20Sign(c, s, "response-subsets")
		}
	}
	for _, rpc := range []bool{true, false} {
		s := good(8)
		s.nilResp, s.rpc = true, rpc
		runC20Sign(c, s, "nil-response")
	}
	// (c) option kinds: everything around the one accepted value, each with a response that would pass
	for _, salt := range []int{rsa.PSSSaltLengthEqualsHash, rsa.PSSSaltLengthAuto, 32, 20, -2, 1} {
		for _, h := range []crypto.Hash{crypto.SHA256, crypto.SHA384, crypto.SHA512, crypto.SHA1, crypto.SHA224, 0, crypto.SHA3_256} {
			s := good(8)
			s.salt, s.hash = salt, h
			runC20Sign(c, s, "opts-pss")
		}
	}
	for _, k := range []string{"other-nil", "other-hash", "nilpss"} {
		s := good(8)
		s.opts = k
		runC20Sign(c, s, "opts-"+k)
	}
	// (d) random mixtures
	for it := 0; it < c.N(1500, 30000); it++ {
		s := good([]int{0, 1, 4, 32, 256, 512}[r.Intn(6)])
		s.digest = r.Bytes([]int{0, 1, 31, 32, 33, 48, 64}[r.Intn(7)])
		s.name = []string{"kv1", "projects/p/locations/l/keyRings/r/cryptoKeys/k/cryptoKeyVersions/1"}[r.Intn(2)]
		s.rname = s.name
		if r.Intn(4) == 0 && len(s.sig) > 0 {
			bit := r.Intn(8 * len(s.sig))
			s.sig[bit/8] ^= 1 << (bit % 8)
		}
		if r.Intn(6) == 0 {
			s.crc = int64(r.Next() >> uint(r.Intn(40)))
		}
		if r.Intn(8) == 0 {
			s.crc = -s.crc
		}
		s.vd, s.vg = r.Intn(6) != 0, r.Intn(6) != 0
		if r.Intn(8) == 0 {
			s.rname = "kv-other"
		}
		s.rpc = r.Intn(10) != 0
		s.crcNil = r.Intn(12) == 0
		if r.Intn(8) == 0 {
			s.salt = []int{0, 32, -2}[r.Intn(3)]
		}
		if r.Intn(8) == 0 {
			s.hash = []crypto.Hash{crypto.SHA384, crypto.SHA512, 0}[r.Intn(3)]
		}
		if r.Intn(20) == 0 {
			s.opts = []string{"other-nil", "other-hash"}[r.Intn(2)]
		}
		runC20Sign(c, s, "random")
	}
}

// runC20Crc ties the Lean CRC32C to hash/crc32 and samples the trusted hypothesis crc_single_bit.
func runC20Crc(c *Ctx) {
	r := c.Rng
	for _, n := range []int{0, 1, 2, 3, 4, 7, 8, 9, 31, 32, 33, 255, 256, 512} {
		d := r.Bytes(n)
		c.Case("c20 op=crc data="+hx(d), fmt.Sprint(crc32.Checksum(d, c20Crc)), n > 0)
		c.Count("crc/vectors")
	}
	c.Case("c20 op=crc data=313233343536373839", fmt.Sprint(crc32.Checksum([]byte("123456789"), c20Crc)), true)
	for it := 0; it < c.N(60, 600); it++ {
		d := r.Bytes(r.Intn(600))
		c.Case("c20 op=crc data="+hx(d), fmt.Sprint(crc32.Checksum(d, c20Crc)), len(d) > 0)
		c.Count("crc/random")
	}
	// the bit-flip operation of the hypothesis CrcSingleBit (Lean flipBit) is the one sampled below
	for it := 0; it < c.N(40, 400); it++ {
		n := 1 + r.Intn(40)
		d := r.Bytes(n)
		bit := r.Intn(8*n + 9) // also a few positions past the end (no change)
		fl := append([]byte(nil), d...)
		if bit < 8*n {
			fl[bit/8] ^= 1 << (bit % 8)
		}
		c.Case(fmt.Sprintf("c20 op=flip data=%s bit=%d", hx(d), bit), fmt.Sprintf("%s %d", hx(fl), crc32.Checksum(fl, c20Crc)), true)
		c.Count("crc/flip")
	}
	samples := 0
	for it := 0; it < c.N(200, 3000); it++ {
		n := 1 + r.Intn(520)
		d := r.Bytes(n)
		want := crc32.Checksum(d, c20Crc)
		for bit := 0; bit < 8*n; bit++ {
			d[bit/8] ^= 1 << (bit % 8)
			if crc32.Checksum(d, c20Crc) == want {
				c.Find("c20/trusted/crc_single_bit", "hash/crc32 (Castagnoli) gave the same checksum after a single-bit flip", fmt.Sprintf("data=%s bit=%d", hx(d), bit))
			}
			d[bit/8] ^= 1 << (bit % 8)
			samples++
		}
	}
	c.Extra["crc_single_bit_samples"] = samples
}

func runC20(c *Ctx) {
	ps := c20ProbePageSize()
	c.Extra["page_size_requested"] = ps
	c.Extra["style"] = c20Style()
	runC20Crc(c)
	runC20SignStream(c)
	runC20WipeStream(c, ps)
	runC20BootStream(c, ps)
}
