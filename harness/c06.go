package main

import (
	"bytes"
	"context"
	"crypto"
	"crypto/sha512"
	"errors"
	"fmt"
	"sort"
	"strings"
	"time"

	"github.com/google/gce-tcb-verifier/endorse"
	"github.com/google/gce-tcb-verifier/keys"
	epb "github.com/google/gce-tcb-verifier/proto/endorsement"
	"github.com/google/gce-tcb-verifier/sev"
	sops "github.com/google/gce-tcb-verifier/sign/ops"
	styp "github.com/google/gce-tcb-verifier/sign/types"
	"github.com/google/gce-tcb-verifier/tdx"
	sgpb "github.com/google/go-sev-guest/proto/sevsnp"
	"github.com/google/uuid"
	"google.golang.org/protobuf/proto"
)

func init() {
	register("c06", "real endorse.GoldenMeasurement and endorse.SignDoc on generated requests over small generated firmware "+
		"images (SEV+TDX, SEV only, TDX only, no metadata, TD HOB lists that overflow for large/all machine shapes); the returned "+
		"message and the signed payload are decoded field by field. Requests: technology subsets x explicit/default VMSA "+
		"counts x products (Milan, Genoa, unknown) x shape lists (empty, one, several, repeated, unknown, mixed) x early accept; "+
		"ids valid in every accepted syntax / invalid / empty; SVN, SVSM, provenance, timestamps; failing CA and signer. The model "+
		"gets the image bytes and measurement tables computed by direct sev.LaunchDigest / tdx.MRTD calls. Non-trivial: a "+
		"document is produced, or the request fails in a measurement (not at the first guard); distinct by op line.", runC06)
}

// documented tables, pinned here for the direct oracle (independent of the code's own tables)
var c06SupportedCounts = []uint32{1, 2, 4, 8, 16, 24, 32, 48, 64, 80, 96, 112, 128, 224, 240}
var c06ShapeRAM = map[string]uint32{"c3-standard-4": 16, "c3-standard-8": 32, "c3-standard-22": 88, "c3-standard-44": 176,
	"c3-standard-88": 352, "c3-standard-176": 704}

const c06Policy = 0x70000
const c06DefaultFamily = "f73a6949-e8f3-473b-9553-e40e056fa3a2"

type c06Image struct {
	name string
	fw   []byte
	ld   map[string][]byte // "count/product" -> digest, nil = error
	mr   map[string][]byte // "shape/mode" -> mrtd, nil = error
}

func (im *c06Image) launchDigest(count uint32, prod int) []byte {
	k := fmt.Sprintf("%d/%d", count, prod)
	if v, ok := im.ld[k]; ok {
		return v
	}
	d, err := sev.LaunchDigest(&sev.LaunchOptions{Vcpus: int(count), Product: sgpb.SevProduct_SevProductName(prod)}, im.fw)
	if err != nil {
		d = nil
	}
	im.ld[k] = d
	return d
}

// mrtd recomputes one TDX measurement directly. mode: b (shape banks, measure all), e (the same with
// early accept), d (default options).
func (im *c06Image) mrtd(shape, mode string) []byte {
	k := shape + "/" + mode
	if v, ok := im.mr[k]; ok {
		return v
	}
	var o *tdx.LaunchOptions
	switch mode {
	case "b":
		o = tdx.LaunchOptionsDefaultTDHOBBug(shape)
	case "e":
		o = tdx.LaunchOptionsDefaultTDHOBBug(shape)
		o.DisableUnacceptedMemory = true
	default:
		o = tdx.LaunchOptionsDefault("")
	}
	m, err := tdx.MRTD(o, im.fw)
	var v []byte
	if err == nil {
		v = m[:]
	}
	im.mr[k] = v
	return v
}

type c06Req struct {
	im           *c06Image
	snp, tdx     bool
	svn          uint32
	fam, iid     string
	vm           uint32
	prod         int
	tsvn         uint32
	early        bool
	shapes       []string
	cl           uint64
	commit, svsm []byte
	ts           time.Time
	sign         bool
	keysMode     string // full none noca nosigner
	caErr        string // none primary cert bundle
	signErr      bool
	rndSeed      uint64
}

// failing wrappers around the in-memory CA / signer
type c06CA struct {
	styp.CertificateAuthority
	fail string
}

func (c *c06CA) PrimarySigningKeyVersion(ctx context.Context) (string, error) {
	if c.fail == "primary" {
		return "", errors.New("scripted CA failure")
	}
	return c.CertificateAuthority.PrimarySigningKeyVersion(ctx)
}
func (c *c06CA) Certificate(ctx context.Context, k string) ([]byte, error) {
	if c.fail == "cert" {
		return nil, errors.New("scripted CA failure")
	}
	return c.CertificateAuthority.Certificate(ctx, k)
}
func (c *c06CA) CABundle(ctx context.Context, k string) ([]byte, error) {
	if c.fail == "bundle" {
		return nil, errors.New("scripted CA failure")
	}
	return c.CertificateAuthority.CABundle(ctx, k)
}

type c06Signer struct {
	styp.Signer
	fail bool
}

func (s *c06Signer) Sign(ctx context.Context, k string, d styp.Digest, o crypto.SignerOpts) ([]byte, error) {
	if s.fail {
		return nil, errors.New("scripted signer failure")
	}
	return s.Signer.Sign(ctx, k, d, o)
}

func c06ExpectedRandomUUID(seed uint64) string {
	r := &Rng{s: seed}
	b := r.Bytes(16)
	b[6] = (b[6] & 0x0f) | 0x40
	b[8] = (b[8] & 0x3f) | 0x80
	u, _ := uuid.FromBytes(b)
	return u.String()
}

func c06ShowSnp(s *epb.VMSevSnp) string {
	if s == nil {
		return "-"
	}
	var ks []int
	for k := range s.Measurements {
		ks = append(ks, int(k))
	}
	sort.Ints(ks)
	var ms []string
	for _, k := range ks {
		ms = append(ms, fmt.Sprintf("%d:%s", k, hx(s.Measurements[uint32(k)])))
	}
	return fmt.Sprintf("%d/%s/%s/%d/%s/%s", s.Svn, hx(s.FamilyId), hx(s.ImageId), s.Policy, hx(s.SvsmMeasurement), strings.Join(ms, ";"))
}

func c06ShowTdx(t *epb.VMTdx) string {
	if t == nil {
		return "-"
	}
	var rs []string
	for _, m := range t.Measurements {
		rs = append(rs, fmt.Sprintf("%d:%s:%s", m.RamGib, b2s(m.EarlyAccept), hx(m.Mrtd)))
	}
	return fmt.Sprintf("%d/%s", t.Svn, strings.Join(rs, ";"))
}

func c06ShowGolden(g *epb.VMGoldenMeasurement) string {
	ts := "-"
	if g.Timestamp != nil {
		ts = fmt.Sprintf("%d.%d", g.Timestamp.Seconds, g.Timestamp.Nanos)
	}
	hc, hb := sha512.Sum384(g.Cert), sha512.Sum384(g.CaBundle)
	return fmt.Sprintf("digest=%s cl=%d commit=%s snp=%s tdx=%s cert=%s bundle=%s ts=%s", hx(g.Digest), g.ClSpec, hx(g.Commit),
		c06ShowSnp(g.SevSnp), c06ShowTdx(g.Tdx), hx(hc[:]), hx(hb[:]), ts)
}

// c06WarmImage is a valid firmware different from every generated image (served first through reused Contexts).
var c06WarmImage = c06Firmware(0x2000, 0x5a, true, true, 0)

func c06One(c *Ctx, r c06Req, tag string) {
	signer, ca := memKeys()
	ec := &endorse.Context{Image: r.im.fw, ClSpec: r.cl, Commit: r.commit, Timestamp: r.ts, SvsmSnpMeasurement: r.svsm}
	if r.snp {
		ec.SevSnp = &sev.SnpEndorsementRequest{Svn: r.svn, FamilyID: r.fam, ImageID: r.iid, LaunchVmsas: r.vm,
			Product: sgpb.SevProduct_SevProductName(r.prod)}
	}
	if r.tdx {
		ec.Tdx = &tdx.EndorsementRequest{Svn: r.tsvn, IncludeEarlyAccept: r.early, MachineShapes: append([]string{}, r.shapes...)}
	}
	ctx := quietCtx(false)
	switch r.keysMode {
	case "none":
	case "noca":
		ctx = keys.NewContext(ctx, &keys.Context{Signer: signer})
	case "nosigner":
		ctx = keys.NewContext(ctx, &keys.Context{CA: ca})
	default:
		ctx = keys.NewContext(ctx, &keys.Context{CA: &c06CA{ca, r.caErr}, Signer: &c06Signer{signer, r.signErr}})
	}
	ctx = endorse.NewContext(ctx, ec)
	// The request value is reusable: half of the cases first serve ANOTHER image through this very Context (a
	// long-lived caller replacing Image between requests) — nothing remembered from that request (digests,
	// measurements, parsed metadata) may appear in the document of this one.
	// (The technology requests are handed over as copies for that first request: canonicalizeRequest writes the
	// defaults it chooses — family id, a random image id — into the caller's request value, so a request reused
	// with an empty image id keeps the id drawn for the first image. The property speaks of the REQUESTED ids;
	// that behaviour is recorded as an observation in DESIGN §6 C06, not held against it here.)
	if r.rndSeed%2 == 0 {
		snp0, tdx0 := ec.SevSnp, ec.Tdx
		if snp0 != nil {
			cp := *snp0
			ec.SevSnp = &cp
		}
		if tdx0 != nil {
			cp := *tdx0
			cp.MachineShapes = append([]string{}, tdx0.MachineShapes...)
			ec.Tdx = &cp
		}
		ec.Image = c06WarmImage
		Guard(func() { _, _ = endorse.GoldenMeasurement(ctx) })
		ec.Image, ec.SevSnp, ec.Tdx = r.im.fw, snp0, tdx0
		c.Count("context/reused-after-another-image")
	}
	uuid.SetRand(&Rng{s: r.rndSeed})
	rnd := c06ExpectedRandomUUID(r.rndSeed)

	// ---- measurement tables for the model, by direct calls ----
	var lds, mrs []string
	counts := []uint32{r.vm}
	if r.vm == 0 {
		counts = c06SupportedCounts
	}
	if r.snp {
		for _, k := range counts {
			v := "E"
			if d := r.im.launchDigest(k, r.prod); d != nil {
				v = hx(d)
			}
			lds = append(lds, fmt.Sprintf("%d/%d:%s", k, r.prod, v))
		}
	}
	if r.tdx {
		seen := map[string]bool{}
		add := func(shape, mode string) {
			k := shape + "/" + mode
			if seen[k] {
				return
			}
			seen[k] = true
			v := "E"
			if d := r.im.mrtd(shape, mode); d != nil {
				v = hx(d)
			}
			mrs = append(mrs, k+":"+v)
		}
		for _, s := range r.shapes {
			add(s, "b")
			add(s, "e")
		}
		add("", "d")
	}
	certv, _ := ca.Certificate(ctx, memSignKey)
	bundlev, _ := ca.CABundle(ctx, memSignKey)
	line := fmt.Sprintf("c06 op=endorse img=%s snp=%s svn=%d fam=%s iid=%s vm=%d prod=%d rnd=%s tdx=%s tsvn=%d early=%s shapes=%s cl=%d commit=%s svsm=%s ld=%s mrtd=%s sign=%s keys=%s caerr=%s signerr=%s certv=%s bundlev=%s ts=%d.%d",
		hx(r.im.fw), b2s(r.snp), r.svn, r.fam, r.iid, r.vm, r.prod, rnd, b2s(r.tdx), r.tsvn, b2s(r.early), strings.Join(r.shapes, ","),
		r.cl, hx(r.commit), hx(r.svsm), strings.Join(lds, ";"), strings.Join(mrs, ";"), b2s(r.sign), r.keysMode, r.caErr, b2s(r.signErr),
		hx(certv), hx(bundlev), r.ts.Unix(), r.ts.Nanosecond())
	short := line
	if i := strings.Index(short, " snp="); i > 0 {
		short = "c06 op=endorse img=<" + r.im.name + ">" + short[i:]
	}
	if i := strings.Index(short, " certv="); i > 0 {
		j := strings.Index(short, " ts=")
		short = short[:i] + " certv=<primary-cert> bundlev=<bundle>" + short[j:]
	}
	if i := strings.Index(short, " ld="); i > 0 && len(short) > 2500 {
		j := strings.Index(short, " sign=")
		short = short[:i] + " ld=<direct> mrtd=<direct>" + short[j:]
	}
	find := func(entry, clause, what string) { c.Find("c06/"+entry+"/"+clause, what, short) }

	// ---- run the real code ----
	var g *epb.VMGoldenMeasurement
	var gerr error
	if p, msg, _ := Guard(func() { g, gerr = endorse.GoldenMeasurement(ctx) }); p {
		c.Case(line, "golden=panic signed=-", true)
		find("GoldenMeasurement", "panic", "panic: "+msg)
		return
	}
	if gerr != nil {
		if g != nil {
			find("GoldenMeasurement", "partial-document", "an error was returned together with a document")
		}
		c.Count(tag + "/golden-reject")
		c06OracleReject(c, r, find)
		c.Case(line, "golden=reject signed=-", c06FailsInMeasurement(r))
		return
	}
	impl := "golden=[" + c06ShowGolden(g) + "]"
	c06OracleGolden(c, r, g, rnd, find, "GoldenMeasurement")
	c.Count(tag + "/golden-ok")
	signed := "-"
	if r.sign {
		before := proto.Clone(g).(*epb.VMGoldenMeasurement)
		var e *epb.VMLaunchEndorsement
		var serr error
		if p, msg, _ := Guard(func() { e, serr = endorse.SignDoc(ctx, g) }); p {
			signed = "panic"
			find("SignDoc", "panic", "panic: "+msg)
		} else if serr != nil {
			signed = "reject"
			c.Count(tag + "/sign-reject")
			if e != nil {
				find("SignDoc", "partial-document", "an error was returned together with an endorsement")
			}
			if r.keysMode == "full" && r.caErr == "none" && !r.signErr {
				find("SignDoc", "spurious-error", "signing failed although CA and signer work: "+tok(serr.Error()))
			}
		} else {
			c.Count(tag + "/sign-ok")
			d := &epb.VMGoldenMeasurement{}
			if err := proto.Unmarshal(e.SerializedUefiGolden, d); err != nil {
				find("SignDoc", "payload-undecodable", "signed payload does not decode")
			} else {
				signed = "[" + c06ShowGolden(d) + "]"
				c06OracleGolden(c, r, d, rnd, find, "SignDoc")
				if !bytes.Equal(d.Cert, certv) || !bytes.Equal(d.CaBundle, bundlev) {
					find("SignDoc", "cert-or-bundle", "certificate / bundle in the payload are not the CA's for the primary signing key")
				}
				if d.Timestamp == nil || d.Timestamp.Seconds != r.ts.Unix() || int(d.Timestamp.Nanos) != r.ts.Nanosecond() {
					find("SignDoc", "timestamp", "timestamp in the payload is not the requested one")
				}
				d.Cert, d.CaBundle, d.Timestamp = nil, nil, nil
				if !proto.Equal(d, before) {
					find("SignDoc", "payload-differs-from-measured", "the signed payload is not the measured document plus cert, bundle, timestamp")
				}
				if err := sops.VerifySignatureFromCA(ctx, ca, memSignKey, baseTime, e.SerializedUefiGolden, e.Signature); err != nil {
					find("SignDoc", "signature", "signature over the payload does not verify under the primary signing key")
				}
			}
			if r.keysMode != "full" || r.caErr != "none" || r.signErr {
				find("SignDoc", "signed-despite-failure", "an endorsement was returned although the CA or signer was missing or failed")
			}
		}
	}
	c.Case(line, impl+" signed="+signed, true)
}

// c06FailsInMeasurement: the request passes the first guards and fails (if at all) in a measurement.
func c06FailsInMeasurement(r c06Req) bool {
	if !r.snp && !r.tdx {
		return false
	}
	if r.snp {
		if _, err := uuid.Parse(c06Or(r.fam, c06DefaultFamily)); err != nil {
			return false
		}
		if r.iid != "" {
			if _, err := uuid.Parse(r.iid); err != nil {
				return false
			}
		}
	}
	return true
}

func c06Or(a, b string) string {
	if a == "" {
		return b
	}
	return a
}

// c06Constituents: does every constituent of the request succeed, judged independently?
func c06Constituents(r c06Req) (ok bool, why string) {
	if !r.snp && !r.tdx {
		return false, "no-technology"
	}
	if r.snp {
		if _, err := uuid.Parse(c06Or(r.fam, c06DefaultFamily)); err != nil {
			return false, "family-id"
		}
		if r.iid != "" {
			if _, err := uuid.Parse(r.iid); err != nil {
				return false, "image-id"
			}
		}
		counts := []uint32{r.vm}
		if r.vm == 0 {
			counts = c06SupportedCounts
		}
		for _, k := range counts {
			if r.im.launchDigest(k, r.prod) == nil {
				return false, "launch-digest"
			}
		}
	}
	if r.tdx {
		for _, s := range r.shapes {
			if _, known := c06ShapeRAM[s]; !known {
				return false, "unknown-shape"
			}
			if r.im.mrtd(s, "b") == nil {
				return false, "shape-mrtd"
			}
		}
		if r.im.mrtd("", "d") == nil {
			return false, "default-mrtd"
		}
	}
	return true, ""
}

func c06OracleReject(c *Ctx, r c06Req, find func(entry, clause, what string)) {
	ok, why := c06Constituents(r)
	c.Count("reject-why/" + c06Or(why, "spurious"))
	if ok {
		find("GoldenMeasurement", "spurious-error", "every constituent measurement succeeds independently, yet the request was rejected")
	}
}

// c06OracleGolden states the property's clauses on a produced document.
func c06OracleGolden(c *Ctx, r c06Req, g *epb.VMGoldenMeasurement, rnd string, find func(entry, clause, what string), entry string) {
	if ok, why := c06Constituents(r); !ok {
		if why == "unknown-shape" {
			find(entry, "unknown-shape-signed", "a request naming an unknown machine shape produced a document")
		} else {
			find(entry, "document-despite-failure", "a document was produced although a constituent fails: "+why)
		}
	}
	d := sha512.Sum384(r.im.fw)
	if !bytes.Equal(g.Digest, d[:]) {
		find(entry, "digest", "digest field is not SHA-384 of the image")
	}
	if g.ClSpec != r.cl || !bytes.Equal(g.Commit, r.commit) {
		find(entry, "provenance", "clspec / commit not copied")
	}
	if (g.SevSnp != nil) != r.snp || (g.Tdx != nil) != r.tdx {
		find(entry, "technology-sections", "technology sections do not match the request")
		return
	}
	if r.snp {
		s := g.SevSnp
		counts := []uint32{r.vm}
		if r.vm == 0 {
			counts = c06SupportedCounts
		}
		if len(s.Measurements) != len(counts) {
			find(entry, "snp-keys", fmt.Sprintf("%d SNP measurements, want %d", len(s.Measurements), len(counts)))
		}
		for _, k := range counts {
			v, ok := s.Measurements[k]
			if !ok {
				find(entry, "snp-keys", fmt.Sprintf("no measurement for %d VMSAs", k))
				continue
			}
			want := r.im.launchDigest(k, r.prod)
			if want == nil || !bytes.Equal(v, want) {
				find(entry, "snp-value", "an SNP measurement differs from sev.LaunchDigest of the same image for that count and product")
			}
			if len(v) != 48 || bytes.Equal(v, make([]byte, 48)) {
				find(entry, "snp-placeholder", "an SNP measurement is empty or all zero")
			}
		}
		fam, _ := uuid.Parse(c06Or(r.fam, c06DefaultFamily))
		iid, _ := uuid.Parse(c06Or(r.iid, rnd))
		if s.Svn != r.svn || !bytes.Equal(s.FamilyId, fam[:]) || !bytes.Equal(s.ImageId, iid[:]) || s.Policy != c06Policy ||
			!bytes.Equal(s.SvsmMeasurement, r.svsm) {
			find(entry, "snp-fields", "SVN / family id / image id / policy / SVSM measurement not as requested")
		}
	}
	if r.tdx {
		t := g.Tdx
		if t.Svn != r.tsvn {
			find(entry, "tdx-fields", "TDX SVN not as requested")
		}
		type cfg struct {
			shape, mode string
		}
		var cfgs []cfg
		for _, s := range r.shapes {
			cfgs = append(cfgs, cfg{s, "b"})
			if r.early {
				cfgs = append(cfgs, cfg{s, "e"})
			}
		}
		cfgs = append(cfgs, cfg{"", "d"})
		if len(t.Measurements) != len(cfgs) {
			find(entry, "tdx-rows", fmt.Sprintf("%d TDX rows, want %d", len(t.Measurements), len(cfgs)))
			return
		}
		for i, cf := range cfgs {
			m := t.Measurements[i]
			if m.RamGib != c06ShapeRAM[cf.shape] || m.EarlyAccept != (cf.mode == "e") {
				find(entry, "tdx-row-labels", "a TDX row's ram_gib / early_accept do not match the configuration at that position")
			}
			want := r.im.mrtd(cf.shape, cf.mode)
			if len(m.Mrtd) != 48 || bytes.Equal(m.Mrtd, make([]byte, 48)) {
				find(entry, "tdx-placeholder", "a TDX row carries an empty or all-zero MRTD")
			} else if want == nil || !bytes.Equal(m.Mrtd, want) {
				find(entry, "tdx-value", "a TDX row differs from tdx.MRTD of the same image for that configuration")
			}
		}
	}
}

func runC06(c *Ctx) {
	mk := func(name string, size int, tag byte, s, t bool, nTemp int) *c06Image {
		return &c06Image{name: name, fw: c06Firmware(size, tag, s, t, nTemp), ld: map[string][]byte{}, mr: map[string][]byte{}}
	}
	both := mk("both-8k", 0x2000, 1, true, true, 0)
	images := []*c06Image{both, mk("both-12k", 0x3000, 2, true, true, 3), mk("sev-only", 0x2000, 3, true, false, 0),
		mk("tdx-only", 0x2000, 4, false, true, 0), mk("no-metadata", 0x2000, 5, false, false, 0),
		mk("hob-tight-large-shapes", 0x2000, 6, true, true, 70), mk("hob-tight-all-shapes", 0x2000, 7, true, true, 74)}
	// the two TDX modes must fail together (hypothesis of C06_no_placeholder), on every image and shape
	allShapes := []string{"c3-standard-4", "c3-standard-8", "c3-standard-22", "c3-standard-44", "c3-standard-88", "c3-standard-176"}
	for _, im := range images {
		for _, s := range allShapes {
			b, e := im.mrtd(s, "b"), im.mrtd(s, "e")
			if (b == nil) != (e == nil) {
				c.Find("c06/tdx.MRTD/modes-disagree", "the TDHOB-bug and early-accept measurements of one shape do not fail together; "+
					"generateAllPossibleMRTDs would sign an all-zero row", im.name+" "+s)
			}
			if b != nil && e != nil {
				c.Count("modes/both-ok")
			} else {
				c.Count("modes/both-fail")
			}
		}
	}
	shapeLists := [][]string{nil, {"c3-standard-4"}, {"c3-standard-4", "c3-standard-8"}, {"c3-standard-176", "c3-standard-4", "c3-standard-176"},
		{"n2d-standard-2"}, {"c3-standard-4", "C3-STANDARD-4"}, {"c3-standard-88", "c3-standard-22", "c3-standard-44"},
		{"c3-standard-4", "c3-standard-176"}}
	base := c06Req{svn: 7, tsvn: 9, cl: 123456789, commit: bytes.Repeat([]byte{0xab}, 20), ts: baseTime, keysMode: "full", caErr: "none",
		iid: "87654321-dead-beef-c0de-123456789abc", rndSeed: 5}
	// ---- grid on the full image: technology x count x product x shapes x early ----
	for _, tech := range [][2]bool{{true, false}, {false, true}, {true, true}, {false, false}} {
		for _, vm := range []uint32{0, 1, 2, 5, 240} {
			for _, prod := range []int{1, 2, 0} {
				for si, sl := range shapeLists {
					for _, early := range []bool{false, true} {
						if !tech[0] && (vm != 0 || prod != 1) {
							continue // SNP parameters are irrelevant without SNP
						}
						if !tech[1] && (si != 0 || early) {
							continue
						}
						for gi, im := range images[:2] {
							if gi == 1 && c.Quick() && (vm == 240 || si%2 == 1) {
								continue
							}
							r := base
							r.im, r.snp, r.tdx, r.vm, r.prod, r.shapes, r.early = im, tech[0], tech[1], vm, prod, sl, early
							r.sign = vm != 0 || si%2 == 0
							c06One(c, r, "grid")
						}
					}
				}
			}
		}
	}
	// ---- every image variant, small grid ----
	for _, im := range images[1:] {
		for _, tech := range [][2]bool{{true, false}, {false, true}, {true, true}} {
			for _, vm := range []uint32{0, 1} {
				for _, sl := range [][]string{nil, {"c3-standard-4"}, {"c3-standard-4", "c3-standard-176"}, {"c3-standard-176", "c3-standard-4"}} {
					for _, early := range []bool{false, true} {
						if !tech[1] && (len(sl) != 0 || early) {
							continue
						}
						if !tech[0] && vm != 0 {
							continue
						}
						r := base
						r.im, r.snp, r.tdx, r.vm, r.prod, r.shapes, r.early, r.sign = im, tech[0], tech[1], vm, 1, sl, early, true
						c06One(c, r, "images")
					}
				}
			}
		}
	}
	// ---- ids, SVN, SVSM, provenance, timestamps, key material ----
	ids := []string{"", c06DefaultFamily, "87654321-DEAD-BEEF-C0DE-123456789ABC", "urn:uuid:87654321-dead-beef-c0de-123456789abc",
		"URN:UUID:00000000-0000-0000-0000-000000000000", "{87654321-dead-beef-c0de-123456789abc}", "87654321deadbeefc0de123456789abc",
		"x87654321-dead-beef-c0de-123456789abcx", "87654321-dead-beef-c0de-123456789ab", "87654321-dead-beef-c0de-123456789abg",
		"87654321_dead-beef-c0de-123456789abc", "not_a_guid", "urn:uuix:87654321-dead-beef-c0de-123456789abc", "8765432gdeadbeefc0de123456789abc"}
	for i, fam := range ids {
		for j, iid := range ids {
			if i > 3 && j > 3 && (i+j)%3 != 0 {
				continue
			}
			r := base
			r.im, r.snp, r.vm, r.prod, r.fam, r.iid, r.sign = both, true, 1, 1+(i+j)%2, fam, iid, (i+j)%2 == 0
			r.rndSeed = uint64(100 + i*17 + j)
			c06One(c, r, "ids")
		}
	}
	times := []time.Time{baseTime, {}, baseTime.Add(123456789 * time.Nanosecond), time.Unix(-1000, 5).UTC(), time.Unix(1<<33, 999999999).UTC()}
	nr := c.N(400, 6000)
	for i := 0; i < nr; i++ {
		r := base
		r.im = images[c.Rng.Intn(2)]
		r.snp, r.tdx = true, c.Rng.Bool()
		if c.Rng.Intn(5) == 0 {
			r.snp, r.tdx = false, true
		}
		r.vm = []uint32{0, 1, 1, 2, 3, 7}[c.Rng.Intn(6)]
		r.prod = 1 + c.Rng.Intn(2)
		r.svn = []uint32{0, 1, 0x1337, 0xffffffff}[c.Rng.Intn(4)]
		r.tsvn = []uint32{0, 2, 0xffffffff}[c.Rng.Intn(3)]
		r.shapes = shapeLists[[]int{0, 1, 2, 3, 6, 7}[c.Rng.Intn(6)]]
		r.early = c.Rng.Bool()
		if c.Rng.Bool() {
			r.svsm = c.Rng.Bytes(48)
		}
		if c.Rng.Bool() {
			r.cl, r.commit = 0, nil
		} else {
			r.cl, r.commit = c.Rng.Next(), c.Rng.Bytes(20)
		}
		r.fam, r.iid = ids[c.Rng.Intn(7)], ids[c.Rng.Intn(7)]
		r.rndSeed = c.Rng.Next()
		r.ts = times[c.Rng.Intn(len(times))]
		r.sign = true
		switch c.Rng.Intn(8) {
		case 0:
			r.keysMode = []string{"none", "noca", "nosigner"}[c.Rng.Intn(3)]
		case 1:
			r.caErr = []string{"primary", "cert", "bundle"}[c.Rng.Intn(3)]
		case 2:
			r.signErr = true
		}
		c06One(c, r, "fields")
	}
}
