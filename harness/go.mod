module verif-harness

go 1.20

require (
	cloud.google.com/go/iam v1.1.6
	cloud.google.com/go/kms v1.15.7
	github.com/cyphar/filepath-securejoin v0.2.5
	github.com/google/gce-tcb-verifier v0.2.3-0.20240907002716-116e9ad95165
	github.com/google/gce-tcb-verifier/gcetcbendorsement v0.0.0
	github.com/google/go-sev-guest v0.13.0
	github.com/google/go-tdx-guest v0.3.2-0.20240902060211-1f7f7b9b42b9
	github.com/google/go-tpm-tools v0.4.4
	github.com/google/uuid v1.6.0
	github.com/spf13/cobra v1.8.0
	google.golang.org/grpc v1.63.2
	google.golang.org/protobuf v1.34.2
)

require (
	github.com/google/go-configfs-tsm v0.3.2 // indirect
	github.com/google/logger v1.1.1 // indirect
	github.com/pkg/errors v0.9.1 // indirect
	github.com/spf13/pflag v1.0.5 // indirect
	go.uber.org/multierr v1.11.0 // indirect
	golang.org/x/crypto v0.21.0 // indirect
	golang.org/x/exp v0.0.0-20240409090435-93d18d7e34b8 // indirect
	golang.org/x/net v0.23.0 // indirect
	golang.org/x/sys v0.19.0 // indirect
	golang.org/x/term v0.18.0 // indirect
	golang.org/x/text v0.14.0 // indirect
	google.golang.org/genproto v0.0.0-20240227224415-6ceb2ff114de // indirect
	google.golang.org/genproto/googleapis/api v0.0.0-20240227224415-6ceb2ff114de // indirect
	google.golang.org/genproto/googleapis/rpc v0.0.0-20240227224415-6ceb2ff114de // indirect
)

replace github.com/google/gce-tcb-verifier => /repo

replace github.com/google/gce-tcb-verifier/gcetcbendorsement => /repo/gcetcbendorsement
