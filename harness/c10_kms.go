package main

// C10 on the production stack: gcpkms.Manager + gcpkms.Signer over the in-process Cloud KMS service of
// c10_kms_svc.go, with the gcsca authority over testing/storage and over storage/local.
//
// One case = one real rotate.Key run from a bootstrapped state (real rotate.Bootstrap through the gcpkms
// manager) with `hist` earlier rotations, under a fault script over the numbered external calls — the
// decorated manager / signer / authority / storage calls of the nonprod stacks AND, nested inside them,
// every Cloud KMS client call (CreateCryptoKeyVersion, each GetCryptoKeyVersion poll, GetPublicKey,
// AsymmetricSign, DestroyCryptoKeyVersion) — and a Cloud KMS environment (generation countdown, final
// state of the new version, expiring context, corrupted AsymmetricSign response).  Then: fresh
// authority over the same storage + fresh manager/signer over the same KMS state, direct oracle, a
// fault-free rotation with overwrite, the oracle again.  Call logs, results, durable post-states and
// key-version states of both runs are compared with Model/RotateKms.lean.

import (
	"context"
	"crypto"
	"crypto/rsa"
	"crypto/sha256"
	"fmt"
	"io"
	"os"
	"sort"
	"strings"
	"sync"

	"github.com/google/gce-tcb-verifier/cmd/output"
	"github.com/google/gce-tcb-verifier/keys"
	"github.com/google/gce-tcb-verifier/keys/gcpkms"
	"github.com/google/gce-tcb-verifier/rotate"
	"github.com/google/gce-tcb-verifier/sign/gcsca"
	sops "github.com/google/gce-tcb-verifier/sign/ops"
	styp "github.com/google/gce-tcb-verifier/sign/types"
)

func init() {
	register("c10kms", "real rotate.Key runs on the Cloud KMS stack (gcpkms.Manager + gcpkms.Signer over an in-process "+
		"stateful KMS service, gcsca over testing/storage and over storage/local) under fault scripts (fail / "+
		"crash-after) over every numbered external call incl. every KMS client call (CreateCryptoKeyVersion, each "+
		"GetCryptoKeyVersion poll, GetPublicKey, AsymmetricSign, DestroyCryptoKeyVersion): every single fault at every "+
		"position, every reachable pair (quick: sampled), environments (generation countdown with the real 5 s wait, "+
		"final state DISABLED/DESTROYED/GENERATION_FAILED, expiring context, four corruptions of the AsymmetricSign "+
		"response) x single faults, from histories of 0..1 (thorough 0..2) rotations, with and without overwrite; each "+
		"followed by reload, direct oracle and a fault-free retry with overwrite; plus external-change scenarios "+
		"(oracle only). Non-trivial: a fault is reached or the environment is not benign; distinct by op line.", runC10Kms)
}

// k10Snap is the durable state of the stack: the KMS service and the stored objects.
type k10Snap struct {
	svc  *k10Svc
	objs map[string][]byte
	perm bool // the bootstrap wrote the signing key's manifest entry before the root's
}

type k10Inst struct {
	in  *e1Inst // storage half (objects, fresh authorities) — km is unused there
	svc *k10Svc
	f   *faultCtl
	cl  *k10Client // client of the current operation
	rng *Rng
	// keepGoing: the next operations run with --keep_going (c10_kms_keepgoing.go)
	keepGoing bool
}

func newK10Inst(ca string, snap *k10Snap, dir string, rng *Rng) *k10Inst {
	return &k10Inst{in: newInst("gcpkms", ca, &e1Snap{objs: snap.objs}, dir, rng), svc: snap.svc.clone(), rng: rng}
}

func (k *k10Inst) snapshot() *k10Snap {
	return &k10Snap{svc: k.svc.clone(), objs: k.in.objects()}
}

// cleanClient is an undecorated client over the same service state.
func (k *k10Inst) cleanClient() *k10Client {
	return &k10Client{svc: k.svc, rng: k.rng}
}

// ctx builds the context of one operation: decorated real components driven by a new fault controller.
func (k *k10Inst) ctx(overwrite bool, script map[int]int, env k10Env) context.Context {
	k.f = &faultCtl{script: script}
	k.in.f = k.f
	outCtx := quietCtx(overwrite)
	if k.keepGoing {
		outCtx = output.NewContext(context.Background(), &output.Options{Quiet: true, Overwrite: overwrite, KeepGoing: true,
			Out: io.Discard, Err: io.Discard})
	}
	base, cancel := context.WithCancel(outCtx)
	k.cl = &k10Client{svc: k.svc, f: k.f, env: env, cancel: cancel, rng: k.rng}
	mgr := k.cl.manager()
	c := &keys.Context{
		CA:      k.in.freshCA(k.f),
		Signer:  &faultSigner{inner: &gcpkms.Signer{Manager: mgr}, f: k.f},
		Random:  k.rng,
		Manager: &faultKM{inner: mgr, f: k.f},
	}
	ctx := keys.NewContext(base, c)
	ctx = gcpkms.NewSigningKeyContext(ctx, &gcpkms.SigningKeyContext{SigningKeyID: k10SignID})
	return ctx
}

func k10BootstrapCtx(ctx context.Context) context.Context {
	ctx = gcpkms.NewBootstrapContext(ctx, &gcpkms.BootstrapContext{RootKeyID: k10RootID, SigningKeyID: k10SignID,
		SigningKeyOperators: []string{"serviceAccount:signer@example.com"}})
	return bootstrapCtx(ctx)
}

func (k *k10Inst) primary() string {
	p, _ := k.in.freshCA(nil).PrimarySigningKeyVersion(quietCtx(false))
	return p
}

// renderK10 prints the durable state like the nonprod stacks do (live keys = ENABLED versions), followed by
// the states of the signing cryptoKey's versions.
func (k *k10Inst) render() string {
	s := &e1Snap{keys: k.svc.liveKeys(), objs: k.in.objects()}
	return renderState(s, false) + " " + k.svc.renderVers(k10Parent)
}

var k10Doc = []byte("verif C10 document to endorse (kms)")

// k10Oracle evaluates the property's clauses on the implementation alone: a fresh authority over the
// stored objects, a fresh gcpkms signer over the same KMS state.
func k10Oracle(k *k10Inst) (clause, detail string) {
	ctx := quietCtx(false)
	ca := k.in.freshCA(nil)
	p, err := ca.PrimarySigningKeyVersion(ctx)
	if err != nil || p == "" {
		return "primary-unreadable", fmt.Sprintf("primary=%q err=%v", p, err)
	}
	v := k.svc.ver(p)
	if v == nil || v.state != ksEnabled {
		st := "absent"
		if v != nil {
			st = v.state.String()
		}
		return "primary-not-live", fmt.Sprintf("recorded primary %q is not an ENABLED key version (%s)", p, st)
	}
	signer := &gcpkms.Signer{Manager: k.cleanClient().manager()}
	if _, err := signer.PublicKey(ctx, p); err != nil {
		return "primary-not-live", fmt.Sprintf("recorded primary %q has no retrievable public key: %v", p, err)
	}
	cert, err := sops.CertificateX509(ctx, ca, p)
	if err != nil {
		return "primary-uncertified", fmt.Sprintf("recorded primary %q has no stored certificate: %v", p, err)
	}
	pk, ok := cert.PublicKey.(*rsa.PublicKey)
	if !ok || !k.svc.priv(p).PublicKey.Equal(pk) {
		return "primary-cert-other-key", fmt.Sprintf("certificate stored for %q is not for that key version's public key", p)
	}
	digest := sha256.Sum256(k10Doc)
	sig, err := signer.Sign(ctx, p, styp.Digest{SHA256: digest[:]}, &rsa.PSSOptions{SaltLength: rsa.PSSSaltLengthEqualsHash, Hash: crypto.SHA256})
	if err != nil {
		return "primary-cannot-sign", err.Error()
	}
	if err := sops.VerifySignatureFromCA(ctx, ca, p, baseTime.Add(3600e9), k10Doc, sig); err != nil {
		return "primary-chain-broken", fmt.Sprintf("document signed with %q does not verify against the stored root: %v", p, err)
	}
	return "", ""
}

// k10Guarded is runGuarded plus the poll watchdog.
func k10Guarded(op func() error) (res string, err error) {
	defer func() {
		if r := recover(); r != nil {
			if d, ok := r.(k10Diverged); ok {
				res, err = "diverged", fmt.Errorf("GetCryptoKeyVersion polled %d times", d.polls)
				return
			}
			panic(r)
		}
	}()
	return runGuarded(op)
}

type k10Case struct {
	ca        string
	hist      int
	overwrite bool
	script    map[int]int
	env       k10Env
	order     string // "" = the code as is; used by replays only
	seed      uint64
	// results
	op, impl string
	reached  bool
	logLen   int
	log      []string
	finds    []Finding
	counts   []string
}

func (cs *k10Case) find(sig, what, replay string) {
	cs.finds = append(cs.finds, Finding{sig, what, replay})
}

func (e k10Env) benign() bool {
	return e.final == 0 && !e.deadline && e.corrupt == ""
}

func (e k10Env) tag() string {
	cor := e.corrupt
	if cor == "" {
		cor = "-"
	}
	return fmt.Sprintf("gen=%d final=%s dl=%s cor=%s imm=%s resp=%s", e.gen, e.finalLetter(), b2s(e.deadline), cor, b2s(e.immediate), e.respLetter())
}

// k10PubCalls counts the issuer-key public-key requests x509.CreateCertificate makes before / after signing.
func k10PubCalls(log []string) (pre, post int) {
	seenSign := false
	for _, l := range log {
		if strings.HasPrefix(l, "sg.sign.") {
			seenSign = true
		} else if strings.HasPrefix(l, "sg.pub."+k10RootKey) {
			if seenSign {
				post++
			} else {
				pre++
			}
		}
	}
	return
}

func k10FaultClass(cs *k10Case, log []string) string {
	fc := faultClass(cs.script, log)
	if fc == "none" && !cs.env.benign() {
		switch {
		case cs.env.corrupt != "":
			return "env:corrupt-" + cs.env.corrupt
		case cs.env.deadline:
			return "env:deadline"
		default:
			return "env:final-" + cs.env.finalLetter()
		}
	}
	return fc
}

func runK10Case(cs *k10Case, snaps map[string]*k10Snap, pre, post int) {
	dir, err := os.MkdirTemp("", "verif-c10k-")
	must(err)
	defer os.RemoveAll(dir)
	rng := &Rng{s: cs.seed}
	snap := snaps[fmt.Sprintf("%d", cs.hist)]
	k := newK10Inst(cs.ca, snap, dir, rng)
	stack := "gcpkms+" + cs.ca
	cn := "sig"
	serial := k.in.nextSerial()
	opHead := fmt.Sprintf("c10 op=rotk ca=gcsca st=%s hist=%d ow=%s script=%s pk=%d,%d cn=%s serial=%d %s perm=%s parent=%s rootkey=%s",
		cs.ca, cs.hist, b2s(cs.overwrite), scriptString(cs.script), pre, post, cn, serial, cs.env.tag(), b2s(snap.perm), k10Parent, k10RootKey)
	replay := opHead + " stack=" + stack

	// --- faulted run ---
	ctx := rotateCtx(k.ctx(cs.overwrite, cs.script, cs.env), cn, serial)
	f := k.f
	oldPrimary := k.primary()
	destroyEarly := ""
	check := func(level, name string) {
		// destroy-after-commit on the durable state at the moment the request is made: a fresh authority
		// over the same storage must not name the version being destroyed, and the primary it names must
		// be fully usable.
		if destroyEarly != "" {
			return
		}
		if p := k.primary(); p == name {
			destroyEarly = fmt.Sprintf("%s(%q) while the durable state still records it as primary", level, name)
		} else if cl, d := k10Oracle(k); cl != "" {
			destroyEarly = fmt.Sprintf("%s(%q) while the recorded primary is unusable (%s: %s)", level, name, cl, d)
		}
	}
	f.onDestroy = func(name string) { check("DestroyKeyVersion", name) }
	k.cl.onDestroy = func(name string) { check("DestroyCryptoKeyVersion", name) }
	var kver string
	res, rerr := k10Guarded(func() error {
		kv, err := rotate.Key(ctx)
		kver = kv
		return err
	})
	k.cl.cancel()
	cs.log = append([]string(nil), f.log...)
	cs.logLen = len(f.log)
	for i := range f.log {
		if o, ok := cs.script[i]; ok && o != fOK {
			cs.reached = true
		}
	}
	if !cs.env.benign() {
		cs.reached = true
	}
	fc := k10FaultClass(cs, f.log)
	cs.counts = append(cs.counts, "res/"+res, "fault/"+fc, "stack/"+stack, "env/"+strings.ReplaceAll(cs.env.tag(), " ", ","))
	if res == "diverged" {
		cs.find("c10/gcpkms/poll-does-not-terminate/"+fc, fmt.Sprintf("waitForKeyVersionGen keeps polling a version that will not become ENABLED: %v", rerr), replay)
	}
	if res == "ok" {
		res += "." + kver
		// a rotation that reports success has destroyed the old version ("...and then destroys the old key")
		if v := k.svc.ver(oldPrimary); v != nil && v.state == ksEnabled {
			cs.find("c10/gcpkms/success-but-old-still-enabled/"+fc,
				fmt.Sprintf("rotate.Key returned success but the previous primary %q is still ENABLED", oldPrimary), replay)
		}
	}
	if len(cs.script) == 0 && cs.env.benign() && !strings.HasPrefix(res, "ok") {
		// a benign environment (any generation countdown, any state in the Create response) and no fault:
		// the request names a new certificate object, so the rotation has to succeed
		cs.find("c10/gcpkms/fault-free-rotation-fails/"+fc, fmt.Sprintf("rotate.Key without any fault in a benign Cloud KMS environment (%s) failed: %s %v",
			cs.env.tag(), res, rerr), replay)
	}
	st1 := k.render()
	if destroyEarly != "" {
		cs.find("c10/gcpkms/destroy-before-commit/"+fc, destroyEarly, replay)
	}
	if cl, d := k10Oracle(k); cl != "" {
		cs.find("c10/gcpkms/"+cl+"/"+fc, "after a faulted rotation and reload: "+d, replay)
	}
	// the old version may be DESTROY_SCHEDULED only if the stored manifest names another (the new) primary
	if v := k.svc.ver(oldPrimary); v != nil && v.state != ksEnabled && k.primary() == oldPrimary {
		cs.find("c10/gcpkms/old-destroyed-but-still-primary/"+fc,
			fmt.Sprintf("version %q is %s while the stored manifest still names it as primary", oldPrimary, v.state), replay)
	}
	// destroy-after-commit on the recorded log, at both levels
	commitSeen := false
	for _, l := range f.log {
		if l == "st.c."+gcsca.ManifestObjectName {
			commitSeen = true
		}
		if (strings.HasPrefix(l, "km.destroy.") || strings.HasPrefix(l, "kms.destroy.")) && !strings.HasSuffix(l, "!") && !commitSeen {
			cs.find("c10/gcpkms/destroy-before-manifest-write/"+fc,
				"call log has a destroy request before the manifest write completed: "+strings.Join(f.log, ","), replay)
			break
		}
	}
	// the new version's name is fresh: never a name that existed before the run
	if kver != "" && snap.svc.ver(kver) != nil {
		cs.find("c10/gcpkms/version-name-reused/"+fc, fmt.Sprintf("rotation returned %q, which existed before", kver), replay)
	}
	// --- fault-free retry with overwrite, in a benign environment ---
	rserial := k.in.nextSerial()
	cs.op = fmt.Sprintf("%s rserial=%d", opHead, rserial)
	if cs.order != "" {
		cs.op += " order=" + cs.order
	}
	ctx2 := rotateCtx(k.ctx(true, nil, k10Env{}), cn, rserial)
	f2 := k.f
	before := k.svc.clone()
	var kver2 string
	res2, err2 := k10Guarded(func() error {
		kv, err := rotate.Key(ctx2)
		kver2 = kv
		return err
	})
	k.cl.cancel()
	st2 := k.render()
	if res2 != "ok" {
		cs.find("c10/gcpkms/retry-fails/"+fc, fmt.Sprintf("fault-free rotation with overwrite after a faulted run failed: %v", err2), replay)
	} else {
		res2 += "." + kver2
		if cl, d := k10Oracle(k); cl != "" {
			cs.find("c10/gcpkms/retry-"+cl+"/"+fc, "after the fault-free retry: "+d, replay)
		}
		if p := k.primary(); p != kver2 {
			cs.find("c10/gcpkms/retry-primary-not-new/"+fc, fmt.Sprintf("retry returned %q but primary is %q", kver2, p), replay)
		}
		if before.ver(kver2) != nil {
			cs.find("c10/gcpkms/version-name-reused/"+fc, fmt.Sprintf("retry returned %q, which existed before (a leftover of the failed attempt)", kver2), replay)
		}
	}
	cs.counts = append(cs.counts, "retry/"+strings.SplitN(res2, ".", 2)[0])
	cs.impl = fmt.Sprintf("log=%s res=%s %s rlog=%s retry=%s %s", strings.Join(f.log, ","), res, st1,
		strings.Join(f2.log, ","), res2, st2)
}

// k10Snapshots bootstraps the stack (real rotate.Bootstrap through the gcpkms manager: CreateKeyRing,
// CreateCryptoKey x2, version listing, polling, SetIamPolicy) and applies maxHist fault-free rotations.
func k10Snapshots(c *Ctx, maxHist int) map[string]*k10Snap {
	out := map[string]*k10Snap{}
	rng := &Rng{s: c.Rng.Next()}
	k := newK10Inst("gcsmem", &k10Snap{svc: &k10Svc{iam: map[string][]string{}}, objs: map[string][]byte{}}, "", rng)
	if res, err := runGuarded(func() error { return rotate.Bootstrap(k10BootstrapCtx(k.ctx(false, nil, k10Env{}))) }); res != "ok" {
		c.Find("c10/gcpkms/fault-free-bootstrap-fails/none", fmt.Sprintf("rotate.Bootstrap through the gcpkms manager on an empty KMS and store: %s %v", res, err),
			"stack=gcpkms+gcsmem op=bootstrap log="+strings.Join(k.f.log, ","))
		return out
	}
	c.Extra["kms_bootstrap_calls"] = strings.Join(k10KmsCalls(k.f.log), ",")
	// the order of the two manifest entries depends on Go's map iteration inside Finalize
	perm := false
	if m, ok := parseManifest(k.in.objects()[gcsca.ManifestObjectName]); ok && len(m.GetEntries()) == 2 {
		perm = m.GetEntries()[0].GetKeyVersionName() != k10RootKey
	}
	s := k.snapshot()
	s.perm = perm
	out["0"] = s
	for h := 0; h < maxHist; h++ {
		ctx := rotateCtx(k.ctx(false, nil, k10Env{}), "sig", k.in.nextSerial())
		if res, err := runGuarded(func() error { _, err := rotate.Key(ctx); return err }); res != "ok" {
			c.Find("c10/gcpkms/fault-free-rotation-fails/none", fmt.Sprintf("fault-free rotate.Key number %d after bootstrap: %s %v", h+1, res, err),
				fmt.Sprintf("stack=gcpkms+gcsmem hist=%d script=- log=%s", h, strings.Join(k.f.log, ",")))
			return out
		}
		s := k.snapshot()
		s.perm = perm
		out[fmt.Sprintf("%d", h+1)] = s
	}
	return out
}

// k10KmsCalls keeps the KMS client calls of a log, without resource names.
func k10KmsCalls(log []string) []string {
	var out []string
	for _, l := range log {
		if strings.HasPrefix(l, "kms.") {
			p := strings.SplitN(l, ".", 3)
			out = append(out, p[0]+"."+p[1])
		}
	}
	return out
}

func runC10Kms(c *Ctx) {
	maxHist := c.N(1, 2)
	snaps := k10Snapshots(c, maxHist)
	if len(snaps) == 0 {
		return
	}
	maxHist = len(snaps) - 1
	cas := []string{"gcsmem", "gcslocal"}
	workers := c.N(8, 12)

	runBatch := func(cases []*k10Case, pre, post int) {
		var wg sync.WaitGroup
		ch := make(chan *k10Case)
		for w := 0; w < workers; w++ {
			wg.Add(1)
			go func() {
				defer wg.Done()
				for cs := range ch {
					runK10Case(cs, snaps, pre, post)
				}
			}()
		}
		for _, cs := range cases {
			ch <- cs
		}
		close(ch)
		wg.Wait()
	}
	emit := func(cases []*k10Case) {
		for _, cs := range cases {
			c.Case(cs.op, cs.impl, cs.reached)
			for _, k := range cs.counts {
				c.Count(k)
			}
			for _, fd := range cs.finds {
				c.Find(fd.Sig, fd.What, fd.Replay)
			}
		}
	}

	// 1. fault-free runs in the benign environment: the call positions of every configuration
	var base []*k10Case
	for _, ca := range cas {
		for h := 0; h <= maxHist; h++ {
			for _, ow := range []bool{false, true} {
				if c.Quick() && h > 0 && (ow || ca == "gcsmem") {
					continue // quick: history and overwrite dimensions sampled
				}
				base = append(base, &k10Case{ca: ca, hist: h, overwrite: ow, script: map[int]int{}, seed: c.Rng.Next()})
			}
		}
	}
	runBatch(base[:1], 0, 0)
	pre, post := k10PubCalls(base[0].log)
	c.Extra["x509_issuer_public_calls_pre_post"] = []int{pre, post}
	c.Extra["kms_rotation_calls"] = strings.Join(k10KmsCalls(base[0].log), ",")
	runBatch(base, pre, post)
	emit(base)

	// 2. every single fault at every position
	var singles []*k10Case
	for _, b := range base {
		c.Count(fmt.Sprintf("positions/gcpkms+%s/%d", b.ca, b.logLen))
		for pos := 0; pos < b.logLen; pos++ {
			for _, o := range []int{fFail, fCrash} {
				singles = append(singles, &k10Case{ca: b.ca, hist: b.hist, overwrite: b.overwrite,
					script: map[int]int{pos: o}, seed: c.Rng.Next()})
			}
		}
	}
	runBatch(singles, pre, post)
	emit(singles)

	// 3. pairs: a second fault is reached only when the run continued past the first (a failed Write is
	//    followed by Close; nothing else is swallowed on this stack)
	var pairs []*k10Case
	for _, s := range singles {
		first := -1
		for p := range s.script {
			first = p
		}
		if s.script[first] == fCrash {
			continue
		}
		for pos := first + 1; pos < s.logLen; pos++ {
			for _, o := range []int{fFail, fCrash} {
				pairs = append(pairs, &k10Case{ca: s.ca, hist: s.hist, overwrite: s.overwrite,
					script: map[int]int{first: fFail, pos: o}, seed: c.Rng.Next()})
			}
		}
	}
	c.Extra["pairs_reachable"] = len(pairs)
	runBatch(pairs, pre, post)
	emit(pairs)

	// 4. Cloud KMS environments: fault-free, then every single fault at every position of that run
	envs := []k10Env{
		{corrupt: "sigcrc"}, {corrupt: "sigbit"}, {corrupt: "vdata"}, {corrupt: "vdigest"},
		{final: ksDisabled}, {final: ksDestroyed}, {final: ksGenFailed},
		{gen: 1, deadline: true}, {gen: 2, deadline: true},
		// created already in the final state (no generation phase): live at once, or never live
		{immediate: true}, {immediate: true, final: ksDisabled}, {immediate: true, final: ksGenFailed},
		// the response reports a state the version is not in (the shipped code never reads it): ENABLED for a
		// version that is PENDING_GENERATION / was created DISABLED, PENDING_GENERATION for one created DISABLED
		{resp: ksEnabled}, {immediate: true, final: ksDisabled, resp: ksEnabled}, {immediate: true, final: ksDisabled, resp: ksPending},
		{immediate: true, resp: ksDisabled},
	}
	var envBase []*k10Case
	for _, e := range envs {
		for _, ca := range cas {
			if c.Quick() && ca == "gcslocal" && e.corrupt != "sigcrc" && e.final != ksDisabled && !e.immediate && e.resp == 0 {
				continue
			}
			envBase = append(envBase, &k10Case{ca: ca, hist: 0, overwrite: false, script: map[int]int{}, env: e, seed: c.Rng.Next()})
		}
	}
	runBatch(envBase, pre, post)
	emit(envBase)
	var envSingles []*k10Case
	for _, b := range envBase {
		if c.Quick() && b.ca != "gcsmem" {
			continue
		}
		for pos := 0; pos < b.logLen; pos++ {
			for _, o := range []int{fFail, fCrash} {
				envSingles = append(envSingles, &k10Case{ca: b.ca, hist: 0, overwrite: false, script: map[int]int{pos: o}, env: b.env, seed: c.Rng.Next()})
			}
		}
	}
	if c.Quick() && len(envSingles) > 120 {
		var keep []*k10Case
		step := (len(envSingles) + 119) / 120
		for i, p := range envSingles {
			// a fault before the first poll has answered leaves a version in the state it was created in: always kept
			early := false
			for pos := range p.script {
				early = p.env.immediate && pos < 3
			}
			if i%step == 0 || early {
				keep = append(keep, p)
			}
		}
		envSingles = keep
	}
	runBatch(envSingles, pre, post)
	emit(envSingles)

	// 5. the real wait: a version that is PENDING_GENERATION for `gen` polls makes waitForKeyVersionGen sleep
	//    5 s per poll (no hook shortens it); the cases run concurrently
	var slow []*k10Case
	slow = append(slow, &k10Case{ca: "gcsmem", hist: 0, script: map[int]int{}, env: k10Env{gen: 1}, seed: c.Rng.Next()})
	if !c.Quick() {
		slow = append(slow, &k10Case{ca: "gcslocal", hist: maxHist, overwrite: true, script: map[int]int{}, env: k10Env{gen: 2}, seed: c.Rng.Next()})
		// faults at the polls and right after them (positions 1..4: kms.create, kms.get, kms.get, ca.psk)
		for pos := 1; pos <= 4; pos++ {
			for _, o := range []int{fFail, fCrash} {
				slow = append(slow, &k10Case{ca: "gcsmem", hist: 0, script: map[int]int{pos: o}, env: k10Env{gen: 1}, seed: c.Rng.Next()})
			}
		}
		slow = append(slow, &k10Case{ca: "gcsmem", hist: 0, script: map[int]int{}, env: k10Env{gen: 1, final: ksDisabled}, seed: c.Rng.Next()})
	}
	saved := workers
	workers = len(slow)
	runBatch(slow, pre, post)
	workers = saved
	emit(slow)

	// 6. thorough: random scripts with 2..3 faults anywhere, random environment
	if !c.Quick() {
		var rnd []*k10Case
		for i := 0; i < 300; i++ {
			b := base[c.Rng.Intn(len(base))]
			sc := map[int]int{}
			for j := 0; j < 2+c.Rng.Intn(2); j++ {
				sc[c.Rng.Intn(b.logLen+2)] = 1 + c.Rng.Intn(2)
			}
			e := k10Env{}
			if c.Rng.Intn(3) == 0 {
				e = envs[c.Rng.Intn(len(envs))]
			}
			rnd = append(rnd, &k10Case{ca: b.ca, hist: b.hist, overwrite: b.overwrite, script: sc, env: e, seed: c.Rng.Next()})
		}
		runBatch(rnd, pre, post)
		emit(rnd)
	}
	c.Extra["cases_base_single_pair_env_slow"] = []int{len(base), len(singles), len(pairs), len(envBase) + len(envSingles), len(slow)}

	// 7. external changes of key versions during / between runs (direct oracle only)
	if maxHist >= 1 {
		runC10KmsScenarios(c, snaps)
		runC10KmsKeepGoing(c, snaps)
	}
	_ = sort.Strings
}
