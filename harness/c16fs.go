package main

// Stream c16fs (property C16, confinement clause): github.com/cyphar/filepath-securejoin's SecureJoin,
// the kernel's path resolution (os.ReadFile / lstat) and EfiVarFSReader.ReadVariable on GENERATED
// DIRECTORY TREES, against the Lean model of Model/SecureJoin.lean on the same tree serialised on
// the protocol line.
//
//   op=clean    filepath.Clean                                   vs  SecureJoin.clean
//   op=resolve  open(O_PATH[|O_NOFOLLOW]) + /proc/self/fd        vs  SecureJoin.resolve
//   op=join     securejoin.SecureJoin(root,p) + os.ReadFile      vs  secureJoin + readFile
//   op=readvar  exel.EfiVarFSReader.ReadVariable / varBasename   vs  Extract.readVariable over envOf(fs)
//
// Direct oracle (implementation alone): for a cleaned root, the path handed to os.ReadFile is root or
// root + "/" + components; what the kernel opens for it lies in the subtree of the directory root
// denotes; the bytes returned are those of a file inside that subtree — every file carries its own
// identity, and files outside the root (siblings "<root>-<guid>", a "secret" directory, targets of
// absolute / ..-relative links) must never be returned.

import (
	"crypto/sha256"
	"encoding/hex"
	"errors"
	"fmt"
	"os"
	"path/filepath"
	"regexp"
	"runtime/debug"
	"strconv"
	"strings"
	"syscall"

	securejoin "github.com/cyphar/filepath-securejoin"
	exel "github.com/google/gce-tcb-verifier/extract/eventlog"
	"github.com/google/uuid"
)

func init() {
	register("c16fs",
		"securejoin.SecureJoin + os.ReadFile and EfiVarFSReader.ReadVariable on generated directory trees (directories, files, "+
			"absolute / relative / dangling / looping symbolic links, names with .., /, ., NUL, over-long components, link chains at the "+
			"40- and 255-expansion limits) compared with the Lean model of the library and of the kernel's path resolution on the same "+
			"tree; oracle: the file whose bytes are returned lies inside the root. Non-trivial: the walk met at least one symbolic link or "+
			"a .. component, or a file was opened.",
		runC16Fs)
}

type c16fsEnt struct {
	path   string // real absolute path
	kind   byte   // 'd', 'f', 'l'
	id     int
	target string // real target text
}

type c16fsTree struct {
	outer string // scratch directory (real, canonical)
	fake  string // what `outer` is called on the protocol line (same depth, fixed name)
	ents  []c16fsEnt
	nextF int
	guid  uuid.UUID
}

func c16fsContent(id int) []byte {
	if id >= 900 {
		return []byte{1, 2, byte(id - 900)}
	}
	return append([]byte{7, 0, 0, 0}, []byte("FILE-"+strconv.Itoa(id)+"-END")...)
}

var c16fsContentRe = regexp.MustCompile(`FILE-([0-9]+)-END`)

// identity of the file some bytes come from (-1: none recognisable). `stripped`: the 4-byte header is gone.
func c16fsIdent(b []byte) int {
	if m := c16fsContentRe.FindSubmatch(b); m != nil {
		n, _ := strconv.Atoi(string(m[1]))
		return n
	}
	if len(b) == 3 && b[0] == 1 && b[1] == 2 {
		return 900 + int(b[2])
	}
	return -1
}

func c16fsNewTree(g uuid.UUID) *c16fsTree {
	outer, err := os.MkdirTemp("", "verif-c16fs-")
	if err != nil {
		panic(err)
	}
	outer, _ = filepath.EvalSymlinks(outer)
	return &c16fsTree{outer: outer, fake: filepath.Join(filepath.Dir(outer), "O"), guid: g}
}

func (t *c16fsTree) Close() { os.RemoveAll(t.outer) }

// mp maps a text containing the scratch directory's real name to the protocol's fixed name.
func (t *c16fsTree) mp(s string) string { return strings.ReplaceAll(s, t.outer, t.fake) }

func (t *c16fsTree) mkdir(p string) {
	if err := os.Mkdir(p, 0755); err != nil {
		panic(err)
	}
	t.ents = append(t.ents, c16fsEnt{path: p, kind: 'd'})
}

func (t *c16fsTree) mkfile(p string, short bool) int {
	id := t.nextF
	t.nextF++
	if short {
		id = 900 + id%100
	}
	if err := os.WriteFile(p, c16fsContent(id), 0644); err != nil {
		panic(err)
	}
	t.ents = append(t.ents, c16fsEnt{path: p, kind: 'f', id: id})
	return id
}

func (t *c16fsTree) mklink(p, target string) {
	if err := os.Symlink(target, p); err != nil {
		panic(err)
	}
	t.ents = append(t.ents, c16fsEnt{path: p, kind: 'l', target: target})
}

// table serialises the tree for the model: the directories above the scratch directory, then every entry.
func (t *c16fsTree) table() string {
	var out []string
	for d := t.fake; d != "/" && d != "."; d = filepath.Dir(d) {
		out = append(out, hx([]byte(d))+":d")
	}
	for _, e := range t.ents {
		p := hx([]byte(t.mp(e.path)))
		switch e.kind {
		case 'd':
			out = append(out, p+":d")
		case 'f':
			out = append(out, p+":f:"+strconv.Itoa(e.id))
		case 'l':
			out = append(out, p+":l:"+hx([]byte(t.mp(e.target))))
		}
	}
	return strings.Join(out, ",")
}

func c16fsErrno(err error) string {
	switch {
	case errors.Is(err, syscall.ENOENT):
		return "noent"
	case errors.Is(err, syscall.ENOTDIR):
		return "notdir"
	case errors.Is(err, syscall.ELOOP):
		return "loop"
	case errors.Is(err, syscall.EISDIR):
		return "isdir"
	}
	return "fault"
}

// kresolve asks the kernel what a path denotes: open(O_PATH) and the canonical name of the descriptor.
func (t *c16fsTree) kresolve(p string, follow bool) (cls string, loc string, id int) {
	id = -1
	if strings.IndexByte(p, 0) >= 0 {
		return "err:fault", "", id
	}
	flags := syscall.O_CLOEXEC | 0x200000 // O_PATH
	if !follow {
		flags |= syscall.O_NOFOLLOW
	}
	fd, err := syscall.Open(p, flags, 0)
	if err != nil {
		return "err:" + c16fsErrno(err), "", id
	}
	defer syscall.Close(fd)
	loc, err = os.Readlink("/proc/self/fd/" + strconv.Itoa(fd))
	if err != nil {
		panic(err)
	}
	var st syscall.Stat_t
	if err := syscall.Fstat(fd, &st); err != nil {
		panic(err)
	}
	hl := hx([]byte(t.mp(loc)))
	switch st.Mode & syscall.S_IFMT {
	case syscall.S_IFDIR:
		return "dir:" + hl, loc, id
	case syscall.S_IFLNK:
		tg, _ := os.Readlink(loc)
		return "link:" + hx([]byte(t.mp(tg))) + ":" + hl, loc, id
	default:
		b, _ := os.ReadFile(loc)
		id = c16fsIdent(b)
		return "file:" + strconv.Itoa(id) + ":" + hl, loc, id
	}
}

func c16fsInside(loc, realRoot string) bool {
	return loc == realRoot || strings.HasPrefix(loc, realRoot+"/")
}

// lexical clause: path = root or root + "/" + components free of "", ".", ".."
func c16fsLexInside(p, root string) bool {
	if p == root {
		return true
	}
	pre := root + "/"
	if root == "/" {
		pre = "/"
	}
	if !strings.HasPrefix(p, pre) {
		return false
	}
	for _, comp := range strings.Split(strings.TrimPrefix(p, pre), "/") {
		if comp == "" || comp == "." || comp == ".." {
			return false
		}
	}
	return true
}

var c16fsGuids = []uuid.UUID{
	uuid.MustParse("6a7b6885-92bc-40cd-9fb5-300f9d1eb0ed"),
	uuid.MustParse("8be4df61-93ca-11d2-aa0d-00e098032b8c"),
	{},
}

type c16fsGen struct {
	c *Ctx
	r *Rng
	t *c16fsTree
}

func (g *c16fsGen) baseNames() []string { return []string{"a", "b", "d", "Var", "lnk", "FirmwareRIM", "変"} }

// a component name as it appears in the tree: plain or carrying the GUID suffix ReadVariable appends
func (g *c16fsGen) entryName() string {
	b := g.baseNames()
	n := b[g.r.Intn(len(b))]
	if g.r.Intn(2) == 0 {
		n += "-" + g.t.guid.String()
	}
	return n
}

// a path text over the hostile alphabet; `suffixLast`: the last real component may carry the GUID suffix
func (g *c16fsGen) pathText(maxComps int, allowAbsOuter bool) string {
	r := g.r
	n := 1 + r.Intn(maxComps)
	var comps []string
	for i := 0; i < n; i++ {
		switch k := r.Intn(20); {
		case k < 4:
			comps = append(comps, "..")
		case k < 6:
			comps = append(comps, ".")
		case k < 7:
			comps = append(comps, "")
		case k < 8:
			comps = append(comps, "secret")
		case k < 9:
			comps = append(comps, "efivars")
		case k < 10:
			comps = append(comps, "nonexistent")
		default:
			comps = append(comps, g.entryName())
		}
	}
	s := strings.Join(comps, "/")
	switch k := r.Intn(12); {
	case k < 2:
		s = "/" + s
	case k == 2 && allowAbsOuter:
		s = g.t.outer + "/" + s
	case k == 3 && allowAbsOuter:
		s = g.t.outer + "/efivars/" + s
	case k == 4:
		s = s + "/"
	}
	if s == "" {
		s = "."
	}
	return s
}

// guidedPath: the relative path of an existing entry below the root (through real directories), perturbed:
// "." / "" / "x/.." / "../" inserted, a leading slash, further components after a link or directory.
// forVar: the last component must carry the GUID suffix, which is stripped (ReadVariable appends it).
func (g *c16fsGen) guidedPath(forVar bool) (string, bool) {
	r, t := g.r, g.t
	rootDir := t.outer + "/efivars"
	suffix := "-" + t.guid.String()
	var cands []c16fsEnt
	for _, e := range t.ents {
		if strings.HasPrefix(e.path, rootDir+"/") && (!forVar || strings.HasSuffix(e.path, suffix)) {
			cands = append(cands, e)
		}
	}
	if len(cands) == 0 {
		return "", false
	}
	e := cands[r.Intn(len(cands))]
	comps := strings.Split(strings.TrimPrefix(e.path, rootDir+"/"), "/")
	// continue below a link or directory that is not the last wanted component
	if !forVar && e.kind != 'f' && r.Intn(2) == 0 {
		comps = append(comps, g.entryName())
	}
	if forVar && r.Intn(3) == 0 {
		// reach the entry through a link or directory chosen at random in front of it
		var pre []c16fsEnt
		for _, x := range t.ents {
			if strings.HasPrefix(x.path, rootDir+"/") && x.kind != 'f' {
				pre = append(pre, x)
			}
		}
		if len(pre) > 0 {
			x := pre[r.Intn(len(pre))]
			comps = append(strings.Split(strings.TrimPrefix(x.path, rootDir+"/"), "/"), comps[len(comps)-1])
		}
	}
	var out []string
	for i, c := range comps {
		switch r.Intn(14) {
		case 0:
			out = append(out, ".")
		case 1:
			out = append(out, "")
		case 2:
			out = append(out, g.entryName(), "..")
		case 3:
			if i == 0 {
				out = append(out, "..")
			}
		}
		out = append(out, c)
	}
	s := strings.Join(out, "/")
	if forVar {
		s = strings.TrimSuffix(s, suffix)
	}
	switch r.Intn(10) {
	case 0:
		s = "/" + s
	case 1:
		s = "../" + s
	case 2:
		if !forVar {
			s += "/"
		}
	}
	return s, true
}

func (g *c16fsGen) fill(dir string, depth int, lo, hi int) {
	r := g.r
	n := lo + r.Intn(hi-lo+1)
	used := map[string]bool{}
	for i := 0; i < n; i++ {
		name := g.entryName()
		if used[name] {
			continue
		}
		used[name] = true
		p := filepath.Join(dir, name)
		switch k := r.Intn(10); {
		case k < 3 && depth < 3:
			g.t.mkdir(p)
			g.fill(p, depth+1, 0, 3)
			g.c.Count("tree/dir")
		case k < 6:
			g.t.mkfile(p, r.Intn(12) == 0)
			g.c.Count("tree/file")
		default:
			tg := g.pathText(4, true)
			if r.Intn(6) == 0 {
				tg = name // self loop
			}
			g.t.mklink(p, tg)
			switch {
			case strings.HasPrefix(tg, g.t.outer):
				g.c.Count("tree/link/abs-into-scratch")
			case strings.HasPrefix(tg, "/"):
				g.c.Count("tree/link/abs")
			case strings.Contains(tg, ".."):
				g.c.Count("tree/link/rel-dotdot")
			default:
				g.c.Count("tree/link/rel")
			}
		}
	}
}

// build: <outer>/efivars (generated), <outer>/efivars-<guid> and <outer>/secret/... outside, <outer>/rootlink -> efivars
func (g *c16fsGen) build() {
	t := g.t
	gs := t.guid.String()
	root := filepath.Join(t.outer, "efivars")
	t.mkdir(root)
	g.fill(root, 1, 3, 7)
	t.mkfile(filepath.Join(t.outer, "efivars-"+gs), false)
	t.mkfile(filepath.Join(t.outer, "Var-"+gs), false)
	t.mkfile(filepath.Join(t.outer, "a"), false)
	sec := filepath.Join(t.outer, "secret")
	t.mkdir(sec)
	for _, b := range g.baseNames() {
		t.mkfile(filepath.Join(sec, b+"-"+gs), false)
		if g.r.Intn(2) == 0 {
			t.mkfile(filepath.Join(sec, b), false)
		}
	}
	t.mklink(filepath.Join(t.outer, "rootlink"), "efivars")
	t.mkfile(filepath.Join(t.outer, "plainfile"), false)
}

type c16fsRoot struct {
	text  string // what is configured
	class string
}

func (g *c16fsGen) roots() []c16fsRoot {
	o := g.t.outer
	return []c16fsRoot{
		{o + "/efivars", "clean"}, {o + "/efivars", "clean"}, {o + "/efivars", "clean"}, {o + "/efivars", "clean"},
		{o + "/rootlink", "clean-symlink"},
		{"efivars", "clean-relative"},
		{o + "/efivars/", "unclean-trailing"},
		{o + "//efivars/.", "unclean-dot"},
		{o + "/secret/../efivars", "unclean-dotdot"},
		{"./efivars", "unclean-relative"},
		{o + "/nope", "clean-absent"},
		{o + "/plainfile", "clean-file"},
	}
}

func (g *c16fsGen) realRootOf(root string) (string, bool) {
	_, loc, _ := g.t.kresolve(root, true)
	return loc, loc != ""
}

// c16fsTraceVFS is the os VFS with counters: which branches of SecureJoinVFS's loop a case took.
type c16fsTraceVFS struct {
	lstat, noent, notdir, other, dir, file, link, abs, rel int
}

func (v *c16fsTraceVFS) Lstat(name string) (os.FileInfo, error) {
	fi, err := os.Lstat(name)
	v.lstat++
	switch {
	case err != nil && errors.Is(err, syscall.ENOTDIR):
		v.notdir++
	case err != nil && os.IsNotExist(err):
		v.noent++
	case err != nil:
		v.other++
	case fi.Mode()&os.ModeSymlink != 0:
		v.link++
	case fi.IsDir():
		v.dir++
	default:
		v.file++
	}
	return fi, err
}

func (v *c16fsTraceVFS) Readlink(name string) (string, error) {
	d, err := os.Readlink(name)
	if err == nil {
		if filepath.IsAbs(d) {
			v.abs++
		} else {
			v.rel++
		}
	}
	return d, err
}

func c16fsBucket(n int) string {
	switch {
	case n == 0:
		return "0"
	case n == 1:
		return "1"
	case n <= 4:
		return "2-4"
	case n <= 40:
		return "5-40"
	}
	return "41+"
}

// walkCoverage re-runs the join through the counting VFS and records the branches taken.
func (g *c16fsGen) walkCoverage(root, p string, j string, jerr error, op string) bool {
	c := g.c
	v := &c16fsTraceVFS{}
	j2, err2 := securejoin.SecureJoinVFS(root, p, v)
	if (jerr == nil) != (err2 == nil) || j != j2 {
		c.Find("c16fs/harness/securejoin-vs-tracing-vfs", "SecureJoin and SecureJoinVFS(counting os VFS) disagree", op)
	}
	c.Count("walk/symlinks-expanded=" + c16fsBucket(v.link))
	for k, n := range map[string]int{"lstat:ENOENT": v.noent, "lstat:ENOTDIR": v.notdir, "lstat:other-error": v.other, "lstat:dir": v.dir,
		"lstat:file": v.file, "lstat:symlink": v.link, "readlink:absolute": v.abs, "readlink:relative": v.rel} {
		if n > 0 {
			c.Count("walk/cases-with-" + k)
		}
	}
	if strings.Contains(p, "..") {
		c.Count("walk/cases-with-dotdot-in-unsafe-path")
	}
	if v.link > 0 && strings.Contains(p, "..") {
		c.Count("walk/cases-with-dotdot-and-symlink")
	}
	return v.link > 0
}

// one SecureJoin + ReadFile case
func (g *c16fsGen) joinCase(root c16fsRoot, p string, tag string) {
	c, t := g.c, g.t
	var j string
	var err error
	pan, _, _ := Guard(func() { j, err = securejoin.SecureJoin(root.text, p) })
	op := fmt.Sprintf("c16fs op=join fs=%s cwd=%s root=%s p=%s", t.table(), hx([]byte(t.fake)), hx([]byte(t.mp(root.text))), hx([]byte(t.mp(p))))
	var impl string
	nontriv := strings.Contains(p, "..")
	if !pan && strings.IndexByte(p, 0) < 0 {
		if g.walkCoverage(root.text, p, j, err, op) {
			nontriv = true
		}
	}
	switch {
	case pan:
		impl = "join=panic read=-"
	case err != nil:
		impl = "join=err:" + c16fsErrno(err) + " read=-"
		c.Count("join/" + tag + "/err:" + c16fsErrno(err))
	default:
		b, rerr := os.ReadFile(j)
		rd := ""
		cls, loc, id := t.kresolve(j, true)
		switch {
		case rerr != nil:
			rd = "err:" + c16fsErrno(rerr)
			if rd == "err:isdir" {
				rd = "isdir"
			}
		default:
			rid := c16fsIdent(b)
			rd = "data:" + strconv.Itoa(rid) + ":" + hx([]byte(t.mp(loc)))
			nontriv = true
			if rid != id || !strings.HasPrefix(cls, "file:") {
				c.Find("c16fs/harness/readfile-vs-opath", "os.ReadFile and open(O_PATH) disagree on "+j, op)
			}
		}
		impl = "join=ok:" + hx([]byte(t.mp(j))) + " read=" + rd
		c.Count("join/" + tag + "/read=" + strings.SplitN(rd, ":", 2)[0])
		if strings.HasPrefix(root.class, "clean") {
			realRoot, rootOK := g.realRootOf(root.text)
			if !c16fsLexInside(j, root.text) {
				c.Find("c16fs/SecureJoin/confined/path-outside-root", "SecureJoin returned a path that is not lexically inside the root: "+j, op)
			}
			if loc != "" && !(rootOK && c16fsInside(loc, realRoot)) {
				c.Find("c16fs/SecureJoin/confined/path-resolves-outside-root", "the joined path resolves to "+loc+" outside the root", op)
			}
			if rerr == nil && !(rootOK && c16fsInside(loc, realRoot)) {
				c.Find("c16fs/SecureJoin/confined/outside-file-read", "os.ReadFile of the joined path returned the bytes of a file outside the root", op)
			}
		}
	}
	c.Case(op, impl, nontriv)
}

// one EfiVarFSReader.ReadVariable case
func (g *c16fsGen) readvarCase(root c16fsRoot, name string, tag string) {
	c, t := g.c, g.t
	nb := append(c16UCS2(name), 0, 0)
	reader := exel.MakeEfiVarFSReader(root.text)
	var out []byte
	var err, perr, uerr error
	var path string
	pan, _, _ := Guard(func() {
		_, uerr = exel.VerifUcs2toUTF8(nb)
		path, perr = exel.VerifVarBasename(reader, t.guid, nb)
		out, err = reader.ReadVariable(t.guid, nb)
	})
	op := fmt.Sprintf("c16fs op=readvar fs=%s cwd=%s root=%s guid=%s name=%s", t.table(), hx([]byte(t.fake)), hx([]byte(t.mp(root.text))), hx(t.guid[:]), hx(nb))
	var impl string
	paths := ""
	if perr == nil && !pan {
		paths = hx([]byte(t.mp(path)))
	}
	switch {
	case pan:
		impl = "panic out="
	case err == nil:
		impl = "ok out=" + hx(out)
	case uerr != nil:
		impl = "err=ucs2 out="
	case perr != nil:
		impl = "err=illegalpath out="
	default:
		if b, rerr := os.ReadFile(path); rerr == nil && len(b) < 4 {
			impl = "err=illformed out="
		} else {
			impl = "err=read out="
		}
	}
	c.Count("readvar/" + tag + "/" + strings.Fields(impl)[0])
	impl += " paths=" + paths
	if strings.HasPrefix(root.class, "clean") && !pan {
		realRoot, rootOK := g.realRootOf(root.text)
		if perr == nil {
			if !c16fsLexInside(path, root.text) {
				c.Find("c16fs/ReadVariable/confined/path-outside-root", "varBasename returned a path that is not lexically inside the efivarfs root: "+path, op)
			}
			if _, loc, _ := t.kresolve(path, true); loc != "" && !(rootOK && c16fsInside(loc, realRoot)) {
				c.Find("c16fs/ReadVariable/confined/path-resolves-outside-root", "the variable path resolves to "+loc+" outside the efivarfs root", op)
			}
		}
		if err == nil {
			id := c16fsIdent(out)
			inside := false
			for _, e := range t.ents {
				if e.kind == 'f' && e.id == id && rootOK && c16fsInside(e.path, realRoot) {
					inside = true
				}
			}
			if !inside {
				c.Find("c16fs/ReadVariable/confined/outside-file-read", "ReadVariable returned the bytes of a file outside the efivarfs root (file "+strconv.Itoa(id)+")", op)
			}
		}
	}
	c.Case(op, impl, err == nil || strings.Contains(name, ".."))
}

func (g *c16fsGen) resolveCase(p string, follow bool) {
	c, t := g.c, g.t
	cls, _, _ := t.kresolve(p, follow)
	f := 0
	if follow {
		f = 1
	}
	op := fmt.Sprintf("c16fs op=resolve fs=%s cwd=%s follow=%d p=%s", t.table(), hx([]byte(t.fake)), f, hx([]byte(t.mp(p))))
	c.Case(op, cls, !strings.HasPrefix(cls, "err:noent"))
	c.Count("resolve/" + strings.SplitN(cls, ":", 3)[0] + ":" + func() string {
		if strings.HasPrefix(cls, "err:") {
			return strings.TrimPrefix(cls, "err:")
		}
		return ""
	}())
}

// variable names that make SecureJoin return the root itself, and friends
var c16fsSpecialNames = []string{"..", ".", "/", "x/..", "../..", "a/..", "Var", "../Var", "/Var", "d/Var", "lnk", "lnk/Var", "lnk/..", "d/../..", "FirmwareRIM", "//", "./", "Var/", "a/./../Var"}

// sha256 of join.go of filepath-securejoin v0.2.5, the source Model/SecureJoin.lean transcribes.
const c16fsTranscribedJoinGo = "8b5a8334ea63a9c925fe624cd8427898b2bf9cb3829659e025d0f64885794670"

// c16fsLibrary records which filepath-securejoin the harness (hence the repository) is built with and
// whether its join.go is the transcribed one.
func c16fsLibrary(c *Ctx) {
	ver := "?"
	if bi, ok := debug.ReadBuildInfo(); ok {
		for _, d := range bi.Deps {
			if d.Path == "github.com/cyphar/filepath-securejoin" {
				ver = d.Version
				if d.Replace != nil {
					ver = d.Replace.Version + " (replaced)"
				}
			}
		}
	}
	c.Extra["securejoin_version"] = ver
	cache := os.Getenv("GOMODCACHE")
	if cache == "" {
		gp := os.Getenv("GOPATH")
		if gp == "" {
			home, _ := os.UserHomeDir()
			gp = filepath.Join(home, "go")
		}
		cache = filepath.Join(gp, "pkg", "mod")
	}
	src, err := os.ReadFile(filepath.Join(cache, "github.com/cyphar/filepath-securejoin@"+ver, "join.go"))
	if err != nil {
		c.Extra["securejoin_join_go"] = "not found in the module cache"
		c.Notes = append(c.Notes, "filepath-securejoin "+ver+": join.go not found in the module cache; the transcription (v0.2.5) is tied by the differential cases only")
		return
	}
	h := sha256.Sum256(src)
	hs := hex.EncodeToString(h[:])
	c.Extra["securejoin_join_go_sha256"] = hs
	c.Extra["securejoin_join_go_is_transcribed_source"] = hs == c16fsTranscribedJoinGo
	if hs != c16fsTranscribedJoinGo {
		c.Notes = append(c.Notes, "filepath-securejoin "+ver+": join.go differs from the v0.2.5 source that Model/SecureJoin.lean transcribes line by line; re-read the transcription (the differential cases still compare behaviour)")
	}
}

func runC16Fs(c *Ctx) {
	r := c.Rng
	c16fsLibrary(c)
	wd, _ := os.Getwd()
	defer os.Chdir(wd)

	// filepath.Clean on texts over the path alphabet
	alpha := []string{"a", "b", "..", ".", "", "/", "/", "..", "x-y", "変"}
	for i := 0; i < c.N(1500, 30000); i++ {
		n := r.Intn(8)
		var sb strings.Builder
		for j := 0; j < n; j++ {
			sb.WriteString(alpha[r.Intn(len(alpha))])
			if r.Intn(3) != 0 {
				sb.WriteString("/")
			}
		}
		s := sb.String()
		c.Case("c16fs op=clean p="+hx([]byte(s)), hx([]byte(filepath.Clean(s))), strings.Contains(s, ".."))
		c.Count("clean")
	}

	// generated trees
	for ti := 0; ti < c.N(260, 6000); ti++ {
		t := c16fsNewTree(c16fsGuids[r.Intn(len(c16fsGuids))])
		g := &c16fsGen{c: c, r: r, t: t}
		func() {
			defer t.Close()
			if err := os.Chdir(t.outer); err != nil {
				panic(err)
			}
			g.build()
			roots := g.roots()
			for k := 0; k < 12; k++ {
				p, tag := g.pathText(5, k%4 == 3), "random"
				if k%3 != 0 {
					if gp, ok := g.guidedPath(false); ok {
						p, tag = gp, "guided"
					}
				}
				g.joinCase(roots[r.Intn(len(roots))], p, tag)
			}
			for k := 0; k < 10; k++ {
				name, tag := g.pathText(4, false), "random"
				switch {
				case k%5 == 0:
					name, tag = c16fsSpecialNames[r.Intn(len(c16fsSpecialNames))], "special"
				case k%5 != 1:
					if gp, ok := g.guidedPath(true); ok {
						name, tag = gp, "guided"
					}
				}
				g.readvarCase(roots[r.Intn(len(roots))], name, tag)
			}
			// every entry directly under the root by its own name (final-component links)
			for _, e := range t.ents {
				suffix := "-" + t.guid.String()
				if filepath.Dir(e.path) == t.outer+"/efivars" && strings.HasSuffix(e.path, suffix) && r.Intn(2) == 0 {
					g.readvarCase(roots[0], strings.TrimSuffix(filepath.Base(e.path), suffix), "entry")
				}
			}
			for k := 0; k < 8; k++ {
				p := g.pathText(5, true)
				if r.Intn(2) == 0 {
					p = "efivars/" + p
				}
				if k%4 != 0 {
					if gp, ok := g.guidedPath(false); ok {
						p = "efivars/" + gp
						if r.Intn(4) == 0 {
							p = g.t.outer + "/" + p
						}
					}
				}
				g.resolveCase(p, r.Intn(3) != 0)
			}
		}()
	}

	// targeted trees: names resolving to the root, final-component links, limits
	for _, gid := range c16fsGuids[:2] {
		t := c16fsNewTree(gid)
		g := &c16fsGen{c: c, r: r, t: t}
		func() {
			defer t.Close()
			os.Chdir(t.outer)
			gs := gid.String()
			root := t.outer + "/efivars"
			t.mkdir(root)
			t.mkfile(root+"/Var-"+gs, false)
			t.mkdir(root + "/d")
			t.mkfile(root+"/d/Var-"+gs, false)
			t.mkfile(root+"/short-"+gs, true)
			t.mklink(root+"/lnk", "..")
			t.mklink(root+"/up-"+gs, "../secret/Var-"+gs)
			t.mklink(root+"/abs-"+gs, t.outer+"/secret/Var-"+gs)
			t.mklink(root+"/in-"+gs, "d/Var-"+gs)
			t.mklink(root+"/absin-"+gs, "/d/Var-"+gs)
			t.mklink(root+"/dl", "/d")
			t.mklink(root+"/sec", "../secret")
			t.mklink(root+"/loop", "loop")
			t.mklink(root+"/p1", "p2")
			t.mklink(root+"/p2", "p1/x")
			t.mklink(root+"/dangling-"+gs, "nowhere")
			t.mkfile(t.outer+"/efivars-"+gs, false)
			t.mkfile(t.outer+"/-"+gs, false)
			t.mkdir(t.outer + "/secret")
			t.mkfile(t.outer+"/secret/Var-"+gs, false)
			t.mklink(t.outer+"/rootlink", "efivars")
			t.mkfile(t.outer+"/plainfile", false)
			names := append([]string{}, c16fsSpecialNames...)
			names = append(names, "up", "abs", "in", "absin", "dl/Var", "sec/Var", "loop", "loop/Var", "p1", "dangling", "short", "lnk/efivars/Var", "lnk/secret/Var",
				"a\x00b", "d/\x00", strings.Repeat("x", 218), strings.Repeat("x", 219), strings.Repeat("x", 300), "d/"+strings.Repeat("y", 256), "nope/"+strings.Repeat("y", 256))
			for _, rt := range g.roots() {
				for _, n := range names {
					g.readvarCase(rt, n, "targeted")
					g.joinCase(rt, n+"-"+gs, "targeted")
				}
			}
			for _, p := range []string{"efivars/lnk", "efivars/lnk/", "efivars/loop", "efivars/up-" + gs, "efivars/Var-" + gs + "/", "efivars/Var-" + gs + "/..", "efivars/d/..", "efivars/d/../..", "../../../../../..", "efivars/sec/Var-" + gs, "efivars/p1", "", "/", "efivars/dangling-" + gs, "efivars/dl/../.."} {
				g.resolveCase(p, true)
				g.resolveCase(p, false)
			}
		}()
	}

	// the two hypotheses of the confinement theorems, reproduced on the real library and kernel (no oracle: these
	// are the documented limits; the model must agree with what happens): an unclean root through a link, and a
	// file system changed between the join and the read.
	for _, gid := range c16fsGuids[:2] {
		t := c16fsNewTree(gid)
		g := &c16fsGen{c: c, r: r, t: t}
		func() {
			defer t.Close()
			os.Chdir(t.outer)
			o := t.outer
			t.mkdir(o + "/a")
			t.mkdir(o + "/x")
			t.mkdir(o + "/x/y")
			t.mkdir(o + "/x/r")
			t.mkdir(o + "/a/r")
			t.mklink(o+"/a/l", o+"/x/y")
			t.mkfile(o+"/secret", false)
			t.mklink(o+"/a/r/v", o+"/secret")
			t.mklink(o+"/a/r/w", "../../secret")
			t.mkfile(o+"/x/r/v", false)
			for _, p := range []string{"v", "w", "../v", "x/../w"} {
				g.joinCase(c16fsRoot{o + "/a/l/../r", "unclean-through-link"}, p, "unclean-through-link")
			}
			g.resolveCase(o+"/a/l/../r", true)
		}()
		t = c16fsNewTree(gid)
		g = &c16fsGen{c: c, r: r, t: t}
		func() {
			defer t.Close()
			os.Chdir(t.outer)
			o := t.outer
			root := o + "/efivars"
			entry := "Var-" + gid.String()
			t.mkdir(root)
			t.mkfile(root+"/"+entry, false)
			t.mkfile(o+"/secret", false)
			before := t.table()
			j, err := securejoin.SecureJoin(root, entry)
			if err != nil {
				panic(err)
			}
			// the window: the entry is replaced by a link out of the root
			os.Remove(root + "/" + entry)
			for i := range t.ents {
				if t.ents[i].path == root+"/"+entry {
					t.ents[i] = c16fsEnt{path: root + "/" + entry, kind: 'l', target: o + "/secret"}
				}
			}
			os.Symlink(o+"/secret", root+"/"+entry)
			b, rerr := os.ReadFile(j)
			rd := "err:" + c16fsErrno(rerr)
			if rerr == nil {
				_, loc, _ := t.kresolve(j, true)
				rd = "data:" + strconv.Itoa(c16fsIdent(b)) + ":" + hx([]byte(t.mp(loc)))
			}
			c.Case(fmt.Sprintf("c16fs op=toctou fs=%s fs2=%s cwd=%s root=%s p=%s", before, t.table(), hx([]byte(t.fake)), hx([]byte(t.mp(root))), hx([]byte(entry))),
				"join=ok:"+hx([]byte(t.mp(j)))+" read="+rd, true)
			c.Count("toctou/" + strings.SplitN(rd, ":", 2)[0])
		}()
	}

	// link chains at the kernel's and at the library's expansion limits
	for _, n := range []int{1, 39, 40, 41, 42, 254, 255, 256, 257} {
		t := c16fsNewTree(c16fsGuids[0])
		g := &c16fsGen{c: c, r: r, t: t}
		func() {
			defer t.Close()
			os.Chdir(t.outer)
			root := t.outer + "/efivars"
			t.mkdir(root)
			for i := 0; i < n; i++ {
				t.mklink(fmt.Sprintf("%s/c%d", root, i), fmt.Sprintf("c%d", i+1))
			}
			t.mkfile(fmt.Sprintf("%s/c%d", root, n), false)
			g.joinCase(c16fsRoot{root, "clean"}, "c0", fmt.Sprintf("chain%d", n))
			g.joinCase(c16fsRoot{root, "clean"}, "./c1/../c0", fmt.Sprintf("chain%d", n))
			g.resolveCase("efivars/c0", true)
			g.resolveCase("efivars/c0", false)
			if n > 2 {
				g.resolveCase("efivars/c2", true)
			}
		}()
	}
}
