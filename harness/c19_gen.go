package main

// C19 generators: schema dump of real descriptors, canonical text form of message values,
// reflection-driven random message fill, grammar-directed path generation with mutations.

import (
	"fmt"
	"math"
	"sort"
	"strconv"
	"strings"

	"google.golang.org/protobuf/reflect/protoreflect"
)

// ---- schema dump -------------------------------------------------------------------------------

// c19Reachable lists the message descriptors reachable from root through message-kind fields (map
// values included, synthetic map-entry messages excluded), root first, breadth first.
func c19Reachable(root protoreflect.MessageDescriptor) []protoreflect.MessageDescriptor {
	seen := map[protoreflect.FullName]bool{root.FullName(): true}
	out := []protoreflect.MessageDescriptor{root}
	for i := 0; i < len(out); i++ {
		fs := out[i].Fields()
		for j := 0; j < fs.Len(); j++ {
			fd := fs.Get(j)
			var sub protoreflect.MessageDescriptor
			if fd.IsMap() {
				sub = fd.MapValue().Message()
			} else {
				sub = fd.Message()
			}
			if sub != nil && !seen[sub.FullName()] {
				seen[sub.FullName()] = true
				out = append(out, sub)
			}
		}
	}
	return out
}

// c19FieldEnc encodes one field descriptor: num:name:card:kind:ref
func c19FieldEnc(fd protoreflect.FieldDescriptor) string {
	card, kind, ref := "o", fd.Kind().String(), ""
	sub := fd.Message()
	switch {
	case fd.IsMap():
		card = "m." + fd.MapKey().Kind().String()
		kind = fd.MapValue().Kind().String()
		sub = fd.MapValue().Message()
	case fd.IsList():
		card = "l"
	}
	if sub != nil {
		ref = string(sub.FullName())
	}
	return fmt.Sprintf("%d:%s:%s:%s:%s", fd.Number(), fd.TextName(), card, kind, ref)
}

// c19SchemaEnc dumps the descriptors reachable from root in the op line format; also returns the
// number of messages and fields and a list of protobuf features the model does not represent.
func c19SchemaEnc(root protoreflect.MessageDescriptor) (enc string, nmsg, nfield int, unsupported []string) {
	var msgs []string
	for _, md := range c19Reachable(root) {
		var fs []string
		for j := 0; j < md.Fields().Len(); j++ {
			fd := md.Fields().Get(j)
			fs = append(fs, c19FieldEnc(fd))
			nfield++
			if fd.HasDefault() {
				unsupported = append(unsupported, string(fd.FullName())+": explicit default")
			}
			if fd.Kind() == protoreflect.EnumKind && fd.Enum().Values().Len() > 0 && fd.Enum().Values().Get(0).Number() != 0 {
				unsupported = append(unsupported, string(fd.FullName())+": enum default is not 0")
			}
			if fd.IsExtension() || fd.IsWeak() {
				unsupported = append(unsupported, string(fd.FullName())+": extension or weak field")
			}
		}
		msgs = append(msgs, string(md.FullName())+"!"+strings.Join(fs, ";"))
		nmsg++
	}
	return strings.Join(msgs, "|"), nmsg, nfield, unsupported
}

// ---- canonical text form of values -------------------------------------------------------------

func c19Scalar(v protoreflect.Value) (string, bool) {
	switch x := v.Interface().(type) {
	case bool:
		if x {
			return "bool:1", true
		}
		return "bool:0", true
	case int32:
		return fmt.Sprintf("i32:%d", x), true
	case int64:
		return fmt.Sprintf("i64:%d", x), true
	case uint32:
		return fmt.Sprintf("u32:%d", x), true
	case uint64:
		return fmt.Sprintf("u64:%d", x), true
	case float32:
		return fmt.Sprintf("f32:%d", math.Float32bits(x)), true
	case float64:
		return fmt.Sprintf("f64:%d", math.Float64bits(x)), true
	case string:
		return "str:x" + hx([]byte(x)), true
	case []byte:
		return "bytes:x" + hx(x), true
	case protoreflect.EnumNumber:
		return fmt.Sprintf("enum:%d", x), true
	}
	return "", false
}

func c19KindCls(k protoreflect.Kind) string {
	switch k {
	case protoreflect.BoolKind:
		return "bool"
	case protoreflect.EnumKind:
		return "enum"
	case protoreflect.Int32Kind, protoreflect.Sint32Kind, protoreflect.Sfixed32Kind:
		return "i32"
	case protoreflect.Uint32Kind, protoreflect.Fixed32Kind:
		return "u32"
	case protoreflect.Int64Kind, protoreflect.Sint64Kind, protoreflect.Sfixed64Kind:
		return "i64"
	case protoreflect.Uint64Kind, protoreflect.Fixed64Kind:
		return "u64"
	case protoreflect.FloatKind:
		return "f32"
	case protoreflect.DoubleKind:
		return "f64"
	case protoreflect.StringKind:
		return "str"
	case protoreflect.BytesKind:
		return "bytes"
	}
	return "?"
}

// c19KeyLess orders map keys: false < true, integers numerically, strings bytewise.
func c19KeyLess(a, b protoreflect.MapKey) bool {
	switch x := a.Interface().(type) {
	case bool:
		return !x && b.Bool()
	case int32, int64:
		return a.Int() < b.Int()
	case uint32, uint64:
		return a.Uint() < b.Uint()
	case string:
		return x < b.String()
	}
	return false
}

func c19SortedKeys(m protoreflect.Map) []protoreflect.MapKey {
	var ks []protoreflect.MapKey
	m.Range(func(k protoreflect.MapKey, _ protoreflect.Value) bool { ks = append(ks, k); return true })
	sort.Slice(ks, func(i, j int) bool { return c19KeyLess(ks[i], ks[j]) })
	return ks
}

// c19Value renders a protoreflect.Value. keyCls is only used for the key class of a top-level map
// (an empty Go map does not reveal its key type); inside messages it comes from the field descriptor.
func c19Value(v protoreflect.Value, keyCls string) string {
	switch x := v.Interface().(type) {
	case protoreflect.Message:
		return c19Msg(x)
	case protoreflect.List:
		parts := make([]string, x.Len())
		for i := range parts {
			parts[i] = c19Value(x.Get(i), "")
		}
		return "[" + strings.Join(parts, ",") + "]"
	case protoreflect.Map:
		var sb strings.Builder
		sb.WriteString("<" + keyCls)
		for _, k := range c19SortedKeys(x) {
			ks, _ := c19Scalar(k.Value())
			sb.WriteString("|" + ks + "~" + c19Value(x.Get(k), ""))
		}
		sb.WriteString(">")
		return sb.String()
	}
	s, ok := c19Scalar(v)
	if !ok {
		return "?"
	}
	return s
}

func c19Msg(m protoreflect.Message) string {
	type pf struct {
		fd protoreflect.FieldDescriptor
		v  protoreflect.Value
	}
	var fs []pf
	m.Range(func(fd protoreflect.FieldDescriptor, v protoreflect.Value) bool { fs = append(fs, pf{fd, v}); return true })
	sort.Slice(fs, func(i, j int) bool { return fs[i].fd.Number() < fs[j].fd.Number() })
	var sb strings.Builder
	sb.WriteString("{" + string(m.Descriptor().FullName()))
	for _, f := range fs {
		kc := ""
		if f.fd.IsMap() {
			kc = c19KindCls(f.fd.MapKey().Kind())
		}
		sb.WriteString(fmt.Sprintf("|%d~%s", f.fd.Number(), c19Value(f.v, kc)))
	}
	sb.WriteString("}")
	return sb.String()
}

// ---- random message fill -----------------------------------------------------------------------

var c19StrPool = []string{"", "k", "key", "a b", "é", "🎉", "q\"uote", "ap'os", "back\\slash", "tab\there", "nl\nx",
	"\x7f", "0", "true", "日本", "x.y", "[", "\u00a0", "\ufffd"}

type c19Fill struct {
	r      *Rng
	budget int
}

func (f *c19Fill) scalar(fd protoreflect.FieldDescriptor) protoreflect.Value {
	r := f.r
	i64s := []int64{0, 1, -1, 2, 7, -4, 127, -128, 255, 65535, math.MaxInt32, math.MinInt32, math.MaxInt32 + 1,
		math.MinInt32 - 1, math.MaxInt64, math.MinInt64, 1 << 40, -(1 << 40)}
	u64s := []uint64{0, 1, 2, 4, 7, 255, 256, 65535, math.MaxUint32, math.MaxUint32 + 1, math.MaxInt64, math.MaxInt64 + 1,
		math.MaxUint64, 1 << 40, 0o40000000000}
	switch fd.Kind() {
	case protoreflect.BoolKind:
		return protoreflect.ValueOfBool(r.Bool())
	case protoreflect.EnumKind:
		vs := fd.Enum().Values()
		return protoreflect.ValueOfEnum(vs.Get(r.Intn(vs.Len())).Number())
	case protoreflect.Int32Kind, protoreflect.Sint32Kind, protoreflect.Sfixed32Kind:
		return protoreflect.ValueOfInt32(int32(i64s[r.Intn(len(i64s))]))
	case protoreflect.Int64Kind, protoreflect.Sint64Kind, protoreflect.Sfixed64Kind:
		return protoreflect.ValueOfInt64(i64s[r.Intn(len(i64s))])
	case protoreflect.Uint32Kind, protoreflect.Fixed32Kind:
		return protoreflect.ValueOfUint32(uint32(u64s[r.Intn(len(u64s))]))
	case protoreflect.Uint64Kind, protoreflect.Fixed64Kind:
		return protoreflect.ValueOfUint64(u64s[r.Intn(len(u64s))])
	case protoreflect.FloatKind:
		return protoreflect.ValueOfFloat32([]float32{0, 1.5, -2.25, 1e30, 3}[r.Intn(5)])
	case protoreflect.DoubleKind:
		return protoreflect.ValueOfFloat64([]float64{0, 1.5, -2.25, 1e300, math.MaxFloat64, 42}[r.Intn(6)])
	case protoreflect.StringKind:
		return protoreflect.ValueOfString(c19StrPool[r.Intn(len(c19StrPool))])
	case protoreflect.BytesKind:
		n := []int{0, 1, 3, 16, 48, 64}[r.Intn(6)]
		return protoreflect.ValueOfBytes(r.Bytes(n))
	}
	panic("c19: unexpected scalar kind " + fd.Kind().String())
}

func isMsgKind(k protoreflect.Kind) bool {
	return k == protoreflect.MessageKind || k == protoreflect.GroupKind
}

// fill populates m: every field is populated with a probability that falls with depth; lists and maps
// get 1..3 entries when populated (an explicitly empty container is the same as an unpopulated one in
// protobuf, and duplicate random keys make smaller maps);
// nested messages down to depth 3; a node budget bounds the total size.
func (f *c19Fill) fill(m protoreflect.Message, depth int) {
	r := f.r
	fs := m.Descriptor().Fields()
	pct := []int{85, 60, 40, 25}[depth]
	for i := 0; i < fs.Len(); i++ {
		fd := fs.Get(i)
		if r.Intn(100) >= pct {
			continue
		}
		switch {
		case fd.IsMap():
			mv := fd.MapValue()
			if isMsgKind(mv.Kind()) && (depth >= 3 || f.budget <= 0) {
				continue
			}
			mp := m.Mutable(fd).Map()
			n := 1 + r.Intn(3)
			for j := 0; j < n; j++ {
				k := f.scalar(fd.MapKey()).MapKey()
				if isMsgKind(mv.Kind()) {
					f.budget--
					v := mp.NewValue()
					f.fill(v.Message(), depth+1)
					mp.Set(k, v)
				} else {
					mp.Set(k, f.scalar(mv))
				}
			}
		case fd.IsList():
			if isMsgKind(fd.Kind()) && (depth >= 3 || f.budget <= 0) {
				continue
			}
			l := m.Mutable(fd).List()
			n := 1 + r.Intn(3)
			for j := 0; j < n; j++ {
				if isMsgKind(fd.Kind()) {
					f.budget--
					v := l.NewElement()
					f.fill(v.Message(), depth+1)
					l.Append(v)
				} else {
					l.Append(f.scalar(fd))
				}
			}
		case isMsgKind(fd.Kind()):
			if depth >= 3 || f.budget <= 0 {
				continue
			}
			f.budget--
			f.fill(m.Mutable(fd).Message(), depth+1) // Mutable populates the field even when nothing below is set
		default:
			m.Set(fd, f.scalar(fd))
		}
	}
}

// ---- literals ----------------------------------------------------------------------------------

// c19IntLit writes an integer (given as sign and magnitude, so that 2^64 and beyond can be written) in
// one of the forms the scanner accepts: decimal, 0x / 0X hex, leading-0 octal.
func c19IntLit(r *Rng, neg bool, mag uint64, c *Ctx) string {
	s := ""
	switch r.Intn(5) {
	case 0, 1:
		s = strconv.FormatUint(mag, 10)
		c.Count("lit/dec")
	case 2:
		s = "0x" + strconv.FormatUint(mag, 16)
		c.Count("lit/hex")
	case 3:
		s = "0X" + strings.ToUpper(strconv.FormatUint(mag, 16))
		c.Count("lit/hex")
	default:
		s = "0" + strconv.FormatUint(mag, 8)
		if mag == 0 {
			s = "00"
		}
		c.Count("lit/oct")
	}
	if neg {
		c.Count("lit/negative")
		return "-" + s
	}
	return s
}

// c19StrLit writes a string literal for key s with a random choice of quote and escapes.
func c19StrLit(r *Rng, s string, c *Ctx) string {
	q := byte('"')
	if r.Bool() {
		q = '\''
	}
	var sb strings.Builder
	sb.WriteByte(q)
	for _, ru := range s {
		mustEscape := ru == rune(q) || ru == '\\' || ru == '\n' || ru == 0
		if !mustEscape && r.Intn(4) != 0 {
			sb.WriteRune(ru)
			continue
		}
		c.Count("lit/str-escape")
		simple := map[rune]string{7: "a", 8: "b", 12: "f", 10: "n", 13: "r", 9: "t", 11: "v", '\\': "\\", '\'': "'", '"': "\"", '?': "?"}
		if e, ok := simple[ru]; ok && r.Intn(3) != 0 {
			sb.WriteString("\\" + e)
			continue
		}
		switch {
		case ru < 0x80 && r.Bool():
			sb.WriteString(fmt.Sprintf("\\x%02x", ru))
		case ru < 0x80:
			sb.WriteString(fmt.Sprintf("\\%03o", ru))
		case ru < 0x10000 && r.Bool():
			sb.WriteString(fmt.Sprintf("\\u%04X", ru))
		default:
			sb.WriteString(fmt.Sprintf("\\U%08x", ru))
		}
	}
	sb.WriteByte(q)
	return sb.String()
}

// c19KeyLit renders a literal for map key kind `kind`; present keys come from `have`.
func (g *c19PathGen) keyLit(kind protoreflect.Kind, have []protoreflect.MapKey) (string, *protoreflect.MapKey) {
	r, c := g.r, g.c
	if r.Intn(12) == 0 { // wrong literal type for the key kind
		c.Count("key/wrong-type")
		return []string{"true", "\"s\"", "1", "-1", "'x'", "false", "0x10", "nested"}[r.Intn(8)], nil
	}
	usePresent := len(have) > 0 && r.Intn(100) < 75
	var chosen *protoreflect.MapKey
	if usePresent {
		chosen = &have[r.Intn(len(have))]
	}
	if usePresent {
		c.Count("key/present")
	} else {
		c.Count("key/absent-or-boundary")
	}
	switch kind {
	case protoreflect.BoolKind:
		c.Count("keykind/bool")
		if usePresent {
			return strconv.FormatBool(chosen.Bool()), chosen
		}
		return []string{"true", "false"}[r.Intn(2)], nil
	case protoreflect.StringKind:
		c.Count("keykind/string")
		s := c19StrPool[r.Intn(len(c19StrPool))]
		if usePresent {
			s = chosen.String()
		}
		return c19StrLit(r, s, c), chosen
	case protoreflect.Int32Kind, protoreflect.Int64Kind, protoreflect.Sint32Kind, protoreflect.Sint64Kind,
		protoreflect.Sfixed32Kind, protoreflect.Sfixed64Kind:
		c.Count("keykind/" + kind.String())
		if usePresent {
			v := chosen.Int()
			if v < 0 {
				return c19IntLit(r, true, uint64(-(v+1))+1, c), chosen
			}
			return c19IntLit(r, false, uint64(v), c), chosen
		}
		b := []struct {
			neg bool
			mag uint64
		}{{false, 0}, {true, 0}, {false, 1}, {true, 1}, {true, 4}, {false, 1<<31 - 1}, {false, 1 << 31}, {true, 1 << 31},
			{true, 1<<31 + 1}, {false, 1<<63 - 1}, {false, 1 << 63}, {true, 1 << 63}, {true, 1<<63 + 1}, {false, math.MaxUint64}, {true, math.MaxUint64}}
		x := b[r.Intn(len(b))]
		return c19IntLit(r, x.neg, x.mag, c), nil
	default: // unsigned kinds
		c.Count("keykind/" + kind.String())
		if usePresent {
			return c19IntLit(r, false, chosen.Uint(), c), chosen
		}
		b := []struct {
			neg bool
			mag uint64
		}{{false, 0}, {true, 0}, {false, 1}, {true, 1}, {false, 2}, {false, 1<<32 - 1}, {false, 1 << 32}, {false, 1<<32 + 1},
			{false, 1<<63 - 1}, {false, 1 << 63}, {false, math.MaxUint64}, {true, 4}}
		x := b[r.Intn(len(b))]
		s := c19IntLit(r, x.neg, x.mag, c)
		if x.mag == math.MaxUint64 && r.Intn(3) == 0 {
			c.Count("lit/above-uint64")
			s = "0x1" + strings.Repeat("0", 16) // 2^64: out of range for every kind
			if r.Bool() {
				s = "18446744073709551616"
			}
		}
		return s, nil
	}
}

// ---- grammar-directed paths --------------------------------------------------------------------

type c19PathGen struct {
	r *Rng
	c *Ctx
}

func c19Keys(m protoreflect.Map) []protoreflect.MapKey { return c19SortedKeys(m) }

// pickField chooses a field, preferring those that allow the path to go deeper.
func (g *c19PathGen) pickField(md protoreflect.MessageDescriptor) protoreflect.FieldDescriptor {
	fs := md.Fields()
	total := 0
	w := make([]int, fs.Len())
	for i := range w {
		fd := fs.Get(i)
		w[i] = 1
		if fd.IsMap() || fd.IsList() || isMsgKind(fd.Kind()) {
			w[i] = 6
		}
		total += w[i]
	}
	x := g.r.Intn(total)
	for i := range w {
		if x < w[i] {
			return fs.Get(i)
		}
		x -= w[i]
	}
	return fs.Get(0)
}

// path generates one path string for root md, directed by the descriptors and (for indices and keys that
// exist or just do not exist) by the message m.
func (g *c19PathGen) path(md protoreflect.MessageDescriptor, m protoreflect.Message) string {
	r, c := g.r, g.c
	var sb strings.Builder
	needDot := false
	if r.Intn(6) == 0 {
		c.Count("path/explicit-root")
		name := string(md.FullName())
		if r.Intn(8) == 0 {
			c.Count("path/wrong-root-name")
			name = []string{"x", name + "x", "testprotopath", strings.TrimSuffix(name, string(md.Name())), "a.1"}[r.Intn(5)]
		}
		sb.WriteString("(" + name + ")")
		needDot = true
	}
	cur := m // nil once the walk left the populated part of the message
	desc := md
	steps := 1 + r.Intn(6)
	if r.Intn(12) == 0 {
		steps = 0
	}
	for s := 0; s < steps && desc != nil && desc.Fields().Len() > 0; s++ {
		fd := g.pickField(desc)
		name := fd.TextName()
		if r.Intn(30) == 0 {
			c.Count("path/unknown-field")
			name = []string{"unknown", name + "_", "key", "value", "Key", string(fd.JSONName()) + "X"}[r.Intn(6)]
		}
		if needDot {
			sb.WriteString(".")
		}
		needDot = true
		sb.WriteString(name)
		var val protoreflect.Value
		if cur != nil {
			val = cur.Get(fd)
		}
		cur = nil
		desc = nil
		switch {
		case fd.IsList():
			c.Count("step/list-field")
			n := 0
			if val.IsValid() {
				n = val.List().Len()
			}
			x := r.Intn(100)
			if x < 12 {
				c.Count("index/none(whole-list)")
				return sb.String()
			}
			if x < 20 && isMsgKind(fd.Kind()) {
				c.Count("index/none-then-field")
				desc = fd.Message()
				continue
			}
			idx := uint64(0)
			neg := false
			switch {
			case n > 0 && x < 75:
				idx = uint64(r.Intn(n))
				c.Count("index/in-range")
			case x < 80:
				idx = uint64(n)
				c.Count("index/len")
			case x < 86:
				idx = uint64(n + 1)
				c.Count("index/len+1")
			case x < 90:
				idx, neg = uint64(1+r.Intn(4)), true
				c.Count("index/negative")
			case x < 94:
				idx = []uint64{1 << 31, 1<<63 - 1, 1 << 63, math.MaxUint64}[r.Intn(4)]
				c.Count("index/huge")
			default:
				if n > 0 {
					idx = uint64(n - 1)
				}
				c.Count("index/last")
			}
			sb.WriteString("[" + c19IntLit(r, neg, idx, c) + "]")
			if isMsgKind(fd.Kind()) {
				desc = fd.Message()
				if !neg && val.IsValid() && idx < uint64(n) {
					cur = val.List().Get(int(idx)).Message()
				}
			}
		case fd.IsMap():
			c.Count("step/map-field")
			var have []protoreflect.MapKey
			if val.IsValid() {
				have = c19Keys(val.Map())
			}
			x := r.Intn(100)
			if x < 10 {
				c.Count("key/none(whole-map)")
				return sb.String()
			}
			lit, chosen := g.keyLit(fd.MapKey().Kind(), have)
			sb.WriteString("[" + lit + "]")
			if isMsgKind(fd.MapValue().Kind()) {
				desc = fd.MapValue().Message()
				if chosen != nil { // keep generating inside the populated part of the message
					cur = val.Map().Get(*chosen).Message()
				}
			}
		case isMsgKind(fd.Kind()):
			c.Count("step/message-field")
			desc = fd.Message()
			if val.IsValid() {
				cur = val.Message()
			}
		default:
			c.Count("step/scalar-field")
			if r.Intn(12) == 0 {
				c.Count("path/continue-after-scalar")
				sb.WriteString([]string{".x", "[0]", "[\"k\"]", ".value"}[r.Intn(4)])
			}
			return sb.String()
		}
	}
	return sb.String()
}

// mutate applies one token-level mutation to a path string.
func (g *c19PathGen) mutate(p string) string {
	r, c := g.r, g.c
	b := []byte(p)
	pos := 0
	if len(b) > 0 {
		pos = r.Intn(len(b))
	}
	switch r.Intn(9) {
	case 0:
		c.Count("mutate/drop-byte")
		if len(b) > 0 {
			b = append(b[:pos:pos], b[pos+1:]...)
		}
	case 1:
		c.Count("mutate/duplicate-byte")
		if len(b) > 0 {
			b = append(b[:pos+1:pos+1], b[pos:]...)
		}
	case 2:
		c.Count("mutate/whitespace")
		ws := []byte{' ', '\t', '\n'}[r.Intn(3)]
		b = append(b[:pos:pos], append([]byte{ws}, b[pos:]...)...)
	case 3:
		c.Count("mutate/punct")
		pc := []byte(".[]()'\"\\-0")[r.Intn(10)]
		if len(b) > 0 {
			b[pos] = pc
		} else {
			b = []byte{pc}
		}
	case 4:
		c.Count("mutate/truncate")
		b = b[:pos]
	case 5:
		c.Count("mutate/append-token")
		b = append(b, []string{".", "[", "]", "(", ")", "[0]", ".x", "'", "\"a", "\\", "[true]", "[-1]", "🎉", "\xff", "\x00"}[r.Intn(15)]...)
	case 6:
		c.Count("mutate/swap-brackets")
		s := strings.NewReplacer("[", "(", "]", ")").Replace(string(b))
		if r.Bool() {
			s = strings.Replace(string(b), "]", "", 1)
		}
		b = []byte(s)
	case 7:
		c.Count("mutate/bad-escape")
		esc := []string{"['\\q']", "[\"\\x\"]", "['\\u12']", "[\"\\U00110000\"]", "['\\UFFFFFFFF']", "[\"\\777\"]", "['\\", "[\"\\8\"]", "['\\ud800']", "[\"a\nb\"]", "['\xc3']", "['\xe2\x82']"}[r.Intn(12)]
		b = append(b[:pos:pos], append([]byte(esc), b[pos:]...)...)
	default:
		c.Count("mutate/random-byte")
		if len(b) > 0 {
			b[pos] = byte(r.Next())
		}
	}
	return string(b)
}

// randomBytes yields an arbitrary byte string biased towards the scanner's alphabet.
func (g *c19PathGen) randomBytes() string {
	r := g.r
	n := r.Intn(14)
	alpha := []byte("abz_AZ019.-[]()'\"\\xXuU07 \n\x00\xc3\xa9\xe2\x82\xac\xf0\x9f\x8e\x89\xff\xed\xa0\x80")
	b := make([]byte, n)
	for i := range b {
		if r.Intn(5) == 0 {
			b[i] = byte(r.Next())
		} else {
			b[i] = alpha[r.Intn(len(alpha))]
		}
	}
	return string(b)
}
