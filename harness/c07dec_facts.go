package main

// Stream c07dec — parse-shape facts.  Everything here is computed WITHOUT the repository code under
// test: the harness calls the third-party parsers itself (protobuf, go-sev-guest abi, go-tdx-guest abi,
// encoding/pem, crypto/x509) and reads the generated proto structs by direct field access.  The facts
// are the instantiation of the model's `Parsers` parameter for one protocol line.

import (
	"bytes"
	"crypto/x509"
	"encoding/base64"
	"encoding/hex"
	"encoding/pem"
	"fmt"
	"io"
	"sort"
	"strings"

	epb "github.com/google/gce-tcb-verifier/proto/endorsement"
	"github.com/google/gce-tcb-verifier/sev"
	sabi "github.com/google/go-sev-guest/abi"
	spb "github.com/google/go-sev-guest/proto/sevsnp"
	tabi "github.com/google/go-tdx-guest/abi"
	tpb "github.com/google/go-tdx-guest/proto/tdx"
	tpmpb "github.com/google/go-tpm-tools/proto/attest"
	"google.golang.org/protobuf/proto"
)

// c07Intern renders byte strings compactly and injectively within one case: short strings in hex
// (prefix x), long ones as #<len>.<id> with id assigned by content in order of first use.  The Lean
// driver expands #len.id to a list of that length whose content is determined by id.
type c07Intern struct {
	ids map[string]int
}

func newC07Intern() *c07Intern { return &c07Intern{ids: map[string]int{}} }

func (in *c07Intern) cb(b []byte) string {
	if len(b) <= 48 {
		return "x" + hx(b)
	}
	k := string(b)
	id, ok := in.ids[k]
	if !ok {
		id = len(in.ids) + 1
		in.ids[k] = id
	}
	return fmt.Sprintf("#%d.%d", len(b), id)
}

// ---------------------------------------------------------------------------------------------
// endorsement facts

type c07EF struct {
	msg    *epb.VMLaunchEndorsement // nil when the bytes do not unmarshal
	golden *epb.VMGoldenMeasurement // nil when the payload does not unmarshal
	parse  bool
	chain  bool // against env.pool at baseTime
	sig    bool
}

func (run *c07Run) endoFactsMsg(m *epb.VMLaunchEndorsement) *c07EF {
	f := &c07EF{msg: m}
	if m == nil {
		return f
	}
	g := &epb.VMGoldenMeasurement{}
	if proto.Unmarshal(m.SerializedUefiGolden, g) != nil {
		return f
	}
	f.golden = g
	if len(g.Cert) == 0 {
		return f
	}
	cert, err := x509.ParseCertificate(g.Cert)
	if err != nil {
		return f
	}
	f.parse = true
	_, err = cert.Verify(x509.VerifyOptions{Roots: run.env.pool, CurrentTime: baseTime})
	f.chain = err == nil
	if pub := c07RSAPub(cert); pub != nil {
		f.sig = c01VerifyPSS32(pub, m.SerializedUefiGolden, m.Signature)
	}
	return f
}

func (run *c07Run) endoFacts(b []byte) *c07EF {
	m := &epb.VMLaunchEndorsement{}
	if proto.Unmarshal(b, m) != nil {
		return &c07EF{}
	}
	return run.endoFactsMsg(m)
}

// pemFacts: the results of successive pem.Decode calls on a bundle, as the policy derivation makes them
// (at most three are ever needed): "nil:<restlen>" or "<C|O>:<len bytes>:<restlen>" (C = type CERTIFICATE).
func c07PemFacts(bundle []byte) string {
	var parts []string
	rest := bundle
	for i := 0; i < 3 && len(rest) != 0; i++ {
		blk, r := pem.Decode(rest)
		if blk == nil {
			parts = append(parts, fmt.Sprintf("nil:%d", len(r)))
			break
		}
		t := "O"
		if blk.Type == "CERTIFICATE" {
			t = "C"
		}
		parts = append(parts, fmt.Sprintf("%s:%d:%d", t, len(blk.Bytes), len(r)))
		rest = r
	}
	if len(parts) == 0 {
		return "-"
	}
	return strings.Join(parts, ",")
}

// line renders the facts under a key prefix ("" for the case's main endorsement).
func (f *c07EF) line(in *c07Intern, p string) string {
	var sb strings.Builder
	k := func(name, v string) { fmt.Fprintf(&sb, " %s%s=%s", p, name, v) }
	if f == nil {
		k("e", "nil")
		return sb.String()
	}
	if f.msg == nil {
		k("e", "0")
		return sb.String()
	}
	k("e", "1")
	k("p", fmt.Sprint(len(f.msg.SerializedUefiGolden)))
	// third-party constant of SevPolicy's default policy (not prefixed: the same on every line)
	fmt.Fprintf(&sb, " dp=%d", sabi.SnpPolicyToBytes(sabi.SnpPolicy{SMT: true, MigrateMA: true}))
	g := f.golden
	if g == nil {
		k("g", "0")
		return sb.String()
	}
	k("g", "1")
	if g.Timestamp == nil {
		k("ts", "nil")
	} else {
		k("ts", fmt.Sprintf("%d:%d", g.Timestamp.Seconds, g.Timestamp.Nanos))
	}
	k("cl", fmt.Sprint(g.ClSpec))
	k("cm", fmt.Sprint(len(g.Commit)))
	k("c", fmt.Sprint(len(g.Cert)))
	k("cp", b2s(f.parse))
	k("cch", b2s(f.chain))
	k("cs", b2s(f.sig))
	k("d", in.cb(g.Digest))
	if s := g.SevSnp; s == nil {
		k("snp", "0")
	} else {
		k("snp", "1")
		k("pol", fmt.Sprint(s.Policy))
		k("svn", fmt.Sprint(s.Svn))
		if s.Measurements == nil {
			k("meas", "nil")
		} else {
			keys := make([]int, 0, len(s.Measurements))
			for x := range s.Measurements {
				keys = append(keys, int(x))
			}
			sort.Ints(keys)
			parts := make([]string, len(keys))
			for i, x := range keys {
				parts[i] = fmt.Sprintf("%d:%s", x, in.cb(s.Measurements[uint32(x)]))
			}
			k("meas", strings.Join(parts, ","))
		}
		k("svsm", in.cb(s.SvsmMeasurement))
		k("cab", fmt.Sprint(len(s.CaBundle)))
		k("pem", c07PemFacts(s.CaBundle))
	}
	if t := g.Tdx; t == nil {
		k("tdx", "0")
	} else {
		k("tdx", "1")
		parts := make([]string, len(t.Measurements))
		for i, m := range t.Measurements {
			parts[i] = fmt.Sprintf("%d:%s", m.RamGib, in.cb(m.Mrtd))
		}
		k("rows", strings.Join(parts, ","))
	}
	return sb.String()
}

// ---------------------------------------------------------------------------------------------
// attestation facts

// sev shape: rep=<0|1> m=<cb> cc=<0|1> nex=<n> x=<-|cb>
func c07SevShape(in *c07Intern, p string, a *spb.Attestation) string {
	x := "-"
	var nex int
	if a.CertificateChain != nil {
		nex = len(a.CertificateChain.Extras)
		if blob, ok := a.CertificateChain.Extras[sev.GCEFwCertGUID]; ok {
			x = in.cb(blob)
		}
	}
	var m []byte
	if a.Report != nil {
		m = a.Report.Measurement
	}
	return fmt.Sprintf(" %srep=%s %sm=%s %scc=%s %snex=%d %sx=%s", p, b2s(a.Report != nil), p, in.cb(m), p, b2s(a.CertificateChain != nil), p, nex, p, x)
}

func c07TdxShape(in *c07Intern, p string, q *tpb.QuoteV4) string {
	var m []byte
	if q.TdQuoteBody != nil {
		m = q.TdQuoteBody.MrTd
	}
	return fmt.Sprintf(" %sbody=%s %smrtd=%s", p, b2s(q.TdQuoteBody != nil), p, in.cb(m))
}

// c07AF: what each parser extract.Attestation may consult answers for the case's bytes.
type c07AF struct {
	line string
	// what a correct reading yields (for the value oracle and for building SevValidate / TdxValidate inputs)
	thirdPartyPanic string
}

func (run *c07Run) attFacts(b []byte) *c07AF {
	in := run.in
	var sb strings.Builder
	af := &c07AF{}
	fmt.Fprintf(&sb, " n=%d", len(b))
	guard := func(name string, f func()) bool {
		if p, msg, _ := Guard(f); p {
			af.thirdPartyPanic = name + ": " + msg
			return true
		}
		return false
	}
	tpm := &tpmpb.Attestation{}
	if proto.Unmarshal(b, tpm) == nil {
		sb.WriteString(" tpm=1")
		switch t := tpm.TeeAttestation.(type) {
		case *tpmpb.Attestation_SevSnpAttestation:
			sb.WriteString(" t.tee=sev")
			if t.SevSnpAttestation == nil {
				sb.WriteString(" t.nil=1")
			} else {
				sb.WriteString(c07SevShape(in, "t.", t.SevSnpAttestation))
			}
		case *tpmpb.Attestation_TdxAttestation:
			sb.WriteString(" t.tee=tdx")
			if t.TdxAttestation == nil {
				sb.WriteString(" t.nil=1")
			} else {
				sb.WriteString(c07TdxShape(in, "t.", t.TdxAttestation))
			}
		default:
			sb.WriteString(" t.tee=none")
		}
	} else {
		sb.WriteString(" tpm=0")
	}
	sa := &spb.Attestation{}
	if proto.Unmarshal(b, sa) == nil {
		sb.WriteString(" sa=1" + c07SevShape(in, "sa.", sa))
	} else {
		// a failed Unmarshal leaves what it had decoded so far in the message, and the code keeps using it
		sb.WriteString(" sa=0")
	}
	rp := &spb.Report{}
	if proto.Unmarshal(b, rp) == nil {
		sb.WriteString(" rp=1 rp.m=" + in.cb(rp.Measurement))
	} else {
		sb.WriteString(" rp=0")
	}
	q4 := &tpb.QuoteV4{}
	if proto.Unmarshal(b, q4) == nil {
		sb.WriteString(" q4=1" + c07TdxShape(in, "q4.", q4))
	} else {
		sb.WriteString(" q4=0")
	}
	dec := b
	if d, err := hex.DecodeString(string(b)); err == nil {
		dec = d
		sb.WriteString(" enc=hex")
	} else if d, err := io.ReadAll(base64.NewDecoder(base64.StdEncoding, bytes.NewReader(b))); err == nil {
		dec = d
		sb.WriteString(" enc=b64")
	} else {
		sb.WriteString(" enc=raw")
	}
	fmt.Fprintf(&sb, " dn=%d", len(dec))
	// certificate-table header facts (third party: abi.ParseSnpCertTableHeader) for the two places a
	// table can sit; the table parsers proper are consulted only for tables whose byte ranges lie inside
	// the table and fit in it together (the specification of extractsev.CheckCertTable, evaluated here in
	// 64-bit arithmetic independently of the code under test)
	var certs []byte
	if len(dec) >= sabi.ReportSize {
		certs = dec[sabi.ReportSize:]
	}
	ok1 := c07HeaderFacts(&sb, "h1", certs)
	ok2 := c07HeaderFacts(&sb, "h2", dec)
	var rc *spb.Attestation
	var rcErr error
	if !ok1 {
		sb.WriteString(" rc=skip")
	} else if guard("abi.ReportCertsToProto", func() { rc, rcErr = sabi.ReportCertsToProto(dec) }) {
		sb.WriteString(" rc=panic")
	} else if rcErr == nil {
		sb.WriteString(" rc=1" + c07SevShape(in, "rc.", rc))
	} else {
		sb.WriteString(" rc=0")
	}
	ct := new(sabi.CertTable)
	var ctErr error
	if !ok2 {
		sb.WriteString(" ct=skip")
	} else if guard("abi.CertTable.Unmarshal", func() { ctErr = ct.Unmarshal(dec) }) {
		sb.WriteString(" ct=panic")
	} else if ctErr == nil {
		sb.WriteString(" ct=1" + c07SevShape(in, "ct.", &spb.Attestation{CertificateChain: ct.Proto()}))
	} else {
		sb.WriteString(" ct=0")
	}
	var tq any
	var tqErr error
	if guard("abi.QuoteToProto", func() { tq, tqErr = tabi.QuoteToProto(dec) }) {
		sb.WriteString(" tq=panic")
	} else if tqErr == nil {
		if q, ok := tq.(*tpb.QuoteV4); ok {
			sb.WriteString(" tq=v4" + c07TdxShape(in, "tq.", q))
		} else {
			sb.WriteString(" tq=other")
		}
	} else {
		sb.WriteString(" tq=0")
	}
	af.line = sb.String()
	return af
}

// c07HeaderFacts writes <p>=<0|1> and <p>.ents=<off:len;...> and reports whether the table passes the
// specification of the range check: every offset+length within the table and the lengths together no
// longer than the table.
func c07HeaderFacts(sb *strings.Builder, p string, table []byte) bool {
	entries, err := sabi.ParseSnpCertTableHeader(table)
	if err != nil {
		fmt.Fprintf(sb, " %s=0", p)
		return false
	}
	parts := make([]string, len(entries))
	ok := true
	var total uint64
	for i, e := range entries {
		parts[i] = fmt.Sprintf("%d:%d", e.Offset, e.Length)
		total += uint64(e.Length)
		if uint64(e.Offset)+uint64(e.Length) > uint64(len(table)) || total > uint64(len(table)) {
			ok = false
		}
	}
	fmt.Fprintf(sb, " %s=1 %s.n=%d %s.ents=%s", p, p, len(table), p, strings.Join(parts, ";"))
	return ok
}

// certificate-table facts for extractsev.FromCertTable: h=.. tb=<0|1|skip|panic> tb.x=<-|cb>
func (run *c07Run) tableFacts(b []byte) string {
	var sb strings.Builder
	if !c07HeaderFacts(&sb, "h", b) {
		return sb.String() + " tb=skip"
	}
	t := new(sabi.CertTable)
	var err error
	if p, _, _ := Guard(func() { err = t.Unmarshal(b) }); p {
		return sb.String() + " tb=panic"
	}
	if err != nil {
		return sb.String() + " tb=0"
	}
	blob, err := t.GetByGUIDString(sev.GCEFwCertGUID)
	if err != nil {
		return sb.String() + " tb=1 tb.x=-"
	}
	return sb.String() + " tb=1 tb.x=" + run.in.cb(blob)
}
