package main

// C12 — chain-of-trust invariants over key-management histories.
//
// Runs the REAL commands (rotate.Bootstrap, cmd.RotateCommand.InitContext + rotate.Key, rotate.Wipeout)
// on every shipped key manager × certificate authority combination, and (thorough tier) the shipped
// non-production CLI wiring in-process.  After each command every certificate the authority records
// is read back through a FRESH authority object, parsed with crypto/x509 and printed field by field;
// Signer.Sign / Signer.PublicKey are probed for every key-version name seen so far.  The same history
// goes to the Lean model (one protocol line per history prefix).  The direct oracle evaluates the
// clauses of the property on the parsed certificates and probes only.

import (
	"bytes"
	"context"
	"crypto"
	"crypto/rsa"
	"crypto/sha256"
	"crypto/x509"
	"fmt"
	"io"
	"math/big"
	mrand "math/rand"
	"os"
	"path/filepath"
	"runtime"
	"sort"
	"strings"
	"sync"
	"time"
	_ "time/tzdata"

	"github.com/google/gce-tcb-verifier/cmd"
	"github.com/google/gce-tcb-verifier/cmd/output"
	"github.com/google/gce-tcb-verifier/keys"
	cpb "github.com/google/gce-tcb-verifier/proto/certificates"
	"github.com/google/gce-tcb-verifier/rotate"
	"github.com/google/gce-tcb-verifier/sign/gcsca"
	"github.com/google/gce-tcb-verifier/sign/memca"
	"github.com/google/gce-tcb-verifier/sign/nonprod"
	sops "github.com/google/gce-tcb-verifier/sign/ops"
	"github.com/google/gce-tcb-verifier/sign/transform"
	styp "github.com/google/gce-tcb-verifier/sign/types"
	"github.com/google/gce-tcb-verifier/storage/local"
	"github.com/google/gce-tcb-verifier/storage/storagei"
	nonprodcli "github.com/google/gce-tcb-verifier/testing/nonprod"
	"github.com/google/gce-tcb-verifier/testing/nonprod/localkm"
	"github.com/google/gce-tcb-verifier/testing/nonprod/memkm"
	teststorage "github.com/google/gce-tcb-verifier/testing/storage"
	"google.golang.org/protobuf/encoding/prototext"
)

func init() {
	register("c12", "key-management histories of at most 6 commands (bootstrap | rotate | wipeout ca|keys|all with common names, "+
		"serial overrides, timestamps inside the root's validity, overwrite / keep_going) run on memkm+memca, memkm+gcsca(testing/storage) "+
		"and localkm+gcsca(storage/local), thorough tier also through the nonprod CLI; one case per history prefix and stack: every "+
		"recorded certificate parsed with crypto/x509 and every historical key name probed after each command. Plus memkm.BumpName on "+
		"generated names. Non-trivial: the prefix has at least two commands of which at least one succeeded, or (bump) the name has a "+
		"numeric suffix; distinct by op line.", runC12)
}

const (
	c12Bucket  = "bkt"
	c12CertDir = "certs"
	c12Root    = "root.crt"
)

var c12Base = time.Date(2024, time.September, 1, 0, 0, 0, 0, time.UTC)

type c12Cmd struct {
	kind       byte // 'b' bootstrap, 'r' rotate, 'w' wipeout
	ow, kg     bool
	rootCn     string
	signCn     string // also the rotated key's CN
	rootSerial *big.Int
	signSerial *big.Int // bootstrap: first signing key serial; rotate: override (nil = none)
	now        int64    // unix seconds
	wca, wkeys bool
	// Cloud KMS stack only (c12_kms.go): the environment of the command, external events (kind 'x'), and - filled
	// in after a bootstrap ran - whether the objects named after its root / signing certificate changed
	gen    int
	dl     bool
	ext    string // "settle", "disable", "expire"
	extKey string
	extIdx int
	wr, ws bool
}

func (c c12Cmd) enc() string {
	fl := b2s(c.ow) + b2s(c.kg)
	switch c.kind {
	case 'b':
		return fmt.Sprintf("b:%s:%s:%s:%s:%s:%d", fl, c.rootCn, c.signCn, c.rootSerial, c.signSerial, c.now)
	case 'r':
		ser := "0"
		if c.signSerial != nil {
			ser = c.signSerial.String()
		}
		return fmt.Sprintf("r:%s:%s:%s:%d", fl, c.signCn, ser, c.now)
	}
	return fmt.Sprintf("w:%s:%s%s", fl, b2s(c.wca), b2s(c.wkeys))
}

func (c c12Cmd) kindName() string {
	switch c.kind {
	case 'b':
		return "bootstrap"
	case 'r':
		return "rotate"
	case 'x':
		return "ext-" + c.ext
	}
	switch {
	case c.wca && c.wkeys:
		return "wipeout-all"
	case c.wca:
		return "wipeout-ca"
	case c.wkeys:
		return "wipeout-keys"
	}
	return "wipeout-none"
}

func c12EncHist(h []c12Cmd) string {
	parts := make([]string, len(h))
	for i, c := range h {
		parts[i] = c.enc()
	}
	return strings.Join(parts, ";")
}

// ---------------------------------------------------------------------------------------------
// observation

type c12Obs struct {
	pr, ps  string
	root    *x509.Certificate
	names   []string                     // manifest entry names, sorted
	certs   map[string]*x509.Certificate // nil = recorded but unreadable
	live    []string                     // names for which Signer.Sign succeeds, sorted
	pub     map[string]*rsa.PublicKey    // Signer.PublicKey of live names
	objects map[string][]byte            // stored certificate objects (path → bytes) for the no-clobber clause
	incons  []string                     // names where Sign and PublicKey disagree
}

func c12Name(s string) string {
	if s == "" {
		return "-"
	}
	return tok(s)
}

func c12CertLine(o *c12Obs, name string, c *x509.Certificate) string {
	if c == nil {
		return "-"
	}
	self := c.CheckSignature(c.SignatureAlgorithm, c.RawTBSCertificate, c.Signature) == nil
	vr, ir := false, false
	if o.root != nil {
		vr = o.root.CheckSignature(c.SignatureAlgorithm, c.RawTBSCertificate, c.Signature) == nil
		ir = bytes.Equal(c.RawIssuer, o.root.RawSubject)
	}
	km := "x"
	if pk, ok := o.pub[name]; ok {
		cp, isRsa := c.PublicKey.(*rsa.PublicKey)
		km = b2s(isRsa && cp.Equal(pk))
	}
	ser := "nil"
	if c.SerialNumber != nil {
		ser = c.SerialNumber.String()
	}
	return strings.Join([]string{ser, c12Name(c.Subject.SerialNumber), c12Name(c.Subject.CommonName), c12Name(c.Issuer.CommonName),
		c12Name(c.Issuer.SerialNumber), b2s(c.IsCA), fmt.Sprint(int(c.KeyUsage)), fmt.Sprint(int(c.SignatureAlgorithm)),
		fmt.Sprint(c.NotBefore.Unix()), fmt.Sprint(c.NotAfter.Unix()), b2s(self), b2s(vr), b2s(ir), km}, "/")
}

func (o *c12Obs) line(ok bool) string {
	root := "-"
	if o.root != nil {
		root = c12CertLine(o, o.pr, o.root)
	}
	var ents []string
	for _, n := range o.names {
		ents = append(ents, c12Name(n)+"@"+c12CertLine(o, n, o.certs[n]))
	}
	sort.Strings(ents)
	var live []string
	for _, n := range o.live {
		live = append(live, c12Name(n))
	}
	sort.Strings(live)
	return fmt.Sprintf("ok=%s pr=%s ps=%s root=%s ents=%s live=%s", b2s(ok), c12Name(o.pr), c12Name(o.ps), root,
		strings.Join(ents, ","), strings.Join(live, ","))
}

func (o *c12Obs) empty() bool {
	return o.pr == "" && o.ps == "" && o.root == nil && len(o.names) == 0 && len(o.live) == 0 && len(o.objects) == 0
}

// emptyCA: the certificate authority serves, records and stores nothing (the key manager is not looked at).
func (o *c12Obs) emptyCA() bool {
	return o.pr == "" && o.ps == "" && o.root == nil && len(o.names) == 0 && len(o.objects) == 0
}

func c12PssOpts() crypto.SignerOpts {
	return &rsa.PSSOptions{SaltLength: rsa.PSSSaltLengthEqualsHash, Hash: crypto.SHA256}
}

// probe fills live/pub for every candidate name.
func c12Probe(ctx context.Context, s styp.Signer, candidates map[string]bool, o *c12Obs) {
	o.pub = map[string]*rsa.PublicKey{}
	digest := sha256.Sum256([]byte("c12 probe"))
	var names []string
	for n := range candidates {
		names = append(names, n)
	}
	sort.Strings(names)
	for _, n := range names {
		sig, serr := s.Sign(ctx, n, styp.Digest{SHA256: digest[:]}, c12PssOpts())
		pk, perr := sops.RsaPublicKey(ctx, s, n)
		if (serr == nil) != (perr == nil) {
			o.incons = append(o.incons, n)
		}
		if serr == nil && perr == nil {
			if rsa.VerifyPSS(pk, crypto.SHA256, digest[:], sig, &rsa.PSSOptions{SaltLength: rsa.PSSSaltLengthEqualsHash, Hash: crypto.SHA256}) != nil {
				o.incons = append(o.incons, n)
			}
			o.live = append(o.live, n)
			o.pub[n] = pk
		}
	}
}

// c12ReadCA reads primary names, root certificate and every recorded certificate through the CA interface.
func c12ReadCA(ctx context.Context, ca styp.CertificateAuthority, names []string, o *c12Obs) {
	o.pr, _ = ca.PrimaryRootKeyVersion(ctx)
	o.ps, _ = ca.PrimarySigningKeyVersion(ctx)
	if pem, err := ca.CABundle(ctx, o.ps); err == nil {
		if c, err := transform.PemToCertificate(pem); err == nil {
			o.root = c
		}
	}
	o.certs = map[string]*x509.Certificate{}
	sort.Strings(names)
	o.names = names
	for _, n := range names {
		o.certs[n] = nil
		if der, err := ca.Certificate(ctx, n); err == nil {
			if c, err := x509.ParseCertificate(der); err == nil {
				o.certs[n] = c
			}
		}
	}
}

// ---------------------------------------------------------------------------------------------
// stacks

type c12Stack interface {
	caName() string
	kmName() string
	cli() bool
	exec(c c12Cmd) (ok bool, created string)
	observe(candidates map[string]bool) *c12Obs
	close()
}

func c12Ctx(c c12Cmd) context.Context {
	return output.NewContext(context.Background(), &output.Options{Quiet: true, Overwrite: c.ow, KeepGoing: c.kg,
		Out: io.Discard, Err: io.Discard})
}

// c12Run executes one command at library level exactly as the command components do:
// BootstrapContext / SigningKeyContext (+ cmd.RotateCommand.InitContext for the serial default) /
// WipeoutContext on top of a keys.Context.
func c12Run(kc *keys.Context, c c12Cmd) (bool, string) {
	return c12RunIn(keys.NewContext(c12Ctx(c), kc), c)
}

// c12Time is the creation time handed to a command. The instant is what the model sees; every other instant is
// presented in a zone that observes daylight saving (as time.Now() is on such a machine, or a --timestamp with the
// local offset): certificate lifetimes are durations, not calendar arithmetic in the creation time's zone.
var c12DST = func() *time.Location {
	l, err := time.LoadLocation("America/Los_Angeles")
	if err != nil {
		panic(err)
	}
	return l
}()

func c12Time(now int64) time.Time {
	if now%2 == 1 {
		return time.Unix(now, 0).In(c12DST)
	}
	return time.Unix(now, 0).UTC()
}

// c12RunIn is c12Run on a context that already carries the keys.Context (and whatever else the stack needs).
func c12RunIn(ctx context.Context, c c12Cmd) (bool, string) {
	switch c.kind {
	case 'b':
		ctx = rotate.NewBootstrapContext(ctx, &rotate.BootstrapContext{RootKeyCommonName: c.rootCn, SigningKeyCommonName: c.signCn,
			RootKeySerial: new(big.Int).Set(c.rootSerial), SigningKeySerial: new(big.Int).Set(c.signSerial), Now: c12Time(c.now)})
		return rotate.Bootstrap(ctx) == nil, ""
	case 'r':
		ser := big.NewInt(0) // the flag's default: "0 is default behavior: current key's serial + 1"
		if c.signSerial != nil {
			ser = new(big.Int).Set(c.signSerial)
		}
		ctx = rotate.NewSigningKeyContext(ctx, &rotate.SigningKeyContext{SigningKeyCommonName: c.signCn, SigningKeySerial: ser,
			Now: c12Time(c.now)})
		ctx, err := (&cmd.RotateCommand{}).InitContext(ctx)
		if err != nil {
			return false, ""
		}
		name, err := rotate.Key(ctx)
		return err == nil, name
	}
	ctx = rotate.NewWipeoutContext(ctx, &rotate.WipeoutContext{CA: c.wca, Keys: c.wkeys})
	return rotate.Wipeout(ctx) == nil, ""
}

func c12Rand(seed uint64) io.Reader { return mrand.New(mrand.NewSource(int64(seed))) }

// --- memkm + memca ---
type c12MemMem struct {
	signer *nonprod.Signer
	ca     *memca.CertificateAuthority
	seed   uint64
}

func (s *c12MemMem) caName() string { return "memca" }
func (s *c12MemMem) kmName() string { return "memkm" }
func (s *c12MemMem) cli() bool      { return false }
func (s *c12MemMem) close()         {}
func (s *c12MemMem) exec(c c12Cmd) (bool, string) {
	return c12Run(&keys.Context{Signer: s.signer, CA: s.ca, Manager: &memkm.T{Signer: s.signer}, Random: c12Rand(s.seed + 1)}, c)
}
func (s *c12MemMem) observe(cand map[string]bool) *c12Obs {
	o := &c12Obs{objects: map[string][]byte{}}
	ctx := context.Background()
	var names []string
	for n, c := range s.ca.Certs {
		names = append(names, n)
		if c != nil {
			o.objects["Certs/"+n] = append([]byte{}, c.Raw...)
		}
	}
	c12ReadCA(ctx, s.ca, names, o)
	for n := range s.signer.Keys {
		cand[n] = true
	}
	c12Probe(ctx, s.signer, cand, o)
	return o
}

// c12Mock repairs one behaviour of the test double that has nothing to do with the code under test:
// testing/storage.Mock.Wipeout leaves a nil object map behind (any later write to the bucket panics)
// and reports os.ErrNotExist for a bucket that has no object yet.
type c12Mock struct{ *teststorage.Mock }

func (m c12Mock) Wipeout(ctx context.Context, bucket string) error {
	err := m.Mock.Wipeout(ctx, bucket)
	if m.Mock.BucketObjects == nil {
		m.Mock.BucketObjects = map[string]map[string]*teststorage.Responses{}
	}
	m.Mock.BucketObjects[bucket] = map[string]*teststorage.Responses{}
	if os.IsNotExist(err) {
		return nil
	}
	return err
}

func c12Gcsca(st storagei.Client) *gcsca.CertificateAuthority {
	return &gcsca.CertificateAuthority{RootPath: c12Root, PrivateBucket: c12Bucket, SigningCertDirInGCS: c12CertDir, Storage: st}
}

// c12ReadGcs reads the manifest's entry names straight from storage (the CA interface has no listing).
func c12ManifestNames(ctx context.Context, st storagei.Client) []string {
	r, err := st.Reader(ctx, c12Bucket, gcsca.ManifestObjectName)
	if err != nil {
		return nil
	}
	defer r.Close()
	text, err := io.ReadAll(r)
	if err != nil {
		return nil
	}
	m := &cpb.GCECertificateManifest{}
	if prototext.Unmarshal(text, m) != nil {
		return nil
	}
	var names []string
	seen := map[string]bool{}
	for _, e := range m.GetEntries() {
		if !seen[e.GetKeyVersionName()] {
			seen[e.GetKeyVersionName()] = true
			names = append(names, e.GetKeyVersionName())
		}
	}
	return names
}

// --- memkm + gcsca over testing/storage ---
type c12MemGcs struct {
	signer *nonprod.Signer
	st     c12Mock
	seed   uint64
}

func (s *c12MemGcs) caName() string { return "gcsca" }
func (s *c12MemGcs) kmName() string { return "memkm" }
func (s *c12MemGcs) cli() bool      { return false }
func (s *c12MemGcs) close()         {}
func (s *c12MemGcs) exec(c c12Cmd) (bool, string) {
	// a fresh authority object per command, as a new process would have
	return c12Run(&keys.Context{Signer: s.signer, CA: c12Gcsca(s.st), Manager: &memkm.T{Signer: s.signer}, Random: c12Rand(s.seed + 1)}, c)
}
func (s *c12MemGcs) observe(cand map[string]bool) *c12Obs {
	o := &c12Obs{objects: map[string][]byte{}}
	ctx := context.Background()
	for name, r := range s.st.Mock.BucketObjects[c12Bucket] {
		if name != gcsca.ManifestObjectName && r != nil && r.Cell != nil {
			o.objects[name] = append([]byte{}, r.Cell.Data...)
		}
	}
	c12ReadCA(ctx, c12Gcsca(s.st), c12ManifestNames(ctx, s.st), o)
	for n := range s.signer.Keys {
		cand[n] = true
	}
	c12Probe(ctx, s.signer, cand, o)
	return o
}

// --- localkm + gcsca over storage/local (library level, and the CLI) ---
type c12Local struct {
	dir    string // scratch: dir/keys, dir/store
	seed   uint64
	viaCLI bool
	nth    uint64 // managers created so far: every fresh signer gets its own random stream
}

func (s *c12Local) caName() string { return "gcsca" }
func (s *c12Local) kmName() string { return "localkm" }
func (s *c12Local) cli() bool      { return s.viaCLI }
func (s *c12Local) close()         { os.RemoveAll(s.dir) }
func (s *c12Local) keyDir() string { return filepath.Join(s.dir, "keys") }
func (s *c12Local) store() storagei.Client {
	return &local.StorageClient{Root: filepath.Join(s.dir, "store")}
}

// manager returns a fresh localkm manager with the keys of the key directory loaded.
func (s *c12Local) manager() (*localkm.T, error) {
	s.nth++
	km := &localkm.T{T: memkm.T{Signer: &nonprod.Signer{Rand: c12Rand(s.seed*4096 + s.nth)}}, KeyDir: s.keyDir()}
	return km, km.Init(context.Background())
}

func (s *c12Local) exec(c c12Cmd) (bool, string) {
	if s.viaCLI {
		return s.execCLI(c), ""
	}
	km, err := s.manager()
	if err != nil {
		return false, ""
	}
	return c12Run(&keys.Context{Signer: km.Signer, CA: c12Gcsca(s.store()), Manager: km, Random: c12Rand(s.seed + 1)}, c)
}

func (s *c12Local) execCLI(c c12Cmd) bool {
	root := nonprodcli.VerifNewRootCmd()
	var args []string
	switch c.kind {
	case 'b':
		args = []string{"bootstrap", "--root_key_cn", c.rootCn, "--signing_key_cn=" + c.signCn, "--root_key_serial", c.rootSerial.String(),
			"--initial_signing_key_serial=" + c.signSerial.String(), "--timestamp", time.Unix(c.now, 0).UTC().Format(time.RFC3339)}
	case 'r':
		args = []string{"rotate", "--signing_key_cn", c.signCn, "--timestamp=" + time.Unix(c.now, 0).UTC().Format(time.RFC3339)}
		if c.signSerial != nil {
			args = append(args, "--rotated_key_serial_override", c.signSerial.String())
		}
	default:
		args = []string{"wipeout"}
		switch {
		case c.wca && !c.wkeys:
			args = append(args, "ca")
		case c.wkeys && !c.wca:
			args = append(args, "keys")
		}
	}
	args = append(args, "--key_dir", s.keyDir(), "--bucket_root", filepath.Join(s.dir, "store"), "--bucket="+c12Bucket,
		"--root_path", c12Root, "--cert_dir", c12CertDir, "--quiet")
	if c.ow {
		args = append(args, "--overwrite")
	}
	if c.kg {
		args = append(args, "--keep_going=true")
	}
	root.SetArgs(args)
	root.SetOut(io.Discard)
	root.SetErr(io.Discard)
	root.SilenceErrors = true
	root.SilenceUsage = true
	return root.Execute() == nil
}

func (s *c12Local) observe(cand map[string]bool) *c12Obs {
	o := &c12Obs{objects: map[string][]byte{}}
	ctx := context.Background()
	bucket := filepath.Join(s.dir, "store", c12Bucket)
	filepath.Walk(bucket, func(p string, info os.FileInfo, err error) error {
		if err == nil && !info.IsDir() {
			rel, _ := filepath.Rel(bucket, p)
			if rel != gcsca.ManifestObjectName {
				b, _ := os.ReadFile(p)
				o.objects[filepath.ToSlash(rel)] = b
			}
		}
		return nil
	})
	c12ReadCA(ctx, c12Gcsca(s.store()), c12ManifestNames(ctx, s.store()), o)
	km, err := s.manager()
	if err != nil {
		o.incons = append(o.incons, "key-dir-unreadable")
		return o
	}
	for n := range km.Signer.Keys {
		cand[n] = true
	}
	c12Probe(ctx, km.Signer, cand, o)
	return o
}

func c12NewStack(which int, seed uint64) (c12Stack, error) {
	switch which {
	case 0:
		return &c12MemMem{signer: &nonprod.Signer{Rand: c12Rand(seed)}, ca: memca.Create(), seed: seed}, nil
	case 1:
		return &c12MemGcs{signer: &nonprod.Signer{Rand: c12Rand(seed)}, st: c12Mock{&teststorage.Mock{}}, seed: seed}, nil
	case 4:
		return newC12KmsStack(seed), nil // c12_kms.go
	}
	dir, err := os.MkdirTemp("", "verif-c12-")
	if err != nil {
		return nil, err
	}
	for _, d := range []string{"keys", "store"} {
		if err := os.MkdirAll(filepath.Join(dir, d), 0755); err != nil {
			return nil, err
		}
	}
	return &c12Local{dir: dir, seed: seed, viaCLI: which == 3}, nil
}

var c12StackNames = []string{"memkm+memca", "memkm+gcsca(mock)", "localkm+gcsca(local)", "cli(localkm+localca)", "gcpkms+gcsca(mock)"}

// ---------------------------------------------------------------------------------------------
// generator

var (
	c12RootCns = []string{"GCE-cc-tcb-root", "rootA", "rootB"}
	c12SignCns = []string{"GCE-uefi-signer", "signA", "signB"}
)

func c12Big(r *Rng) *big.Int {
	b := new(big.Int).SetBytes(r.Bytes(9 + r.Intn(4)))
	return b.Add(b, big.NewInt(1000))
}

func c12GenHistory(r *Rng) []c12Cmd {
	n := 1 + r.Intn(6)
	if r.Intn(3) > 0 && n < 3 {
		n += 2
	}
	var h []c12Cmd
	bootNow := int64(0)
	rootSerial := big.NewInt(1)
	pick := func(pool []string) string { return pool[r.Intn(len(pool))] }
	flags := func(c *c12Cmd) {
		c.ow = r.Intn(100) < 35
		c.kg = r.Intn(100) < 20
	}
	rootValid := int64(styp.RootValidDays) * 86400
	for i := 0; i < n; i++ {
		var c c12Cmd
		k := r.Intn(100)
		switch {
		case (i == 0 && k < 80) || (i > 0 && k < 15):
			c.kind = 'b'
		case k < 68:
			c.kind = 'r'
		case k < 78:
			c.kind, c.wca = 'w', true
		case k < 87:
			c.kind, c.wkeys = 'w', true
		default:
			c.kind, c.wca, c.wkeys = 'w', true, true
		}
		flags(&c)
		switch c.kind {
		case 'b':
			c.rootCn, c.signCn = pick(c12RootCns), pick(c12SignCns)
			if r.Intn(100) < 6 {
				c.signCn = pick(c12RootCns) // a signing key named like a root
			}
			switch r.Intn(6) {
			case 0:
				c.rootSerial = big.NewInt(7)
			case 1:
				c.rootSerial = c12Big(r)
			default:
				c.rootSerial = big.NewInt(1)
			}
			switch r.Intn(6) {
			case 0:
				c.signSerial = big.NewInt(3)
			case 1:
				c.signSerial = c12Big(r)
			case 2:
				c.signSerial = big.NewInt(10)
			default:
				c.signSerial = big.NewInt(2)
			}
			// The two certificates of one bootstrap must not share an object name (the upload order of
			// gcsca.Finalize is a Go map order).
			if c.rootCn == c.signCn && c.rootSerial.Cmp(c.signSerial) == 0 {
				c.signSerial = new(big.Int).Add(c.signSerial, big.NewInt(1))
			}
			c.now = c12Base.Unix() + int64(r.Intn(1000*86400))
			bootNow, rootSerial = c.now, c.rootSerial
		case 'r':
			c.signCn = pick(c12SignCns)
			if r.Intn(100) < 6 {
				c.signCn = pick(c12RootCns)
			}
			if r.Intn(100) < 40 {
				switch r.Intn(7) {
				case 0:
					c.signSerial = big.NewInt(2) // collides with the usual first signing key serial
				case 1:
					c.signSerial = new(big.Int).Set(rootSerial)
				case 2:
					c.signSerial = c12Big(r)
				default:
					c.signSerial = big.NewInt(int64(3 + r.Intn(4)))
				}
			}
			if bootNow == 0 {
				c.now = c12Base.Unix() + int64(r.Intn(1000*86400))
			} else {
				switch r.Intn(8) {
				case 0:
					c.now = bootNow // first instant of the root's validity
				case 1:
					c.now = bootNow + rootValid - 1 // last instant
				default:
					c.now = bootNow + int64(r.Intn(int(rootValid)))
				}
			}
		}
		h = append(h, c)
	}
	return h
}

func c12Fixed() [][]c12Cmd {
	t0 := c12Base.Unix()
	b := func(ow, kg bool, rcn, scn string, rs, ss int64, now int64) c12Cmd {
		return c12Cmd{kind: 'b', ow: ow, kg: kg, rootCn: rcn, signCn: scn, rootSerial: big.NewInt(rs), signSerial: big.NewInt(ss), now: now}
	}
	r := func(ow, kg bool, cn string, ser int64, now int64) c12Cmd {
		c := c12Cmd{kind: 'r', ow: ow, kg: kg, signCn: cn, now: now}
		if ser != 0 {
			c.signSerial = big.NewInt(ser)
		}
		return c
	}
	w := func(ca, ks bool) c12Cmd { return c12Cmd{kind: 'w', wca: ca, wkeys: ks} }
	day := int64(86400)
	dst := time.Date(2024, time.March, 10, 19, 0, 1, 0, time.UTC).Unix()    // 12:00:01 PDT on the day daylight saving starts
	dst2 := time.Date(2024, time.November, 3, 20, 0, 1, 0, time.UTC).Unix() // 12:00:01 PST on the day it ends
	return [][]c12Cmd{
		// creation times in a daylight-saving zone on the switch days (lifetimes land on the other side of a switch)
		{b(false, false, "rootA", "signA", 1, 2, dst), r(false, false, "signA", 0, dst2), r(false, false, "signA", 0, dst2+2)},
		// the non-vacuity history of the Lean file
		{b(false, false, "GCE-cc-tcb-root", "GCE-uefi-signer", 1, 2, t0), r(false, false, "GCE-uefi-signer", 0, t0+day), r(false, false, "GCE-uefi-signer", 0, t0+2*day)},
		// D18: bootstrap over a populated store
		{b(false, false, "rootA", "signA", 1, 2, t0), r(false, false, "signA", 0, t0+day), b(true, false, "rootB", "signB", 1, 2, t0+2*day), r(false, false, "signB", 0, t0+3*day)},
		// certificates recorded, keys wiped, bootstrap again without overwrite
		{b(false, false, "rootA", "signA", 1, 2, t0), w(false, true), b(false, false, "rootA", "signA", 1, 2, t0+day), r(false, false, "signA", 0, t0+2*day)},
		// object-name collision with and without overwrite / keep_going
		{b(false, false, "rootA", "signA", 1, 2, t0), r(false, false, "signA", 2, t0+day), r(false, true, "signA", 2, t0+2*day), r(true, false, "signA", 2, t0+3*day), r(true, true, "signA", 0, t0+4*day)},
		// rotation before bootstrap, full wipeout, second life
		{r(false, false, "signA", 0, t0), b(false, false, "rootA", "signA", 1, 2, t0), w(true, true), b(false, false, "rootB", "signB", 7, 3, t0+day), r(false, false, "signB", 0, t0+2*day), w(true, true)},
		// partial wipeouts
		{b(false, false, "rootA", "signA", 1, 2, t0), r(false, false, "signA", 0, t0+day), w(true, false), r(false, false, "signA", 5, t0+2*day), w(false, true), b(false, false, "rootA", "signA", 1, 2, t0+3*day)},
		{b(false, false, "rootA", "signA", 1, 2, t0), w(false, true), r(false, false, "signA", 0, t0+day), r(false, false, "signA", 0, t0+2*day)},
		// keep_going and a rotated key named like the root
		{b(false, false, "rootA", "signA", 1, 2, t0), r(false, true, "rootA", 1, t0+day), r(false, false, "signA", 0, t0+2*day)},
		// the same object with --overwrite (the root's certificate object is recorded for the root key version)
		{b(false, false, "rootA", "signA", 1, 2, t0), r(true, false, "rootA", 1, t0+day), r(false, false, "signA", 0, t0+2*day)},
		// a leftover object and keep_going: a bootstrap whose two certificates share one object name is refused at the
		// second upload and leaves the first one's object behind unrecorded (which of the two is Go map order; the object
		// is never recorded, so it does not matter); after the keys are wiped, a bootstrap with keep_going whose signing
		// certificate gets that object's name must not record it
		{b(false, false, "same", "same", 5, 5, t0), w(false, true), b(false, true, "rootB", "same", 1, 5, t0+day), r(false, false, "same", 0, t0+2*day),
			b(true, false, "rootB", "same", 1, 5, t0+3*day), r(false, false, "same", 0, t0+4*day)},
	}
}

// ---------------------------------------------------------------------------------------------
// direct oracle

type c12Finding struct{ sig, what, replay string }

type c12Result struct {
	ops, impls []string
	nontriv    []bool
	counts     map[string]int
	finds      []c12Finding
}

var (
	c12RootLife = time.Duration(9131) * 24 * time.Hour    // documented: 25 years = 25 * 365.24 days
	c12SignLife = time.Duration(5*365+1) * 24 * time.Hour // documented: five years plus one day
)

func c12RunHistory(which int, h []c12Cmd, seed uint64, seq bool) (res c12Result) {
	res.counts = map[string]int{}
	h = append([]c12Cmd(nil), h...)
	st, err := c12NewStack(which, seed)
	if err != nil {
		panic(err)
	}
	defer st.close()
	kms, _ := st.(*c12Kms)
	encHist := c12EncHist
	if kms != nil {
		encHist = c12EncHistK
	}
	find := func(sig, what string, k int) {
		res.finds = append(res.finds, c12Finding{sig, what, fmt.Sprintf("stack=%s cmds=%s (after command %d)", c12StackNames[which], encHist(h[:k+1]), k+1)})
	}
	cand := map[string]bool{"root": true, "primarySigningKey": true, "_1": true}
	everLive := map[string]bool{}     // names that could sign at some point since the last key wipeout
	everRecorded := map[string]bool{} // names recorded by the authority since the last CA wipeout
	tainted := false                  // a bootstrap ran over a populated store since the store was last empty
	kgEntry := map[string]bool{}      // entries first recorded by a command that ran with keep_going
	prev := st.observe(cand)
	for k, c := range h {
		populated := !prev.empty()
		if kms != nil {
			// Cloud KMS hands out a new version number for every key it creates and bootstrap adopts the ENABLED
			// versions it finds, so only the certificate store decides whether a bootstrap runs "over a populated store"
			populated = !prev.emptyCA()
		}
		var ok bool
		var created string
		panicked, msg, stack := Guard(func() { ok, created = st.exec(c) })
		if panicked {
			find("c12/"+c.kindName()+"/panic", "command panicked: "+msg+" "+c12FirstRepoFrame(stack), k)
			res.counts["panic"]++
			return
		}
		cur := st.observe(cand)
		for _, n := range cur.live {
			cand[n] = true
		}
		line := cur.line(ok)
		op := fmt.Sprintf("c12 op=hist ca=%s km=%s seq=%s cli=%s cmds=%s", st.caName(), st.kmName(), b2s(seq), b2s(st.cli()), c12EncHist(h[:k+1]))
		if kms != nil {
			if c.kind == 'b' {
				h[k].wr, h[k].ws = c12ObjChanged(prev, cur, c.rootCn, c.rootSerial), c12ObjChanged(prev, cur, c.signCn, c.signSerial)
			}
			op, line = kms.opLine(h[:k+1]), line+" "+kms.versLine()
			kms.oracle(c, ok, prev, cur, find, k, res.counts)
		}
		res.ops = append(res.ops, op)
		res.impls = append(res.impls, line)
		anyOk := ok
		for j := 0; j < len(res.nontriv); j++ {
			anyOk = anyOk || strings.HasPrefix(res.impls[j], "ok=1")
		}
		res.nontriv = append(res.nontriv, k >= 1 && anyOk)
		res.counts[fmt.Sprintf("%s/%s/ok=%s", c12StackNames[which], c.kindName(), b2s(ok))]++
		res.counts[fmt.Sprintf("flags/ow=%s,kg=%s", b2s(c.ow), b2s(c.kg))]++
		if c.kind == 'r' {
			res.counts["rotate/override="+b2s(c.signSerial != nil)]++
		}
		res.counts[fmt.Sprintf("entries-after/%d", len(cur.names))]++
		changed := cur.line(true) != prev.line(true)
		if c.kind == 'b' && populated && (ok || changed) {
			tainted = true
			res.counts["class/bootstrap-over-populated-store"]++
		}
		class := c.kindName()
		if tainted {
			class = "rebootstrap"
		}
		for _, n := range cur.names {
			if !everRecorded[n] && !c12Has(prev.names, n) && c.kg {
				kgEntry[n] = true
			}
		}

		// --- consistency of the probes
		for _, n := range cur.incons {
			find("c12/"+c.kindName()+"/probe/sign-and-publickey-disagree", "Signer.Sign and Signer.PublicKey disagree (or the signature does not verify) for "+n, k)
		}
		// --- root profile
		if r := cur.root; r != nil {
			bad := func(f, what string) {
				find("c12/"+c.kindName()+"/root-profile/"+f, "served root certificate: "+what, k)
			}
			if !r.IsCA || !r.BasicConstraintsValid {
				bad("isCA", "not a CA certificate")
			}
			if r.KeyUsage&x509.KeyUsageCertSign == 0 {
				bad("keyUsage", "no certificate-signing usage")
			}
			if r.CheckSignatureFrom(r) != nil || !bytes.Equal(r.RawIssuer, r.RawSubject) {
				bad("self-signed", "not self-signed")
			}
			if r.NotAfter.Sub(r.NotBefore) != c12RootLife {
				bad("lifetime", fmt.Sprintf("lifetime %v, documented %v", r.NotAfter.Sub(r.NotBefore), c12RootLife))
			}
		}
		// --- signing profile: every manifest entry other than the root's
		for _, n := range cur.names {
			if n == cur.pr {
				continue
			}
			cert := cur.certs[n]
			if cert == nil {
				continue // recorded but unreadable: nothing is served for it
			}
			cls := class
			if kgEntry[n] && !tainted {
				cls = "keep-going"
			}
			bad := func(f, what string) {
				find("c12/"+cls+"/signing-profile/"+f, fmt.Sprintf("signing certificate recorded for %s: %s", n, what), k)
			}
			if cls == "keep-going" && cur.root != nil && cert.IsCA && bytes.Equal(cert.Raw, cur.root.Raw) {
				// one defect, one signature: the entry was recorded by a keep_going run that did not write
				// the certificate, and the object it names is the root certificate
				find("c12/keep-going/root-cert-recorded-as-signing-cert", fmt.Sprintf("the entry recorded for %s by a --keep_going rotation "+
					"serves the root certificate (the rotation's certificate was never written)", n), k)
				continue
			}
			if cert.IsCA {
				bad("isCA", "is a CA certificate")
			}
			if cert.KeyUsage != x509.KeyUsageDigitalSignature {
				bad("keyUsage", fmt.Sprintf("key usage %d, want digital signature only", cert.KeyUsage))
			}
			if cert.SignatureAlgorithm != x509.SHA256WithRSAPSS {
				bad("sigAlg", "signature algorithm "+cert.SignatureAlgorithm.String())
			}
			if cert.NotAfter.Sub(cert.NotBefore) != c12SignLife {
				bad("lifetime", fmt.Sprintf("lifetime %v, documented %v", cert.NotAfter.Sub(cert.NotBefore), c12SignLife))
			}
			if cert.SerialNumber == nil || cert.SerialNumber.String() != cert.Subject.SerialNumber {
				bad("serial", fmt.Sprintf("certificate serial %v differs from subject serial %q", cert.SerialNumber, cert.Subject.SerialNumber))
			}
			if cur.root == nil || cert.CheckSignatureFrom(cur.root) != nil || !bytes.Equal(cert.RawIssuer, cur.root.RawSubject) {
				if tainted {
					find("c12/rebootstrap/stale-signing-cert", fmt.Sprintf("certificate recorded for %s is not issued by the current root", n), k)
				} else {
					bad("issuer", "not issued by the served root")
				}
			}
		}
		// --- a certificate newly recorded by this command was made by this command (no entry without its upload):
		//     certificates are signed with fresh randomness, so bytes that were already stored before the command
		//     are not this command's
		if c.kind != 'w' && c.kind != 'x' {
			var ppaths []string
			for p := range prev.objects {
				ppaths = append(ppaths, p)
			}
			sort.Strings(ppaths)
			for _, n := range cur.names {
				cert := cur.certs[n]
				if cert == nil || c12Has(prev.names, n) {
					continue
				}
				for _, p := range ppaths {
					if bytes.Equal(prev.objects[p], cert.Raw) {
						find("c12/"+c.kindName()+"/entry-without-upload", fmt.Sprintf("the entry newly recorded for %s serves the certificate object %s, "+
							"which existed with these bytes before the command: recorded without an upload", n, p), k)
					}
				}
			}
		}
		// --- serial succession
		if c.kind == 'r' && ok && c.signSerial == nil && !c.kg {
			pc, nc := prev.certs[prev.ps], cur.certs[cur.ps]
			if pc == nil || nc == nil {
				find("c12/"+class+"/serial-succ/missing", "successful default-serial rotation without a readable predecessor or successor certificate", k)
			} else {
				p, ok1 := new(big.Int).SetString(pc.Subject.SerialNumber, 10)
				q, ok2 := new(big.Int).SetString(nc.Subject.SerialNumber, 10)
				if !ok1 || !ok2 || q.Cmp(p.Add(p, big.NewInt(1))) != 0 {
					find("c12/"+class+"/serial-succ/not-predecessor-plus-one", fmt.Sprintf("new subject serial %s, predecessor %s", nc.Subject.SerialNumber, pc.Subject.SerialNumber), k)
				}
			}
		}
		// --- only the primary signing key can sign (among the key versions the authority records)
		for _, n := range cur.names {
			if n != cur.pr && n != cur.ps && c12Has(cur.live, n) {
				if tainted {
					find("c12/rebootstrap/old-key-signs", "a recorded signing key version other than the primary can still sign: "+n, k)
				} else {
					find("c12/"+class+"/only-primary-signs", "a recorded signing key version other than the primary can still sign: "+n, k)
				}
			}
		}
		// --- names are not reused
		if c.kind == 'r' && ok {
			name := created
			if name == "" {
				name = cur.ps
			}
			if c12Has(prev.names, name) || (everLive[name] && !c12Has(prev.live, name)) {
				if tainted {
					find("c12/rebootstrap/name-reused", "rotation created a key version name that was already certified or destroyed: "+name, k)
				} else {
					find("c12/"+class+"/name-reused", "rotation created a key version name that was already certified or destroyed: "+name, k)
				}
			}
			if created != "" && created != cur.ps && !st.cli() {
				find("c12/"+class+"/returned-name", "rotate.Key returned "+created+" but the recorded primary is "+cur.ps, k)
			}
		}
		// --- no certificate object changes without overwrite
		if !c.ow && c.kind != 'w' && c.kind != 'x' {
			var paths []string
			for p := range prev.objects {
				paths = append(paths, p)
			}
			sort.Strings(paths)
			for _, p := range paths {
				if nb, ok := cur.objects[p]; !ok || !bytes.Equal(nb, prev.objects[p]) {
					if tainted && st.caName() == "memca" {
						// known finding C12-K4 is about memca (no overwrite check of its own); gcsca never changes an
						// existing object without overwrite, in any history (theorem C12_no_clobber)
						find("c12/rebootstrap/clobber-without-overwrite", "an existing certificate object changed although overwrite was not given ("+st.caName()+")", k)
					} else {
						find("c12/"+class+"/no-clobber/"+st.caName(), "an existing certificate object changed although overwrite was not given: "+p, k)
					}
				}
			}
		}
		// --- wipeout leaves nothing usable
		if c.kind == 'w' && ok {
			if c.wkeys && len(cur.live) > 0 {
				find("c12/"+c.kindName()+"/wipeout-total/key-signs", "a key can still sign after the key wipeout: "+strings.Join(cur.live, ","), k)
			}
			if c.wca && (cur.root != nil || len(cur.names) > 0 || cur.pr != "" || cur.ps != "" || len(cur.objects) > 0) {
				find("c12/"+c.kindName()+"/wipeout-total/cert-served", "the authority still serves or stores a certificate after the CA wipeout", k)
			}
		}
		// --- bookkeeping for the next step
		for _, n := range cur.live {
			everLive[n] = true
		}
		for _, n := range cur.names {
			everRecorded[n] = true
		}
		if c.kind == 'w' && ok && c.wkeys {
			everLive = map[string]bool{}
		}
		if c.kind == 'w' && ok && c.wca {
			everRecorded, kgEntry = map[string]bool{}, map[string]bool{}
		}
		if cur.empty() || (kms != nil && cur.emptyCA()) {
			tainted = false
		}
		prev = cur
	}
	return
}

// c12ObjChanged: the certificate object gcsca names after (cn, serial) was created, removed or rewritten.
func c12ObjChanged(prev, cur *c12Obs, cn string, serial *big.Int) bool {
	p := fmt.Sprintf("%s/%s-%s.crt", c12CertDir, cn, serial)
	a, okA := prev.objects[p]
	b, okB := cur.objects[p]
	return okA != okB || !bytes.Equal(a, b)
}

func c12Has(l []string, s string) bool {
	for _, x := range l {
		if x == s {
			return true
		}
	}
	return false
}

func c12FirstRepoFrame(stack string) string {
	for _, l := range strings.Split(stack, "\n") {
		if i := strings.Index(l, "gce-tcb-verifier/"); i >= 0 && !strings.Contains(l, "harness") {
			return "at " + strings.TrimSpace(l[i:])
		}
	}
	return ""
}

// c12Sequential asks the model driver's view of the source (Gen.rotateSequential) is not available to
// the harness, so it determines the sequencing of rotate.Key by one experiment on the real code: a
// rotation whose signing step fails (the root key is absent) either leaves the old primary recorded
// (sequential) or records the uncertified new key as primary (all steps evaluated).
func c12Sequential() bool {
	st, _ := c12NewStack(0, 99)
	m := st.(*c12MemMem)
	t0 := c12Base.Unix()
	m.exec(c12Cmd{kind: 'b', rootCn: "r", signCn: "s", rootSerial: big.NewInt(1), signSerial: big.NewInt(2), now: t0})
	m.signer.DestroyKeyVersion("root")
	m.exec(c12Cmd{kind: 'r', signCn: "s", now: t0 + 1})
	return m.ca.PrimarySigningKey == "primarySigningKey"
}

func runC12(c *Ctx) {
	// ---- memkm.BumpName on generated names ----
	bumpIn := []string{"primarySigningKey", "primarySigningKey_1", "primarySigningKey_9", "primarySigningKey_10", "a_b_c", "a_b_c_12", "", "_", "a_",
		"a_007", "x_18446744073709551614", "x_18446744073709551615", "x_18446744073709551616", "a_-1", "a_+1", "a_1_", "a__1", "_1", "k_0", "root"}
	alphabet := "abkX019_-"
	for i := 0; i < c.N(200, 3000); i++ {
		n := c.Rng.Intn(8)
		b := make([]byte, n)
		for j := range b {
			b[j] = alphabet[c.Rng.Intn(len(alphabet))]
		}
		s := string(b)
		if c.Rng.Intn(3) == 0 {
			s += fmt.Sprintf("_%d", c.Rng.Intn(1200))
		}
		bumpIn = append(bumpIn, s)
	}
	for _, s := range bumpIn {
		out := memkm.BumpName(s)
		pieces := strings.Split(s, "_")
		numeric := len(pieces) > 1 && pieces[len(pieces)-1] != "" && strings.Trim(pieces[len(pieces)-1], "0123456789") == ""
		c.Case("c12 op=bump s="+s, out, numeric)
		c.Count("bump/numeric-suffix=" + b2s(numeric))
		if out == s {
			c.Find("c12/bumpname/not-fresh", "BumpName returned its argument", s)
		}
	}

	// ---- histories ----
	seq := c12Sequential()
	// the sequencing the extractor read from the source must be the one observed on the real code
	c.Case("c12 op=consts", "seq="+b2s(seq), false)
	c.Extra["rotate_key_sequencing_observed"] = map[bool]string{true: "sequential (stops at first error)", false: "all steps evaluated"}[seq]
	hists := c12Fixed()
	for len(hists) < c.N(25, 400) {
		hists = append(hists, c12GenHistory(c.Rng))
	}
	stacks := []int{0, 1, 2}
	if !c.Quick() {
		stacks = append(stacks, 3)
	}
	type job struct {
		h     []c12Cmd
		which int
		seed  uint64
	}
	var jobs []job
	for i, h := range hists {
		for _, w := range stacks {
			jobs = append(jobs, job{h, w, uint64(i*7+w) + c.Seed*1000003})
		}
	}
	results := make([]c12Result, len(jobs))
	var wg sync.WaitGroup
	sem := make(chan struct{}, runtime.NumCPU())
	for i := range jobs {
		wg.Add(1)
		sem <- struct{}{}
		go func(i int) {
			defer wg.Done()
			defer func() { <-sem }()
			results[i] = c12RunHistory(jobs[i].which, jobs[i].h, jobs[i].seed, seq)
		}(i)
	}
	wg.Wait()
	for _, r := range results {
		for k := range r.ops {
			c.Case(r.ops[k], r.impls[k], r.nontriv[k])
		}
		for k, v := range r.counts {
			c.Hist[k] += v
		}
		for _, f := range r.finds {
			c.Find(f.sig, f.what, f.replay)
		}
	}
	for _, h := range hists {
		c.Count(fmt.Sprintf("history-length/%d", len(h)))
	}
}
