package main

// C11 — the certificate-authority store is consistent at every crash point.
//
// A recording storage client sits under the REAL gcsca during real rotate.Bootstrap and rotate.Key runs
// (histories: bootstrap + 0..3 rotations; testing/storage and storage/local underneath). For every
// operation the object-level log (Exists probes and completed object writes, with the bytes written) is
// recorded; for EVERY prefix of the writes the prefix is replayed into a fresh store holding the
// pre-operation contents, a FRESH gcsca is put on top, and the direct oracle runs: the manifest parses,
// every entry resolves to a stored parseable certificate, a recorded primary's certificate verifies under
// the stored root (own check + the repository's sops.VerifyChain) — the self-check localca.checkCerts
// performs at start-up, strengthened by the signature check. The recorded log must be the model's log for
// the observed visiting order of the pending certificates, which must be a permutation of them.
// Repetition samples Go's map iteration orders.

import (
	"context"
	"crypto/x509"
	"fmt"
	"os"
	"strings"
	"sync"

	"github.com/google/gce-tcb-verifier/keys"
	"github.com/google/gce-tcb-verifier/rotate"
	"github.com/google/gce-tcb-verifier/sign/gcsca"
	sops "github.com/google/gce-tcb-verifier/sign/ops"
	tstorage "github.com/google/gce-tcb-verifier/testing/storage"
)

func init() {
	register("c11", "real rotate.Bootstrap / rotate.Key runs on gcsca over a recording storage client (testing/storage and "+
		"storage/local), histories of bootstrap + 0..3 rotations (thorough: up to 5), repeated to sample Go map orders, plus "+
		"rotations onto a planted leftover object with and without overwrite (and with --keep_going); every prefix of every recorded write log is "+
		"replayed into a fresh store and reloaded through a fresh authority + self-check. Non-trivial: the operation wrote "+
		"at least two objects; distinct by op line.", runC11)
}

type c11Write struct {
	obj  string
	data []byte
}

type c11Op struct {
	op, impl string
	nontriv  bool
	finds    []Finding
	counts   []string
}

// c11Consistent is the direct oracle on a set of stored objects: reload through a fresh authority.
func c11Consistent(objs map[string][]byte) (bool, string) {
	ctx := quietCtx(false)
	cp := map[string][]byte{}
	for n, b := range objs {
		cp[n] = append([]byte(nil), b...)
	}
	mock := tstorage.WithInitialContents(cp, e1Bucket)
	ca := &gcsca.CertificateAuthority{RootPath: e1RootPath, PrivateBucket: e1Bucket, SigningCertDirInGCS: e1CertDir, Storage: mock}
	if _, err := ca.PrimaryRootKeyVersion(ctx); err != nil {
		return false, "manifest unreadable: " + err.Error()
	}
	prim, err := ca.PrimarySigningKeyVersion(ctx)
	if err != nil {
		return false, "manifest unreadable: " + err.Error()
	}
	if mb, ok := objs[gcsca.ManifestObjectName]; ok {
		m, ok := parseManifest(mb)
		if !ok {
			return false, "manifest does not parse"
		}
		for _, e := range m.GetEntries() {
			b, ok := objs[e.GetObjectPath()]
			if !ok {
				return false, fmt.Sprintf("entry %s -> %s: object missing", e.GetKeyVersionName(), e.GetObjectPath())
			}
			if _, err := x509.ParseCertificate(b); err != nil {
				return false, fmt.Sprintf("entry %s -> %s: not a parseable certificate", e.GetKeyVersionName(), e.GetObjectPath())
			}
			if _, err := ca.Certificate(ctx, e.GetKeyVersionName()); err != nil {
				return false, fmt.Sprintf("Certificate(%s): %v", e.GetKeyVersionName(), err)
			}
		}
	}
	if prim != "" {
		cert, err := sops.CertificateX509(ctx, ca, prim)
		if err != nil {
			return false, fmt.Sprintf("primary %s has no certificate: %v", prim, err)
		}
		root, err := sops.IssuerCertFromBundle(ctx, ca, prim)
		if err != nil {
			return false, fmt.Sprintf("root certificate unreadable: %v", err)
		}
		if err := cert.CheckSignatureFrom(root); err != nil {
			return false, fmt.Sprintf("primary %s certificate does not verify under the stored root: %v", prim, err)
		}
		if err := sops.VerifyChain(ctx, ca, prim, baseTime.Add(3600e9)); err != nil {
			return false, fmt.Sprintf("sops.VerifyChain(%s): %v", prim, err)
		}
	}
	return true, ""
}

// c11RunOp runs one operation under recording and evaluates every prefix.
func c11RunOp(in *e1Inst, i int, border *string, overwrite bool, plant string) *c11Op {
	return c11RunOpX(in, i, border, overwrite, plant, false)
}

// c11RunOpX: with collide, the rotation is the one AFTER the i-th (i >= 1) and asks for the serial of the i-th,
// i.e. its certificate would go to the object the manifest records for the current primary.
func c11RunOpX(in *e1Inst, i int, border *string, overwrite bool, plant string, collide bool) *c11Op {
	o := &c11Op{}
	before := in.objects()
	var rec []string
	var writes []c11Write
	in.rec = &rec
	in.onW = func(obj string, data []byte) { writes = append(writes, c11Write{obj, data}) }
	kind := "rot"
	var err error
	if i == 0 {
		kind = "boot"
		_, err = runGuarded(func() error { return rotate.Bootstrap(bootstrapCtx(in.ctx(overwrite, nil))) })
	} else {
		ctx := rotateCtx(in.ctx(overwrite, nil), "sig", int64(2+i))
		_, err = runGuarded(func() error { _, e := rotate.Key(ctx); return e })
		if collide {
			kind = "collide"
		}
	}
	in.rec, in.onW = nil, nil
	// visiting order of the pending certificates, read off the recorded probes
	objToKey := map[string]string{e1CertDir + "/" + e1RootCN + "-1.crt": e1RootKey, e1CertDir + "/" + e1SignCN + "-2.crt": e1FirstKey}
	var order []string
	for _, r := range rec {
		if strings.HasPrefix(r, "e:") && r != "e:"+e1RootPath {
			obj := r[2:]
			if k, ok := objToKey[obj]; ok {
				order = append(order, k)
			} else {
				order = append(order, in.expectKey)
			}
		}
	}
	if i == 0 {
		*border = strings.Join(order, ",")
	}
	o.op = fmt.Sprintf("c11 op=fin i=%d border=%s order=%s ow=%s", i, *border, strings.Join(order, ","), b2s(overwrite))
	if plant != "" {
		o.op += " plant=" + plant
	}
	if collide {
		o.op += " coll=1"
	}
	replay := o.op + " log=" + strings.Join(rec, ",")
	// permutation check (pending certificates: bootstrap root+first key; rotation the new key)
	want := map[string]bool{in.expectKey: true}
	if i == 0 {
		want = map[string]bool{e1RootKey: true, e1FirstKey: true}
	}
	perm := len(order) == len(want)
	for _, k := range order {
		if !want[k] {
			perm = false
		}
		delete(want, k)
	}
	// every prefix
	var cons strings.Builder
	cur := map[string][]byte{}
	for n, b := range before {
		cur[n] = b
	}
	manifestAt := -1
	for k := 0; k <= len(writes); k++ {
		if k > 0 {
			w := writes[k-1]
			cur[w.obj] = w.data
			if w.obj == gcsca.ManifestObjectName {
				manifestAt = k - 1
			}
		}
		ok, why := c11Consistent(cur)
		cons.WriteString(b2s(ok))
		if !ok {
			cls := "before-manifest-write"
			if manifestAt >= 0 {
				cls = "after-manifest-write"
			}
			o.finds = append(o.finds, Finding{"c11/" + kind + "/prefix-inconsistent/" + cls,
				fmt.Sprintf("after %d of %d object writes the store does not reload consistently: %s", k, len(writes), why),
				fmt.Sprintf("%s k=%d", replay, k)})
		}
	}
	// manifest last; entries only with their upload
	if manifestAt >= 0 && manifestAt != len(writes)-1 {
		o.finds = append(o.finds, Finding{"c11/" + kind + "/manifest-not-last",
			"the manifest was written before another object of the same Finalize", replay})
	}
	if manifestAt >= 0 {
		old := map[string]bool{}
		if mb, ok := before[gcsca.ManifestObjectName]; ok {
			if m, ok := parseManifest(mb); ok {
				for _, e := range m.GetEntries() {
					old[e.GetKeyVersionName()+">"+e.GetObjectPath()] = true
				}
			}
		}
		written := map[string]bool{}
		for _, w := range writes[:manifestAt] {
			written[w.obj] = true
		}
		if m, ok := parseManifest(writes[manifestAt].data); ok {
			for _, e := range m.GetEntries() {
				if !old[e.GetKeyVersionName()+">"+e.GetObjectPath()] && !written[e.GetObjectPath()] {
					o.finds = append(o.finds, Finding{"c11/" + kind + "/entry-without-upload",
						fmt.Sprintf("manifest entry %s -> %s was added without an earlier write of its object", e.GetKeyVersionName(), e.GetObjectPath()), replay})
				}
			}
		}
	}
	man := "none"
	if mb, ok := cur[gcsca.ManifestObjectName]; ok {
		man = "bad"
		if m, ok := parseManifest(mb); ok {
			var ents []string
			for _, e := range m.GetEntries() {
				ents = append(ents, e.GetKeyVersionName()+">"+e.GetObjectPath())
			}
			man = m.GetPrimaryRootKeyVersionName() + "|" + m.GetPrimarySigningKeyVersionName() + "|" + strings.Join(ents, ",")
		}
	}
	o.impl = fmt.Sprintf("perm=%s log=%s cons=%s man=%s agree=1", b2s(perm), strings.Join(rec, ","), cons.String(), man)
	o.nontriv = len(writes) >= 2
	res := "ok"
	if err != nil {
		res = "err"
	}
	o.counts = append(o.counts, kind+"/"+res, fmt.Sprintf("%s/writes%d", kind, len(writes)), "storage/"+in.ca, "keep_going/"+b2s(in.keepGoing))
	if i == 0 {
		o.counts = append(o.counts, "boot-order/"+*border)
	}
	if plant != "" {
		o.counts = append(o.counts, "planted/ow"+b2s(overwrite)+"/kg"+b2s(in.keepGoing)+"/"+res)
	}
	if collide {
		o.counts = append(o.counts, "collide/ow"+b2s(overwrite)+"/kg"+b2s(in.keepGoing)+"/"+res)
		// the refusal stated on the implementation alone: no storage probe or write, and no success
		if len(rec) != 0 || err == nil {
			o.finds = append(o.finds, Finding{"c11/collide/object-of-another-key-version-not-refused",
				fmt.Sprintf("a rotation whose certificate object is recorded for the current primary reached storage or succeeded (err=%v)", err), replay})
		}
	}
	return o
}

func c11History(ca string, n int, seed uint64, withPlant, keepGoing, withCollide bool) []*c11Op {
	dir, err := os.MkdirTemp("", "verif-c11-")
	must(err)
	defer os.RemoveAll(dir)
	rng := &Rng{s: seed}
	in := newInst("memkm", ca, &e1Snap{}, dir, rng)
	in.keepGoing = keepGoing
	var ops []*c11Op
	border := ""
	key := e1FirstKey
	for i := 0; i <= n; i++ {
		if i > 0 {
			key = memkmBump(key)
		}
		in.expectKey = key
		ops = append(ops, c11RunOp(in, i, &border, false, ""))
	}
	if withPlant {
		// a leftover object at the next certificate's name: refused without overwrite, replaced with it
		next := memkmBump(key)
		in.expectKey = next
		obj := fmt.Sprintf("%s/sig-%d.crt", e1CertDir, 2+n+1)
		src := in.objects()[e1CertDir+"/"+e1SignCN+"-2.crt"]
		ctx := context.Background()
		if in.ca == "gcsmem" || in.ca == "gcslocal" {
			w, err := in.store.Writer(ctx, e1Bucket, obj)
			must(err)
			_, err = w.Write(src)
			must(err)
			must(w.Close())
		}
		ops = append(ops, c11RunOp(in, n+1, &border, false, obj))
		ops = append(ops, c11RunOp(in, n+1, &border, true, obj))
	}
	if withCollide && !withPlant && n >= 1 {
		// the next rotation asks for the current primary's own serial: its certificate object is recorded for
		// another key version and gcsca.upload refuses it before any storage call, with and without overwrite
		in.expectKey = memkmBump(key)
		ops = append(ops, c11RunOpX(in, n, &border, false, "", true))
		ops = append(ops, c11RunOpX(in, n, &border, true, "", true))
	}
	_ = keys.ErrNoContext
	return ops
}

func runC11(c *Ctx) {
	c11SameAuthority(c)
	type job struct {
		ca    string
		n     int
		seed  uint64
		plant bool
		keep  bool
		coll  bool
		out   []*c11Op
	}
	var jobs []*job
	reps := c.N(16, 60)
	maxN := c.N(3, 6)
	for _, ca := range []string{"gcsmem", "gcslocal"} {
		for r := 0; r < reps; r++ {
			jobs = append(jobs, &job{ca: ca, n: r % (maxN + 1), seed: c.Rng.Next(), plant: r%3 == 0, keep: r%4 == 1, coll: r%3 != 0})
		}
	}
	var wg sync.WaitGroup
	ch := make(chan *job)
	for w := 0; w < 8; w++ {
		wg.Add(1)
		go func() {
			defer wg.Done()
			for j := range ch {
				// planted leftovers also under --keep_going: since gcsca.upload's second "fix:" commit an existing
				// object that --keep_going leaves unwritten is refused like without the flag (it used to be
				// recorded without an upload — the general form of finding C12-K5)
				j.out = c11History(j.ca, j.n, j.seed, j.plant, j.keep, j.coll)
			}
		}()
	}
	for _, j := range jobs {
		ch <- j
	}
	close(ch)
	wg.Wait()
	for _, j := range jobs {
		c.Count(fmt.Sprintf("history/rotations%d", j.n))
		for _, o := range j.out {
			c.Case(o.op, o.impl, o.nontriv)
			for _, k := range o.counts {
				c.Count(k)
			}
			for _, fd := range o.finds {
				c.Find(fd.Sig, fd.What, fd.Replay)
			}
		}
	}
}
