package main

// Stream c17cli — C17 at the command line: `gcetcbendorsement sev policy` / `tdx policy` with `--base FILE`,
// `--overwrite`, `--launch_vmsas` / `--allow_unspecified_vmsas` / `--ram_gib`, `--out`, `--outform`, against an
// in-memory file system with write capture.  Every command line goes through the Lean model of the command line
// (Model/RpCli.lean, view p: the options record of the wiring handed to Model/Policy.lean, then the output step);
// compared: result class, the path created, the FORM of what was written and the policy decoded from it field by field.
//
// Direct oracle (on the implementation alone): no file other than the --out destination is created or changed — in
// particular the --base file holds the same bytes afterwards; a refused command line creates nothing; without
// --overwrite every value set in the base survives in the written policy (guest policy, measurement, minimum SVN, MRTD
// allow-list; key lists only grow) and unrelated fields are carried over; what is written decodes in the form the
// command line names; and the command writes what the library returns for the options the command line names.

import (
	"fmt"
	"strings"

	"github.com/google/gce-tcb-verifier/gcetcbendorsement"
	epb "github.com/google/gce-tcb-verifier/proto/endorsement"
	cpb "github.com/google/go-sev-guest/proto/check"
	tcpb "github.com/google/go-tdx-guest/proto/checkconfig"
	"google.golang.org/protobuf/encoding/prototext"
	"google.golang.org/protobuf/proto"
)

func init() {
	register("c17cli", "real cobra commands `sev policy` / `tdx policy` against in-memory files with write capture, every command line compared with the Lean model of "+
		"the command line: base {none, empty file, agreeing, conflicting measurement / guest policy / minimum SVN / MRTD list, its own textproto rendering, junk, "+
		"missing} x --overwrite {absent, bare, =false} x --launch_vmsas / --ram_gib {absent, listed, unlisted, malformed} x --allow_unspecified_vmsas x --outform "+
		"{absent, textproto, bin, hex, base64, auto, unknown} x --out {absent, a new file, the base file itself} x terminal / not, failing Create / Write, "+
		"endorsements {table with CA bundle, no section, junk payload, junk container}, every flag name on both commands (scope), then a random stream as c17. "+
		"Non-trivial: a base policy file is named and the command line reaches the library call; distinct by op line.", runC17CLI)
}

type rpP struct {
	c    *Ctx
	dflt uint64
}

// rpNamedForm: the output form the command line names, by the flag's usage text: "textproto|bin|hex|base64|auto …
// Auto means the default is textproto if writing to a terminal, otherwise bin."
func rpNamedForm(cs *rpCase, outPath string) string {
	f, ok := cs.last("outform")
	if !ok {
		f = "auto"
	}
	switch f {
	case "textproto":
		return "text"
	case "bin":
		return "raw"
	case "hex", "base64":
		return f
	case "auto":
		if cs.term[outPath] {
			return "text"
		}
		return "raw"
	}
	return "invalid"
}

func rpOutPath(cs *rpCase) string {
	if p, ok := cs.last("out"); ok {
		return p
	}
	return "-"
}

type rpPolicyVariant struct {
	outform string // "" = absent
	out     string // "" = absent
	term    bool
}

func rpOutVariants() []rpPolicyVariant {
	var l []rpPolicyVariant
	for _, f := range []string{"", "textproto", "bin", "hex", "base64", "auto", "yaml"} {
		for _, o := range []string{"", "p.out", "base"} {
			for _, t := range []bool{false, true} {
				l = append(l, rpPolicyVariant{f, o, t})
			}
		}
	}
	return l
}

func (pv rpPolicyVariant) apply(cs *rpCase) {
	if pv.outform != "" {
		cs.flag("outform", pv.outform)
	}
	if pv.out != "" {
		cs.flag("out", pv.out)
	}
	if pv.term {
		cs.term = map[string]bool{rpOutPath(cs): true}
	}
}

// sevCase: baseBytes nil = no --base flag; baseMissing = the flag names a file that does not exist.
func (p *rpP) sevCase(golden *epb.VMGoldenMeasurement, rawPayload []byte, container []byte, baseBytes []byte, baseMissing bool, owMode int, vmsas []string,
	allow bool, pv rpPolicyVariant, fail string, k int, tag string) {
	c := p.c
	ctx := quietCtx(false)
	snp := golden.GetSevSnp()
	payload := rawPayload
	if payload == nil {
		payload, _ = proto.Marshal(golden)
	}
	end := &epb.VMLaunchEndorsement{SerializedUefiGolden: payload}
	cs := &rpCase{cmd: "sev policy", args: []string{"endorsement"}, getterNil: true, getterTok: "-", tag: tag}
	gbad := false
	if container != nil {
		cs.put("endorsement", "G", container)
		end = nil
	} else {
		eb, _ := proto.Marshal(end)
		cs.put("endorsement", "E0", eb)
		gbad = proto.Unmarshal(payload, &epb.VMGoldenMeasurement{}) != nil
	}
	var base *cpb.Policy
	baseTok := "-"
	if baseBytes != nil || baseMissing {
		cs.flag("base", "base")
		if !baseMissing {
			base = &cpb.Policy{}
			switch {
			case proto.Unmarshal(baseBytes, base) != nil:
				base, baseTok = nil, "X"
			case len(baseBytes) == 0:
				baseTok = "Z"
			default:
				baseTok = "B0"
			}
			cs.put("base", baseTok, baseBytes)
		}
	}
	rpOwFlag(cs, owMode)
	for _, t := range vmsas {
		cs.flag("launch_vmsas", t)
	}
	if allow {
		cs.boolFlag("allow_unspecified_vmsas")
	}
	pv.apply(cs)
	out := rpOutPath(cs)
	switch fail {
	case "create":
		cs.createFail = map[string]bool{out: true}
	case "write":
		cs.writeFail = map[string]bool{out: true}
	}
	rpPlace(cs, k)
	extra := fmt.Sprintf(" ne=1 e0.ser=%s gbad0=%s g0=%s pem=%s dflt=%d bp0=%s", b2s(end != nil), b2s(gbad), sevLine(snp), pemFacts(snp.GetCaBundle()), p.dflt, sevPolicyLine(base))
	res := rpRun(cs)
	line := cs.line("p", extra)
	var written *cpb.Policy
	form := ""
	eff := rpEffects(cs, res, func(path string, content []byte) string {
		w := &cpb.Policy{}
		f, ok := rpDecodeOut(content, w)
		if !ok {
			return "sev/undecodable"
		}
		written, form = w, f
		return rpSevPolicyShow(f, w)
	})
	c.Case(line, "res="+res.res+" eff="+eff, (baseBytes != nil) && (res.res == "accept" || res.res == "reject:lib"))
	c.Count("sev-policy/" + tag + "/" + res.res)
	if form != "" {
		c.Count("sev-policy/form/" + form)
	}

	// ---- direct oracle ----
	find := func(clause, what string) {
		c.Find("c17cli/sev-policy/"+clause, what+": "+strings.Join(res.argv, " "), line)
	}
	p.commonOracle(cs, res, find, out, baseBytes)
	if res.res != "accept" {
		return
	}
	if written == nil {
		find("output-undecodable", "the policy written does not decode in any of the documented forms")
		return
	}
	if nf := rpNamedForm(cs, out); nf != form {
		find("outform", "the policy is written as "+form+", the command line names "+nf)
	}
	ow := cs.boolVal("overwrite")
	named, _ := rpNamedU32(cs, "launch_vmsas")
	// the command writes what the library returns for the options the command line names
	var lib *cpb.Policy
	var lerr error
	Guard(func() {
		lib, lerr = gcetcbendorsement.SevPolicy(ctx, end, &gcetcbendorsement.SevPolicyOptions{Base: base, Overwrite: ow, LaunchVmsas: named, AllowUnspecifiedVmsas: allow})
	})
	if lerr != nil || lib == nil || !proto.Equal(lib, written) {
		find("cli-library-disagree", "the policy written is not what SevPolicy returns for the options the command line names")
	}
	eff0 := base
	if eff0 == nil {
		eff0 = &cpb.Policy{MinimumVersion: "0.0", Policy: p.dflt}
	}
	if !proto.Equal(clearSevModelled(written), clearSevModelled(eff0)) {
		find("rest-changed", "a base field unrelated to the endorsement differs in the written policy")
	}
	if !ow && base != nil {
		if base.Policy != 0 && written.Policy != base.Policy {
			find("weaken-policy", "guest policy bits of the --base file replaced without --overwrite")
		}
		if len(base.Measurement) != 0 && string(written.Measurement) != string(base.Measurement) {
			find("weaken-measurement", "measurement of the --base file replaced without --overwrite")
		}
		if base.MinimumGuestSvn != 0 && (written.MinimumGuestSvn != base.MinimumGuestSvn || snp.GetSvn() < base.MinimumGuestSvn) {
			find("weaken-svn", "minimum SVN of the --base file not respected without --overwrite")
		}
	}
	if !isPrefix(eff0.TrustedIdKeys, written.TrustedIdKeys) || !isPrefix(eff0.TrustedAuthorKeys, written.TrustedAuthorKeys) {
		find("keys-dropped", "a trusted key of the --base file is missing from the written policy")
	}
	if named != 0 && string(written.Measurement) != string(snp.GetMeasurements()[named]) {
		find("measurement-not-endorsed", "the written measurement is not the endorsement's for the count named on the command line")
	}
}

// commonOracle: file-system clauses shared by both policy commands.
func (p *rpP) commonOracle(cs *rpCase, res rpResult, find func(clause, what string), out string, baseBytes []byte) {
	if res.res == "panic" {
		find("panic", "the command panicked")
	}
	if path, ok := rpUntouched(cs, res); !ok {
		find("file-changed", "the command changed the file "+path+", which is not its --out destination")
	}
	for _, cp := range res.created {
		if cp != out {
			find("created-elsewhere", "the command created "+cp+", which is not its --out destination "+out)
		}
	}
	if baseBytes != nil && out != "base" {
		if after, ok := res.after["base"]; !ok || string(after) != string(baseBytes) {
			find("base-file-modified", "the --base file does not hold the same bytes after the run")
		}
	}
	if res.res != "accept" && res.res != "reject:write" && len(res.created) > 0 {
		find("refused-after-effect", "a refused command line ("+res.res+") created "+strings.Join(res.created, ","))
	}
	if res.res == "accept" && len(res.created) != 1 && !cs.boolVal("help") {
		find("created-count", fmt.Sprintf("a successful run created %d files", len(res.created)))
	}
}

func (p *rpP) tdxCase(golden *epb.VMGoldenMeasurement, baseBytes []byte, baseMissing bool, owMode int, ram []string, pv rpPolicyVariant, fail string, k int, tag string) {
	c := p.c
	ctx := quietCtx(false)
	tdx := golden.GetTdx()
	payload, _ := proto.Marshal(golden)
	end := &epb.VMLaunchEndorsement{SerializedUefiGolden: payload}
	eb, _ := proto.Marshal(end)
	cs := &rpCase{cmd: "tdx policy", args: []string{"endorsement"}, getterNil: true, getterTok: "-", tag: tag}
	cs.put("endorsement", "E0", eb)
	var base *tcpb.Policy
	if baseBytes != nil || baseMissing {
		cs.flag("base", "base")
		if !baseMissing {
			base = &tcpb.Policy{}
			tokn := "B0"
			switch {
			case proto.Unmarshal(baseBytes, base) != nil:
				base, tokn = nil, "X"
			case len(baseBytes) == 0:
				tokn = "Z"
			}
			cs.put("base", tokn, baseBytes)
		}
	}
	rpOwFlag(cs, owMode)
	for _, t := range ram {
		cs.flag("ram_gib", t)
	}
	pv.apply(cs)
	out := rpOutPath(cs)
	switch fail {
	case "create":
		cs.createFail = map[string]bool{out: true}
	case "write":
		cs.writeFail = map[string]bool{out: true}
	}
	rpPlace(cs, k)
	bl := tdxBaseLine(base)
	if base == nil {
		bl = "garbage"
	}
	extra := fmt.Sprintf(" ne=1 e0.ser=1 gbad0=0 rows0=%s bp0=%s", rowsLine(tdx), bl)
	res := rpRun(cs)
	line := cs.line("p", extra)
	var written *tcpb.Policy
	form := ""
	eff := rpEffects(cs, res, func(path string, content []byte) string {
		w := &tcpb.Policy{}
		f, ok := rpDecodeOut(content, w)
		if !ok {
			return "tdx/undecodable"
		}
		written, form = w, f
		return rpTdxPolicyShow(f, w)
	})
	c.Case(line, "res="+res.res+" eff="+eff, (baseBytes != nil) && (res.res == "accept" || res.res == "reject:lib"))
	c.Count("tdx-policy/" + tag + "/" + res.res)
	if form != "" {
		c.Count("tdx-policy/form/" + form)
	}
	find := func(clause, what string) {
		c.Find("c17cli/tdx-policy/"+clause, what+": "+strings.Join(res.argv, " "), line)
	}
	p.commonOracle(cs, res, find, out, baseBytes)
	if res.res != "accept" {
		return
	}
	if written == nil {
		find("output-undecodable", "the policy written does not decode in any of the documented forms")
		return
	}
	if nf := rpNamedForm(cs, out); nf != form {
		find("outform", "the policy is written as "+form+", the command line names "+nf)
	}
	ow := cs.boolVal("overwrite")
	named, _ := rpNamedInt(cs, "ram_gib")
	var lib *tcpb.Policy
	var lerr error
	Guard(func() {
		lib, lerr = gcetcbendorsement.TdxPolicy(ctx, end, &gcetcbendorsement.TdxPolicyOptions{Base: base, Overwrite: ow, RAMGiB: named})
	})
	if lerr != nil || lib == nil || !proto.Equal(lib, written) {
		find("cli-library-disagree", "the policy written is not what TdxPolicy returns for the options the command line names")
	}
	eff0 := base
	if eff0 == nil {
		eff0 = &tcpb.Policy{}
	}
	clr := func(x *tcpb.Policy) *tcpb.Policy {
		q := proto.Clone(x).(*tcpb.Policy)
		if q.TdQuoteBodyPolicy == nil {
			q.TdQuoteBodyPolicy = &tcpb.TDQuoteBodyPolicy{}
		}
		q.TdQuoteBodyPolicy.AnyMrTd = nil
		return q
	}
	if !proto.Equal(clr(written), clr(eff0)) {
		find("rest-changed", "a base field unrelated to the endorsement differs in the written policy")
	}
	if !ow && len(eff0.GetTdQuoteBodyPolicy().GetAnyMrTd()) != 0 {
		find("weaken-mrtd", "the MRTD allow-list of the --base file replaced without --overwrite")
	}
	var want [][]byte
	for _, m := range tdx.GetMeasurements() {
		if named == 0 || m.RamGib == uint32(named) {
			want = append(want, m.Mrtd)
		}
	}
	if hexList(want) != hexList(written.GetTdQuoteBodyPolicy().GetAnyMrTd()) {
		find("mrtd-not-endorsed", "the written allow-list is not the endorsement's MRTDs for the size named on the command line")
	}
}

func runC17CLI(c *Ctx) {
	ctx := quietCtx(false)
	r := c.Rng
	p := &rpP{c: c}
	{
		gb, _ := proto.Marshal(&epb.VMGoldenMeasurement{SevSnp: &epb.VMSevSnp{}})
		if q, err := gcetcbendorsement.SevPolicy(ctx, &epb.VMLaunchEndorsement{SerializedUefiGolden: gb},
			&gcetcbendorsement.SevPolicyOptions{Overwrite: true, AllowUnspecifiedVmsas: true}); err == nil {
			p.dflt = q.Policy
		}
	}
	c.Extra["default_guest_policy"] = p.dflt
	k := 0
	next := func() int { k++; return k }
	outs := rpOutVariants()
	vi := 0
	nextOut := func() rpPolicyVariant { vi++; return outs[vi%len(outs)] }
	marshal := func(m proto.Message) []byte {
		b, err := proto.Marshal(m)
		if err != nil {
			panic(err)
		}
		if b == nil {
			b = []byte{}
		}
		return b
	}

	// ---- SEV-SNP, small scope ----
	m1, m4, m8 := measPool(1), measPool(2), measPool(3)
	bundle := genBundleOne()
	table := &epb.VMSevSnp{Policy: 0x30000, Svn: 5, Measurements: map[uint32][]byte{1: m1, 4: m4, 8: m8}, CaBundle: bundle}
	golden := &epb.VMGoldenMeasurement{SevSnp: table, Digest: []byte{1, 2, 3}}
	agreeing := &cpb.Policy{MinimumVersion: "1.2", Policy: 0x30000, Measurement: m4, MinimumGuestSvn: 3, TrustedIdKeys: [][]byte{{9, 9}}, MinimumBuild: 4}
	text, _ := prototext.MarshalOptions{Multiline: true, Indent: "  "}.Marshal(agreeing)
	type bv struct {
		name    string
		bytes   []byte
		missing bool
	}
	bases := []bv{
		{"none", nil, false},
		{"empty", []byte{}, false},
		{"agreeing", marshal(agreeing), false},
		{"conflict-measurement", marshal(&cpb.Policy{MinimumVersion: "1.2", Policy: 0x30000, Measurement: m8}), false},
		{"conflict-policy", marshal(&cpb.Policy{MinimumVersion: "1.2", Policy: 0x70000}), false},
		{"minsvn-too-high", marshal(&cpb.Policy{Policy: 0x30000, MinimumGuestSvn: 6}), false},
		{"textproto", text, false},
		{"junk", []byte{0xff, 0xff, 0xff, 0x01}, false},
		{"missing", nil, true},
	}
	vmsasChoices := [][]string{nil, {"4"}, {"16"}, {"0"}}
	full := !c.Quick()
	for _, b := range bases {
		for ow := 0; ow < 3; ow++ {
			for _, vm := range vmsasChoices {
				for _, allow := range []bool{false, true} {
					if full {
						for _, pv := range outs {
							p.sevCase(golden, nil, nil, b.bytes, b.missing, ow, vm, allow, pv, "", next(), "base-"+b.name)
						}
					} else {
						p.sevCase(golden, nil, nil, b.bytes, b.missing, ow, vm, allow, nextOut(), "", next(), "base-"+b.name)
						p.sevCase(golden, nil, nil, b.bytes, b.missing, ow, vm, allow, nextOut(), "", next(), "base-"+b.name)
					}
				}
			}
		}
	}
	// every output variant on the agreeing and the conflicting base; failing Create / Write
	for _, pv := range outs {
		for _, bi := range []int{0, 2, 3} {
			p.sevCase(golden, nil, nil, bases[bi].bytes, false, 0, []string{"4"}, false, pv, "", next(), "out-variants")
			p.sevCase(golden, nil, nil, bases[bi].bytes, false, 1, []string{"4"}, false, pv, "", next(), "out-variants")
		}
		for _, fail := range []string{"create", "write"} {
			p.sevCase(golden, nil, nil, bases[2].bytes, false, 0, []string{"4"}, false, pv, fail, next(), "io-failure")
		}
	}
	// malformed configuration, endorsement variants
	for _, vm := range [][]string{{"4294967296"}, {"-4"}, {"x"}, {"8", "4"}, {"0x4"}} {
		p.sevCase(golden, nil, nil, bases[2].bytes, false, 0, vm, false, nextOut(), "", next(), "config")
	}
	for _, pv := range outs[:6] {
		p.sevCase(&epb.VMGoldenMeasurement{Digest: []byte{7}}, nil, nil, bases[2].bytes, false, 0, []string{"4"}, false, pv, "", next(), "endorsement-no-section")
		p.sevCase(golden, []byte{0xff, 0xff}, nil, bases[2].bytes, false, 0, []string{"4"}, false, pv, "", next(), "endorsement-junk-payload")
		p.sevCase(golden, nil, []byte{0xff, 0xff, 0xff, 0x07}, bases[2].bytes, false, 0, []string{"4"}, false, pv, "", next(), "endorsement-junk-container")
	}

	// ---- TDX, small scope ----
	ra, rb, rc2 := measPool(1), measPool(2), measPool(3)
	tg := &epb.VMGoldenMeasurement{Tdx: &epb.VMTdx{Svn: 1, Measurements: []*epb.VMTdx_Measurement{{RamGib: 16, Mrtd: ra}, {RamGib: 32, Mrtd: rb}, {RamGib: 32, EarlyAccept: true, Mrtd: rc2}}}}
	tbody := &tcpb.Policy{TdQuoteBodyPolicy: &tcpb.TDQuoteBodyPolicy{MinimumTeeTcbSvn: make([]byte, 16)}, HeaderPolicy: &tcpb.HeaderPolicy{MinimumQeSvn: 2}}
	ttext, _ := prototext.Marshal(tbody)
	tbases := []bv{
		{"none", nil, false},
		{"empty", []byte{}, false},
		{"no-body", marshal(&tcpb.Policy{HeaderPolicy: &tcpb.HeaderPolicy{MinimumQeSvn: 2}}), false},
		{"body-no-list", marshal(tbody), false},
		{"body-agreeing-list", marshal(&tcpb.Policy{TdQuoteBodyPolicy: &tcpb.TDQuoteBodyPolicy{AnyMrTd: [][]byte{rb, rc2}}}), false},
		{"body-other-list", marshal(&tcpb.Policy{TdQuoteBodyPolicy: &tcpb.TDQuoteBodyPolicy{AnyMrTd: [][]byte{measPool(7)}}}), false},
		{"textproto", ttext, false},
		{"junk", []byte{0xff, 0xff, 0xff, 0x01}, false},
		{"missing", nil, true},
	}
	ramChoices := [][]string{nil, {"32"}, {"128"}, {"0"}, {"-1"}, {"4294967312"}, {"x"}, {"9223372036854775808"}}
	for _, b := range tbases {
		for ow := 0; ow < 3; ow++ {
			for _, rm := range ramChoices {
				if full {
					for _, pv := range outs {
						p.tdxCase(tg, b.bytes, b.missing, ow, rm, pv, "", next(), "base-"+b.name)
					}
				} else {
					p.tdxCase(tg, b.bytes, b.missing, ow, rm, nextOut(), "", next(), "base-"+b.name)
				}
			}
		}
	}
	for _, pv := range outs {
		p.tdxCase(tg, tbases[4].bytes, false, 1, []string{"32"}, pv, "", next(), "out-variants")
		p.tdxCase(tg, tbases[3].bytes, false, 0, []string{"32"}, pv, "", next(), "out-variants")
		for _, fail := range []string{"create", "write"} {
			p.tdxCase(tg, tbases[3].bytes, false, 0, []string{"32"}, pv, fail, next(), "io-failure")
		}
	}
	p.tdxCase(&epb.VMGoldenMeasurement{Digest: []byte{7}}, tbases[3].bytes, false, 0, nil, outs[0], "", next(), "endorsement-no-section")

	// ---- scope: every flag name of the tool on both policy commands; argument counts ----
	for _, cmd := range []string{"sev policy", "tdx policy"} {
		for _, fl := range rpAllFlags {
			cs := &rpCase{cmd: cmd, args: []string{"endorsement"}, getterNil: true, getterTok: "-", tag: "scope"}
			var payload []byte
			if cmd == "sev policy" {
				payload, _ = proto.Marshal(golden)
			} else {
				payload, _ = proto.Marshal(tg)
			}
			eb, _ := proto.Marshal(&epb.VMLaunchEndorsement{SerializedUefiGolden: payload})
			cs.put("endorsement", "E0", eb)
			if fl.name == "base" {
				cs.put("base", "Z", []byte{})
			}
			if cmd == "sev policy" && fl.name != "launch_vmsas" {
				cs.flag("launch_vmsas", "4")
			}
			if fl.isBool {
				cs.boolFlag(fl.name)
			} else {
				cs.flag(fl.name, fl.sample)
			}
			p.scopeCase(cs, golden, tg)
		}
		for _, args := range [][]string{nil, {"endorsement", "x"}, {"nosuchfile"}} {
			cs := &rpCase{cmd: cmd, args: args, getterNil: true, getterTok: "-", tag: "args"}
			payload, _ := proto.Marshal(golden)
			eb, _ := proto.Marshal(&epb.VMLaunchEndorsement{SerializedUefiGolden: payload})
			cs.put("endorsement", "E0", eb)
			p.scopeCase(cs, golden, tg)
		}
	}

	// ---- random stream (generators of stream c17) ----
	n := c.N(400, 8000)
	for i := 0; i < n; i++ {
		var g *epb.VMGoldenMeasurement
		var snp *epb.VMSevSnp
		if r.Intn(12) == 0 {
			g = &epb.VMGoldenMeasurement{Digest: r.Bytes(4)}
		} else {
			snp = genSevSnp(r)
			if snp.Policy == 0 {
				snp.Policy = 0x30000 // an all-zero policy is written as zero bytes, whose form cannot be told
			}
			g = &epb.VMGoldenMeasurement{SevSnp: snp}
		}
		var bb []byte
		if r.Intn(5) != 0 {
			base := &cpb.Policy{}
			randFill(r, base.ProtoReflect(), sevModelled, 1)
			if snp != nil {
				base.Policy = []uint64{0, snp.Policy, snp.Policy, snp.Policy, 0x30000}[r.Intn(5)]
			}
			switch r.Intn(6) {
			case 1:
				base.Measurement = measPool(r.Intn(4))
			case 2, 3:
				if snp != nil {
					for _, kk := range sortedKeys(snp.Measurements) {
						base.Measurement = snp.Measurements[kk]
						if r.Bool() {
							break
						}
					}
				}
			}
			base.MinimumGuestSvn = uint32([]int{0, 0, 1, 5, 6}[r.Intn(5)])
			for j := r.Intn(3); j > 0; j-- {
				base.TrustedIdKeys = append(base.TrustedIdKeys, r.Bytes(3))
			}
			bb = marshal(base)
		}
		vm := []string{fmt.Sprint([]int{0, 0, 1, 4, 8, 16, 32}[r.Intn(7)])}
		if snp != nil && len(snp.Measurements) > 0 && r.Bool() {
			ks := sortedKeys(snp.Measurements)
			vm = []string{fmt.Sprint(ks[r.Intn(len(ks))])}
		}
		if r.Intn(5) == 0 {
			vm = nil
		}
		p.sevCase(g, nil, nil, bb, false, []int{0, 0, 1, 2, 3}[r.Intn(5)], vm, r.Intn(5) != 0, outs[r.Intn(len(outs))], "", next(), "random")

		tgr := &epb.VMGoldenMeasurement{}
		if r.Intn(12) != 0 {
			tgr.Tdx = &epb.VMTdx{Svn: 1, Measurements: genRows(r)}
		}
		var tb []byte
		if r.Intn(4) != 0 {
			base := &tcpb.Policy{}
			randFill(r, base.ProtoReflect(), map[string]bool{"any_mr_td": true}, 2)
			if base.TdQuoteBodyPolicy != nil && r.Intn(3) == 0 {
				for j := 1 + r.Intn(2); j > 0; j-- {
					base.TdQuoteBodyPolicy.AnyMrTd = append(base.TdQuoteBodyPolicy.AnyMrTd, measPool(r.Intn(6)))
				}
			}
			tb = marshal(base)
		}
		ram := []int{0, 0, 16, 32, 64, 128, -1, 1<<32 + 16}[r.Intn(8)]
		if ms := tgr.Tdx.GetMeasurements(); len(ms) > 0 && r.Bool() {
			ram = int(ms[r.Intn(len(ms))].RamGib)
		}
		var rt []string
		if ram != 0 || r.Bool() {
			rt = []string{fmt.Sprint(ram)}
		}
		p.tdxCase(tgr, tb, false, []int{0, 0, 1, 2, 3}[r.Intn(5)], rt, outs[r.Intn(len(outs))], "", next(), "random")
	}
}

// scopeCase: a command line whose interest is only whether cobra accepts its flags.
func (p *rpP) scopeCase(cs *rpCase, golden, tg *epb.VMGoldenMeasurement) {
	c := p.c
	extra := fmt.Sprintf(" ne=1 e0.ser=1 gbad0=0 g0=%s rows0=%s pem=%s dflt=%d bp0=none", sevLine(golden.GetSevSnp()), rowsLine(tg.GetTdx()), pemFacts(golden.GetSevSnp().GetCaBundle()), p.dflt)
	res := rpRun(cs)
	line := cs.line("p", extra)
	eff := rpEffects(cs, res, func(path string, content []byte) string {
		if cs.cmd == "sev policy" {
			w := &cpb.Policy{}
			if f, ok := rpDecodeOut(content, w); ok {
				return rpSevPolicyShow(f, w)
			}
			return "sev/undecodable"
		}
		w := &tcpb.Policy{}
		if f, ok := rpDecodeOut(content, w); ok {
			return rpTdxPolicyShow(f, w)
		}
		return "tdx/undecodable"
	})
	c.Case(line, "res="+res.res+" eff="+eff, false)
	c.Count(tok(cs.cmd) + "/" + cs.tag + "/" + res.res)
	find := func(clause, what string) {
		c.Find("c17cli/"+tok(cs.cmd)+"/"+clause, what+": "+strings.Join(res.argv, " "), line)
	}
	p.commonOracle(cs, res, find, rpOutPath(cs), nil)
}

// genBundleOne: a CA bundle of one CERTIFICATE block.
func genBundleOne() []byte {
	return []byte("-----BEGIN CERTIFICATE-----\nAQIDBAU=\n-----END CERTIFICATE-----\n")
}
