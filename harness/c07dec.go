package main

// Stream c07dec — the verifier-glue half of C07 "relying-party decoders are total on untrusted bytes".
//
// Every case is one byte string.  It is offered, in every role an untrusted peer can fill (serialized
// endorsement, certificate-table entry, attestation / quote, certificate table, endorsement file of the
// CLI), to every entry point in scope on the REAL code, each evaluation under recover, a 2 s deadline
// and an allocation meter (runtime.MemStats.TotalAlloc delta, limit 64·|input| + 1 MiB).
//
// Direct oracle (implementation alone): panic / timeout / over-allocation of any entry point is a
// finding; the replay is the input in hex, the signature names the entry point, the violated clause and
// the top repository frame of the panic stack.
//
// Correspondence: for every evaluation the parse-shape facts (which optional fields are present,
// lengths, what the third-party parsers / validators answered) are computed by the harness without the
// code under test and written on the protocol line; the Lean model (Model/DecTotal.lean) instantiated
// with them must give the same outcome class and the same decoded values.
//
// The stream runs its cases in worker processes (the allocation meter is process-wide, and a fatal
// error of the runtime — stack exhaustion, out of memory — must not take the stream down); the parent
// merges the results in case order, so the output is deterministic for a seed.

import (
	"bufio"
	"encoding/json"
	"fmt"
	"os"
	"os/exec"
	"path/filepath"
	"reflect"
	"runtime"
	"sort"
	"strconv"
	"strings"
	"time"

	"github.com/google/gce-tcb-verifier/verify"
)

const c07Rule = "genuine endorsements / SEV-SNP attestations with certificate tables / TDX quotes made by the repository's own pipeline, " +
	"every truncation, structure-aware protobuf mutations (dropped optional fields, byte fields at nil/0/1/47/48/49/1MiB, wrong wire types, " +
	"unknown fields, length prefixes 0/rem-1/rem/rem+1/2^31/2^32-1/2^63), certificate tables with empty/truncated/overlapping/wrapping entries, " +
	"PEM bundles with 0..3 blocks, random bytes; each offered to every entry point; non-trivial = the evaluation got past the first parse " +
	"(the model's outcome is not the reject of the outermost decoder)"

func init() {
	register("c07dec", c07Rule, runC07Dec)
	register("c07decw", "worker of c07dec", runC07DecWorker)
}

// one evaluation of one entry point
type c07Line struct {
	Op   string `json:"op"`
	Impl string `json:"impl"`
	NT   bool   `json:"nt"`
}

type c07Result struct {
	I      int               `json:"i"`
	Lines  []c07Line         `json:"lines"`
	Counts map[string]int    `json:"counts"`
	Finds  [][3]string       `json:"finds"`
	MaxNum map[string]uint64 `json:"max"`
}

func c07Workers() int {
	if s := os.Getenv("C07DEC_WORKERS"); s != "" {
		if n, err := strconv.Atoi(s); err == nil && n > 0 {
			return n
		}
	}
	n := runtime.NumCPU() - 2
	if n > 12 {
		n = 12
	}
	if n < 1 {
		n = 1
	}
	return n
}

func runC07Dec(c *Ctx) {
	w := c07Workers()
	dir, err := os.MkdirTemp("", "verif-c07dec-run-")
	c07Must(err)
	defer os.RemoveAll(dir)
	type proc struct {
		cmd *exec.Cmd
		out string
		log *os.File
	}
	procs := make([]proc, w)
	for k := 0; k < w; k++ {
		out := filepath.Join(dir, fmt.Sprintf("w%d", k))
		cmd := exec.Command(os.Args[0], "c07decw", c.Tier, fmt.Sprint(c.Seed), out)
		cmd.Env = append(os.Environ(), fmt.Sprintf("C07DEC_SHARD=%d/%d", k, w), "GOMAXPROCS=2", "GOMEMLIMIT=1500MiB")
		lf, _ := os.Create(out + ".log")
		cmd.Stdout, cmd.Stderr = lf, lf
		c07Must(cmd.Start())
		procs[k] = proc{cmd, out, lf}
	}
	results := map[int]*c07Result{}
	total := -1
	for k, p := range procs {
		err := p.cmd.Wait()
		p.log.Close()
		// read whatever the worker managed to write
		f, ferr := os.Open(filepath.Join(p.out, "results.jsonl"))
		last := -1
		if ferr == nil {
			sc := bufio.NewScanner(f)
			sc.Buffer(make([]byte, 1<<20), 1<<28)
			for sc.Scan() {
				r := &c07Result{}
				if json.Unmarshal(sc.Bytes(), r) == nil {
					if r.I == -1 { // trailer: number of selected cases
						total = r.Counts["selected"]
						continue
					}
					results[r.I] = r
					last = r.I
				}
			}
			f.Close()
		}
		if err != nil {
			// a worker died: a fatal error the Go runtime does not let the program recover from
			logb, _ := os.ReadFile(p.out + ".log")
			tail := string(logb)
			if len(tail) > 3000 {
				tail = tail[len(tail)-3000:]
			}
			cur, _ := os.ReadFile(filepath.Join(p.out, "current"))
			c.Find("c07dec/worker/fatal", fmt.Sprintf("worker %d died (%v) after case %d while running: %s\n%s", k, err, last, cur, tail), string(cur))
		}
	}
	keys := make([]int, 0, len(results))
	for i := range results {
		keys = append(keys, i)
	}
	sort.Ints(keys)
	max := map[string]uint64{}
	for _, i := range keys {
		r := results[i]
		for _, l := range r.Lines {
			c.Case(l.Op, l.Impl, l.NT)
		}
		for k, n := range r.Counts {
			c.Hist[k] += n
		}
		for _, f := range r.Finds {
			c.Find(f[0], f[1], f[2])
		}
		for k, v := range r.MaxNum {
			if v > max[k] {
				max[k] = v
			}
		}
	}
	c.Extra["cases"] = len(keys)
	c.Extra["selected"] = total
	c.Extra["workers"] = w
	for k, v := range max {
		c.Extra["max:"+k] = v
	}
	if total >= 0 && len(keys) != total {
		c.Notes = append(c.Notes, fmt.Sprintf("only %d of %d selected cases completed", len(keys), total))
	}
}

// ---------------------------------------------------------------------------------------------
// worker

type c07Run struct {
	env    *c07Env
	res    *c07Result
	b      []byte // the case input
	name   string // family/name
	replay string
	cur    string // path of the "current evaluation" marker file
	in     *c07Intern
}

func runC07DecWorker(c *Ctx) {
	shard, of := 0, 1
	fmt.Sscanf(os.Getenv("C07DEC_SHARD"), "%d/%d", &shard, &of)
	env := newC07Env(c.Seed)
	cases := c07Cases(env)
	sel := c07Select(cases, c.Quick(), c.Seed)
	out, err := os.Create(filepath.Join(c.OutDir, "results.jsonl"))
	c07Must(err)
	defer out.Close()
	w := bufio.NewWriterSize(out, 1<<20)
	defer w.Flush()
	only := os.Getenv("C07DEC_ONLY") // debugging: run only cases whose family/name contains this
	for n, i := range sel {
		if n%of != shard {
			continue
		}
		cs := cases[i]
		if only != "" && !strings.Contains(cs.family+"/"+cs.name, only) {
			continue
		}
		r := &Rng{s: c.Seed*0x9e3779b97f4a7c15 + uint64(i)*0xbf58476d1ce4e5b9 + 1}
		b := cs.gen(r)
		run := &c07Run{env: env, b: b, name: cs.family + "/" + cs.name, cur: filepath.Join(c.OutDir, "current"),
			res: &c07Result{I: i, Counts: map[string]int{}, MaxNum: map[string]uint64{}}, in: newC07Intern()}
		run.replay = c07Replay(run.name, b)
		run.res.Counts["family:"+cs.family]++
		run.all(r)
		jb, _ := json.Marshal(run.res)
		w.Write(append(jb, '\n'))
		if n%64 == 0 {
			w.Flush()
		}
	}
	if shard == 0 {
		jb, _ := json.Marshal(&c07Result{I: -1, Counts: map[string]int{"selected": len(sel)}})
		w.Write(append(jb, '\n'))
	}
}

func c07Replay(name string, b []byte) string {
	if len(b) <= 16384 {
		return "case=" + tok(name) + " input=" + hx(b)
	}
	return fmt.Sprintf("case=%s input-len=%d input-head=%s (regenerate with C07DEC_ONLY=%s)", tok(name), len(b), hx(b[:256]), tok(name))
}

// c07Outcome is what one evaluation of the real code did.
type c07Outcome struct {
	cls     string // ok / reject / panic / timeout
	vals    string // decoded values (ok only)
	err     error
	msg     string // panic message
	frame   string // top repository frame of the panic stack
	alloc   uint64
	elapsed time.Duration
}

// c07RepoRoot is the directory the repository under test was compiled from (derived from the file of one
// of its functions), so that stack frames can be attributed to it by source file.
var c07RepoRoot = func() string {
	f := runtime.FuncForPC(reflect.ValueOf(verify.GCETcbURL).Pointer())
	if f == nil {
		return "\x00"
	}
	file, _ := f.FileLine(f.Entry())
	return filepath.Dir(filepath.Dir(file)) + string(filepath.Separator)
}()

// c07TopFrame names the first frame of the panicking goroutine, below the panic machinery, whose SOURCE FILE
// belongs to the repository under test: "<file relative to the repository>:<function>" (no line number:
// stable across edits elsewhere; by file because the compiler renames closures it inlines into the harness),
// followed by the innermost non-runtime frame when that is third-party code.
func c07TopFrame(stack string) string {
	lines := strings.Split(stack, "\n")
	seenPanic := false
	first := ""
	for i := 0; i+1 < len(lines); i++ {
		l := lines[i]
		if strings.HasPrefix(l, "\t") || l == "" || !strings.HasPrefix(lines[i+1], "\t") {
			continue
		}
		fn := l
		if k := strings.LastIndex(fn, "("); k > 0 {
			fn = fn[:k]
		}
		if strings.HasPrefix(fn, "panic") || strings.HasPrefix(fn, "runtime.") {
			if strings.HasPrefix(fn, "panic") {
				seenPanic = true
			}
			continue
		}
		if !seenPanic {
			continue
		}
		short := fn
		if k := strings.LastIndex(short, "/"); k >= 0 {
			short = short[k+1:]
		}
		if first == "" {
			first = short
		}
		file := strings.TrimSpace(lines[i+1])
		if k := strings.LastIndex(file, ":"); k > 0 {
			file = file[:k]
		}
		if strings.HasPrefix(file, c07RepoRoot) {
			frame := strings.TrimPrefix(file, c07RepoRoot) + ":" + short
			if first != short {
				frame += "<-" + first
			}
			return frame
		}
	}
	return first
}

// eval runs f (the real code) under recover, the deadline and the allocation meter.
func (run *c07Run) eval(f func() (string, error)) c07Outcome {
	type ret struct {
		vals       string
		err        error
		pan        bool
		msg, stack string
	}
	ch := make(chan ret, 1)
	var m0, m1 runtime.MemStats
	runtime.ReadMemStats(&m0)
	t0 := time.Now()
	go func() {
		var r ret
		r.pan, r.msg, r.stack = Guard(func() { r.vals, r.err = f() })
		ch <- r
	}()
	var o c07Outcome
	select {
	case r := <-ch:
		o.elapsed = time.Since(t0)
		runtime.ReadMemStats(&m1)
		o.alloc = m1.TotalAlloc - m0.TotalAlloc
		switch {
		case r.pan:
			o.cls, o.msg, o.frame = "panic", r.msg, c07TopFrame(r.stack)
		case r.err != nil:
			o.cls, o.err = "reject", r.err
		default:
			o.cls, o.vals = "ok", r.vals
		}
	case <-time.After(2 * time.Second):
		o.cls, o.elapsed = "timeout", time.Since(t0)
		runtime.ReadMemStats(&m1)
		o.alloc = m1.TotalAlloc - m0.TotalAlloc
		// let the overdue evaluation finish (bounded) so that it does not distort the deadline and the
		// allocation meter of the evaluations that follow in this worker
		select {
		case <-ch:
		case <-time.After(20 * time.Second):
		}
	}
	return o
}

// ep evaluates one entry point: runs the real code, applies the direct oracle, records the case.
//
//	op     entry point + variant (a stable token)
//	insize number of untrusted bytes this evaluation consumes (the allocation limit is relative to it)
//	facts  the parse-shape facts for the model (computed without the code under test)
//	nt     whether the evaluation is non-trivial (got past the outermost decoder)
func (run *c07Run) ep(op string, insize int, facts string, nt bool, f func() (string, error)) c07Outcome {
	os.WriteFile(run.cur, []byte("op="+op+" "+run.replay), 0644)
	o := run.eval(f)
	base := op
	if i := strings.Index(base, "."); i > 0 {
		base = base[:i]
	}
	run.res.Counts["ep:"+base]++
	run.res.Counts["outcome:"+base+":"+o.cls]++
	limit := uint64(64*insize + c07MiB)
	if o.alloc > run.res.MaxNum["alloc:"+base] {
		run.res.MaxNum["alloc:"+base] = o.alloc
	}
	if per := o.alloc * 1000 / uint64(insize+16384); per > run.res.MaxNum["alloc-per-1000-input+16KiB:"+base] {
		run.res.MaxNum["alloc-per-1000-input+16KiB:"+base] = per
	}
	if us := uint64(o.elapsed / time.Microsecond); us > run.res.MaxNum["us:"+base] {
		run.res.MaxNum["us:"+base] = us
	}
	find := func(clause, site, what string) {
		run.res.Finds = append(run.res.Finds, [3]string{"c07dec/" + base + "/" + clause + "/" + site, what, "op=" + op + " " + run.replay})
	}
	switch o.cls {
	case "panic":
		find("panic", tok(o.frame), fmt.Sprintf("%s panics on untrusted input (%s): %s", op, run.name, o.msg))
	case "timeout":
		find("timeout", "2s", fmt.Sprintf("%s did not return within 2 s on a %d-byte input (%s)", op, insize, run.name))
	}
	if o.alloc > limit {
		find("alloc", "64n+1MiB", fmt.Sprintf("%s allocated %d bytes for %d input bytes (limit %d) (%s)", op, o.alloc, insize, limit, run.name))
		run.res.Counts["over-alloc:"+base]++
	}
	impl := o.cls
	if o.cls == "ok" && o.vals != "" {
		impl += " " + o.vals
	}
	run.res.Lines = append(run.res.Lines, c07Line{Op: "c07dec op=" + op + " " + facts, Impl: impl, NT: nt})
	return o
}
