package main

// C16 — endorsement discovery is deterministic, local-first and confined.
//
// Streams (all under one registered stream "c16"):
//   name         object names / URLs of the real GCETcbObjectName / GCETcbURL vs the model; oracle (e)
//   endorse      extract.Endorsement over every combination of evidence sources x ForceFetch, with a
//                recording getter, a recording UEFI variable reader over a scratch efivarfs root and a
//                recording quote provider; oracles (a)(b)(c)(d)
//   readvar      exel.Locate(RIMLocationVariable, …) over hostile variable names / GUIDs, symlinked
//                directories and sentinel files outside the root; oracle (d)
//   events       endorse.makeEvents (hook) for real firmware images: emitted bytes, their decoding by
//                the repository's event-log reader, and the end-to-end extraction from a log that
//                carries them
//   parse        TCGEventData.Unmarshal on well-formed, truncated and padded Event3 bytes
//   closure      the fetch of verify.SNPFamilyValidateFunc's closure
//   sevvalidate  the fetch of gcetcbendorsement.SevValidate (extractEndorsement)

import (
	"bytes"
	"crypto/sha512"
	"encoding/base64"
	"encoding/binary"
	"encoding/hex"
	"context"
	"errors"
	"fmt"
	"io"
	"os"
	"path/filepath"
	"sort"
	"strings"
	"unicode/utf16"

	"github.com/google/gce-tcb-verifier/endorse"
	"github.com/google/gce-tcb-verifier/eventlog"
	"github.com/google/gce-tcb-verifier/extract"
	exel "github.com/google/gce-tcb-verifier/extract/eventlog"
	"github.com/google/gce-tcb-verifier/extract/extractsev"
	"github.com/google/gce-tcb-verifier/extract/extracttdx"
	"github.com/google/gce-tcb-verifier/gcetcbendorsement"
	gcmd "github.com/google/gce-tcb-verifier/gcetcbendorsement/cmd"
	epb "github.com/google/gce-tcb-verifier/proto/endorsement"
	evpb "github.com/google/gce-tcb-verifier/proto/events"
	"github.com/google/gce-tcb-verifier/sev"
	"github.com/google/gce-tcb-verifier/verify"
	sabi "github.com/google/go-sev-guest/abi"
	spb "github.com/google/go-sev-guest/proto/sevsnp"
	tabi "github.com/google/go-tdx-guest/abi"
	tpb "github.com/google/go-tdx-guest/proto/tdx"
	"github.com/google/go-tdx-guest/testing/testdata"
	tpmpb "github.com/google/go-tpm-tools/proto/attest"
	"github.com/google/uuid"
	"google.golang.org/protobuf/proto"
)

func init() {
	register("c16", "object names for measurements of every length 0..64 and one-bit neighbours x families; extract.Endorsement over "+
		"the product of event-log states (absent / unreadable / garbage / parsed with raw, variable {ok, missing, short, bad locator}, local and URI "+
		"locators, matching and foreign manufacturers, non-RIM events) x supplied quote in 18 formats (raw SEV report with/without certificate-table "+
		"entry, report only, attestation / report protos, certificate table only, TDX quote, go-tpm-tools wrappers, hex/base64, short measurements, "+
		"absent, garbage) x provider {nil, failing, 5 quotes} x getter {nil, ok, failing} x ForceFetch, exhaustively on the abstracted space and by "+
		"random sampling with fresh measurements; UEFI variable names with '/', '..', NUL, surrogates, long and non-ASCII names, symlinked "+
		"directories and sentinel files outside the scratch root; emitted SP800-155 events of real images. Non-trivial: not the trivial early "+
		"reject (an endorse case with at least one source present; a variable name that decodes; any events/name case); distinct by op line.", runC16)
}

// ---------------------------------------------------------------------------------------------
// the harness's own statement of the naming scheme (from the property text, not from the code)

const (
	c16SpecBase      = "https://storage.googleapis.com/gce_tcb_integrity/"
	c16SpecFamily    = "ovmf_x64_csm"
	c16SpecGoogleVar = "a2858e46-a37f-456a-8c79-0c1fe48b65ff"
	c16SpecVarName   = "FirmwareRIM"
	c16SpecMfr       = "Google, Inc."
	c16Sentinel      = "SENTINEL-OUTSIDE-ROOT"
)

func c16SpecName(tech string, meas []byte) string {
	return c16SpecFamily + "/" + tech + "/" + hex.EncodeToString(meas) + ".binarypb"
}
func c16SpecURL(obj string) string { return c16SpecBase + obj }

// ---------------------------------------------------------------------------------------------
// doubles

var errC16Fetch = errors.New("c16: getter fails")
var errC16Prov = errors.New("c16: provider fails")

type c16Getter struct {
	fail bool
	urls []string
}

func (g *c16Getter) Get(url string) ([]byte, error) {
	g.urls = append(g.urls, url)
	if g.fail {
		return nil, errC16Fetch
	}
	return []byte("NET:" + url), nil
}

type c16Provider struct {
	quote []byte
	fail  bool
	calls int
}

func (p *c16Provider) IsSupported() bool { return true }
func (p *c16Provider) GetRawQuote(rd [64]byte) ([]uint8, error) {
	p.calls++
	if p.fail {
		return nil, errC16Prov
	}
	return p.quote, nil
}

func (p *c16Provider) GetRawQuoteAtLevel(rd [64]byte, _ uint) ([]uint8, error) { return p.GetRawQuote(rd) }

// c16IO is the in-memory file layer of the CLI backend.
type c16IO struct {
	files map[string][]byte
	out   bytes.Buffer
}

func (o *c16IO) Create(path string) (gcetcbendorsement.TerminalWriter, func(), error) {
	return gcetcbendorsement.NonterminalWriter{Writer: &o.out}, func() {}, nil
}
func (o *c16IO) ReadFile(path string) ([]byte, error) {
	if b, ok := o.files[path]; ok {
		return b, nil
	}
	return nil, os.ErrNotExist
}

// c16Reader wraps the real efivarfs reader and records the path it is about to open.
type c16Reader struct {
	inner *exel.EfiVarFSReader
	paths []string
}

func (r *c16Reader) ReadVariable(guid uuid.UUID, name []uint8) ([]byte, error) {
	if p, err := exel.VerifVarBasename(r.inner, guid, name); err == nil {
		r.paths = append(r.paths, p)
	}
	return r.inner.ReadVariable(guid, name)
}

// ---------------------------------------------------------------------------------------------
// quote fixtures

func c16Report(meas []byte) *spb.Report {
	return &spb.Report{
		Signature: make([]byte, sabi.SignatureSize), Version: 2, GuestSvn: 2,
		ReportData: make([]byte, sabi.ReportDataSize), FamilyId: make([]byte, sabi.FamilyIDSize),
		ImageId: make([]byte, sabi.ImageIDSize), Measurement: meas,
		IdKeyDigest: make([]byte, sabi.IDKeyDigestSize), AuthorKeyDigest: make([]byte, sabi.AuthorKeyDigestSize),
		HostData: make([]byte, sabi.HostDataSize), ReportId: make([]byte, sabi.ReportIDSize),
		ReportIdMa: make([]byte, sabi.ReportIDMASize), ChipId: make([]byte, sabi.ChipIDSize),
		Policy: sabi.SnpPolicyToBytes(sabi.SnpPolicy{}), SignatureAlgo: 1,
	}
}

// blob kinds of the certificate table's GCE entry
const (
	c16NoBlob = iota
	c16Blob
	c16EmptyBlob
)

func c16Chain(kind int, blob []byte) *spb.CertificateChain {
	ch := &spb.CertificateChain{VcekCert: []byte("not-a-vcek"), AskCert: []byte("not-an-ask"), ArkCert: []byte("not-an-ark")}
	switch kind {
	case c16Blob:
		ch.Extras = map[string][]byte{sev.GCEFwCertGUID: blob}
	case c16EmptyBlob:
		ch.Extras = map[string][]byte{sev.GCEFwCertGUID: {}}
	}
	return ch
}

type c16Form struct {
	name   string
	tech   string // "sev" / "tdx" / "" — what a correct reading of the quote yields
	hasM   bool   // carries the caller's 48-byte measurement
	blobOK bool   // can carry a certificate-table entry
	robust bool   // the reading of this format does not depend on protobuf wire accidents: oracle on Attestation
	short  bool   // carries a truncated measurement
}

var c16Forms = []c16Form{
	{name: "absent"},
	{name: "garbage"},
	{name: "sevraw", tech: "sev", hasM: true, blobOK: true, robust: true},
	{name: "sevreportonly", tech: "sev", hasM: true, robust: true},
	{name: "sevattproto", tech: "sev", hasM: true, blobOK: true},
	{name: "sevreportproto", tech: "sev", hasM: true},
	{name: "certtable", tech: "sev", blobOK: true, robust: true},
	{name: "tdxraw", tech: "tdx", hasM: true, robust: true},
	{name: "tdxproto", tech: "tdx", hasM: true},
	{name: "tpmsev", tech: "sev", hasM: true, blobOK: true, robust: true},
	{name: "tpmtdx", tech: "tdx", hasM: true, robust: true},
	{name: "hexsevraw", tech: "sev", hasM: true, blobOK: true, robust: true},
	{name: "b64sevraw", tech: "sev", hasM: true, blobOK: true, robust: true},
	{name: "hextdxraw", tech: "tdx", hasM: true, robust: true},
	{name: "tpmsevshort", tech: "sev", blobOK: true, robust: true, short: true},
	{name: "tpmtdxshort", tech: "tdx", robust: true, short: true},
	{name: "sevreportprotoshort", tech: "sev", short: true},
	{name: "tpmempty"},
}

func c16FormByName(n string) c16Form {
	for _, f := range c16Forms {
		if f.name == n {
			return f
		}
	}
	panic("unknown form " + n)
}

var c16TdxQuote *tpb.QuoteV4

func c16Marshal(m proto.Message) []byte {
	b, err := proto.Marshal(m)
	if err != nil {
		panic(err)
	}
	return b
}

func c16ShortOf(meas []byte) []byte { return meas[:4+int(meas[0])%20] }

// c16Quote builds the bytes of a quote in the given format.
func c16Quote(form string, meas []byte, kind int, blob []byte) []byte {
	sevRaw := func() []byte {
		raw, err := sabi.ReportToAbiBytes(c16Report(meas))
		if err != nil {
			panic(err)
		}
		return raw
	}
	tdxRaw := func() []byte {
		q := append([]byte{}, testdata.RawQuote...)
		copy(q[0xB8:0xB8+48], meas)
		return q
	}
	tdxProto := func(m []byte) *tpb.QuoteV4 {
		q := proto.Clone(c16TdxQuote).(*tpb.QuoteV4)
		q.TdQuoteBody.MrTd = m
		return q
	}
	switch form {
	case "absent":
		return nil
	case "garbage":
		return []byte("bad quote format")
	case "sevraw":
		return append(sevRaw(), sabi.CertsFromProto(c16Chain(kind, blob)).Marshal()...)
	case "sevreportonly":
		return sevRaw()
	case "sevattproto":
		return c16Marshal(&spb.Attestation{Report: c16Report(meas), CertificateChain: c16Chain(kind, blob)})
	case "sevreportproto":
		return c16Marshal(c16Report(meas))
	case "certtable":
		return sabi.CertsFromProto(c16Chain(kind, blob)).Marshal()
	case "tdxraw":
		return tdxRaw()
	case "tdxproto":
		return c16Marshal(tdxProto(meas))
	case "tpmsev":
		return c16Marshal(&tpmpb.Attestation{TeeAttestation: &tpmpb.Attestation_SevSnpAttestation{
			SevSnpAttestation: &spb.Attestation{Report: c16Report(meas), CertificateChain: c16Chain(kind, blob)}}})
	case "tpmtdx":
		return c16Marshal(&tpmpb.Attestation{TeeAttestation: &tpmpb.Attestation_TdxAttestation{TdxAttestation: tdxProto(meas)}})
	case "hexsevraw":
		return []byte(hex.EncodeToString(c16Quote("sevraw", meas, kind, blob)))
	case "b64sevraw":
		return []byte(base64.StdEncoding.EncodeToString(c16Quote("sevraw", meas, kind, blob)))
	case "hextdxraw":
		return []byte(hex.EncodeToString(tdxRaw()))
	case "tpmsevshort":
		return c16Marshal(&tpmpb.Attestation{TeeAttestation: &tpmpb.Attestation_SevSnpAttestation{
			SevSnpAttestation: &spb.Attestation{Report: c16Report(c16ShortOf(meas)), CertificateChain: c16Chain(kind, blob)}}})
	case "tpmtdxshort":
		return c16Marshal(&tpmpb.Attestation{TeeAttestation: &tpmpb.Attestation_TdxAttestation{TdxAttestation: tdxProto(c16ShortOf(meas))}})
	case "sevreportprotoshort":
		return c16Marshal(c16Report(c16ShortOf(meas)))
	case "tpmempty":
		return c16Marshal(&tpmpb.Attestation{AkPub: []byte("ak")})
	}
	panic("unknown form " + form)
}

// c16Tee renders what extract.Attestation makes of a quote (the model's `Tee` parameter).
func c16Tee(quote []byte) string {
	var at *tpmpb.Attestation
	var err error
	if pan, _, _ := Guard(func() { at, err = extract.Attestation(quote) }); pan || err != nil {
		return "none"
	}
	switch t := at.TeeAttestation.(type) {
	case *tpmpb.Attestation_SevSnpAttestation:
		x := "-"
		if blob, ok := t.SevSnpAttestation.GetCertificateChain().GetExtras()[sev.GCEFwCertGUID]; ok {
			x = hx(blob)
		}
		return "sev:" + hx(t.SevSnpAttestation.GetReport().GetMeasurement()) + ":" + x
	case *tpmpb.Attestation_TdxAttestation:
		return "tdx:" + hx(t.TdxAttestation.GetTdQuoteBody().GetMrTd())
	}
	return "none"
}

// a quote source as the enumeration sees it
type c16QuoteSpec struct {
	form string
	kind int // blob kind
}

func (q c16QuoteSpec) String() string { return fmt.Sprintf("%s/%d", q.form, q.kind) }

// ---------------------------------------------------------------------------------------------
// event logs

type c16Event struct {
	eventType uint32
	rim       bool
	mfr       string
	locType   uint32
	loc       []byte
	unknown   []byte // event data of a non-RIM event (nil: no event data)
}

func (e c16Event) line() string {
	if !e.rim {
		return fmt.Sprintf("%d/-", e.eventType)
	}
	return fmt.Sprintf("%d/%d/%s/%s", e.eventType, e.locType, hx([]byte(e.mfr)), hx(e.loc))
}

func c16WriteLog(path string, evs []c16Event) {
	el := &eventlog.CryptoAgileLog{Header: eventlog.TCGPCClientPCREvent{}}
	for _, e := range evs {
		ev := &eventlog.TCGPCREvent2{EventType: e.eventType}
		if e.rim {
			ev.EventData = eventlog.TCGEventData{Event: &eventlog.SP800155Event3{
				FirmwareManufacturerStr: eventlog.ByteSizedCStr{Data: e.mfr},
				RIMLocatorType:          e.locType,
				RIMLocator:              eventlog.Uint32SizedArray{Data: e.loc},
			}}
		} else if e.unknown != nil {
			ev.EventData = eventlog.TCGEventData{Event: &eventlog.UnknownEvent{Data: e.unknown}}
		}
		el.Events = append(el.Events, ev)
	}
	var buf bytes.Buffer
	if err := el.Marshal(&buf); err != nil {
		panic(err)
	}
	if err := os.WriteFile(path, buf.Bytes(), 0644); err != nil {
		panic(err)
	}
}

func c16UCS2(s string) []byte {
	var out []byte
	for _, u := range utf16.Encode([]rune(s)) {
		out = append(out, byte(u), byte(u>>8))
	}
	return out
}

func c16EfiGUID(g uuid.UUID) []byte {
	b := make([]byte, 16)
	binary.LittleEndian.PutUint32(b[0:4], binary.BigEndian.Uint32(g[0:4]))
	binary.LittleEndian.PutUint16(b[4:6], binary.BigEndian.Uint16(g[4:6]))
	binary.LittleEndian.PutUint16(b[6:8], binary.BigEndian.Uint16(g[6:8]))
	copy(b[8:], g[8:])
	return b
}

func c16VarLoc(g uuid.UUID, name string) []byte {
	return append(append(c16EfiGUID(g), c16UCS2(name)...), 0, 0)
}

// ---------------------------------------------------------------------------------------------
// scratch efivarfs

type c16FS struct {
	outer string // scratch directory holding the root and the sentinels
	root  string
}

func c16NewFS() *c16FS {
	outer, err := os.MkdirTemp("", "verif-c16-")
	if err != nil {
		panic(err)
	}
	outer, _ = filepath.EvalSymlinks(outer)
	fs := &c16FS{outer: outer, root: filepath.Join(outer, "efivars")}
	if err := os.Mkdir(fs.root, 0755); err != nil {
		panic(err)
	}
	return fs
}

func (fs *c16FS) Close() { os.RemoveAll(fs.outer) }

func c16VarContent(blob []byte) []byte { return append([]byte{7, 0, 0, 0}, blob...) }

// listing of the regular files below the root, as "modelpath-hex:content-hex", sorted.
func (fs *c16FS) listing() string {
	var out []string
	filepath.Walk(fs.root, func(p string, info os.FileInfo, err error) error {
		if err != nil || !info.Mode().IsRegular() {
			return nil
		}
		b, err := os.ReadFile(p)
		if err != nil {
			return nil
		}
		out = append(out, hx([]byte("/efi"+strings.TrimPrefix(p, fs.root)))+":"+hx(b))
		return nil
	})
	sort.Strings(out)
	return strings.Join(out, ",")
}

// modelPath maps a real path to the model's root; escapes keep their real form with a marker.
func (fs *c16FS) modelPath(p string) string {
	if p == fs.root || strings.HasPrefix(p, fs.root+"/") {
		return "/efi" + strings.TrimPrefix(p, fs.root)
	}
	return "ESCAPE:" + p
}

// confinement oracle (d) on one recorded path and the returned bytes.
func (fs *c16FS) checkConfined(c *Ctx, entry string, paths []string, out []byte, replay string) {
	for _, p := range paths {
		lexOK := strings.HasPrefix(p, fs.root+"/") && filepath.Clean(p) == p
		if lexOK {
			for _, comp := range strings.Split(strings.TrimPrefix(p, fs.root+"/"), "/") {
				if comp == ".." || comp == "." || comp == "" {
					lexOK = false
				}
			}
		}
		if !lexOK {
			c.Find("c16/"+entry+"/confined/path-outside-root", "a UEFI variable locator resolved to a path that is not lexically inside the efivarfs root: "+p, replay)
			continue
		}
		if real, err := filepath.EvalSymlinks(p); err == nil && !(real == fs.root || strings.HasPrefix(real, fs.root+"/")) {
			c.Find("c16/"+entry+"/confined/path-resolves-outside-root", "a UEFI variable path resolves through a symbolic link to "+real+" outside the root", replay)
		}
	}
	if bytes.Contains(out, []byte(c16Sentinel)) {
		c.Find("c16/"+entry+"/confined/sentinel-read", "the contents of a file outside the efivarfs root were returned", replay)
	}
}

// ---------------------------------------------------------------------------------------------
// extract.Endorsement cases

type c16LogSpec struct {
	state string // "none" (no location) | "unreadable" | "garbage" | "parsed"
	evs   []c16Event
}

type c16Case struct {
	log    c16LogSpec
	mfr    string
	quote  c16QuoteSpec
	prov   string // "nil" | "fail" | quote spec
	provQ  c16QuoteSpec
	getter string // "nil" | "ok" | "fail"
	force  bool
	reader bool
	cli    bool // through the `extract` cobra command instead of the API
}

type c16Runner struct {
	c       *Ctx
	fs      *c16FS
	logDir  string
	logs    map[string]string // cache: event list line -> file
	qcache  map[string][]byte
	teeOf   map[string]string
	varGUID uuid.UUID
	blob    []byte
	varBlob []byte
	fsLine  *string
}

func (r *c16Runner) listing() string {
	if r.fsLine == nil {
		l := r.fs.listing()
		r.fsLine = &l
	}
	return *r.fsLine
}

func (r *c16Runner) quoteBytes(q c16QuoteSpec, meas []byte) ([]byte, string) {
	key := q.String() + "/" + hx(meas)
	if b, ok := r.qcache[key]; ok {
		return b, r.teeOf[key]
	}
	b := c16Quote(q.form, meas, q.kind, r.blob)
	t := c16Tee(b)
	if len(r.qcache) > 4000 {
		r.qcache, r.teeOf = map[string][]byte{}, map[string]string{}
	}
	r.qcache[key], r.teeOf[key] = b, t
	return b, t
}

// checkReading: oracle on extract.Attestation for the formats whose reading is unambiguous.
func (r *c16Runner) checkReading(q c16QuoteSpec, meas []byte, tee string) {
	f := c16FormByName(q.form)
	if !f.robust {
		return
	}
	wantM := meas
	if f.short {
		wantM = c16ShortOf(meas)
	}
	if q.form == "certtable" {
		wantM = nil // the code invents a one-byte measurement for this format; only the entry is checked
	}
	var want string
	switch f.tech {
	case "sev":
		x := "-"
		if f.blobOK && q.kind == c16Blob {
			x = hx(r.blob)
		} else if f.blobOK && q.kind == c16EmptyBlob {
			x = ""
		}
		if wantM == nil {
			if !strings.HasPrefix(tee, "sev:") || !strings.HasSuffix(tee, ":"+x) {
				r.c.Find("c16/extract.Attestation/reading/"+q.form, "certificate table read as "+tee, q.String())
			}
			return
		}
		want = "sev:" + hx(wantM) + ":" + x
	case "tdx":
		want = "tdx:" + hx(wantM)
	}
	if tee != want {
		r.c.Find("c16/extract.Attestation/reading/"+q.form, fmt.Sprintf("quote in format %s read as %s, want %s", q.form, tee, want), q.String()+" meas="+hx(meas))
	}
}

// specSelect: the harness's own reading of "raw > variable > local > URI filtered by manufacturer".
func c16SpecSelect(evs []c16Event, mfr string) *c16Event {
	for _, t := range []uint32{eventlog.RIMLocationRaw, eventlog.RIMLocationVariable, eventlog.RIMLocationLocal, eventlog.RIMLocationURI} {
		for i := range evs {
			e := &evs[i]
			if e.rim && e.eventType == eventlog.EvNoAction && e.locType == t && (mfr == "" || e.mfr == mfr) {
				return e
			}
		}
	}
	return nil
}

func (r *c16Runner) logFile(l c16LogSpec) (string, string) {
	switch l.state {
	case "none":
		return "", "none"
	case "unreadable":
		return filepath.Join(r.logDir, "does-not-exist"), "unreadable"
	case "garbage":
		p := filepath.Join(r.logDir, "garbage")
		if _, err := os.Stat(p); err != nil {
			os.WriteFile(p, []byte{1, 2, 3}, 0644)
		}
		return p, "unreadable"
	}
	parts := []string{"p"}
	for _, e := range l.evs {
		parts = append(parts, e.line())
	}
	line := strings.Join(parts, ";")
	if p, ok := r.logs[line]; ok {
		return p, line
	}
	p := filepath.Join(r.logDir, fmt.Sprintf("log%d", len(r.logs)))
	c16WriteLog(p, l.evs)
	r.logs[line] = p
	return p, line
}

// localContent: what a variable locator's file holds, if it can be obtained (harness's own reading of
// the scratch root; only for names the harness created itself).
func (r *c16Runner) varContent(loc []byte) ([]byte, bool) {
	if len(loc) <= 18 || (len(loc)-16)%2 != 0 {
		return nil, false
	}
	name := loc[16:]
	if name[len(name)-1] != 0 || name[len(name)-2] != 0 {
		return nil, false
	}
	var us []uint16
	for i := 0; i+1 < len(name)-2; i += 2 {
		us = append(us, uint16(name[i])|uint16(name[i+1])<<8)
	}
	base := string(utf16.Decode(us))
	if strings.ContainsAny(base, "/\x00") || base == "" {
		return nil, false
	}
	g := make([]byte, 16)
	binary.BigEndian.PutUint32(g[0:4], binary.LittleEndian.Uint32(loc[0:4]))
	binary.BigEndian.PutUint16(g[4:6], binary.LittleEndian.Uint16(loc[4:6]))
	binary.BigEndian.PutUint16(g[6:8], binary.LittleEndian.Uint16(loc[6:8]))
	copy(g[8:], loc[8:16])
	u, _ := uuid.FromBytes(g)
	b, err := os.ReadFile(filepath.Join(r.fs.root, base+"-"+u.String()))
	if err != nil || len(b) < 4 {
		return nil, false
	}
	return b[4:], true
}

func (r *c16Runner) run(cs c16Case, meas, pmeas []byte) {
	c := r.c
	logPath, logLine := r.logFile(cs.log)
	qb, qtee := r.quoteBytes(cs.quote, meas)
	r.checkReading(cs.quote, meas, qtee)
	opts := &extract.Options{FirmwareManufacturer: cs.mfr, EventLogLocation: logPath, Quote: qb, ForceFetch: cs.force}
	var g *c16Getter
	if cs.getter != "nil" {
		g = &c16Getter{fail: cs.getter == "fail"}
		opts.Getter = g
	}
	var rd *c16Reader
	if cs.reader {
		rd = &c16Reader{inner: exel.MakeEfiVarFSReader(r.fs.root)}
		opts.UEFIVariableReader = rd
	}
	var pv *c16Provider
	provLine := cs.prov
	var ptee string
	if cs.prov == "fail" {
		pv = &c16Provider{fail: true}
		opts.Provider = pv
	} else if cs.prov != "nil" {
		pb, t := r.quoteBytes(cs.provQ, pmeas)
		r.checkReading(cs.provQ, pmeas, t)
		pv = &c16Provider{quote: pb}
		opts.Provider = pv
		provLine, ptee = t, t
	}
	_ = ptee
	op := fmt.Sprintf("c16 op=endorse force=%s mfr=%s el=%s reader=%s fs=%s q=%s prov=%s getter=%s",
		b2s(cs.force), hx([]byte(cs.mfr)), logLine, b2s(cs.reader), r.listing(), qtee, provLine, cs.getter)
	var out []byte
	var err error
	var pan bool
	var msg string
	if cs.cli {
		// the same case through `gcetcbendorsement extract`: flags instead of Options, the attestation in
		// a file, the output in a file; the backend's provider is never nil there
		cio := &c16IO{files: map[string][]byte{}}
		be := &gcmd.Backend{Provider: pv, IO: cio}
		if g != nil {
			be.Getter = g
		}
		if cs.reader {
			be.MakeEfiVariableReader = func(mount string) exel.VariableReader {
				rd = &c16Reader{inner: exel.MakeEfiVarFSReader(mount)}
				return rd
			}
		}
		args := []string{"extract", "--out", "out.binarypb", "--eventlog", logPath, "--efivarfs", r.fs.root, "--firmware_manufacturer", cs.mfr}
		if cs.force {
			args = append(args, "--force_fetch")
		}
		if cs.quote.form != "absent" {
			cio.files["attestation.bin"] = qb
			args = append(args, "attestation.bin")
		}
		root := gcmd.MakeRoot(gcmd.VerifC16WithBackend(context.Background(), be))
		root.SetArgs(args)
		root.SetOut(io.Discard)
		root.SetErr(io.Discard)
		root.SilenceUsage, root.SilenceErrors = true, true
		pan, msg, _ = Guard(func() { err = root.Execute() })
		if err == nil {
			out = cio.out.Bytes()
		}
		c.Count("endorse/via=cli")
	} else {
		pan, msg, _ = Guard(func() { out, err = extract.Endorsement(opts) })
		c.Count("endorse/via=api")
	}
	var urls, paths []string
	if g != nil {
		urls = g.urls
	}
	if rd != nil {
		paths = rd.paths
	}
	calls := 0
	if pv != nil {
		calls = pv.calls
	}
	var cls string
	switch {
	case pan:
		cls = "panic out="
		_ = msg
	case err == nil:
		cls = "ok out=" + hx(out)
	case errors.Is(err, errC16Prov):
		cls = "err=provider out="
	case err == extract.ErrUnknownFormat || err == extract.ErrQuoteNil:
		cls = "err=provquote out="
	default:
		cls = "err=final out="
	}
	hu := make([]string, len(urls))
	for i, u := range urls {
		hu[i] = hx([]byte(u))
	}
	hp := make([]string, len(paths))
	for i, p := range paths {
		hp[i] = hx([]byte(r.fs.modelPath(p)))
	}
	impl := fmt.Sprintf("%s urls=%s paths=%s prov=%d", cls, strings.Join(hu, ";"), strings.Join(hp, ";"), calls)
	nontrivial := cs.log.state == "parsed" || qtee != "none" || (cs.prov != "nil" && cs.prov != "fail")
	c.Case(op, impl, nontrivial)
	c.Count("endorse/log=" + cs.log.state)
	c.Count("endorse/quote=" + cs.quote.form)

	// ---------------- direct oracle, on the implementation alone ----------------
	replay := op
	qf := c16FormByName(cs.quote.form)
	pf := c16Form{}
	if cs.prov != "nil" && cs.prov != "fail" {
		pf = c16FormByName(cs.provQ.form)
	}
	// URLs the property allows: the bucket URL of the full-length measurement of the supplied or the
	// provided quote.
	allowed := map[string]bool{}
	if qf.hasM {
		allowed[c16SpecURL(c16SpecName(map[string]string{"sev": "sevsnp", "tdx": "tdx"}[qf.tech], meas))] = true
	}
	if pf.hasM {
		allowed[c16SpecURL(c16SpecName(map[string]string{"sev": "sevsnp", "tdx": "tdx"}[pf.tech], pmeas))] = true
	}
	var sel *c16Event
	if cs.log.state == "parsed" {
		sel = c16SpecSelect(cs.log.evs, cs.mfr)
	}
	uriSelected := sel != nil && sel.locType == eventlog.RIMLocationURI && !cs.force
	for _, u := range urls {
		switch {
		case allowed[u]:
		case uriSelected && u == string(sel.loc):
			c.Find("c16/extract.Endorsement/fetch-url/eventlog-uri-verbatim", "the URI locator of the event log is handed to the getter verbatim; it is not derived from a full-length measurement", replay)
		case u == c16SpecURL(""):
			c.Find("c16/extract.Endorsement/fetch-url/empty-object-name", "GET issued for the bucket root (empty object name): "+u, replay)
		case strings.HasPrefix(u, c16SpecBase) && strings.HasSuffix(u, ".binarypb"):
			c.Find("c16/extract.Endorsement/fetch-url/not-a-full-length-measurement", "GET issued for an object not named after the 48-byte measurement of the quote: "+u, replay)
		default:
			c.Find("c16/extract.Endorsement/fetch-url/other", "GET issued for an unexpected URL: "+u, replay)
		}
	}
	// local evidence, in the property's order
	var local []byte
	haveLocal := false
	if !cs.force && sel != nil {
		switch sel.locType {
		case eventlog.RIMLocationRaw:
			local, haveLocal = sel.loc, true
		case eventlog.RIMLocationVariable:
			if cs.reader {
				local, haveLocal = r.varContent(sel.loc)
			}
		}
	}
	if !cs.force && !haveLocal && qf.blobOK && cs.quote.kind == c16Blob && (qf.robust) {
		local, haveLocal = r.blob, true
	}
	quoteUseless := !qf.hasM && !(qf.blobOK && cs.quote.kind == c16Blob)
	if !cs.force && !haveLocal && quoteUseless && pf.blobOK && cs.provQ.kind == c16Blob && pf.robust {
		local, haveLocal = r.blob, true
	}
	if haveLocal && !pan {
		dueToURI := uriSelected && len(urls) > 0 && urls[0] == string(sel.loc)
		if len(urls) != 0 {
			if dueToURI {
				c.Find("c16/extract.Endorsement/local-first/eventlog-uri-before-cert-table", "with a URI locator in the event log the network is asked before the attestation's certificate-table entry is looked at", replay)
			} else {
				c.Find("c16/extract.Endorsement/local-first/fetch-despite-local-evidence", "a URL was requested although local evidence exists and ForceFetch is false", replay)
			}
		}
		if err != nil || !bytes.Equal(out, local) {
			if dueToURI {
				c.Find("c16/extract.Endorsement/local-first/eventlog-uri-before-cert-table", "with a URI locator in the event log the network is asked before the attestation's certificate-table entry is looked at", replay)
			} else {
				c.Find("c16/extract.Endorsement/local-first/returned-bytes-differ", fmt.Sprintf("local evidence %x exists but Endorsement returned %x, %v", local, out, err), replay)
			}
		}
	}
	if cs.force && len(paths) != 0 {
		c.Find("c16/extract.Endorsement/force/eventlog-consulted", "ForceFetch set but a UEFI variable was opened", replay)
	}
	r.fs.checkConfined(c, "extract.Endorsement", paths, out, replay)
	switch {
	case pan:
		c.Count("endorse/result=panic")
	case err != nil:
		c.Count("endorse/result=" + strings.Fields(cls)[0])
	case len(urls) > 0:
		c.Count("endorse/result=ok-network")
	case len(paths) > 0:
		c.Count("endorse/result=ok-variable")
	case haveLocal:
		c.Count("endorse/result=ok-local")
	default:
		c.Count("endorse/result=ok-other")
	}
}

func c16Meas(r *Rng) []byte { return r.Bytes(48) }

func runC16Endorse(c *Ctx, fs *c16FS) {
	r := c.Rng
	logDir := filepath.Join(fs.outer, "logs")
	os.Mkdir(logDir, 0755)
	run := &c16Runner{c: c, fs: fs, logDir: logDir, logs: map[string]string{}, qcache: map[string][]byte{}, teeOf: map[string]string{},
		varGUID: uuid.MustParse("6a7b6885-92bc-40cd-9fb5-300f9d1eb0ed"), blob: []byte("LOCAL-CERT-TABLE-ENTRY"), varBlob: []byte("LOCAL-UEFI-VARIABLE")}
	// scratch efivarfs content used by the enumeration
	os.WriteFile(filepath.Join(fs.root, "Present-"+run.varGUID.String()), c16VarContent(run.varBlob), 0644)
	os.WriteFile(filepath.Join(fs.root, "Short-"+run.varGUID.String()), []byte{7, 0}, 0644)
	os.WriteFile(filepath.Join(fs.root, "Empty-"+run.varGUID.String()), []byte{7, 0, 0, 0}, 0644)
	// sentinels outside the root
	os.WriteFile(filepath.Join(fs.outer, "Present-"+run.varGUID.String()), c16VarContent([]byte(c16Sentinel)), 0644)

	google, other := c16SpecMfr, "Other Corp."
	rawEv := func(m string) c16Event {
		return c16Event{eventType: eventlog.EvNoAction, rim: true, mfr: m, locType: eventlog.RIMLocationRaw, loc: []byte("LOCAL-RAW-LOCATOR")}
	}
	varEv := func(m, name string) c16Event {
		return c16Event{eventType: eventlog.EvNoAction, rim: true, mfr: m, locType: eventlog.RIMLocationVariable, loc: c16VarLoc(run.varGUID, name)}
	}
	badVarEv := func(m string) c16Event {
		return c16Event{eventType: eventlog.EvNoAction, rim: true, mfr: m, locType: eventlog.RIMLocationVariable, loc: append(c16EfiGUID(run.varGUID), 'V', 0, 'x')}
	}
	localEv := func(m string) c16Event {
		return c16Event{eventType: eventlog.EvNoAction, rim: true, mfr: m, locType: eventlog.RIMLocationLocal, loc: []byte("PciRoot(0x0)/Pci(0x1,0x0)")}
	}
	uriEv := func(m string) c16Event {
		return c16Event{eventType: eventlog.EvNoAction, rim: true, mfr: m, locType: eventlog.RIMLocationURI, loc: []byte("https://example.test/rim/from-event-log")}
	}
	noise := []c16Event{
		{eventType: 0x80000001, unknown: []byte("efi variable driver config....")},
		{eventType: eventlog.EvNoAction, unknown: []byte("short")},
		{eventType: 4},
		{eventType: 0x80000008, rim: true, mfr: google, locType: eventlog.RIMLocationRaw, loc: []byte("MEASURED-NOT-NO-ACTION")},
		{eventType: eventlog.EvNoAction, rim: true, mfr: google, locType: 7, loc: []byte("unknown-locator-type")},
	}

	// the abstract states of each locator kind
	rawStates := []string{"absent", "match", "foreign"}
	varStates := []string{"absent", "ok", "missing", "short", "empty", "badloc", "foreign"}
	localStates := []string{"absent", "match"}
	uriStates := []string{"absent", "match", "foreign"}
	build := func(rs, vs, ls, us string, shuffle bool) c16LogSpec {
		var evs []c16Event
		// emitted in the order URI, local, variable, raw so that file order is the reverse of the precedence
		switch us {
		case "match":
			evs = append(evs, uriEv(google))
		case "foreign":
			evs = append(evs, uriEv(other))
		}
		if ls == "match" {
			evs = append(evs, localEv(google))
		}
		switch vs {
		case "ok":
			evs = append(evs, varEv(google, "Present"))
		case "missing":
			evs = append(evs, varEv(google, "Missing"))
		case "short":
			evs = append(evs, varEv(google, "Short"))
		case "empty":
			evs = append(evs, varEv(google, "Empty"))
		case "badloc":
			evs = append(evs, badVarEv(google))
		case "foreign":
			evs = append(evs, varEv(other, "Present"))
		}
		switch rs {
		case "match":
			evs = append(evs, rawEv(google))
		case "foreign":
			evs = append(evs, rawEv(other))
		}
		if shuffle {
			for i := 0; i < 1+r.Intn(3); i++ {
				n := noise[r.Intn(len(noise))]
				k := r.Intn(len(evs) + 1)
				evs = append(evs[:k], append([]c16Event{n}, evs[k:]...)...)
			}
			if r.Intn(3) == 0 && len(evs) > 1 {
				i, j := r.Intn(len(evs)), r.Intn(len(evs))
				evs[i], evs[j] = evs[j], evs[i]
			}
			if r.Intn(4) == 0 && len(evs) > 0 { // a second event of the same type: log order decides
				d := evs[r.Intn(len(evs))]
				if d.rim && d.locType == eventlog.RIMLocationRaw {
					d.loc = []byte("SECOND-RAW-LOCATOR")
				}
				evs = append(evs, d)
			}
		}
		return c16LogSpec{state: "parsed", evs: evs}
	}

	quickQuotes := []c16QuoteSpec{{"absent", 0}, {"garbage", 0}, {"sevraw", c16Blob}, {"sevraw", c16NoBlob}, {"tdxraw", 0}, {"certtable", c16Blob}}
	var allQuotes []c16QuoteSpec
	for _, f := range c16Forms {
		if f.blobOK {
			for _, k := range []int{c16NoBlob, c16Blob, c16EmptyBlob} {
				allQuotes = append(allQuotes, c16QuoteSpec{f.name, k})
			}
		} else {
			allQuotes = append(allQuotes, c16QuoteSpec{f.name, 0})
		}
	}
	provs := []struct {
		p string
		q c16QuoteSpec
	}{{"nil", c16QuoteSpec{}}, {"fail", c16QuoteSpec{}}, {"q", c16QuoteSpec{"sevraw", c16Blob}}, {"q", c16QuoteSpec{"sevraw", c16NoBlob}},
		{"q", c16QuoteSpec{"tdxraw", 0}}, {"q", c16QuoteSpec{"garbage", 0}}, {"q", c16QuoteSpec{"certtable", c16Blob}}, {"q", c16QuoteSpec{"absent", 0}}}
	getters := []string{"nil", "ok", "fail"}

	m0 := make([]byte, 48)
	for i := range m0 {
		m0[i] = byte(0xA0 + i)
	}
	p0 := make([]byte, 48)
	for i := range p0 {
		p0[i] = byte(0x10 + i)
	}

	// ---- (1) exhaustive product on the abstracted source states ----
	var coreLogs []c16LogSpec
	coreLogs = append(coreLogs, c16LogSpec{state: "none"}, c16LogSpec{state: "unreadable"})
	for _, rs := range []string{"absent", "match"} {
		for _, vs := range []string{"absent", "ok", "missing"} {
			for _, ls := range localStates {
				for _, us := range []string{"absent", "match"} {
					coreLogs = append(coreLogs, build(rs, vs, ls, us, false))
				}
			}
		}
	}
	for _, l := range coreLogs {
		for _, q := range quickQuotes {
			for _, pv := range provs[:4] {
				for _, g := range getters {
					for _, force := range []bool{false, true} {
						run.run(c16Case{log: l, mfr: google, quote: q, prov: pv.p, provQ: pv.q, getter: g, force: force, reader: true}, m0, p0)
					}
				}
			}
		}
	}
	// ---- (1b) the same product through the `extract` command (flag handling, file input, file output) ----
	for _, l := range coreLogs {
		for _, q := range quickQuotes {
			for _, pv := range provs[1:4] {
				for _, g := range getters {
					for _, force := range []bool{false, true} {
						run.run(c16Case{log: l, mfr: google, quote: q, prov: pv.p, provQ: pv.q, getter: g, force: force, reader: true, cli: true}, m0, p0)
					}
				}
			}
		}
	}
	// ---- (2) every quote format x provider x getter x force, no event log ----
	for _, q := range allQuotes {
		for _, pv := range provs {
			for _, g := range getters {
				for _, force := range []bool{false, true} {
					run.run(c16Case{log: c16LogSpec{state: "none"}, mfr: google, quote: q, prov: pv.p, provQ: pv.q, getter: g, force: force, reader: true}, m0, p0)
				}
			}
		}
	}
	// ---- (2b) certificate-table entries whose first / last byte is one a text reader would strip or stop at
	//      (the entry is the tail of the raw quote formats: ASCII white space, NUL, 0xff), every format that can
	//      carry one ----
	for _, bl := range [][]byte{[]byte("LOCAL-CERT-TABLE-ENTRY\n"), []byte("LOCAL-CERT-TABLE-ENTRY "), []byte("LOCAL-CERT-TABLE-ENTRY\r\n"),
		[]byte("\tLOCAL-CERT-TABLE-ENTRY\t"), []byte("LOCAL-CERT-TABLE-ENTRY\x0b"), []byte("LOCAL-CERT-TABLE-ENTRY\x0c"), []byte("\nLOCAL-CERT-TABLE-ENTRY"),
		[]byte("LOCAL-CERT-TABLE-ENTRY\x00"), []byte("LOCAL-CERT-TABLE-ENTRY\xff"), []byte("\x00LOCAL-CERT-TABLE-ENTRY"), []byte(" "), []byte("\n")} {
		saved := run.blob
		run.blob, run.qcache, run.teeOf = bl, map[string][]byte{}, map[string]string{}
		for _, q := range allQuotes {
			if q.kind != c16Blob {
				continue
			}
			for _, g := range getters[:2] {
				run.run(c16Case{log: c16LogSpec{state: "none"}, mfr: google, quote: q, prov: "nil", getter: g, reader: true}, m0, p0)
				run.run(c16Case{log: c16LogSpec{state: "none"}, mfr: google, quote: c16QuoteSpec{"absent", 0}, prov: "q", provQ: q, getter: g, reader: true}, m0, p0)
			}
		}
		c.Count("blob-boundary-bytes")
		run.blob, run.qcache, run.teeOf = saved, map[string][]byte{}, map[string]string{}
	}
	// ---- (3) every event-log state x manufacturer filter x three quotes x getter x force ----
	var allLogs []c16LogSpec
	allLogs = append(allLogs, c16LogSpec{state: "none"}, c16LogSpec{state: "unreadable"}, c16LogSpec{state: "garbage"}, c16LogSpec{state: "parsed"})
	for _, rs := range rawStates {
		for _, vs := range varStates {
			for _, ls := range localStates {
				for _, us := range uriStates {
					allLogs = append(allLogs, build(rs, vs, ls, us, false))
				}
			}
		}
	}
	for _, l := range allLogs {
		for _, mfr := range []string{google, ""} {
			for _, q := range []c16QuoteSpec{{"absent", 0}, {"sevraw", c16Blob}, {"tpmsev", c16NoBlob}} {
				for _, g := range getters {
					for _, force := range []bool{false, true} {
						run.run(c16Case{log: l, mfr: mfr, quote: q, prov: "nil", getter: g, force: force, reader: true}, m0, p0)
					}
				}
			}
		}
	}
	// nil variable reader with a variable locator (refused with ErrLocateVariableReaderNil since the Locate repair)
	for _, force := range []bool{false, true} {
		run.run(c16Case{log: build("absent", "ok", "absent", "absent", false), mfr: google, quote: c16QuoteSpec{"sevraw", c16Blob}, prov: "nil", getter: "ok", force: force, reader: false}, m0, p0)
	}
	// ---- (3b) the full product: every event-log state x every quote format x every provider x getter x force ----
	mfrs := []string{google}
	if !c.Quick() {
		mfrs = []string{google, ""}
	}
	for _, l := range allLogs {
		for _, mfr := range mfrs {
			for _, q := range allQuotes {
				for _, pv := range provs {
					for _, g := range getters {
						for _, force := range []bool{false, true} {
							run.run(c16Case{log: l, mfr: mfr, quote: q, prov: pv.p, provQ: pv.q, getter: g, force: force, reader: true}, m0, p0)
						}
					}
				}
			}
		}
	}
	c.Extra["endorse_exhaustive_cases"] = c.nCases

	// ---- (4) random sampling of the full product with fresh measurements and shuffled logs ----
	n := c.N(2500, 120000)
	for i := 0; i < n; i++ {
		var l c16LogSpec
		switch r.Intn(10) {
		case 0:
			l = c16LogSpec{state: "none"}
		case 1:
			l = allLogs[r.Intn(4)]
		default:
			l = build(rawStates[r.Intn(3)], varStates[r.Intn(len(varStates))], localStates[r.Intn(2)], uriStates[r.Intn(3)], true)
		}
		pv := provs[r.Intn(len(provs))]
		if pv.p == "q" && r.Bool() {
			pv.q = allQuotes[r.Intn(len(allQuotes))]
		}
		mfr := google
		switch r.Intn(6) {
		case 0:
			mfr = ""
		case 1:
			mfr = other
		}
		run.run(c16Case{log: l, mfr: mfr, quote: allQuotes[r.Intn(len(allQuotes))], prov: pv.p, provQ: pv.q,
			getter: getters[r.Intn(3)], force: r.Intn(3) == 0, reader: true}, c16Meas(r), c16Meas(r))
	}
}

// ---------------------------------------------------------------------------------------------
// names

func runC16Names(c *Ctx) {
	r := c.Rng
	fams := []string{sev.GCEUefiFamilyID, sev.GCEFwCertGUID, "", "unknown", "00000000-0000-0000-0000-000000000000", "ovmf_x64_csm"}
	seen := map[string]string{} // object name -> identity (prefix class / tech / measurement)
	record := func(name, ident, op string) {
		if prev, ok := seen[name]; ok && prev != ident {
			c.Find("c16/GCETcbObjectName/injective/collision", fmt.Sprintf("object name %q stands for %s and for %s", name, prev, ident), op)
		}
		seen[name] = ident
	}
	one := func(tech, fam string, meas []byte) {
		var obj string
		op := fmt.Sprintf("c16 op=name tech=%s fam=%s meas=%s", tech, tok(fam), hx(meas))
		if tech == "tdx" {
			obj = extracttdx.GCETcbObjectName(meas)
		} else {
			obj = extractsev.GCETcbObjectName(fam, meas)
		}
		url := verify.GCETcbURL(obj)
		c.Case(op, "obj="+hx([]byte(obj))+" url="+hx([]byte(url)), true)
		class := "gce"
		if tech == "sev" && fam != sev.GCEUefiFamilyID && fam != sev.GCEFwCertGUID {
			class = "unknown"
		}
		record(obj, class+"/"+tech+"/"+hx(meas), op)
		record(url, "url:"+class+"/"+tech+"/"+hx(meas), op)
		if class == "gce" {
			t := map[string]string{"sev": "sevsnp", "tdx": "tdx"}[tech]
			if obj != c16SpecName(t, meas) {
				c.Find("c16/GCETcbObjectName/layout/"+tech, fmt.Sprintf("object name %q is not <family prefix>/<technology>/<hex>.binarypb = %q", obj, c16SpecName(t, meas)), op)
			}
			if url != c16SpecURL(obj) {
				c.Find("c16/GCETcbURL/layout", fmt.Sprintf("URL %q is not the bucket URL of %q", url, obj), op)
			}
		}
		c.Count("name/tech=" + tech + "/family=" + class)
	}
	for l := 0; l <= 64; l++ {
		m := r.Bytes(l)
		for _, f := range fams {
			one("sev", f, m)
		}
		one("tdx", "", m)
		if l > 0 { // one-bit neighbour and prefix/extension
			nb := append([]byte{}, m...)
			nb[r.Intn(l)] ^= 1 << uint(r.Intn(8))
			one("sev", sev.GCEUefiFamilyID, nb)
			one("tdx", "", nb)
			one("sev", sev.GCEUefiFamilyID, m[:l-1])
			one("sev", sev.GCEUefiFamilyID, append(append([]byte{}, m...), 0))
		}
	}
	for i := 0; i < c.N(300, 20000); i++ {
		m := r.Bytes([]int{48, 48, 48, 47, 49, 1, 0, 96}[r.Intn(8)])
		if r.Bool() {
			one("sev", fams[r.Intn(len(fams))], m)
		} else {
			one("tdx", "", m)
		}
	}
}

// ---------------------------------------------------------------------------------------------
// variable names

type c16NameCase struct {
	kind string
	name []byte // UCS-2 bytes including terminator (as they follow the GUID in the locator)
}

func c16HostileNames(r *Rng) []c16NameCase {
	z := func(s string) []byte { return append(c16UCS2(s), 0, 0) }
	units := func(us ...uint16) []byte {
		var out []byte
		for _, u := range us {
			out = append(out, byte(u), byte(u>>8))
		}
		return append(out, 0, 0)
	}
	long := func(n int, ch string) string { return strings.Repeat(ch, n) }
	return []c16NameCase{
		{"plain", z("Var")}, {"plain", z("FirmwareRIM")}, {"plain", z("a")},
		{"dotdot", z("..")}, {"dotdot", z("../Var")}, {"dotdot", z("../../Var")}, {"dotdot", z("../../../../../../../../etc/passwd")},
		{"dotdot", z("sub/../../Var")}, {"dotdot", z("sub/../Var")}, {"dotdot", z("Var/..")}, {"dotdot", z("a/b/../../../Var")},
		{"slash", z("/Var")}, {"slash", z("//Var")}, {"slash", z("sub/Var")}, {"slash", z("Var/")}, {"slash", z("sub//Var")}, {"slash", z("/")},
		{"slash", z("/etc/passwd")}, {"dot", z(".")}, {"dot", z("./Var")}, {"dot", z("sub/./Var")},
		{"nul", units('V', 0, 'a')}, {"nul", append(z("Var"), 0, 0)}, {"nul", units(0, 'V')}, {"nul", units('s', 'u', 'b', '/', 0, '/', 'V')},
		{"surrogate", units(0xD83D, 0xDE00)}, {"surrogate", units('V', 0xD800)}, {"surrogate", units(0xDC00, 'V')}, {"surrogate", units(0xDC00, 0xDC01, 'V')},
		{"surrogate", units(0xD800, 0xD800, 'V')}, {"surrogate", units('V', 0xDBFF, 0xDFFF)}, {"surrogate", units(0xD800)},
		{"bmp", z("Vär")}, {"bmp", z("変数")}, {"bmp", units(0xFFFD, 'V')}, {"bmp", units(0xFEFF, 'V')}, {"bmp", units(0xFFFE, 'V')}, {"bmp", units(0xFFFF)},
		{"long", z(long(200, "x"))}, {"long", z(long(218, "x"))}, {"long", z(long(219, "x"))}, {"long", z(long(220, "x"))}, {"long", z(long(300, "x"))}, {"long", z(long(1000, "x"))},
		{"long", z(long(73, "変"))}, {"long", z(long(72, "変") + "xx")}, {"long", z(long(74, "変"))}, {"long", z("sub/" + long(219, "y"))}, {"long", z("sub/" + long(230, "y"))},
		{"long", z(long(100, "a/") + "Var")}, {"long", z(long(50, "../") + "Var")},
		{"malformed", []byte{'V', 0, 'a', 0, 'r', 0}}, {"malformed", []byte{'V', 0, 0}}, {"malformed", []byte{0, 0}}, {"malformed", []byte{'V', 0, 'a', 0, 0}},
		{"malformed", []byte{'V', 0, 0, 1}}, {"malformed", []byte{0, 0, 0, 0}}, {"malformed", []byte{}}, {"malformed", []byte{'V'}},
	}
}

func runC16ReadVar(c *Ctx) {
	r := c.Rng
	guids := []uuid.UUID{uuid.MustParse("6a7b6885-92bc-40cd-9fb5-300f9d1eb0ed"), uuid.MustParse(c16SpecGoogleVar), {}, uuid.MustParse("ffffffff-ffff-ffff-ffff-ffffffffffff")}
	names := c16HostileNames(r)
	doCase := func(nc c16NameCase, g uuid.UUID, scenario string) {
		fs := c16NewFS()
		defer fs.Close()
		// sentinels outside the root, at the places a naive join would reach
		for _, base := range []string{"Var", "FirmwareRIM", "a", "passwd"} {
			os.WriteFile(filepath.Join(fs.outer, base+"-"+g.String()), c16VarContent([]byte(c16Sentinel)), 0644)
		}
		secret := filepath.Join(fs.outer, "secret")
		os.Mkdir(secret, 0755)
		os.WriteFile(filepath.Join(secret, "Var-"+g.String()), c16VarContent([]byte(c16Sentinel)), 0644)
		os.Mkdir(filepath.Join(fs.root, "sub"), 0755)
		loc := append(c16EfiGUID(g), nc.name...)
		reader := exel.MakeEfiVarFSReader(fs.root)
		sym := false
		fileAt := "absent"
		switch scenario {
		case "present", "short":
			// place the variable where the implementation says it will look — only if that is inside the root
			var p string
			var err error
			if len(loc) > 18 && len(nc.name)%2 == 0 {
				Guard(func() { p, err = exel.VerifVarBasename(reader, g, nc.name) })
			}
			if p != "" && err == nil && strings.HasPrefix(p, fs.root+"/") {
				if os.MkdirAll(filepath.Dir(p), 0755) == nil {
					if scenario == "present" {
						os.WriteFile(p, c16VarContent([]byte("VARIABLE-CONTENT")), 0644)
					} else {
						os.WriteFile(p, []byte{1, 2, 3}, 0644)
					}
				}
			}
		case "dirlink-abs": // root/sub2 -> <outer>/secret (absolute target outside)
			sym = true
			os.Symlink(secret, filepath.Join(fs.root, "lnk"))
			nc = c16NameCase{"symlink", append(c16UCS2("lnk/Var"), 0, 0)}
		case "dirlink-rel": // root/lnk -> ../secret
			sym = true
			os.Symlink("../secret", filepath.Join(fs.root, "lnk"))
			nc = c16NameCase{"symlink", append(c16UCS2("lnk/Var"), 0, 0)}
		case "dirlink-inside": // root/lnk -> sub, which holds the variable
			sym = true
			os.Symlink("sub", filepath.Join(fs.root, "lnk"))
			os.WriteFile(filepath.Join(fs.root, "sub", "Var-"+g.String()), c16VarContent([]byte("VARIABLE-CONTENT")), 0644)
			fileAt = hx(c16VarContent([]byte("VARIABLE-CONTENT")))
			nc = c16NameCase{"symlink", append(c16UCS2("lnk/Var"), 0, 0)}
		case "filelink-abs": // root/Var-<guid> -> <outer>/secret/Var-<guid>
			sym = true
			os.Symlink(filepath.Join(secret, "Var-"+g.String()), filepath.Join(fs.root, "Var-"+g.String()))
			nc = c16NameCase{"symlink", append(c16UCS2("Var"), 0, 0)}
		case "filelink-rel": // root/Var-<guid> -> ../secret/Var-<guid>
			sym = true
			os.Symlink("../secret/Var-"+g.String(), filepath.Join(fs.root, "Var-"+g.String()))
			nc = c16NameCase{"symlink", append(c16UCS2("Var"), 0, 0)}
		case "linkchain": // root/l1 -> l2, root/l2 -> ../../secret ; name "l1/Var"
			sym = true
			os.Symlink("l2", filepath.Join(fs.root, "l1"))
			os.Symlink("../../secret", filepath.Join(fs.root, "l2"))
			nc = c16NameCase{"symlink", append(c16UCS2("l1/Var"), 0, 0)}
		case "linkloop": // root/loop -> loop
			sym = true
			os.Symlink("loop", filepath.Join(fs.root, "loop"))
			fileAt = "sjerr"
			nc = c16NameCase{"symlink", append(c16UCS2("loop/Var"), 0, 0)}
		}
		loc = append(c16EfiGUID(g), nc.name...)
		rd := &c16Reader{inner: reader}
		var out []byte
		var err error
		pan, _, _ := Guard(func() {
			out, err = exel.Locate(eventlog.RIMLocationVariable, loc, &exel.LocateOptions{UEFIVariableReader: rd})
		})
		var op string
		if sym {
			op = fmt.Sprintf("c16 op=readvar loc=%s sym=1 file=%s", hx(loc), fileAt)
		} else {
			op = fmt.Sprintf("c16 op=readvar loc=%s fs=%s sym=0", hx(loc), fs.listing())
		}
		cls := "ok out=" + hx(out)
		if pan {
			cls = "panic out="
		} else if err != nil {
			cls = "err=" + c16VarErrClass(rd, err) + " out="
		}
		hp := make([]string, len(rd.paths))
		for i, p := range rd.paths {
			hp[i] = hx([]byte(fs.modelPath(p)))
		}
		pathsField := strings.Join(hp, ";")
		if sym {
			pathsField = "*"
		}
		c.Case(op, fmt.Sprintf("%s urls= paths=%s prov=0", cls, pathsField), len(rd.paths) > 0)
		c.Count("readvar/name=" + nc.kind + "/" + scenario)
		c.Count("readvar/result=" + strings.Fields(cls)[0])
		fs.checkConfined(c, "ReadVariable", rd.paths, out, op)
	}
	scen := []string{"empty", "present", "short"}
	for _, nc := range names {
		for _, s := range scen {
			doCase(nc, guids[0], s)
		}
		doCase(nc, guids[1+r.Intn(3)], "present")
	}
	for _, s := range []string{"dirlink-abs", "dirlink-rel", "dirlink-inside", "filelink-abs", "filelink-rel", "linkchain", "linkloop"} {
		for _, g := range guids[:2] {
			doCase(c16NameCase{}, g, s)
		}
	}
	// random names over a hostile alphabet
	alphabet := []uint16{'a', 'V', '/', '.', '.', '/', 0, 0xD800, 0xDC00, 0xE9, 0x5909, '-', ' ', 0xFFFD, '\\', ':'}
	for i := 0; i < c.N(400, 20000); i++ {
		n := 1 + r.Intn(12)
		var nb []byte
		for j := 0; j < n; j++ {
			u := alphabet[r.Intn(len(alphabet))]
			nb = append(nb, byte(u), byte(u>>8))
		}
		nb = append(nb, 0, 0)
		if r.Intn(25) == 0 {
			nb = nb[:len(nb)-1]
		}
		g, _ := uuid.FromBytes(r.Bytes(16))
		doCase(c16NameCase{"random", nb}, g, scen[r.Intn(3)])
	}
}

// c16VarErrClass mirrors the model's error classes from observables only: whether a path was
// recorded (the join succeeded) and what is at that path.
func c16VarErrClass(rd *c16Reader, err error) string {
	if len(rd.paths) == 0 {
		return "nopath"
	}
	st, serr := os.Stat(rd.paths[len(rd.paths)-1])
	if serr == nil && st.Mode().IsRegular() {
		return "illformed"
	}
	return "read"
}

// ---------------------------------------------------------------------------------------------
// emitted events

func c16ParseEvent(data []byte) (*eventlog.SP800155Event3, bool) {
	var buf bytes.Buffer
	binary.Write(&buf, binary.LittleEndian, uint32(len(data)))
	buf.Write(data)
	d := &eventlog.TCGEventData{}
	var err error
	if pan, _, _ := Guard(func() { err = d.Unmarshal(&buf) }); pan || err != nil {
		return nil, false
	}
	e, ok := d.Event.(*eventlog.SP800155Event3)
	return e, ok
}

func c16ShowEvent(tag string, e *eventlog.SP800155Event3, ok bool) string {
	if !ok {
		return " " + tag + "=undecodable"
	}
	return fmt.Sprintf(" %sg=%s %st=%d %sl=%s %sm=%s %spm=%s %sid=%d/%d %smod=%s %spv=%s %sfv=%s %sct=%d %scl=%s",
		tag, hx(e.ReferenceManifestGUID.UUID[:]), tag, e.RIMLocatorType, tag, hx(e.RIMLocator.Data), tag, hx([]byte(e.FirmwareManufacturerStr.Data)),
		tag, hx([]byte(e.PlatformManufacturerStr.Data)), tag, e.PlatformManufacturerID, e.FirmwareManufacturerID,
		tag, hx([]byte(e.PlatformModel.Data)), tag, hx([]byte(e.PlatformVersion.Data)), tag, hx([]byte(e.FirmwareVersion.Data)),
		tag, e.PlatformCertLocatorType, tag, hx(e.PlatformCertLocator.Data))
}

func runC16Events(c *Ctx, fs *c16FS) {
	r := c.Rng
	ctx := quietCtx(false)
	n := c.N(12, 150)
	for i := 0; i < n; i++ {
		size := []int{0x1000, 0x1000, 0x2000, 0x3000}[r.Intn(4)]
		img := cleanFirmware(size, byte(r.Intn(256)))
		for j := 0; j < 8; j++ {
			img[0x500+r.Intn(0x100)] = byte(r.Next())
		}
		rnd := r.Bytes(16)
		ec := &endorse.Context{Image: img, ClSpec: 1, SevSnp: &sev.SnpEndorsementRequest{Svn: 1, LaunchVmsas: 1, Product: spb.SevProduct_SEV_PRODUCT_MILAN, FamilyID: sev.GCEUefiFamilyID}}
		golden, err := endorse.GoldenMeasurement(endorse.NewContext(ctx, ec))
		if err != nil {
			panic(err)
		}
		end := &epb.VMLaunchEndorsement{SerializedUefiGolden: c16Marshal(golden)}
		blob, err := endorse.VerifMakeEvents(bytes.NewReader(rnd), end)
		op := fmt.Sprintf("c16 op=events rnd=%s image=%s", hx(rnd), hx(img))
		if err != nil {
			c.Case(op, "err", true)
			c.Find("c16/makeEvents/error", "makeEvents failed: "+err.Error(), "image size "+fmt.Sprint(size))
			continue
		}
		evs := &evpb.Sp800155Events{}
		if err := proto.Unmarshal(blob, evs); err != nil || len(evs.Events) != 2 {
			c.Case(op, "err", true)
			c.Find("c16/makeEvents/events-roundtrip/count", fmt.Sprintf("makeEvents produced %d events, want 2 (%v)", len(evs.GetEvents()), err), op[:80])
			continue
		}
		ve, vok := c16ParseEvent(evs.Events[0])
		ue, uok := c16ParseEvent(evs.Events[1])
		c.Case(op, "ok var="+hx(evs.Events[0])+" uri="+hx(evs.Events[1])+c16ShowEvent("v", ve, vok)+c16ShowEvent("u", ue, uok), true)
		c.Count(fmt.Sprintf("events/image=%#x", size))
		replay := fmt.Sprintf("c16 op=events rnd=%s image=<%d bytes, sha384 %x>", hx(rnd), len(img), sha512.Sum384(img))
		// direct oracle: the events parse back to what the property says was emitted
		if !vok || !uok {
			c.Find("c16/makeEvents/events-roundtrip/undecodable", "an emitted event does not parse back", replay)
			continue
		}
		digest := sha512.Sum384(img)
		wantURI := c16SpecURL(c16SpecFamily + "/" + hex.EncodeToString(digest[:]) + ".fd.signed")
		wantVar := c16VarLoc(uuid.MustParse(c16SpecGoogleVar), c16SpecVarName)
		if ve.RIMLocatorType != eventlog.RIMLocationVariable || !bytes.Equal(ve.RIMLocator.Data, wantVar) {
			c.Find("c16/makeEvents/events-roundtrip/variable-locator", fmt.Sprintf("first event is not the FirmwareRIM variable locator under the Google GUID: type %d locator %x", ve.RIMLocatorType, ve.RIMLocator.Data), replay)
		}
		if ue.RIMLocatorType != eventlog.RIMLocationURI || string(ue.RIMLocator.Data) != wantURI {
			c.Find("c16/makeEvents/events-roundtrip/uri-locator", fmt.Sprintf("second event's URI locator %q is not the bucket URL of the image's SHA-384 %q", ue.RIMLocator.Data, wantURI), replay)
		}
		if ve.ReferenceManifestGUID.UUID != ue.ReferenceManifestGUID.UUID {
			c.Find("c16/makeEvents/events-roundtrip/manifest-guid", "the two events carry different reference manifest GUIDs", replay)
		}
		if ve.FirmwareManufacturerStr.Data != c16SpecMfr || ue.FirmwareManufacturerStr.Data != c16SpecMfr {
			c.Find("c16/makeEvents/events-roundtrip/manufacturer", "emitted events do not carry the Google firmware manufacturer", replay)
		}
		// end to end: a log carrying the emitted events leads extraction to the FirmwareRIM variable
		for _, present := range []bool{true, false} {
			efs := c16NewFS()
			logDir := filepath.Join(efs.outer, "logs")
			os.Mkdir(logDir, 0755)
			content := []byte("ENDORSEMENT-IN-FIRMWARE-RIM")
			if present {
				os.WriteFile(filepath.Join(efs.root, c16SpecVarName+"-"+c16SpecGoogleVar), c16VarContent(content), 0644)
			}
			run := &c16Runner{c: c, fs: efs, logDir: logDir, logs: map[string]string{}, qcache: map[string][]byte{}, teeOf: map[string]string{}, blob: []byte("LOCAL-CERT-TABLE-ENTRY")}
			evl := []c16Event{
				{eventType: eventlog.EvNoAction, rim: true, mfr: ue.FirmwareManufacturerStr.Data, locType: ue.RIMLocatorType, loc: ue.RIMLocator.Data},
				{eventType: eventlog.EvNoAction, rim: true, mfr: ve.FirmwareManufacturerStr.Data, locType: ve.RIMLocatorType, loc: ve.RIMLocator.Data},
			}
			for _, g := range []string{"ok", "nil"} {
				run.run(c16Case{log: c16LogSpec{state: "parsed", evs: evl}, mfr: extract.GCEFirmwareManufacturer, quote: c16QuoteSpec{"sevraw", c16NoBlob},
					prov: "nil", getter: g, force: false, reader: true}, c16Meas(r), c16Meas(r))
			}
			efs.Close()
		}
	}
}

// c16RandomEvent3 builds a well-formed event with random field contents.
func c16RandomEvent3(r *Rng) *eventlog.SP800155Event3 {
	str := func(max int) string {
		b := r.Bytes(r.Intn(max + 1))
		for i := range b {
			if b[i] == 0 && r.Intn(4) != 0 {
				b[i] = 'x'
			}
		}
		return string(b)
	}
	g, _ := uuid.FromBytes(r.Bytes(16))
	return &eventlog.SP800155Event3{
		PlatformManufacturerID: uint32(r.Next()), ReferenceManifestGUID: eventlog.EfiGUID{UUID: g},
		PlatformManufacturerStr: eventlog.ByteSizedCStr{Data: str(20)}, PlatformModel: eventlog.ByteSizedCStr{Data: str(30)},
		PlatformVersion: eventlog.ByteSizedCStr{Data: str(3)}, FirmwareManufacturerStr: eventlog.ByteSizedCStr{Data: str(254)},
		FirmwareManufacturerID: uint32(r.Next()), FirmwareVersion: eventlog.ByteSizedCStr{Data: str(8)},
		RIMLocatorType: uint32(r.Intn(5)), RIMLocator: eventlog.Uint32SizedArray{Data: r.Bytes(r.Intn(300))},
		PlatformCertLocatorType: uint32(r.Intn(4)), PlatformCertLocator: eventlog.Uint32SizedArray{Data: r.Bytes(r.Intn(40))},
	}
}

func runC16Parse(c *Ctx) {
	r := c.Rng
	n := c.N(600, 30000)
	for i := 0; i < n; i++ {
		e := c16RandomEvent3(r)
		data, err := e.MarshalToBytes()
		if err != nil {
			continue
		}
		kind := "wellformed"
		switch r.Intn(8) {
		case 0:
			data = data[:r.Intn(len(data)+1)]
			kind = "truncated"
		case 1:
			data = append(data, make([]byte, r.Intn(9))...)
			kind = "zero-padded"
		case 2:
			data = append(data, byte(1+r.Intn(255)))
			kind = "trailing-nonzero"
		case 3: // damage the signature, the manufacturer id or the GUID (never a size field: a damaged
			// size makes the decoder allocate what it declares, which is C07/C18's subject)
			data = append([]byte{}, data...)
			data[r.Intn(36)] ^= byte(1 << uint(r.Intn(8)))
			kind = "bitflip-head"
		}
		pe, ok := c16ParseEvent(data)
		impl := "none"
		if ok {
			impl = "ok" + c16ShowEvent("e", pe, true)
		}
		c.Case("c16 op=parse data="+hx(data), impl, ok)
		c.Count("parse/" + kind + "/" + strings.Fields(impl)[0])
		if kind == "wellformed" || kind == "zero-padded" {
			if !ok || pe.RIMLocatorType != e.RIMLocatorType || !bytes.Equal(pe.RIMLocator.Data, e.RIMLocator.Data) ||
				pe.ReferenceManifestGUID.UUID != e.ReferenceManifestGUID.UUID || pe.FirmwareManufacturerStr.Data != e.FirmwareManufacturerStr.Data {
				c.Find("c16/SP800155Event3/roundtrip", "a marshalled event does not parse back to the same locator / GUID / manufacturer", hx(data))
			}
		}
	}
}

// ---------------------------------------------------------------------------------------------
// the two other fetch sites

func runC16Sites(c *Ctx) {
	r := c.Rng
	lens := []int{0, 1, 4, 47, 48, 48, 48, 49, 96}
	fams := []string{sev.GCEUefiFamilyID, sev.GCEFwCertGUID, "00000000-0000-0000-0000-000000000000"}
	for i := 0; i < c.N(150, 5000); i++ {
		m := r.Bytes(lens[r.Intn(len(lens))])
		// ---- verify.SNPFamilyValidateFunc closure ----
		fam := fams[r.Intn(len(fams))]
		ser, hasEnd, hasGetter, nilAtt := r.Intn(3) == 0, r.Intn(4) == 0, r.Intn(5) != 0, r.Intn(12) == 0
		g := &c16Getter{}
		vo := &verify.Options{Now: baseTime}
		if hasGetter {
			vo.Getter = g
		}
		if hasEnd {
			vo.Endorsement = &epb.VMLaunchEndorsement{}
		}
		vf := verify.SNPFamilyValidateFunc(fam, vo)
		var serialized []byte
		if ser {
			serialized = []byte("not an endorsement")
		}
		att := &spb.Attestation{Report: c16Report(m)}
		ml := hx(m)
		if nilAtt {
			att, ml = nil, "nil"
		}
		// what the closure does after the fetch (signature and policy checks on a body that is not an
		// endorsement, including the nil-timestamp panic that C07 reports) is not this property's subject
		Guard(func() { vf(att, serialized) })
		op := fmt.Sprintf("c16 op=closure fam=%s meas=%s ser=%s end=%s getter=%s", fam, ml, b2s(ser), b2s(hasEnd), b2s(hasGetter))
		c.Case(op, "urls="+c16HexList(g.urls), len(m) == 48)
		for _, u := range g.urls {
			want := c16SpecURL(c16SpecName("sevsnp", m))
			if fam == fams[2] {
				want = c16SpecURL("unknown/sevsnp/" + hex.EncodeToString(m) + ".binarypb")
			}
			if len(m) != 48 || u != want {
				c.Find("c16/verify.SNPFamilyValidateFunc/fetch-url/not-a-full-length-measurement", "closure requested "+u, op)
			}
		}
		c.Count(fmt.Sprintf("closure/len=%d/urls=%d", len(m), len(g.urls)))

		// ---- gcetcbendorsement.SevValidate -> extractEndorsement ----
		g2 := &c16Getter{fail: r.Bool()}
		extra := r.Intn(4) == 0
		so := &gcetcbendorsement.SevValidateOptions{Now: baseTime}
		hasGetter2 := r.Intn(6) != 0
		if hasGetter2 {
			so.Getter = g2
		}
		att2 := &spb.Attestation{Report: c16Report(m)}
		if extra {
			att2.CertificateChain = &spb.CertificateChain{Extras: map[string][]byte{sev.GCEFwCertGUID: c16Marshal(&epb.VMLaunchEndorsement{SerializedUefiGolden: []byte{}})}}
		}
		Guard(func() { gcetcbendorsement.SevValidate(quietCtx(false), att2, so) })
		op = fmt.Sprintf("c16 op=sevvalidate meas=%s extra=%s getter=%s", hx(m), b2s(extra), b2s(hasGetter2))
		// the validator closure inside SevValidate may fetch too (same URL); only the first request is extractEndorsement's
		first := g2.urls
		if len(first) > 1 {
			first = first[:1]
		}
		c.Case(op, "urls="+c16HexList(first), len(m) == 48)
		for _, u := range g2.urls {
			if len(m) != 48 || u != c16SpecURL(c16SpecName("sevsnp", m)) {
				c.Find("c16/SevValidate/fetch-url/not-a-full-length-measurement", "SevValidate requested "+u+" for a report measurement of "+fmt.Sprint(len(m))+" bytes", op)
			}
		}
		c.Count(fmt.Sprintf("sevvalidate/len=%d/urls=%d", len(m), len(g2.urls)))
	}
}

func c16HexList(l []string) string {
	h := make([]string, len(l))
	for i, s := range l {
		h[i] = hx([]byte(s))
	}
	return strings.Join(h, ";")
}

func runC16(c *Ctx) {
	q, err := tabi.QuoteToProto(testdata.RawQuote)
	if err != nil {
		panic(err)
	}
	c16TdxQuote = q.(*tpb.QuoteV4)
	runC16Names(c)
	fs := c16NewFS()
	defer fs.Close()
	runC16Endorse(c, fs)
	runC16ReadVar(c)
	runC16Events(c, fs)
	runC16Parse(c)
	runC16Sites(c)
}
