package main

import (
	"fmt"
	"os"

	"github.com/google/gce-tcb-verifier/rotate"
)

// runC10Collide exercises the input class the C10 theorems exclude by their `Fresh` hypothesis: a rotation
// whose serial override equals the current primary's subject serial (same common name), run with
// --overwrite, so that the new certificate is written to the object that holds the primary's
// certificate. Direct oracle only (no model line): after every single fault and reload the recorded
// primary must still be usable.
func runC10Collide(c *Ctx, snaps map[string]*e1Snap) {
	for _, ca := range []string{"gcsmem", "gcslocal"} {
		// measure the call positions with a fault-free colliding run
		positions := 0
		for pos := -1; pos < positions || pos == -1; pos++ {
			for _, o := range []int{fFail, fCrash} {
				if pos == -1 && o == fCrash {
					continue
				}
				dir, err := os.MkdirTemp("", "verif-c10x-")
				must(err)
				script := map[int]int{}
				if pos >= 0 {
					script[pos] = o
				}
				in := newInst("memkm", ca, snaps["gcs/0"], dir, &Rng{s: c.Rng.Next()})
				serial := in.nextSerial() - 1 // the current primary's own subject serial
				ctx := rotateCtx(in.ctx(true, script), e1SignCN, serial)
				f := in.f
				res, _ := runGuarded(func() error { _, err := rotate.Key(ctx); return err })
				if pos == -1 {
					positions = len(f.log)
					c.Extra["collide_positions_"+ca] = positions
				}
				in.reloadKM()
				c.Count("collide/" + ca + "/res-" + res)
				if cl, d := c10Oracle(in); cl != "" {
					c.Find("c10/rotate.Key/"+cl+"/serial-override-collides-with-primary-certificate",
						"rotation whose serial override (with --overwrite) reuses the primary's certificate object name, interrupted before the manifest write: "+d,
						fmt.Sprintf("stack=memkm+%s serial=%d overwrite=1 script=%s log=%v", ca, serial, scriptString(script), f.log))
				}
				os.RemoveAll(dir)
			}
		}
	}
}
