package main

// c10CollideCases builds and runs the cases of the input class that was finding D22 before gcsca.upload was
// repaired: a rotation whose serial override equals the current primary's subject serial (same common name),
// so that the new certificate's object name is the one that holds the primary's certificate.  The repaired
// upload refuses such an object before any storage call, with and without --overwrite; the Lean model
// (Model/CA.lean `heldByOther`) predicts call log, result and post-state, and the direct oracle of
// runC10Case checks that the primary's certificate object is never written, that the run does not report
// success, and every C10 clause after reload (under the signature the finding had).
func c10CollideCases(c *Ctx, base []*c10Case, runBatch func([]*c10Case, int, int), pre, post int) (collBase, singles []*c10Case) {
	seen := map[string]bool{}
	for _, b := range base {
		if b.ca == "memca" {
			continue // memca keys its certificates by key-version name: no object names, nothing to collide with
		}
		for _, ow := range []bool{false, true} {
			k := b.km + "/" + b.ca + "/" + string(rune('0'+b.hist)) + "/" + b2s(ow)
			if seen[k] || (c.Quick() && b.hist > 0 && !ow) {
				continue
			}
			seen[k] = true
			collBase = append(collBase, &c10Case{km: b.km, ca: b.ca, hist: b.hist, overwrite: ow, collide: true,
				script: map[int]int{}, seed: c.Rng.Next()})
		}
	}
	runBatch(collBase, pre, post)
	for _, b := range collBase {
		for pos := 0; pos < b.logLen; pos++ {
			for _, o := range []int{fFail, fCrash} {
				if c.Quick() && o == fCrash && pos < b.logLen-2 && b.km == "localkm" {
					continue // quick: crashes before Finalize sampled on one key manager
				}
				singles = append(singles, &c10Case{km: b.km, ca: b.ca, hist: b.hist, overwrite: b.overwrite, collide: true,
					script: map[int]int{pos: o}, seed: c.Rng.Next()})
			}
		}
	}
	runBatch(singles, pre, post)
	return
}
