package main

// C03 on the production key stack: gcpkms.Manager + gcpkms.Signer over the in-process Cloud KMS service of
// c10_kms_svc.go, gcsca over testing/storage.  Bootstrap, rotations and every endorsement signature go
// through the real Cloud KMS client code path (CreateCryptoKey, polling, GetPublicKey, AsymmetricSign with
// its CRC32C handshake, DestroyCryptoKeyVersion).

import (
	"context"

	"github.com/google/gce-tcb-verifier/keys"
	"github.com/google/gce-tcb-verifier/keys/gcpkms"
	"github.com/google/gce-tcb-verifier/sign/gcsca"
	teststorage "github.com/google/gce-tcb-verifier/testing/storage"
)

func newC03KmsStack(r *Rng) *c03Stack {
	cl := &k10Client{svc: &k10Svc{iam: map[string][]string{}}, rng: &Rng{s: r.Next()}}
	mgr := cl.manager()
	ca := &gcsca.CertificateAuthority{RootPath: "root.crt", PrivateBucket: "bkt", SigningCertDirInGCS: "certs",
		Storage: &teststorage.Mock{}}
	return &c03Stack{
		name:  "gcpkms+gcsca-mem",
		kc:    &keys.Context{CA: ca, Signer: &gcpkms.Signer{Manager: mgr}, Random: r, Manager: mgr},
		clean: func() {},
		wrap: func(ctx context.Context) context.Context {
			ctx = gcpkms.NewBootstrapContext(ctx, &gcpkms.BootstrapContext{RootKeyID: k10RootID, SigningKeyID: k10SignID,
				SigningKeyOperators: []string{"serviceAccount:signer@example.com"}})
			return gcpkms.NewSigningKeyContext(ctx, &gcpkms.SigningKeyContext{SigningKeyID: k10SignID})
		},
	}
}
