package main

// External changes of Cloud KMS key versions during or between rotations (an operator or another process
// disables / destroys a version).  These are not faults of a call rotation makes, so they are outside the
// quantifier of C10 and outside the model; the direct oracle is evaluated all the same and the outcome is
// recorded in the histogram.  A clause that fails here only because the external actor removed the very
// key the clause is about is counted ("external/...") and not reported as a finding; anything else is.

import (
	"fmt"
	"os"
	"strings"

	"github.com/google/gce-tcb-verifier/rotate"
)

type k10Scenario struct {
	name string
	// arm installs the external event on the instance before the run (k.cl is the run's client)
	arm func(k *k10Inst, oldPrimary string)
	// expected: the run's result and the clause the oracle may report because of the external event ("" = none)
	wantRes     string
	mayViolate  string
	retryNeeds  func(k *k10Inst) // undo of the external event before the retry (nil = none)
	retryMayErr bool
}

func runC10KmsScenarios(c *Ctx, snaps map[string]*k10Snap) {
	newest := func(k *k10Inst) *k10Ver {
		vs := k.svc.key(k10Parent).vers
		return vs[len(vs)-1]
	}
	scen := []k10Scenario{
		{name: "old-primary-disabled-before-run", wantRes: "ok",
			arm: func(k *k10Inst, old string) { k.svc.ver(old).state = ksDisabled }},
		{name: "old-primary-destroyed-after-commit", wantRes: "err",
			arm: func(k *k10Inst, old string) {
				k.cl.hook = func(l string) {
					if strings.HasPrefix(l, "kms.destroy.") {
						k.svc.ver(old).state = ksDestroyed
					}
				}
			}},
		{name: "root-disabled-after-key-creation", wantRes: "err",
			arm: func(k *k10Inst, old string) {
				k.cl.hook = func(l string) {
					if strings.HasPrefix(l, "kms.pub.") {
						k.svc.ver(k10RootKey).state = ksDisabled
					}
				}
			},
			retryNeeds: func(k *k10Inst) { k.svc.ver(k10RootKey).state = ksEnabled }},
		{name: "root-disabled-stays-disabled", wantRes: "err", retryMayErr: true,
			arm: func(k *k10Inst, old string) {
				k.cl.hook = func(l string) {
					if strings.HasPrefix(l, "kms.sign.") {
						k.svc.ver(k10RootKey).state = ksDisabled
					}
				}
			}},
		{name: "new-version-disabled-after-certification", wantRes: "ok", mayViolate: "primary-not-live",
			arm: func(k *k10Inst, old string) {
				k.cl.hook = func(l string) {
					if strings.HasPrefix(l, "kms.sign.") {
						// the signature request is the last KMS call before Finalize: from here on the new version is
						// certified; the external actor disables it before the manifest is written
						newest(k).state = ksDisabled
					}
				}
			}},
		{name: "old-primary-disabled-mid-run", wantRes: "ok",
			arm: func(k *k10Inst, old string) {
				k.cl.hook = func(l string) {
					if strings.HasPrefix(l, "kms.sign.") {
						k.svc.ver(old).state = ksDisabled
					}
				}
			}},
	}
	for _, sc := range scen {
		for _, ca := range []string{"gcsmem", "gcslocal"} {
			dir, err := os.MkdirTemp("", "verif-c10ks-")
			must(err)
			k := newK10Inst(ca, snaps["1"], dir, &Rng{s: c.Rng.Next()})
			old := k.primary()
			ctx := rotateCtx(k.ctx(false, nil, k10Env{}), "sig", k.in.nextSerial())
			sc.arm(k, old)
			res, rerr := runGuarded(func() error { _, err := rotate.Key(ctx); return err })
			k.cl.cancel()
			log := strings.Join(k.f.log, ",")
			replay := fmt.Sprintf("scenario=%s stack=gcpkms+%s hist=1 log=%s", sc.name, ca, log)
			c.Count("scenario/" + sc.name + "/res-" + res)
			if res != sc.wantRes {
				c.Find("c10/gcpkms/scenario-unexpected-result/"+sc.name, fmt.Sprintf("rotate.Key returned %s (%v), expected %s", res, rerr, sc.wantRes), replay)
			}
			cl, d := k10Oracle(k)
			switch {
			case cl == "":
				c.Count("scenario/" + sc.name + "/oracle-ok")
			case cl == sc.mayViolate:
				c.Count("external/" + sc.name + "/" + cl)
			default:
				c.Find("c10/gcpkms/"+cl+"/scenario-"+sc.name, "after an external change of a key version: "+d, replay)
			}
			// destroy-after-commit holds regardless of what the external actor does
			commit := false
			for _, l := range k.f.log {
				if l == "st.c.keyManifest.textproto" {
					commit = true
				}
				if strings.HasPrefix(l, "kms.destroy.") && !commit {
					c.Find("c10/gcpkms/destroy-before-manifest-write/scenario-"+sc.name, "destroy request before the manifest write: "+log, replay)
				}
			}
			if sc.retryNeeds != nil {
				sc.retryNeeds(k)
			}
			if cl == "" || sc.retryNeeds != nil {
				ctx2 := rotateCtx(k.ctx(true, nil, k10Env{}), "sig", k.in.nextSerial())
				res2, err2 := runGuarded(func() error { _, err := rotate.Key(ctx2); return err })
				k.cl.cancel()
				c.Count("scenario/" + sc.name + "/retry-" + res2)
				if res2 != "ok" && !sc.retryMayErr {
					c.Find("c10/gcpkms/retry-fails/scenario-"+sc.name, fmt.Sprintf("fault-free rotation with overwrite failed: %v", err2), replay)
				}
				if res2 == "ok" {
					if cl2, d2 := k10Oracle(k); cl2 != "" {
						c.Find("c10/gcpkms/retry-"+cl2+"/scenario-"+sc.name, "after the retry: "+d2, replay)
					}
				}
			}
			os.RemoveAll(dir)
		}
	}
}
