package main

// Stream c07dec — the entry points.  run.all offers the case's bytes to every entry point in scope.

import (
	"context"
	"crypto/rsa"
	"crypto/x509"
	"errors"
	"fmt"
	"io"
	"strings"

	"github.com/google/gce-tcb-verifier/extract"
	"github.com/google/gce-tcb-verifier/extract/extractsev"
	"github.com/google/gce-tcb-verifier/gcetcbendorsement"
	gcmd "github.com/google/gce-tcb-verifier/gcetcbendorsement/cmd"
	"github.com/google/gce-tcb-verifier/gcetcbendorsement/parsepath"
	epb "github.com/google/gce-tcb-verifier/proto/endorsement"
	"github.com/google/gce-tcb-verifier/sev"
	"github.com/google/gce-tcb-verifier/verify"
	cpb "github.com/google/go-sev-guest/proto/check"
	spb "github.com/google/go-sev-guest/proto/sevsnp"
	svalidate "github.com/google/go-sev-guest/validate"
	tcpb "github.com/google/go-tdx-guest/proto/checkconfig"
	tpb "github.com/google/go-tdx-guest/proto/tdx"
	tvalidate "github.com/google/go-tdx-guest/validate"
	tpmpb "github.com/google/go-tpm-tools/proto/attest"
	"google.golang.org/protobuf/reflect/protopath"
	"google.golang.org/protobuf/reflect/protoreflect"
	fmpb "google.golang.org/protobuf/types/known/fieldmaskpb"
	tspb "google.golang.org/protobuf/types/known/timestamppb"
)

func c07RSAPub(cert *x509.Certificate) *rsa.PublicKey {
	pub, _ := cert.PublicKey.(*rsa.PublicKey)
	return pub
}

// recording getter: answers from a map, logs the URLs it was asked for
type c07Getter struct {
	m    map[string][]byte
	urls []string
}

func (g *c07Getter) Get(url string) ([]byte, error) {
	g.urls = append(g.urls, url)
	if b, ok := g.m[url]; ok {
		return b, nil
	}
	return nil, errors.New("not found")
}

const c07Bucket = "https://storage.googleapis.com/gce_tcb_integrity/"

func c07SevURL(meas []byte) string {
	return c07Bucket + "ovmf_x64_csm/sevsnp/" + hx(meas) + ".binarypb"
}
func c07TdxURL(mrtd []byte) string { return c07Bucket + "ovmf_x64_csm/tdx/" + hx(mrtd) + ".binarypb" }

// got renders the getter log against the URLs the specification allows: "-" (not asked), "sev:<cb m>",
// "tdx:<cb m>", or "?<url>" for anything else.
func (run *c07Run) got(g *c07Getter, sevM, tdxM []byte) string {
	if g == nil || len(g.urls) == 0 {
		return "-"
	}
	if len(g.urls) > 1 {
		return fmt.Sprintf("?%d-requests", len(g.urls))
	}
	switch g.urls[0] {
	case c07SevURL(sevM):
		return "sev:" + run.in.cb(sevM)
	case c07TdxURL(tdxM):
		return "tdx:" + run.in.cb(tdxM)
	}
	return "?" + tok(g.urls[0])
}

type c07Writer struct {
	n        int
	terminal bool
}

func (w *c07Writer) Write(b []byte) (int, error) { w.n += len(b); return len(b), nil }
func (w *c07Writer) IsTerminal() bool            { return w.terminal }

type c07IO struct {
	files map[string][]byte
	w     *c07Writer
}

func (i c07IO) Create(string) (gcetcbendorsement.TerminalWriter, func(), error) {
	return i.w, func() {}, nil
}
func (i c07IO) ReadFile(p string) ([]byte, error) {
	if b, ok := i.files[p]; ok {
		return b, nil
	}
	return nil, fmt.Errorf("file %q not found", p)
}

func c07CLI(b *gcmd.Backend, args []string) error {
	root := gcmd.MakeRoot(gcmd.VerifWithBackend(context.Background(), b))
	root.SetArgs(args)
	root.SetOut(io.Discard)
	root.SetErr(io.Discard)
	root.SilenceUsage = true
	root.SilenceErrors = true
	return root.Execute()
}

var c07FormNames = map[gcetcbendorsement.BytesForm]string{gcetcbendorsement.BytesRaw: "bin", gcetcbendorsement.BytesHex: "hex",
	gcetcbendorsement.BytesHexGuidify: "guid", gcetcbendorsement.BytesBase64: "base64", gcetcbendorsement.BytesAuto: "auto", 7: "form7"}

// the paths inspect mask is exercised with (the mask is the relying party's own; the message is untrusted)
var c07MaskSets = [][]string{
	{"digest"}, {"timestamp"}, {"cert"}, {"cl_spec"}, {"commit"}, {"ca_bundle"},
	{"sev_snp"}, {"sev_snp.policy"}, {"sev_snp.svn"}, {"sev_snp.measurements"}, {"sev_snp.measurements[1]"}, {"sev_snp.measurements[7]"},
	{"sev_snp.family_id"}, {"sev_snp.ca_bundle"}, {"sev_snp.svsm_measurement"},
	{"tdx"}, {"tdx.svn"}, {"tdx.measurements"}, {"tdx.measurements[0]"}, {"tdx.measurements[0].mrtd"}, {"tdx.measurements[0].ram_gib"}, {"tdx.measurements[3].mrtd"},
	{"timestamp.seconds"}, {"digest", "timestamp", "sev_snp.measurements[1]"}, {"nope"}, {"digest.x"}, {},
}

// c07PathFact: what parsepath (C19's code, a parameter here) yields for the last step of a path:
// err | b:<len> | msg | map:<n>:<len of the rendered entries> | s:<len of %v> | ts:<nil|secs:nanos>:<len of RFC3339>
func c07PathFact(g *epb.VMGoldenMeasurement, path string, isTimestampRenderer bool) string {
	p, err := parsepath.ParsePath(g.ProtoReflect().Descriptor(), path)
	if err != nil {
		return "err"
	}
	vs, err := parsepath.PathValues(p, g)
	if err != nil {
		return "err"
	}
	last := vs.Index(-1)
	if isTimestampRenderer {
		m, ok := last.Value.Interface().(protoreflect.Message)
		if !ok {
			return "tsbad"
		}
		ts, ok := m.Interface().(*tspb.Timestamp)
		if !ok {
			return "tsbad"
		}
		return fmt.Sprintf("ts:%d", len(ts.AsTime().Format("2006-01-02T15:04:05Z07:00")))
	}
	switch t := last.Value.Interface().(type) {
	case []byte:
		return fmt.Sprintf("b:%d", len(t))
	case protoreflect.Message:
		return "msg"
	default:
		if last.Step.Kind() == protopath.FieldAccessStep && last.Step.FieldDescriptor().IsMap() {
			n, total := 0, 0
			last.Value.Map().Range(func(k protoreflect.MapKey, v protoreflect.Value) bool {
				n++
				total += len(fmt.Sprintf("%s: %s", k.String(), v.String()))
				return true
			})
			return fmt.Sprintf("map:%d:%d", n, total)
		}
		return fmt.Sprintf("s:%d", len(fmt.Sprintf("%v", t)))
	}
}

func (run *c07Run) all(r *Rng) {
	env, b, in := run.env, run.b, run.in
	ctx := quietCtx(true)
	ef := run.endoFacts(b)
	efLine := ef.line(in, "")
	E := ef.msg // nil when b does not unmarshal as an endorsement
	e0f := run.endoFactsMsg(env.e0m)
	ntE := ef.golden != nil

	// ---- verify.Endorsement -------------------------------------------------------------------
	type snpV struct {
		n string
		o *verify.SNPOptions
	}
	other := r.Bytes(48)
	snpVs := []snpV{{"nil", nil}, {"meas1", &verify.SNPOptions{Measurement: env.meas1}}, {"vmsas1", &verify.SNPOptions{Measurement: env.meas1, ExpectedLaunchVMSAs: 1}},
		{"vmsas2", &verify.SNPOptions{Measurement: env.meas1, ExpectedLaunchVMSAs: 2}}, {"other", &verify.SNPOptions{Measurement: other}},
		{"vmsas1-nomeas", &verify.SNPOptions{ExpectedLaunchVMSAs: 1}}, {"empty", &verify.SNPOptions{}}}
	snpTok := func(o *verify.SNPOptions) string {
		if o == nil {
			return "snpo=nil"
		}
		m := "nil"
		if o.Measurement != nil {
			m = in.cb(o.Measurement)
		}
		return fmt.Sprintf("snpo=%s:%d", m, o.ExpectedLaunchVMSAs)
	}
	pick := []snpV{snpVs[0], snpVs[1+r.Intn(len(snpVs)-1)]}
	for _, v := range pick {
		v := v
		roots, rootsTok := env.pool, "roots=1"
		var exp []byte
		expTok := "exp=x"
		switch r.Intn(8) {
		case 0:
			roots, rootsTok = nil, "roots=0"
		case 1:
			exp = env.g0.Digest
			expTok = "exp=" + in.cb(exp)
		case 2:
			exp = other
			expTok = "exp=" + in.cb(exp)
		}
		facts := fmt.Sprintf("%s %s %s%s", rootsTok, expTok, snpTok(v.o), efLine)
		run.ep("endorsement."+v.n, len(b), facts, ntE, func() (string, error) {
			return "", verify.Endorsement(b, &verify.Options{RootsOfTrust: roots, Now: baseTime, SNP: v.o, ExpectedUefiSha384: exp})
		})
	}

	// ---- the SNP validator closure ------------------------------------------------------------
	{
		type attV struct {
			n   string
			att *spb.Attestation
		}
		attVs := []attV{{"genuine", env.sevAtt(env.meas1, nil, false)}, {"nil", nil}, {"noreport", &spb.Attestation{}},
			{"m47", env.sevAtt(env.meas1[:47], nil, false)}, {"m0", env.sevAtt(nil, nil, false)}, {"m49", env.sevAtt(append(append([]byte{}, env.meas1...), 0), nil, false)},
			{"unendorsed", env.sevAtt(other, nil, false)}}
		av := attVs[0]
		if r.Intn(3) == 0 {
			av = attVs[r.Intn(len(attVs))]
		}
		attTok := "att=nil"
		var am []byte
		if av.att != nil {
			am = av.att.GetReport().GetMeasurement()
			attTok = fmt.Sprintf("att=%s:%s", b2s(av.att.Report != nil), in.cb(am))
		}
		// (a) the blob of the certificate table is the case's bytes; (b) nil blob, getter serves the bytes;
		// (c) caller-provided endorsement message
		modes := []string{"blob", "get", "getnil"}
		if E != nil {
			modes = append(modes, "opt")
		}
		mode := modes[r.Intn(len(modes))]
		if r.Intn(2) == 0 {
			mode = "blob"
		}
		vmsas := uint32(r.Intn(3))
		getter := &c07Getter{m: map[string][]byte{c07SevURL(am): b}}
		var ser []byte
		var optE *epb.VMLaunchEndorsement
		var g verify.HTTPSGetter
		switch mode {
		case "blob":
			ser = b
			if ser == nil {
				ser = []byte{}
			}
		case "get":
			g = getter
		case "opt":
			optE = E
		}
		facts := fmt.Sprintf("mode=%s %s vmsas=%d%s", mode, attTok, vmsas, efLine)
		var o c07Outcome
		o = run.ep("closure."+mode+"."+av.n, len(b), facts, ntE, func() (string, error) {
			f := verify.SNPFamilyValidateFunc(sev.GCEUefiFamilyID, &verify.Options{RootsOfTrust: env.pool, Now: baseTime,
				SNP: &verify.SNPOptions{ExpectedLaunchVMSAs: vmsas}, Endorsement: optE, Getter: g})
			return "", f(av.att, ser)
		})
		_ = o
		// the getter log is part of the observable
		last := &run.res.Lines[len(run.res.Lines)-1]
		last.Impl += " got=" + run.got(getter, am, nil)
	}

	// ---- extract.Attestation, extract.Endorsement (quote path), extractsev.From* ---------------
	af := run.attFacts(b)
	var tpmat *tpmpb.Attestation
	ao := run.ep("attestation", len(b), strings.TrimSpace(af.line), false, func() (string, error) {
		at, err := extract.Attestation(b)
		if err != nil {
			return "", err
		}
		tpmat = at
		switch t := at.TeeAttestation.(type) {
		case *tpmpb.Attestation_SevSnpAttestation:
			x := "-"
			if blob, ok := t.SevSnpAttestation.GetCertificateChain().GetExtras()[sev.GCEFwCertGUID]; ok {
				x = in.cb(blob)
			}
			return "tee=sev m=" + in.cb(t.SevSnpAttestation.GetReport().GetMeasurement()) + " x=" + x, nil
		case *tpmpb.Attestation_TdxAttestation:
			return "tee=tdx m=" + in.cb(t.TdxAttestation.GetTdQuoteBody().GetMrTd()), nil
		}
		return "tee=none", nil
	})
	if ao.cls == "ok" {
		run.res.Lines[len(run.res.Lines)-1].NT = true
	}
	var sevFromB *spb.Attestation
	var tdxFromB *tpb.QuoteV4
	if tpmat != nil {
		switch t := tpmat.TeeAttestation.(type) {
		case *tpmpb.Attestation_SevSnpAttestation:
			sevFromB = t.SevSnpAttestation
		case *tpmpb.Attestation_TdxAttestation:
			tdxFromB = t.TdxAttestation
		}
	}
	for _, v := range []struct {
		n      string
		getter bool
		force  bool
		prov   bool
	}{{"nogetter", false, false, false}, {"getter", true, false, false}, {"force", true, true, false}, {"provider", true, false, true}} {
		v := v
		if v.n != "nogetter" && v.n != "getter" && r.Intn(2) == 0 {
			continue
		}
		getter := &c07Getter{m: map[string][]byte{}}
		// the bucket holds the genuine endorsement under the genuine measurement / MRTD
		getter.m[c07SevURL(env.meas1)] = env.e0
		getter.m[c07TdxURL(env.mrtd)] = env.e0
		var sm, tm []byte
		if sevFromB != nil {
			sm = sevFromB.GetReport().GetMeasurement()
		} else if tdxFromB != nil {
			tm = tdxFromB.GetTdQuoteBody().GetMrTd()
		}
		opts := &extract.Options{Quote: b, ForceFetch: v.force}
		if v.getter {
			opts.Getter = getter
		}
		provTok := "prov=0"
		if v.prov {
			opts.Provider = &c16Provider{quote: env.att["sevraw"]}
			provTok = "prov=1"
			if sm == nil && tm == nil {
				sm = env.meas1
			}
		}
		facts := fmt.Sprintf("getter=%s force=%s %s gm=%s gt=%s ge=%s%s", b2s(v.getter), b2s(v.force), provTok, in.cb(env.meas1), in.cb(env.mrtd), in.cb(env.e0), af.line)
		run.ep("extract."+v.n, len(b), facts, ao.cls == "ok", func() (string, error) {
			out, err := extract.Endorsement(opts)
			if err != nil {
				return "", err
			}
			return "out=" + in.cb(out), nil
		})
		run.res.Lines[len(run.res.Lines)-1].Impl += " got=" + run.got(getter, sm, tm)
	}
	run.ep("fromcerttable", len(b), fmt.Sprintf("n=%d%s", len(b), run.tableFacts(b)), false, func() (string, error) {
		out, err := extractsev.FromCertTable(b)
		if err != nil {
			return "", err
		}
		return "out=" + in.cb(out), nil
	})
	if sevFromB != nil {
		run.ep("fromattestation", len(b), strings.TrimSpace(c07SevShape(in, "a.", sevFromB)), true, func() (string, error) {
			out, err := extractsev.FromAttestation(sevFromB)
			if err != nil {
				return "", err
			}
			return "out=" + in.cb(out), nil
		})
	}

	// ---- policy derivation ----------------------------------------------------------------------
	if E != nil {
		// SevPolicy
		for k := 0; k < 2; k++ {
			opts := &gcetcbendorsement.SevPolicyOptions{LaunchVmsas: []uint32{0, 1, 1, 2, 7}[r.Intn(5)], Overwrite: r.Intn(3) == 0, AllowUnspecifiedVmsas: r.Intn(2) == 0}
			baseTok := "base=nil"
			switch r.Intn(4) {
			case 0:
				opts.Base = &cpb.Policy{Policy: 0x30000, MinimumGuestSvn: 1}
				baseTok = "base=196608:1:nil:0:0"
			case 1:
				opts.Base = &cpb.Policy{Policy: env.g0.SevSnp.Policy, MinimumGuestSvn: 3, Measurement: env.meas1, TrustedIdKeys: [][]byte{{1}}}
				baseTok = fmt.Sprintf("base=%d:3:%s:1:0", env.g0.SevSnp.Policy, in.cb(env.meas1))
			case 2:
				opts.Base = &cpb.Policy{Measurement: other, TrustedAuthorKeys: [][]byte{{1}, {2}}}
				baseTok = fmt.Sprintf("base=0:0:%s:0:2", in.cb(other))
			}
			facts := fmt.Sprintf("vmsas=%d ow=%s allow=%s %s%s", opts.LaunchVmsas, b2s(opts.Overwrite), b2s(opts.AllowUnspecifiedVmsas), baseTok, efLine)
			run.ep("sevpolicy", len(b), facts, ef.golden != nil && ef.golden.SevSnp != nil, func() (string, error) {
				p, err := gcetcbendorsement.SevPolicy(ctx, E, opts)
				if err != nil {
					return "", err
				}
				// a zero-length measurement is rendered like an absent one: whether the Go value is nil or empty
				// depends on how the endorsement message was built (an empty bytes map value decodes to nil), and
				// both mean "no measurement pinned" to every reader of the policy
				m := "nil"
				if len(p.Measurement) != 0 {
					m = in.cb(p.Measurement)
				}
				lastLen := func(ks [][]byte) int {
					if len(ks) == 0 {
						return 0
					}
					return len(ks[len(ks)-1])
				}
				return fmt.Sprintf("pol=%d m=%s idk=%d:%d ak=%d:%d", p.Policy, m, len(p.TrustedIdKeys), lastLen(p.TrustedIdKeys), len(p.TrustedAuthorKeys), lastLen(p.TrustedAuthorKeys)), nil
			})
		}
		// TdxPolicy
		for k := 0; k < 2; k++ {
			ram := []int{0, int(env.ram0), 3, 1<<32 + int(env.ram0), -1}[r.Intn(5)]
			opts := &gcetcbendorsement.TdxPolicyOptions{RAMGiB: ram, Overwrite: r.Intn(3) == 0}
			baseTok := "base=nil"
			switch r.Intn(4) {
			case 0:
				opts.Base = &tcpb.Policy{}
				baseTok = "base=nobody"
			case 1:
				opts.Base = &tcpb.Policy{TdQuoteBodyPolicy: &tcpb.TDQuoteBodyPolicy{}}
				baseTok = "base=body"
			case 2:
				opts.Base = &tcpb.Policy{TdQuoteBodyPolicy: &tcpb.TDQuoteBodyPolicy{AnyMrTd: [][]byte{other}}}
				baseTok = "base=anymrtd"
			}
			facts := fmt.Sprintf("ram=%d ow=%s %s%s", ram, b2s(opts.Overwrite), baseTok, efLine)
			run.ep("tdxpolicy", len(b), facts, ef.golden != nil && ef.golden.Tdx != nil, func() (string, error) {
				p, err := gcetcbendorsement.TdxPolicy(ctx, E, opts)
				if err != nil {
					return "", err
				}
				ms := make([]string, len(p.TdQuoteBodyPolicy.AnyMrTd))
				for i, m := range p.TdQuoteBodyPolicy.AnyMrTd {
					ms[i] = in.cb(m)
				}
				return "mrtds=" + strings.Join(ms, ","), nil
			})
		}
	}

	// ---- SevValidate ----------------------------------------------------------------------------
	{
		// third-party facts about (endorsement, attestation): policy -> options, report checks without
		// certificate-table validators (as harness/c01.go computes them)
		tp := func(e *epb.VMLaunchEndorsement, att *spb.Attestation, vmsas uint32) string {
			pto, base := false, false
			Guard(func() {
				pol, err := gcetcbendorsement.SevPolicy(ctx, e, &gcetcbendorsement.SevPolicyOptions{LaunchVmsas: vmsas, AllowUnspecifiedVmsas: true})
				if err != nil {
					return
				}
				vo, err := svalidate.PolicyToOptions(pol)
				if err != nil {
					return
				}
				pto = true
				base = svalidate.SnpAttestation(att, vo) == nil
			})
			return fmt.Sprintf(" pto=%s base=%s", b2s(pto), b2s(base))
		}
		type sv struct {
			n      string
			att    *spb.Attestation
			optE   *epb.VMLaunchEndorsement
			getter *c07Getter
			facts  string
			used   *epb.VMLaunchEndorsement
			nt     bool
		}
		var svs []sv
		vmsas := uint32([]int{0, 0, 1, 2}[r.Intn(4)])
		// the bytes arrive as the certificate-table entry
		{
			att := env.sevAtt(env.meas1, b, true)
			svs = append(svs, sv{n: "extras", att: att, facts: "src=extras" + c07SevShape(in, "a.", att) + ef.line(in, "x."), used: E, nt: ntE})
		}
		if E != nil {
			att := env.attSev
			svs = append(svs, sv{n: "opt", att: att, optE: E, facts: "src=opt" + c07SevShape(in, "a.", att) + ef.line(in, "o."), used: E, nt: ntE})
		}
		{
			att := env.sevAtt(env.meas1, nil, false)
			g := &c07Getter{m: map[string][]byte{c07SevURL(env.meas1): b}}
			svs = append(svs, sv{n: "get", att: att, getter: g, facts: "src=get" + c07SevShape(in, "a.", att) + ef.line(in, "n."), used: E, nt: ntE})
		}
		if sevFromB != nil {
			// the attestation itself is the untrusted input (as `sev validate FILE` reads it)
			att := sevFromB
			g := &c07Getter{m: map[string][]byte{c07SevURL(env.meas1): env.e0}}
			var xf *c07EF
			used := env.e0m
			if blob, ok := att.GetCertificateChain().GetExtras()[sev.GCEFwCertGUID]; ok || len(att.GetCertificateChain().GetExtras()) != 0 {
				xf = run.endoFacts(blob)
				if xf.msg != nil {
					used = xf.msg
				}
			}
			facts := "src=att" + c07SevShape(in, "a.", att) + e0f.line(in, "n.")
			if xf != nil {
				facts += xf.line(in, "x.")
			}
			svs = append(svs, sv{n: "att", att: att, getter: g, facts: facts, used: used, nt: true})
			svs = append(svs, sv{n: "att-opt", att: att, optE: env.e0m, facts: "src=attopt" + c07SevShape(in, "a.", att) + e0f.line(in, "o."), used: env.e0m, nt: true})
		}
		for _, v := range svs {
			v := v
			force := r.Intn(6) == 0
			var g verify.HTTPSGetter
			if v.getter != nil {
				g = v.getter
			}
			gm := "-"
			if v.getter != nil {
				gm = in.cb(env.meas1)
			}
			facts := fmt.Sprintf("vmsas=%d force=%s gm=%s %s", vmsas, b2s(force), gm, v.facts)
			if v.used != nil {
				facts += tp(v.used, v.att, vmsas)
			}
			run.ep("sevvalidate."+v.n, len(b), facts, v.nt, func() (string, error) {
				return "", gcetcbendorsement.SevValidate(ctx, v.att, &gcetcbendorsement.SevValidateOptions{Endorsement: v.optE, RootsOfTrust: env.pool,
					Now: baseTime, Getter: g, ExpectedLaunchVmsas: vmsas, TestonlyForceGCS: force})
			})
			run.res.Lines[len(run.res.Lines)-1].Impl += " got=" + run.got(v.getter, v.att.GetReport().GetMeasurement(), nil)
		}
	}

	// ---- TdxValidate ----------------------------------------------------------------------------
	{
		tp := func(e *epb.VMLaunchEndorsement, q *tpb.QuoteV4, ram int) string {
			pto, quote := false, false
			Guard(func() {
				pol, err := gcetcbendorsement.TdxPolicy(ctx, e, &gcetcbendorsement.TdxPolicyOptions{RAMGiB: ram})
				if err != nil {
					return
				}
				vo, err := tvalidate.PolicyToOptions(pol)
				if err != nil {
					return
				}
				pto = true
				quote = q != nil && tvalidate.TdxQuote(q, vo) == nil
			})
			return fmt.Sprintf(" pto=%s quote=%s", b2s(pto), b2s(quote))
		}
		ram := []int{0, 0, int(env.ram0), 3}[r.Intn(4)]
		// (a) the attestation is the untrusted input, the endorsement is the caller's (genuine)
		facts := fmt.Sprintf("src=att ram=%d%s%s", ram, af.line, e0f.line(in, "o."))
		if tdxFromB != nil {
			facts += tp(env.e0m, tdxFromB, ram)
		}
		run.ep("tdxvalidate.att", len(b), facts, tdxFromB != nil, func() (string, error) {
			return "", gcetcbendorsement.TdxValidate(ctx, b, &gcetcbendorsement.TdxValidateOptions{Endorsement: env.e0m, RootsOfTrust: env.pool, Now: baseTime, ExpectedRAMGiB: ram})
		})
		// (b) the endorsement is the untrusted input
		if E != nil {
			facts := fmt.Sprintf("src=opt ram=%d%s%s", ram, ef.line(in, "o."), tp(E, env.quote, ram))
			run.ep("tdxvalidate.opt", len(b), facts, ntE, func() (string, error) {
				return "", gcetcbendorsement.TdxValidate(ctx, env.att["tpmtdx"], &gcetcbendorsement.TdxValidateOptions{Endorsement: E, RootsOfTrust: env.pool, Now: baseTime, ExpectedRAMGiB: ram})
			})
		}
	}

	// ---- inspect --------------------------------------------------------------------------------
	if E != nil {
		forms := []gcetcbendorsement.BytesForm{gcetcbendorsement.BytesRaw, gcetcbendorsement.BytesHex, gcetcbendorsement.BytesHexGuidify, gcetcbendorsement.BytesBase64, gcetcbendorsement.BytesAuto, 7}
		for _, sub := range []string{"signature", "payload"} {
			sub := sub
			form := forms[r.Intn(len(forms))]
			term := r.Intn(2) == 0
			w := &c07Writer{terminal: term}
			ictx := gcetcbendorsement.WithInspect(ctx, &gcetcbendorsement.Inspect{Writer: w, Form: form})
			n := len(E.Signature)
			if sub == "payload" {
				n = len(E.SerializedUefiGolden)
			}
			facts := fmt.Sprintf("form=%s term=%s len=%d", c07FormNames[form], b2s(term), n)
			run.ep("inspect."+sub, len(b), facts, true, func() (string, error) {
				var err error
				if sub == "signature" {
					err = gcetcbendorsement.InspectSignature(ictx, E)
				} else {
					err = gcetcbendorsement.InspectPayload(ictx, E)
				}
				return fmt.Sprintf("n=%d", w.n), err
			})
		}
		for k := 0; k < 3; k++ {
			paths := c07MaskSets[r.Intn(len(c07MaskSets))]
			form := forms[r.Intn(len(forms))]
			term := r.Intn(2) == 0
			w := &c07Writer{terminal: term}
			ictx := gcetcbendorsement.WithInspect(ctx, &gcetcbendorsement.Inspect{Writer: w, Form: form})
			pf := make([]string, len(paths))
			unstable := false
			if ef.golden != nil {
				for i, p := range paths {
					pf[i] = c07PathFact(ef.golden, p, p == "timestamp")
					if pf[i] == "msg" {
						unstable = true // prototext output is deliberately unstable
					}
				}
			}
			facts := fmt.Sprintf("form=%s term=%s g=%s np=%d pv=%s", c07FormNames[form], b2s(term), b2s(ef.golden != nil), len(paths), strings.Join(pf, ","))
			run.ep("inspect.mask", len(b), facts, ef.golden != nil, func() (string, error) {
				err := gcetcbendorsement.InspectMask(ictx, E, &fmpb.FieldMask{Paths: paths})
				if unstable {
					return "n=*", err
				}
				return fmt.Sprintf("n=%d", w.n), err
			})
		}
	}

	// ---- the CLI, in-process: the bytes are the FILE argument -----------------------------------
	{
		w := &c07Writer{}
		files := map[string][]byte{"in": b, "root": env.root.Raw, "e0": env.e0, "tdxatt": env.att["tpmtdx"], "sevatt": env.att["tpmsev"]}
		be := func() *gcmd.Backend { return &gcmd.Backend{Now: baseTime, IO: c07IO{files, w}} }
		run.ep("cli.verify", len(b), "roots=1 exp=x snpo=nil"+efLine, ntE, func() (string, error) {
			return "", c07CLI(be(), []string{"verify", "in", "--root_cert", "root"})
		})
		sub := []string{"signature", "payload"}[r.Intn(2)]
		form := []string{"bin", "hex", "base64", "auto"}[r.Intn(4)]
		n := 0
		if E != nil {
			n = len(E.Signature)
			if sub == "payload" {
				n = len(E.SerializedUefiGolden)
			}
		}
		run.ep("cli.inspect."+sub, len(b), fmt.Sprintf("e=%s form=%s term=0 len=%d", b2s(E != nil), form, n), E != nil, func() (string, error) {
			w.n = 0
			err := c07CLI(be(), []string{"inspect", sub, "in", "--bytesform", form})
			return fmt.Sprintf("n=%d", w.n), err
		})
		vm := []string{"0", "1", "2"}[r.Intn(3)]
		run.ep("cli.sevpolicy", len(b), fmt.Sprintf("vmsas=%s ow=0 allow=1 base=nil%s", vm, efLine), ef.golden != nil && ef.golden.SevSnp != nil, func() (string, error) {
			return "", c07CLI(be(), []string{"sev", "--launch_vmsas", vm, "--allow_unspecified_vmsas", "policy", "in", "--outform", "bin"})
		})
		run.ep("cli.tdxpolicy", len(b), fmt.Sprintf("ram=0 ow=0 base=nil%s", efLine), ef.golden != nil && ef.golden.Tdx != nil, func() (string, error) {
			return "", c07CLI(be(), []string{"tdx", "policy", "in", "--outform", "bin"})
		})
		_ = w
	}
}
