package main

// Stream `argv`: argv tokenising and command resolution of the REAL cobra command trees of the repository's tools,
// compared with Model/Argv.lean (`Argv.executeC` on the trees of Model/ArgvTrees.lean).
//
//	tree rp   gcetcbendorsement/cmd.MakeRoot (Find mode, EnableTraverseRunHooks)
//	tree rs   the same with the wiring of the shipped RootCmd (cmd/root.go init: --auth_token, --timeout, TraverseChildren)
//	tree np   testing/nonprod root (cmd.MakeApp: endorse / bootstrap / rotate / wipeout)
//	tree ap   cmd.MakeApp over components without flags of their own (the tree of streams c06cli / c15cli / argvend)
//
// A fresh tree is built for every argv (the shipped binaries execute once per process).  Every command's hooks and
// Run(E) are replaced by recorders, every flag's Value is wrapped by a recorder of its Set calls (Bool flags still
// parse their text; every other type accepts any text: what a value MEANS is the business of the CLI models, the
// stream is about which word ends up where).  Nothing of the tools' own logic runs.
//
//	argv op=tree tree=<t>                     the command tree / flag sets as cobra holds them
//	argv op=run  tree=<t> a=<hex>,<hex>,…     one argv (UTF-8 bytes of each word in hex; `_` = the empty word)
//
// Direct oracles (implementation alone): no panic; canonical rendering round-trip (the command, occurrences and
// positionals a rendered command line was built from are what the recorders see); a value word is never read as a flag.

import (
	"context"
	"encoding/hex"
	"errors"
	"fmt"
	"io"
	"sort"
	"strings"
	"time"

	rcmd "github.com/google/gce-tcb-verifier/cmd"
	gcmd "github.com/google/gce-tcb-verifier/gcetcbendorsement/cmd"
	"github.com/google/gce-tcb-verifier/storage/local"
	nonprodcli "github.com/google/gce-tcb-verifier/testing/nonprod"
	"github.com/spf13/cobra"
	"github.com/spf13/pflag"
)

func init() {
	register("argv",
		"non-trivial: the argv has at least one word that starts with '-' or resolves to a sub-command; distinct by argv and tree",
		runArgv)
}

type argvOcc struct {
	name, val string
	bad       bool
}

type argvCap struct {
	ran   bool
	cmd   string
	pos   []string
	hooks []string
	occs  []argvOcc
}

type argvRec struct {
	inner pflag.Value
	name  string
	cap   *argvCap
}

func (r *argvRec) Set(v string) error {
	if r.inner.Type() == "bool" {
		if err := r.inner.Set(v); err != nil {
			r.cap.occs = append(r.cap.occs, argvOcc{r.name, v, true})
			return err
		}
	}
	r.cap.occs = append(r.cap.occs, argvOcc{r.name, v, false})
	return nil
}
func (r *argvRec) String() string { return r.inner.String() }
func (r *argvRec) Type() string   { return r.inner.Type() }

func argvPath(c *cobra.Command) string {
	var names []string
	for p := c; p != nil && p.HasParent(); p = p.Parent() {
		names = append([]string{p.Name()}, names...)
	}
	return strings.Join(names, "/")
}

func argvAll(c *cobra.Command, f func(*cobra.Command)) {
	f(c)
	for _, s := range c.Commands() {
		argvAll(s, f)
	}
}

// argvTree builds a fresh instance of one of the trees.
func argvTree(tree string) *cobra.Command {
	// the package-level switch is whatever the constructors make it (MakeRoot sets it; MakeApp does not)
	cobra.EnableTraverseRunHooks = false
	switch tree {
	case "rp", "rs":
		b := &gcmd.Backend{Now: time.Unix(1700000000, 0)}
		root := gcmd.MakeRoot(gcmd.VerifWithBackend(context.Background(), b))
		if tree == "rs" {
			// gcetcbendorsement/cmd/root.go init(): the statements after MakeRoot (pinned by Gen.ArgvFlags.shippedInit)
			var bearer string
			var timeout time.Duration
			root.PersistentFlags().StringVar(&bearer, "auth_token", "", "")
			root.PersistentFlags().DurationVar(&timeout, "timeout", 2*time.Minute, "")
			root.PersistentPreRun = func(*cobra.Command, []string) {}
			root.TraverseChildren = true
		}
		return root
	case "np":
		return nonprodcli.VerifNewRootCmd()
	case "ap":
		// cmd.MakeApp over components that define no flags: the tree streams c06cli / c15cli / argvend run `endorse` on
		pc := func() *rcmd.PartialComponent { return &rcmd.PartialComponent{} }
		return rcmd.MakeApp(context.Background(), &rcmd.AppComponents{Global: pc(), Endorse: pc(), Bootstrap: pc(), Rotate: pc(), Wipeout: pc(),
			SignatureRandom: &Rng{s: 4}, Storage: &local.StorageClient{}})
	}
	panic("argv: unknown tree " + tree)
}

// argvInstrument replaces hooks and runners by recorders and wraps the flag values.
func argvInstrument(root *cobra.Command, cap *argvCap) {
	root.InitDefaultHelpCmd()
	root.InitDefaultCompletionCmd()
	root.SetOut(io.Discard)
	root.SetErr(io.Discard)
	root.SilenceUsage = true
	root.SilenceErrors = true
	wrap := func(f *pflag.Flag) {
		if _, ok := f.Value.(*argvRec); !ok {
			f.Value = &argvRec{inner: f.Value, name: f.Name, cap: cap}
		}
	}
	argvAll(root, func(c *cobra.Command) {
		path := argvPath(c)
		c.PersistentFlags().VisitAll(wrap)
		c.Flags().VisitAll(wrap)
		if c.PersistentPreRunE != nil || c.PersistentPreRun != nil {
			c.PersistentPreRun = nil
			c.PersistentPreRunE = func(*cobra.Command, []string) error {
				cap.hooks = append(cap.hooks, path)
				return nil
			}
		}
		c.PreRun, c.PreRunE, c.PostRun, c.PostRunE, c.PersistentPostRun, c.PersistentPostRunE = nil, nil, nil, nil, nil, nil
		if c.Runnable() {
			c.Run = nil
			c.RunE = func(cc *cobra.Command, args []string) error {
				cap.ran, cap.cmd, cap.pos = true, argvPath(cc), append([]string{}, args...)
				return nil
			}
		}
	})
}

func argvHex(s string) string {
	if s == "" {
		return "_"
	}
	return hex.EncodeToString([]byte(s))
}

func argvHexList(l []string) string {
	out := make([]string, len(l))
	for i, s := range l {
		out[i] = argvHex(s)
	}
	return strings.Join(out, ",")
}

func argvOccs(l []argvOcc) string {
	out := make([]string, len(l))
	for i, o := range l {
		out[i] = o.name + ":" + argvHex(o.val)
		if o.bad {
			out[i] += "!"
		}
	}
	return strings.Join(out, ",")
}

func argvErrTag(err error) string {
	s := err.Error()
	has := func(x string) bool { return strings.Contains(s, x) }
	switch {
	case errors.Is(err, pflag.ErrHelp):
		return "eh"
	case has("invalid argument "):
		return "iv"
	case has("unknown shorthand flag: "):
		return "us"
	case has("unknown flag: "):
		return "uf"
	case has("flag needs an argument: "):
		return "na"
	case has("bad flag syntax: "):
		return "bs"
	case has("unknown command "):
		return "uc"
	case has("requires at least "):
		return "av"
	}
	return "other"
}

type argvResult struct {
	kind string // run | help | err:<tag> | panic
	cmd  string
	cap  *argvCap
	line string
	text string
}

// argvRun executes one argv on a fresh tree.
func argvRun(tree string, argv []string) argvResult {
	cap := &argvCap{}
	var cmd *cobra.Command
	var err error
	var root *cobra.Command
	panicked, msg, _ := Guard(func() {
		root = argvTree(tree)
		argvInstrument(root, cap)
		root.SetArgs(append([]string{}, argv...))
		cmd, err = root.ExecuteC()
	})
	r := argvResult{cap: cap}
	traverse := tree == "rs"
	hooks := make([]string, len(cap.hooks))
	for i, h := range cap.hooks {
		hooks[i] = "/" + h
	}
	switch {
	case panicked:
		r.kind, r.text = "panic", msg
		r.line = "res=panic"
	case err != nil:
		r.kind, r.text = "err:"+argvErrTag(err), err.Error()
		r.cmd = argvPath(cmd)
		r.line = "res=" + r.kind
		if !traverse {
			r.line += " cmd=" + r.cmd
		}
		r.line += " occs=" + argvOccs(cap.occs)
	case cmd != nil && cmd.Name() == "__complete":
		// its Run is cobra's completion logic (not replaced: the command is created inside ExecuteC); what that logic
		// parses afterwards is not part of this run
		r.kind, r.cmd = "run", "__complete"
		r.line = "res=run cmd=__complete occs=? pos=? hooks=" + strings.Join(hooks, ",")
	case cap.ran:
		r.kind, r.cmd = "run", cap.cmd
		r.line = "res=run cmd=" + cap.cmd + " occs=" + argvOccs(cap.occs) + " pos=" + argvHexList(cap.pos) + " hooks=" + strings.Join(hooks, ",")
	default:
		r.kind, r.cmd = "help", argvPath(cmd)
		r.line = "res=help cmd=" + r.cmd + " occs=" + argvOccs(cap.occs) + " pos=" + argvHexList(cmd.Flags().Args())
	}
	return r
}

// argvDump renders the tree as cobra holds it before the first Execute.
func argvDump(tree string) string {
	root := argvTree(tree)
	root.InitDefaultHelpCmd()
	root.InitDefaultCompletionCmd()
	var rows []string
	spec := func(fs *pflag.FlagSet) string {
		var l []string
		fs.VisitAll(func(f *pflag.Flag) {
			sh := f.Shorthand
			if sh == "" {
				sh = "-"
			}
			no := f.NoOptDefVal
			if no == "" {
				no = "-"
			}
			l = append(l, f.Name+"/"+sh+"/"+no)
		})
		sort.Strings(l)
		return strings.Join(l, ",")
	}
	argvAll(root, func(c *cobra.Command) {
		args := "nil"
		if c.Args != nil {
			args = "set"
		}
		al := append([]string{}, c.Aliases...)
		sort.Strings(al)
		rows = append(rows, fmt.Sprintf("/%s|%s|run=%v|args=%s|noparse=%v|hook=%v|L:%s|P:%s", argvPath(c), strings.Join(al, ","),
			c.Runnable(), args, c.DisableFlagParsing, c.PersistentPreRunE != nil || c.PersistentPreRun != nil,
			spec(c.LocalNonPersistentFlags()), spec(c.PersistentFlags())))
	})
	sort.Strings(rows)
	return fmt.Sprintf("traverse=%v runhooks=%v %s", root.TraverseChildren, cobra.EnableTraverseRunHooks, strings.Join(rows, ";"))
}

// ---- generators ----

type argvFlagInfo struct {
	name, short string
	noOpt       bool
}

type argvCmdInfo struct {
	path  []string
	flags []argvFlagInfo // visible from the command (merged), help included
	run   bool
}

// argvInfo lists commands and the flags visible from each, from the real tree.
func argvInfo(tree string) []argvCmdInfo {
	root := argvTree(tree)
	root.InitDefaultHelpCmd()
	root.InitDefaultCompletionCmd()
	var out []argvCmdInfo
	argvAll(root, func(c *cobra.Command) {
		ci := argvCmdInfo{run: c.Runnable()}
		if p := argvPath(c); p != "" {
			ci.path = strings.Split(p, "/")
		}
		c.InitDefaultHelpFlag()
		c.Flags().VisitAll(func(f *pflag.Flag) {
			ci.flags = append(ci.flags, argvFlagInfo{f.Name, f.Shorthand, f.NoOptDefVal != ""})
		})
		out = append(out, ci)
	})
	return out
}

var argvValues = []string{"v", "", "-", "--", "-x", "--show", "--base=z", "a=b", "=", "true", "false", "0", "junk", "é", "verify", "sev", "validate", "-h", "--help", "-test.v"}

func argvCase(c *Ctx, tree string, argv []string, tag string) argvResult {
	r := argvRun(tree, argv)
	op := "argv op=run tree=" + tree + " a=" + argvHexList(argv)
	nontrivial := false
	for _, a := range argv {
		if strings.HasPrefix(a, "-") {
			nontrivial = true
		}
	}
	if r.cmd != "" {
		nontrivial = true
	}
	c.Case(op, r.line, nontrivial)
	c.Count("gen/" + tag)
	c.Count("tree/" + tree + "/" + r.kind)
	if r.kind == "run" || r.kind == "help" {
		c.Count("cmd/" + tree + "/" + r.kind + "//" + r.cmd)
	}
	if r.kind == "panic" {
		c.Find("argv/panic/"+tree, "cobra/pflag panicked on an argv: "+r.text, op)
	}
	if r.kind == "err:other" {
		c.Find("argv/unclassified-error/"+tree, "an error outside the listed classes: "+r.text, op)
	}
	return r
}

// argvRender: the canonical rendering of (command, occurrences, positionals) — Argv.render in the Lean model.
func argvRender(path []string, occs [][2]string, pos []string) []string {
	out := append([]string{}, path...)
	for _, o := range occs {
		out = append(out, "--"+o[0]+"="+o[1])
	}
	out = append(out, "--")
	return append(out, pos...)
}

func argvRoundTrip(c *Ctx, tree string, ci argvCmdInfo, occs [][2]string, pos []string, tag string) {
	argv := argvRender(ci.path, occs, pos)
	r := argvCase(c, tree, argv, tag)
	// the oracle: what was rendered is what the recorders saw
	want := make([]argvOcc, len(occs))
	for i, o := range occs {
		want[i] = argvOcc{o[0], o[1], false}
	}
	okOccs := len(want) == len(r.cap.occs)
	if okOccs {
		for i := range want {
			if want[i] != r.cap.occs[i] {
				okOccs = false
			}
		}
	}
	op := "argv op=run tree=" + tree + " a=" + argvHexList(argv)
	if r.kind != "run" && r.kind != "help" {
		c.Find("argv/roundtrip/"+tree+"/refused", fmt.Sprintf("a canonical rendering was refused (%s: %s)", r.kind, r.text), op)
		return
	}
	if r.cmd != strings.Join(ci.path, "/") {
		c.Find("argv/roundtrip/"+tree+"/command", fmt.Sprintf("rendered for %q, resolved to %q", strings.Join(ci.path, "/"), r.cmd), op)
	}
	if !okOccs {
		c.Find("argv/roundtrip/"+tree+"/occurrences", fmt.Sprintf("rendered %v, recorded %v", occs, r.cap.occs), op)
	}
	if r.kind == "run" && strings.Join(pos, "\x00") != strings.Join(r.cap.pos, "\x00") {
		c.Find("argv/roundtrip/"+tree+"/positionals", fmt.Sprintf("rendered %q, handed over %q", pos, r.cap.pos), op)
	}
}

func runArgv(c *Ctx) {
	defer func(v bool) { cobra.EnableTraverseRunHooks = v }(cobra.EnableTraverseRunHooks)
	trees := []string{"rp", "rs", "np", "ap"}
	for _, t := range trees {
		c.Case("argv op=tree tree="+t, argvDump(t), true)
	}
	info := map[string][]argvCmdInfo{}
	for _, t := range trees {
		info[t] = argvInfo(t)
	}

	// 1. every flag of every command in each spelling, the value drawn from the awkward texts
	for _, t := range trees {
		for _, ci := range info[t] {
			for _, f := range ci.flags {
				for vi, v := range argvValues {
					if c.Quick() && vi%3 != len(f.name)%3 && vi > 6 {
						continue
					}
					spell := [][]string{
						{"--" + f.name + "=" + v}, {"--" + f.name, v}, {"--" + f.name}, {"--" + f.name, v, "p"}, {"p", "--" + f.name, v},
						{"--", "--" + f.name, v}, {"--" + f.name, "--", v}, {"--" + f.name + "=" + v, "--" + f.name + "=w"},
					}
					if f.short != "" {
						spell = append(spell, []string{"-" + f.short + v}, []string{"-" + f.short, v}, []string{"-" + f.short + "=" + v},
							[]string{"-" + f.short + f.short + v}, []string{"-" + f.short})
					}
					for si, sp := range spell {
						// after the command words
						argvCase(c, t, append(append([]string{}, ci.path...), sp...), "spelling/after")
						// between / before the command words
						if len(ci.path) > 0 && (si < 3 || !c.Quick()) {
							for k := 0; k < len(ci.path); k++ {
								a := append([]string{}, ci.path[:k]...)
								a = append(a, sp...)
								a = append(a, ci.path[k:]...)
								argvCase(c, t, a, "spelling/before")
							}
						}
					}
				}
			}
		}
	}

	// 2. exhaustive sequences over small alphabets of word shapes
	alph := map[string][][]string{
		"rp": {
			{"verify", "--show", "--root_cert", "x", "--", "--root_cert=-v"},
			{"sev", "validate", "--overwrite", "--base", "b", "-h"},
			{"sev", "policy", "--out", "--overwrite=false", "-", "--launch_vmsas=1"},
			{"tdx", "--ram_gib", "validate", "--endorsement=e", "q", "--help"},
			{"help", "sev", "--bogus", "completion", "bash", "--no-descriptions"},
			{"inspect", "mask", "--path", "a,b", "--out=-", "-x"},
			{"__complete", "verify", "--sh", "", "-", "--=x"},
		},
		"rs": {
			{"verify", "--show", "--root_cert", "x", "--auth_token", "--timeout=1s"},
			{"sev", "validate", "--overwrite", "--base", "b", "-h"},
			{"sev", "policy", "--auth_token=t", "--overwrite=false", "--", "--help=true"},
			{"tdx", "--ram_gib", "validate", "--help", "q", "-é"},
			{"help", "sev", "--bogus", "completion", "bash", "--no-descriptions"},
			{"__complete", "verify", "--sh", "", "-", "-test.x"},
		},
		"ap": {
			{"endorse", "--uefi", "--dry_run", "false", "--dry_run=false", "--measurement_only"},
			{"endorse", "--dry_run=maybe", "--clspec", "-5", "--", "--add_snp"},
			{"--quiet", "endorse", "--key_dir", "--out_dir=o", "-h", "wipeout"},
		},
		"np": {
			{"endorse", "--uefi", "f.fd", "--dry_run", "--", "--verbose=0"},
			{"bootstrap", "--root_key_serial", "-5", "--key_dir", "--quiet", "-h"},
			{"rotate", "--timestamp", "--timestamp=", "--overwrite", "wipeout", "ca"},
			{"wipeout", "keys", "--force_prod_wipeout", "--force_prod_wipeout=junk", "--help", "--keep_going=true"},
			{"help", "endorse", "--bogus", "completion", "zsh", "--no-descriptions=f"},
			{"__completeNoDesc", "rotate", "-", "", "--snp_product", "--add_snp"},
		},
	}
	maxLen := c.N(4, 5)
	for _, t := range trees {
		for _, al := range alph[t] {
			var rec func(cur []string)
			rec = func(cur []string) {
				if len(cur) > 0 {
					argvCase(c, t, cur, fmt.Sprintf("exhaustive/len%d", len(cur)))
				}
				if len(cur) == maxLen {
					return
				}
				for _, w := range al {
					rec(append(append([]string{}, cur...), w))
				}
			}
			rec(nil)
		}
	}

	// 3. canonical rendering round-trip (direct oracle) on random occurrence lists with awkward texts
	n := c.N(1500, 20000)
	for i := 0; i < n; i++ {
		t := trees[c.Rng.Intn(len(trees))]
		ci := info[t][c.Rng.Intn(len(info[t]))]
		if len(ci.path) > 0 && (ci.path[0] == "completion" || ci.path[0] == "help") && c.Rng.Intn(4) != 0 {
			continue
		}
		var occs [][2]string
		for k := c.Rng.Intn(5); k > 0; k-- {
			f := ci.flags[c.Rng.Intn(len(ci.flags))]
			if f.name == "help" {
				continue
			}
			v := argvValues[c.Rng.Intn(len(argvValues))]
			if f.noOpt {
				v = []string{"true", "false", "1", "0", "t", "F"}[c.Rng.Intn(6)]
			}
			occs = append(occs, [2]string{f.name, v})
		}
		var pos []string
		for k := c.Rng.Intn(4); k > 0; k-- {
			pos = append(pos, argvValues[c.Rng.Intn(len(argvValues))])
		}
		if len(ci.path) == 0 && len(pos) > 0 {
			pos = nil // a root with sub-commands refuses positionals ("unknown command"): not a canonical input
		}
		if len(ci.path) > 0 && ci.path[0] == "completion" {
			pos = nil // NoArgs
		}
		if t == "rs" {
			// Traverse mode does not stop at `--`: a positional that names a sub-command of the resolved command is
			// resolved (theorem C01_argv_shipped_dashdash_keeps_resolving) — not a canonical input there
			child := false
			for _, cj := range info[t] {
				if len(cj.path) == len(ci.path)+1 && strings.Join(cj.path[:len(ci.path)], "/") == strings.Join(ci.path, "/") {
					for _, p := range pos {
						if p == cj.path[len(ci.path)] {
							child = true
						}
					}
				}
			}
			if child {
				argvCase(c, t, argvRender(ci.path, occs, pos), "roundtrip/traverse-child-word")
				continue
			}
		}
		argvRoundTrip(c, t, ci, occs, pos, "roundtrip")
	}

	// 4. random longer argv from a pool of words of every shape
	n = c.N(4000, 60000)
	for i := 0; i < n; i++ {
		t := trees[c.Rng.Intn(len(trees))]
		cis := info[t]
		var argv []string
		ci := cis[c.Rng.Intn(len(cis))]
		// mostly start down a real command path
		if c.Rng.Intn(5) != 0 {
			argv = append(argv, ci.path...)
		}
		for k := 1 + c.Rng.Intn(8); k > 0; k-- {
			switch c.Rng.Intn(12) {
			case 0, 1, 2:
				f := ci.flags[c.Rng.Intn(len(ci.flags))]
				v := argvValues[c.Rng.Intn(len(argvValues))]
				switch c.Rng.Intn(4) {
				case 0:
					argv = append(argv, "--"+f.name+"="+v)
				case 1:
					argv = append(argv, "--"+f.name, v)
				case 2:
					argv = append(argv, "--"+f.name)
				default:
					if f.short != "" {
						argv = append(argv, "-"+f.short+[]string{"", v, "=" + v, f.short}[c.Rng.Intn(4)])
					} else {
						argv = append(argv, "--"+f.name)
					}
				}
			case 3:
				// a flag of some other command
				cj := cis[c.Rng.Intn(len(cis))]
				f := cj.flags[c.Rng.Intn(len(cj.flags))]
				argv = append(argv, "--"+f.name)
			case 4:
				cj := cis[c.Rng.Intn(len(cis))]
				if len(cj.path) > 0 {
					argv = append(argv, cj.path[c.Rng.Intn(len(cj.path))])
				}
			case 5:
				argv = append(argv, "--")
			case 6:
				argv = append(argv, []string{"-", "", "---", "--=", "-=", "--x=", "-hx", "-h=0", "-test.run", "-htest.", "--help=false", "--help=maybe", "-é", "--é"}[c.Rng.Intn(14)])
			default:
				argv = append(argv, argvValues[c.Rng.Intn(len(argvValues))])
			}
		}
		// insert flags before the command words sometimes
		if c.Rng.Intn(4) == 0 && len(argv) > 1 {
			j := c.Rng.Intn(len(argv))
			argv[0], argv[j] = argv[j], argv[0]
		}
		argvCase(c, t, argv, "random")
	}

	// 5. observations with a property clause at stake (each has a theorem in Props/CliArgv.lean)
	obs := []struct {
		tree string
		argv []string
	}{
		{"rp", []string{"verify", "--root_cert", "--show", "e.binarypb"}},        // a value flag swallows the next flag
		{"rp", []string{"verify", "--show", "--root_cert"}},                      // value flag at the end
		{"rp", []string{"--show", "verify", "e.binarypb"}},                       // a Bool flag before the command word eats it (Find)
		{"rp", []string{"sev", "--overwrite", "validate", "a"}},                  // fine in Find mode
		{"rs", []string{"sev", "--overwrite", "validate", "a"}},                  // Traverse after the Find of initCompleteCmd
		{"rs", []string{"--help=true", "sev", "validate"}},                       // ErrHelp from the root's ParseFlags: an ERROR
		{"rs", []string{"bogus"}},                                                // Traverse: no legacyArgs check — help, exit 0
		{"rp", []string{"bogus"}},                                                // Find: unknown command
		{"np", []string{"wipeout", "--force_prod_wipeout", "false"}},             // "false" is a positional
		{"np", []string{"endorse", "-test.v", "--uefi=f.fd"}},                    // -test.* is skipped by pflag
		{"ap", []string{"endorse", "--uefi", "fw.fd", "--add_snp", "--dry_run", "false"}}, // C15_argv_cli_dry_run_false_is_dry
		{"ap", []string{"--dry_run=true", "endorse"}},                            // a Bool flag with `=` in front of the command word
		{"ap", []string{"--dry_run", "endorse"}},                                 // bare: refused
		{"np", []string{"endorse", "--measurement_only", "false"}},
	}
	for _, o := range obs {
		argvCase(c, o.tree, o.argv, "observation")
	}
}
