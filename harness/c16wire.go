// Stream c16wire (property C16, quote path at byte level): the text decoders, the certificate table, the
// report and the whole chain of extract.Attestation / extract.Endorsement on quotes the harness builds from
// generated reports and tables, compared line by line with the Lean model (Model/HexB64, Model/AttestChain).
// Direct oracle: the bytes returned for a quote are the bytes of the entry placed in its table.
package main

import (
	"bytes"
	"encoding/base64"
	"encoding/binary"
	"encoding/hex"
	"fmt"
	"io"
	"strings"

	"github.com/google/gce-tcb-verifier/extract"
	"github.com/google/gce-tcb-verifier/extract/extractsev"
	"github.com/google/gce-tcb-verifier/sev"
	sabi "github.com/google/go-sev-guest/abi"
	spb "github.com/google/go-sev-guest/proto/sevsnp"
	tabi "github.com/google/go-tdx-guest/abi"
	tpb "github.com/google/go-tdx-guest/proto/tdx"
	"github.com/google/go-tdx-guest/testing/testdata"
	tpmpb "github.com/google/go-tpm-tools/proto/attest"
	"github.com/google/uuid"
	"google.golang.org/protobuf/proto"
)

func init() {
	register("c16wire", "a case is non-trivial when the quote reaches a raw decoder with a well-formed table (att), the text is accepted or differs from an accepted one in one position (hex, b64), the table passes the header parse (tbl), or the report differs from an accepted one in at most one guarded byte (rep)", runC16Wire)
}

type cwEntry struct {
	guid [16]byte
	blob []byte
}

var cwGCE = [16]byte(uuid.MustParse(sev.GCEFwCertGUID))
var cwAMD = [][16]byte{
	[16]byte(uuid.MustParse(sabi.VcekGUID)), [16]byte(uuid.MustParse(sabi.VlekGUID)),
	[16]byte(uuid.MustParse(sabi.AskGUID)), [16]byte(uuid.MustParse(sabi.ArkGUID)),
}

// cwReport builds a raw attestation report that abi.ReportToProto accepts.
func cwReport(r *Rng) []byte {
	b := r.Bytes(sabi.ReportSize)
	ver := uint32(2 + r.Intn(2))
	binary.LittleEndian.PutUint32(b[0:], ver)
	pol := (r.Next() & 0x1fffff) | (1 << 17)
	binary.LittleEndian.PutUint64(b[8:], pol)
	algo := uint32(1)
	if r.Intn(4) == 0 {
		algo = uint32(r.Intn(3)) * 2 // 0, 2, 4: the signature tail is then free
	}
	binary.LittleEndian.PutUint32(b[0x34:], algo)
	key := []uint32{0, 1, 7}[r.Intn(3)]
	binary.LittleEndian.PutUint32(b[0x48:], key<<2|uint32(r.Intn(4)))
	zero := func(lo, hi int) {
		for i := lo; i < hi; i++ {
			b[i] = 0
		}
	}
	zero(0x4C, 0x50)
	if ver >= 3 {
		zero(0x18B, 0x1A0)
	} else {
		zero(0x188, 0x1A0)
	}
	zero(0x1EB, 0x1EC)
	zero(0x1EF, 0x1F0)
	zero(0x1F8, 0x2A0)
	if algo == 1 {
		zero(0x2A0+144, sabi.ReportSize)
	}
	return b
}

// cwLayout lays a table out: header entries in order, terminator, `pad` bytes, the blobs (in reverse order when
// rev), `tail` bytes of junk.
func cwLayout(es []cwEntry, pad int, rev bool, tail []byte) []byte {
	hdr := (len(es) + 1) * 24
	offs := make([]int, len(es))
	cur := hdr + pad
	order := make([]int, len(es))
	for i := range es {
		order[i] = i
		if rev {
			order[i] = len(es) - 1 - i
		}
	}
	for _, i := range order {
		offs[i] = cur
		cur += len(es[i].blob)
	}
	out := make([]byte, cur)
	for i, e := range es {
		copy(out[i*24:], e.guid[:])
		binary.LittleEndian.PutUint32(out[i*24+16:], uint32(offs[i]))
		binary.LittleEndian.PutUint32(out[i*24+20:], uint32(len(e.blob)))
		copy(out[offs[i]:], e.blob)
	}
	return append(out, tail...)
}

func cwRandGUID(r *Rng) [16]byte {
	var g [16]byte
	switch r.Intn(6) {
	case 0:
		g = cwAMD[r.Intn(4)]
	case 1: // one byte away from the GCE GUID
		g = cwGCE
		g[r.Intn(16)] ^= byte(1 << r.Intn(8))
	default:
		copy(g[:], r.Bytes(16))
		if g == cwGCE {
			g[0] ^= 1
		}
	}
	return g
}

// cwEntries: nb entries before and na after the GCE entry carrying blob; entries after never carry the GCE GUID.
func cwEntries(r *Rng, blob []byte, nb, na int, dupBefore bool) []cwEntry {
	var es []cwEntry
	for i := 0; i < nb; i++ {
		g := cwRandGUID(r)
		if dupBefore && i == 0 {
			g = cwGCE
		}
		es = append(es, cwEntry{g, r.Bytes(r.Intn(40))})
	}
	es = append(es, cwEntry{cwGCE, blob})
	for i := 0; i < na; i++ {
		es = append(es, cwEntry{cwRandGUID(r), r.Bytes(r.Intn(40))})
	}
	return es
}

func cwTeeOfSev(a *spb.Attestation) string {
	x := "-"
	if blob, ok := a.GetCertificateChain().GetExtras()[sev.GCEFwCertGUID]; ok {
		x = hx(blob)
	}
	return "sev:" + hx(a.GetReport().GetMeasurement()) + ":" + x
}

func cwTeeOfTpm(at *tpmpb.Attestation) string {
	switch t := at.TeeAttestation.(type) {
	case *tpmpb.Attestation_SevSnpAttestation:
		return cwTeeOfSev(t.SevSnpAttestation)
	case *tpmpb.Attestation_TdxAttestation:
		return "tdx:" + hx(t.TdxAttestation.GetTdQuoteBody().GetMrTd())
	}
	return "none"
}

func cwTq(b []byte, ok bool) string {
	if !ok {
		return "e"
	}
	var v any
	var err error
	if pan, _, _ := Guard(func() { v, err = tabi.QuoteToProto(b) }); pan {
		return "panic"
	}
	if err != nil {
		return "e"
	}
	if q, isV4 := v.(*tpb.QuoteV4); isV4 {
		return "ok:" + hx(q.GetTdQuoteBody().GetMrTd())
	}
	return "other"
}

func cwB64(t []byte) ([]byte, bool) {
	d, err := io.ReadAll(base64.NewDecoder(base64.StdEncoding, bytes.NewReader(t)))
	return d, err == nil
}

// cwInterior: after dropping CR/LF, is there a '=' followed later by a character that is not '='?
func cwInterior(t []byte) bool {
	seen := false
	for _, c := range t {
		if c == '\r' || c == '\n' {
			continue
		}
		if c == '=' {
			seen = true
		} else if seen {
			return true
		}
	}
	return false
}

// cwParams: the parameters of the model for one quote: what the real protobuf decoders and tabi.QuoteToProto make
// of it.
func cwParams(q []byte) string {
	ptpm, psev, prep, pq4 := "-", "-", "-", "-"
	tp := &tpmpb.Attestation{}
	if proto.Unmarshal(q, tp) == nil {
		ptpm = cwTeeOfTpm(tp)
	}
	sa := &spb.Attestation{}
	if proto.Unmarshal(q, sa) == nil {
		psev = cwTeeOfSev(sa)
	}
	rp := &spb.Report{}
	if proto.Unmarshal(q, rp) == nil {
		prep = hx(rp.GetMeasurement())
	}
	q4 := &tpb.QuoteV4{}
	if proto.Unmarshal(q, q4) == nil {
		pq4 = hx(q4.GetTdQuoteBody().GetMrTd())
	}
	hd, herr := hex.DecodeString(string(q))
	bd, bok := cwB64(q)
	s := fmt.Sprintf("ptpm=%s psev=%s prep=%s pq4=%s tq=%s,%s,%s", ptpm, psev, prep, pq4,
		cwTq(q, true), cwTq(hd, herr == nil), cwTq(bd, bok))
	if bok && cwInterior(q) {
		s += " goacc=1"
	}
	return s
}

// cwAtt runs extract.Attestation and extract.Endorsement on q; returns the impl line and the pieces.
func cwAtt(q []byte) (line string, okAtt bool, tee string, endOK bool, end []byte) {
	var at *tpmpb.Attestation
	var err error
	if pan, _, _ := Guard(func() { at, err = extract.Attestation(q) }); pan {
		return "panic", false, "", false, nil
	}
	var eerr error
	if pan, _, _ := Guard(func() { end, eerr = extract.Endorsement(&extract.Options{Quote: q}) }); pan {
		return "panic", false, "", false, nil
	}
	es := "reject"
	if eerr == nil {
		es = "ok " + hx(end)
		endOK = true
	}
	if err != nil {
		return "reject end=" + es, false, "", endOK, end
	}
	tee = cwTeeOfTpm(at)
	return "ok tee=" + tee + " end=" + es, true, tee, endOK, end
}

// cwCase emits one `att` case; want != nil states the direct oracle: the quote was built around a table whose
// (last) GCE entry is want and whose report carries meas.
func cwCase(c *Ctx, form string, q []byte, want []byte, meas []byte, oracle bool) {
	line, okAtt, tee, endOK, end := cwAtt(q)
	c.Count("att/" + form + "/" + strings.SplitN(line, " ", 2)[0])
	c.Case("c16wire op=att q="+hx(q)+" "+cwParams(q), line, okAtt)
	replay := "c16wire op=att form=" + form + " q=" + hx(q)
	if len(replay) > 4000 {
		replay = replay[:4000] + "…"
	}
	// precedence clause, on the implementation alone: bytes that proto.Unmarshal accepts as an attest.Attestation
	// are returned as that message (the protobuf attempts see the caller's bytes, before any text decoding)
	if tp := (&tpmpb.Attestation{}); len(q) > 0 && proto.Unmarshal(q, tp) == nil {
		c.Count("att/protobuf-reading-exists")
		if want := cwTeeOfTpm(tp); !okAtt || tee != want {
			c.Find("c16wire/extract.Attestation/protobuf-reading-of-the-callers-bytes-not-taken",
				fmt.Sprintf("proto.Unmarshal reads the bytes as an attest.Attestation (%s); Attestation gave %q", want, line), replay)
		}
	}
	if !oracle {
		return
	}
	// the exactness clause is stated for bytes that have no protobuf reading (hypothesis of C16_wire_*_blob_exact:
	// extract.Attestation tries its four protobuf decoders on the caller's bytes first, and a table or report whose
	// bytes also happen to be a well-formed message of unknown fields IS that message — C16_wire_proto_reading_wins);
	// such cases are compared with the model only
	for _, m := range []proto.Message{&tpmpb.Attestation{}, &spb.Attestation{}, &spb.Report{}, &tpb.QuoteV4{}} {
		if len(q) > 0 && proto.Unmarshal(q, m) == nil {
			c.Count("att/exactness-oracle-not-applicable-protobuf-reading-exists")
			return
		}
	}
	wantTee := "sev:" + hx(meas) + ":" + hx(want)
	if !okAtt || tee != wantTee {
		c.Find("c16wire/extract.Attestation/entry-or-measurement-differs-from-quote/"+form,
			fmt.Sprintf("the quote carries measurement %s and a GCE entry of %d bytes; Attestation gave %q", hx(meas), len(want), line), replay)
	}
	if len(want) > 0 && (!endOK || !bytes.Equal(end, want)) {
		c.Find("c16wire/extract.Endorsement/returned-bytes-differ-from-table-entry/"+form,
			fmt.Sprintf("the table's GCE entry is %s (%d bytes); Endorsement returned %q", hx(want), len(want), line), replay)
	}
}

var cwSpaces = []byte{'\n', '\r', ' ', '\t', '\v', '\f', 0, 0xff, 0x85, 0xa0}

func cwUpper(b []byte) []byte { return []byte(strings.ToUpper(string(b))) }

func cwMixed(r *Rng, b []byte) []byte {
	o := append([]byte{}, b...)
	for i := range o {
		if r.Bool() {
			o[i] = cwUpper(o[i : i+1])[0]
		}
	}
	return o
}

func cwWrap(t []byte, every int, sep string) []byte {
	var o []byte
	for i := 0; i < len(t); i += every {
		j := i + every
		if j > len(t) {
			j = len(t)
		}
		o = append(o, t[i:j]...)
		o = append(o, sep...)
	}
	return o
}

// cwForms emits the quote around (report, table) in every form whose reading is determined.
func cwForms(c *Ctx, r *Rng, tag string, report, table, want []byte, all bool) {
	meas := report[0x90:0xC0]
	raw := append(append([]byte{}, report...), table...)
	cwCase(c, tag+"raw", raw, want, meas, true)
	cwCase(c, tag+"table", table, want, []byte{0}, true)
	hexT := []byte(hex.EncodeToString(raw))
	b64T := []byte(base64.StdEncoding.EncodeToString(raw))
	cwCase(c, tag+"hex", hexT, want, meas, true)
	cwCase(c, tag+"b64", b64T, want, meas, true)
	if !all {
		return
	}
	cwCase(c, tag+"HEX", cwUpper(hexT), want, meas, true)
	cwCase(c, tag+"hExmixed", cwMixed(r, hexT), want, meas, true)
	cwCase(c, tag+"b64crlf", cwWrap(b64T, 76, "\r\n"), want, meas, true)
	cwCase(c, tag+"b64lf", cwWrap(b64T, 64, "\n"), want, meas, true)
	cwCase(c, tag+"b64lf1", cwWrap(b64T, 1+r.Intn(7), "\n"), want, meas, true)
	// text forms the code does not read: compared with the model, no oracle
	cwCase(c, tag+"hexlf", append(append([]byte{}, hexT...), '\n'), nil, nil, false)
	cwCase(c, tag+"hexwrapped", cwWrap(hexT, 60, "\n"), nil, nil, false)
	cwCase(c, tag+"hexspace", append([]byte{' '}, hexT...), nil, nil, false)
	cwCase(c, tag+"b64space", append(append([]byte{}, b64T...), ' '), nil, nil, false)
	cwCase(c, tag+"b64nopad", bytes.TrimRight(b64T, "="), nil, nil, false)
	cwCase(c, tag+"b64url", []byte(base64.URLEncoding.EncodeToString(raw)), nil, nil, false)
	cwCase(c, tag+"hexodd", hexT[:len(hexT)-1], nil, nil, false)
	cwCase(c, tag+"rawlf", append(append([]byte{}, raw...), '\n'), nil, nil, false)
}

func runC16WireChain(c *Ctx) {
	r := c.Rng
	// last byte of the entry: all 256 values, the entry LAST in the table (a trim would eat it)
	for v := 0; v < 256; v++ {
		blob := append(r.Bytes(1+r.Intn(24)), byte(v))
		es := cwEntries(r, blob, r.Intn(3), 0, false)
		cwForms(c, r, "last/", cwReport(r), cwLayout(es, 0, false, nil), blob, v%32 == 10)
		c.Count("blob/lastbyte")
	}
	// first byte: all 256 values; blobs stored in reverse order so that the GCE blob comes last again
	for v := 0; v < 256; v += 1 {
		blob := append([]byte{byte(v)}, r.Bytes(r.Intn(24))...)
		es := cwEntries(r, blob, 0, r.Intn(3), false)
		table := cwLayout(es, r.Intn(2)*8, true, nil)
		raw := append(cwReport(r), table...)
		cwCase(c, "first/raw", raw, blob, raw[0x90:0xC0], true)
		if v%8 == 0 {
			cwCase(c, "first/hex", []byte(hex.EncodeToString(raw)), blob, raw[0x90:0xC0], true)
			cwCase(c, "first/b64", []byte(base64.StdEncoding.EncodeToString(raw)), blob, raw[0x90:0xC0], true)
		}
		c.Count("blob/firstbyte")
	}
	// white space / NUL / 0xff at both ends, several of them
	for _, a := range cwSpaces {
		for _, z := range cwSpaces {
			blob := append(append([]byte{a, a}, r.Bytes(r.Intn(8))...), z, z)
			es := cwEntries(r, blob, r.Intn(3), 0, false)
			cwForms(c, r, "space/", cwReport(r), cwLayout(es, 0, false, nil), blob, false)
			c.Count("blob/space-both-ends")
		}
	}
	// a blob of nothing but white space
	for n := 1; n <= 4; n++ {
		blob := bytes.Repeat([]byte{cwSpaces[n%4]}, n)
		cwForms(c, r, "allspace/", cwReport(r), cwLayout(cwEntries(r, blob, 1, 0, false), 0, false, nil), blob, false)
	}
	// lengths 0..2000
	var lens []int
	if c.Quick() {
		for n := 0; n <= 40; n++ {
			lens = append(lens, n)
		}
		for i := 0; i < 40; i++ {
			lens = append(lens, 41+r.Intn(1960))
		}
		lens = append(lens, 1999, 2000, 509, 510, 511, 512, 513, 679, 680, 681, 1023, 1024, 1025)
	} else {
		for n := 0; n <= 2000; n++ {
			lens = append(lens, n)
		}
	}
	for _, n := range lens {
		blob := r.Bytes(n)
		nb, na := r.Intn(4), r.Intn(4)
		es := cwEntries(r, blob, nb, na, r.Intn(4) == 0 && nb > 0)
		table := cwLayout(es, r.Intn(3)*r.Intn(16), r.Bool(), r.Bytes(r.Intn(2)*r.Intn(9)))
		cwForms(c, r, "len/", cwReport(r), table, blob, n%7 == 0)
		c.Count(fmt.Sprintf("blob/len<%d", ((n/500)+1)*500))
		c.Count(fmt.Sprintf("entries/before=%d,after=%d", nb, na))
	}
	// a second GCE entry AFTER: the map keeps the later one, GetByGUIDString the earlier one
	for i := 0; i < c.N(30, 300); i++ {
		first, second := r.Bytes(1+r.Intn(30)), r.Bytes(1+r.Intn(30))
		es := []cwEntry{{cwRandGUID(r), r.Bytes(3)}, {cwGCE, first}, {cwRandGUID(r), r.Bytes(5)}, {cwGCE, second}}
		table := cwLayout(es, 0, false, nil)
		raw := append(cwReport(r), table...)
		cwCase(c, "dup/raw", raw, second, raw[0x90:0xC0], true)
		cwCase(c, "dup/table", table, second, []byte{0}, true)
		c.Count("entries/duplicate-gce")
	}
	// no GCE entry at all / AMD entries only
	for i := 0; i < c.N(20, 200); i++ {
		var es []cwEntry
		for j := 0; j < r.Intn(4); j++ {
			es = append(es, cwEntry{cwRandGUID(r), r.Bytes(r.Intn(30))})
		}
		table := cwLayout(es, 0, false, nil)
		raw := append(cwReport(r), table...)
		cwCase(c, "nogce/raw", raw, nil, nil, false)
		cwCase(c, "nogce/hex", []byte(hex.EncodeToString(raw)), nil, nil, false)
		if len(table) > 0 {
			cwCase(c, "nogce/table", table, nil, nil, false)
		}
		c.Count("entries/no-gce")
	}
	// report alone, report rejected, table rejected
	for i := 0; i < c.N(60, 600); i++ {
		rep := cwReport(r)
		blob := r.Bytes(1 + r.Intn(50))
		table := cwLayout(cwEntries(r, blob, r.Intn(2), r.Intn(2), false), 0, false, nil)
		switch i % 4 {
		case 0:
			cwCase(c, "reportonly/raw", rep, nil, nil, false)
			cwCase(c, "reportonly/hex", []byte(hex.EncodeToString(rep)), nil, nil, false)
		case 1: // report broken in one guarded byte: the table alone is no longer found (it is not at offset 0)
			rep[[]int{0x4C, 0x0A, 0x18F, 0x1EB, 0x1F8, 0x0F, 0x4B}[r.Intn(7)]] ^= 0x02
			cwCase(c, "badreport/raw", append(rep, table...), nil, nil, false)
		case 2: // table broken
			t2 := cwMutateTable(r, table)
			cwCase(c, "badtable/raw", append(rep, t2...), nil, nil, false)
			cwCase(c, "badtable/table", t2, nil, nil, false)
		case 3: // cut short
			raw := append(rep, table...)
			cwCase(c, "cut/raw", raw[:r.Intn(len(raw))], nil, nil, false)
			cwCase(c, "cut/b64", []byte(base64.StdEncoding.EncodeToString(raw[:sabi.ReportSize+r.Intn(len(table))])), nil, nil, false)
		}
	}
	// TDX quotes: the end of the chain
	tq := append([]byte{}, testdata.RawQuote...)
	for i, q := range [][]byte{tq, []byte(hex.EncodeToString(tq)), []byte(base64.StdEncoding.EncodeToString(tq)),
		cwUpper([]byte(hex.EncodeToString(tq))), tq[:len(tq)/2], append([]byte{5, 0}, tq[2:]...)} {
		cwCase(c, fmt.Sprintf("tdx/%d", i), q, nil, nil, false)
	}
	// protobuf forms win: a marshalled attestation whose chain carries the entry, and texts that ARE protobuf
	for i := 0; i < c.N(10, 100); i++ {
		blob := r.Bytes(1 + r.Intn(40))
		sa := &spb.Attestation{Report: c16Report(r.Bytes(48)), CertificateChain: &spb.CertificateChain{Extras: map[string][]byte{sev.GCEFwCertGUID: blob}}}
		cwCase(c, "proto/sevatt", c16Marshal(sa), nil, nil, false)
		cwCase(c, "proto/tpm", c16Marshal(&tpmpb.Attestation{TeeAttestation: &tpmpb.Attestation_SevSnpAttestation{SevSnpAttestation: sa}}), nil, nil, false)
		cwCase(c, "proto/report", c16Marshal(sa.Report), nil, nil, false)
	}
	// hex texts that are well-formed protobuf (field 6 / 7 varints): the protobuf reading wins over the hex reading
	for _, t := range []string{"3030", "30323030", "38303830", "00", "0000", "3830", "30", "AAAA", "QUFB", "=", "\n", "\r\n\r\n"} {
		cwCase(c, "ambiguous/text", []byte(t), nil, nil, false)
		c.Count("ambiguous/proto-or-text")
	}
	// 1184 bytes that are both a well-formed table (with a GCE entry) and an acceptable report: the report reading
	// is taken (Lean: C16_wire_table_or_report_witness)
	{
		q := make([]byte, sabi.ReportSize)
		copy(q, []byte{2, 0, 0, 0, 0, 0, 0, 0, 0, 0, 2, 0, 0, 0, 0, 0})
		binary.LittleEndian.PutUint32(q[16:], 72)
		binary.LittleEndian.PutUint32(q[20:], 8)
		copy(q[24:], cwGCE[:])
		binary.LittleEndian.PutUint32(q[40:], 80)
		binary.LittleEndian.PutUint32(q[44:], 64)
		copy(q[80:], bytes.Repeat([]byte{65}, 64))
		cwCase(c, "ambiguous/table-or-report", q, nil, nil, false)
		if blob, err := extractsev.FromCertTable(q); err != nil || !bytes.Equal(blob, bytes.Repeat([]byte{65}, 64)) {
			c.Find("c16wire/harness/table-or-report-not-a-table", "the crafted bytes are no longer a well-formed table", "c16wire op=tbl t="+hx(q))
		}
		c.Case("c16wire op=tbl t="+hx(q), "check=1 first=ok "+hx(bytes.Repeat([]byte{65}, 64)), true)
		c.Count("ambiguous/table-or-report")
	}
	// random short garbage
	for i := 0; i < c.N(200, 3000); i++ {
		n := 1 + r.Intn(60)
		var q []byte
		switch r.Intn(4) {
		case 0:
			q = r.Bytes(n)
		case 1:
			q = []byte(hex.EncodeToString(r.Bytes(n)))
		case 2:
			q = []byte(base64.StdEncoding.EncodeToString(r.Bytes(n)))
		case 3: // a small table, possibly in text form
			q = cwLayout(cwEntries(r, r.Bytes(r.Intn(5)), r.Intn(2), r.Intn(2), false), 0, false, nil)
			if r.Bool() {
				q = []byte(hex.EncodeToString(q))
			} else if r.Bool() {
				q = []byte(base64.StdEncoding.EncodeToString(q))
			}
		}
		cwCase(c, "garbage", q, nil, nil, false)
	}
}

// cwMutateTable: boundary values of every guard of ParseSnpCertTableHeader / CheckCertTable / Unmarshal.
func cwMutateTable(r *Rng, table []byte) []byte {
	t := append([]byte{}, table...)
	n := 0
	for n*24+24 <= len(t) && !bytes.Equal(t[n*24:n*24+24], make([]byte, 24)) {
		n++
	}
	if n == 0 {
		return t
	}
	i := r.Intn(n)
	hdr := (n + 1) * 24
	off := binary.LittleEndian.Uint32(t[i*24+16:])
	ln := binary.LittleEndian.Uint32(t[i*24+20:])
	put := func(o, l uint32) {
		binary.LittleEndian.PutUint32(t[i*24+16:], o)
		binary.LittleEndian.PutUint32(t[i*24+20:], l)
	}
	switch r.Intn(10) {
	case 0:
		put(uint32(hdr-1), ln)
	case 1:
		put(uint32(hdr), ln)
	case 2:
		put(off, uint32(len(t))-off+1)
	case 3:
		put(off, uint32(len(t))-off)
	case 4: // wraps in 32 bits
		put(off, 0xffffffff-off+1+uint32(r.Intn(4)))
	case 5:
		put(0xffffffff, 2)
	case 6: // terminator removed
		copy(t[n*24:], r.Bytes(24))
	case 7:
		t = t[:r.Intn(len(t))]
	case 8: // every entry names the whole table: overlap
		for j := 0; j < n; j++ {
			binary.LittleEndian.PutUint32(t[j*24+16:], uint32(hdr))
			binary.LittleEndian.PutUint32(t[j*24+20:], uint32(len(t)-hdr))
		}
	case 9:
		put(0, 0) // offset 0 with a non-zero GUID: not a terminator, offset inside the header
	}
	return t
}

func runC16WireTable(c *Ctx) {
	r := c.Rng
	one := func(tag string, t []byte) {
		var cerr, ferr error
		var first []byte
		res := ""
		if pan, _, _ := Guard(func() { cerr = extractsev.CheckCertTable(t) }); pan {
			res = "panic"
		} else if pan, _, _ := Guard(func() { first, ferr = extractsev.FromCertTable(t) }); pan {
			res = "check=" + b2s(cerr == nil) + " first=panic"
		} else if ferr != nil {
			res = "check=" + b2s(cerr == nil) + " first=reject"
		} else {
			res = "check=" + b2s(cerr == nil) + " first=ok " + hx(first)
		}
		c.Count("tbl/" + tag + "/" + strings.SplitN(strings.SplitN(res, "first=", 2)[len(strings.SplitN(res, "first=", 2))-1], " ", 2)[0])
		c.Case("c16wire op=tbl t="+hx(t), res, cerr == nil)
	}
	one("empty", nil)
	one("terminator", make([]byte, 24))
	one("short", make([]byte, 23))
	for i := 0; i < c.N(300, 4000); i++ {
		first := r.Bytes(r.Intn(30))
		es := cwEntries(r, first, r.Intn(3), r.Intn(3), false)
		if r.Intn(3) == 0 {
			es = append(es, cwEntry{cwGCE, r.Bytes(r.Intn(9))})
		}
		if r.Intn(8) == 0 {
			es = es[:0]
			for j := 0; j < r.Intn(3); j++ {
				es = append(es, cwEntry{cwRandGUID(r), r.Bytes(r.Intn(9))})
			}
		}
		t := cwLayout(es, r.Intn(2)*r.Intn(30), r.Bool(), r.Bytes(r.Intn(2)*r.Intn(30)))
		one("wellformed", t)
		one("mutated", cwMutateTable(r, t))
	}
}

// runC16WireBig: tables longer than 4 GiB (zero pages, never touched beyond the header and the ranges read): the
// 32-bit arithmetic of go-sev-guest's Unmarshal behind extractsev.CheckCertTable. Only the header travels on the
// protocol line.
func runC16WireBig(c *Ctx) {
	r := c.Rng
	const G = 1 << 32
	type ent struct {
		off, ln uint32
		gce     bool
	}
	big := make([]byte, 2*G+8192) // one allocation of untouched zero pages, re-sliced per case
	one := func(tag string, total int, es []ent) {
		pre := make([]byte, (len(es)+1)*24)
		for i, e := range es {
			g := cwRandGUID(r)
			if e.gce {
				g = cwGCE
			}
			copy(pre[i*24:], g[:])
			binary.LittleEndian.PutUint32(pre[i*24+16:], e.off)
			binary.LittleEndian.PutUint32(pre[i*24+20:], e.ln)
		}
		t := big[:total:total]
		copy(t, pre)
		defer func() {
			for i := range pre {
				t[i] = 0
			}
		}()
		var cerr, ferr error
		var first []byte
		res := ""
		if pan, _, _ := Guard(func() { cerr = extractsev.CheckCertTable(t) }); pan {
			res = "panic"
		} else if pan, msg, _ := Guard(func() { first, ferr = extractsev.FromCertTable(t) }); pan {
			res = "check=" + b2s(cerr == nil) + " first=panic"
			c.Find("c16wire/extractsev.FromCertTable/panic/table-over-4GiB",
				"FromCertTable panicked on a table the check passed: "+msg, fmt.Sprintf("c16wire op=tblbig len=%d pre=%s", total, hx(pre)))
		} else if ferr != nil {
			res = "check=" + b2s(cerr == nil) + " first=reject"
		} else {
			res = "check=" + b2s(cerr == nil) + " first=ok " + hx(first)
		}
		c.Count("tblbig/" + tag + "/" + strings.SplitN(res, " ", 2)[0])
		c.Case(fmt.Sprintf("c16wire op=tblbig len=%d pre=%s", total, hx(pre)), res, true)
	}
	// a range that ends just beyond 2^32 in a table that contains it (refused since the repair; Unmarshal would slice
	// certs[off : (off+len) mod 2^32])
	one("wrap-inside", G+58, []ent{{0xFFFFFFF6, 20, true}})
	one("wrap-inside", G+58, []ent{{0xFFFFFFF6, 10, true}}) // ends AT 2^32: the 32-bit sum is 0
	one("wrap-inside", G+58, []ent{{0xFFFFFFF6, 9, true}})  // ends at 2^32 - 1: the last admissible end
	one("wrap-inside", G+58, []ent{{48, 8, false}, {0xFFFFFFFF, 1, true}})
	one("wrap-inside", G+58, []ent{{0xFFFFFFFF, 0xFFFFFFFF, true}})
	one("wrap-inside", 2*G, []ent{{0xFFFFFFFF, 0xFFFFFFFF, true}})
	one("wrap-inside", 2*G-2, []ent{{0xFFFFFFFF, 0xFFFFFFFF, true}})
	// ranges below 2^32 in a table beyond it: uint32(len(certs)) is small, Unmarshal may refuse what the check passed
	one("low-range", G+58, []ent{{48, 4, true}})
	one("low-range", G+58, []ent{{48, 20, true}})
	one("low-range", G, []ent{{24 * 2, 0, true}})
	one("low-range", G+1000, []ent{{72, 100, false}, {500, 400, true}})
	for i := 0; i < c.N(6, 40); i++ {
		total := G + r.Intn(4096)
		n := 1 + r.Intn(3)
		var es []ent
		for j := 0; j < n; j++ {
			e := ent{gce: j == n-1}
			switch r.Intn(4) {
			case 0:
				e.off, e.ln = uint32((n+1)*24+r.Intn(64)), uint32(r.Intn(64))
			case 1:
				e.ln = uint32(1 + r.Intn(40))
				e.off = uint32(G - int(e.ln) - 20 + r.Intn(40)) // ends within 20 of 2^32
			case 2:
				e.off, e.ln = uint32((n+1)*24+r.Intn(8)), uint32(total%G)+uint32(r.Intn(3))-1
			case 3:
				e.off, e.ln = uint32(G-1-r.Intn(3)), uint32(r.Intn(8))
			}
			es = append(es, e)
		}
		one("random", total, es)
	}
}

func runC16WireText(c *Ctx) {
	r := c.Rng
	hexOne := func(tag string, t []byte) {
		d, err := hex.DecodeString(string(t))
		res := "reject"
		if err == nil {
			res = "ok " + hx(d)
		}
		c.Count("hex/" + tag + "/" + res[:2])
		c.Case("c16wire op=hex t="+hx(t), res, tag != "random")
	}
	b64One := func(tag string, t []byte) {
		d, ok := cwB64(t)
		res := "reject"
		op := "c16wire op=b64 t=" + hx(t)
		if ok {
			res = "ok " + hx(d)
			if cwInterior(t) {
				op += " goacc=1"
				c.Count("b64/interior-padding-accepted-at-chunk-end")
			}
		}
		c.Count("b64/" + tag + "/" + res[:2])
		c.Case(op, res, tag != "random")
	}
	// every single byte as a one-character and as the second character of a two-character text
	for v := 0; v < 256; v++ {
		hexOne("byte", []byte{'a', byte(v)})
		hexOne("byte", []byte{byte(v), '0'})
		b64One("byte", []byte{'Q', 'U', 'F', byte(v)})
		b64One("byte", []byte{'Q', 'U', byte(v), '='})
		b64One("byte", []byte{byte(v), 'U', 'F', 'B'})
		b64One("byte", []byte{'Q', 'U', 'F', 'B', byte(v)})
	}
	alpha := []byte("ABCDEFGHIJKLMNOPQRSTUVWXYZabcdefghijklmnopqrstuvwxyz0123456789+/")
	for i := 0; i < c.N(400, 6000); i++ {
		b := r.Bytes(r.Intn(70))
		enc := []byte(hex.EncodeToString(b))
		c.Case("c16wire op=enc b="+hx(b), "hex="+hx(enc)+" b64="+hx([]byte(base64.StdEncoding.EncodeToString(b))), true)
		hexOne("encoded", enc)
		hexOne("upper", cwUpper(enc))
		hexOne("mixed", cwMixed(r, enc))
		if len(enc) > 0 {
			m := append([]byte{}, enc...)
			bad := []byte("gG/:@`\n\r =-_xX\x00\xff")
			m[r.Intn(len(m))] = bad[r.Intn(len(bad))]
			hexOne("onebad", m)
			hexOne("odd", enc[:len(enc)-1])
			hexOne("trailing-lf", append(append([]byte{}, enc...), '\n'))
		}
		e64 := []byte(base64.StdEncoding.EncodeToString(b))
		b64One("encoded", e64)
		b64One("crlf", cwWrap(e64, 1+r.Intn(10), []string{"\n", "\r\n", "\r", "\n\n"}[r.Intn(4)]))
		b64One("nopad", bytes.TrimRight(e64, "="))
		b64One("halfpad", bytes.TrimSuffix(e64, []byte("=")))
		b64One("extrapad", append(append([]byte{}, e64...), '='))
		b64One("url", []byte(base64.URLEncoding.EncodeToString(b)))
		if len(e64) > 0 {
			m := append([]byte{}, e64...)
			bad := []byte("=-_ \t.,:\x00\xff\v\f*")
			m[r.Intn(len(m))] = bad[r.Intn(len(bad))]
			b64One("onebad", m)
			// nonzero trailing bits in the last quantum (StdEncoding is not strict)
			if m2 := append([]byte{}, e64...); len(m2) >= 4 && m2[len(m2)-1] == '=' {
				k := len(m2) - 2
				if m2[k] == '=' {
					k--
				}
				m2[k] = alpha[r.Intn(64)]
				b64One("trailing-bits", m2)
			}
			// padded quantum in the interior
			b64One("interior", append(append([]byte{}, e64...), []byte(base64.StdEncoding.EncodeToString(r.Bytes(1+r.Intn(5))))...))
		}
		b64One("random", r.Bytes(r.Intn(12)))
		hexOne("random", r.Bytes(r.Intn(6)))
	}
	// the streaming decoder's chunks: a padded quantum that ends the first chunk of 680 characters (io.ReadAll
	// starts with a 512 byte buffer: 512/3*4 = 680), with and without CR/LF in front of it
	for _, first := range []int{508, 509, 510, 511, 512} { // 510 bytes → 680 characters
		for _, padn := range []int{1, 2} {
			head := r.Bytes(first - first%3) // whole quanta
			piece := r.Bytes(3 - padn)
			t := []byte(base64.StdEncoding.EncodeToString(head) + base64.StdEncoding.EncodeToString(piece) + base64.StdEncoding.EncodeToString(r.Bytes(6)))
			b64One("interior-at-chunk", t)
			b64One("interior-at-chunk", append([]byte("\n"), t...))
		}
	}
}

func runC16WireReport(c *Ctx) {
	r := c.Rng
	one := func(tag string, rep []byte) {
		res := "reject"
		var p *spb.Report
		var err error
		if pan, _, _ := Guard(func() { p, err = sabi.ReportToProto(rep) }); pan {
			res = "panic"
		} else if err == nil {
			res = "ok meas=" + hx(p.Measurement)
		}
		c.Count("rep/" + tag + "/" + res[:2])
		c.Case("c16wire op=rep r="+hx(rep), res, true)
	}
	guarded := []int{0, 1, 3, 0x08, 0x0A, 0x0B, 0x0F, 0x34, 0x35, 0x48, 0x49, 0x4B, 0x4C, 0x4F, 0x50, 0x187, 0x188, 0x18A, 0x18B, 0x19F, 0x1A0,
		0x1EA, 0x1EB, 0x1EC, 0x1EE, 0x1EF, 0x1F0, 0x1F7, 0x1F8, 0x29F, 0x2A0, 0x2A0 + 143, 0x2A0 + 144, 0x49F}
	for i := 0; i < c.N(40, 400); i++ {
		rep := cwReport(r)
		one("valid", rep)
		one("longer", append(append([]byte{}, rep...), r.Bytes(1+r.Intn(5))...))
		one("short", rep[:len(rep)-1-r.Intn(3)])
		for _, g := range guarded {
			m := append([]byte{}, rep...)
			m[g] ^= byte(1 << r.Intn(8))
			one("onebyte", m)
		}
	}
	for s := 0; s < 32; s++ { // every signing-key value with each of the low bits
		rep := cwReport(r)
		binary.LittleEndian.PutUint32(rep[0x48:], uint32(s))
		one("signer", rep)
	}
}

func runC16WireLaws(c *Ctx) {
	r := c.Rng
	for i := 0; i < c.N(300, 3000); i++ {
		q := r.Bytes(1 + r.Intn(40))
		q[0] = byte(r.Intn(8))
		if i%3 == 0 {
			q = append([]byte{byte(i % 8)}, cwReport(r)[1:]...)
		}
		all := proto.Unmarshal(q, &tpmpb.Attestation{}) != nil && proto.Unmarshal(q, &spb.Attestation{}) != nil &&
			proto.Unmarshal(q, &spb.Report{}) != nil && proto.Unmarshal(q, &tpb.QuoteV4{}) != nil
		if !all {
			c.Find("c16wire/law/proto-accepts-field-number-0", "a proto.Unmarshal accepted bytes whose first byte is below 8", "c16wire op=law q="+hx(q))
		}
		c.Case("c16wire op=law q="+hx(q), "rej="+b2s(all), true)
		t := r.Bytes(r.Intn(3) * r.Intn(700))
		if len(t) >= 2 && t[0] == 4 && t[1] == 0 {
			t[0] = 5
		}
		rej := cwTq(t, true) == "e"
		if !rej {
			c.Find("c16wire/law/tdx-accepts-other-version", "tabi.QuoteToProto did not refuse a header version other than 4", "c16wire op=lawtdx q="+hx(t))
		}
		c.Case("c16wire op=lawtdx q="+hx(t), "rej="+b2s(rej), true)
	}
}

func runC16Wire(c *Ctx) {
	runC16WireText(c)
	runC16WireTable(c)
	runC16WireReport(c)
	runC16WireLaws(c)
	runC16WireChain(c)
	runC16WireBig(c)
}
