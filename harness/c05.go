package main

// Stream c05 — TDX golden MRTD (property C05).
//
// Correspondence: the real tdx.MRTD, ovmf.ExtractMaterialGuestPhysicalRegions*, tdx.UnsignedTDX, the
// machine-shape bank layout and (through the verif hook) ovmf.unacceptedMemRanges against the Lean
// model AND the Lean specification (the model line carries both).
// Direct oracle (implementation only): the digest / regions / hand-off block are recomputed by the
// independent specification code in c05_util.go; the interval output is checked pointwise against a
// brute-force difference on the grid and against the structural clauses (sorted, disjoint, non-empty).

import (
	"fmt"
	"sort"
	"strings"

	"github.com/google/gce-tcb-verifier/ovmf"
	"github.com/google/gce-tcb-verifier/ovmf/abi"
	"github.com/google/gce-tcb-verifier/tdx"
)

func init() {
	register("c05", "non-trivial = an `unacc` case with at least one non-empty bank and one non-empty private range, or an mrtd/regions/unsigned case whose metadata passes extraction (outcome ok or a reject after validation: overlap, hoboverflow, alignment, datasize, chunk), or a known machine shape", runC05)
}

func gpr(s, l uint64) ovmf.GuestPhysicalRegion {
	return ovmf.GuestPhysicalRegion{Start: abi.EFIPhysicalAddress(s), Length: l}
}

// c05Unacc runs one interval case through the hook, emits the correspondence line and evaluates the
// direct oracle.  grid (ascending, may be nil) enables the brute-force pointwise check.
func c05Unacc(c *Ctx, priv, ram []ovmf.GuestPhysicalRegion, grid []uint64, class string) {
	privCopy := append([]ovmf.GuestPhysicalRegion(nil), priv...)
	ramCopy := append([]ovmf.GuestPhysicalRegion(nil), ram...)
	var out []ovmf.GuestPhysicalRegion
	panicked, msg, _ := Guard(func() { out = ovmf.UnacceptedMemRanges(priv, ram) })
	op := fmt.Sprintf("c05 op=unacc priv=%s ram=%s", showGprs(privCopy), showGprs(ramCopy))
	if panicked {
		c.Case(op, "panic="+tok(msg), true)
		c.Find("c05/unacceptedMemRanges/panic/"+class, "unacceptedMemRanges panicked: "+msg, op)
		return
	}
	pre := gprsNoOverflow(privCopy) && gprsNoOverflow(ramCopy) && gprsDisjoint(privCopy) && gprsDisjoint(ramCopy)
	impl := "out=" + showGprs(out) + " spec="
	if pre {
		impl += showGprs(out)
	} else {
		impl += "na"
	}
	nontriv := false
	for _, r := range ramCopy {
		for _, p := range privCopy {
			if r.Length != 0 && p.Length != 0 {
				nontriv = true
			}
		}
	}
	c.Case(op, impl, nontriv)
	c.Count("unacc/" + class)
	if pre {
		c.Count("unacc/precondition-holds")
	} else {
		c.Count("unacc/precondition-excluded")
	}
	// inputs must not be modified (the order matters in getTDHOBList)
	if !gprsEqual(priv, privCopy) || !gprsEqual(ram, ramCopy) {
		c.Find("c05/unacceptedMemRanges/input-modified/"+class, "the input slices were reordered or changed", op)
	}
	if !pre {
		return
	}
	// direct oracle 1: structural clauses
	for i, g := range out {
		if g.Length == 0 {
			c.Find("c05/unacceptedMemRanges/empty-output-range/"+class, "an output range is empty", op)
		}
		if i > 0 && uint64(out[i-1].Start)+out[i-1].Length > uint64(g.Start) {
			c.Find("c05/unacceptedMemRanges/output-not-sorted-disjoint/"+class, "output ranges are not ascending and disjoint", op)
		}
	}
	// direct oracle 2: equals the independent specification
	if want := specDifference(ramCopy, privCopy); !gprsEqual(out, want) {
		c.Find("c05/unacceptedMemRanges/differs-from-difference/"+class,
			fmt.Sprintf("got %s want %s", showGprs(out), showGprs(want)), op)
	}
	// direct oracle 3: brute-force pointwise on the grid cells
	if len(grid) > 1 {
		in := func(l []ovmf.GuestPhysicalRegion, x uint64) bool {
			for _, g := range l {
				if uint64(g.Start) <= x && x-uint64(g.Start) < g.Length {
					return true
				}
			}
			return false
		}
		for i := 0; i+1 < len(grid); i++ {
			for _, x := range []uint64{grid[i], grid[i] + (grid[i+1]-grid[i])/2, grid[i+1] - 1} {
				if in(out, x) != (in(ramCopy, x) && !in(privCopy, x)) {
					c.Find("c05/unacceptedMemRanges/pointwise-difference/"+class,
						fmt.Sprintf("address %d: in output %v, in ram %v, in private %v", x, in(out, x), in(ramCopy, x), in(privCopy, x)), op)
				}
			}
		}
	}
}

// disjointSets enumerates every ascending list of at most k pairwise-disjoint non-empty intervals with
// endpoints among the n grid indices.
func disjointSets(n, k int) [][][2]int {
	var res [][][2]int
	var rec func(from int, cur [][2]int)
	rec = func(from int, cur [][2]int) {
		res = append(res, append([][2]int(nil), cur...))
		if len(cur) == k {
			return
		}
		for a := from; a < n; a++ {
			for b := a + 1; b < n; b++ {
				rec(b, append(cur, [2]int{a, b}))
			}
		}
	}
	rec(0, nil)
	return res
}

func c05Intervals(c *Ctx) {
	grid := []uint64{0x1000, 0x2000, 0x3000, 0x5000, 0x8000, 0x9000, 0xc000}
	sets := disjointSets(7, 3)
	c.Extra["grid_disjoint_sets_per_side"] = len(sets)
	mk := func(s [][2]int, perm []int) []ovmf.GuestPhysicalRegion {
		var l []ovmf.GuestPhysicalRegion
		for _, p := range perm {
			if p < len(s) {
				l = append(l, gpr(grid[s[p][0]], grid[s[p][1]]-grid[s[p][0]]))
			}
		}
		return l
	}
	perms := [][]int{{0, 1, 2}, {0, 2, 1}, {1, 0, 2}, {1, 2, 0}, {2, 0, 1}, {2, 1, 0}}
	// 1. exhaustive: every pair of disjoint configurations (<= 3 banks x <= 3 private ranges, 7-point grid),
	//    each presented in a pseudo-randomly chosen input order
	for _, ps := range sets {
		for _, rs := range sets {
			c05Unacc(c, mk(ps, perms[c.Rng.Intn(6)]), mk(rs, perms[c.Rng.Intn(6)]), grid, "grid-disjoint")
		}
	}
	// 2. the same grid with empty ranges mixed in and with overlapping (excluded) configurations
	anyIv := func() ovmf.GuestPhysicalRegion {
		a, b := c.Rng.Intn(7), c.Rng.Intn(7)
		if a > b {
			a, b = b, a
		}
		return gpr(grid[a], grid[b]-grid[a])
	}
	n := c.N(12000, 400000)
	for i := 0; i < n; i++ {
		var ps, rs []ovmf.GuestPhysicalRegion
		for j, k := 0, c.Rng.Intn(4); j < k; j++ {
			ps = append(ps, anyIv())
		}
		for j, k := 0, c.Rng.Intn(4); j < k; j++ {
			rs = append(rs, anyIv())
		}
		c05Unacc(c, ps, rs, grid, "grid-any")
	}
	// 3. larger lists: disjoint by construction (random cut points), shuffled, with empties; the
	//    Go sort is only stable up to 12 elements, so ties are avoided beyond that by construction
	n = c.N(3000, 60000)
	for i := 0; i < n; i++ {
		mkList := func(maxN int, base uint64) ([]ovmf.GuestPhysicalRegion, []uint64) {
			k := c.Rng.Intn(maxN + 1)
			cuts := map[uint64]bool{}
			for len(cuts) < 2*k {
				cuts[base+uint64(c.Rng.Intn(4000))*0x1000] = true
			}
			var cs []uint64
			for x := range cuts {
				cs = append(cs, x)
			}
			sort.Slice(cs, func(a, b int) bool { return cs[a] < cs[b] })
			var l []ovmf.GuestPhysicalRegion
			for j := 0; j+1 < len(cs); j += 2 {
				l = append(l, gpr(cs[j], cs[j+1]-cs[j]))
			}
			if k <= 5 && c.Rng.Intn(3) == 0 && len(cs) > 0 {
				l = append(l, gpr(cs[c.Rng.Intn(len(cs))], 0))
			}
			for j := len(l) - 1; j > 0; j-- {
				m := c.Rng.Intn(j + 1)
				l[j], l[m] = l[m], l[j]
			}
			return l, cs
		}
		base := uint64(0)
		if c.Rng.Intn(4) == 0 {
			base = ^uint64(0) - 4001*0x1000 // ends stay below 2^64
		}
		ps, g1 := mkList(20, base)
		rs, g2 := mkList(20, base)
		g := append(append([]uint64(nil), g1...), g2...)
		sort.Slice(g, func(a, b int) bool { return g[a] < g[b] })
		c05Unacc(c, ps, rs, g, "large-disjoint")
	}
	// 4. excluded points: values at and around 2^64 (wrap-around), overlapping banks — model comparison only
	edge := []uint64{0, 1, 0x1000, 1 << 32, 1 << 63, ^uint64(0) - 0x1000, ^uint64(0) - 1, ^uint64(0)}
	n = c.N(4000, 80000)
	for i := 0; i < n; i++ {
		ev := func() ovmf.GuestPhysicalRegion {
			return gpr(edge[c.Rng.Intn(len(edge))]+uint64(c.Rng.Intn(3))-1, edge[c.Rng.Intn(len(edge))]+uint64(c.Rng.Intn(3))-1)
		}
		var ps, rs []ovmf.GuestPhysicalRegion
		for j, k := 0, c.Rng.Intn(4); j < k; j++ {
			ps = append(ps, ev())
		}
		for j, k := 0, 1+c.Rng.Intn(3); j < k; j++ {
			rs = append(rs, ev())
		}
		c05Unacc(c, ps, rs, nil, "wrap-edge")
	}
}

// ---- images ----

type c05Img struct {
	fw    []byte
	secs  []tdxSec
	valid bool   // the generator believes every check of extraction, parsing and measurement passes
	kind  string // generator class
}

// c05GenImage builds an image; most are valid, the rest carry one targeted defect.
func c05GenImage(c *Ctx) c05Img {
	pages := 1 + c.Rng.Intn(3)
	size := pages * 0x1000
	top := uint64(1<<32) - uint64(size)
	if c.Rng.Intn(4) == 0 {
		// firmware volumes one or two pages below the 4 GiB line: a bank ending at 4 GiB then leaves an
		// unaccepted range ending exactly at the early-accept threshold
		top -= uint64(1+c.Rng.Intn(2)) * 0x1000
	}
	var secs []tdxSec
	// firmware volumes: CFV (optional) then BFV, together covering the file
	if pages > 1 && c.Rng.Bool() {
		cp := 1 + c.Rng.Intn(pages-1)
		secs = append(secs, tdxSec{Off: 0, DSize: uint32(cp * 0x1000), Base: top, MSize: uint64(cp * 0x1000), Type: 1, Attr: uint32(c.Rng.Intn(2))})
		secs = append(secs, tdxSec{Off: uint32(cp * 0x1000), DSize: uint32((pages - cp) * 0x1000), Base: top + uint64(cp*0x1000), MSize: uint64((pages - cp) * 0x1000), Type: 0, Attr: 1})
	} else {
		secs = append(secs, tdxSec{Off: 0, DSize: uint32(size), Base: top, MSize: uint64(size), Type: 0, Attr: uint32(1 - c.Rng.Intn(4)/3)})
	}
	// TD HOB and temporary memory in low memory, non-overlapping slots
	slot := uint64(0x800000)
	next := func(p int) uint64 { s := slot; slot += uint64(p)*0x1000 + uint64(c.Rng.Intn(2))*0x1000; return s }
	hobPages := 1 + c.Rng.Intn(2)
	hob := tdxSec{Base: 0, MSize: uint64(hobPages) * 0x1000, Type: 2, Attr: uint32(c.Rng.Intn(2)) * uint32(1+c.Rng.Intn(2)*0x50)}
	nTemp := c.Rng.Intn(4)
	var low []tdxSec
	low = append(low, hob)
	for i := 0; i < nTemp; i++ {
		low = append(low, tdxSec{MSize: uint64(1+c.Rng.Intn(3)) * 0x1000, Type: 3, Attr: uint32(c.Rng.Intn(4))})
	}
	for i := len(low) - 1; i > 0; i-- {
		j := c.Rng.Intn(i + 1)
		low[i], low[j] = low[j], low[i]
	}
	if c.Rng.Intn(8) == 0 { // put the low sections above 4 GiB instead
		slot = 1<<32 + uint64(c.Rng.Intn(4))*0x1000
	}
	for i := range low {
		low[i].Base = next(int(low[i].MSize / 0x1000))
	}
	secs = append(secs, low...)
	// declared order: any permutation
	for i := len(secs) - 1; i > 0; i-- {
		j := c.Rng.Intn(i + 1)
		secs[i], secs[j] = secs[j], secs[i]
	}
	img := c05Img{secs: secs, valid: true, kind: "valid"}
	spec := tdxImgSpec{Size: size, MetaAt: 0x40 + 0x10*c.Rng.Intn(8), Fill: byte(c.Rng.Next()), ExtraBlk: c.Rng.Intn(4) == 0}
	find := func(t uint32) int {
		for i, s := range secs {
			if s.Type == t {
				return i
			}
		}
		return 0
	}
	if c.Rng.Intn(100) < 45 {
		img.valid = false
		switch k := c.Rng.Intn(22); k {
		case 0:
			spec.Sig = u32p(0x46564455)
			img.kind = "bad-sig"
		case 1:
			spec.Version = u32p(uint32(c.Rng.Intn(3)) * 2)
			img.kind = "bad-version"
		case 2:
			spec.Length = u32p(uint32(16 + 32*len(secs) + 1 - 2*c.Rng.Intn(2)))
			img.kind = "bad-length"
		case 3:
			spec.Count = u32p(uint32(len(secs) + 1 - 2*c.Rng.Intn(2)))
			img.kind = "bad-count"
		case 4:
			spec.BadGUID = true
			img.kind = "bad-guid"
		case 5:
			spec.NoBlock = true
			img.kind = "no-block"
		case 6:
			spec.OffsetV = u32p([]uint32{0, 15, uint32(size - 16 + 1), uint32(size), 0xffffffff}[c.Rng.Intn(5)])
			img.kind = "bad-offset"
		case 7:
			i := find(2)
			secs[i].Type = 3 // no TD HOB
			img.kind = "no-hob"
		case 8:
			secs = append(secs, tdxSec{Base: 0x900000, MSize: 0x1000, Type: 2})
			img.kind = "two-hobs"
		case 9:
			secs[find(3)].Type = uint32(4 + c.Rng.Intn(3))
			img.kind = "bad-type-or-nop"
			if secs[find(2)].Type == 2 && len(secs) > 0 {
				// find(3) returned 0 when there is no TempMem: then section 0 changed type
			}
		case 10: // overlap: a TempMem inside / touching another section
			v := secs[c.Rng.Intn(len(secs))]
			delta := uint64(c.Rng.Intn(3)) * 0x1000
			secs = append(secs, tdxSec{Base: v.Base + v.MSize - 0x1000 + delta - 0x1000*uint64(c.Rng.Intn(2)), MSize: 0x1000 + 0x1000*uint64(c.Rng.Intn(2)), Type: 3})
			img.kind = "maybe-overlap"
		case 11: // unaligned base or size
			i := find(3)
			if c.Rng.Bool() {
				secs[i].Base += uint64(1 + c.Rng.Intn(0xfff))
			} else {
				secs[i].MSize += uint64(1+c.Rng.Intn(15)) * 0x100
			}
			img.kind = "unaligned"
		case 12: // FV memory size differs from data size
			secs[find(0)].MSize += 0x1000
			img.kind = "fv-mem-mismatch"
		case 13: // FV data out of the file / zero
			i := find(0)
			switch c.Rng.Intn(3) {
			case 0:
				secs[i].Off += 0x1000
			case 1:
				secs[i].DSize, secs[i].MSize = 0, 0
			case 2:
				secs[i].Off = uint32(size) + 1
			}
			img.kind = "fv-range"
		case 14: // FV sizes do not add up
			secs = append(secs, tdxSec{Off: 0, DSize: 0x1000, Base: 0x700000, MSize: 0x1000, Type: 1})
			img.kind = "fv-sum"
		case 15: // no BFV
			secs[find(0)].Type = 1
			img.kind = "no-bfv"
		case 16: // memory range caps (k-1, k, k+1 around the two limits)
			d := uint64(c.Rng.Intn(3)) * 0x1000
			if c.Rng.Bool() {
				secs = append(secs, tdxSec{Base: 1<<52 - 0x2000 + d, MSize: 0x1000, Type: 3})
				img.kind = "phys-limit"
			} else {
				var tot uint64
				for _, s := range secs {
					tot += s.MSize
				}
				// placed over the TD HOB: accepted by the cap (d = 0, 0x1000) it is then refused as
				// overlapping, so the boundary is visible in the outcome class without 4 GiB being materialised
				secs = append(secs, tdxSec{Base: secs[find(2)].Base, MSize: 1<<32 - tot - 0x1000 + d, Type: 3})
				img.kind = "total-limit"
			}
		case 17: // TD HOB too small / exactly fitting (not page aligned: rejected later by the measurement)
			i := find(2)
			secs[i].MSize = uint64(64 + 48*len(secs) - 1 + c.Rng.Intn(3))
			img.kind = "hob-fit-boundary"
		case 18: // zero-length sections
			off := 0x800 * uint64(c.Rng.Intn(3))
			secs = append(secs, tdxSec{Base: secs[0].Base + off, MSize: 0, Type: 3})
			img.kind = "zero-length-section"
			img.valid = off != 0x800
		case 19:
			spec.BlkSize = u16p(uint16([]int{0, 17, 18, 21, 23, 4000}[c.Rng.Intn(6)]))
			img.kind = "block-size"
		case 20:
			spec.TblSize = u16p(uint16([]int{0, 17, 18, 39, 41, 0xffff}[c.Rng.Intn(6)]))
			img.kind = "table-size"
		case 21:
			spec.Size = 0x20 + 18 + c.Rng.Intn(64)
			spec.MetaAt = 0
			img.kind = "tiny"
		}
	}
	spec.Secs = secs
	img.secs = secs
	img.fw = buildTdxImage(spec)
	return img
}

var c05Shapes = []string{"c3-standard-4", "c3-standard-8", "c3-standard-22", "c3-standard-44", "c3-standard-88", "c3-standard-176"}

func c05GenBanks(c *Ctx) ([]ovmf.GuestPhysicalRegion, string) {
	switch k := c.Rng.Intn(10); {
	case k < 4:
		name := c05Shapes[c.Rng.Intn(len(c05Shapes))]
		return tdx.LaunchOptionsDefaultTDHOBBug(name).GuestRAMBanks, "shape"
	case k == 4:
		return nil, "empty"
	case k < 8: // well-formed: disjoint banks around the sections and the 4 GiB line
		pts := []uint64{0, 0x7ff000, 0x800000, 0x801000, 0x803000, 0x808000, 0x810000, 0xc0000000, 0xffffd000, 0xfffff000, 1 << 32, 1<<32 + 0x2000, 1 << 33, 1 << 40}
		var l []ovmf.GuestPhysicalRegion
		i := c.Rng.Intn(3)
		for i+1 < len(pts) && len(l) < 5 {
			j := i + 1 + c.Rng.Intn(3)
			if j >= len(pts) {
				j = len(pts) - 1
			}
			l = append(l, gpr(pts[i], pts[j]-pts[i]))
			i = j + c.Rng.Intn(2)
		}
		for a := len(l) - 1; a > 0; a-- {
			b := c.Rng.Intn(a + 1)
			l[a], l[b] = l[b], l[a]
		}
		return l, "disjoint"
	default: // excluded: overlapping / huge / wrapping banks (model comparison; specification not applicable)
		vals := []uint64{0, 0x800000, 0x802000, 0xfffff000, 1 << 32, 1 << 40, 1 << 63, ^uint64(0) - 0xfff, ^uint64(0)}
		var l []ovmf.GuestPhysicalRegion
		for j, n := 0, 1+c.Rng.Intn(4); j < n; j++ {
			l = append(l, gpr(vals[c.Rng.Intn(len(vals))], vals[c.Rng.Intn(len(vals))]))
		}
		return l, "arbitrary"
	}
}

func c05Mode(du, ma bool) int {
	if du {
		return 2
	}
	if ma {
		return 1
	}
	return 0
}

var c05PostValidation = map[string]bool{"ok": true, "overlap": true, "hoboverflow": true, "datasize": true, "alignstart": true, "alignlen": true, "chunk": true}

func c05Mrtd(c *Ctx, img c05Img, banks []ovmf.GuestPhysicalRegion, bankKind string, du, ma bool) {
	fw := append(make([]byte, 0, len(img.fw)), img.fw...) // cap == len
	opts := &tdx.LaunchOptions{GuestRAMBanks: append([]ovmf.GuestPhysicalRegion(nil), banks...), DisableUnacceptedMemory: du, MeasureAllRegions: ma}
	var d [48]byte
	var err error
	op := fmt.Sprintf("c05 op=mrtd du=%s ma=%s banks=%s img=%s", b2s(du), b2s(ma), showGprs(banks), hx(fw))
	panicked, msg, _ := Guard(func() { d, err = tdx.MRTD(opts, fw) })
	mode := c05Mode(du, ma)
	c.Count(fmt.Sprintf("mrtd/mode%d", mode))
	c.Count("mrtd/banks-" + bankKind)
	c.Count("mrtd/image-" + img.kind)
	if panicked {
		c.Case(op, "panic="+tok(msg), true)
		c.Find("c05/MRTD/panic/"+img.kind, "tdx.MRTD panicked: "+msg, op)
		return
	}
	cls := tdxErrClass(err)
	c.Count("mrtd/outcome-" + cls)
	used := banks
	if mode == 0 {
		used = nil
	}
	banksOK := gprsNoOverflow(used) && gprsDisjoint(used)
	valid := img.valid
	if mode == 0 {
		// A temporary-memory section flagged for extension has no host buffer outside the legacy modes:
		// InitMemoryRegion refuses it ("does not match source data size").
		for _, s := range img.secs {
			if s.Type == 3 && s.Attr&1 == 1 && s.MSize != 0 {
				valid = false
			}
		}
	}
	if err != nil {
		c.Case(op, "reject="+cls, c05PostValidation[cls])
		if valid && banksOK {
			if _, _, fits := specMrtd(mode, fw, used, img.secs); fits {
				c.Find("c05/MRTD/valid-image-rejected/"+cls, "a well-formed image was rejected: "+err.Error(), op)
			}
		}
		return
	}
	impl := "ok " + hx(d[:]) + " spec="
	if banksOK {
		impl += hx(d[:])
	} else {
		impl += "na"
	}
	c.Case(op, impl, true)
	// direct oracle: independent recomputation from the specification
	if valid && banksOK {
		want, _, fits := specMrtd(mode, fw, used, img.secs)
		if !fits {
			c.Find("c05/MRTD/accepted-though-hob-does-not-fit/"+img.kind, "MRTD returned a digest although the hand-off block does not fit its section", op)
		} else if want != d {
			c.Find(fmt.Sprintf("c05/MRTD/digest-differs-from-spec/mode%d", mode),
				fmt.Sprintf("got %x want %x", d[:8], want[:8]), op)
		}
	}
}

func c05Regions(c *Ctx, img c05Img, banks []ovmf.GuestPhysicalRegion, mode int) {
	fw := append(make([]byte, 0, len(img.fw)), img.fw...)
	var regs []*ovmf.MaterialGuestPhysicalRegion
	var err error
	b := append([]ovmf.GuestPhysicalRegion(nil), banks...)
	op := fmt.Sprintf("c05 op=regions mode=%d banks=%s img=%s", mode, showGprs(banks), hx(fw))
	panicked, msg, _ := Guard(func() {
		switch mode {
		case 0:
			regs, err = ovmf.ExtractMaterialGuestPhysicalRegions(fw)
		case 1:
			regs, err = ovmf.ExtractMaterialGuestPhysicalRegionsTDHOBBug(fw, b)
		default:
			regs, err = ovmf.ExtractMaterialGuestPhysicalRegionsNoUnacceptedMemory(fw, b)
		}
	})
	c.Count(fmt.Sprintf("regions/mode%d", mode))
	if panicked {
		c.Case(op, "panic="+tok(msg), true)
		c.Find("c05/ExtractMaterialGuestPhysicalRegions/panic/"+img.kind, "panicked: "+msg, op)
		return
	}
	cls := tdxErrClass(err)
	c.Count("regions/outcome-" + cls)
	if err != nil {
		c.Case(op, "reject="+cls, c05PostValidation[cls])
		return
	}
	var parts []string
	hob := "-"
	for _, r := range regs {
		parts = append(parts, fmt.Sprintf("%d:%d:%d:%d:%d", uint64(r.GPR.Start), r.GPR.Length, r.TDVFAttributes, len(r.HostBuffer), fnv1a(r.HostBuffer)))
		if hob == "-" && len(r.HostBuffer) >= 56 && r.HostBuffer[0] == 1 && r.HostBuffer[1] == 0 && r.HostBuffer[2] == 56 && r.HostBuffer[3] == 0 {
			hob = hx(trimZeros(r.HostBuffer))
		}
	}
	c.Case(op, fmt.Sprintf("ok n=%d r=%s hob=%s", len(regs), strings.Join(parts, ";"), hob), true)
	// direct oracle: one region per declared section in declared order; FV contents from the image;
	// the TD HOB equals the specification's block and has exactly the section's size
	used := banks
	if mode == 0 {
		used = nil
	}
	if !(gprsNoOverflow(used) && gprsDisjoint(used)) {
		return
	}
	secs := img.secs
	if len(regs) != len(secs) {
		if img.valid {
			c.Find("c05/ExtractMaterialGuestPhysicalRegions/region-count/"+img.kind, "number of regions differs from the number of declared sections", op)
		}
		return
	}
	if !img.valid && img.kind != "unaligned" && img.kind != "hob-fit-boundary" {
		return
	}
	var priv []ovmf.GuestPhysicalRegion
	for _, s := range secs {
		priv = append(priv, gpr(s.Base, s.MSize))
	}
	var un []ovmf.GuestPhysicalRegion
	if mode != 0 {
		un = specDifference(used, priv)
	}
	for i, s := range secs {
		r := regs[i]
		if uint64(r.GPR.Start) != s.Base || r.GPR.Length != s.MSize {
			c.Find("c05/ExtractMaterialGuestPhysicalRegions/region-order-or-range", "region i does not carry section i's memory range", op)
		}
		wantAttr := s.Attr
		if mode != 0 {
			wantAttr |= 1
		}
		if r.TDVFAttributes != wantAttr {
			c.Find("c05/ExtractMaterialGuestPhysicalRegions/attributes", "region attributes differ from the section's (with the extend bit forced only in the legacy modes)", op)
		}
		switch s.Type {
		case 0, 1:
			if uint64(s.Off)+s.MSize <= uint64(len(fw)) && string(r.HostBuffer) != string(fw[s.Off:uint64(s.Off)+s.MSize]) {
				c.Find("c05/ExtractMaterialGuestPhysicalRegions/fv-contents", "firmware-volume region does not hold the image bytes of its data range", op)
			}
		case 2:
			want, fits := specHob(s.Base, s.MSize, secs, un, mode != 2)
			if !fits {
				c.Find("c05/ExtractMaterialGuestPhysicalRegions/hob-overflow-accepted", "hand-off block does not fit but no error was returned", op)
			} else if string(want) != string(r.HostBuffer) {
				c.Find(fmt.Sprintf("c05/ExtractMaterialGuestPhysicalRegions/hob-differs-from-spec/mode%d", mode),
					fmt.Sprintf("len got %d want %d", len(r.HostBuffer), len(want)), op)
			}
		case 3:
			wantLen := 0
			if mode != 0 {
				wantLen = int(s.MSize)
			}
			if len(r.HostBuffer) != wantLen || len(trimZeros(r.HostBuffer)) != 0 {
				c.Find("c05/ExtractMaterialGuestPhysicalRegions/tempmem-contents", "temporary-memory region is not a zero buffer of the expected size", op)
			}
		}
	}
}

func runC05(c *Ctx) {
	// machine shapes
	for _, name := range append(append([]string(nil), c05Shapes...), "c3-standard-2", "", "n2d-standard-4", "c3-standard-176x") {
		banks := tdx.LaunchOptionsDefaultTDHOBBug(name).GuestRAMBanks
		op := "c05 op=shape name=" + tok(name)
		if banks == nil {
			c.Case(op, "reject=shape", false)
			continue
		}
		c.Case(op, "ok "+showGprs(banks), true)
		// direct oracle: banks ascending, disjoint, avoid [3 GiB, 4 GiB) except the top 2 MiB, sum = RAM size
		var sum uint64
		for i, b := range banks {
			sum += b.Length
			if i > 0 && uint64(banks[i-1].Start)+banks[i-1].Length > uint64(b.Start) {
				c.Find("c05/regionsForShape/banks-not-ascending-disjoint", name, op)
			}
			lo, hi := uint64(b.Start), uint64(b.Start)+b.Length
			if lo < 4<<30 && hi > 3<<30 && !(lo == 4<<30-2<<20 && hi == 4<<30) {
				c.Find("c05/regionsForShape/bank-in-mmio-hole", name, op)
			}
		}
		var gibs uint64
		fmt.Sscanf(map[string]string{"c3-standard-4": "16", "c3-standard-8": "32", "c3-standard-22": "88", "c3-standard-44": "176", "c3-standard-88": "352", "c3-standard-176": "704"}[name], "%d", &gibs)
		if sum != gibs<<30+2<<20 {
			c.Find("c05/regionsForShape/banks-do-not-sum-to-ram", fmt.Sprintf("%s: %d", name, sum), op)
		}
	}
	// options values held across later calls: the bank list handed out for one shape is the caller's; building
	// options for other shapes afterwards must not reach into it (every ordered pair, largest shapes first)
	{
		type held struct {
			name string
			o    *tdx.LaunchOptions
			was  string
		}
		var hs []held
		for i := len(c05Shapes) - 1; i >= 0; i-- {
			o := tdx.LaunchOptionsDefaultTDHOBBug(c05Shapes[i])
			hs = append(hs, held{c05Shapes[i], o, showGprs(o.GuestRAMBanks)})
		}
		for _, name := range c05Shapes {
			o := tdx.LaunchOptionsDefaultTDHOBBug(name)
			hs = append(hs, held{name, o, showGprs(o.GuestRAMBanks)})
		}
		for _, h := range hs {
			c.Count("shape-options-held")
			if now := showGprs(h.o.GuestRAMBanks); now != h.was {
				c.Find("c05/LaunchOptionsDefaultTDHOBBug/banks-changed-by-later-call", fmt.Sprintf("the RAM banks of the options built for %s were %s and are %s after options for other shapes were built", h.name, h.was, now),
					"c05 op=shape-held name="+h.name)
			}
		}
	}
	c05Intervals(c)
	// MRTD / regions / unsigned
	n := c.N(700, 5000)
	for i := 0; i < n; i++ {
		img := c05GenImage(c)
		banks, bk := c05GenBanks(c)
		for _, m := range [][2]bool{{false, false}, {false, true}, {true, true}, {true, false}} {
			if m[0] && !m[1] && c.Rng.Intn(4) != 0 {
				continue // DisableUnacceptedMemory without MeasureAllRegions: same mode as (true, true); sampled
			}
			c05Mrtd(c, img, banks, bk, m[0], m[1])
		}
		if i%2 == 0 {
			c05Regions(c, img, banks, c.Rng.Intn(3))
		}
	}
	// tdx.UnsignedTDX over shape lists
	n = c.N(25, 300)
	for i := 0; i < n; i++ {
		img := c05GenImage(c)
		var shapes []string
		for j, k := 0, c.Rng.Intn(4); j < k; j++ {
			shapes = append(shapes, c05Shapes[c.Rng.Intn(len(c05Shapes))])
		}
		if c.Rng.Intn(10) == 0 {
			shapes = append(shapes, "c3-standard-3")
		}
		early := c.Rng.Bool()
		fw := append(make([]byte, 0, len(img.fw)), img.fw...)
		op := fmt.Sprintf("c05 op=unsigned early=%s shapes=%s img=%s", b2s(early), strings.Join(shapes, ","), hx(fw))
		var res []string
		var err error
		panicked, msg, _ := Guard(func() {
			v, e := tdx.UnsignedTDX(fw, &tdx.EndorsementRequest{Svn: 1, IncludeEarlyAccept: early, MachineShapes: shapes})
			err = e
			if e == nil {
				for _, m := range v.Measurements {
					res = append(res, fmt.Sprintf("%d:%s:%s", m.RamGib, b2s(m.EarlyAccept), hx(m.Mrtd)))
				}
			}
		})
		c.Count("unsigned/outcome-" + map[bool]string{true: "panic", false: tdxErrClass(err)}[panicked])
		switch {
		case panicked:
			c.Case(op, "panic="+tok(msg), true)
			c.Find("c05/UnsignedTDX/panic", msg, op)
		case err != nil:
			c.Case(op, "reject="+tdxErrClass(err), c05PostValidation[tdxErrClass(err)])
		default:
			c.Case(op, "ok "+strings.Join(res, ";"), true)
			// every row is the MRTD of ITS OWN configuration: recomputed with launch options built afresh for the
			// labelled shape and mode (nothing carried over from the row before), in the documented order
			var want []string
			for _, sh := range shapes {
				o := tdx.LaunchOptionsDefaultTDHOBBug(sh)
				if m, e := tdx.MRTD(o, append([]byte(nil), fw...)); e == nil {
					want = append(want, fmt.Sprintf("%d:0:%s", c06ShapeRAM[sh], hx(m[:])))
				}
				if early {
					o2 := tdx.LaunchOptionsDefaultTDHOBBug(sh)
					o2.DisableUnacceptedMemory = true
					if m, e := tdx.MRTD(o2, append([]byte(nil), fw...)); e == nil {
						want = append(want, fmt.Sprintf("%d:1:%s", c06ShapeRAM[sh], hx(m[:])))
					}
				}
			}
			if m, e := tdx.MRTD(tdx.LaunchOptionsDefault(""), append([]byte(nil), fw...)); e == nil {
				want = append(want, fmt.Sprintf("0:0:%s", hx(m[:])))
			}
			if strings.Join(want, ";") != strings.Join(res, ";") {
				c.Find("c05/UnsignedTDX/row-not-the-mrtd-of-its-configuration", "a row of tdx.UnsignedTDX is not tdx.MRTD of the image for that row's machine shape and early-accept mode computed with fresh launch options", op+" got="+strings.Join(res, ";")+" want="+strings.Join(want, ";"))
			}
			c.Count("unsigned/rows-recomputed")
			for _, r := range res {
				if strings.HasSuffix(r, ":"+strings.Repeat("00", 48)) {
					c.Find("c05/UnsignedTDX/zero-mrtd-endorsed", "an all-zero MRTD was returned as a measurement", op)
				}
			}
		}
	}
}
