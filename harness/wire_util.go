package main

// Shared by the streams c01wire (C01) and c07wire (C07): container-level case generation for
// verify.Endorsement and the INDEPENDENT evaluation of the cryptographic facts of a container.
//
// A case is a byte string handed to the entry point as the serialized VMLaunchEndorsement.  The Lean side
// decodes it with the wire codec (which payload, which signature, which certificate inside the payload) and
// needs, for whatever it ends up with, the verdicts of X.509 parsing, chain building and RSA-PSS.  The
// harness therefore lists every (payload, signature) pair the container COULD denote — every
// length-delimited field 1 and field 2 at the top level, found with protowire's low-level scanner, plus the
// empty byte string — and evaluates the facts for each pair with the standard library only.  Nothing in this
// file calls the repository's verify package.

import (
	"bytes"
	"crypto"
	"crypto/rsa"
	"crypto/sha256"
	"crypto/x509"
	"fmt"
	"sort"
	"strings"
	"time"

	epb "github.com/google/gce-tcb-verifier/proto/endorsement"
	"google.golang.org/protobuf/encoding/protowire"
	"google.golang.org/protobuf/proto"
)

type wireRange struct{ off, n int }

func (r wireRange) tok() string { return fmt.Sprintf("%d:%d", r.off, r.n) }

type wirePayload struct {
	r      wireRange
	b      []byte
	cert   *wireRange // nil: the payload does not unmarshal or carries no certificate
	cp, ch bool
	pub    *rsa.PublicKey
}

type wireFacts struct {
	payloads []*wirePayload
	sigs     []wireRange
	sigb     [][]byte
	good     [][2]int
	scanned  bool // the container is a sequence of fields for protowire's scanner
	// what the container denotes for the LIBRARY (proto.Unmarshal), as indices into the candidates:
	// "-" when it does not unmarshal, "?" when not among the candidates
	sel string
	// independent authenticity of what the library says the container denotes
	auth   bool
	clause string
	nt     bool // payload unmarshals and carries a certificate
}

const wireMaxCand = 5

// wireScan lists the top-level length-delimited fields 1 and 2 with the offsets of their contents.
func wireScan(b []byte) (p1, p2 []wireRange, ok bool) {
	off := 0
	for off < len(b) {
		num, typ, n := protowire.ConsumeTag(b[off:])
		if n < 0 {
			return nil, nil, false
		}
		off += n
		m := protowire.ConsumeFieldValue(num, typ, b[off:])
		if m < 0 {
			return nil, nil, false
		}
		if typ == protowire.BytesType && (num == 1 || num == 2) {
			v, _ := protowire.ConsumeBytes(b[off:])
			r := wireRange{off + m - len(v), len(v)}
			if num == 1 {
				p1 = append(p1, r)
			} else {
				p2 = append(p2, r)
			}
		}
		off += m
	}
	return p1, p2, true
}

func wireIndex(cands [][]byte, b []byte) int {
	for i, c := range cands {
		if bytes.Equal(c, b) {
			return i
		}
	}
	return -1
}

// wireComputeFacts: candidates and facts of container cont under (roots, now).
func wireComputeFacts(cont []byte, roots *x509.CertPool, now time.Time) *wireFacts {
	f := &wireFacts{sel: "-", clause: "no-endorsement"}
	p1, p2, ok := wireScan(cont)
	f.scanned = ok
	// the last occurrences matter most: keep the last wireMaxCand-1 of each, then the empty string
	trim := func(rs []wireRange) []wireRange {
		if len(rs) > wireMaxCand-1 {
			rs = rs[len(rs)-(wireMaxCand-1):]
		}
		return rs
	}
	var pb [][]byte
	for _, r := range append(trim(p1), wireRange{0, 0}) {
		b := cont[r.off : r.off+r.n]
		if wireIndex(pb, b) >= 0 {
			continue
		}
		pb = append(pb, b)
		wp := &wirePayload{r: r, b: b}
		g := &epb.VMGoldenMeasurement{}
		if err := proto.Unmarshal(b, g); err == nil && len(g.Cert) > 0 {
			if k := bytes.Index(b, g.Cert); k >= 0 {
				wp.cert = &wireRange{r.off + k, len(g.Cert)}
				if cert, err := x509.ParseCertificate(g.Cert); err == nil {
					wp.cp = true
					if roots != nil {
						_, err := cert.Verify(x509.VerifyOptions{Roots: roots, CurrentTime: now})
						wp.ch = err == nil
					}
					if pub, ok := cert.PublicKey.(*rsa.PublicKey); ok {
						wp.pub = pub
					}
				}
			}
		}
		f.payloads = append(f.payloads, wp)
	}
	for _, r := range append(trim(p2), wireRange{0, 0}) {
		b := cont[r.off : r.off+r.n]
		if wireIndex(f.sigb, b) >= 0 {
			continue
		}
		f.sigb = append(f.sigb, b)
		f.sigs = append(f.sigs, r)
	}
	for i, wp := range f.payloads {
		if wp.pub == nil {
			continue
		}
		d := sha256.Sum256(wp.b)
		for j, s := range f.sigb {
			if rsa.VerifyPSS(wp.pub, crypto.SHA256, d[:], s, &rsa.PSSOptions{SaltLength: 32, Hash: crypto.SHA256}) == nil {
				f.good = append(f.good, [2]int{i, j})
			}
		}
	}
	// what the library makes of the container, and whether THAT is authentic
	e := c01FromContainer(cont)
	if e.msg != nil {
		i, j := wireIndex(pb, e.msg.SerializedUefiGolden), wireIndex(f.sigb, e.msg.Signature)
		if i >= 0 && j >= 0 {
			f.sel = fmt.Sprintf("%d.%d", i, j)
		} else {
			f.sel = "?"
		}
	}
	ind := c01IndependentFacts(e, roots, now)
	f.auth, f.clause = ind.authentic(roots == nil)
	f.nt = ind.g && ind.c
	return f
}

func (f *wireFacts) line() string {
	var sb strings.Builder
	fmt.Fprintf(&sb, " np=%d", len(f.payloads))
	for i, p := range f.payloads {
		c := "-"
		if p.cert != nil {
			c = p.cert.tok()
		}
		fmt.Fprintf(&sb, " p%d=%s p%d.c=%s p%d.cp=%s p%d.ch=%s", i, p.r.tok(), i, c, i, b2s(p.cp), i, b2s(p.ch))
	}
	fmt.Fprintf(&sb, " ns=%d", len(f.sigs))
	for j, s := range f.sigs {
		fmt.Fprintf(&sb, " s%d=%s", j, s.tok())
	}
	var g []string
	for _, p := range f.good {
		g = append(g, fmt.Sprintf("%d.%d", p[0], p[1]))
	}
	sort.Strings(g)
	if len(g) == 0 {
		g = []string{"-"}
	}
	sb.WriteString(" sg=" + strings.Join(g, ","))
	return sb.String()
}

// ---------------------------------------------------------------------------------------------
// building blocks

func wireLen(num int, data []byte) []byte {
	return protowire.AppendBytes(protowire.AppendTag(nil, protowire.Number(num), protowire.BytesType), data)
}

func wireVarint(num int, v uint64) []byte {
	return protowire.AppendVarint(protowire.AppendTag(nil, protowire.Number(num), protowire.VarintType), v)
}

func wireCat(parts ...[]byte) []byte {
	var out []byte
	for _, p := range parts {
		out = append(out, p...)
	}
	return out
}

// wireLenPadded: a length-delimited field whose tag is padded to tagN bytes and whose length to lenN bytes
// (non-minimal varints; 1 = minimal where the value fits).
func wireLenPadded(num int, data []byte, tagN, lenN int) []byte {
	tag := uint64(num)<<3 | 2
	var out []byte
	if tagN <= 1 {
		out = protowire.AppendVarint(out, tag)
	} else {
		out = append(out, pwPadVarint(tag, tagN)...)
	}
	if lenN <= 1 || protowire.SizeVarint(uint64(len(data))) > lenN {
		out = protowire.AppendVarint(out, uint64(len(data)))
	} else {
		out = append(out, pwPadVarint(uint64(len(data)), lenN)...)
	}
	return append(out, data...)
}

func wireGroup(num int, inner []byte) []byte {
	out := protowire.AppendTag(nil, protowire.Number(num), protowire.StartGroupType)
	out = append(out, inner...)
	return protowire.AppendTag(out, protowire.Number(num), protowire.EndGroupType)
}

type wireCase struct {
	desc string
	cont []byte
}

// wireMaterial: the byte strings the container-level cases are assembled from.
type wireMaterial struct {
	P, S       []byte // genuine payload and signature (real pipeline)
	P2, S2     []byte // a second genuine pair (other cl_spec, same key)
	Sbad, Pbad []byte // one bit flipped
	PF, SF     []byte // self-consistent endorsement of a FOREIGN CA
	G          *epb.VMGoldenMeasurement
}

func wireMaterialFrom(env *c01Env) *wireMaterial {
	m := &wireMaterial{P: env.base.msg.SerializedUefiGolden, S: env.base.msg.Signature, G: env.baseG}
	g2 := c01Clone(env.baseG)
	g2.ClSpec = 4321
	e2 := c01Resign(env.crng, g2, env.keyA)
	m.P2, m.S2 = e2.msg.SerializedUefiGolden, e2.msg.Signature
	m.Sbad = c01FlipBit(m.S, 77)
	m.Pbad = c01FlipBit(m.P, 13*8+1)
	ef := c01Resign(env.crng, env.goldenFor(env.caB.leaf), env.caB.leafKey)
	m.PF, m.SF = ef.msg.SerializedUefiGolden, ef.msg.Signature
	return m
}

// wireContainerCases: the deterministic container-level cases (concatenations, duplicated / reordered /
// unknown / wrong-typed fields, over-long varints, nesting, truncations, trailing bytes).
func wireContainerCases(env *c01Env, m *wireMaterial) []wireCase {
	var out []wireCase
	add := func(desc string, parts ...[]byte) { out = append(out, wireCase{desc, wireCat(parts...)}) }
	P, S, P2, S2, Sbad, Pbad := m.P, m.S, m.P2, m.S2, m.Sbad, m.Pbad
	f1, f2 := func(b []byte) []byte { return wireLen(1, b) }, func(b []byte) []byte { return wireLen(2, b) }
	G := wireCat(f1(P), f2(S))
	// ---- plain and reordered
	add("plain", G)
	add("reordered-sig-first", f2(S), f1(P))
	add("plain-second-genuine", f1(P2), f2(S2))
	add("plain-foreign-ca", f1(m.PF), f2(m.SF))
	// ---- concatenations of two containers (protobuf merge: last payload, last signature)
	type part struct {
		name string
		b    []byte
	}
	parts := []part{
		{"genuine", G}, {"genuine2", wireCat(f1(P2), f2(S2))}, {"badsig", wireCat(f1(P), f2(Sbad))},
		{"badpayload", wireCat(f1(Pbad), f2(S))}, {"sigonly", f2(S)}, {"sigonly-bad", f2(Sbad)}, {"sigonly2", f2(S2)},
		{"payloadonly", f1(P)}, {"payloadonly2", f1(P2)}, {"empty", nil}, {"foreign", wireCat(f1(m.PF), f2(m.SF))},
		{"emptyfields", wireCat(f1(nil), f2(nil))},
	}
	for _, a := range parts {
		for _, b := range parts {
			add("concat/"+a.name+"+"+b.name, a.b, b.b)
		}
	}
	add("concat3/badsig+badpayload+genuine", parts[2].b, parts[3].b, G)
	add("concat3/genuine+genuine2+sigonly", G, parts[1].b, f2(S))
	add("concat3/genuine2+payloadonly+sigonly-bad", parts[1].b, f1(P), f2(Sbad))
	// ---- duplicated fields inside one container
	add("dup/sig-bad-then-good", f1(P), f2(Sbad), f2(S))
	add("dup/sig-good-then-bad", f1(P), f2(S), f2(Sbad))
	add("dup/sig-good-bad-good", f1(P), f2(S), f2(Sbad), f2(S))
	add("dup/payload-bad-then-good", f1(Pbad), f1(P), f2(S))
	add("dup/payload-good-then-bad", f1(P), f1(Pbad), f2(S))
	add("dup/sig-first-payload-last", f2(Sbad), f2(S), f1(Pbad), f1(P))
	add("dup/interleaved", f1(P2), f2(S), f1(P), f2(S2))
	add("dup/interleaved-2", f1(P), f2(S2), f1(P2), f2(S))
	add("dup/sig-then-empty-sig", f1(P), f2(S), f2(nil))
	add("dup/payload-then-empty-payload", f1(P), f2(S), f1(nil))
	add("dup/empty-first", f1(nil), f2(nil), f1(P), f2(S))
	add("dup/many-bad-sigs-then-good", f1(P), f2(Sbad), f2(Sbad), f2(Sbad), f2(Sbad), f2(Sbad), f2(Sbad), f2(S))
	add("dup/many-good-sigs-then-bad", f1(P), f2(S), f2(S), f2(S), f2(S), f2(S), f2(S), f2(Sbad))
	// ---- unknown fields at every position
	unknowns := []part{
		{"varint3", wireVarint(3, 7)}, {"varint16", wireVarint(16, 1<<40)}, {"len3", wireLen(3, Sbad)},
		{"len2047", wireLen(2047, P)}, {"fixed32", protowire.AppendFixed32(protowire.AppendTag(nil, 4, protowire.Fixed32Type), 9)},
		{"fixed64", protowire.AppendFixed64(protowire.AppendTag(nil, 5, protowire.Fixed64Type), 9)},
		{"group3-with-fields-1-2", wireGroup(3, wireCat(f1(Pbad), f2(Sbad)))},
		{"group-nested", wireGroup(9, wireGroup(1, wireGroup(2, wireVarint(1, 1))))},
		{"maxnum", wireVarint(1<<29-1, 1)},
	}
	for _, u := range unknowns {
		add("unknown/before/"+u.name, u.b, G)
		add("unknown/between/"+u.name, f1(P), u.b, f2(S))
		add("unknown/after/"+u.name, G, u.b)
	}
	// ---- known numbers with other wire types: unknown fields, never the payload / signature
	for _, num := range []int{1, 2} {
		for _, w := range []part{
			{"varint", wireVarint(num, 5)},
			{"fixed32", protowire.AppendFixed32(protowire.AppendTag(nil, protowire.Number(num), protowire.Fixed32Type), 1)},
			{"fixed64", protowire.AppendFixed64(protowire.AppendTag(nil, protowire.Number(num), protowire.Fixed64Type), 1)},
			{"group", wireGroup(num, f2(Sbad))},
		} {
			add(fmt.Sprintf("wrongtype/%d-%s-after", num, w.name), G, w.b)
			add(fmt.Sprintf("wrongtype/%d-%s-before", num, w.name), w.b, G)
			add(fmt.Sprintf("wrongtype/%d-%s-instead", num, w.name), w.b, map[int][]byte{1: f2(S), 2: f1(P)}[num])
		}
	}
	// ---- over-long varints in tags and lengths of the container (same payload bytes, same signature)
	for _, n := range []int{2, 3, 5, 9, 10} {
		add(fmt.Sprintf("overlong/tag1-%d", n), wireLenPadded(1, P, n, 1), f2(S))
		add(fmt.Sprintf("overlong/len1-%d", n), wireLenPadded(1, P, 1, n), f2(S))
		add(fmt.Sprintf("overlong/tag2-len2-%d", n), f1(P), wireLenPadded(2, S, n, n))
	}
	add("overlong/tag1-11", wireLenPadded(1, P, 11, 1), f2(S)) // eleven bytes: rejected
	// ---- nesting
	add("nested/container-as-payload", f1(G), f2(S))
	add("nested/container-as-signature", f1(P), f2(G))
	add("nested/container-in-unknown-len", wireLen(7, G))
	add("nested/container-in-group", wireGroup(1, G))
	add("nested/payload-is-payload-field", f1(f1(P)), f2(S))
	add("nested/double-wrapped", f1(wireCat(f1(P), f2(S))), f2(wireCat(f1(P), f2(S))))
	// ---- trailing bytes
	for _, t := range []part{
		{"zero-byte", []byte{0}}, {"ff", []byte{0xff}}, {"partial-tag", []byte{0x8a}}, {"truncated-len-field", []byte{0x0a, 0x05, 0x01}},
		{"stray-end-group", []byte{0x0c}}, {"reserved-wiretype-6", []byte{0x0e, 0x00}}, {"field-number-0", []byte{0x02, 0x00}},
		{"complete-unknown", []byte{0xf8, 0x7f, 0x01}}, {"length-2^31", []byte{0x12, 0x80, 0x80, 0x80, 0x80, 0x08}},
		{"length-2^63", []byte{0x12, 0x80, 0x80, 0x80, 0x80, 0x80, 0x80, 0x80, 0x80, 0x80, 0x01}},
		{"unterminated-group", []byte{0x1b, 0x08, 0x01}},
	} {
		add("trailing/"+t.name, G, t.b)
		add("leading/"+t.name, t.b, G)
	}
	// ---- truncations at and around every field boundary
	cut := func(desc string, b []byte, at int) {
		if at >= 0 && at <= len(b) {
			add(fmt.Sprintf("truncate/%s@%d", desc, at), b[:at])
		}
	}
	l1 := len(f1(P))
	for _, d := range []int{-2, -1, 0, 1, 2} {
		cut("plain", G, l1+d)
		cut("plain", G, len(G)+d)
		cut("plain", G, 3+d)
	}
	return out
}

// wirePayloadCases: payload-level re-encodings, each either under the ORIGINAL signature (a changed byte
// string: must not be accepted) or re-signed by the genuine key (authentic: the verifier must read the
// re-encoded payload the way the library does).
func wirePayloadCases(env *c01Env, m *wireMaterial, st *pwState, n int) []wireCase {
	var out []wireCase
	c := env.c
	P, S := m.P, m.S
	emit := func(desc string, payload []byte) {
		out = append(out, wireCase{"reencode-original-sig/" + desc, wireCat(wireLen(1, payload), wireLen(2, S))})
		sig := c01SignPSS(env.crng, env.keyA, payload, crypto.SHA256, 32)
		out = append(out, wireCase{"reencode-resigned/" + desc, wireCat(wireLen(1, payload), wireLen(2, sig))})
	}
	if re, ok := c01Reorder(P); ok {
		emit("field-order-reversed", re)
	}
	g := &epb.VMGoldenMeasurement{}
	if proto.Unmarshal(P, g) == nil {
		if b, err := proto.Marshal(g); err == nil {
			emit("remarshal", b)
		}
		if b, err := pwDet.Marshal(g); err == nil {
			emit("remarshal-deterministic", b)
		}
	}
	emit("unknown-appended", wireCat(P, []byte{0xf8, 0x7f, 0x01}))
	emit("unknown-prepended", wireCat([]byte{0xf8, 0x7f, 0x01}, P))
	if len(P) > 0 && P[0] < 0x80 {
		emit("overlong-first-tag", wireCat([]byte{P[0] | 0x80, 0x00}, P[1:]))
	}
	// the certificate inside the payload: last wins, an empty occurrence resets it
	foreign := env.caB.leaf.Raw
	emit("cert/foreign-appended-last", wireCat(P, wireLen(4, foreign)))
	emit("cert/foreign-first-genuine-last", wireCat(wireLen(4, foreign), P))
	emit("cert/empty-appended-last", wireCat(P, wireLen(4, nil)))
	emit("cert/empty-first", wireCat(wireLen(4, nil), P))
	emit("cert/garbage-appended-last", wireCat(P, wireLen(4, c.Rng.Bytes(40))))
	emit("cert/as-varint-appended", wireCat(P, wireVarint(4, 9)))
	// provenance fields: last wins / merge
	emit("clspec/zero-appended", wireCat(P, wireVarint(2, 0)))
	emit("clspec/2^64-wraps", wireCat(P, []byte{0x10, 0x80, 0x80, 0x80, 0x80, 0x80, 0x80, 0x80, 0x80, 0x80, 0x01}))
	emit("timestamp/empty-occurrence-appended", wireCat(P, wireLen(1, nil)))
	emit("timestamp/seconds-zero-merged", wireCat(P, wireLen(1, wireVarint(1, 0))))
	emit("timestamp/nanos-merged", wireCat(P, wireLen(1, wireVarint(2, 999999999))))
	emit("sevsnp/empty-occurrence-appended", wireCat(P, wireLen(7, nil)))
	emit("sevsnp/entry-merged", wireCat(P, wireLen(7, wireLen(2, wireCat(wireVarint(1, 3), wireLen(2, env.unendorsed))))))
	emit("sevsnp/entry-overwritten", wireCat(P, wireLen(7, wireLen(2, wireCat(wireVarint(1, 1), wireLen(2, env.unendorsed))))))
	emit("digest/replaced", wireCat(P, wireLen(5, env.badDigest)))
	// structure-aware random mutations of the payload (operators of stream c03proto)
	for i := 0; i < n; i++ {
		k := c.Rng.Intn(len(pwMutNames))
		mp := st.mutate("gold", append([]byte{}, P...), k, 0)
		if c.Rng.Intn(3) == 0 {
			mp = st.mutate("gold", mp, c.Rng.Intn(len(pwMutNames)), 0)
		}
		c.Count("payload-mutator/" + pwMutNames[k])
		emit("mutate/"+pwMutNames[k], mp)
	}
	return out
}
