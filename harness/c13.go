package main

import (
	"context"
	"crypto/sha512"
	"fmt"
	"os"
	"path"
	"path/filepath"
	"sort"
	"strings"
	"time"

	"github.com/google/gce-tcb-verifier/endorse"
	epb "github.com/google/gce-tcb-verifier/proto/endorsement"
	rpb "github.com/google/gce-tcb-verifier/proto/releases"
	"github.com/google/gce-tcb-verifier/sev"
	"github.com/google/gce-tcb-verifier/testing/nonprod/localnonvcs"
	sgpb "github.com/google/go-sev-guest/proto/sevsnp"
	"google.golang.org/protobuf/encoding/prototext"
	"google.golang.org/protobuf/proto"
	"google.golang.org/protobuf/types/known/timestamppb"
)

func init() {
	register("c13", "four sub-streams: (add) every transition of the breadth-first closure of manifests reachable by "+
		"addEndorsementEntry over 3 digests x 3 paths x 2 times plus random ill-formed manifests; (clean, join) Go's "+
		"path.Clean on every text over {/ . a} up to length 7 and random ones with unicode, path.Join on every pair of "+
		"the texts up to length 3 and sampled triples; (histp) real endorse.VirtualFirmware histories over a scratch "+
		"localnonvcs tree with ARBITRARY candidate names, --out_dir, --snapshot_dir and image names (uncanonical, "+
		"climbing, rooted, empty, dots, trailing and double slashes, unicode; directed alias and overlap histories "+
		"first), compared: success flags, manifest, every file of the tree with its class. Non-trivial: the initial "+
		"manifest is non-empty (add), the text has a slash (clean), always (join), the history has at least 2 runs with "+
		"at least one successful (histp); distinct by op line.", runC13)
}

type mEntry struct{ path, digest, time string }

func entriesToProto(m []mEntry) []*rpb.VMEndorsementMap_Entry {
	var out []*rpb.VMEndorsementMap_Entry
	for _, e := range m {
		out = append(out, entryToProto(e))
	}
	return out
}

func entryToProto(e mEntry) *rpb.VMEndorsementMap_Entry {
	var secs int64
	fmt.Sscanf(e.time, "%d", &secs)
	d, _ := hexDecode(e.digest)
	return &rpb.VMEndorsementMap_Entry{Path: e.path, Digest: d, CreateTime: &timestamppb.Timestamp{Seconds: secs}}
}

func protoToEntries(es []*rpb.VMEndorsementMap_Entry) []mEntry {
	var out []mEntry
	for _, e := range es {
		out = append(out, mEntry{e.GetPath(), hx(e.GetDigest()), fmt.Sprint(e.GetCreateTime().GetSeconds())})
	}
	return out
}

func showEntries(m []mEntry) string {
	var parts []string
	for _, e := range m {
		parts = append(parts, e.path+":"+e.digest+":"+e.time)
	}
	return strings.Join(parts, ";")
}

func hexDecode(s string) ([]byte, error) {
	out := make([]byte, len(s)/2)
	_, err := fmt.Sscanf(s, "%x", &out)
	if len(s) == 0 {
		return []byte{}, nil
	}
	return out, err
}

// manifestInvariant is the direct oracle of C13 on a manifest alone: unique paths and digests.
func manifestUnique(m []mEntry) bool {
	p, d := map[string]bool{}, map[string]bool{}
	for _, e := range m {
		if p[e.path] || d[e.digest] {
			return false
		}
		p[e.path], d[e.digest] = true, true
	}
	return true
}

func runC13(c *Ctx) {
	ctx := quietCtx(false)
	// ---- (add) closure over small pools through the hook ----
	paths := []string{"rc0.binarypb", "rc1.binarypb", "rc2.binarypb"}
	digests := []string{"aa", "bb", "cc"}
	times := []string{"1", "2"}
	seen := map[string]bool{"": true}
	queue := [][]mEntry{nil}
	addOne := func(m []mEntry, e mEntry) []mEntry {
		res := endorse.VerifAddEndorsementEntry(ctx, entriesToProto(m), entryToProto(e))
		return protoToEntries(res)
	}
	maxStates := c.N(4000, 200000)
	for len(queue) > 0 && len(seen) <= maxStates {
		m := queue[0]
		queue = queue[1:]
		for _, p := range paths {
			for _, d := range digests {
				for _, t := range times {
					e := mEntry{p, d, t}
					out := addOne(m, e)
					c.Case(fmt.Sprintf("c13 op=add m=%s e=%s:%s:%s", showEntries(m), p, d, t), showEntries(out), len(m) > 0)
					c.Count(fmt.Sprintf("add/len%d", len(m)))
					if !manifestUnique(out) {
						c.Find("c13/add/unique", "addEndorsementEntry produced duplicate path or digest from a well-formed manifest",
							fmt.Sprintf("m=%s e=%s:%s:%s out=%s", showEntries(m), p, d, t, showEntries(out)))
					}
					found := false
					for _, x := range out {
						if x == e {
							found = true
						}
					}
					if !found {
						c.Find("c13/add/latest", "new entry missing after merge", fmt.Sprintf("m=%s e=%v", showEntries(m), e))
					}
					k := showEntries(out)
					if !seen[k] {
						seen[k] = true
						queue = append(queue, out)
					}
				}
			}
		}
	}
	c.Extra["closure_states"] = len(seen)
	c.Extra["closure_exhausted"] = len(queue) == 0
	// random manifests, including ill-formed ones (duplicates), longer pools
	nr := c.N(2000, 50000)
	for i := 0; i < nr; i++ {
		n := c.Rng.Intn(6)
		var m []mEntry
		for j := 0; j < n; j++ {
			m = append(m, mEntry{fmt.Sprintf("p%d.binarypb", c.Rng.Intn(5)), fmt.Sprintf("%02x", c.Rng.Intn(5)), fmt.Sprint(c.Rng.Intn(3))})
		}
		e := mEntry{fmt.Sprintf("p%d.binarypb", c.Rng.Intn(5)), fmt.Sprintf("%02x", c.Rng.Intn(5)), fmt.Sprint(c.Rng.Intn(3) + 3)}
		out := addOne(m, e)
		c.Case(fmt.Sprintf("c13 op=add m=%s e=%s:%s:%s", showEntries(m), e.path, e.digest, e.time), showEntries(out), len(m) > 0)
		if manifestUnique(m) {
			c.Count("addrand/wellformed")
			if !manifestUnique(out) {
				c.Find("c13/add/unique", "duplicate path or digest after merge", fmt.Sprintf("m=%s e=%v", showEntries(m), e))
			}
		} else {
			c.Count("addrand/illformed")
		}
	}

	// ---- (clean/join) the model of Go's package path against the real path.Clean / path.Join ----
	c13Paths(c)

	// ---- (histp) real endorse runs over a scratch directory, arbitrary names ----
	c13Hist(c)
}

// c13Paths compares path.Clean and path.Join (the package endorse/commit.go imports) with the model:
// every text over {'/', '.', 'a'} up to length 7 (8 thorough), random longer ones with unicode, and Join of
// every pair (triples sampled) of the texts up to length 3.
func c13Paths(c *Ctx) {
	alpha := []string{"/", ".", "a"}
	var small []string
	var gen func(prefix string, n int)
	maxLen := c.N(7, 8)
	gen = func(prefix string, n int) {
		c.Case("c13 op=clean p="+prefix, path.Clean(prefix), strings.Contains(prefix, "/"))
		c.Count(fmt.Sprintf("clean/len%d", len(prefix)))
		if len(prefix) <= 3 {
			small = append(small, prefix)
		}
		if n == 0 {
			return
		}
		for _, a := range alpha {
			gen(prefix+a, n-1)
		}
	}
	gen("", maxLen)
	wide := []string{"/", "/", ".", "..", "a", "b", "é", "日本", "-", "_", "x.binarypb", "//", "./", "../"}
	rnd := func() string {
		n := c.Rng.Intn(9)
		var sb strings.Builder
		for k := 0; k < n; k++ {
			sb.WriteString(wide[c.Rng.Intn(len(wide))])
		}
		return sb.String()
	}
	for i := 0; i < c.N(3000, 60000); i++ {
		p := rnd()
		c.Case("c13 op=clean p="+p, path.Clean(p), strings.Contains(p, "/"))
		c.Count("clean/random")
	}
	joinCase := func(es ...string) {
		var kv []string
		for k, e := range es {
			kv = append(kv, fmt.Sprintf("e%d=%s", k, e))
		}
		c.Case(fmt.Sprintf("c13 op=join n=%d %s", len(es), strings.Join(kv, " ")), path.Join(es...), true)
		c.Count(fmt.Sprintf("join/n%d", len(es)))
	}
	for _, a := range small {
		for _, b := range small {
			joinCase(a, b)
		}
	}
	for i := 0; i < c.N(4000, 80000); i++ {
		joinCase(small[c.Rng.Intn(len(small))], small[c.Rng.Intn(len(small))], small[c.Rng.Intn(len(small))])
	}
	for i := 0; i < c.N(2000, 40000); i++ {
		joinCase(rnd(), rnd(), rnd())
	}
}

// ---- histories with arbitrary names ----

type c13Run struct {
	cand      string
	img       int
	ow        bool
	snapDir   string // "" = manifest mode
	imageName string
	scrtm     bool
}

// Name pools. Free of ' ', ':', ';', '=', ',' (protocol separators); otherwise anything Clean cares about.
var (
	c13Cands = []string{
		"", "rc0", "rc1", "rc2", "rc0", "rc1", // plain (twice: collisions matter)
		"x/../rc0", "./rc1", "sub/rc2", "sub/../sub/rc2", "sub/./rc2", "a//b", "rc0/.", "./././rc1", // uncanonical
		"rc1/", "sub/", "./", // trailing slash: the file is "<dir>/.binarypb"
		".", "..", "...", "a/.../b", // dots as names
		"../x", "../out/rc0", "a/../../x", "../../y", "../", "sub/../../out/rc1", // climbing
		"/rc0", "//rc1", "/", "/sub/rc2", "/../rc0", // rooted
		"é/日本", "ü", "日本/../rc0", // unicode
	}
	c13OutDirs   = []string{"out", "out", "out", "", ".", "./out//", "out/", "out/sub/..", "/abs", "a/../out", "../o", "é", "out/sub"}
	c13SnapDirs  = []string{"snap", "snap", "snap/", "./snap//x/..", "../s", "/snapabs", "out", "out/sub", "日本"}
	c13ImageName = []string{"fw.fd", "fw.fd", "ovmf_x64_csm.fd", "", ".", "../q/fw.fd", "/", "d/fw.fd", "d//./fw.fd", "rc0.binarypb",
		"manifest.textproto", "日本.fd", "fw.fd/", "../../z.fd", "sub/rc2.binarypb"}
)

// c13Local: is the text, cleaned, a relative path that neither climbs nor is "."? (package path only)
func c13Local(name string) bool {
	p := path.Clean(name)
	return !(p == "." || p == ".." || path.IsAbs(p) || strings.HasPrefix(p, "../"))
}

func c13Inside(dir, p string) bool {
	rel, err := filepath.Rel(dir, p)
	return err == nil && rel != ".." && !strings.HasPrefix(rel, "../")
}

func c13Hist(c *Ctx) {
	tmp, err := os.MkdirTemp("", "verif-c13-")
	if err != nil {
		panic(err)
	}
	defer os.RemoveAll(tmp)
	images := [][]byte{cleanFirmware(0x1000, 1), cleanFirmware(0x1000, 2), cleanFirmware(0x1000, 3), cleanFirmware(0x2000, 4)}
	const modelRoot = "/T/a/b/c/r"
	// directed histories first: aliases of one file, climbing and rooted names, overlap of the two directories
	type directed struct {
		out  string
		runs []c13Run
	}
	M := func(cand string, img int, ow bool) c13Run { return c13Run{cand: cand, img: img, ow: ow} }
	S := func(sdir, name string) c13Run {
		return c13Run{cand: "x", img: 0, snapDir: sdir, imageName: name, scrtm: true}
	}
	dirs := []directed{
		{"out", []c13Run{M("rc0", 0, false), M("/rc0", 1, true)}},
		{"out", []c13Run{M("rc0", 0, false), M("../out/rc0", 1, true)}},
		{"out", []c13Run{M("rc0", 0, false), M("x/../rc0", 1, true), M("./rc0", 2, true), M("rc0", 0, false)}},
		{"out", []c13Run{M("../x", 0, false), M("../../x", 0, false), M("a/../../x", 1, true)}},
		{"", []c13Run{M("../x", 0, false), M("rc0", 0, false), M("./rc0", 1, true)}},
		{"out/", []c13Run{M("rc0", 0, false), M("rc0", 1, false), M("rc1", 0, false)}},
		{"./out//", []c13Run{M("rc0", 0, false), M("rc1", 0, false), M("rc0", 1, true)}},
		{"out", []c13Run{M("rc0", 0, false), S("out", "rc0.binarypb"), M("rc1", 1, false)}},
		{"out", []c13Run{M("rc0", 0, false), S("out", "manifest.textproto"), M("rc1", 1, false)}},
		{"out", []c13Run{M("sub/rc2", 0, false), S("out/sub", "rc2.binarypb"), S("out", "sub/rc2.binarypb")}},
		{"out", []c13Run{S("s1", ""), S("s2", "."), S("s3", "../q/fw.fd"), S("/", "x.fd"), S("snap", "fw.fd"), S("snap/", "d//./fw.fd")}},
		{"out", []c13Run{M("a/", 0, false), M(".", 0, false), M("..", 1, false), M("é/日本", 2, false), M("a/.", 3, true)}},
	}
	nh := c.N(160, 2500)
	for h := 0; h < nh; h++ {
		top := filepath.Join(tmp, fmt.Sprintf("h%d", h))
		root := filepath.Join(top, "a", "b", "c", "r")
		os.MkdirAll(root, 0755)
		outDir := c13OutDirs[c.Rng.Intn(len(c13OutDirs))]
		if h < len(dirs) {
			outDir = dirs[h].out
		} else if h < len(dirs)+len(c13OutDirs) {
			outDir = c13OutDirs[h-len(dirs)]
		}
		outReal := path.Join(root, outDir)
		manifestReal := path.Join(outReal, endorse.ManifestFile)
		nruns := 1 + c.Rng.Intn(c.N(8, 12))
		if h < len(dirs) {
			nruns = len(dirs[h].runs)
			c.Count("hist/directed")
		}
		var runToks, oks []string
		anyOK, tainted, conflict := false, false, false
		replay := func() string {
			return fmt.Sprintf("out=%s runs=%s", outDir, strings.Join(runToks, ";"))
		}
		for r := 0; r < nruns && !conflict; r++ {
			run := c13Run{cand: c13Cands[c.Rng.Intn(len(c13Cands))], img: c.Rng.Intn(len(images)), ow: c.Rng.Intn(3) == 0}
			if h < 2*len(c13Cands) && r == 1 { // every name at least twice, early in a history
				run.cand = c13Cands[h%len(c13Cands)]
			}
			if c.Rng.Intn(5) == 0 {
				run.snapDir = c13SnapDirs[c.Rng.Intn(len(c13SnapDirs))]
				run.imageName = c13ImageName[c.Rng.Intn(len(c13ImageName))]
				run.scrtm = c.Rng.Bool()
			}
			if h < len(dirs) {
				run = dirs[h].runs[r]
			}
			ts := baseTime.Add(time.Duration(h*100+r) * time.Second)
			dg := sha512.Sum384(images[run.img])
			before := snapshotFiles(top)
			listedBefore := map[string]bool{}
			if mb, err := readManifestAt(manifestReal); err == nil {
				for _, e := range mb {
					listedBefore[path.Join(outReal, e.path)] = true
				}
			}
			err := c13Endorse(root, outDir, images[run.img], run, ts)
			if err != nil && (strings.Contains(err.Error(), "is a directory") || strings.Contains(err.Error(), "not a directory")) {
				// the same path used as a file and as a directory: outside the file-granularity model of the file system
				conflict = true
				c.Count("hist/dropped-fs-structure-conflict")
				break
			}
			if _, osErr := os.ReadFile(manifestReal); osErr != nil && !os.IsNotExist(osErr) {
				// the manifest's path (or a directory above it) has become a file of another kind / a directory
				conflict = true
				c.Count("hist/dropped-fs-structure-conflict")
				break
			}
			runToks = append(runToks, fmt.Sprintf("%s:%s:%d:%s:%s:%s:0:%s", run.cand, hx(dg[:]), ts.Unix(), b2s(run.ow), run.snapDir, run.imageName, b2s(run.scrtm)))
			oks = append(oks, b2s(err == nil))
			after := snapshotFiles(top)
			var changed []string
			for p, b := range after {
				if ob, ok := before[p]; !ok || ob != b {
					changed = append(changed, filepath.Join(top, p))
				}
			}
			sort.Strings(changed)
			c13CountRun(c, run, outDir, err)
			if err == nil {
				anyOK = true
			}
			// ---- direct oracle, on the directory tree alone ----
			if run.snapDir == "" {
				var wrote []string
				for _, p := range changed {
					if !c13Inside(outReal, p) {
						c.Find("c13/hist/escape-out-dir", "a manifest-mode run wrote a file outside the configured output directory: "+tok(strings.TrimPrefix(p, top)), replay())
					}
					if p != manifestReal {
						wrote = append(wrote, p)
						if _, existed := before[strings.TrimPrefix(p, top+"/")]; existed && !run.ow {
							c.Find("c13/hist/replaced-without-overwrite", "an existing file was replaced by a run without overwrite permission", replay())
						}
					}
				}
				if err != nil && len(changed) > 0 {
					c.Find("c13/hist/failed-run-wrote", "a refused run changed files", replay())
				}
				if err == nil && !tainted {
					// latest digest maps to the file this run wrote
					m, _ := readManifestAt(manifestReal)
					ok := false
					for _, e := range m {
						if e.digest == hx(dg[:]) && len(wrote) == 1 && path.Join(outReal, e.path) == wrote[0] {
							ok = true
						}
					}
					if !ok {
						c.Find("c13/hist/latest", "latest run's digest does not map to the file it wrote", replay())
					}
				}
			} else {
				snapReal := path.Join(root, run.snapDir)
				for _, p := range changed {
					if p == manifestReal || listedBefore[p] {
						if !tainted {
							c.Count("hist/obs/snapshot-overlaps-out-dir")
						}
						tainted = true // --snapshot_dir overlaps --out_dir and the image carries a reserved name: outside the reading
					}
					if !c13Inside(snapReal, p) {
						if c13Local(run.imageName) {
							c.Find("c13/hist/escape-snapshot-dir", "a snapshot run with a local image name wrote outside the snapshot directory: "+tok(strings.TrimPrefix(p, top)), replay())
						} else {
							c.Count("hist/obs/snapshot-escape-nonlocal-image-name")
						}
					}
				}
			}
			if !tainted {
				c13CheckStore(c, outReal, manifestReal, replay())
			}
		}
		if conflict {
			continue
		}
		// ---- correspondence: flags, manifest, every file under the scratch tree ----
		man := "garbage"
		m, merr := readManifestAt(manifestReal)
		if merr == nil {
			man = showEntries(m)
		}
		var files []string
		for rel := range snapshotFiles(top) {
			full := filepath.Join(top, rel)
			if full == manifestReal && merr == nil {
				continue
			}
			cls := "B"
			if d, err := signedDigestOf(full); err == nil && len(d) == 96 {
				cls = "E:" + d
			}
			files = append(files, "/T/"+rel+":"+cls)
		}
		sort.Strings(files)
		c.Case(fmt.Sprintf("c13 op=histp mode=join root=%s out=%s runs=%s", modelRoot, outDir, strings.Join(runToks, ";")),
			fmt.Sprintf("ok=%s manifest=%s files=%s", strings.Join(oks, ","), man, strings.Join(files, ",")),
			nruns >= 2 && anyOK)
		c.Count(fmt.Sprintf("hist/len%d", len(runToks)))
		os.RemoveAll(top)
	}
}

func c13CountRun(c *Ctx, run c13Run, outDir string, err error) {
	res := "ok"
	if err != nil {
		res = "rejected"
		switch {
		case strings.Contains(err.Error(), "cannot overwrite"):
			res = "rejected-exists"
		case strings.Contains(err.Error(), "does not name a file below"):
			res = "rejected-name"
		case strings.Contains(err.Error(), "unmarshal"):
			res = "rejected-manifest-garbage"
		}
	}
	if run.snapDir != "" {
		c.Count("hist/snapshot-run-" + res)
		if !c13Local(run.imageName) {
			c.Count("hist/snapshot-nonlocal-image-name")
		}
		return
	}
	c.Count("hist/run-" + res)
	b := path.Clean(run.cand + ".binarypb")
	switch {
	case run.cand == "":
		c.Count("hist/cand/default")
	case path.IsAbs(b):
		c.Count("hist/cand/rooted")
	case strings.HasPrefix(b, "../"):
		c.Count("hist/cand/climbing")
	case b != run.cand+".binarypb":
		c.Count("hist/cand/uncanonical")
	case strings.Contains(b, "/"):
		c.Count("hist/cand/nested")
	default:
		c.Count("hist/cand/plain")
	}
	if path.Clean(outDir) != outDir {
		c.Count("hist/outdir-uncanonical-or-empty")
	}
}

// snapshotFiles maps every regular file under root (relative path) to its contents.
func snapshotFiles(root string) map[string]string {
	out := map[string]string{}
	filepath.Walk(root, func(p string, info os.FileInfo, err error) error {
		if err == nil && !info.IsDir() {
			b, _ := os.ReadFile(p)
			rel, _ := filepath.Rel(root, p)
			out[rel] = string(b)
		}
		return nil
	})
	return out
}

func endorseBasename(cand string) string {
	if cand == "" {
		cand = "endorsement"
	}
	return cand + ".binarypb"
}

func c13Endorse(root, outDir string, img []byte, run c13Run, ts time.Time) error {
	ctx := keysCtx(quietCtx(run.ow), &Rng{s: 7})
	svn := uint32(0)
	if run.scrtm {
		svn = 1
	}
	ec := &endorse.Context{
		SevSnp:        &sev.SnpEndorsementRequest{Svn: svn, LaunchVmsas: 1, Product: sgpb.SevProduct_SEV_PRODUCT_MILAN},
		Image:         img,
		ClSpec:        1234,
		CandidateName: run.cand,
		Timestamp:     ts,
		VCS:           &localnonvcs.T{Root: root},
		OutDir:        outDir,
		SnapshotDir:   run.snapDir,
		ImageName:     run.imageName,
	}
	return endorse.VirtualFirmware(endorse.NewContext(ctx, ec))
}

func readManifestAt(p string) ([]mEntry, error) {
	b, err := os.ReadFile(p)
	if err != nil {
		if os.IsNotExist(err) {
			return nil, nil
		}
		return nil, err
	}
	m := &rpb.VMEndorsementMap{}
	if err := prototext.Unmarshal(b, m); err != nil {
		return nil, err
	}
	return protoToEntries(m.Entries), nil
}

// signedDigestOf returns the firmware digest carried by the endorsement file at path.
func signedDigestOf(path string) (string, error) {
	b, err := os.ReadFile(path)
	if err != nil {
		return "", err
	}
	e := &epb.VMLaunchEndorsement{}
	if err := proto.Unmarshal(b, e); err != nil {
		return "", err
	}
	g := &epb.VMGoldenMeasurement{}
	if err := proto.Unmarshal(e.SerializedUefiGolden, g); err != nil {
		return "", err
	}
	return hx(g.Digest), nil
}

// c13CheckStore: the invariant of C13 on the directory tree: the manifest parses; no path text and no digest
// twice; every path is in canonical form and stays below the directory; no two entries name the same file;
// every entry's file is an endorsement carrying the entry's digest.
func c13CheckStore(c *Ctx, outReal, manifestReal, hist string) {
	m, err := readManifestAt(manifestReal)
	if err != nil {
		c.Find("c13/hist/parse", "manifest does not parse: "+tok(err.Error()), hist)
		return
	}
	if !manifestUnique(m) {
		c.Find("c13/hist/unique", "manifest lists a path or digest twice", hist)
	}
	seen := map[string]bool{}
	for _, e := range m {
		if path.Clean(e.path) != e.path || path.IsAbs(e.path) || e.path == ".." || strings.HasPrefix(e.path, "../") {
			c.Find("c13/hist/uncanonical-entry", "an entry's path is not a cleaned path below the output directory: "+tok(e.path), hist)
		}
		full := path.Join(outReal, e.path)
		if seen[full] {
			c.Find("c13/hist/same-file-twice", "two entries name the same file", hist)
		}
		seen[full] = true
		d, err := signedDigestOf(full)
		if err != nil {
			c.Find("c13/hist/file-missing", "entry names a missing or unreadable file", hist)
		} else if d != e.digest {
			c.Find("c13/hist/digest-mismatch", "entry digest differs from the digest signed in the file", hist)
		}
	}
}

var _ = context.Background
