package main

import (
	"context"
	"crypto/sha512"
	"fmt"
	"os"
	"path"
	"path/filepath"
	"sort"
	"strings"
	"time"

	"github.com/google/gce-tcb-verifier/endorse"
	epb "github.com/google/gce-tcb-verifier/proto/endorsement"
	rpb "github.com/google/gce-tcb-verifier/proto/releases"
	"github.com/google/gce-tcb-verifier/sev"
	"github.com/google/gce-tcb-verifier/testing/nonprod/localnonvcs"
	sgpb "github.com/google/go-sev-guest/proto/sevsnp"
	"google.golang.org/protobuf/encoding/prototext"
	"google.golang.org/protobuf/proto"
	"google.golang.org/protobuf/types/known/timestamppb"
)

func init() {
	register("c13", "two sub-streams: (add) every transition of the breadth-first closure of manifests reachable by "+
		"addEndorsementEntry over 3 digests x 3 paths x 2 times plus random ill-formed manifests; (hist) real "+
		"endorse.VirtualFirmware histories over a scratch localnonvcs directory. Non-trivial: the initial manifest "+
		"is non-empty (add) or the history has at least 2 runs with at least one successful (hist); distinct by op line.", runC13)
}

type mEntry struct{ path, digest, time string }

func entriesToProto(m []mEntry) []*rpb.VMEndorsementMap_Entry {
	var out []*rpb.VMEndorsementMap_Entry
	for _, e := range m {
		out = append(out, entryToProto(e))
	}
	return out
}

func entryToProto(e mEntry) *rpb.VMEndorsementMap_Entry {
	var secs int64
	fmt.Sscanf(e.time, "%d", &secs)
	d, _ := hexDecode(e.digest)
	return &rpb.VMEndorsementMap_Entry{Path: e.path, Digest: d, CreateTime: &timestamppb.Timestamp{Seconds: secs}}
}

func protoToEntries(es []*rpb.VMEndorsementMap_Entry) []mEntry {
	var out []mEntry
	for _, e := range es {
		out = append(out, mEntry{e.GetPath(), hx(e.GetDigest()), fmt.Sprint(e.GetCreateTime().GetSeconds())})
	}
	return out
}

func showEntries(m []mEntry) string {
	var parts []string
	for _, e := range m {
		parts = append(parts, e.path+":"+e.digest+":"+e.time)
	}
	return strings.Join(parts, ";")
}

func hexDecode(s string) ([]byte, error) {
	out := make([]byte, len(s)/2)
	_, err := fmt.Sscanf(s, "%x", &out)
	if len(s) == 0 {
		return []byte{}, nil
	}
	return out, err
}

// manifestInvariant is the direct oracle of C13 on a manifest alone: unique paths and digests.
func manifestUnique(m []mEntry) bool {
	p, d := map[string]bool{}, map[string]bool{}
	for _, e := range m {
		if p[e.path] || d[e.digest] {
			return false
		}
		p[e.path], d[e.digest] = true, true
	}
	return true
}

func runC13(c *Ctx) {
	ctx := quietCtx(false)
	// ---- (add) closure over small pools through the hook ----
	paths := []string{"rc0.binarypb", "rc1.binarypb", "rc2.binarypb"}
	digests := []string{"aa", "bb", "cc"}
	times := []string{"1", "2"}
	seen := map[string]bool{"": true}
	queue := [][]mEntry{nil}
	addOne := func(m []mEntry, e mEntry) []mEntry {
		res := endorse.VerifAddEndorsementEntry(ctx, entriesToProto(m), entryToProto(e))
		return protoToEntries(res)
	}
	maxStates := c.N(4000, 200000)
	for len(queue) > 0 && len(seen) <= maxStates {
		m := queue[0]
		queue = queue[1:]
		for _, p := range paths {
			for _, d := range digests {
				for _, t := range times {
					e := mEntry{p, d, t}
					out := addOne(m, e)
					c.Case(fmt.Sprintf("c13 op=add m=%s e=%s:%s:%s", showEntries(m), p, d, t), showEntries(out), len(m) > 0)
					c.Count(fmt.Sprintf("add/len%d", len(m)))
					if !manifestUnique(out) {
						c.Find("c13/add/unique", "addEndorsementEntry produced duplicate path or digest from a well-formed manifest",
							fmt.Sprintf("m=%s e=%s:%s:%s out=%s", showEntries(m), p, d, t, showEntries(out)))
					}
					found := false
					for _, x := range out {
						if x == e {
							found = true
						}
					}
					if !found {
						c.Find("c13/add/latest", "new entry missing after merge", fmt.Sprintf("m=%s e=%v", showEntries(m), e))
					}
					k := showEntries(out)
					if !seen[k] {
						seen[k] = true
						queue = append(queue, out)
					}
				}
			}
		}
	}
	c.Extra["closure_states"] = len(seen)
	c.Extra["closure_exhausted"] = len(queue) == 0
	// random manifests, including ill-formed ones (duplicates), longer pools
	nr := c.N(2000, 50000)
	for i := 0; i < nr; i++ {
		n := c.Rng.Intn(6)
		var m []mEntry
		for j := 0; j < n; j++ {
			m = append(m, mEntry{fmt.Sprintf("p%d.binarypb", c.Rng.Intn(5)), fmt.Sprintf("%02x", c.Rng.Intn(5)), fmt.Sprint(c.Rng.Intn(3))})
		}
		e := mEntry{fmt.Sprintf("p%d.binarypb", c.Rng.Intn(5)), fmt.Sprintf("%02x", c.Rng.Intn(5)), fmt.Sprint(c.Rng.Intn(3) + 3)}
		out := addOne(m, e)
		c.Case(fmt.Sprintf("c13 op=add m=%s e=%s:%s:%s", showEntries(m), e.path, e.digest, e.time), showEntries(out), len(m) > 0)
		if manifestUnique(m) {
			c.Count("addrand/wellformed")
			if !manifestUnique(out) {
				c.Find("c13/add/unique", "duplicate path or digest after merge", fmt.Sprintf("m=%s e=%v", showEntries(m), e))
			}
		} else {
			c.Count("addrand/illformed")
		}
	}

	// ---- (hist) real endorse runs over a scratch directory ----
	root, err := os.MkdirTemp("", "verif-c13-")
	if err != nil {
		panic(err)
	}
	defer os.RemoveAll(root)
	images := [][]byte{cleanFirmware(0x1000, 1), cleanFirmware(0x1000, 2), cleanFirmware(0x1000, 3), cleanFirmware(0x2000, 4)}
	cands := []string{"", "rc0", "rc1", "rc2", "rc0", "rc1", "x/../rc0", "./rc1", "sub/rc2", "sub/../sub/rc2"}
	nh := c.N(25, 400)
	for h := 0; h < nh; h++ {
		dir := filepath.Join(root, fmt.Sprintf("h%d", h))
		os.MkdirAll(dir, 0755)
		nruns := 1 + c.Rng.Intn(c.N(8, 12))
		var runToks, oks []string
		anyOK := false
		for r := 0; r < nruns; r++ {
			img := images[c.Rng.Intn(len(images))]
			cand := cands[c.Rng.Intn(len(cands))]
			ow := c.Rng.Intn(3) == 0
			ts := baseTime.Add(time.Duration(h*100+r) * time.Second)
			dg := sha512.Sum384(img)
			snap := c.Rng.Intn(6) == 0
			before := snapshotFiles(filepath.Join(dir, "out"))
			err := runEndorseMode(dir, img, cand, ow, ts, snap)
			if !ow {
				// no-overwrite clause, evaluated on the disk: every file that existed keeps its bytes
				after := snapshotFiles(filepath.Join(dir, "out"))
				for p, b := range before {
					if strings.HasSuffix(p, ".binarypb") && after[p] != b {
						c.Find("c13/hist/replaced-without-overwrite", "an existing endorsement file was replaced by a run without overwrite permission",
							strings.Join(append(append([]string{}, runToks...), fmt.Sprintf("%s:%s:%d:%s:%s", cand, hx(dg[:]), ts.Unix(), b2s(ow), b2s(snap))), ";"))
					}
				}
			}
			// the model sees the canonical spelling of the candidate (computed here with path.Clean,
			// independently of the code under test); the direct oracle below works on the disk
			runToks = append(runToks, fmt.Sprintf("%s:%s:%d:%s:%s", cleanCand(cand), hx(dg[:]), ts.Unix(), b2s(ow), b2s(snap)))
			if snap {
				c.Count("hist/snapshot-run")
			}
			if cleanCand(cand) != cand {
				c.Count("hist/unclean-candidate")
			}
			oks = append(oks, b2s(err == nil))
			if err == nil {
				anyOK = true
				c.Count("hist/run-ok")
			} else {
				c.Count("hist/run-rejected")
			}
			// direct oracle after every run
			checkStoreInvariant(c, dir, strings.Join(runToks, ";"))
			if err == nil && !snap {
				// latest digest maps to the file this run wrote
				m, _ := readManifest(dir)
				want := endorseBasename(cleanCand(cand))
				ok := false
				for _, e := range m {
					if e.digest == hx(dg[:]) && e.path == want {
						ok = true
					}
				}
				if !ok {
					c.Find("c13/hist/latest", "latest run's digest does not map to the file it wrote", strings.Join(runToks, ";"))
				}
			}
		}
		m, _ := readManifest(dir)
		files := listEndorsementFiles(dir)
		c.Case("c13 op=hist runs="+strings.Join(runToks, ";"),
			fmt.Sprintf("ok=%s manifest=%s files=%s", strings.Join(oks, ","), showEntries(m), strings.Join(files, ",")),
			nruns >= 2 && anyOK)
		c.Count(fmt.Sprintf("hist/len%d", nruns))
	}
}

// snapshotFiles maps every regular file under root (relative path) to its contents.
func snapshotFiles(root string) map[string]string {
	out := map[string]string{}
	filepath.Walk(root, func(p string, info os.FileInfo, err error) error {
		if err == nil && !info.IsDir() {
			b, _ := os.ReadFile(p)
			rel, _ := filepath.Rel(root, p)
			out[rel] = string(b)
		}
		return nil
	})
	return out
}

func cleanCand(cand string) string {
	if cand == "" {
		return ""
	}
	return strings.TrimSuffix(path.Clean(cand+".binarypb"), ".binarypb")
}

func endorseBasename(cand string) string {
	if cand == "" {
		cand = "endorsement"
	}
	return cand + ".binarypb"
}

func runEndorse(dir string, img []byte, cand string, overwrite bool, ts time.Time) error {
	return runEndorseMode(dir, img, cand, overwrite, ts, false)
}

func runEndorseMode(dir string, img []byte, cand string, overwrite bool, ts time.Time, snapshot bool) error {
	ctx := keysCtx(quietCtx(overwrite), &Rng{s: 7})
	ec := &endorse.Context{
		SevSnp:        &sev.SnpEndorsementRequest{Svn: 1, LaunchVmsas: 1, Product: sgpb.SevProduct_SEV_PRODUCT_MILAN},
		Image:         img,
		ClSpec:        1234,
		CandidateName: cand,
		Timestamp:     ts,
		VCS:           &localnonvcs.T{Root: dir},
		OutDir:        "out",
	}
	if snapshot {
		ec.SnapshotDir, ec.ImageName = "snap", "ovmf_x64_csm.fd"
	}
	return endorse.VirtualFirmware(endorse.NewContext(ctx, ec))
}

func readManifest(dir string) ([]mEntry, error) {
	b, err := os.ReadFile(filepath.Join(dir, "out", endorse.ManifestFile))
	if err != nil {
		if os.IsNotExist(err) {
			return nil, nil
		}
		return nil, err
	}
	m := &rpb.VMEndorsementMap{}
	if err := prototext.Unmarshal(b, m); err != nil {
		return nil, err
	}
	return protoToEntries(m.Entries), nil
}

// signedDigestOf returns the firmware digest carried by the endorsement file at path.
func signedDigestOf(path string) (string, error) {
	b, err := os.ReadFile(path)
	if err != nil {
		return "", err
	}
	e := &epb.VMLaunchEndorsement{}
	if err := proto.Unmarshal(b, e); err != nil {
		return "", err
	}
	g := &epb.VMGoldenMeasurement{}
	if err := proto.Unmarshal(e.SerializedUefiGolden, g); err != nil {
		return "", err
	}
	return hx(g.Digest), nil
}

func listEndorsementFiles(dir string) []string {
	var out []string
	root := filepath.Join(dir, "out")
	filepath.Walk(root, func(p string, info os.FileInfo, err error) error {
		if err == nil && !info.IsDir() && strings.HasSuffix(p, ".binarypb") {
			d, err := signedDigestOf(p)
			if err != nil {
				d = "unreadable"
			}
			rel, _ := filepath.Rel(root, p)
			out = append(out, rel+":"+d)
		}
		return nil
	})
	sort.Strings(out)
	return out
}

func checkStoreInvariant(c *Ctx, dir, hist string) {
	m, err := readManifest(dir)
	if err != nil {
		c.Find("c13/hist/parse", "manifest does not parse: "+err.Error(), hist)
		return
	}
	if !manifestUnique(m) {
		c.Find("c13/hist/unique", "manifest lists a path or digest twice", hist)
	}
	for _, e := range m {
		d, err := signedDigestOf(filepath.Join(dir, "out", e.path))
		if err != nil {
			c.Find("c13/hist/file-missing", "entry names a missing or unreadable file", hist)
		} else if d != e.digest {
			c.Find("c13/hist/digest-mismatch", "entry digest differs from the digest signed in the file", hist)
		}
	}
}

var _ = context.Background
