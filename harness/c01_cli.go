package main

// Stream c01cli — C01 at the command line: `gcetcbendorsement verify | sev validate | tdx validate` (and the bare
// `sev`, `tdx` and root commands) run in-process on generated command lines; every command line goes through the Lean
// model of the command line (Model/RpCli.lean, view v: the library part is Model/Verify.lean instantiated with the
// facts of the line, computed independently with the standard library as in stream c01).
//
// Direct oracle (the property's clauses on the implementation alone): a command line that exits 0 without --help
// (and, for `verify`, without --show) names an endorsement that is authentic for the certificates of the root data
// the command line names (the --root_cert file, or what the getter serves for the pinned DefaultRootURL when the
// flag is absent or empty) at the Backend's time; a command line whose root data holds no certificate never exits 0;
// verifying commands never create or change a file.

import (
	"crypto/x509"
	"encoding/pem"
	"fmt"
	"os"
	"strconv"
	"strings"
	"time"

	"github.com/google/gce-tcb-verifier/gcetcbendorsement"
	epb "github.com/google/gce-tcb-verifier/proto/endorsement"
	"github.com/google/gce-tcb-verifier/sev"
	cpb "github.com/google/go-sev-guest/proto/check"
	spb "github.com/google/go-sev-guest/proto/sevsnp"
	svalidate "github.com/google/go-sev-guest/validate"
	tcpb "github.com/google/go-tdx-guest/proto/checkconfig"
	tvalidate "github.com/google/go-tdx-guest/validate"
	tpmpb "github.com/google/go-tpm-tools/proto/attest"
	"google.golang.org/protobuf/proto"
)

func init() {
	register("c01cli", "real cobra commands `verify`, `sev validate`, `tdx validate`, `sev`, `tdx`, root (gcetcbendorsement/cmd.MakeRoot through the backend hook, "+
		"in-memory files / getter / clock), every command line compared with the Lean model of the command line: exhaustive over boolean flags x sub-commands x "+
		"presence of each valued flag; root data {flag absent with getter nil / serving / failing / serving junk, empty flag value, one PEM, one DER, two PEM, foreign, "+
		"PEM with a non-certificate block first, PEM certificate block with a junk body, junk, DER with a trailing byte, empty file, missing file}; times {zero, inside, "+
		"before, after validity}; endorsements {genuine, flipped signature, self-consistent foreign, junk payload, junk container, no certificate}; every flag name "+
		"of the tool on every modelled command (scope); flag placement before / after the sub-command word. Non-trivial: the command line reaches the library call "+
		"(not refused by cobra or a file read); distinct by op line.", runC01CLI)
}

type rpRootVariant struct {
	name     string
	flag     string // "" = flag absent, "=": flag given with the empty value, else the path
	data     []byte // file content (nil with flag = path: the file does not exist)
	missing  bool
	getter   string // for flag absent / empty: nil | ok | fail | junk
	getBytes []byte
}

type rpV struct {
	c    *Ctx
	env  *c01Env
	muts map[string]*c01Endo
}

// namedRootData: the root data the command line names, by the tool's documentation: the --root_cert file, else the
// object at DefaultRootURL.
func (v *rpV) namedRootData(cs *rpCase, flagName string) ([]byte, bool) {
	p, _ := cs.last(flagName)
	if p != "" {
		b, ok := cs.files[p]
		return b, ok
	}
	if cs.getterNil {
		return nil, false
	}
	b, ok := cs.getter[gcetcbendorsement.DefaultRootURL]
	return b, ok && b != nil
}

func rpParseU32(cs *rpCase, name string) uint32 {
	s, ok := cs.last(name)
	if !ok {
		return 0
	}
	v, err := strconv.ParseUint(s, 0, 32)
	if err != nil {
		return 0
	}
	return uint32(v)
}

func rpParseInt(cs *rpCase, name string) int {
	s, ok := cs.last(name)
	if !ok {
		return 0
	}
	v, err := strconv.ParseInt(s, 0, 64)
	if err != nil {
		return 0
	}
	return int(v)
}

// one runs the case, writes the line and evaluates the direct oracle.  e is the endorsement the command line names
// (nil: none that unmarshals), att the SEV attestation in the attestation file (nil for tdx / verify).
func (v *rpV) one(cs *rpCase, e *c01Endo, att *spb.Attestation, attparse string) {
	c := v.c
	env := v.env
	rootFlag := "root_cert"
	data, haveData := v.namedRootData(cs, rootFlag)
	var pool *x509.CertPool
	npem, der := 0, false
	if haveData {
		pool, npem, der = rpNamedPool(data)
	}
	f0 := c01IndependentFacts(e, pool, cs.now)
	f := *f0
	// policy facts for the configuration the command line names
	polbase := 0
	var sbase *cpb.Policy
	var tbase *tcpb.Policy
	if bp, _ := cs.last("base"); bp != "" {
		polbase = 1
		if b, ok := cs.files[bp]; ok {
			if strings.HasPrefix(cs.cmd, "sev") {
				sbase = &cpb.Policy{}
				if proto.Unmarshal(b, sbase) != nil {
					sbase = nil
				}
			} else {
				tbase = &tcpb.Policy{}
				if proto.Unmarshal(b, tbase) != nil {
					tbase = nil
				}
			}
		}
	}
	ow := cs.boolVal("overwrite")
	vmsas := rpParseU32(cs, "launch_vmsas")
	ram := rpParseInt(cs, "ram_gib")
	if e != nil && e.msg != nil {
		switch cs.cmd {
		case "sev validate":
			Guard(func() {
				pol, err := gcetcbendorsement.SevPolicy(env.ctx, e.msg, &gcetcbendorsement.SevPolicyOptions{Base: sbase, LaunchVmsas: vmsas, AllowUnspecifiedVmsas: true, Overwrite: ow})
				if err != nil {
					return
				}
				vo, err := svalidate.PolicyToOptions(pol)
				if err != nil {
					return
				}
				f.pol = true
				f.base = att != nil && svalidate.SnpAttestation(att, vo) == nil
			})
		case "tdx validate":
			Guard(func() {
				pol, err := gcetcbendorsement.TdxPolicy(env.ctx, e.msg, &gcetcbendorsement.TdxPolicyOptions{Base: tbase, RAMGiB: ram, Overwrite: ow})
				if err != nil {
					return
				}
				vo, err := tvalidate.PolicyToOptions(pol)
				if err != nil {
					return
				}
				f.tpol = true
				f.quote = attparse == "tdx" && tvalidate.TdxQuote(env.quoteGoodProto, vo) == nil
			})
		}
	}
	attTok, extTok := "", "-"
	if att != nil {
		attTok = hx(att.GetReport().GetMeasurement())
		if len(att.GetCertificateChain().GetExtras()) > 0 {
			extTok = sev.GCEFwCertGUID + ":0"
		}
	}
	extra := fmt.Sprintf(" nilts=%s ne=1%s rootpem=%d rootder=%s attparse=%s att=%s extras=%s polvmsas=%d polram=%d polow=%s polbase=%d",
		env.nilts, f.line(0), npem, b2s(der), attparse, attTok, extTok, vmsas, ram, b2s(ow), polbase)
	res := rpRun(cs)
	line := cs.line("v", extra)
	eff := rpEffects(cs, res, func(p string, content []byte) string {
		path := ""
		if len(cs.args) > 0 {
			path = cs.args[0]
		}
		root, _ := cs.last("root_cert")
		if root == "" {
			root = gcetcbendorsement.DefaultRootCmd
		}
		if string(content) == rpOpensslText(osArgs0(), path, root) {
			return "openssl/" + path + "/" + root
		}
		return "openssl/?"
	})
	impl := "res=" + res.res + " eff=" + eff
	reached := !strings.HasPrefix(res.res, "reject:parse") && !strings.HasPrefix(res.res, "reject:args") && !strings.HasPrefix(res.res, "reject:read") &&
		!strings.HasPrefix(res.res, "reject:unmarshal") && !strings.HasPrefix(res.res, "reject:attestation-read")
	c.Case(line, impl, reached)
	c.Count("cmd/" + tok(cs.cmd) + "/" + res.res)
	c.Count("tag/" + cs.tag)

	// ---- direct oracle ----
	sigCmd := tok(cs.cmd)
	verifying := cs.cmd == "verify" || cs.cmd == "sev validate" || cs.cmd == "tdx validate"
	help := cs.boolVal("help")
	show := cs.cmd == "verify" && cs.boolVal("show")
	if res.res == "panic" {
		c.Find("c01cli/"+sigCmd+"/panic", "the command panicked: "+strings.Join(res.argv, " "), line)
	}
	if p, ok := rpUntouched(cs, res); !ok {
		c.Find("c01cli/"+sigCmd+"/file-changed", "the command changed the file "+p, line)
	}
	if verifying && !show && len(res.created) > 0 {
		c.Find("c01cli/"+sigCmd+"/file-created", "a verifying command created "+strings.Join(res.created, ","), line)
	}
	if verifying && res.res == "accept" && !help && !show {
		okA, clause := f.authentic(pool == nil)
		if e == nil {
			okA, clause = false, "no-endorsement"
		}
		if !haveData || pool == nil {
			c.Find("c01cli/"+sigCmd+"/accepted-without-roots", "exit 0 although the root data the command line names holds no certificate (or there is none): "+strings.Join(res.argv, " "), line)
		} else if !okA {
			c.Find("c01cli/"+sigCmd+"/accepted-not-authentic/"+clause,
				"exit 0 for an endorsement that is not authentic for the roots and time the command line names ("+clause+"): "+strings.Join(res.argv, " "), line)
		}
	}
	if (cs.cmd == "sev" || cs.cmd == "tdx") && res.res == "accept" && !help {
		c.Find("c01cli/"+sigCmd+"/bare-command-exit-0", "`"+cs.cmd+"` without a sub-command exits 0", line)
	}
}

func osArgs0() string { return os.Args[0] }

// ---- generators ----

func (v *rpV) rootVariants() []rpRootVariant {
	env := v.env
	gen := c01PEM(env.rootA)
	foreign := c01PEM(env.caB.root)
	junkCertPEM := []byte("-----BEGIN CERTIFICATE-----\nbm9wZQ==\n-----END CERTIFICATE-----\n")
	pubBlock := pem.EncodeToMemory(&pem.Block{Type: "PUBLIC KEY", Bytes: []byte{1, 2, 3}})
	return []rpRootVariant{
		{name: "one-pem", flag: "root", data: gen},
		{name: "one-der", flag: "root", data: env.rootA.Raw},
		{name: "two-pem", flag: "root", data: append(append([]byte{}, foreign...), gen...)},
		{name: "foreign", flag: "root", data: foreign},
		{name: "noncert-block-then-cert", flag: "root", data: append(append([]byte{}, pubBlock...), gen...)},
		{name: "junk-cert-block", flag: "root", data: junkCertPEM},
		{name: "junk-cert-block-then-cert", flag: "root", data: append(append([]byte{}, junkCertPEM...), gen...)},
		{name: "junk", flag: "root", data: []byte("not a certificate at all")},
		{name: "der-trailing-byte", flag: "root", data: append(append([]byte{}, env.rootA.Raw...), 0)},
		{name: "empty-file", flag: "root", data: []byte{}},
		{name: "missing-file", flag: "root", missing: true},
		// a root file is named AND the getter would serve the genuine root: the getter must not be consulted
		{name: "junk+getter-ok", flag: "root", data: []byte("not a certificate at all"), getter: "ok", getBytes: gen},
		{name: "empty-file+getter-ok", flag: "root", data: []byte{}, getter: "ok", getBytes: gen},
		{name: "foreign+getter-ok", flag: "root", data: foreign, getter: "ok", getBytes: gen},
		{name: "missing-file+getter-ok", flag: "root", missing: true, getter: "ok", getBytes: gen},
		{name: "absent-getter-nil", getter: "nil"},
		{name: "absent-getter-ok", getter: "ok", getBytes: gen},
		{name: "absent-getter-der", getter: "ok", getBytes: env.rootA.Raw},
		{name: "absent-getter-foreign", getter: "ok", getBytes: foreign},
		{name: "absent-getter-fail", getter: "fail"},
		{name: "absent-getter-junk", getter: "ok", getBytes: []byte("junk")},
		{name: "absent-getter-empty", getter: "ok", getBytes: []byte{}},
		{name: "empty-flag-getter-ok", flag: "=", getter: "ok", getBytes: gen},
		{name: "empty-flag-getter-nil", flag: "=", getter: "nil"},
	}
}

func rootTok(b []byte) string {
	if len(b) == 0 {
		return "Z"
	}
	return "R"
}

func (v *rpV) applyRoot(cs *rpCase, r rpRootVariant) {
	cs.getterNil = true
	cs.getterTok = "-"
	switch {
	case r.flag == "=":
		cs.flag("root_cert", "")
	case r.flag != "":
		cs.flag("root_cert", r.flag)
		if !r.missing {
			cs.put(r.flag, rootTok(r.data), r.data)
		}
	}
	{
		switch r.getter {
		case "ok":
			cs.getterNil = false
			cs.getter = map[string][]byte{gcetcbendorsement.DefaultRootURL: r.getBytes}
			cs.getterTok = rootTok(r.getBytes)
			if len(r.getBytes) == 0 {
				// an empty body: the getter returns it (not an error)
				cs.getter[gcetcbendorsement.DefaultRootURL] = []byte{}
			}
		case "fail":
			cs.getterNil = false
			cs.getter = map[string][]byte{}
		}
	}
}

type rpTimeV struct {
	name string
	t    time.Time
}

func (v *rpV) times() []rpTimeV {
	leaf := v.env.leafA
	return []rpTimeV{
		{"inside", baseTime.Add(time.Hour)},
		{"zero", time.Time{}},
		{"before", leaf.NotBefore.Add(-time.Second)},
		{"after", leaf.NotAfter.Add(time.Second)},
	}
}

func (v *rpV) endo(name string) *c01Endo { return v.muts[name] }

var rpEndoNames = []string{"genuine", "flip-signature", "cert-swapped-foreign-resigned-foreign-key", "payload-garbage", "container-garbage", "no-certificate"}

// place varies where persistent flags of the parent stand and how values are attached, from the case's own content.
func rpPlace(cs *rpCase, k int) {
	persistent := map[string]bool{"overwrite": true, "base": true, "launch_vmsas": true, "allow_unspecified_vmsas": true, "ram_gib": true}
	for i := range cs.flags {
		f := &cs.flags[i]
		if persistent[f.name] && strings.Contains(cs.cmd, " ") && (k>>uint(i%5))&1 == 1 {
			f.early = true
		}
		// (a Bool flag takes a value only in the `--flag=value` form: `--overwrite false` is the flag and a positional word)
		isBool := map[string]bool{"overwrite": true, "show": true, "help": true, "allow_unspecified_vmsas": true, "testonly_force_gcs": true, "force_fetch": true}[f.name]
		if !f.bare && !isBool && f.val != "" && (k>>uint((i+2)%5))&1 == 1 {
			f.sep = true
		}
	}
	// keep the list in argv order (the early occurrences stand first), so that "the last occurrence" means the same
	// on the protocol line and on the command line
	if strings.Contains(cs.cmd, " ") {
		var early, late []rpFlagOcc
		for _, f := range cs.flags {
			if f.early {
				early = append(early, f)
			} else {
				late = append(late, f)
			}
		}
		cs.flags = append(early, late...)
	}
}

func (v *rpV) verifyCase(endoName string, r rpRootVariant, t rpTimeV, show, help bool, k int) {
	e := v.endo(endoName)
	cs := &rpCase{cmd: "verify", args: []string{"endorsement"}, now: t.t, tag: "verify/" + r.name + "/" + t.name}
	etok := "E0"
	if e.msg == nil {
		etok = "G"
	}
	cs.put("endorsement", etok, e.container)
	v.applyRoot(cs, r)
	if show {
		cs.boolFlag("show")
	}
	if help {
		cs.boolFlag("help")
	}
	rpPlace(cs, k)
	v.one(cs, e, nil, "-")
}

type rpSevOpt struct {
	overwrite, allow, force, help bool
	endorsementFile, base         bool
	vmsas                         string // "" = flag absent
	extras                        bool
}

func (v *rpV) sevCase(endoName string, r rpRootVariant, t rpTimeV, o rpSevOpt, k int) {
	env := v.env
	e := v.endo(endoName)
	cs := &rpCase{cmd: "sev validate", args: []string{"att"}, now: t.t, tag: "sev-validate/" + r.name + "/" + t.name}
	var extras map[string][]byte
	if o.extras {
		extras = map[string][]byte{sev.GCEFwCertGUID: e.container}
	}
	att := env.sevAtt(env.meas1, extras)
	ab, err := proto.Marshal(&tpmpb.Attestation{TeeAttestation: &tpmpb.Attestation_SevSnpAttestation{SevSnpAttestation: att}})
	if err != nil {
		panic(err)
	}
	cs.put("att", "A", ab)
	if o.overwrite {
		cs.boolFlag("overwrite")
	}
	if o.base {
		// a base policy that agrees with the report and the endorsement
		bp, _ := proto.Marshal(&cpb.Policy{MinimumVersion: "0.0", MinimumGuestSvn: 1})
		cs.put("base", "B0", bp)
		cs.flag("base", "base")
		cs.extra = " bp0=0//1//"
	}
	if o.vmsas != "" {
		cs.flag("launch_vmsas", o.vmsas)
	}
	if o.allow {
		cs.boolFlag("allow_unspecified_vmsas")
	}
	named := e
	if o.endorsementFile {
		etok := "E0"
		if e.msg == nil {
			etok = "G"
		}
		cs.put("endorsement", etok, e.container)
		cs.flag("endorsement", "endorsement")
	} else if !o.extras {
		named = nil
	}
	v.applyRoot(cs, r)
	if o.force {
		cs.boolFlag("testonly_force_gcs")
	}
	if o.help {
		cs.boolFlag("help")
	}
	rpPlace(cs, k)
	v.one(cs, named, att, "sev")
}

type rpTdxOpt struct {
	overwrite, help bool
	base            bool
	ram             string
	sevAtt          bool // the attestation file holds a SEV-SNP attestation
}

func (v *rpV) tdxCase(endoName string, r rpRootVariant, t rpTimeV, o rpTdxOpt, k int) {
	env := v.env
	e := v.endo(endoName)
	cs := &rpCase{cmd: "tdx validate", args: []string{"att"}, now: t.t, tag: "tdx-validate/" + r.name + "/" + t.name}
	attparse := "tdx"
	if o.sevAtt {
		cs.put("att", "A", env.sevAttBytes)
		attparse = "sev"
	} else {
		cs.put("att", "A", env.quoteGood)
	}
	if o.overwrite {
		cs.boolFlag("overwrite")
	}
	if o.base {
		bp, _ := proto.Marshal(&tcpb.Policy{TdQuoteBodyPolicy: &tcpb.TDQuoteBodyPolicy{MinimumTeeTcbSvn: make([]byte, 16)}})
		cs.put("base", "B0", bp)
		cs.flag("base", "base")
		cs.extra = " bp0=body/"
	}
	if o.ram != "" {
		cs.flag("ram_gib", o.ram)
	}
	// always a pre-supplied endorsement: without one TdxValidate turns to the event log and the network
	etok := "E0"
	if e.msg == nil {
		etok = "G"
	}
	cs.put("endorsement", etok, e.container)
	cs.flag("endorsement", "endorsement")
	v.applyRoot(cs, r)
	if o.help {
		cs.boolFlag("help")
	}
	rpPlace(cs, k)
	var att *spb.Attestation
	if o.sevAtt {
		att = env.sevAtt(env.meas1, nil)
	}
	v.one(cs, e, att, attparse)
}

func runC01CLI(c *Ctx) {
	env := &c01Env{c: c}
	env.setup()
	v := &rpV{c: c, env: env, muts: map[string]*c01Endo{}}
	for _, m := range env.mutants(false) {
		if _, ok := v.muts[m.desc]; !ok {
			v.muts[m.desc] = m.e
		}
	}
	for _, n := range rpEndoNames {
		if v.muts[n] == nil {
			panic("missing mutant " + n)
		}
	}
	roots := v.rootVariants()
	times := v.times()
	rng := c.Rng
	k := 0
	next := func() int { k++; return k }
	onePem, inside := roots[0], times[0]
	bools := []bool{false, true}

	// (1) verify: endorsements x roots x times x {show, help}
	for _, en := range rpEndoNames {
		for _, r := range roots {
			for _, t := range times {
				for _, show := range bools {
					for _, help := range bools {
						if (show || help) && !(t.name == "inside" || r.name == "junk" || r.name == "absent-getter-nil") && c.Quick() {
							continue
						}
						v.verifyCase(en, r, t, show, help, next())
					}
				}
			}
		}
	}
	// wrong argument counts, an unreadable endorsement
	for _, args := range [][]string{nil, {"endorsement", "extra"}, {"nosuchfile"}, {""}} {
		for _, show := range bools {
			cs := &rpCase{cmd: "verify", args: args, now: inside.t, tag: "verify/args"}
			cs.put("endorsement", "E0", v.endo("genuine").container)
			v.applyRoot(cs, onePem)
			if show {
				cs.boolFlag("show")
			}
			var e *c01Endo
			if len(args) == 1 && args[0] == "endorsement" {
				e = v.endo("genuine")
			}
			v.one(cs, e, nil, "-")
		}
	}
	// --show with a failing / terminal standard output
	for _, m := range []string{"createfail", "writefail", "term"} {
		cs := &rpCase{cmd: "verify", args: []string{"endorsement"}, now: inside.t, tag: "verify/show-" + m}
		cs.put("endorsement", "E0", v.endo("genuine").container)
		v.applyRoot(cs, onePem)
		cs.boolFlag("show")
		switch m {
		case "createfail":
			cs.createFail = map[string]bool{"-": true}
		case "writefail":
			cs.writeFail = map[string]bool{"-": true}
		default:
			cs.term = map[string]bool{"-": true}
		}
		v.one(cs, v.endo("genuine"), nil, "-")
	}

	// (2) sev validate: boolean flags x presence of valued flags, exhaustively, on the genuine endorsement
	vmsasTexts := []string{"", "0", "1", "2", "0x1", "4294967295", "4294967296", "-1", "one"}
	for _, ow := range bools {
		for _, allow := range bools {
			for _, force := range bools {
				for _, help := range bools {
					for _, ef := range bools {
						for _, base := range bools {
							for _, vm := range vmsasTexts {
								if c.Quick() && (help || allow) && !(vm == "" || vm == "2") {
									continue
								}
								o := rpSevOpt{overwrite: ow, allow: allow, force: force, help: help, endorsementFile: ef, base: base, vmsas: vm, extras: !ef || rng.Intn(3) == 0}
								v.sevCase("genuine", onePem, inside, o, next())
							}
						}
					}
				}
			}
		}
	}
	// no endorsement anywhere (neither --endorsement nor the certificate table)
	v.sevCase("genuine", onePem, inside, rpSevOpt{}, next())
	for _, r := range roots {
		if r.name == "absent-getter-ok" {
			v.sevCase("genuine", r, inside, rpSevOpt{}, next())
		}
	}
	// roots x times x endorsements
	for _, en := range rpEndoNames {
		for _, r := range roots {
			for _, t := range times {
				if c.Quick() && en != "genuine" && t.name != "inside" && rng.Intn(3) != 0 {
					continue
				}
				o := rpSevOpt{endorsementFile: rng.Bool(), overwrite: rng.Intn(4) == 0, vmsas: []string{"", "", "1", "2"}[rng.Intn(4)]}
				o.extras = !o.endorsementFile
				v.sevCase(en, r, t, o, next())
			}
		}
	}
	// (3) tdx validate
	ramTexts := []string{"", "0", "16", "-1", "4294967312", "0x10", "9223372036854775807", "9223372036854775808", "-9223372036854775809", "x"}
	var rams []string
	for _, m := range env.baseG.Tdx.Measurements {
		rams = append(rams, fmt.Sprint(m.RamGib))
	}
	if len(rams) > 0 {
		ramTexts = append(ramTexts, rams[len(rams)-1])
	}
	for _, ow := range bools {
		for _, help := range bools {
			for _, base := range bools {
				for _, ram := range ramTexts {
					for _, sa := range bools {
						if c.Quick() && sa && ram != "" {
							continue
						}
						v.tdxCase("genuine", onePem, inside, rpTdxOpt{overwrite: ow, help: help, base: base, ram: ram, sevAtt: sa}, next())
					}
				}
			}
		}
	}
	for _, en := range rpEndoNames {
		for _, r := range roots {
			for _, t := range times {
				if c.Quick() && en != "genuine" && t.name != "inside" && rng.Intn(3) != 0 {
					continue
				}
				v.tdxCase(en, r, t, rpTdxOpt{overwrite: rng.Intn(4) == 0, ram: []string{"", "", "0", "16"}[rng.Intn(4)]}, next())
			}
		}
	}
	// attestation file missing / wrong argument count
	for _, cmd := range []string{"sev validate", "tdx validate"} {
		for _, args := range [][]string{nil, {"att", "extra"}, {"nosuchfile"}} {
			cs := &rpCase{cmd: cmd, args: args, now: inside.t, tag: "validate/args"}
			cs.put("att", "A", env.quoteGood)
			cs.put("endorsement", "E0", v.endo("genuine").container)
			cs.flag("endorsement", "endorsement")
			v.applyRoot(cs, onePem)
			v.one(cs, v.endo("genuine"), nil, "tdx")
		}
		// --base unreadable / junk / empty; the hook of the parent runs first
		for _, bv := range []string{"missing", "junk", "empty"} {
			cs := &rpCase{cmd: cmd, args: []string{"att"}, now: inside.t, tag: "validate/base-" + bv}
			if cmd == "sev validate" {
				att := env.sevAtt(env.meas1, nil)
				ab, _ := proto.Marshal(&tpmpb.Attestation{TeeAttestation: &tpmpb.Attestation_SevSnpAttestation{SevSnpAttestation: att}})
				cs.put("att", "A", ab)
			} else {
				cs.put("att", "A", env.quoteGood)
			}
			cs.put("endorsement", "E0", v.endo("genuine").container)
			cs.flag("endorsement", "endorsement")
			cs.flag("base", "base")
			switch bv {
			case "junk":
				cs.put("base", "X", []byte{0xff, 0xff, 0xff, 0x01})
			case "empty":
				cs.put("base", "Z", []byte{})
			}
			v.applyRoot(cs, onePem)
			var att *spb.Attestation
			ap := "tdx"
			if cmd == "sev validate" {
				att, ap = env.sevAtt(env.meas1, nil), "sev"
			}
			v.one(cs, v.endo("genuine"), att, ap)
		}
	}
	// (4) bare commands
	for _, cmd := range []string{"", "sev", "tdx"} {
		for _, args := range [][]string{nil, {"stray"}} {
			for _, help := range bools {
				for _, bv := range []string{"", "missing", "ok"} {
					if cmd == "" && bv != "" {
						continue
					}
					cs := &rpCase{cmd: cmd, args: args, now: inside.t, getterNil: true, getterTok: "-", tag: "bare/" + cmd}
					if bv != "" {
						cs.flag("base", "base")
						if bv == "ok" {
							cs.put("base", "Z", []byte{})
						}
					}
					if help {
						cs.boolFlag("help")
					}
					v.one(cs, nil, nil, "-")
				}
			}
		}
	}
	// (5) scope: every flag name of the tool on every modelled verifying command
	for _, cmd := range []string{"verify", "sev validate", "tdx validate", "sev", "tdx"} {
		for _, fl := range rpAllFlags {
			for early := 0; early < 2; early++ {
				if early == 1 && !strings.Contains(cmd, " ") {
					continue
				}
				cs := &rpCase{cmd: cmd, now: inside.t, tag: "scope/" + tok(cmd)}
				var e *c01Endo
				var att *spb.Attestation
				ap := "-"
				switch cmd {
				case "verify":
					cs.args = []string{"endorsement"}
					cs.put("endorsement", "E0", v.endo("genuine").container)
					e = v.endo("genuine")
				case "sev validate":
					cs.args = []string{"att"}
					att, ap = env.sevAtt(env.meas1, nil), "sev"
					ab, _ := proto.Marshal(&tpmpb.Attestation{TeeAttestation: &tpmpb.Attestation_SevSnpAttestation{SevSnpAttestation: att}})
					cs.put("att", "A", ab)
					e = v.endo("genuine")
				case "tdx validate":
					cs.args = []string{"att"}
					cs.put("att", "A", env.quoteGood)
					ap = "tdx"
					e = v.endo("genuine")
				}
				if cmd == "sev validate" || cmd == "tdx validate" {
					cs.put("endorsement", "E0", v.endo("genuine").container)
					if fl.name != "endorsement" {
						cs.flag("endorsement", "endorsement")
					}
				}
				if fl.name == "base" {
					cs.put("base", "Z", []byte{})
				}
				if fl.isBool {
					cs.boolFlag(fl.name)
				} else {
					cs.flag(fl.name, fl.sample)
				}
				if early == 1 {
					cs.flags[len(cs.flags)-1].early = true
				}
				if fl.name != "root_cert" {
					if cmd == "sev" || cmd == "tdx" {
						cs.getterNil, cs.getterTok = true, "-"
					} else {
						v.applyRoot(cs, onePem)
					}
				} else {
					cs.getterNil, cs.getterTok = true, "-"
					cs.put("root", "R", c01PEM(env.rootA))
				}
				// a flag the PARENT does not know, written before the sub-command word, changes which command cobra
				// resolves (its tokenising treats the next word as the flag's value): not a case of this model
				if early == 1 && !map[string]bool{"overwrite": true, "base": true, "launch_vmsas": true, "allow_unspecified_vmsas": true, "ram_gib": true, "help": true}[fl.name] {
					continue
				}
				if early == 1 && fl.name == "help" {
					continue // `sev --help validate` is the help of `sev`
				}
				if early == 1 && ((strings.HasPrefix(cmd, "tdx") && (fl.name == "launch_vmsas" || fl.name == "allow_unspecified_vmsas")) || (strings.HasPrefix(cmd, "sev") && fl.name == "ram_gib")) {
					continue // unknown to the parent as well
				}
				v.one(cs, e, att, ap)
			}
		}
	}
	// Bool flags with explicit values, repeated flags
	for _, val := range []string{"true", "false", "1", "0", "T", "maybe", ""} {
		cs := &rpCase{cmd: "verify", args: []string{"endorsement"}, now: inside.t, tag: "verify/bool-value"}
		cs.put("endorsement", "E0", v.endo("flip-signature").container)
		v.applyRoot(cs, onePem)
		cs.flag("show", val)
		v.one(cs, v.endo("flip-signature"), nil, "-")
		cs2 := &rpCase{cmd: "verify", args: []string{"endorsement"}, now: inside.t, tag: "verify/bool-repeat"}
		cs2.put("endorsement", "E0", v.endo("flip-signature").container)
		v.applyRoot(cs2, onePem)
		cs2.boolFlag("show")
		cs2.flag("show", val)
		v.one(cs2, v.endo("flip-signature"), nil, "-")
	}
	// --help with explicit values (the last occurrence counts; `--help=false` is not a request for help)
	for _, vals := range [][]string{{"false"}, {"true"}, {"true", "false"}, {"false", "true"}, {"0"}, {"yes"}} {
		cs := &rpCase{cmd: "verify", args: []string{"endorsement"}, now: inside.t, tag: "verify/help-value"}
		cs.put("endorsement", "E0", v.endo("flip-signature").container)
		v.applyRoot(cs, onePem)
		for _, x := range vals {
			cs.flag("help", x)
		}
		v.one(cs, v.endo("flip-signature"), nil, "-")
	}
	// --root_cert twice: the last one counts
	{
		cs := &rpCase{cmd: "verify", args: []string{"endorsement"}, now: inside.t, tag: "verify/root-twice"}
		cs.put("endorsement", "E0", v.endo("genuine").container)
		cs.put("other", "X", []byte("junk"))
		cs.flag("root_cert", "other")
		v.applyRoot(cs, onePem)
		v.one(cs, v.endo("genuine"), nil, "-")
		cs2 := &rpCase{cmd: "verify", args: []string{"endorsement"}, now: inside.t, tag: "verify/root-twice"}
		cs2.put("endorsement", "E0", v.endo("genuine").container)
		v.applyRoot(cs2, onePem)
		cs2.put("other", "X", []byte("junk"))
		cs2.flag("root_cert", "other")
		v.one(cs2, v.endo("genuine"), nil, "-")
	}
	// (6) random combinations over ALL mutation operators of stream c01, root data, times (incl. the validity boundaries
	// of the signer certificate) and flags
	allTimes := append([]rpTimeV{}, times...)
	for _, d := range []time.Duration{-time.Second, 0, time.Second} {
		allTimes = append(allTimes, rpTimeV{"notBefore" + d.String(), env.leafA.NotBefore.Add(d)}, rpTimeV{"notAfter" + d.String(), env.leafA.NotAfter.Add(d)})
	}
	n := c.N(600, 12000)
	var muts []c01Mutant
	for i := 0; i < n; i++ {
		if i%200 == 0 {
			muts = env.mutants(false) // fresh flip positions and salts
		}
		m := muts[rng.Intn(len(muts))]
		if rng.Intn(3) == 0 {
			m = muts[0]
		}
		v.muts["random"] = m.e
		r := roots[rng.Intn(len(roots))]
		if rng.Intn(3) == 0 {
			r = onePem
		}
		t := allTimes[rng.Intn(len(allTimes))]
		if rng.Intn(2) == 0 {
			t = inside
		}
		c.Count("random/mutant/" + m.desc)
		switch rng.Intn(3) {
		case 0:
			v.verifyCase("random", r, t, rng.Intn(12) == 0, rng.Intn(20) == 0, next())
		case 1:
			o := rpSevOpt{overwrite: rng.Intn(4) == 0, allow: rng.Intn(6) == 0, force: rng.Intn(8) == 0, help: rng.Intn(20) == 0,
				endorsementFile: rng.Bool(), base: rng.Intn(4) == 0, vmsas: []string{"", "", "0", "1", "2"}[rng.Intn(5)]}
			o.extras = !o.endorsementFile || rng.Intn(3) == 0
			v.sevCase("random", r, t, o, next())
		default:
			v.tdxCase("random", r, t, rpTdxOpt{overwrite: rng.Intn(4) == 0, help: rng.Intn(20) == 0, base: rng.Intn(4) == 0,
				ram: []string{"", "", "0", "16", "128"}[rng.Intn(5)]}, next())
		}
	}
	_ = epb.VMLaunchEndorsement{}
}
