package main

// C18 — event-log half: the stream and the direct oracle.

import (
	"bytes"
	"encoding/binary"
	"fmt"
	"strings"

	"github.com/google/gce-tcb-verifier/eventlog"
	"github.com/google/uuid"
)

const (
	c18SigShortRead   = "c18/eventlog/readSizedArray/short-read-zero-filled"
	c18SigEmptyAtEOF  = "c18/eventlog/Unmarshal/roundtrip/empty-item-at-end-of-bytes.Reader-rejected"
	c18SigLogTrunc    = "c18/eventlog/CryptoAgileLog.Unmarshal/canon/truncated-event-taken-as-end-of-log"
	c18SigLogDropLast = "c18/eventlog/CryptoAgileLog.Unmarshal/canon/complete-final-event-dropped"
)

// payload of the event data that ends an encoded event, when it is an SP800-155 event (zero padding
// inside that payload is the documented tolerance)
func c18IsEv3(d *eventlog.TCGEventData) bool {
	_, ok := d.Event.(*eventlog.SP800155Event3)
	return ok
}

// c18MatchEvent checks that input[pos:] starts with the event whose canonical encoding is enc, where the
// event data is the last field of enc. For an SP800-155 payload the input may carry extra zero bytes at
// the end of the payload (counted by its size prefix). Returns the position after the event.
func c18MatchEvent(input []byte, pos int, enc []byte, ev3 bool) (int, bool) {
	if pos+len(enc) <= len(input) && bytes.Equal(input[pos:pos+len(enc)], enc) {
		return pos + len(enc), true
	}
	if !ev3 {
		return pos, false
	}
	// locate the size prefix of the final event data in enc: scan back from the end
	for off := len(enc) - 4; off >= 0; off-- {
		if int(binary.LittleEndian.Uint32(enc[off:off+4])) == len(enc)-off-4 && len(enc)-off-4 >= 16 && bytes.Equal(enc[off+4:off+20], c18Sig) {
			if pos+off+4 > len(input) || !bytes.Equal(input[pos:pos+off], enc[:off]) {
				return pos, false
			}
			sz := int(binary.LittleEndian.Uint32(input[pos+off : pos+off+4]))
			payload := len(enc) - off - 4
			if sz < payload || pos+off+4+sz > len(input) {
				return pos, false
			}
			got := input[pos+off+4 : pos+off+4+sz]
			if !bytes.Equal(got[:payload], enc[off+4:]) || !c18AllZero(got[payload:]) {
				return pos, false
			}
			return pos + off + 4 + sz, true
		}
	}
	return pos, false
}

// c18CanonOracle: an accepted input must re-encode to the bytes that were consumed (clause 4),
// evaluated on the implementation alone.
func c18CanonOracle(c *Ctx, item, kind string, in []byte, val any, consumed int, shortBody bool) {
	replay := fmt.Sprintf("c18 op=rd s=%s kind=%s b=%s", item, kind, hx(in))
	diff := func(what string) {
		if shortBody {
			c.Find(c18SigShortRead, "a ByteSizedCStr / Uint32SizedArray whose declared size exceeds the remaining input is accepted and the missing bytes are zero-filled (readSizedArray ignores the count returned by Read)", replay)
			return
		}
		c.Find("c18/eventlog/"+item+".Unmarshal/canon/reencode-differs", what, replay)
	}
	switch v := val.(type) {
	case *eventlog.SP800155Event3:
		enc, err := v.MarshalToBytes()
		if err != nil {
			c.Count("canon/event3/remarshal-refused")
			return
		}
		f := enc[16:]
		if len(in) < len(f) || !bytes.Equal(in[:len(f)], f) || !c18AllZero(in[len(f):]) {
			diff("accepted SP800-155 payload is not the fields' encoding followed by zeros")
		}
	case *eventlog.TCGPCClientPCREvent:
		enc, err := c18Encode(v)
		if err != nil {
			c.Count("canon/" + item + "/remarshal-refused")
			return
		}
		if p, ok := c18MatchEvent(in, 0, enc, c18IsEv3(&v.EventData)); !ok || p != consumed {
			diff("accepted event does not re-encode to the consumed bytes")
		}
	case *eventlog.TCGPCREvent2:
		enc, err := c18Encode(v)
		if err != nil {
			c.Count("canon/" + item + "/remarshal-refused")
			return
		}
		if p, ok := c18MatchEvent(in, 0, enc, c18IsEv3(&v.EventData)); !ok || p != consumed {
			diff("accepted event does not re-encode to the consumed bytes")
		}
	case *eventlog.CryptoAgileLog:
		enc, err := c18Encode(&v.Header)
		if err != nil {
			return
		}
		pos, ok := c18MatchEvent(in, 0, enc, c18IsEv3(&v.Header.EventData))
		for _, e := range v.Events {
			if !ok {
				break
			}
			var ee []byte
			if ee, err = c18Encode(e); err != nil {
				return
			}
			pos, ok = c18MatchEvent(in, pos, ee, c18IsEv3(&e.EventData))
		}
		switch {
		case !ok:
			diff("a returned event does not re-encode to the bytes at its position")
		case pos != len(in):
			// bytes after the last returned event were swallowed. A complete event, or a truncated one?
			tail := in[pos:]
			if res, _, used := c18Decode("event2", "buffer", tail); strings.HasPrefix(res, "ok:") && used == len(tail) {
				c.Find(c18SigLogDropLast, "a log whose final event is complete (empty event data) is accepted with that event dropped: a zero-length Read at the end of a bytes.Reader returns io.EOF, which CryptoAgileLog.Unmarshal takes as the end of the log", replay)
			} else {
				c.Find(c18SigLogTrunc, "CryptoAgileLog.Unmarshal takes any error wrapping io.EOF as the end of the log: a log cut inside an event (after the PCR index, after the digests, after an event-data size prefix, or inside an SP800-155 payload) is accepted and the partial event and everything after it are dropped", replay)
			}
		}
	default:
		enc, err := c18Encode(val)
		if err != nil {
			diff("accepted value cannot be re-encoded")
			return
		}
		if consumed > len(in) || !bytes.Equal(enc, in[:consumed]) {
			diff("accepted value does not re-encode to the consumed bytes")
		}
	}
}

// c18DecodeCases: run one input through both reader kinds; record cases, distribution and the oracle.
func c18DecodeCases(c *Ctx, item string, in []byte, class string) {
	safe, shortBody := c18Safe(item, in)
	if !safe {
		c.Count("rd/" + item + "/skipped-oversize")
		return
	}
	kinds := []string{"buffer", "reader"}
	if item == "event3" {
		kinds = kinds[:1] // UnmarshalFromBytes builds its own bytes.Buffer
	}
	for _, kind := range kinds {
		res, val, consumed := c18Decode(item, kind, in)
		c.Case(fmt.Sprintf("c18 op=rd s=%s kind=%s b=%s", item, kind, hx(in)), res, strings.HasPrefix(res, "ok:"))
		cls := res
		if strings.HasPrefix(res, "ok:") {
			cls = "ok"
		}
		c.Count("rd/" + item + "/" + class + "/" + cls)
		if res == "panic" {
			c.Find("c18/eventlog/"+item+".Unmarshal/panic", "decoder panicked", hx(in))
		}
		if cls == "ok" {
			c18CanonOracle(c, item, kind, in, val, consumed, shortBody)
			// the same bytes decoded into a receiver that already holds an earlier (different) decoding: the result
			// and the re-encoding must be those of the fresh decode
			if prev := c18Used[item]; prev != nil {
				res2, val2, _ := c18DecodeInto(item, kind, in, prev.val)
				c.Count("rd/" + item + "/into-used-value")
				if res2 != res {
					c.Find("c18/eventlog/"+item+".Unmarshal/used-receiver/result-differs", fmt.Sprintf("decoding into a value that held the decoding of %s gives %q, a fresh value gives %q", hx(prev.in), res2, res), fmt.Sprintf("c18 op=rdinto s=%s kind=%s prev=%s b=%s", item, kind, hx(prev.in), hx(in)))
				} else if enc1, e1 := c18Encode(val); e1 == nil {
					if enc2, e2 := c18Encode(val2); e2 != nil || !bytes.Equal(enc1, enc2) {
						c.Find("c18/eventlog/"+item+".Unmarshal/used-receiver/reencode-differs", fmt.Sprintf("decoding into a value that held the decoding of %s re-encodes to %s, a fresh value to %s", hx(prev.in), hx(enc2), hx(enc1)), fmt.Sprintf("c18 op=rdinto s=%s kind=%s prev=%s b=%s", item, kind, hx(prev.in), hx(in)))
					}
				}
			}
			// the value decoded fresh is the receiver of the next accepted input of this item
			c18Used[item] = &c18UsedVal{in: append([]byte(nil), in...), val: val}
		}
	}
}

type c18UsedVal struct {
	in  []byte
	val any
}

// c18Used keeps, per item, the last value decoded fresh: later accepted inputs are also decoded into it.
var c18Used = map[string]*c18UsedVal{}

// positions of little-endian uint32 / byte size prefixes inside a valid encoding, found by walking it
func c18Mutate(c *Ctx, item string, enc []byte, prefixOffsets []int, prefixWidth []int) map[string][][]byte {
	out := map[string][][]byte{"valid": {c18Exact(enc)}}
	for n := 0; n < len(enc); n++ {
		out["trunc"] = append(out["trunc"], c18Exact(enc[:n]))
	}
	out["ext"] = [][]byte{append(c18Exact(enc), 0), append(c18Exact(enc), 0xFF), append(c18Exact(enc), c.Rng.Bytes(1+c.Rng.Intn(6))...)}
	for i, off := range prefixOffsets {
		for _, d := range []int{1, -1} {
			m := c18Exact(enc)
			if prefixWidth[i] == 1 {
				m[off] = byte(int(m[off]) + d)
			} else {
				binary.LittleEndian.PutUint32(m[off:], uint32(int(binary.LittleEndian.Uint32(m[off:]))+d))
			}
			out["prefix±1"] = append(out["prefix±1"], m)
		}
	}
	for k := 0; k < 3 && len(enc) > 0; k++ {
		m := c18Exact(enc)
		m[c.Rng.Intn(len(m))] ^= 1 << uint(c.Rng.Intn(8))
		out["bitflip"] = append(out["bitflip"], m)
	}
	return out
}

// prefix offsets of an SP800-155 field block starting at base
func c18Ev3Prefixes(b []byte, base int) (offs, widths []int) {
	p := base + 20
	cstr := func() {
		if p < len(b) {
			offs, widths = append(offs, p), append(widths, 1)
			p += 1 + int(b[p])
		}
	}
	arr := func() {
		if p+4 <= len(b) {
			offs, widths = append(offs, p), append(widths, 4)
			p += 4 + int(binary.LittleEndian.Uint32(b[p:]))
		}
	}
	cstr()
	cstr()
	cstr()
	cstr()
	p += 4
	cstr()
	p += 4
	arr()
	p += 4
	arr()
	return
}

func runC18EventLog(c *Ctx) {
	n := c.N(120, 6000)
	decodeAll := func(item string, enc []byte, offs, widths []int) {
		for class, ins := range c18Mutate(c, item, enc, offs, widths) {
			for _, in := range ins {
				c18DecodeCases(c, item, in, class)
			}
		}
	}
	// roundtrip oracle on the implementation alone: decode(encode v) == v for both reader kinds
	roundtrip := func(item string, enc []byte, want string, kinds ...string) {
		for _, kind := range kinds {
			res, _, consumed := c18Decode(item, kind, enc)
			got := res
			if i := strings.Index(got, " rest="); i >= 0 {
				got = got[:i]
			}
			if got == "ok:"+want && consumed == len(enc) {
				continue
			}
			if kind == "reader" {
				if r2, _, _ := c18Decode(item, "buffer", enc); strings.HasPrefix(r2, "ok:"+want) {
					c.Find(c18SigEmptyAtEOF, "a valid encoding that ends in an empty size-prefixed item (empty array or empty event data) is rejected when read from a bytes.Reader: the decoders issue a zero-length Read at end of input and treat its io.EOF as an error", fmt.Sprintf("c18 op=rd s=%s kind=reader b=%s", item, hx(enc)))
					continue
				}
			}
			c.Find("c18/eventlog/"+item+"/roundtrip/decode-of-encode-differs", "decode(encode v) != v", fmt.Sprintf("kind=%s %s => %s", kind, want, res))
		}
	}
	for i := 0; i < n; i++ {
		// ---- ByteSizedCStr ----
		{
			s := c18Str(c)
			if c.Rng.Intn(10) == 0 {
				s = string(c.Rng.Bytes(255 + c.Rng.Intn(3)))
			}
			v := &eventlog.ByteSizedCStr{Data: s}
			enc, err := c18Encode(v)
			res := "err"
			if err == nil {
				res = "ok:" + hx(enc)
			}
			c.Case("c18 op=wr s=cstr v="+hx([]byte(s)), res, err == nil)
			c.Count(fmt.Sprintf("wr/cstr/%s", res[:2]))
			if err == nil {
				if len(s) > 254 {
					c.Find("c18/eventlog/ByteSizedCStr.Marshal/strict/too-long-accepted", "string longer than 254 bytes accepted", fmt.Sprint(len(s)))
				}
				if len(enc) != len(s)+2 || int(enc[0]) != len(s)+1 || enc[len(enc)-1] != 0 {
					c.Find("c18/eventlog/ByteSizedCStr.Marshal/size", "encoding is not size byte + data + NUL", hx(enc))
				}
				roundtrip("cstr", enc, hx([]byte(s)), "buffer", "reader")
				if i < c.N(16, 400) {
					decodeAll("cstr", enc, []int{0}, []int{1})
					// terminator replaced
					m := c18Exact(enc)
					m[len(m)-1] = 1 + byte(c.Rng.Intn(255))
					c18DecodeCases(c, "cstr", m, "reserved")
				}
			} else if len(s) <= 254 {
				c.Find("c18/eventlog/ByteSizedCStr.Marshal/roundtrip/in-range-value-refused", "string of at most 254 bytes refused", fmt.Sprint(len(s)))
			}
		}
		// ---- Uint32SizedArray ----
		{
			d := c18Arr(c)
			v := &eventlog.Uint32SizedArray{Data: d}
			enc, err := c18Encode(v)
			res := "err"
			if err == nil {
				res = "ok:" + hx(enc)
			}
			c.Case("c18 op=wr s=u32arr v="+hx(d), res, err == nil)
			c.Count("wr/u32arr/" + res[:2])
			if err != nil || len(enc) != 4+len(d) || int(binary.LittleEndian.Uint32(enc)) != len(d) {
				c.Find("c18/eventlog/Uint32SizedArray.Marshal/size", "encoding is not u32 size + data", hx(d))
			} else {
				roundtrip("u32arr", enc, hx(d), "buffer", "reader")
				if i < c.N(16, 400) {
					decodeAll("u32arr", enc, []int{0}, []int{4})
				}
			}
		}
		// ---- EfiGUID (stream form) ----
		{
			var u uuid.UUID
			copy(u[:], c.Rng.Bytes(16))
			enc, err := c18Encode(&eventlog.EfiGUID{UUID: u})
			res := "err"
			if err == nil {
				res = "ok:" + hx(enc)
			}
			c.Case("c18 op=wr s=guid v="+hx(u[:]), res, err == nil)
			c.Count("wr/guid/" + res[:2])
			if err != nil || len(enc) != 16 {
				c.Find("c18/eventlog/EfiGUID.Marshal/size", "EFI_GUID is not 16 bytes", hx(u[:]))
			} else {
				roundtrip("guid", enc, hx(u[:]), "buffer", "reader")
				if i < c.N(4, 60) {
					decodeAll("guid", enc, nil, nil)
				}
			}
		}
		// ---- TaggedDigest ----
		{
			d := c18DigestRand(c)
			enc, err := c18Encode(d)
			res := "err"
			if err == nil {
				res = "ok:" + hx(enc)
			}
			c.Case("c18 op=wr s=digest v="+c18DigestText(d), res, err == nil)
			c.Count(fmt.Sprintf("wr/digest/alg%d/%s", d.AlgID, res[:2]))
			ok := c18DigestOK(d)
			switch {
			case err == nil && !ok:
				c.Find("c18/eventlog/TaggedDigest.Marshal/strict/bad-digest-accepted", "unknown algorithm or wrong digest length accepted", c18DigestText(d))
			case err != nil && ok:
				c.Find("c18/eventlog/TaggedDigest.Marshal/roundtrip/in-range-value-refused", "well-formed digest refused", c18DigestText(d))
			case err == nil:
				if len(enc) != 2+c18AlgSize[d.AlgID] {
					c.Find("c18/eventlog/TaggedDigest.Marshal/size", "encoding is not alg id + digest of the algorithm's size", c18DigestText(d))
				}
				roundtrip("digest", enc, c18DigestText(d), "buffer", "reader")
				if i < c.N(12, 300) {
					decodeAll("digest", enc, nil, nil)
					for _, a := range []uint16{0, 5, 13, 18, 0xdec0} { // unsupported algorithm ids
						m := c18Exact(enc)
						binary.LittleEndian.PutUint16(m, a)
						c18DecodeCases(c, "digest", m, "reserved")
					}
				}
			}
		}
		// ---- SP800155Event3 ----
		{
			e := c18Ev3Rand(c)
			enc, err := e.MarshalToBytes()
			res := "err"
			if err == nil {
				res = "ok:" + hx(enc)
			}
			c.Case("c18 op=wr s=event3 v="+c18Ev3Text(e), res, err == nil)
			c.Count("wr/event3/" + res[:2])
			if err != nil || !bytes.Equal(enc[:16], c18Sig) {
				c.Find("c18/eventlog/SP800155Event3.MarshalToBytes/roundtrip/in-range-value-refused", "well-formed event refused or signature missing", c18Ev3Text(e))
			} else {
				f := enc[16:]
				want := 4 + 16 + len(e.PlatformManufacturerStr.Data) + 2 + len(e.PlatformModel.Data) + 2 + len(e.PlatformVersion.Data) + 2 +
					len(e.FirmwareManufacturerStr.Data) + 2 + 4 + len(e.FirmwareVersion.Data) + 2 + 4 + 4 + len(e.RIMLocator.Data) + 4 + 4 + len(e.PlatformCertLocator.Data)
				if len(f) != want {
					c.Find("c18/eventlog/SP800155Event3.MarshalToBytes/size", "encoding size differs from the sum of the field sizes", c18Ev3Text(e))
				}
				roundtrip("event3", f, c18Ev3Text(e), "buffer")
				// documented tolerance: zero padding (HOB alignment), any amount
				for _, k := range []int{1, 7, 8, 33} {
					padded := append(c18Exact(f), make([]byte, k)...)
					roundtrip("event3", padded, c18Ev3Text(e), "buffer")
					c18DecodeCases(c, "event3", padded, "zero-padded")
					nz := c18Exact(padded)
					nz[len(f)+c.Rng.Intn(k)] = 1 + byte(c.Rng.Intn(255))
					if r, _, _ := c18Decode("event3", "buffer", nz); strings.HasPrefix(r, "ok:") {
						c.Find("c18/eventlog/SP800155Event3.UnmarshalFromBytes/strict/nonzero-padding-accepted", "non-zero byte after the fields accepted", hx(nz))
					}
					c18DecodeCases(c, "event3", nz, "reserved")
				}
				if i < c.N(10, 250) {
					offs, widths := c18Ev3Prefixes(f, 0)
					decodeAll("event3", f, offs, widths)
				}
			}
		}
		// ---- TCGPCClientPCREvent ----
		{
			e := c18PcrRand(c)
			enc, err := c18Encode(e)
			res := "err"
			if err == nil {
				res = "ok:" + hx(enc)
			}
			c.Case("c18 op=wr s=pcrevent v="+c18PcrText(e), res, err == nil)
			c.Count("wr/pcrevent/" + strings.SplitN(c18DataText(&e.EventData), ":", 2)[0] + "/" + res[:2])
			if err != nil {
				c.Find("c18/eventlog/TCGPCClientPCREvent.Marshal/roundtrip/in-range-value-refused", "well-formed event refused", c18PcrText(e))
			} else {
				if int(binary.LittleEndian.Uint32(enc[28:32])) != len(enc)-32 {
					c.Find("c18/eventlog/TCGPCClientPCREvent.Marshal/size", "event is not 32 bytes + event data", c18PcrText(e))
				}
				roundtrip("pcrevent", enc, c18PcrText(e), "buffer", "reader")
				if i < c.N(10, 250) {
					offs, widths := []int{28}, []int{4}
					if c18IsEv3(&e.EventData) {
						o, w := c18Ev3Prefixes(enc, 32+16)
						offs, widths = append(offs, o...), append(widths, w...)
					}
					decodeAll("pcrevent", enc, offs, widths)
				}
			}
		}
		// ---- TCGPCREvent2 ----
		{
			e := c18Ev2Rand(c)
			enc, err := c18Encode(e)
			res := "err"
			if err == nil {
				res = "ok:" + hx(enc)
			}
			c.Case("c18 op=wr s=event2 v="+c18Ev2Text(e), res, err == nil)
			c.Count(fmt.Sprintf("wr/event2/digests%d/%s", len(e.Digests.Array), res[:2]))
			allOK := true
			dsz := 0
			for _, d := range e.Digests.Array {
				allOK = allOK && c18DigestOK(d)
				dsz += 2 + len(d.Digest)
			}
			switch {
			case err == nil && !allOK:
				c.Find("c18/eventlog/TCGPCREvent2.Marshal/strict/bad-digest-accepted", "event with a malformed digest accepted", c18Ev2Text(e))
			case err != nil && allOK:
				c.Find("c18/eventlog/TCGPCREvent2.Marshal/roundtrip/in-range-value-refused", "well-formed event refused", c18Ev2Text(e))
			case err == nil:
				if int(binary.LittleEndian.Uint32(enc[8:12])) != len(e.Digests.Array) || int(binary.LittleEndian.Uint32(enc[12+dsz:16+dsz])) != len(enc)-16-dsz {
					c.Find("c18/eventlog/TCGPCREvent2.Marshal/size", "event is not 8 bytes + digest array + sized event data", c18Ev2Text(e))
				}
				roundtrip("event2", enc, c18Ev2Text(e), "buffer", "reader")
				if i < c.N(10, 250) {
					decodeAll("event2", enc, []int{8, 12 + dsz}, []int{4, 4})
				}
			}
		}
		// ---- CryptoAgileLog ----
		{
			l := &eventlog.CryptoAgileLog{Header: *c18PcrRand(c)}
			allOK := true
			for k, m := 0, c.Rng.Intn(4); k < m; k++ {
				e := c18Ev2Rand(c)
				for _, d := range e.Digests.Array {
					if !c18DigestOK(d) { // keep logs well-formed: malformed digests are covered above
						d.AlgID, d.Digest = 4, c.Rng.Bytes(20)
					}
				}
				l.Events = append(l.Events, e)
			}
			enc, err := c18Encode(l)
			res := "err"
			if err == nil {
				res = "ok:" + hx(enc)
			}
			c.Case("c18 op=wr s=log v="+c18LogText(l), res, err == nil)
			c.Count(fmt.Sprintf("wr/log/events%d/%s", len(l.Events), res[:2]))
			if err != nil {
				if allOK {
					c.Find("c18/eventlog/CryptoAgileLog.Marshal/roundtrip/in-range-value-refused", "well-formed log refused", c18LogText(l))
				}
			} else {
				roundtrip("log", enc, c18LogText(l), "buffer", "reader")
				if i < c.N(12, 300) {
					decodeAll("log", enc, []int{28}, []int{4})
				}
			}
		}
	}
	// random bytes (sizes kept small by the walker's limit; most are refused early)
	for i := 0; i < c.N(400, 40000); i++ {
		item := []string{"cstr", "u32arr", "digest", "pcrevent", "event2", "log", "event3"}[c.Rng.Intn(7)]
		b := c.Rng.Bytes(c.Rng.Intn(80))
		// make size prefixes plausible half of the time
		if c.Rng.Bool() {
			for k := 0; k+4 <= len(b); k += 4 {
				if c.Rng.Intn(3) == 0 {
					binary.LittleEndian.PutUint32(b[k:], uint32(c.Rng.Intn(24)))
				}
			}
		}
		c18DecodeCases(c, item, b, "random")
	}
}
