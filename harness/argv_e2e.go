package main

// Streams `argvend` and `argvkey`: raw argv END TO END.
//
//	argvend  generated argv vectors for `endorse` are run through the REAL command (cmd.MakeApp over the recording doubles of
//	         cli_run.go) and compared — phase of refusal, the endorse.Context handed to the pipeline field by field, result,
//	         effect log — with the Lean composition  EndorseCli.cliRun ∘ ArgvTrees.endorseFlagsOf ∘ Argv.runTool apTree
//	         (protocol `argv op=endorse`).  The generator first draws what the command line is to MEAN (a cliCase, as streams
//	         c06cli / c15cli do) and then spells it: `--n=v` / `--n v`, Bool flags bare / `=true` / `=1` / `=T` / `=false`,
//	         any order, overridden earlier occurrences (the last wins), numerals in every base-0 syntax, `--commit` with
//	         blanks around it, StringSlice occurrences split and joined, positional words anywhere (also the word `false`
//	         right after a bare Bool flag), `--`, `-test.*` words, flags in front of the command word — so the direct oracle of
//	         cli_run.go (cliOracle: what the request must name, effect freedom of --dry_run / --measurement_only, refusal
//	         before any effect) is evaluated against the MEANING the generator intended, independently of the Lean glue.
//	argvkey  histories of bootstrap / rotate / wipeout command lines on the shipped non-production root command
//	         (harness/c12_cli.go stack 0), every line respelled the same way, compared with
//	         KeyCli.cliStep ∘ ArgvTrees.keyFlagsOf ∘ Argv.runTool npTree (protocol `argv op=key`); the flag columns of the
//	         line say what the generator meant and the driver prints `spec=differs` when keyFlagsOf reads something else.

import (
	"errors"
	"fmt"
	"math/big"
	"runtime"
	"sort"
	"strconv"
	"strings"
	"sync"

	"github.com/spf13/cobra"
)

func init() {
	register("argvend", "real `endorse` command over the recording doubles, driven by RAW ARGV: every spelling (=/space, Bool texts, order, repetition, "+
		"numeral syntax, positional words, `--`, flags before the command word) of drawn command lines; compared end to end with "+
		"EndorseCli.cliRun (endorseFlagsOf (runTool argv)); direct oracle of C06 / C15 against the meaning the generator intended. "+
		"Non-trivial: the argv is refused, or --dry_run / --measurement_only is in force, or a document was written.", runArgvEndorse)
	register("argvkey", "histories of bootstrap / rotate / wipeout given as RAW ARGV to the shipped non-production root command, every line "+
		"respelled (=/space, Bool texts, order, overridden occurrences, positional words between flags, flags before the command word); compared "+
		"end to end with KeyCli.cliStep (keyFlagsOf (runTool argv)). Non-trivial: as stream c12cli.", runArgvKey)
}

// ---------------------------------------------------------------------------------------------------------------------
// spelling

type avItem struct {
	name  string
	words []string
}

var avTrue = []string{"", "=true", "=1", "=T", "=TRUE", "=t", "=True"}
var avFalse = []string{"=false", "=0", "=F", "=FALSE", "=f", "=False"}

func avBool(r *Rng, name string, v bool, always bool) []avItem {
	if v {
		return []avItem{{name, []string{"--" + name + avTrue[r.Intn(len(avTrue))]}}}
	}
	if always || r.Intn(4) == 0 {
		return []avItem{{name, []string{"--" + name + avFalse[r.Intn(len(avFalse))]}}}
	}
	return nil
}

func avVal(r *Rng, name, v string) avItem {
	if r.Bool() {
		return avItem{name, []string{"--" + name + "=" + v}}
	}
	return avItem{name, []string{"--" + name, v}}
}

// avShuffle permutes items keeping the relative order of items of the same flag.
func avShuffle(r *Rng, items []avItem) []avItem {
	idx := make([]int, len(items))
	for i := range idx {
		idx[i] = i
	}
	for i := len(idx) - 1; i > 0; i-- {
		j := r.Intn(i + 1)
		idx[i], idx[j] = idx[j], idx[i]
	}
	// positions of each name, refilled in original order
	pos := map[string][]int{}
	for p, i := range idx {
		pos[items[i].name] = append(pos[items[i].name], p)
	}
	out := make([]avItem, len(items))
	next := map[string]int{}
	for _, it := range items {
		ps := pos[it.name]
		sort.Ints(ps)
		out[ps[next[it.name]]] = it
		next[it.name]++
	}
	return out
}

// avAssemble: command word, items, positional words spread among the items; now and then an `=`-spelled or two-word item
// (of a flag that occurs once) stands in front of the command word.
func avAssemble(r *Rng, sub string, items []avItem, pos []string) []string {
	count := map[string]int{}
	for _, it := range items {
		count[it.name]++
	}
	var front, back []avItem
	for _, it := range items {
		bare := len(it.words) == 1 && !strings.Contains(it.words[0], "=")
		if !bare && count[it.name] == 1 && r.Intn(9) == 0 {
			front = append(front, it)
		} else {
			back = append(back, it)
		}
	}
	var out []string
	for _, it := range front {
		out = append(out, it.words...)
	}
	out = append(out, sub)
	// the positional words keep their order
	slots := make([][]string, len(back)+1)
	ks := make([]int, len(pos))
	for i := range pos {
		ks[i] = r.Intn(len(back) + 1)
	}
	sort.Ints(ks)
	for i, p := range pos {
		slots[ks[i]] = append(slots[ks[i]], p)
	}
	for i, it := range back {
		out = append(out, slots[i]...)
		out = append(out, it.words...)
	}
	return append(out, slots[len(back)]...)
}

func avHexWords(l []string) string { return argvHexList(l) }

// ---------------------------------------------------------------------------------------------------------------------
// numerals

func avUintTable(texts []string) string {
	var out []string
	seen := map[string]bool{}
	for _, t := range texts {
		if seen[t] {
			continue
		}
		seen[t] = true
		v := "E"
		if n, err := strconv.ParseUint(t, 0, 64); err == nil {
			v = strconv.FormatUint(n, 10)
		} else if errors.Is(err, strconv.ErrRange) {
			if z, ok := new(big.Int).SetString(t, 0); ok {
				v = z.String()
			}
		}
		out = append(out, argvHex(t)+"@"+v)
	}
	return strings.Join(out, ";")
}

func avIntTable(texts []string) string {
	var out []string
	seen := map[string]bool{}
	for _, t := range texts {
		if seen[t] {
			continue
		}
		seen[t] = true
		v := "E"
		if n, err := strconv.ParseInt(t, 0, 64); err == nil {
			v = strconv.FormatInt(n, 10)
		} else if errors.Is(err, strconv.ErrRange) {
			if z, ok := new(big.Int).SetString(t, 0); ok {
				v = z.String()
			}
		}
		out = append(out, argvHex(t)+"@"+v)
	}
	return strings.Join(out, ";")
}

// avSpellUint: another base-0 spelling of a decimal numeral text (unchanged when the text is no uint64).
func avSpellUint(r *Rng, dec string) string {
	n, err := strconv.ParseUint(dec, 10, 64)
	if err != nil {
		return dec
	}
	switch r.Intn(8) {
	case 0:
		return fmt.Sprintf("0x%x", n)
	case 1:
		return fmt.Sprintf("0X%X", n)
	case 2:
		return fmt.Sprintf("0b%b", n)
	case 3:
		return fmt.Sprintf("0o%o", n)
	case 4:
		return fmt.Sprintf("0%o", n)
	case 5:
		return fmt.Sprintf("0x_%x", n)
	}
	return dec
}

func avSpellInt(r *Rng, dec string) string {
	n, err := strconv.ParseInt(dec, 10, 64)
	if err != nil {
		return dec
	}
	switch r.Intn(6) {
	case 0:
		if n >= 0 {
			return fmt.Sprintf("+%d", n)
		}
	case 1:
		if n >= 0 {
			return fmt.Sprintf("0x%x", n)
		}
		return fmt.Sprintf("-0x%x", -n)
	case 2:
		if n >= 0 {
			return fmt.Sprintf("0%o", n)
		}
	}
	return dec
}

// ---------------------------------------------------------------------------------------------------------------------
// endorse

type avPlan struct {
	argv    []string
	unums   []string
	inums   []string
	refused string // "" or why cobra / pflag must refuse the argv before any hook
	help    bool
}

var avEndorseBools = map[string]bool{"add_snp": true, "add_tdx": true, "dry_run": true, "tdx_include_early_accept": true, "measurement_only": true,
	"quiet": true, "verbose": true, "use_logs": true, "overwrite": true, "keep_going": true}

// avSpellEndorse spells the command line cs means.  It may refine cs (e.g. the canonical decimal of a numeral it writes in
// another base) and returns the plan.
func avSpellEndorse(r *Rng, cs *cliCase) avPlan {
	var p avPlan
	var items []avItem
	add := func(it ...avItem) { items = append(items, it...) }
	str := func(name, v string, given bool) {
		if !given {
			return
		}
		if r.Intn(6) == 0 {
			add(avVal(r, name, []string{"zz", "", "--dry_run", "-x", "fw.fd"}[r.Intn(5)])) // overridden: the last occurrence wins
		}
		add(avVal(r, name, v))
	}
	str("uefi", cs.uefi, cs.uefi != "")
	str("out_dir", cs.outDir, cs.outDir != "")
	if cs.cl != "" {
		if r.Intn(6) == 0 {
			t := []string{"5", "0x10", "07"}[r.Intn(3)]
			p.unums = append(p.unums, t)
			add(avVal(r, "clspec", t))
		}
		t := avSpellUint(r, cs.cl)
		p.unums = append(p.unums, t)
		add(avVal(r, "clspec", t))
	}
	if cs.commit != nil {
		t := *cs.commit
		if r.Intn(5) == 0 {
			t = []string{" ", "\t", " ", ""}[r.Intn(4)] + t + []string{" ", "\n", " ", ""}[r.Intn(4)] // bytesHexValue.Set trims
		}
		if r.Intn(6) == 0 {
			add(avVal(r, "commit", "00ff"))
		}
		add(avVal(r, "commit", t))
	}
	if cs.retries != "" {
		t := avSpellInt(r, cs.retries)
		p.inums = append(p.inums, t)
		add(avVal(r, "commit_retries", t))
	}
	for _, t := range cs.ts {
		add(avVal(r, "timestamp", t))
	}
	add(avBool(r, "add_snp", cs.addSnp, false)...)
	add(avBool(r, "add_tdx", cs.addTdx, false)...)
	if cs.vm != "" {
		if r.Intn(6) == 0 {
			t := []string{"3", "0b1", "0"}[r.Intn(3)]
			p.unums = append(p.unums, t)
			add(avVal(r, "snp_launch_vmsas", t))
		}
		t := avSpellUint(r, cs.vm)
		p.unums = append(p.unums, t)
		add(avVal(r, "snp_launch_vmsas", t))
	}
	for _, t := range cs.prod {
		add(avVal(r, "snp_product", t))
	}
	str("snp_image_id", cs.iid, cs.iid != "")
	str("snp_family_id", cs.fam, cs.fam != "")
	if len(cs.shapes) > 0 {
		// one occurrence with all shapes, or several occurrences (StringSlice appends)
		if r.Bool() {
			add(avVal(r, "tdx_machine_shapes", strings.Join(cs.shapes, ",")))
		} else {
			k := 1 + r.Intn(len(cs.shapes))
			add(avVal(r, "tdx_machine_shapes", strings.Join(cs.shapes[:k], ",")))
			if k < len(cs.shapes) {
				add(avVal(r, "tdx_machine_shapes", strings.Join(cs.shapes[k:], ",")))
			} else if r.Bool() {
				add(avVal(r, "tdx_machine_shapes", "")) // the empty text is the empty list
			}
		}
	}
	for _, b := range []struct {
		n string
		v bool
	}{{"tdx_include_early_accept", cs.early}, {"dry_run", cs.dry}, {"measurement_only", cs.mo}, {"overwrite", cs.ow}} {
		over := r.Intn(5) == 0
		if over {
			add(avBool(r, b.n, !b.v, true)...) // overridden: the last occurrence wins
		}
		add(avBool(r, b.n, b.v, over)...)
	}
	str("snapshot_dir", cs.snap, cs.snap != "")
	str("candidate_name", cs.cand, cs.cand != "")
	str("release_branch", cs.branch, cs.branch != "")
	str("svsm_path", cs.svsm, cs.svsm != "")
	str("svsm_snp_measurement_path", cs.svsmM, cs.svsmM != "")
	if r.Bool() {
		add(avItem{"quiet", []string{"--quiet"}})
	}
	items = avShuffle(r, items)
	// positional words: ignored by the command
	var pos []string
	for k := r.Intn(3); k > 0 && r.Intn(3) == 0; k-- {
		pos = append(pos, []string{"x", "false", "-", "", "endorse", "true", "fw.fd"}[r.Intn(7)])
	}
	argv := avAssemble(r, "endorse", items, pos)
	// the word `false` / `true` right after a BARE Bool flag: a positional, the flag stays set
	if r.Intn(4) == 0 {
		for i, w := range argv {
			if strings.HasPrefix(w, "--") && !strings.Contains(w, "=") && avEndorseBools[w[2:]] {
				rest := append([]string{[]string{"false", "0", "true"}[r.Intn(3)]}, argv[i+1:]...)
				argv = append(append([]string{}, argv[:i+1]...), rest...)
				break
			}
		}
	}
	if r.Intn(10) == 0 {
		argv = append(argv, "--", []string{"--dry_run", "--bogus", "--measurement_only=true"}[r.Intn(3)])
	}
	if r.Intn(12) == 0 {
		// pflag skips -test.* words
		i := 1 + r.Intn(len(argv))
		for i < len(argv) && i > 0 && strings.HasPrefix(argv[i-1], "--") && !strings.Contains(argv[i-1], "=") && !avEndorseBools[argv[i-1][2:]] {
			i++ // not between a value flag and its value
		}
		if endorseAt := avIndex(argv, "endorse"); i > endorseAt && !avAfterDashDash(argv, i) {
			argv = append(append(append([]string{}, argv[:i]...), "-test.v"), argv[i:]...)
		}
	}
	p.argv = argv
	return p
}

func avIndex(l []string, w string) int {
	for i, x := range l {
		if x == w {
			return i
		}
	}
	return -1
}

func avAfterDashDash(l []string, i int) bool {
	for _, x := range l[:i] {
		if x == "--" {
			return true
		}
	}
	return false
}

// avBreak turns a plan into one cobra / pflag must refuse.
func avBreak(r *Rng, p *avPlan) {
	a := p.argv
	at := 1 + avIndex(a, "endorse")
	ins := func(i int, w ...string) {
		a = append(append(append([]string{}, a[:i]...), w...), a[i:]...)
	}
	switch r.Intn(9) {
	case 0:
		ins(at, "--dry_runs")
		p.refused = "unknown-flag"
	case 1:
		ins(at, "--dry_run=maybe")
		p.refused = "bool-text"
	case 2:
		ins(at, "--measurement_only=")
		p.refused = "bool-text"
	case 3:
		a = append(a, "--uefi")
		p.refused = "needs-argument"
		if avAfterDashDash(a, len(a)-1) {
			p.refused = ""
		}
	case 4:
		ins(at, "-n")
		p.refused = "unknown-shorthand"
	case 5:
		// a bare Bool flag in front of the command word takes the command word for its value and cobra finds no
		// command — unless a LATER word happens to be a command name (the generator's positional words include
		// "endorse"), in which case cobra resolves to that one and the argv is accepted: not this break then
		laterCmd := false
		for _, w := range a[1:] {
			switch w {
			case "endorse", "bootstrap", "rotate", "wipeout", "help", "completion":
				laterCmd = true
			}
		}
		if a[0] == "endorse" && !laterCmd {
			ins(0, "--dry_run")
			p.refused = "bare-bool-before-command"
		} else {
			ins(at, "--bogus=1")
			p.refused = "unknown-flag"
		}
	case 6:
		t := []string{"12x", "", "1__0", "-1", "+1", "08", "0x", "18446744073709551616", "١"}[r.Intn(9)]
		p.unums = append(p.unums, t)
		ins(at, "--clspec="+t)
		p.refused = "numeral"
	case 7:
		t := []string{"4294967296", "1e3", " 1", "0x1_0000_0000"}[r.Intn(4)]
		p.unums = append(p.unums, t)
		ins(at, "--snp_launch_vmsas", t)
		p.refused = "numeral"
	default:
		t := []string{"9223372036854775808", "--", "1.0", "-0x8000000000000001"}[r.Intn(4)]
		p.inums = append(p.inums, t)
		ins(at, "--commit_retries="+t)
		p.refused = "numeral"
	}
	p.argv = a
}

func avEndorseOne(c *Ctx, dir string, cs cliCase, p avPlan) {
	cs.argv = p.argv
	res, line := cliRun(cs, dir)
	op := "argv op=endorse tree=ap a=" + avHexWords(p.argv) + " unums=" + avUintTable(p.unums) + " inums=" + avIntTable(p.inums) + " " +
		strings.TrimPrefix(line, "cli op=run ")
	tk := "run"
	switch {
	case res.phase == "parse":
		tk = "err"
	case res.res == "ok" && res.ec == nil:
		tk = "help"
	}
	short := "argv: " + strings.Join(p.argv, " ") + " | " + cliShortLine(op)
	wrote := false
	switch {
	case p.help:
		if tk != "help" || len(res.effs) != 0 || len(res.v0.files) != 0 {
			c.Find("c15/argv/help-has-effect", "an argv asking for usage ran the command or had an effect", short)
		}
	case p.refused != "":
		if res.phase != "parse" {
			c.Find("c15/argv/accepted-invalid/"+p.refused, "an argv cobra / pflag must refuse ("+p.refused+") got past flag parsing (phase "+res.phase+")", short)
		}
		if len(res.effs) != 0 || len(res.v0.files) != 0 || len(res.signed) != 0 {
			c.Find("c15/argv/refused-after-effect/"+p.refused, "a refused argv had an effect: "+strings.Join(res.effs, ","), short)
		}
	default:
		if res.res != "panic" && tk == "err" && cliExpected(cs).invalid(cs) == "" {
			c.Find("c15/argv/refused-valid-spelling", "a spelling of a well-formed command line was refused by flag parsing: "+res.errText, short)
		}
		wrote = cliOracle(c, "c15/argv", cs, res, short)
	}
	nontrivial := res.phase != "run" || cs.dry || cs.mo || wrote
	c.Case(op, "tok="+tk+" "+res.impl(), nontrivial)
	k := res.phase
	if res.phase == "prerun" || res.phase == "init" {
		k += ":" + res.cls
	}
	why := "meant"
	if p.refused != "" {
		why = "broken:" + p.refused
	} else if p.help {
		why = "help"
	}
	c.Count(fmt.Sprintf("endorse/%s/%s/mo%s-dry%s/tok=%s/%s-%s", cs.tag, why, b2s(cs.mo), b2s(cs.dry), tk, k, res.res))
	c.Count(fmt.Sprintf("endorse/argv-words/%d", len(p.argv)/4*4))
}

func runArgvEndorse(c *Ctx) {
	defer func(v bool) { cobra.EnableTraverseRunHooks = v }(cobra.EnableTraverseRunHooks)
	cobra.EnableTraverseRunHooks = false
	images := cliImages(51)
	r := c.Rng
	pick := func(n int) int { return r.Intn(n) }
	str := func(s string) *string { return &s }
	cliWithDir(func(dir string) {
		// ---- 1. the observations that have a theorem (Props/CliArgv.lean C15_argv_cli_*), on a command line that would write ----
		base := func() cliCase {
			return cliCase{im: images[0], uefi: "fw.fd", addSnp: true, outDir: "out", ow: true, rndSeed: 5, ts: []string{cliT1}, vm: "2", iid: cliIID,
				cl: "77", retries: "2", mread: 'M', files: map[string][]byte{"fw_scrtm_ver.pb": cliSideFile(3)}, tag: "observation"}
		}
		pre := []string{"--uefi", "fw.fd", "--add_snp", "--out_dir=out", "--overwrite", "--timestamp=" + cliT1, "--snp_launch_vmsas", "2",
			"--snp_image_id", cliIID, "--clspec=77", "--commit_retries", "2"}
		type ob struct {
			tail    []string
			front   []string
			dry, mo bool
			refused string
		}
		obs := []ob{
			{tail: []string{"--dry_run"}, dry: true}, {tail: []string{"--dry_run=true"}, dry: true}, {tail: []string{"--dry_run=1"}, dry: true},
			{tail: []string{"--dry_run=T"}, dry: true}, {tail: []string{"--dry_run=false", "--dry_run"}, dry: true},
			{tail: []string{"--dry_run", "false"}, dry: true}, {tail: []string{"--dry_run", "false", "--quiet"}, dry: true},
			{tail: []string{"x", "--dry_run"}, dry: true}, {front: []string{"--dry_run=true"}, dry: true},
			{tail: []string{"--dry_run", "--dry_run=false"}}, {tail: []string{"--dry_run=false"}}, {tail: []string{"--dry_run=0"}},
			{tail: []string{"--", "--dry_run"}}, {tail: nil},
			{tail: []string{"--dry_run=maybe"}, refused: "bool-text"}, {tail: []string{"--dry_run="}, refused: "bool-text"},
			{tail: []string{"--dry_runs"}, refused: "unknown-flag"}, {front: []string{"--dry_run"}, refused: "bare-bool-before-command"},
			{tail: []string{"-dry_run"}, refused: "unknown-shorthand"},
			{tail: []string{"--measurement_only"}, mo: true}, {tail: []string{"--measurement_only=true"}, mo: true},
			{tail: []string{"--measurement_only", "false"}, mo: true}, {tail: []string{"--measurement_only=false", "--measurement_only"}, mo: true},
			{tail: []string{"--measurement_only", "--dry_run", "false"}, mo: true, dry: true},
			{tail: []string{"--measurement_only=false"}},
		}
		for _, o := range obs {
			cs := base()
			cs.dry, cs.mo = o.dry, o.mo
			argv := append(append(append(append([]string{}, o.front...), "endorse"), pre...), o.tail...)
			avEndorseOne(c, dir, cs, avPlan{argv: argv, unums: []string{"2", "77"}, inums: []string{"2"}, refused: o.refused})
		}
		// `--uefi` swallowing `--dry_run`: the image path is the text "--dry_run", the run is NOT a dry run and is refused (suffix)
		{
			cs := base()
			cs.uefi, cs.files, cs.noImage = "--dry_run", nil, true
			avEndorseOne(c, dir, cs, avPlan{argv: []string{"endorse", "--add_snp", "--uefi", "--dry_run"}})
		}
		for _, h := range [][]string{{"endorse", "--help"}, {"endorse", "-h"}, {"endorse", "--uefi=fw.fd", "--add_snp", "--help=true"}, {"help", "endorse"}, {"--help"}} {
			avEndorseOne(c, dir, base(), avPlan{argv: h, help: true})
		}

		// ---- 2. exhaustive Bool masks x technology, spelled at random ----
		for rep := 0; rep < c.N(1, 6); rep++ {
			for _, tech := range cliTechs {
				for mask := 0; mask < 32; mask++ {
					cs := cliCase{im: images[pick(2)], uefi: "fw.fd", addSnp: tech[0], addTdx: tech[1], outDir: "out", tag: "flags",
						dry: mask&1 != 0, mo: mask&2 != 0, ow: mask&4 != 0, early: mask&8 != 0, rndSeed: uint64(5 + pick(3)), files: map[string][]byte{}}
					if mask&16 != 0 {
						cs.snap, cs.cand = "snap", "rc3"
					}
					cliSideState(&cs, []string{"absent", "stem", "image", "both"}[pick(4)], mask)
					if tech[0] || pick(3) == 0 {
						cs.vm = []string{"", "1", "2", "0"}[pick(4)]
						cs.prod = [][]string{nil, {"Genoa"}, {"Milan"}, {"", "Genoa"}, {"Genoa", "Milan"}}[pick(5)]
						cs.iid = []string{"", cliIID}[pick(2)]
						cs.fam = []string{"", cliFAM}[pick(2)]
					}
					if tech[1] || pick(3) == 0 {
						cs.shapes = [][]string{nil, {"c3-standard-4"}, {"c3-standard-8", "c3-standard-4"}, {"c3-standard-4", "c3-standard-8", "c3-standard-4"}}[pick(4)]
					} else {
						cs.early = false
					}
					cs.ts = [][]string{{cliT1}, nil, {cliT2}, {"", cliT1}}[pick(4)]
					if k := pick(3); k == 1 {
						cs.commit = str(cliHex20)
					} else if k == 2 {
						cs.commit = str("")
					}
					cs.cl = []string{"", "77", "18446744073709551615", "0"}[pick(4)]
					cs.retries = []string{"", "2", "0", "-1"}[pick(4)]
					cs.exists = pick(4) == 0
					cs.mread = []byte{'N', 'M'}[pick(2)]
					p := avSpellEndorse(r, &cs)
					if pick(8) == 0 {
						avBreak(r, &p)
						cs.tag = "flags-broken"
					}
					avEndorseOne(c, dir, cs, p)
				}
			}
		}

		// ---- 3. random mixtures (the pools of stream c15cli part 4), spelled at random; one in seven broken ----
		pw := func(valid, all int) int {
			if pick(10) != 0 {
				return pick(valid)
			}
			return pick(all)
		}
		tsPool := [][]string{{cliT1}, nil, {cliT2}, {"", cliT1}, {cliT1, ""}, {cliT1, cliT2}, {"Tomorrow"}, {"0001-01-01T00:00:00Z", cliT2}}
		prodPool := [][]string{nil, {"Genoa"}, {"Milan"}, {"", "Genoa"}, {"Genoa", "Milan"}, {"Turin"}, {"Rome"}, {"Milan", "genoa"}}
		commitPool := []*string{nil, str(cliHex20), str(""), str(strings.ToUpper(cliHex20)), str("abcd"), str(cliHex20 + "00"), str("xyz")}
		idPool := []string{"", cliIID, cliFAM, "{" + cliIID + "}", "nope", cliIID[:35]}
		shapePool := [][]string{nil, {"c3-standard-4"}, {"c3-standard-8", "c3-standard-4"}, {"c3-standard-176"}, {"c3-standard-4", "c3-standard-4"}, {"n2d-standard-2"}}
		uefiPool := []string{"fw.fd", "sub/fw.fd", "x.fd.y/z.fd", "", "fw.rom"}
		vmPool := []string{"", "0", "1", "2", "5", "4294967296"}
		clPool := []string{"", "1", "18446744073709551615", "18446744073709551616"}
		for i := 0; i < c.N(700, 12000); i++ {
			tech := cliTechs[1+pick(3)]
			if pick(10) == 0 {
				tech = cliTechs[0]
			}
			cs := cliCase{im: images[pick(2)], uefi: uefiPool[pw(3, len(uefiPool))], addSnp: tech[0], addTdx: tech[1], tag: "random",
				outDir: []string{"out", "out", ""}[pick(3)], dry: pick(2) == 0, mo: pick(3) == 0, ow: pick(2) == 0, early: pick(2) == 0,
				rndSeed: uint64(1 + pick(9)), files: map[string][]byte{}, ts: tsPool[pw(4, len(tsPool))], prod: prodPool[pw(5, len(prodPool))],
				commit: commitPool[pw(4, len(commitPool))], iid: idPool[pw(4, len(idPool))], fam: idPool[pw(4, len(idPool))],
				shapes: shapePool[pw(5, len(shapePool))], vm: vmPool[pw(5, len(vmPool))],
				cl: clPool[pw(3, len(clPool))], retries: []string{"", "0", "3", "-2"}[pick(4)],
				snap: []string{"", "", "snap"}[pick(3)], cand: []string{"", "rc0", "rc9"}[pick(3)], exists: pick(3) == 0, mread: []byte{'N', 'M'}[pick(2)],
				noImage: pick(40) == 0, gpreFail: pick(60) == 0, apreFail: pick(60) == 0, ginitFail: pick(60) == 0, ainitFail: pick(60) == 0}
			if cs.uefi != "" {
				p1, p2 := cliSidePaths(cs.uefi)
				sidePool := [][]byte{nil, cliSideFile(uint32(1 + pick(300))), {}, {0x08, 0x80, 0x80, 0x80, 0x80, 0x08}, {0x10, 0x01}, {0x08}}
				if b := sidePool[pw(5, len(sidePool))]; b != nil {
					cs.files[p1] = b
				}
				if b := sidePool[pw(5, len(sidePool))]; b != nil {
					cs.files[p2] = b
				}
			}
			if pick(6) == 0 {
				cs.svsmM = "m.txt"
				cs.files["m.txt"] = [][]byte{[]byte(strings.Repeat("7e", 48)), []byte(strings.Repeat("7e", 48) + "\n"), []byte("7e7e"), []byte("not hex")}[pw(2, 4)]
			}
			if pick(8) == 0 {
				cs.svsm = "s.igvm"
				if pick(8) != 0 {
					cs.files["s.igvm"] = []byte("svsm")
				}
			}
			p := avSpellEndorse(r, &cs)
			if pick(7) == 0 {
				avBreak(r, &p)
				cs.tag = "random-broken"
			}
			avEndorseOne(c, dir, cs, p)
		}
	})
}

// ---------------------------------------------------------------------------------------------------------------------
// bootstrap / rotate / wipeout

var avKeyBools = map[string]bool{"quiet": true, "overwrite": true, "keep_going": true, "force_prod_wipeout": true, "verbose": true, "use_logs": true}

// avRespellKey: a deterministic (seeded) respelling of the argument vector ccStack.argv builds: sub-command word, flags as
// `--n v` / `--n=v` / `--b` / `--b=text`, positional words last.
func avRespellKey(seed uint64, forceWord bool) func([]string) []string {
	return func(a []string) []string {
		r := &Rng{s: seed}
		sub := a[0]
		var items []avItem
		var pos []string
		i := 1
		for i < len(a) {
			w := a[i]
			switch {
			case !strings.HasPrefix(w, "--") || len(w) == 2:
				pos = append(pos, a[i:]...)
				i = len(a)
			case strings.Contains(w, "="):
				k := strings.Index(w, "=")
				name, v := w[2:k], w[k+1:]
				if avKeyBools[name] {
					b, _ := strconv.ParseBool(v)
					items = append(items, avBool(r, name, b, true)...)
				} else {
					items = append(items, avVal(r, name, v))
				}
				i++
			case avKeyBools[w[2:]]:
				if r.Intn(5) == 0 {
					items = append(items, avBool(r, w[2:], false, true)...) // overridden
				}
				items = append(items, avBool(r, w[2:], true, true)...)
				i++
			default:
				if i+1 >= len(a) {
					return a // not an argument vector of the expected shape: leave it
				}
				name := w[2:]
				if (name == "bucket" || name == "cert_dir" || name == "signing_key_cn" || name == "key_dir") && r.Intn(5) == 0 {
					items = append(items, avVal(r, name, []string{"zz", "", "--quiet"}[r.Intn(3)])) // overridden: the last wins
				}
				items = append(items, avVal(r, name, a[i+1]))
				i += 2
			}
		}
		items = avShuffle(r, items)
		if forceWord && len(pos) > 0 {
			// the first positional word right after a bare --force_prod_wipeout
			var rest []avItem
			var force *avItem
			for k := range items {
				if items[k].name == "force_prod_wipeout" && force == nil && k == avLastIndex(items, "force_prod_wipeout") {
					it := avItem{"force_prod_wipeout", []string{"--force_prod_wipeout"}}
					force = &it
				} else {
					rest = append(rest, items[k])
				}
			}
			if force != nil {
				out := []string{sub}
				cut := r.Intn(len(rest) + 1)
				for _, it := range rest[:cut] {
					out = append(out, it.words...)
				}
				out = append(out, "--force_prod_wipeout", pos[0])
				for _, it := range rest[cut:] {
					out = append(out, it.words...)
				}
				return append(out, pos[1:]...)
			}
		}
		// positional words that look like flags stay last (after the flags they would otherwise be read as flags)
		for _, p := range pos {
			if strings.HasPrefix(p, "-") && p != "-" {
				out := avAssemble(r, sub, items, nil)
				return append(out, pos...)
			}
		}
		return avAssemble(r, sub, items, pos)
	}
}

func avLastIndex(items []avItem, name string) int {
	k := -1
	for i, it := range items {
		if it.name == name {
			k = i
		}
	}
	return k
}

func runArgvKey(c *Ctx) {
	defer func(v bool) { cobra.EnableTraverseRunHooks = v }(cobra.EnableTraverseRunHooks)
	cobra.EnableTraverseRunHooks = false
	seq := c12Sequential()
	site := ccSite{"bkt", "certs", "root.crt"}
	type job struct {
		h    []ccLine
		site ccSite
		seed uint64
	}
	var jobs []job
	n := uint64(0)
	add := func(h []ccLine, st ccSite) {
		h = append([]ccLine{}, h...)
		for k := range h {
			n++
			h[k].respell = avRespellKey(c.Seed*7919+n*31+uint64(k), false)
		}
		jobs = append(jobs, job{h, st, n*11 + c.Seed*1000003})
		c.Count(fmt.Sprintf("key/history-length/%d", len(h)))
	}
	// the observation `wipeout --force_prod_wipeout false` (theorem C12_argv_bool_takes_no_value) after a bootstrap: forces, and
	// the word `false` selects nothing to wipe; next to the selectors that do
	for _, sel := range [][]string{{"false"}, {"ca"}, {"keys"}, {"true"}, {"0"}} {
		for _, ow := range []bool{false, true} {
			h := []ccLine{{sub: 'b', kd: 'd', tag: "obs-bootstrap"}, {sub: 'w', kd: 'd', force: true, ow: ow, args: sel, tag: "obs-force-word-" + sel[0]},
				{sub: 'r', kd: 'd', tag: "obs-rotate-after"}}
			h = append([]ccLine{}, h...)
			for k := range h {
				n++
				h[k].respell = avRespellKey(c.Seed*7919+n*31+uint64(k), k == 1)
			}
			jobs = append(jobs, job{h, site, n*11 + c.Seed*1000003})
		}
	}
	for _, h := range ccFixed() {
		add(h, site)
	}
	dh, ds := ccDerived()
	add(dh, ds)
	for i := 0; i < c.N(40, 600); i++ {
		add(ccGenHistory(c.Rng), site)
	}
	results := make([]c12Result, len(jobs))
	var wg sync.WaitGroup
	sem := make(chan struct{}, runtime.NumCPU())
	for i := range jobs {
		wg.Add(1)
		sem <- struct{}{}
		go func(i int) {
			defer wg.Done()
			defer func() { <-sem }()
			results[i] = ccRunHistory(0, jobs[i].h, jobs[i].site, jobs[i].seed, seq)
		}(i)
	}
	wg.Wait()
	for i, r := range results {
		dummy := &ccStack{kind: 0, dir: "$D", site: jobs[i].site}
		var av []string
		for k := range r.ops {
			words := dummy.argv(jobs[i].h[k])
			av = append(av, avHexWords(words))
			op := "argv op=key " + strings.TrimPrefix(r.ops[k], "c12cli op=hist ") + " av=" + strings.Join(av, ";")
			c.Case(op, r.impls[k], r.nontriv[k])
			c.Count(fmt.Sprintf("key/argv-words/%d", len(words)/4*4))
			front := 0
			for _, w := range words {
				if w == jobs[i].h[k].subName() {
					break
				}
				front++
			}
			c.Count(fmt.Sprintf("key/words-before-command/%d", front))
		}
		for k, v := range r.counts {
			c.Hist["key/"+k] += v
		}
		for _, f := range r.finds {
			c.Find(f.sig, f.what, "stream argvkey: "+f.replay)
		}
	}
}
